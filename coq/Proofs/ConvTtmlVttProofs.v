(* C07, styled sources, TTML -> WebVTT: the conversion of Model/ConvTtmlVtt.v composed with the WebVTT round trip
   (Proofs/VttDoc.v, write_read_vtt).

   The WebVTT representability predicate repr_vdoc covers the writer's normal form of a line: no TTMLColor on a run, and
   no two adjacent runs with the same tag stack (the reader merges them).  The lines a TTML source gives are not in that
   form (every span is its own run; a colour is TTMLColor), but they are written byte for byte like the lines of
   tv_norm (Model/ConvTtmlVtt.v): a span of one of the five colours as a run inside the class tag c.NAME, adjacent spans
   without such a colour as one run (tv_norm_bytes).  Hence the theorem is stated with
   repr_vdoc (tv_norm (conv_ttml_vtt d)) so ro. *)
From Coq Require Import List ZArith NArith Bool Lia.
From Astisub Require Import Kit.Base Kit.Str Kit.Xml Kit.XmlParse Kit.XmlParse2 Model.Dur Model.Srt Model.Ttml Model.Vtt Model.Conv
  Model.Plain Model.PlainTtml Model.ConvTtmlVtt.
From Astisub Require Import Proofs.SrtEscProofs Proofs.VttBase Proofs.VttLine Proofs.VttDoc
  Proofs.TtmlSpec Proofs.TtmlDocSpec Proofs.TtmlDoc Proofs.Parse2Written.
Import ListNotations.
Open Scope N_scope.

(* ================= escaping two texts apart and together ================= *)
Lemma escape_amp t : escape_html (38 :: t) = e_amp ++ escape_html t.
Proof.
  destruct (escape_step 38 t) as [(_ & E) | [(C & _) | [(t' & C & _) | (C & _)]]]; [exact E | discriminate C | discriminate C | contradiction].
Qed.
Lemma escape_lt t : escape_html (60 :: t) = e_lt ++ escape_html t.
Proof.
  destruct (escape_step 60 t) as [(C & _) | [(_ & E) | [(t' & C & _) | (_ & C & _)]]]; [discriminate C | exact E | discriminate C | contradiction].
Qed.
Lemma escape_nbsp t : escape_html (194 :: 160 :: t) = e_nbsp ++ escape_html t.
Proof.
  destruct (escape_step 194 (160 :: t)) as [(C & _) | [(C & _) | [(t' & _ & Et & E) | (_ & _ & E)]]]; [discriminate C | discriminate C | |].
  - inversion Et; subst t'. exact E.
  - exfalso. revert E. unfold escape_html, replace_all. cbn [length replace_fuel first_match esc_pairs prefix nbsp N.eqb Pos.eqb].
    intros E. discriminate E.
Qed.
Lemma escape_other c t : c <> 38 -> c <> 60 -> (c = 194 -> hd 0 t <> 160) -> escape_html (c :: t) = c :: escape_html t.
Proof.
  intros H1 H2 H3.
  destruct (escape_step c t) as [(C & _) | [(C & _) | [(t' & C & Et & _) | (_ & _ & E)]]]; [contradiction | contradiction | | exact E].
  exfalso. apply (H3 C). rewrite Et. reflexivity.
Qed.

Lemma escape_app : forall a b, hd 0 b <> 160 -> escape_html (a ++ b) = escape_html a ++ escape_html b.
Proof.
  intros a. remember (length a) as n eqn:Hn. revert a Hn. induction n as [n IH] using lt_wf_ind. intros a Hn b Hb.
  destruct a as [|c t]; [reflexivity|]. cbn [app].
  destruct (N.eq_dec c 38) as [->|N38].
  { rewrite !escape_amp, (IH (length t)) by (cbn [length] in Hn; try lia; auto). rewrite <- app_assoc. reflexivity. }
  destruct (N.eq_dec c 60) as [->|N60].
  { rewrite !escape_lt, (IH (length t)) by (cbn [length] in Hn; try lia; auto). rewrite <- app_assoc. reflexivity. }
  destruct (N.eq_dec c 194) as [->|N194].
  - destruct t as [|d t'].
    + cbn [app]. rewrite (escape_other 194 b) by (try discriminate; intros _; exact Hb).
      rewrite (escape_other 194 []) by (try discriminate; intros _; cbn [hd]; discriminate). rewrite escape_nil. reflexivity.
    + destruct (N.eq_dec d 160) as [->|N160].
      * cbn [app]. rewrite !escape_nbsp, (IH (length t')) by (cbn [length] in Hn; try lia; auto). rewrite <- app_assoc. reflexivity.
      * rewrite (escape_other 194 ((d :: t') ++ b)) by (try discriminate; intros _; cbn [app hd]; exact N160).
        rewrite (escape_other 194 (d :: t')) by (try discriminate; intros _; cbn [hd]; exact N160).
        rewrite (IH (length (d :: t'))) by (cbn [length] in *; try lia; auto). reflexivity.
  - rewrite (escape_other c (t ++ b)) by (auto; intros C; contradiction).
    rewrite (escape_other c t) by (auto; intros C; contradiction).
    rewrite (IH (length t)) by (cbn [length] in Hn; try lia; auto). reflexivity.
Qed.

(* ================= runs whose bytes do not depend on their neighbours ================= *)
Definition cp0 (a b : vrun) : Prop := common_prefix (run_tags a) (run_tags b) = O.
Definition cp0_prev (prev : option vrun) (r : vrun) : Prop := match prev with Some p => cp0 p r | None => True end.
Fixpoint indep (prev : option vrun) (L : list vrun) : Prop :=
  match L with
  | [] => True
  | r :: rest => cp0_prev prev r /\ indep (Some r) rest
  end.
Definition solo (r : vrun) : str := vrun_bytes None None r.

Lemma vrun_bytes_cp0 prev next r : cp0_prev prev r -> (match next with Some n => cp0 r n | None => True end) ->
  vrun_bytes prev next r = solo r.
Proof.
  intros Hp Hn. unfold vrun_bytes, solo.
  assert (E1 : match prev with Some p => match vr_tags p with Some pt => common_prefix pt (run_tags r) | None => O end | None => O end = O).
  { destruct prev as [p|]; [|reflexivity]. unfold cp0_prev, cp0, run_tags in Hp. unfold run_tags.
    destruct (vr_tags p) as [pt|]; [exact Hp | reflexivity]. }
  assert (E2 : match next with Some n => match vr_tags n with Some nt => common_prefix (run_tags r) nt | None => O end | None => O end = O).
  { destruct next as [n|]; [|reflexivity]. unfold cp0 in Hn. unfold run_tags in Hn at 2.
    destruct (vr_tags n) as [nt|]; [exact Hn | reflexivity]. }
  rewrite E1, E2. reflexivity.
Qed.

Lemma vruns_bytes_indep L : forall prev, indep prev L -> vruns_bytes prev L = concat (map solo L).
Proof.
  induction L as [|r rest IH]; intros prev H; [reflexivity|]. cbn [vruns_bytes map concat]. destruct H as [H1 H2].
  rewrite (IH (Some r) H2). f_equal. apply vrun_bytes_cp0; [exact H1|].
  destruct rest as [|n rest']; [exact I|]. destruct H2 as [H2 _]. exact H2.
Qed.

(* ---- the runs the TTML conversion produces: no tags, no inline timestamp ---- *)
Definition flat0 (r : vrun) : Prop := run_tags r = [] /\ vr_time r = 0%Z.
(* the bytes of such a run: the escaped text, inside the class tag of its colour when it is one of the five *)
Definition rb (r : vrun) : str :=
  (match tv_cname r with [] => [] | c => [60; 99; 46] ++ c ++ [62] end) ++ escape_html (vr_text r) ++
  (match tv_cname r with [] => [] | _ => [60; 47; 99; 62] end).

Lemma solo_flat r : flat0 r -> solo r = rb r.
Proof.
  intros [Ht Hz]. unfold solo, vrun_bytes, rb, tv_cname. rewrite Ht, Hz. change (0 <? 0)%Z with false.
  cbn [skipn map concat rev app].
  destruct (match vr_color r with Some c => css_color c | None => [] end); reflexivity.
Qed.
Lemma indep_flat L : forall prev, Forall flat0 L -> indep prev L.
Proof.
  induction L as [|r rest IH]; intros prev H; [exact I|]. inversion H as [|? ? Hr Hrest]; subst. split; [|apply IH; exact Hrest].
  destruct prev as [p|]; [|exact I]. unfold cp0_prev, cp0. destruct Hr as [Ht _]. rewrite Ht. apply common_prefix_nil_r.
Qed.
Lemma vruns_bytes_flat L prev : Forall flat0 L -> vruns_bytes prev L = concat (map rb L).
Proof.
  intros H. rewrite (vruns_bytes_indep L prev (indep_flat L prev H)). f_equal.
  apply map_ext_in. intros r Hr. apply solo_flat. rewrite Forall_forall in H. exact (H r Hr).
Qed.

(* ---- the normal form ---- *)
Definition nice (r : vrun) : Prop :=
  vr_color r = None /\ vr_time r = 0%Z /\
  (vr_tags r = None \/ exists name, name <> [] /\ vr_tags r = Some [tv_ctag name]).

Lemma nruns_nice rs : Forall nice (tv_nruns rs).
Proof.
  induction rs as [|r rest IH]; [constructor|]. cbn [tv_nruns].
  destruct (tv_cname r) as [|c0 cs] eqn:Ec.
  - destruct (tv_nruns rest) as [|r' rest'] eqn:En.
    + constructor; [|constructor]. repeat split. left. reflexivity.
    + inversion IH as [|? ? Hr' Hrest']; subst.
      destruct (tv_untagged r' && negb (hd 0 (vr_text r') =? 160)).
      * constructor; [|exact Hrest']. repeat split. left. reflexivity.
      * constructor; [|exact IH]. repeat split. left. reflexivity.
  - constructor; [|exact IH]. repeat split. right. exists (c0 :: cs). split; [discriminate | reflexivity].
Qed.

Lemma solo_nice_plain r : nice r -> vr_tags r = None -> solo r = escape_html (vr_text r).
Proof.
  intros (Hc & Hz & _) Ht. unfold solo, vrun_bytes, run_tags. rewrite Hc, Hz, Ht. change (0 <? 0)%Z with false.
  cbn [skipn map concat rev app]. rewrite app_nil_r. reflexivity.
Qed.

Lemma nruns_solo rs : concat (map solo (tv_nruns rs)) = concat (map rb rs).
Proof.
  induction rs as [|r rest IH]; [reflexivity|]. cbn [tv_nruns map concat]. rewrite <- IH. clear IH.
  pose proof (nruns_nice rest) as Hn.
  unfold rb. destruct (tv_cname r) as [|c0 cs] eqn:Ec.
  - cbn [app]. rewrite app_nil_r.
    destruct (tv_nruns rest) as [|r' rest'] eqn:En.
    + cbn [map concat]. rewrite app_nil_r. reflexivity.
    + inversion Hn as [|? ? Hr' Hrest']; subst.
      destruct (tv_untagged r' && negb (hd 0 (vr_text r') =? 160)) eqn:Eg.
      * apply andb_true_iff in Eg. destruct Eg as [Eu Eh]. apply negb_true_iff, N.eqb_neq in Eh.
        assert (Et : vr_tags r' = None) by (unfold tv_untagged in Eu; destruct (vr_tags r'); [discriminate | reflexivity]).
        cbn [map concat]. rewrite (solo_nice_plain r' Hr' Et).
        unfold solo at 1. unfold vrun_bytes, run_tags. cbn [vr_color vr_tags vr_time vr_text]. change (0 <? 0)%Z with false.
        cbn [skipn map concat rev app]. rewrite app_nil_r, (escape_app _ _ Eh), <- app_assoc. reflexivity.
      * cbn [map concat]. f_equal.
        unfold solo, vrun_bytes, run_tags. cbn [vr_color vr_tags vr_time vr_text]. change (0 <? 0)%Z with false.
        cbn [skipn map concat rev app]. rewrite app_nil_r. reflexivity.
  - cbn [map concat]. f_equal.
    unfold solo, vrun_bytes, run_tags. cbn [vr_color vr_tags vr_time vr_text]. change (0 <? 0)%Z with false.
    unfold tv_ctag, tag_start, tag_end. cbn [vt_name vt_classes vt_annot skipn map concat rev app join]. rewrite !app_nil_r.
    rewrite <- !app_assoc. reflexivity.
Qed.

Lemma nruns_text rs : concat (map vr_text (tv_nruns rs)) = concat (map vr_text rs).
Proof.
  induction rs as [|r rest IH]; [reflexivity|]. cbn [tv_nruns map concat]. rewrite <- IH. clear IH.
  destruct (tv_cname r) as [|c0 cs].
  - destruct (tv_nruns rest) as [|r' rest']; [reflexivity|].
    destruct (tv_untagged r' && negb (hd 0 (vr_text r') =? 160)); cbn [map concat vr_text]; rewrite <- ?app_assoc; reflexivity.
  - reflexivity.
Qed.

(* a representable chain of runs in normal form is neighbour-independent *)
Lemma nice_tags r : nice r -> run_tags r = [] \/ exists t, run_tags r = [t].
Proof.
  intros (_ & _ & [H | (name & _ & H)]); unfold run_tags; rewrite H; [left; reflexivity | right; eexists; reflexivity].
Qed.
Lemma nice_cp0 p r : nice p -> nice r -> same_stack p r = false -> cp0 p r.
Proof.
  intros Hp Hr Hs. unfold cp0. unfold same_stack in Hs.
  destruct (nice_tags p Hp) as [Ep | (tp & Ep)]; rewrite Ep in *; [apply common_prefix_nil_l|].
  destruct (nice_tags r Hr) as [Er | (tr & Er)]; rewrite Er in *; [apply common_prefix_nil_r|].
  cbn [common_prefix length] in *. destruct (str_eqb (tag_start tp) (tag_start tr)); [discriminate Hs | reflexivity].
Qed.
Lemma chain_indep L : forall prev, Forall nice L -> match prev with Some p => nice p | None => True end ->
  chain_ok prev L = true -> indep prev L.
Proof.
  induction L as [|r rest IH]; intros prev HL Hp Hc; [exact I|]. inversion HL as [|? ? Hr Hrest]; subst.
  cbn [chain_ok] in Hc. apply andb_true_iff in Hc. destruct Hc as [Hc H3]. apply andb_true_iff in Hc. destruct Hc as [_ H2].
  split; [|apply IH; assumption].
  destruct prev as [p|]; [|exact I]. apply nice_cp0; [exact Hp | exact Hr |].
  unfold pair_ok in H2. apply orb_true_iff in H2. destruct H2 as [H2 | H2]; [apply negb_true_iff in H2; exact H2|].
  apply andb_true_iff in H2. destruct H2 as [H2 _]. unfold timed in H2. destruct Hr as (_ & Hz & _). rewrite Hz in H2. discriminate H2.
Qed.

(* ================= the normal form is written byte for byte like the converted document ================= *)
Definition line_flat (l : vline) : Prop := Forall flat0 (vl_runs l).
Lemma nline_bytes l : line_flat l -> chain_ok None (tv_nruns (vl_runs l)) = true -> vline_bytes (tv_nline l) = vline_bytes l.
Proof.
  intros Hf Hc. unfold vline_bytes, tv_nline. cbn [vl_voice vl_runs]. f_equal. f_equal.
  rewrite (vruns_bytes_flat _ None Hf).
  rewrite (vruns_bytes_indep _ None (chain_indep _ None (nruns_nice _) I Hc)). apply nruns_solo.
Qed.

Definition item_flat (it : vitem) : Prop := Forall line_flat (vi_lines it).
Definition item_chains (it : vitem) : Prop := Forall (fun l => chain_ok None (tv_nruns (vl_runs l)) = true) (vi_lines it).
Lemma nitems_bytes l : forall k, Forall item_flat l -> Forall item_chains l ->
  vitems_bytes k (map tv_nitem l) = vitems_bytes k l.
Proof.
  induction l as [|it r IH]; intros k Hf Hc; [reflexivity|].
  inversion Hf as [|? ? Hf1 Hf2]; subst. inversion Hc as [|? ? Hc1 Hc2]; subst.
  cbn [map vitems_bytes]. rewrite (IH (S k) Hf2 Hc2).
  assert (El : map vline_bytes (vi_lines (tv_nitem it)) = map vline_bytes (vi_lines it)).
  { unfold tv_nitem. cbn [vi_lines]. rewrite map_map. apply map_ext_in. intros l0 Hl.
    unfold item_flat in Hf1. unfold item_chains in Hc1. rewrite Forall_forall in Hf1, Hc1. apply nline_bytes; auto. }
  rewrite El. reflexivity.
Qed.

Definition doc_flat (v : vdoc) : Prop := Forall item_flat (vd_items v).
Definition doc_chains (v : vdoc) : Prop := Forall item_chains (vd_items v).
Lemma tv_norm_bytes v so ro : doc_flat v -> doc_chains v -> write_vtt (tv_norm v) so ro = write_vtt v so ro.
Proof.
  intros Hf Hc. unfold write_vtt, tv_norm. cbn [vd_items vd_regions vd_styles vd_tsmap].
  rewrite (nitems_bytes (vd_items v) 0 Hf Hc). destruct (vd_items v); reflexivity.
Qed.

(* what the conversion produces is flat *)
Lemma conv_flat d : doc_flat (conv_ttml_vtt d).
Proof.
  unfold doc_flat, conv_ttml_vtt. cbn [vd_items]. apply Forall_forall. intros it Hit. apply in_map_iff in Hit.
  destruct Hit as (x & <- & _). unfold item_flat, tv_item. cbn [vi_lines]. apply Forall_forall. intros l Hl.
  apply in_map_iff in Hl. destruct Hl as (y & <- & _). unfold line_flat, tv_line. cbn [vl_runs]. apply Forall_forall.
  intros r Hr. apply in_map_iff in Hr. destruct Hr as (z & <- & _). split; reflexivity.
Qed.

(* representability of the normal form gives the chains *)
Lemma repr_chains v so ro : repr_vdoc (tv_norm v) so ro -> doc_chains v.
Proof.
  intros [_ _ _ _ Hitems _ _]. unfold doc_chains. unfold tv_norm in Hitems. cbn [vd_items] in Hitems.
  rewrite Forall_forall in *. intros it Hit. specialize (Hitems (tv_nitem it) (in_map _ _ _ Hit)).
  destruct Hitems as (_ & _ & _ & _ & _ & Hl). unfold tv_nitem in Hl. cbn [vi_lines] in Hl.
  unfold item_chains. apply Forall_forall. intros l Hl0. rewrite forallb_forall in Hl.
  specialize (Hl (tv_nline l) (in_map _ _ _ Hl0)). unfold text_line_ok in Hl.
  apply andb_true_iff in Hl. destruct Hl as [Hl _]. apply andb_true_iff in Hl. destruct Hl as [Hl _].
  apply andb_true_iff in Hl. destruct Hl as [Hl _]. unfold repr_vline in Hl. apply andb_true_iff in Hl. destruct Hl as [_ Hl].
  exact Hl.
Qed.

(* ================= the plain view ================= *)
Lemma nline_text l : vline_text (nline (tv_nline (tv_line l))) = ttml_line_text l.
Proof.
  unfold vline_text, nline, tv_nline, tv_line, ttml_line_text. cbn [vl_runs]. rewrite map_map.
  change (fun x : vrun => vr_text (nrun x)) with vr_text. rewrite nruns_text, map_map. reflexivity.
Qed.

Lemma plain_nitems styles regions : forall l k,
  map vview (nitems k (map tv_nitem (map (tv_item styles regions) l))) =
  map (fun it => (trunc_to 1000000 (ti_st it), trunc_to 1000000 (ti_en it), map ttml_line_text (ti_lines it))) l.
Proof.
  induction l as [|it r IH]; intros k; [reflexivity|]. cbn [map nitems]. rewrite IH. f_equal.
  unfold vview, nitem, tv_nitem, tv_item. cbn [vi_st vi_en vi_lines]. unfold VttBase.trunc_ms, trunc_to. f_equal.
  rewrite !map_map. apply map_ext. intros l0. apply nline_text.
Qed.

Lemma plain_conv d so ro : vtt_to_plain (ndoc (tv_norm (conv_ttml_vtt d)) so ro) = ptrunc 1000000 (ttml_to_plain d).
Proof.
  unfold vtt_to_plain, ndoc, tv_norm, conv_ttml_vtt. cbn [vd_items]. rewrite plain_nitems.
  unfold ptrunc, ttml_to_plain. rewrite map_map. reflexivity.
Qed.

(* ================= the theorems ================= *)
(* any TTML document value (as the reader model returns it) whose conversion is representable in WebVTT *)
Theorem ttml_to_vtt_styled : forall d so ro,
  repr_vdoc (tv_norm (conv_ttml_vtt d)) so ro ->
  exists dst d', write_vtt (conv_ttml_vtt d) so ro = Ok dst /\ read_vtt dst = Ok d' /\
                 vtt_to_plain d' = ptrunc 1000000 (ttml_to_plain d).
Proof.
  intros d so ro H. destruct (write_read_vtt _ _ _ H) as (dst & Hw & Hr).
  exists dst, (ndoc (tv_norm (conv_ttml_vtt d)) so ro). split; [|split; [exact Hr | apply plain_conv]].
  rewrite <- Hw. symmetry. apply tv_norm_bytes; [apply conv_flat | exact (repr_chains _ _ _ H)].
Qed.

(* file to file, from any TTML bytes the reader model accepts *)
Theorem ttml_to_vtt_styled_file : forall data d,
  read_ttml_bytes2 data = Ok d ->
  repr_vdoc (tv_norm (conv_ttml_vtt d)) (tv_style_order d) (tv_region_order d) ->
  exists dst d', convert_ttml_vtt data = Ok dst /\ read_vtt dst = Ok d' /\
                 vtt_to_plain d' = ptrunc 1000000 (ttml_to_plain d).
Proof.
  intros data d Hd H. destruct (ttml_to_vtt_styled d _ _ H) as (dst & d' & Hw & Hr & Hp).
  exists dst, d'. split; [|split; assumption]. unfold convert_ttml_vtt, write_ttml_vtt. rewrite Hd. exact Hw.
Qed.

(* ... and from a representable TTML document value written by the library's TTML writer *)
Lemma trunc_to_idem t : trunc_to 1000000 (trunc_to 1000000 t) = trunc_to 1000000 t.
Proof.
  unfold trunc_to. assert (H : ((t - t mod 1000000) mod 1000000 = 0)%Z).
  { rewrite Zminus_mod_idemp_r, Z.sub_diag. reflexivity. }
  rewrite H. lia.
Qed.
Lemma plain_written d : ptrunc 1000000 (ttml_to_plain (written_value d)) = ptrunc 1000000 (ttml_to_plain d).
Proof.
  unfold ptrunc, ttml_to_plain, written_value. cbn [td_items]. rewrite !map_map. apply map_ext. intros it.
  unfold written_item. cbn [ti_st ti_en ti_lines]. unfold TtmlDocSpec.trunc_ms.
  change (ti_st it - ti_st it mod 1000000)%Z with (trunc_to 1000000 (ti_st it)).
  change (ti_en it - ti_en it mod 1000000)%Z with (trunc_to 1000000 (ti_en it)). rewrite !trunc_to_idem. reflexivity.
Qed.

Theorem ttml_to_vtt_styled_written : forall d ind,
  repr_doc d = true -> indent_ok ind = true ->
  repr_vdoc (tv_norm (conv_ttml_vtt (written_value d))) (tv_style_order d) (tv_region_order d) ->
  exists src dst d', write_ttml_bytes ind d = Ok src /\ convert_ttml_vtt src = Ok dst /\ read_vtt dst = Ok d' /\
                     vtt_to_plain d' = ptrunc 1000000 (ttml_to_plain d).
Proof.
  intros d ind Hd Hi H. destruct (write_read d ind Hd Hi) as (t0 & Hw & Hread).
  assert (Hb : write_ttml_bytes ind d = Ok (print_node print_name ind 0 t0)) by (unfold write_ttml_bytes; rewrite Hw; reflexivity).
  destruct (parse2_written d ind _ Hi Hb) as (t1 & Hw1 & Hp2). rewrite Hw in Hw1. inversion Hw1; subst t1.
  assert (Hrd : read_ttml_bytes2 (print_node print_name ind 0 t0) = Ok (written_value d))
    by (unfold read_ttml_bytes2; rewrite Hp2; exact Hread).
  destruct (ttml_to_vtt_styled_file _ _ Hrd H) as (dst & d' & Hc & Hr & Hp).
  exists (print_node print_name ind 0 t0), dst, d'. split; [exact Hb|]. split; [exact Hc|]. split; [exact Hr|].
  rewrite Hp. apply plain_written.
Qed.

(* ================= a worked example =================
   Source bytes (single-quoted attribute values): a style s1 with tts:textAlign=center and tts:extent=70% 33%; two regions,
   top (origin 10% 5%, extent 80% 12%) and side (style s1, origin 85% 10%, writingMode tbrl); a paragraph in region top
   with style s1 holding a span of colour #FF0000, bare text, two uncoloured spans, a line break and a second line with an
   ampersand; a paragraph in region side with its own origin / extent / writingMode tb and offset times.
   ex_tv_dst is what the LIBRARY wrote for ex_tv_src (ReadFromTTML then WriteToWebVTT). *)
Definition ex_tv_src : str :=
  [60;116;116;32;120;109;108;110;115;61;39;104;116;116;112;58;47;47;119;119;119;46;119;51;46;111;114;103;47;110;115;
   47;116;116;109;108;39;32;120;109;108;110;115;58;116;116;115;61;39;104;116;116;112;58;47;47;119;119;119;46;119;51;
   46;111;114;103;47;110;115;47;116;116;109;108;35;115;116;121;108;105;110;103;39;62;60;104;101;97;100;62;60;115;116;
   121;108;105;110;103;62;60;115;116;121;108;101;32;120;109;108;58;105;100;61;39;115;49;39;32;116;116;115;58;116;101;
   120;116;65;108;105;103;110;61;39;99;101;110;116;101;114;39;32;116;116;115;58;101;120;116;101;110;116;61;39;55;48;
   37;32;51;51;37;39;47;62;60;47;115;116;121;108;105;110;103;62;60;108;97;121;111;117;116;62;60;114;101;103;105;111;
   110;32;120;109;108;58;105;100;61;39;116;111;112;39;32;116;116;115;58;111;114;105;103;105;110;61;39;49;48;37;32;53;
   37;39;32;116;116;115;58;101;120;116;101;110;116;61;39;56;48;37;32;49;50;37;39;47;62;60;114;101;103;105;111;110;32;
   120;109;108;58;105;100;61;39;115;105;100;101;39;32;115;116;121;108;101;61;39;115;49;39;32;116;116;115;58;111;114;
   105;103;105;110;61;39;56;53;37;32;49;48;37;39;32;116;116;115;58;119;114;105;116;105;110;103;77;111;100;101;61;39;
   116;98;114;108;39;47;62;60;47;108;97;121;111;117;116;62;60;47;104;101;97;100;62;60;98;111;100;121;62;60;100;105;
   118;62;60;112;32;98;101;103;105;110;61;39;48;48;58;48;48;58;48;49;46;48;48;48;39;32;101;110;100;61;39;48;48;58;48;
   48;58;48;50;46;53;48;48;39;32;114;101;103;105;111;110;61;39;116;111;112;39;32;115;116;121;108;101;61;39;115;49;39;
   62;60;115;112;97;110;32;116;116;115;58;99;111;108;111;114;61;39;35;70;70;48;48;48;48;39;62;82;101;100;60;47;115;
   112;97;110;62;32;97;110;100;32;60;115;112;97;110;62;112;108;97;105;110;60;47;115;112;97;110;62;60;115;112;97;110;
   62;32;116;101;120;116;60;47;115;112;97;110;62;60;98;114;47;62;115;101;99;111;110;100;32;38;97;109;112;59;32;108;
   105;110;101;60;47;112;62;60;112;32;98;101;103;105;110;61;39;51;115;39;32;101;110;100;61;39;52;46;53;115;39;32;114;
   101;103;105;111;110;61;39;115;105;100;101;39;32;116;116;115;58;111;114;105;103;105;110;61;39;49;37;32;50;37;39;32;
   116;116;115;58;101;120;116;101;110;116;61;39;51;37;32;52;37;39;32;116;116;115;58;119;114;105;116;105;110;103;77;
   111;100;101;61;39;116;98;39;62;120;60;47;112;62;60;47;100;105;118;62;60;47;98;111;100;121;62;60;47;116;116;62]%N.
Definition ex_tv_dst : str :=
  [87;69;66;86;84;84;10;10;82;101;103;105;111;110;58;32;105;100;61;115;105;100;101;32;108;105;110;101;115;61;54;32;
   114;101;103;105;111;110;97;110;99;104;111;114;61;48;37;44;48;37;32;115;99;114;111;108;108;61;117;112;32;118;105;
   101;119;112;111;114;116;97;110;99;104;111;114;61;56;53;37;44;49;48;37;32;119;105;100;116;104;61;55;48;37;10;82;101;
   103;105;111;110;58;32;105;100;61;116;111;112;32;108;105;110;101;115;61;50;32;114;101;103;105;111;110;97;110;99;104;
   111;114;61;48;37;44;48;37;32;115;99;114;111;108;108;61;117;112;32;118;105;101;119;112;111;114;116;97;110;99;104;
   111;114;61;49;48;37;44;53;37;32;119;105;100;116;104;61;56;48;37;10;10;49;10;48;48;58;48;48;58;48;49;46;48;48;48;32;
   45;45;62;32;48;48;58;48;48;58;48;50;46;53;48;48;32;97;108;105;103;110;58;99;101;110;116;101;114;32;114;101;103;105;
   111;110;58;116;111;112;32;115;105;122;101;58;51;51;37;10;60;99;46;114;101;100;62;82;101;100;60;47;99;62;32;97;110;
   100;32;112;108;97;105;110;32;116;101;120;116;10;115;101;99;111;110;100;32;38;97;109;112;59;32;108;105;110;101;10;
   10;50;10;48;48;58;48;48;58;48;51;46;48;48;48;32;45;45;62;32;48;48;58;48;48;58;48;52;46;53;48;48;32;108;105;110;101;
   58;50;37;32;112;111;115;105;116;105;111;110;58;49;37;32;114;101;103;105;111;110;58;115;105;100;101;32;115;105;122;
   101;58;51;37;10;120;10]%N.

Definition ex_tv_doc : tdoc :=
  Eval vm_compute in match read_ttml_bytes2 ex_tv_src with Ok d => d | _ => mkDoc None [] [] [] end.
Example ex_tv_read : read_ttml_bytes2 ex_tv_src = Ok ex_tv_doc.
Proof. vm_compute. reflexivity. Qed.
Example ex_tv_shape :
  map fst (td_regions ex_tv_doc) = [[116; 111; 112]; [115; 105; 100; 101]] /\ map fst (td_styles ex_tv_doc) = [[115; 49]] /\
  map (fun it => (ti_st it, ti_en it, ti_region it, ti_style it, map (map tr_txt) (ti_lines it))) (td_items ex_tv_doc) =
  [(1000000000%Z, 2500000000%Z, Some [116; 111; 112], Some [115; 49],
    [[[82; 101; 100]; [32; 97; 110; 100; 32]; [112; 108; 97; 105; 110]; [32; 116; 101; 120; 116]];
     [[115; 101; 99; 111; 110; 100; 32; 38; 32; 108; 105; 110; 101]]]);
   (3000000000%Z, 4500000000%Z, Some [115; 105; 100; 101], None, [[[120]]])].
Proof. vm_compute. repeat split. Qed.
(* the model's conversion of the source bytes = the library's bytes *)
Example ex_tv_bytes : convert_ttml_vtt ex_tv_src = Ok ex_tv_dst.
Proof. vm_compute. reflexivity. Qed.
(* the converted document in normal form, computed *)
Definition ex_tv_v : vdoc := Eval vm_compute in tv_norm (conv_ttml_vtt ex_tv_doc).
Definition ex_tv_so : list str := Eval vm_compute in tv_style_order ex_tv_doc.
Definition ex_tv_ro : list str := Eval vm_compute in tv_region_order ex_tv_doc.
Example ex_tv_v_repr : repr_vdoc ex_tv_v ex_tv_so ex_tv_ro.
Proof.
  constructor.
  - discriminate.
  - vm_compute. discriminate.
  - repeat constructor; cbn [In]; intros H; repeat (destruct H as [H|H]; [discriminate|]); exact H.
  - intros k [<-|[<-|[]]]; eexists; (split; [reflexivity | split; [reflexivity | vm_compute; reflexivity]]).
  - repeat (first [ match goal with |- In _ _ => (unfold ex_tv_ro; cbn [In]; auto) end | constructor ]);
      try (vm_compute; reflexivity); try (vm_compute; discriminate); try exact I.
  - split; vm_compute; reflexivity.
  - exact I.
Qed.
Example ex_tv_repr :
  repr_vdoc (tv_norm (conv_ttml_vtt ex_tv_doc)) (tv_style_order ex_tv_doc) (tv_region_order ex_tv_doc).
Proof.
  assert (E1 : tv_norm (conv_ttml_vtt ex_tv_doc) = ex_tv_v) by (vm_compute; reflexivity).
  assert (E2 : tv_style_order ex_tv_doc = ex_tv_so) by (vm_compute; reflexivity).
  assert (E3 : tv_region_order ex_tv_doc = ex_tv_ro) by (vm_compute; reflexivity).
  rewrite E1, E2, E3. exact ex_tv_v_repr.
Qed.
Example ex_tv_roundtrip :
  exists dst d', convert_ttml_vtt ex_tv_src = Ok dst /\ read_vtt dst = Ok d' /\
                 vtt_to_plain d' = ptrunc 1000000 (ttml_to_plain ex_tv_doc).
Proof. exact (ttml_to_vtt_styled_file _ _ ex_tv_read ex_tv_repr). Qed.
Example ex_tv_all :
  read_ttml_bytes2 ex_tv_src = Ok ex_tv_doc /\
  convert_ttml_vtt ex_tv_src = Ok ex_tv_dst /\
  repr_vdoc (tv_norm (conv_ttml_vtt ex_tv_doc)) (tv_style_order ex_tv_doc) (tv_region_order ex_tv_doc) /\
  (exists d', read_vtt ex_tv_dst = Ok d' /\ vtt_to_plain d' = ptrunc 1000000 (ttml_to_plain ex_tv_doc)).
Proof.
  split; [exact ex_tv_read|]. split; [exact ex_tv_bytes|]. split; [exact ex_tv_repr|].
  destruct ex_tv_roundtrip as (dst & d' & Hc & Hr & Hp). rewrite ex_tv_bytes in Hc. inversion Hc; subst dst.
  exists d'. split; assumption.
Qed.
