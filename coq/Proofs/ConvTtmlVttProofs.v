(* C07, styled sources, TTML -> WebVTT: the conversion of Model/ConvTtmlVtt.v composed with the WebVTT round trip. *)
From Coq Require Import List ZArith NArith Bool Lia.
From Astisub Require Import Kit.Base Kit.Str Model.Ttml Model.Vtt Model.Plain Model.PlainTtml Model.ConvTtmlVtt.
Import ListNotations.
