(* C07, WebVTT file -> SSA/ASS file for STYLED sources (Model/ConvVttSsa.v): for every representable WebVTT document whose
   conversion - the runs of every line put together - is a representable SSA document, the written WebVTT file is
   converted without error and the SSA file reads back with the same cues in the same order, times truncated to the
   centisecond and the same text per line.
   From the two document-level write->read theorems (Proofs/VttDoc.v write_read_vtt, Proofs/SsaDoc.v write_read). *)
From Coq Require Import Strings.String.
From Coq Require Import List ZArith NArith Bool Lia.
From Astisub Require Import Kit.Base Kit.Str Model.Srt Model.Vtt Model.Conv Model.Plain Model.Ssa Model.PlainSsa Model.ConvVttSsa.
From Astisub Require Import Proofs.VttBase Proofs.VttLine Proofs.VttDoc Proofs.SsaRows Proofs.SsaDoc Proofs.SsaRepr.
Import ListNotations.
Open Scope N_scope.

(* ================= the SSA writer's bytes: run by run = runs put together ================= *)
Lemma vttssa_run_string r : run_string (vttssa_run r) = vr_text r.
Proof. unfold run_string, vttssa_run. cbn [ar_eff ar_text]. destruct (vr_tags r); reflexivity. Qed.

Lemma vttssa_line_string l : line_string (vttssa_line l) = line_string (vttssa_line_m l).
Proof.
  unfold line_string, vttssa_line, vttssa_line_m. cbn [al_runs map concat]. unfold run_string at 2. cbn [ar_eff ar_text app].
  rewrite app_nil_r, map_map. unfold vline_text. f_equal. apply map_ext. intros r. apply vttssa_run_string.
Qed.

Lemma vttssa_item_name ls : item_name (map vttssa_line ls) = item_name (map vttssa_line_m ls).
Proof.
  unfold item_name. generalize (@nil N). induction ls as [|l r IH]; intros acc; [reflexivity|].
  cbn [map fold_left]. rewrite IH. reflexivity.
Qed.

Lemma vttssa_event i : event_of_item (vttssa_item i) = event_of_item (vttssa_item_m i).
Proof.
  unfold event_of_item, vttssa_item, vttssa_item_m. cbn [ai_inl ai_start ai_end ai_style ai_lines].
  rewrite vttssa_item_name. unfold item_text_ssa. rewrite !map_map.
  rewrite (map_ext _ _ vttssa_line_string). reflexivity.
Qed.

(* the library's conversion writes the bytes of the document with the runs put together *)
Theorem write_conv_vtt_ssa_m d order :
  write_ssa (conv_vtt_ssa d) order = write_ssa (conv_vtt_ssa_m d) order.
Proof.
  unfold write_ssa, write_ssa_chunks.
  assert (Eev : events_bytes (conv_vtt_ssa d) = events_bytes (conv_vtt_ssa_m d)).
  { unfold events_bytes. change (is_v4plus (conv_vtt_ssa d)) with (is_v4plus (conv_vtt_ssa_m d)).
    generalize (is_v4plus (conv_vtt_ssa_m d)). intros v.
    unfold conv_vtt_ssa, conv_vtt_ssa_m. cbn [ad_items]. rewrite !map_map.
    rewrite (map_ext (fun x => n_dialogue_pfx ++ event_string (event_of_item (vttssa_item x)) (event_format v) ++ nl)
                     (fun x => n_dialogue_pfx ++ event_string (event_of_item (vttssa_item_m x)) (event_format v) ++ nl));
      [reflexivity|]. intros i. rewrite vttssa_event. reflexivity. }
  rewrite Eev. change (styles_bytes (conv_vtt_ssa d) order) with (styles_bytes (conv_vtt_ssa_m d) order).
  generalize (events_bytes (conv_vtt_ssa_m d)) (styles_bytes (conv_vtt_ssa_m d) order). intros eb sb.
  unfold conv_vtt_ssa, conv_vtt_ssa_m. cbn [ad_items ad_meta ad_styles].
  destruct (vd_items d) as [|i r]; reflexivity.
Qed.

(* ================= the plain views ================= *)
Lemma vtt_plain_ndoc d so ro : vtt_to_plain (ndoc d so ro) = ptrunc 1000000 (vtt_to_plain d).
Proof.
  unfold vtt_to_plain, ndoc. cbn [vd_items]. generalize 0%nat. induction (vd_items d) as [|it r IH]; intros k; [reflexivity|].
  cbn [nitems map ptrunc]. fold (ptrunc 1000000). rewrite IH. f_equal.
  unfold vview, nitem. cbn [vi_st vi_en vi_lines]. unfold VttBase.trunc_ms, trunc_to. f_equal.
  rewrite map_map. apply map_ext. intros l. unfold vline_text, nline. cbn [vl_runs]. rewrite map_map. reflexivity.
Qed.

Lemma ssa_plain_conv_m d : ssa_to_plain (conv_vtt_ssa_m d) = vtt_to_plain d.
Proof.
  unfold ssa_to_plain, conv_vtt_ssa_m, vtt_to_plain. cbn [ad_items]. rewrite map_map. apply map_ext. intros i.
  unfold vttssa_item_m, vview. cbn [ai_start ai_end ai_lines]. f_equal. rewrite map_map. apply map_ext. intros l.
  unfold ssa_line_text, vttssa_line_m. cbn [al_runs map ar_text concat]. apply app_nil_r.
Qed.

Lemma ssa_plain_canon_doc d : ssa_to_plain (canon_doc d) = ptrunc ssa_unit (ssa_to_plain d).
Proof.
  unfold ssa_to_plain, canon_doc, ptrunc. cbn [ad_items]. rewrite !map_map. apply map_ext. intros i.
  unfold canon_item. cbn [ai_start ai_end ai_lines]. unfold trunc_cs, trunc_to, ssa_unit. f_equal.
  rewrite map_map. apply map_ext. intros l. reflexivity.
Qed.

(* WebVTT file -> SSA file -> read back *)
Theorem vtt_to_ssa_styled d so ro :
  repr_vdoc d so ro -> doc_repr (conv_vtt_ssa_m (ndoc d so ro)) ->
  exists vtt ssa d', write_vtt d so ro = Ok vtt /\ convert_vtt_ssa vtt = Ok ssa /\ read_ssa ssa = Ok d' /\
                     ssa_to_plain d' = ptrunc ssa_unit (ptrunc 1000000 (vtt_to_plain d)).
Proof.
  intros Hd Hs. destruct (write_read_vtt d so ro Hd) as (vtt & Hw & Hr).
  destruct (write_read _ Hs) as (ssa & Hws & Hrs).
  exists vtt, ssa, (canon_doc (conv_vtt_ssa_m (ndoc d so ro))). split; [exact Hw|]. split.
  - unfold convert_vtt_ssa. rewrite Hr. rewrite write_conv_vtt_ssa_m. exact Hws.
  - split; [exact Hrs|]. rewrite ssa_plain_canon_doc, ssa_plain_conv_m, vtt_plain_ndoc. reflexivity.
Qed.

(* ================= non-vacuity ================= *)
(* A timestamp map, a STYLE block, a region, two cues.  The first cue has a comment, a number, a region, settings and two
   lines with different speakers: Bob's has three runs (plain, italic, plain with an inline timestamp; a comma and an '&' in
   the text), Alice's one run with a class; times off the centisecond grid.  The second cue has no speaker. *)
Definition ex_vs_doc : vdoc :=
  mkVdoc
    [ mkVitem 7 1000000000%Z 2500000123%Z [s2l "a comment"%string] (Some (s2l "fred"%string))
              (Some (mkVset (s2l "start"%string) [] (s2l "10%"%string) [] [])) None
        [ mkVline [ mkVrun (s2l "Hello "%string) None 0%Z None;
                    mkVrun (s2l "brave"%string) (Some [mkVtag (s2l "i"%string) [] []]) 0%Z None;
                    mkVrun (s2l " new world, & more"%string) None 1500000000%Z None ] (s2l "Bob"%string);
          mkVline [ mkVrun (s2l "second line"%string) (Some [mkVtag (s2l "c"%string) [] [s2l "red"%string]]) 0%Z None ] (s2l "Alice"%string) ];
      mkVitem 0 3000000000%Z 4005000000%Z [] None None None [ mkVline [ mkVrun (s2l "x > y"%string) None 0%Z None ] [] ] ]
    [ (s2l "fred"%string, mkVregion (s2l "fred"%string) (Some (mkVregattr 3%Z [] [] [] (s2l "40%"%string))) None) ]
    [ (s2l "s1"%string, Some [s2l "::cue { color: red }"%string]) ]
    (Some (0%Z, 900000%Z)).
Definition ex_vs_so : list str := [s2l "s1"%string].
Definition ex_vs_ro : list str := [s2l "fred"%string].

Example ex_vs_repr : repr_vdoc ex_vs_doc ex_vs_so ex_vs_ro.
Proof.
  constructor.
  - discriminate.
  - vm_compute. discriminate.
  - repeat constructor; cbn [In]; intros H; repeat (destruct H as [H|H]; [discriminate|]); exact H.
  - intros k [<-|[]]; eexists; (split; [reflexivity | split; [reflexivity | vm_compute; reflexivity]]).
  - repeat constructor; try (vm_compute; reflexivity); try (vm_compute; discriminate); try exact I.
  - split; vm_compute; reflexivity.
  - cbn. unfold max_int64. lia.
Qed.
Example ex_vs_conv_repr : doc_repr (conv_vtt_ssa_m (ndoc ex_vs_doc ex_vs_so ex_vs_ro)).
Proof. apply doc_reprb_ok. vm_compute. reflexivity. Qed.
(* the plain view that comes back: centisecond times, the run texts of every line put together *)
Definition ex_vs_expected : plain :=
  [ (1000000000%Z, 2500000000%Z, [s2l "Hello brave new world, & more"%string; s2l "second line"%string]);
    (3000000000%Z, 4000000000%Z, [s2l "x > y"%string]) ].
Example ex_vs_plain : ptrunc ssa_unit (ptrunc 1000000 (vtt_to_plain ex_vs_doc)) = ex_vs_expected.
Proof. vm_compute. reflexivity. Qed.
Example ex_vs_roundtrip :
  exists vtt ssa d', write_vtt ex_vs_doc ex_vs_so ex_vs_ro = Ok vtt /\ convert_vtt_ssa vtt = Ok ssa /\ read_ssa ssa = Ok d' /\
                     ssa_to_plain d' = ptrunc ssa_unit (ptrunc 1000000 (vtt_to_plain ex_vs_doc)).
Proof. apply vtt_to_ssa_styled; [exact ex_vs_repr | exact ex_vs_conv_repr]. Qed.
(* the bytes, computed by the model: the SSA file the conversion gives (the speaker of the row is the last one named) *)
Example ex_vs_bytes :
  match write_vtt ex_vs_doc ex_vs_so ex_vs_ro with
  | Ok vtt => convert_vtt_ssa vtt
  | _ => Err EOther
  end = Ok (s2l "[Script Info]

[V4 Styles]
Format: Name
Style: astisub-webvtt-default-style-id

[Events]
Format: Marked, Start, End, Style, Name, MarginL, MarginR, MarginV, Effect, Text
Dialogue: Marked=0,00:00:01.00,00:00:02.50,,Alice,0,0,0,,Hello brave new world, & more\nsecond line
Dialogue: Marked=0,00:00:03.00,00:00:04.00,,,0,0,0,,x > y
"%string).
Proof. vm_compute. reflexivity. Qed.

(* ================= the hypothesis on the conversion is needed ================= *)
(* texts the SSA syntax reserves: a brace pair is read back as an override block (the text loses it), the two bytes
   backslash-N break the line.  Both documents are representable WebVTT documents; the conversion succeeds and reads back,
   but with another text / another number of lines.  (Computed on the models; replayed on the library: notes/C07-ssa-vtt.md.) *)
Definition vs_one_line (t : str) : vdoc :=
  mkVdoc [mkVitem 0 1000000000%Z 2000000000%Z [] None None None [mkVline [mkVrun t None 0%Z None] []]] [] [] None.
Definition vs_trip (d : vdoc) : res plain :=
  match write_vtt d [] [] with
  | Ok vtt => match convert_vtt_ssa vtt with
              | Ok ssa => match read_ssa ssa with Ok d' => Ok (ssa_to_plain d') | Err k => Err k | Panic p => Panic p end
              | Err k => Err k | Panic p => Panic p end
  | Err k => Err k | Panic p => Panic p end.
Example vtt_to_ssa_needs_no_braces :
  vs_trip (vs_one_line (s2l "a {b} c"%string)) = Ok [(1000000000%Z, 2000000000%Z, [s2l "a  c"%string])].
Proof. vm_compute. reflexivity. Qed.
Example vtt_to_ssa_needs_no_line_break_sequence :
  vs_trip (vs_one_line (s2l "a \N b"%string)) = Ok [(1000000000%Z, 2000000000%Z, [s2l "a"%string; s2l "b"%string])].
Proof. vm_compute. reflexivity. Qed.
(* a comma in the speaker name would shift the columns of the Dialogue row (before the library fix "SSA writer writes a
   comma of the speaker name as a semicolon" the file the conversion wrote was rejected by the SSA reader: every cue lost);
   the writer now emits Smith; John and the text survives *)
Example vtt_to_ssa_comma_in_voice_readable :
  vs_trip (mkVdoc [mkVitem 0 1000000000%Z 2000000000%Z [] None None None [mkVline [mkVrun (s2l "text"%string) None 0%Z None] (s2l "Smith, John"%string)]] [] [] None)
  = Ok [(1000000000%Z, 2000000000%Z, [s2l "text"%string])].
Proof. vm_compute. reflexivity. Qed.
