(* SRT reader/writer under delivery schedules and faults (C17, C18). *)
From Coq Require Import List ZArith NArith Bool Arith Lia.
From Astisub Require Import Kit.Base Kit.Str Kit.Scan Kit.Html Kit.IOW Model.Dur Model.Srt Proofs.ScanProofs.
Import ListNotations.

(* the reader is a function of the scanner's tokens, and these do not depend on the schedule *)
Theorem read_srt_schedule data counts : read_srt_lines (scan data counts) false = read_srt data.
Proof. unfold read_srt. rewrite scan_lines. reflexivity. Qed.

Lemma srt_step_no_panic s first raw p : srt_step s first raw <> Panic p.
Proof.
  unfold srt_step. destruct (negb (utf8_valid (trim_space raw))); [discriminate|].
  destruct (contains arrow _).
  - destruct (finalize _) as [fl index]. destruct (Str.split arrow _) as [|l [|r rest]]; try discriminate.
    destruct (fields r); [discriminate|]. destruct (parse_srt l); [|discriminate]. destruct (parse_srt _); discriminate.
  - destruct (parse_text_srt _ _) as [rs a']. destruct rs; [discriminate|]. destruct (r_cur s); discriminate.
Qed.

Lemma srt_run_no_panic ls : forall s first p, srt_run s first ls <> Panic p.
Proof.
  induction ls as [|l r IH]; intros s first p; cbn [srt_run]; [discriminate|].
  destruct (srt_step s first l) as [s'|k|q] eqn:E; [apply IH | discriminate | exfalso; exact (srt_step_no_panic _ _ _ _ E)].
Qed.

(* totality of the reader model: never a panic, whatever the tokens *)
Theorem read_srt_lines_no_panic ls e p : read_srt_lines ls e <> Panic p.
Proof.
  unfold read_srt_lines. destruct (srt_run _ true ls) as [s|k|q] eqn:E.
  - destruct e; discriminate.
  - discriminate.
  - exfalso. exact (srt_run_no_panic _ _ _ _ E).
Qed.

(* a scanner error (read failure, line too long) is never swallowed *)
Theorem read_srt_fault ls : exists k, read_srt_lines ls true = Err k.
Proof.
  unfold read_srt_lines. destruct (srt_run _ true ls) as [s|k|q] eqn:E.
  - eexists; reflexivity.
  - eexists; reflexivity.
  - exfalso. exact (srt_run_no_panic _ _ _ _ E).
Qed.

(* the writer issues one Write with the whole document *)
Definition srt_writes (l : list sitem) : res (list str) :=
  match write_srt l with Ok d => Ok [d] | Err k => Err k | Panic p => Panic p end.
Definition write_srt_to (l : list sitem) (d : dest) : res nat :=
  match srt_writes l with Ok ws => run_writes ws d 0 | Err k => Err k | Panic p => Panic p end.

Theorem write_srt_fault l doc k : write_srt l = Ok doc -> (k < length doc)%nat -> write_srt_to l (fail_at k) = Err EIO.
Proof.
  intros H Hk. unfold write_srt_to, srt_writes. rewrite H. apply writes_fault. unfold total. cbn [concat]. rewrite app_nil_r. exact Hk.
Qed.
Theorem write_srt_complete l doc : write_srt l = Ok doc -> write_srt_to l ok_dest = Ok (length doc).
Proof.
  intros H. unfold write_srt_to, srt_writes. rewrite H, writes_complete. unfold total. cbn [concat]. rewrite app_nil_r. reflexivity.
Qed.
Theorem write_srt_no_panic l p : write_srt l <> Panic p.
Proof. unfold write_srt. destruct l; discriminate. Qed.
