(* Fuel audit, Model/Ops.v: pieces_loop (value at O: [x], the cue uncut), unfrag (value at O: the list unchanged),
   mark_chain (value at O: the marks so far).  All three out-of-fuel values look like ordinary results.
   The existing theorems (FragmentProofs.pieces_loop_spec, UnfragProofs.unfrag_ok, OptimizeProofs.mark_chain_spec)
   each carry a sufficiency hypothesis on the fuel and are instantiated with the wrapper's fuel; here the audit's
   shape is added: above the measure the value does not depend on the fuel. *)
From Coq Require Import List ZArith NArith Bool Lia Arith.
From Astisub Require Import Kit.Base Model.Ops Proofs.FragmentProofs Proofs.UnfragProofs Proofs.OptimizeProofs.
Import ListNotations.

(* ---------------------------------------------------------------- pieces_loop *)
(* measure: the number of multiples of f from b below the end of the cue *)
Lemma pieces_loop_enough f : (0 < f)%Z -> forall n m x b,
  (en x - b < Z.of_nat n * f)%Z -> (en x - b < Z.of_nat m * f)%Z -> pieces_loop n f x b = pieces_loop m f x b.
Proof.
  intros Hf. induction n as [|n IH]; intros m x b Hn Hm.
  - assert (E : (b <? en x)%Z = false) by (apply Z.ltb_ge; cbn in Hn; lia).
    destruct m as [|m]; cbn [pieces_loop]; [reflexivity | rewrite E; reflexivity].
  - destruct m as [|m].
    + assert (E : (b <? en x)%Z = false) by (apply Z.ltb_ge; cbn in Hm; lia).
      cbn [pieces_loop]. rewrite E. reflexivity.
    + cbn [pieces_loop]. destruct (b <? en x)%Z; [|reflexivity]. f_equal.
      rewrite Nat2Z.inj_succ, Z.mul_succ_l in Hn, Hm. apply IH; cbn [set_st en]; lia.
Qed.
Theorem pieces_fuel_indep f x fuel : (0 < f)%Z -> (Z.to_nat ((en x - st x) / f + 2) <= fuel)%nat ->
  pieces_loop fuel f x (next_mult f (st x)) = pieces f x.
Proof.
  intros Hf H. unfold pieces. pose proof (pieces_fuel f x Hf) as P. apply pieces_loop_enough; [exact Hf | | exact P].
  eapply Z.lt_le_trans; [exact P|]. apply Z.mul_le_mono_nonneg_r; lia.
Qed.
(* fuel-free equation of the loop as the wrapper runs it *)
Theorem pieces_loop_unfold f : (0 < f)%Z -> forall n x b, (en x - b < Z.of_nat n * f)%Z ->
  pieces_loop n f x b =
  if (b <? en x)%Z then set_uid (set_en x b) 0%N :: pieces_loop n f (set_st x b) (b + f)%Z else [x].
Proof.
  intros Hf n x b Hn. rewrite (pieces_loop_enough f Hf n (S n) x b Hn) by (rewrite Nat2Z.inj_succ, Z.mul_succ_l; lia).
  reflexivity.
Qed.

(* ---------------------------------------------------------------- unfrag *)
Lemma absorb_len : forall rest x x' rest', absorb x rest = (x', rest') -> (length rest' <= length rest)%nat.
Proof.
  induction rest as [|y ys IH]; intros x x' rest' H.
  - cbn [absorb] in H. inversion H; subst. reflexivity.
  - rewrite absorb_unfold in H. destruct (str_eqb (tx x) (tx y) && (st y <=? en x)%Z).
    + apply IH in H. cbn [length]. lia.
    + destruct (en x <? st y)%Z; [inversion H; subst; reflexivity|].
      destruct (absorb x ys) as [x1 ys1] eqn:E. inversion H; subst. apply IH in E. cbn [length]. lia.
Qed.
Lemma unfrag_enough : forall n m l, (length l <= n)%nat -> (length l <= m)%nat -> unfrag n l = unfrag m l.
Proof.
  induction n as [|n IH]; intros m l Hn Hm.
  - destruct l; [|cbn [length] in Hn; lia]. destruct m; reflexivity.
  - destruct l as [|x rest]; [destruct m; reflexivity|]. destruct m as [|m]; [cbn [length] in Hm; lia|].
    cbn [unfrag]. destruct (absorb x rest) as [x' rest'] eqn:E. apply absorb_len in E. f_equal.
    cbn [length] in Hn, Hm. apply IH; lia.
Qed.
Theorem unfrag_indep fuel l : (length l <= fuel)%nat -> unfrag fuel l = unfrag (length l) l.
Proof. intros H. apply unfrag_enough; lia. Qed.
(* the loop without fuel and its equations *)
Definition unfrag_c (l : list item) : list item := unfrag (length l) l.
Theorem unfragment_c l : unfragment l = unfrag_c (order l). Proof. reflexivity. Qed.
Theorem unfrag_c_nil : unfrag_c [] = []. Proof. reflexivity. Qed.
Theorem unfrag_c_cons x rest : unfrag_c (x :: rest) = let (x', rest') := absorb x rest in x' :: unfrag_c rest'.
Proof.
  unfold unfrag_c. cbn [length unfrag]. destruct (absorb x rest) as [x' rest'] eqn:E. apply absorb_len in E.
  f_equal. apply unfrag_enough; lia.
Qed.

(* ---------------------------------------------------------------- mark_chain *)
(* measure: the styles of the map not marked yet; it is at most length ss, the wrapper passes S (length ss) *)
Lemma mark_chain_enough ss : forall n m id used, (unmarked ss used < n)%nat -> (unmarked ss used < m)%nat ->
  mark_chain n ss id used = mark_chain m ss id used.
Proof.
  induction n as [|n IH]; intros m id used Hn Hm; [lia|]. destruct m as [|m]; [lia|].
  cbn [mark_chain]. destruct (nmem id used) eqn:Hu; [reflexivity|].
  fold (style_by_id ss id). destruct (style_by_id ss id) as [kv|] eqn:Hf; [|reflexivity].
  destruct (s_parent (snd kv)) as [p|]; [|reflexivity].
  pose proof (unmarked_decr ss id used (style_by_id_have ss id kv Hf) Hu) as D. apply IH; lia.
Qed.
Theorem mark_chain_indep ss fuel id used : (S (length ss) <= fuel)%nat ->
  mark_chain fuel ss id used = mark_chain (S (length ss)) ss id used.
Proof. intros H. pose proof (unmarked_le ss used). apply mark_chain_enough; lia. Qed.
(* the walk without fuel and its equation *)
Definition mark_chain_c (ss : list (N * style)) (id : N) (used : list N) : list N := mark_chain (S (length ss)) ss id used.
Theorem mark_all_c ss roots : mark_all ss roots = fold_left (fun used id => mark_chain_c ss id used) roots [].
Proof. reflexivity. Qed.
Theorem mark_chain_c_eq ss id used :
  mark_chain_c ss id used =
  if nmem id used then used
  else match style_by_id ss id with
       | Some kv => match s_parent (snd kv) with
                    | Some p => mark_chain_c ss p (id :: used)
                    | None => id :: used
                    end
       | None => id :: used
       end.
Proof.
  unfold mark_chain_c at 1. cbn [mark_chain]. destruct (nmem id used) eqn:Hu; [reflexivity|].
  fold (style_by_id ss id). destruct (style_by_id ss id) as [kv|] eqn:Hf; [|reflexivity].
  destruct (s_parent (snd kv)) as [p|]; [|reflexivity].
  pose proof (unmarked_decr ss id used (style_by_id_have ss id kv Hf) Hu) as D. pose proof (unmarked_le ss used).
  unfold mark_chain_c. apply mark_chain_enough; lia.
Qed.
