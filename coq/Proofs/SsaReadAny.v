(* SSA/ASS reader on rendered documents, sections in any order: script info, styles and events sections may come in
   any order and any number (events before styles, several script info sections, ...); inside a script info section
   comment lines and key lines may be interleaved in any order.  The styles are looked up at the end, so an event row
   may precede the style it names. *)
From Coq Require Import Strings.String Strings.Ascii.
From Coq Require Import List ZArith NArith Bool Lia.
From Astisub Require Import Kit.Base Kit.Str Kit.Scan Model.Dur Model.Ssa.
From Astisub Require Import Proofs.VttBase Proofs.SsaFields Proofs.SsaTrim Proofs.SsaRows Proofs.SsaLines
  Proofs.SsaInfo Proofs.SsaInfoOrder Proofs.SsaStyles Proofs.SsaEvents Proofs.SsaIgnore Proofs.SsaRead.
Import ListNotations.
Open Scope N_scope.

(* ---- script info entries: a comment, or the line of a key (absent when [b] has no value for it) ---- *)
Inductive ientry := IC (c : str) | IK (f : fkey).
Definition ientry_lines (b : ainfo) (e : ientry) : list str :=
  match e with IC c => [[59; 32] ++ c] | IK f => fline f b end.
Definition ientry_apply (b : ainfo) (i : ainfo) (e : ientry) : ainfo :=
  match e with
  | IC c => add_comment c i
  | IK f => match fline f b with [] => i | _ => qset f b i end
  end.
Definition ientry_ok (e : ientry) : Prop := match e with IC c => str_ok c | IK _ => True end.

Lemma ientry_run b e s : info_ok b -> rs_sect s = SInfo -> ientry_ok e ->
  ssa_run s false (ientry_lines b e) = Ok (set_info (ientry_apply b (rs_info s) e) s).
Proof.
  intros Hb Hs He. destruct e as [c|f]; cbn [ientry_lines ientry_apply ssa_run].
  - destruct He as [Hc _]. cbn [app]. rewrite (comment_step s c Hc) by (rewrite Hs; discriminate). destruct s; reflexivity.
  - destruct (fline f b) as [|l r] eqn:E; [cbn [ssa_run]; rewrite set_info_id; reflexivity|].
    assert (Hr : r = []).
    { destruct f as [k|k|]; cbn [fline] in E; unfold info_str_lines, info_num_lines, info_timer_lines in E;
        [destruct (kget k b) | destruct (nget k b) | destruct (an_timer b)]; inversion E; reflexivity. }
    subst r. cbn [ssa_run]. rewrite (key_line_step s f b l Hb Hs); [reflexivity|]. rewrite E. left. reflexivity.
Qed.
Lemma ientries_run b es : forall s, info_ok b -> rs_sect s = SInfo -> Forall ientry_ok es ->
  ssa_run s false (flat_map (ientry_lines b) es) = Ok (set_info (fold_left (ientry_apply b) es (rs_info s)) s).
Proof.
  induction es as [|e r IH]; intros s Hb Hs HF; [cbn [flat_map ssa_run fold_left]; rewrite set_info_id; reflexivity|].
  inversion HF as [|? ? He Hr]; subst. cbn [flat_map fold_left]. rewrite ssa_run_app, (ientry_run b e s Hb Hs He).
  rewrite IH; [destruct s; reflexivity | exact Hb | destruct s; exact Hs | exact Hr].
Qed.

(* the script info after all entries, from the empty one: [b], provided the comments are [b]'s, in order, and every key occurs *)
Definition comments_of (es : list ientry) : list str := flat_map (fun e => match e with IC c => [c] | IK _ => [] end) es.
Lemma qget_add_comment f c i : qget f (add_comment c i) = qget f i.
Proof. destruct i, f as [k|k|]; try destruct k; reflexivity. Qed.
Lemma comments_add_comment c i : an_comments (add_comment c i) = an_comments i ++ [c].
Proof. destruct i; reflexivity. Qed.
Lemma ientries_fold b es : forall i,
  let r := fold_left (ientry_apply b) es i in
  an_comments r = an_comments i ++ comments_of es /\
  (forall f, In (IK f) es -> qget f r = qget f b \/ (fline f b = [] /\ qget f r = qget f i)) /\
  (forall f, qget f r = qget f b \/ qget f r = qget f i).
Proof.
  induction es as [|e es IH]; intros i; cbn zeta; cbn [fold_left].
  - split; [cbn [comments_of flat_map]; symmetry; apply app_nil_r|]. split; [intros f []|]. intros f. right. reflexivity.
  - specialize (IH (ientry_apply b i e)). cbn zeta in IH. destruct IH as (Hc & Hin & Hor).
    destruct e as [c|f0]; cbn [ientry_apply] in *.
    + split; [rewrite Hc, comments_add_comment, <- app_assoc; reflexivity|]. split.
      * intros f [Heq|Hf]; [discriminate|]. destruct (Hin f Hf) as [H1|[Hn H1]]; [left; exact H1|].
        right. split; [exact Hn|]. rewrite H1. apply qget_add_comment.
      * intros f. destruct (Hor f) as [H1|H1]; [left; exact H1 | right; rewrite H1; apply qget_add_comment].
    + destruct (fline f0 b) as [|l0 r0] eqn:E0.
      * split; [exact Hc|]. split; [|exact Hor].
        intros f [Heq|Hf]; [|apply Hin; exact Hf]. injection Heq as <-.
        destruct (Hor f0) as [H1|H1]; [left; exact H1 | right; split; assumption].
      * split; [rewrite Hc, comments_qset; reflexivity|]. split.
        -- intros f [Heq|Hf].
           ++ injection Heq as <-. left. destruct (Hor f0) as [H1|H1]; [exact H1 | rewrite H1; apply qget_qset_same].
           ++ destruct (Hin f Hf) as [H1|[Hn H1]]; [left; exact H1|].
              destruct (fkey_eq_dec f f0) as [->|Hne]; [left; rewrite H1; apply qget_qset_same|].
              right. split; [exact Hn|]. rewrite H1. apply qget_qset_other. exact Hne.
        -- intros f. destruct (Hor f) as [H1|H1]; [left; exact H1|]. rewrite H1.
           destruct (fkey_eq_dec f f0) as [->|Hne]; [left; apply qget_qset_same | right; apply qget_qset_other; exact Hne].
Qed.
Lemma ientries_final b es : comments_of es = an_comments b -> (forall f, In (IK f) es) ->
  fold_left (ientry_apply b) es ainfo0 = b.
Proof.
  intros Hc Hall. destruct (ientries_fold b es ainfo0) as (Hcm & Hin & _). cbn zeta in *.
  apply ainfo_ext; [rewrite Hcm, Hc; reflexivity|]. intros f.
  destruct (Hin f (Hall f)) as [H1|[Hn H1]]; [exact H1|]. rewrite H1, (fline_nil_default f b Hn). reflexivity.
Qed.

(* ---- sections ---- *)
Inductive rsec :=
  | RInfo (h : str) (es : list ientry)
  | RStyles (h fs : str) (cols : list str) (rows : list (list str * astyle))
  | REvents (h fe : str) (cols : list str) (rows : list ((list str * str) * aevent)).
Definition rsec_lines (b : ainfo) (sec : rsec) : list str :=
  match sec with
  | RInfo h es => h :: flat_map (ientry_lines b) es
  | RStyles h fs _ rows => h :: (n_format_pfx ++ fs) :: map (fun p : list str * astyle => n_style_pfx ++ join [44] (fst p)) rows
  | REvents h fe _ rows =>
    h :: (n_format_pfx ++ fe) :: map (fun p : (list str * str) * aevent => n_dialogue_pfx ++ join [44] (fst (fst p) ++ [snd (fst p)])) rows
  end.
Definition rsec_ok (first : bool) (sec : rsec) : Prop :=
  match sec with
  | RInfo h es => section_hdr first h SInfo /\ Forall ientry_ok es
  | RStyles h fs cols rows => section_hdr first h SStyles /\ format_value fs cols /\ cols <> [] /\
                              Forall (fun p : list str * astyle => style_row cols (fst p) (snd p)) rows
  | REvents h fe cols rows => section_hdr first h SEvents /\ format_value fe cols /\ cols <> [] /\
                              Forall (fun p : (list str * str) * aevent => event_row cols (fst (fst p)) (snd (fst p)) (snd p)) rows
  end.
Definition rsec_apply (b : ainfo) (s : rstate) (sec : rsec) : rstate :=
  match sec with
  | RInfo _ es => mkRstate SInfo (rs_fmt s) (fold_left (ientry_apply b) es (rs_info s)) (rs_styles s) (rs_events s)
  | RStyles _ _ cols rows => mkRstate SStyles cols (rs_info s) (rs_styles s ++ map snd rows) (rs_events s)
  | REvents _ _ cols rows => mkRstate SEvents cols (rs_info s) (rs_styles s) (rs_events s ++ map snd rows)
  end.

Lemma rsec_run first b sec s : info_ok b -> rsec_ok first sec ->
  ssa_run s first (rsec_lines b sec) = Ok (rsec_apply b s sec).
Proof.
  intros Hb Hok. destruct sec as [h es|h fs cols rows|h fe cols rows]; cbn [rsec_lines rsec_ok rsec_apply ssa_run] in *.
  - destruct Hok as (Hh & Hes). rewrite (section_hdr_step s first h SInfo Hh).
    rewrite ientries_run; [reflexivity | exact Hb | reflexivity | exact Hes].
  - destruct Hok as (Hh & Hf & Hcn & Hrows). rewrite (section_hdr_step s first h SStyles Hh).
    rewrite format_step_gen with (cols := cols); [|left; reflexivity | reflexivity | exact Hf].
    cbn [rs_sect rs_fmt rs_info rs_styles rs_events].
    rewrite (style_rows_run_gen cols rows); [reflexivity | exact Hrows | reflexivity | reflexivity | exact Hcn].
  - destruct Hok as (Hh & Hf & Hcn & Hrows). rewrite (section_hdr_step s first h SEvents Hh).
    rewrite format_step_gen with (cols := cols); [|right; reflexivity | reflexivity | exact Hf].
    cbn [rs_sect rs_fmt rs_info rs_styles rs_events].
    rewrite (event_rows_run_gen cols rows); [reflexivity | exact Hrows | reflexivity | reflexivity | exact Hcn].
Qed.
Lemma rsec_lines_nonnil b sec : rsec_lines b sec <> [].
Proof. destruct sec; discriminate. Qed.
Lemma rsecs_run b secs : forall first s, info_ok b ->
  match secs with [] => True | x :: r => rsec_ok first x /\ Forall (rsec_ok false) r end ->
  ssa_run s first (flat_map (rsec_lines b) secs) = Ok (fold_left (rsec_apply b) secs s).
Proof.
  induction secs as [|x r IH]; intros first s Hb Hok; [reflexivity|]. destruct Hok as [Hx Hr].
  cbn [flat_map fold_left]. rewrite (ssa_run_app_gen _ _ _ _ (rsec_lines_nonnil b x)), (rsec_run first b x s Hb Hx).
  apply IH; [exact Hb|]. destruct r as [|y r']; [exact I|]. inversion Hr; subst. split; assumption.
Qed.

(* what the sections contribute, in document order *)
Definition entries_of (sec : rsec) : list ientry := match sec with RInfo _ es => es | _ => [] end.
Definition styles_of (sec : rsec) : list astyle := match sec with RStyles _ _ _ rows => map snd rows | _ => [] end.
Definition events_of (sec : rsec) : list aevent := match sec with REvents _ _ _ rows => map snd rows | _ => [] end.
Lemma rsecs_fold b secs : forall s,
  let r := fold_left (rsec_apply b) secs s in
  rs_info r = fold_left (ientry_apply b) (flat_map entries_of secs) (rs_info s) /\
  rs_styles r = rs_styles s ++ flat_map styles_of secs /\
  rs_events r = rs_events s ++ flat_map events_of secs.
Proof.
  induction secs as [|x r IH]; intros s; cbn zeta; cbn [fold_left flat_map].
  - rewrite !app_nil_r. repeat split.
  - specialize (IH (rsec_apply b s x)). cbn zeta in IH. destruct IH as (Hi & Hs & He). rewrite Hi, Hs, He.
    destruct x; cbn [rsec_apply entries_of styles_of events_of rs_info rs_styles rs_events app]; rewrite ?fold_left_app, <- ?app_assoc, ?app_nil_r;
      repeat split; reflexivity.
Qed.

Lemma rsec_ok_events first sec : rsec_ok first sec -> Forall (fun ev => av_category ev = n_dialogue) (events_of sec).
Proof.
  destruct sec as [h es|h fs cols rows|h fe cols rows]; cbn [rsec_ok events_of]; try (intros _; constructor).
  intros (_ & _ & _ & Hrows). apply Forall_forall. intros ev Hev. apply in_map_iff in Hev. destruct Hev as (p & <- & Hp).
  rewrite Forall_forall in Hrows. destruct (Hrows p Hp) as (_ & _ & Hcat & _). exact Hcat.
Qed.

(* READING A DOCUMENT OF SECTIONS IN ANY ORDER: for every list of sections (each a script info section with comments
   and key lines interleaved in any order, a styles section or an events section under its own Format line), in any
   order, the reader returns [b] -- provided the comment entries are [b]'s comments in order and every key occurs --
   the styles of all styles sections, and the items of all Dialogue rows, each resolved against the final styles map *)
Theorem read_sections b secs e : info_ok b ->
  match secs with [] => True | x :: r => rsec_ok true x /\ Forall (rsec_ok false) r end ->
  comments_of (flat_map entries_of secs) = an_comments b -> (forall f, In (IK f) (flat_map entries_of secs)) ->
  let sts := flat_map styles_of secs in
  read_ssa_lines (flat_map (rsec_lines b) secs) e =
  if e then Err EIO
  else Ok (mkAdoc (Some b) (styles_map sts) (map (fun ev => event_item ev (styles_map sts)) (flat_map events_of secs))).
Proof.
  intros Hb Hok Hcm Hkeys sts. unfold read_ssa_lines. rewrite (rsecs_run b secs true rstate0 Hb Hok).
  destruct e; [reflexivity|]. destruct (rsecs_fold b secs rstate0) as (Hi & Hs & He). cbn zeta in *.
  unfold finish. rewrite Hi, Hs, He. cbn [rstate0 rs_info rs_styles rs_events app].
  rewrite (ientries_final b _ Hcm Hkeys). f_equal. f_equal. f_equal. apply filter_all. apply forallb_forall.
  intros ev Hev. apply in_flat_map in Hev. destruct Hev as (sec & Hsec & Hev).
  assert (Hsok : exists first, rsec_ok first sec).
  { destruct secs as [|x r]; [destruct Hsec|]. destruct Hok as [Hx Hr]. destruct Hsec as [<-|Hsec]; [exists true; exact Hx|].
    exists false. rewrite Forall_forall in Hr. apply Hr. exact Hsec. }
  destruct Hsok as (first & Hsok). pose proof (rsec_ok_events first sec Hsok) as Hd. rewrite Forall_forall in Hd.
  unfold is_dialogue. rewrite (Hd ev Hev). apply str_eqb_refl.
Qed.

(* ---- non-vacuity: the events section first, then a script info section with a comment between two keys, then the
   styles section, then a second script info section with the remaining keys and another comment ---- *)
Open Scope string_scope.
Definition y_info : ainfo := kset KTitle (s2l "t: x") (add_comment (s2l "d") (add_comment (s2l "c") ainfo0)).
Definition y_secs : list rsec :=
  [REvents (s2l "[EVENTS]") (s2l "End,Style , Start,Nonsense,Text") x_ecols [((x_init, x_last), x_ev)];
   RInfo (s2l "[Script Info]") [IK (FK KWrapStyle); IC (s2l "c"); IK (FK KTitle); IK FT];
   RStyles (s2l "[v4+ styles]") (s2l "Bold ,Name,Whatever,  TertiaryColour, Fontsize") x_scols [(x_cells, x_st)];
   RInfo (s2l "[SCRIPT INFO]")
         ([IK (FK KCollisions); IK (FK KOriginalEditing); IK (FK KOriginalScript); IK (FK KOriginalTiming); IC (s2l "d");
           IK (FK KOriginalTranslation); IK (FN KPlayDepth); IK (FN KPlayResX); IK (FN KPlayResY); IK (FK KScriptType);
           IK (FK KScriptUpdatedBy); IK (FK KSynchPoint); IK (FK KTitle); IK (FK KUpdateDetails)])].
Example y_read :
  read_ssa_lines (flat_map (rsec_lines y_info) y_secs) false =
  Ok (mkAdoc (Some y_info) [(s2l "Main", Some x_st)]
             [mkAitem 1500000000%Z 3000000000%Z (Some (s2l "Main")) (Some (mkAevattr [] None None None None None))
                      [mkAline [] [mkArun (s2l "Hello, world") None]; mkAline [] [mkArun (s2l "x") (Some (s2l "{\i1}"))]]]).
Proof.
  rewrite (read_sections y_info y_secs false).
  - reflexivity.
  - unfold y_info, info_ok. split; [repeat constructor; reflexivity|]. split; [intros k; destruct k; split; reflexivity|].
    split; [intros k v; destruct k; discriminate | discriminate].
  - split.
    + split; [exists (s2l "EVENTS"); split; reflexivity|]. split; [split; [discriminate | split; reflexivity]|].
      split; [discriminate|]. constructor; [exact x_event_row | constructor].
    + constructor; [|constructor; [|constructor; [|constructor]]].
      * split; [exists (s2l "Script Info"); split; reflexivity|]. repeat constructor; reflexivity.
      * split; [exists (s2l "v4+ styles"); split; reflexivity|]. split; [split; [discriminate | split; reflexivity]|].
        split; [discriminate|]. constructor; [exact x_style_row | constructor].
      * split; [exists (s2l "SCRIPT INFO"); split; reflexivity|]. repeat constructor; reflexivity.
  - reflexivity.
  - intros f. destruct f as [k|k|]; try destruct k; cbn; tauto.
Qed.
