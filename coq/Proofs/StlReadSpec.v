(* C05: the reader on *any* file made of a 1024-byte GSI block and 128-byte TTI blocks, restated without fuel and
   block reading: one cue per block that is not a user-data block, in order; times = the block's timecodes converted
   at the disk format's frame rate minus the programme start (zero when ignored); justification, vertical position,
   rows through the row parser of the display standard, the character handler's pending accent threaded through. *)
From Coq Require Import List ZArith NArith Bool Lia ZifyBool ZifyN ZifyNat.
From Astisub Require Import Kit.Base Kit.Str Kit.Utf8 Kit.Scan Model.Dur Model.Stl Gen.StlTables
  Proofs.ScanProofs Proofs.StlBlocks Proofs.StlTti.
Import ListNotations.
Open Scope Z_scope.

Definition is_user_data (p : str) : bool := (nth 3 p 0%N =? 254)%N.

Fixpoint blocks_spec (g : gsi) (tcp : Z) (acc : option N) (blocks : list str) : res (list ritem) :=
  match blocks with
  | [] => Ok []
  | p :: r =>
    if is_user_data p then blocks_spec g tcp acc r
    else
      let t := parse_tti p (g_fps g) in
      let rows := split_byte 138 (t_text t) in
      if str_eqb (g_dsc g) stl_s_dscOpen then
        do x <- rows_open rows acc [];
        let '(lines, acc') := x in
        do rest <- blocks_spec g tcp acc' r;
        Ok (item_of g tcp t (length rows) lines :: rest)
      else
        let '(lines, acc') := rows_ttx rows acc [] in
        do rest <- blocks_spec g tcp acc' r;
        Ok (item_of g tcp t (length rows) lines :: rest)
  end.

Definition rdoc_with (g : gsi) (tcp : Z) (items : list ritem) : rdoc :=
  mkRdoc (g_fps g) (g_co g) (g_cd g) (g_dsc g) (g_ecd g) (g_en g) (g_mnc g) (g_mnr g) (g_oet g) (g_pub g)
         (g_rd g) (g_rn g) (g_slr g) (g_tet g) (g_tpt g) (g_tcd g) (g_tn g) (g_opt g) tcp
         (match slookup (g_lc g) stl_language with Some l => l | None => [] end) items.

Lemma user_data_ebn p fps : (t_ebn (parse_tti p fps) =? 254) = is_user_data p.
Proof.
  unfold parse_tti, is_user_data, stl_byte_at. cbn [t_ebn].
  destruct (nth 3 p 0%N =? 254)%N eqn:E; [apply N.eqb_eq in E; rewrite E; reflexivity|].
  apply N.eqb_neq in E. apply Z.eqb_neq. lia.
Qed.

Lemma tti_loop_spec g tcp : forall blocks fuel acc items,
  (length blocks < fuel)%nat -> Forall (fun p => length p = 128%nat) blocks ->
  tti_loop fuel (concat blocks) g tcp acc items =
  match blocks_spec g tcp acc blocks with Ok r => Ok (rev items ++ r) | Err k => Err k | Panic s => Panic s end.
Proof.
  induction blocks as [|p r IH]; intros fuel acc items Hfuel Hall.
  - destruct fuel; [simpl in Hfuel; lia|]. cbn [concat blocks_spec]. rewrite tti_loop_eof, app_nil_r. reflexivity.
  - destruct fuel as [|fuel]; [simpl in Hfuel; lia|]. simpl in Hfuel. inversion Hall as [|? ? Hp Hr]; subst.
    cbn [concat tti_loop blocks_spec]. destruct (read_n_block 128 p (concat r) Hp) as (cs & R). rewrite R.
    rewrite user_data_ebn. destruct (is_user_data p); [apply IH; [lia | exact Hr]|].
    destruct (str_eqb (g_dsc g) stl_s_dscOpen).
    + destruct (rows_open _ acc []) as [[lines acc']|k|s]; cbn [bind]; try reflexivity.
      rewrite IH by (try lia; exact Hr). destruct (blocks_spec g tcp acc' r); cbn [bind]; try reflexivity.
      cbn [rev]. rewrite <- app_assoc. reflexivity.
    + destruct (rows_ttx _ acc []) as [lines acc'].
      rewrite IH by (try lia; exact Hr). destruct (blocks_spec g tcp acc' r); cbn [bind]; try reflexivity.
      cbn [rev]. rewrite <- app_assoc. reflexivity.
Qed.

Lemma concat_length_128 (blocks : list str) : Forall (fun p => length p = 128%nat) blocks -> length (concat blocks) = (128 * length blocks)%nat.
Proof. induction 1 as [|p r Hp Hr IH]; [reflexivity|]. cbn [concat length]. rewrite app_length, Hp, IH. lia. Qed.

Theorem read_spec (ign : bool) (gb : str) (blocks : list str) (g : gsi) :
  length gb = 1024%nat -> Forall (fun p => length p = 128%nat) blocks ->
  parse_gsi gb = Ok g -> nmem (g_cct g) stl_tables_existing = true ->
  let tcp := if ign then 0 else g_tcp g in
  read_stl ign (gb ++ concat blocks) =
  match blocks_spec g tcp None blocks with Ok items => Ok (rdoc_with g tcp items) | Err k => Err k | Panic s => Panic s end.
Proof.
  intros Hgb Hall Hg Hcct tcp. unfold read_stl. destruct (read_n_block 1024 gb (concat blocks) Hgb) as (cs & R).
  rewrite R, Hg. cbn [bind]. rewrite Hcct. cbn [negb]. fold tcp.
  rewrite (tti_loop_spec g tcp blocks _ None []); [|rewrite (concat_length_128 _ Hall); lia | exact Hall].
  destruct (blocks_spec g tcp None blocks); reflexivity.
Qed.

(* one cue per block that is not a user-data block *)
Lemma blocks_spec_count g tcp : forall (blocks : list str) acc items, blocks_spec g tcp acc blocks = Ok items ->
  length items = length (filter (fun p => negb (is_user_data p)) blocks).
Proof.
  induction blocks as [|p r IH]; intros acc items H; cbn [blocks_spec filter] in *.
  - inversion H. reflexivity.
  - destruct (is_user_data p); cbn [negb]; [exact (IH _ _ H)|].
    destruct (str_eqb (g_dsc g) stl_s_dscOpen).
    + destruct (rows_open _ acc []) as [[lines acc']|k|s]; cbn [bind] in H; try discriminate.
      destruct (blocks_spec g tcp acc' r) as [rest|k|s] eqn:E; cbn [bind] in H; try discriminate.
      inversion H; subst. cbn [length]. f_equal. exact (IH _ _ E).
    + destruct (rows_ttx _ acc []) as [lines acc'].
      destruct (blocks_spec g tcp acc' r) as [rest|k|s] eqn:E; cbn [bind] in H; try discriminate.
      inversion H; subst. cbn [length]. f_equal. exact (IH _ _ E).
Qed.

(* the times, justification and position of the cue a block gives *)
Lemma item_of_fields g tcp p nrows lines :
  let x := item_of g tcp (parse_tti p (g_fps g)) nrows lines in
  ri_st x = parse_stl_bytes (stl_sl 5 4 p) (g_fps g) - tcp /\ ri_en x = parse_stl_bytes (stl_sl 9 4 p) (g_fps g) - tcp /\
  ri_vp x = Z.of_N (nth 13 p 0%N) /\ ri_just x = parse_jc (nth 14 p 0%N) /\ ri_maxrows x = g_mnr g /\ ri_lines x = lines.
Proof. cbn zeta. unfold item_of, parse_tti, stl_byte_at. cbn [ri_st ri_en ri_vp ri_just ri_maxrows ri_lines t_in t_out t_vp t_jc]. repeat split. Qed.

(* a file shorter than the GSI block is an error (end of file when empty) *)
Lemma read_n_short n (data : str) : (length data < n)%nat -> read_n n data [] = match data with [] => RnEOF | _ => RnShort end.
Proof.
  intros H. unfold read_n. change (read_n_fuel (S (length (@nil nat))) n [] data []) with
    (if Nat.leb n (length (@nil N)) then RnOk [] data []
     else let got := firstn (n - length (@nil N)) data in
          let acc' := [] ++ got in
          if Nat.leb n (length acc') then RnOk acc' (skipn (n - length (@nil N)) data) []
          else match acc' with [] => RnEOF | _ => RnShort end).
  change (length (@nil N)) with 0%nat. rewrite Nat.sub_0_r. cbv zeta. cbn [app].
  rewrite firstn_all2 by lia.
  destruct (Nat.leb n 0) eqn:E0; [apply Nat.leb_le in E0; lia|].
  destruct (Nat.leb n (length data)) eqn:E; [apply Nat.leb_le in E; lia|]. reflexivity.
Qed.
Theorem read_short_gsi ign data : (length data < 1024)%nat -> exists k, read_stl ign data = Err k.
Proof.
  intros H. unfold read_stl. rewrite (read_n_short 1024 data H). destruct data; eexists; reflexivity.
Qed.
