(* Fuel audit, Model/Vtt.v: split_ts (value at O: the rest of the text, no further time stamp — an ordinary-looking
   result).  Wrapper: parse_text_token calls it with S (length raw).  Every recursive call is on a strictly shorter
   string (a matched time stamp consumes at least its closing '>'), hence the value does not depend on the fuel. *)
From Coq Require Import List ZArith NArith Bool Arith Lia.
From Astisub Require Import Kit.Base Kit.Str Model.Dur Model.Srt Model.Vtt Proofs.VttLine.
Import ListNotations.
Open Scope N_scope.

Lemma fv_span_app p : forall s a b, span p s = (a, b) -> s = a ++ b.
Proof.
  induction s as [|c r IH]; intros a b H; cbn [span] in H.
  - inversion H; reflexivity.
  - destruct (p c).
    + destruct (span p r) as [a' b'] eqn:E. inversion H; subst. cbn [app]. f_equal. apply IH. reflexivity.
    + inversion H; reflexivity.
Qed.

Ltac fv_step :=
  match goal with
  | |- context [span is_digit ?x] =>
      let d := fresh "d" in let r := fresh "r" in let E := fresh "E" in
      destruct (span is_digit x) as [d r] eqn:E; apply fv_span_app in E
  | |- (match ?r with [] => _ | _ :: _ => _ end = _ -> _) =>
      let c := fresh "c" in let r' := fresh "r" in let p := fresh "p" in
      destruct r as [|c r']; [discriminate|]; destruct c as [|p]; [discriminate|];
      do 6 (destruct p as [p|p|]; try discriminate)
  | |- ((if ?b then _ else _) = _ -> _) => destruct b; [|discriminate]
  end.

(* a matched time stamp is the text up to a '>' *)
Lemma match_ts_sound s ts rest : match_ts s = Some (ts, rest) -> s = ts ++ 62 :: rest.
Proof.
  unfold match_ts, take_digits. repeat fv_step; intros H; inversion H; subst; cbn [app];
    repeat (rewrite <- app_assoc || rewrite <- app_comm_cons); reflexivity.
Qed.
Lemma match_ts_len s ts rest : match_ts s = Some (ts, rest) -> (length rest < length s)%nat.
Proof. intros H. apply match_ts_sound in H. subst s. rewrite app_length. cbn [length]. lia. Qed.

Lemma split_ts_enough : forall n m s cur, (length s < n)%nat -> (length s < m)%nat -> split_ts n s cur = split_ts m s cur.
Proof.
  induction n as [|n IH]; intros m s cur Hn Hm; [lia|]. destruct m as [|m]; [lia|].
  destruct s as [|c r]; [reflexivity|]. rewrite !split_ts_step. cbn [length] in Hn, Hm.
  destruct (c =? 60); [|apply IH; lia].
  destruct (match_ts r) as [[ts rest]|] eqn:E; [|apply IH; lia].
  apply match_ts_len in E. rewrite (IH m rest []) by lia. reflexivity.
Qed.
Theorem split_ts_indep fuel s cur : (S (length s) <= fuel)%nat -> split_ts fuel s cur = split_ts (S (length s)) s cur.
Proof. intros H. apply split_ts_enough; lia. Qed.

(* the function without fuel and its equations *)
Definition split_ts_c (s cur : str) : str * list (str * str) := split_ts (S (length s)) s cur.
Theorem parse_text_token_c style raw :
  parse_text_token style raw =
  match split_ts_c raw [] with
  | (_, []) => [mkVrun (unescape_html raw) style 0%Z None]
  | (before, segs) =>
    (if is_blank before then [] else [mkVrun (unescape_html before) style 0%Z None]) ++
    flat_map (fun p : str * str =>
                let (ts, seg) := p in
                if is_blank seg then []
                else [mkVrun (unescape_html seg) style (match parse_vtt ts with Some v => v | None => 0%Z end) None]) segs
  end.
Proof. reflexivity. Qed.
Theorem split_ts_c_nil cur : split_ts_c [] cur = (rev cur, []). Proof. reflexivity. Qed.
Theorem split_ts_c_cons c r cur :
  split_ts_c (c :: r) cur =
  if c =? 60 then match match_ts r with
                  | Some (ts, rest) => let '(seg, more) := split_ts_c rest [] in (rev cur, (ts, seg) :: more)
                  | None => split_ts_c r (60 :: cur)
                  end
  else split_ts_c r (c :: cur).
Proof.
  unfold split_ts_c at 1. cbn [length]. rewrite split_ts_step.
  destruct (c =? 60); [|reflexivity]. destruct (match_ts r) as [[ts rest]|] eqn:E; [|reflexivity].
  apply match_ts_len in E. unfold split_ts_c. rewrite (split_ts_enough (S (length r)) (S (length rest)) rest []) by lia.
  reflexivity.
Qed.

(* nothing is lost, whatever the fuel: the pieces concatenate to the input (this is why the out-of-fuel value is the
   remaining text); what the fuel could change is only whether a later time stamp is recognised, and it cannot *)
Theorem split_ts_sound : forall fuel s cur t segs, split_ts fuel s cur = (t, segs) ->
  rev cur ++ s = t ++ concat (map seg_bytes segs).
Proof.
  induction fuel as [|f IH]; intros s cur t segs H.
  - cbn [split_ts] in H. inversion H; subst. cbn [map concat]. rewrite app_nil_r. reflexivity.
  - destruct s as [|c r].
    + cbn [split_ts] in H. inversion H; subst. reflexivity.
    + rewrite split_ts_step in H. destruct (c =? 60) eqn:Ec.
      * apply N.eqb_eq in Ec. subst c. destruct (match_ts r) as [[ts rest]|] eqn:E.
        -- destruct (split_ts f rest []) as [seg more] eqn:E2. inversion H; subst.
           apply IH in E2. cbn [rev app] in E2. cbn [map concat]. unfold seg_bytes at 1. cbn [fst snd app].
           apply match_ts_sound in E. subst r. rewrite <- app_assoc. cbn [app]. rewrite E2. reflexivity.
        -- apply IH in H. cbn [rev] in H. rewrite <- app_assoc in H. exact H.
      * apply IH in H. cbn [rev] in H. rewrite <- app_assoc in H. exact H.
Qed.
