(* C07, EBU STL through the plain view: stl_plain_faithful, derived from the document-level write->read theorem for
   the teletext display standards (the writer's default without metadata is display standard "1" at 25 frames per
   second).  Times that are not on the 40 ms frame grid are written as the frame they fall in, so the file is the
   file of the truncated cue list; text comes back exactly (a plain cue has one run per line: the writer inserts
   no space). *)
From Coq Require Import List ZArith NArith Bool Lia ZifyBool ZifyN ZifyNat.
From Astisub Require Import Kit.Base Kit.Str Kit.Utf8 Kit.Scan Model.Dur Model.Plain Model.Stl Model.PlainStl Gen.StlTables
  Proofs.DurProofs Proofs.PlainProofs Proofs.StlBlocks Proofs.StlCodec Proofs.StlTti Proofs.StlGsi Proofs.StlRows
  Proofs.StlRowsTtx Proofs.StlDoc Proofs.StlWriteRead.
Import ListNotations.
Open Scope Z_scope.

(* ---- representability of a plain cue list in an STL file written with the defaults ---- *)
Definition stl_text_ok (t : str) : Prop := run_repr (mkWrun t false false false).
Definition stl_cue_ok (c : pcue) : Prop :=
  let '(s, e, ls) := c in
  0 <= s < 100 * hour_ns /\ 0 <= e < 100 * hour_ns /\ ls <> [] /\ Forall stl_text_ok ls /\
  (length (encode_text_stl (join [194; 138]%N ls)) <= 112)%nat.
(* at least one cue (nothing to write otherwise), fewer than 65536 (16-bit subtitle number), every cue: times from 0 to
   below 100 h (two-digit hours of the GSI first-in-cue field), at least one line, every line a non-empty text over the
   Latin repertoire without '$' and without white space at its ends, the encoded text (lines joined by 0x8A) within
   the 112 bytes of a TTI text field *)
Definition stl_plain_ok (p : plain) : Prop :=
  p <> [] /\ Z.of_nat (length p) < 65536 /\ Forall stl_cue_ok p.

(* ---- the timecode formatters see only the frame ---- *)
Lemma trunc_div x k : 0 <= x -> 0 < k -> trunc_to 40000000 x / (40000000 * k) = x / (40000000 * k).
Proof.
  intros Hx Hk. unfold trunc_to. rewrite <- !Z.div_div by lia. f_equal. Z.div_mod_to_equations. lia.
Qed.
Lemma trunc_mod x k : 0 <= x -> 0 < k -> trunc_to 40000000 x mod (40000000 * k) = trunc_to 40000000 (x mod (40000000 * k)).
Proof.
  intros Hx Hk. rewrite (Z.mod_eq (trunc_to 40000000 x)) by lia. rewrite (trunc_div x k Hx Hk). unfold trunc_to.
  assert (E : x mod 40000000 = (x mod (40000000 * k)) mod 40000000).
  { rewrite (Z.div_mod x (40000000 * k)) at 1 by lia.
    replace (40000000 * k * (x / (40000000 * k)) + x mod (40000000 * k)) with (x mod (40000000 * k) + (k * (x / (40000000 * k))) * 40000000) by ring.
    apply Z.mod_add. lia. }
  rewrite <- E. rewrite (Z.mod_eq x (40000000 * k)) by lia. lia.
Qed.
Lemma stl_fields_trunc t : 0 <= t -> stl_fields (trunc_to 40000000 t) 25 = stl_fields t 25.
Proof.
  intros Ht.
  assert (H1 : 0 <= trunc_to 40000000 t) by (unfold trunc_to; Z.div_mod_to_equations; lia).
  rewrite (stl_fields_spec _ 25 H1) by lia. rewrite (stl_fields_spec t 25 Ht) by lia.
  unfold f_h, f_m, f_s, hour_ns, minute_ns, second_ns.
  change 3600000000000 with (40000000 * 90000). change 60000000000 with (40000000 * 1500). change 1000000000 with (40000000 * 25).
  rewrite (trunc_div t 90000), !trunc_mod by lia.
  assert (P1 : 0 <= t mod (40000000 * 90000)) by (apply Z.mod_pos_bound; lia).
  assert (P2 : 0 <= t mod (40000000 * 1500)) by (apply Z.mod_pos_bound; lia).
  rewrite (trunc_div _ 1500 P1), (trunc_div _ 25 P2) by lia.
  f_equal. unfold trunc_to. set (u := t mod (40000000 * 25)).
  assert (Hu : 0 <= u) by (apply Z.mod_pos_bound; lia). clearbody u. Z.div_mod_to_equations. lia.
Qed.
Lemma format_stl_bytes_trunc t : 0 <= t -> format_stl_bytes (trunc_to 40000000 t) 25 = format_stl_bytes t 25.
Proof. intros Ht. unfold format_stl_bytes. rewrite (stl_fields_trunc t Ht). reflexivity. Qed.
Lemma format_stl_trunc t : 0 <= t -> format_stl (trunc_to 40000000 t) 25 = format_stl t 25.
Proof. intros Ht. unfold format_stl. rewrite (stl_fields_trunc t Ht). reflexivity. Qed.

Lemma trunc_instant t : 0 <= t < 100 * hour_ns ->
  exists h m s f, (0 <= h < 100 /\ 0 <= m < 60 /\ 0 <= s < 60 /\ 0 <= f < 25) /\
    trunc_to 40000000 t = h * hour_ns + m * minute_ns + s * second_ns + frames_ns f 25.
Proof.
  intros Ht. unfold trunc_to, hour_ns, minute_ns, second_ns, frames_ns in *.
  set (q := t / 40000000). assert (Eq : t - t mod 40000000 = 40000000 * q) by (unfold q; Z.div_mod_to_equations; lia).
  assert (Hq : 0 <= q < 9000000) by (unfold q; Z.div_mod_to_equations; lia). rewrite Eq. clearbody q. clear Eq.
  set (a := q / 25). set (b := a / 60).
  exists (b / 60), (b mod 60), (a mod 60), (q mod 25).
  assert (Ea : q = 25 * a + q mod 25 /\ 0 <= q mod 25 < 25) by (unfold a; Z.div_mod_to_equations; lia).
  assert (Eb : a = 60 * b + a mod 60 /\ 0 <= a mod 60 < 60) by (unfold b; Z.div_mod_to_equations; lia).
  assert (Eh : b = 60 * (b / 60) + b mod 60 /\ 0 <= b mod 60 < 60) by (Z.div_mod_to_equations; lia).
  destruct Ea as [Ea Fa], Eb as [Eb Fb], Eh as [Eh Fh].
  set (f := q mod 25) in *. set (s := a mod 60) in *. set (m := b mod 60) in *. set (h := b / 60) in *. clearbody f s m h. clearbody b. clearbody a.
  split; [lia|]. unfold second_ns. rewrite Z.quot_div_nonneg by lia. Z.div_mod_to_equations. lia.
Qed.
Lemma trunc_frame_instant t : 0 <= t < 100 * hour_ns -> frame_instant 25 (trunc_to 40000000 t + 0).
Proof.
  intros Ht. destruct (trunc_instant t Ht) as (h & m & s & f & (Hh & Hm & Hs & Hf) & E).
  exists h, m, s, f. split; [unfold tc_ok; lia | lia].
Qed.

(* ---- the file written for p is the file written for p truncated to the frame grid ---- *)
Lemma new_tti_times i idx : new_tti i idx = mkTti 0 0 255 (jc_of (wi_just i)) 0 idx (stl_item_text i) (wi_st i) (wi_en i)
  (match wi_vp i with Some v => v | None => 20 end).
Proof. reflexivity. Qed.

Lemma tti_blocks_trunc : forall p idx, Forall stl_cue_ok p ->
  tti_blocks 25 stl_s_dscLevel1 0 (stl_of_plain (ptrunc 40000000 p)) idx = tti_blocks 25 stl_s_dscLevel1 0 (stl_of_plain p) idx.
Proof.
  induction p as [|[[s e] ls] r IH]; intros idx H; [reflexivity|]. inversion H as [|? ? Hc Hr]; subst.
  destruct Hc as (Hs & He & _). cbn [ptrunc map stl_of_plain tti_blocks]. fold (ptrunc 40000000 r). fold (stl_of_plain r).
  fold (stl_of_plain (ptrunc 40000000 r)). rewrite (IH (idx + 1) Hr). f_equal.
  unfold tti_bytes, new_tti, stl_item_text. cbn [t_sgn t_sn t_ebn t_cs t_in t_out t_vp t_jc t_cf t_text wi_st wi_en wi_just wi_vp wi_lines].
  rewrite !Z.add_0_r. rewrite (format_stl_bytes_trunc s) by lia. rewrite (format_stl_bytes_trunc e) by lia. reflexivity.
Qed.

Lemma plain_gsi_fields now items :
  g_fps (new_gsi now None items) = 25 /\ g_dsc (new_gsi now None items) = stl_s_dscLevel1 /\ g_tcp (new_gsi now None items) = 0.
Proof. repeat split. Qed.

Lemma gsi_bytes_trunc p : Forall stl_cue_ok p ->
  gsi_bytes (new_gsi stl_plain_now None (stl_of_plain (ptrunc 40000000 p))) = gsi_bytes (new_gsi stl_plain_now None (stl_of_plain p)).
Proof.
  intros H.
  assert (L : length (stl_of_plain (ptrunc 40000000 p)) = length (stl_of_plain p)) by (unfold stl_of_plain; rewrite !map_length; apply ptrunc_length).
  unfold new_gsi. rewrite L. destruct p as [|[[s e] ls] r]; [reflexivity|]. inversion H as [|? ? Hc Hr]; subst. destruct Hc as (Hs & _).
  cbn [ptrunc map stl_of_plain wi_st]. unfold gsi_bytes. cbn [g_cpn g_fps g_dsc g_cct g_lc g_opt g_oet g_tpt g_tet g_tn g_tcd g_slr g_cd g_rd g_rn g_tnb g_tns g_tng g_mnc g_mnr g_tcs g_tcp g_tcf g_tnd g_dsn g_co g_pub g_en g_ecd].
  rewrite !Z.add_0_r. rewrite (format_stl_trunc s) by lia. reflexivity.
Qed.

Lemma written_trunc p : Forall stl_cue_ok p ->
  written stl_plain_now None (stl_of_plain (ptrunc 40000000 p)) = written stl_plain_now None (stl_of_plain p).
Proof.
  intros H. unfold written. rewrite (gsi_bytes_trunc p H).
  destruct (plain_gsi_fields stl_plain_now (stl_of_plain p)) as (F1 & D1 & T1).
  destruct (plain_gsi_fields stl_plain_now (stl_of_plain (ptrunc 40000000 p))) as (F2 & D2 & T2).
  rewrite F1, D1, T1, F2, D2, T2. rewrite (tti_blocks_trunc p 1 H). reflexivity.
Qed.

(* ---- a truncated acceptable list is a representable document ---- *)
Lemma default_gsi_repr n tcf : 0 <= n < 65536 -> tc_instant tcf 25 ->
  gsi_repr (mkGsi stl_c_cctLatin stl_c_codePageMultilingual stl_s_countryFrance stl_plain_now 1 stl_s_dscLevel1 [] [] 25 stl_s_languageFrench
                  40 23 [] [] [] stl_plain_now 0 [] tcf 0 stl_s_timecodeStatus1 1 1 n n [] [] [] [] []).
Proof.
  intros Hn Htcf.
  assert (S0 : forall w, str_ok w []) by (intros w; split; [cbn [length]; lia | reflexivity]).
  constructor; cbn [g_cct g_cpn g_fps g_dsc g_lc g_opt g_oet g_tpt g_tet g_tn g_tcd g_slr g_cd g_rd g_rn g_tnb g_tns g_tng g_mnc g_mnr g_tcs g_tcp g_tcf g_tnd g_dsn g_co g_pub g_en g_ecd g_uda];
    try apply S0; try lia; try reflexivity; try assumption;
    try (split; [vm_compute; lia | vm_compute; reflexivity]);
    try (right; vm_compute; reflexivity).
  - exists 0, 0, 0, 0. vm_compute. repeat split; try discriminate; reflexivity.
  - exact 0%nat.
Qed.

Lemma single_run_line t : stl_text_ok t -> line_repr [mkWrun t false false false].
Proof. intros H. split; [discriminate|]. split; [constructor; [exact H | constructor] | exact I]. Qed.

Lemma plain_item_text s e ls :
  stl_item_text (mkWitem s e None None (map (fun t => [mkWrun t false false false]) ls)) = join [194; 138]%N ls.
Proof.
  unfold stl_item_text. cbn [wi_lines]. rewrite map_map. f_equal.
  rewrite <- (map_id ls) at 2. apply map_ext. intros t. reflexivity.
Qed.

Lemma plain_doc_repr p : stl_plain_ok p -> doc_repr_ttx stl_plain_now None (stl_of_plain (ptrunc 40000000 p)).
Proof.
  intros (Hne & Hlen & Hall). unfold doc_repr_ttx. cbv zeta.
  assert (Hne' : stl_of_plain (ptrunc 40000000 p) <> []) by (destruct p as [|[[s e] ls] r]; [contradiction | discriminate]).
  assert (Hlen' : length (stl_of_plain (ptrunc 40000000 p)) = length p) by (unfold stl_of_plain; rewrite map_length; apply ptrunc_length).
  split; [exact Hne'|]. split; [rewrite Hlen'; exact Hlen|]. split; [|split; [reflexivity|]].
  - unfold new_gsi. rewrite Hlen'. destruct p as [|[[s e] ls] r]; [contradiction|].
    inversion Hall as [|? ? Hc Hr]; subst. destruct Hc as (Hs & _).
    cbn [ptrunc map stl_of_plain wi_st]. rewrite Z.add_0_r. apply default_gsi_repr; [cbn [length] in *; lia|].
    destruct (trunc_instant s Hs) as (h & m & sec & f & (Hh & Hm & Hsec & Hf) & E). exists h, m, sec, f. repeat split; first [lia | exact E].
  - destruct (plain_gsi_fields stl_plain_now (stl_of_plain (ptrunc 40000000 p))) as (F & D & T). rewrite F, D, T.
    clear Hne Hlen Hne' Hlen' F D T. induction Hall as [|[[s e] ls] r Hc Hr IH]; [constructor|].
    cbn [ptrunc map stl_of_plain]. fold (ptrunc 40000000 r). fold (stl_of_plain (ptrunc 40000000 r)). constructor; [|exact IH].
    destruct Hc as (Hs & He & Hls & Htexts & Hfit). unfold item_repr_ttx. cbn [wi_st wi_en wi_vp]. split; [|split; [|split; [|exact I]]].
    + unfold rows_repr. cbn [wi_lines]. split; [destruct ls; [contradiction | discriminate]|]. split.
      * apply Forall_forall. intros l Hl. apply in_map_iff in Hl. destruct Hl as (t & <- & Ht).
        apply single_run_line. exact (proj1 (Forall_forall _ _) Htexts t Ht).
      * rewrite plain_item_text. exact Hfit.
    + apply trunc_frame_instant. exact Hs.
    + apply trunc_frame_instant. exact He.
Qed.

(* ---- what comes back is the truncated list ---- *)
Lemma plain_lines_back ls :
  map stl_line_text (map expected_ttx_line (map (fun t => [mkWrun t false false false]) ls)) = ls.
Proof.
  rewrite !map_map. rewrite <- (map_id ls) at 2. apply map_ext. intros t.
  unfold expected_ttx_line, stl_line_text. cbn [expected_ttx_from map ru_text wr_text concat]. apply app_nil_r.
Qed.
Lemma read_back_plain g q :
  stl_to_plain (read_back g expected_ttx_line (stl_of_plain q)) = q.
Proof.
  unfold stl_to_plain, read_back, rdoc_of. cbn [rd_items]. rewrite map_map.
  induction q as [|[[s e] ls] r IH]; [reflexivity|]. cbn [stl_of_plain map]. fold (stl_of_plain r). rewrite IH. f_equal.
  unfold expected_item. cbn [ri_st ri_en ri_lines wi_st wi_en wi_lines]. rewrite plain_lines_back. reflexivity.
Qed.

Theorem stl_plain_faithful : plain_faithful stl_plain_unit stl_plain_ok stl_enc stl_dec.
Proof.
  intros p Hok. destruct (write_read_ttx _ _ _ (plain_doc_repr p Hok)) as (out & W & R).
  destruct Hok as (Hne & Hlen & Hall).
  assert (Hne1 : stl_of_plain p <> []) by (destruct p as [|[[s e] ls] r]; [contradiction | discriminate]).
  assert (Hne2 : stl_of_plain (ptrunc 40000000 p) <> []) by (destruct p as [|[[s e] ls] r]; [contradiction | discriminate]).
  rewrite (write_stl_eq _ _ _ Hne2) in W. assert (Eout : out = written stl_plain_now None (stl_of_plain (ptrunc 40000000 p))) by congruence.
  exists out. split.
  - unfold stl_enc. rewrite (write_stl_eq _ _ _ Hne1), Eout, (written_trunc p Hall). reflexivity.
  - unfold stl_dec, dec_with. rewrite R. f_equal. apply read_back_plain.
Qed.

(* non-vacuity: the example list of PlainProofs.v with an accented line *)
Definition ex_plain_stl : plain :=
  [(1000000000, 2500000000, [[72; 105]; [116; 104; 195; 169; 114; 101]]%N); (3000000123, 4000000000, [[89; 111; 33; 32; 194; 164]]%N)].
Ltac text_ok_by cs :=
  split; [discriminate | split; [vm_compute; reflexivity |
    exists cs; split; [reflexivity | repeat (apply Forall_cons; [apply in_rep_In; vm_compute; reflexivity|]); apply Forall_nil]]].
Example ex_plain_stl_ok : stl_plain_ok ex_plain_stl.
Proof.
  split; [discriminate|]. split; [vm_compute; reflexivity|]. constructor; [|constructor; [|constructor]].
  - split; [unfold hour_ns; lia|]. split; [unfold hour_ns; lia|]. split; [discriminate|]. split; [|vm_compute; lia].
    constructor; [text_ok_by [[72]; [105]]%N|]. constructor; [text_ok_by [[116]; [104]; [195;169]; [114]; [101]]%N|]. constructor.
  - split; [unfold hour_ns; lia|]. split; [unfold hour_ns; lia|]. split; [discriminate|]. split; [|vm_compute; lia].
    constructor; [text_ok_by [[89]; [111]; [33]; [32]; [194;164]]%N|]. constructor.
Qed.
Example ex_plain_stl_roundtrip :
  exists data, stl_enc ex_plain_stl = Ok data /\ length data = 1280%nat /\
               stl_dec data = Ok [(1000000000, 2480000000, [[72; 105]; [116; 104; 195; 169; 114; 101]]%N); (3000000000, 4000000000, [[89; 111; 33; 32; 194; 164]]%N)].
Proof.
  destruct (stl_plain_faithful _ ex_plain_stl_ok) as (data & W & R). exists data. split; [exact W|]. split; [exact (write_layout _ _ _ _ W)|]. exact R.
Qed.

(* when the cue list comes from another format its metadata may be present but carry nothing the STL writer uses (no
   title, no frame rate of 25 or 30, no mapped language, no STL field): the file is the file written without metadata *)
Definition foreign_metadata (fps : Z) (lang : str) : wmeta :=
  mkWmeta fps lang [] [] None [] [] [] None None [] [] None 0 [] 0 [] [] [] [].
Lemma foreign_metadata_is_default now fps lang items :
  zlookup fps stl_framerate_inv = None -> slookup lang stl_language_inv = None ->
  write_stl now (Some (foreign_metadata fps lang)) items = write_stl now None items.
Proof.
  intros Hf Hl. unfold write_stl. destruct items as [|i r]; [reflexivity|].
  assert (E : new_gsi now (Some (foreign_metadata fps lang)) (i :: r) = new_gsi now None (i :: r)).
  { unfold new_gsi, foreign_metadata. cbn [wm_fps wm_lang wm_title wm_co wm_cd wm_dsc wm_ecd wm_en wm_mnc wm_mnr wm_oet wm_pub wm_rd wm_rn wm_slr wm_tcp wm_tet wm_tpt wm_tcd wm_tn].
    rewrite Hf, Hl. reflexivity. }
  cbv zeta. rewrite E. reflexivity.
Qed.
