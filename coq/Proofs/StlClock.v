(* C19 for EBU STL: WriteToSTL has one hidden input, the clock (Now(), taken by the model as an argument).  The bytes
   depend on it only through the creation and revision date fields of the GSI block (offsets 224..235), and not at all
   when the metadata supplies both dates.  No map is ranged over: same arguments, same bytes. *)
From Coq Require Import List ZArith NArith Bool Lia.
From Astisub Require Import Kit.Base Kit.Str Model.Dur Model.Stl Gen.StlTables Proofs.StlBlocks.
Import ListNotations.

Definition with_dates (g : gsi) (cd rd : str) : gsi :=
  mkGsi (g_cct g) (g_cpn g) (g_co g) cd (g_dsn g) (g_dsc g) (g_ecd g) (g_en g) (g_fps g) (g_lc g) (g_mnc g) (g_mnr g)
        (g_oet g) (g_opt g) (g_pub g) rd (g_rn g) (g_slr g) (g_tcf g) (g_tcp g) (g_tcs g) (g_tnd g) (g_tng g) (g_tns g) (g_tnb g)
        (g_tet g) (g_tpt g) (g_tcd g) (g_tn g) (g_uda g).
Definition clock_cd (now : str) (md : option wmeta) : str :=
  match md with Some m => match wm_cd m with Some d => d | None => now end | None => now end.
Definition clock_rd (now : str) (md : option wmeta) : str :=
  match md with Some m => match wm_rd m with Some d => d | None => now end | None => now end.

(* the GSI block built by newGSIBlock: the clock enters through the two dates only *)
Lemma new_gsi_clock now now0 md items :
  new_gsi now md items = with_dates (new_gsi now0 md items) (clock_cd now md) (clock_rd now md).
Proof. unfold new_gsi, with_dates, clock_cd, clock_rd. destruct md as [m|]; reflexivity. Qed.

(* the bytes of a GSI block: everything before the dates, the two dates, everything after *)
Definition gsi_head (g : gsi) : str :=
  [(g_cpn g / 65536) mod 256; (g_cpn g / 256) mod 256; g_cpn g mod 256]%N
  ++ pad_right_cut stl_sp 8 (match zlookup (g_fps g) stl_framerate_inv with Some f => f | None => [] end)
  ++ pad_right_cut stl_sp 1 (g_dsc g)
  ++ [(g_cct g / 256) mod 256; g_cct g mod 256]%N
  ++ pad_right_cut stl_sp 2 (g_lc g)
  ++ pad_right_cut stl_sp 32 (g_opt g) ++ pad_right_cut stl_sp 32 (g_oet g)
  ++ pad_right_cut stl_sp 32 (g_tpt g) ++ pad_right_cut stl_sp 32 (g_tet g)
  ++ pad_right_cut stl_sp 32 (g_tn g) ++ pad_right_cut stl_sp 32 (g_tcd g)
  ++ pad_right_cut stl_sp 16 (g_slr g).
Definition gsi_tail (g : gsi) : str :=
  pad_left_cut 48 2 (itoa_z (g_rn g))
  ++ pad_left_cut 48 5 (itoa_z (g_tnb g)) ++ pad_left_cut 48 5 (itoa_z (g_tns g)) ++ pad_left_cut 48 3 (itoa_z (g_tng g))
  ++ pad_left_cut 48 2 (itoa_z (g_mnc g)) ++ pad_left_cut 48 2 (itoa_z (g_mnr g))
  ++ pad_right_cut stl_sp 1 (g_tcs g)
  ++ pad_right_cut stl_sp 8 (format_stl (g_tcp g) (g_fps g)) ++ pad_right_cut stl_sp 8 (format_stl (g_tcf g) (g_fps g))
  ++ pad_right_cut stl_sp 1 (itoa_z (g_tnd g)) ++ pad_right_cut stl_sp 1 (itoa_z (g_dsn g))
  ++ pad_right_cut stl_sp 3 (g_co g)
  ++ pad_right_cut stl_sp 32 (g_pub g) ++ pad_right_cut stl_sp 32 (g_en g) ++ pad_right_cut stl_sp 32 (g_ecd g)
  ++ repeat stl_sp 651.
Lemma gsi_bytes_dates g :
  gsi_bytes g = gsi_head g ++ pad_right_cut stl_sp 6 (g_cd g) ++ pad_right_cut stl_sp 6 (g_rd g) ++ gsi_tail g.
Proof. unfold gsi_bytes, gsi_head, gsi_tail. repeat rewrite <- app_assoc. reflexivity. Qed.
Lemma gsi_head_length g : length (gsi_head g) = 224%nat.
Proof. unfold gsi_head. repeat rewrite app_length. repeat rewrite pad_right_cut_length. reflexivity. Qed.

Definition date6 (d : str) : str := pad_right_cut stl_sp 6 d.
Definition rest_of (now0 : str) (md : option wmeta) (items : list witem) : str :=
  let g := new_gsi now0 md items in gsi_tail g ++ tti_blocks (g_fps g) (g_dsc g) (g_tcp g) items 1.

(* the file as a function of the clock: a clock-independent head of 224 bytes, the two six-byte dates, a
   clock-independent rest *)
Theorem written_clock now now0 md items :
  written now md items =
  gsi_head (new_gsi now0 md items) ++ date6 (clock_cd now md) ++ date6 (clock_rd now md) ++ rest_of now0 md items.
Proof.
  unfold written, rest_of. rewrite (new_gsi_clock now now0 md items). rewrite gsi_bytes_dates. cbv zeta.
  unfold with_dates at 1 2 3 4 5 6 7. cbn [g_cd g_rd g_fps g_dsc g_tcp].
  change (gsi_head (with_dates (new_gsi now0 md items) (clock_cd now md) (clock_rd now md))) with (gsi_head (new_gsi now0 md items)).
  change (gsi_tail (with_dates (new_gsi now0 md items) (clock_cd now md) (clock_rd now md))) with (gsi_tail (new_gsi now0 md items)).
  unfold date6. repeat rewrite <- app_assoc. reflexivity.
Qed.

Lemma write_ok_written now md items out : write_stl now md items = Ok out -> out = written now md items.
Proof.
  intros H. assert (Hne : items <> []) by (intros ->; discriminate H). rewrite (write_stl_eq now md items Hne) in H. congruence.
Qed.

(* two clock values: the files agree outside offsets 224..235 *)
Theorem clock_only_dates now now' md items out out' :
  write_stl now md items = Ok out -> write_stl now' md items = Ok out' ->
  firstn 224 out = firstn 224 out' /\ skipn 236 out = skipn 236 out'.
Proof.
  intros H H'. rewrite (write_ok_written _ _ _ _ H), (write_ok_written _ _ _ _ H').
  rewrite (written_clock now now md items), (written_clock now' now md items).
  set (A := gsi_head (new_gsi now md items)). assert (LA : length A = 224%nat) by apply gsi_head_length.
  split.
  - rewrite !firstn_app, LA, Nat.sub_diag. cbn [firstn]. rewrite !app_nil_r. reflexivity.
  - assert (S1 : forall d1 d2 R, skipn 236 (A ++ date6 d1 ++ date6 d2 ++ R) = R).
    { intros d1 d2 R. rewrite !app_assoc. rewrite skipn_app.
      assert (L : length ((A ++ date6 d1) ++ date6 d2) = 236%nat) by (rewrite !app_length, LA; unfold date6; rewrite !pad_right_cut_length; reflexivity).
      rewrite L, Nat.sub_diag. rewrite skipn_all2 by lia. reflexivity. }
    rewrite !S1. reflexivity.
Qed.

(* when the metadata supplies the creation and the revision date the clock is not an input at all *)
Theorem clock_unused_with_dates now now' m c r items :
  wm_cd m = Some c -> wm_rd m = Some r -> write_stl now (Some m) items = write_stl now' (Some m) items.
Proof.
  intros Hc Hr. unfold write_stl. destruct items as [|i l]; [reflexivity|]. cbv zeta.
  assert (E : new_gsi now (Some m) (i :: l) = new_gsi now' (Some m) (i :: l)) by (unfold new_gsi; rewrite Hc, Hr; reflexivity).
  rewrite E. reflexivity.
Qed.
(* and when it is an input, equal clocks give equal bytes: there is no other hidden input *)
Theorem write_stl_deterministic now now' md md' items items' :
  now = now' -> md = md' -> items = items' -> write_stl now md items = write_stl now' md' items'.
Proof. intros -> -> ->. reflexivity. Qed.
