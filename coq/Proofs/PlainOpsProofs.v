(* C07, operations in between, for every pair of plain-faithful codecs: the conversion with any sequence of the
   documented operations reads back as the operations applied to the source cues (truncated to the source's unit), then
   truncated to the destination's unit; and whatever the operations, every resulting cue's lines are the lines of a source
   cue (of the document or of a merged one), so representability of the text is never lost on the way. *)
From Coq Require Import List ZArith NArith Bool Lia.
From Astisub Require Import Kit.Base Kit.Str Model.Ops Model.Lin Model.Plain Model.PlainOps.
From Astisub Require Import Proofs.OrderProofs Proofs.ConvOpsProofs Proofs.PlainProofs.
Import ListNotations.

Theorem plain_ops_pair {SA SB : Type} uA okA (encA : plain -> res SA) decA uB okB (encB : plain -> res SB) decB :
  plain_faithful uA okA encA decA -> plain_faithful uB okB encB decB ->
  forall ops p, okA p -> okB (ops_plain ops (ptrunc uA p)) ->
  exists src dst, encA p = Ok src /\ convert_plain_ops decA encB ops src = Ok dst /\
                  decB dst = Ok (ptrunc uB (ops_plain ops (ptrunc uA p))).
Proof.
  intros HA HB ops p Hp Hq. destruct (HA p Hp) as (src & Hw & Hr). destruct (HB _ Hq) as (dst & Hw' & Hr').
  exists src, dst. split; [exact Hw|]. split; [|exact Hr']. unfold convert_plain_ops. rewrite Hr. exact Hw'.
Qed.

(* content: the lines of a cue *)
Lemma pcue_item_lines c : map line_text (i_lines (item_of_pcue c)) = snd c.
Proof.
  destruct c as [[s e] ls]. cbn [item_of_pcue i_lines snd]. rewrite map_map. rewrite <- (map_id ls) at 2.
  apply map_ext. intros t. unfold line_text. cbn [l_runs map r_text concat]. apply app_nil_r.
Qed.

Definition pop_ok (Q : list str -> Prop) (o : pop) : Prop :=
  match o with PMerge other => Forall (fun c : pcue => Q (snd c)) other | _ => True end.

Lemma apply_pop_lines (Q : list str -> Prop) o xs :
  Forall (fun x => Q (map line_text (i_lines x))) xs -> pop_ok Q o ->
  Forall (fun x => Q (map line_text (i_lines x))) (apply_pop o xs).
Proof.
  intros Hx Ho.
  assert (Hfrom : forall l l', from l l' -> Forall (fun x => Q (map line_text (i_lines x))) l ->
                               Forall (fun x => Q (map line_text (i_lines x))) l').
  { intros l l' Hf Hl. apply Forall_forall. intros y Hy. destruct (Hf y Hy) as (x & Hin & E).
    rewrite Forall_forall in Hl. specialize (Hl x Hin). unfold content in E. inversion E as [[E1 E2 E3 E4]]. rewrite E1. exact Hl. }
  destruct o as [d|f| | | |a1 d1 a2 d2|other]; cbn [apply_pop].
  - apply (Hfrom xs); [apply add_from | exact Hx].
  - apply (Hfrom xs); [apply fragment_from | exact Hx].
  - apply (Hfrom xs); [apply unfragment_from | exact Hx].
  - apply (Hfrom xs); [apply order_from | exact Hx].
  - rewrite optimize_items. exact Hx.
  - apply (Hfrom xs); [apply lin_from | exact Hx].
  - rewrite merge_items. cbn [items]. apply (Hfrom (xs ++ items_of_plain other)); [apply order_from|].
    apply Forall_app. split; [exact Hx|]. cbn [pop_ok] in Ho. unfold items_of_plain. apply Forall_forall. intros x Hin.
    apply in_map_iff in Hin. destruct Hin as (c & E & Hc). subst x. rewrite pcue_item_lines.
    rewrite Forall_forall in Ho. apply Ho. exact Hc.
Qed.

Theorem ops_plain_keep_lines (Q : list str -> Prop) ops p :
  Forall (fun c : pcue => Q (snd c)) p -> Forall (pop_ok Q) ops ->
  Forall (fun c : pcue => Q (snd c)) (ops_plain ops p).
Proof.
  intros Hp Ho. unfold ops_plain, plain_of_items.
  assert (H0 : Forall (fun x => Q (map line_text (i_lines x))) (items_of_plain p)).
  { unfold items_of_plain. apply Forall_forall. intros x Hin. apply in_map_iff in Hin. destruct Hin as (c & E & Hc). subst x.
    rewrite pcue_item_lines. rewrite Forall_forall in Hp. apply Hp. exact Hc. }
  revert H0. generalize (items_of_plain p). induction ops as [|o ops IH]; intros xs Hxs; cbn [fold_left].
  - apply Forall_forall. intros c Hin. apply in_map_iff in Hin. destruct Hin as (x & E & Hx). subst c.
    cbn [pcue_of_item snd]. rewrite Forall_forall in Hxs. apply Hxs. exact Hx.
  - inversion Ho as [|? ? Ho1 Ho2]; subst. apply (IH Ho2). apply apply_pop_lines; assumption.
Qed.

(* no operations: the plain pair theorem *)
Lemma ops_plain_nil p : ops_plain [] p = p.
Proof.
  unfold ops_plain, plain_of_items, items_of_plain. cbn [fold_left]. rewrite map_map. rewrite <- (map_id p) at 2.
  apply map_ext. intros [[s e] ls]. unfold pcue_of_item. cbn [item_of_pcue st en]. f_equal.
  apply (pcue_item_lines (s, e, ls)).
Qed.

(* non-vacuity: fragment, sync, merge, order, unfragment on a two-cue list *)
Definition ex_pops : list pop :=
  [PFragment 2000000000; PAdd 500000000; PMerge [(0, 400000000, [[65]%N])]%Z; POrder; PUnfragment].
Definition ex_pplain : plain := [(1000000000%Z, 5000000000%Z, [[72; 105]%N]); (6000000000%Z, 7000000000%Z, [[89; 111]%N])].
Example ex_pops_result :
  ops_plain ex_pops ex_pplain =
  [(0%Z, 400000000%Z, [[65]%N]); (1500000000%Z, 5500000000%Z, [[72; 105]%N]); (6500000000%Z, 7500000000%Z, [[89; 111]%N])].
Proof. vm_compute. reflexivity. Qed.

(* the command-line tool: whatever the sub-command and its (valid) flags, the output file reads back as the sub-command's
   operation applied to the source cues *)
From Astisub Require Import Model.Cli.
Theorem cli_pair {SA SB : Type} uA okA (encA : plain -> res SA) decA uB okB (encB : plain -> res SB) decB :
  plain_faithful uA okA encA decA -> plain_faithful uB okB encB decB ->
  forall a ops p, cli_ops a = Ok ops -> okA p -> okB (ops_plain ops (ptrunc uA p)) ->
  exists src dst, encA p = Ok src /\ cli_run decA encB a src = Ok dst /\
                  decB dst = Ok (ptrunc uB (ops_plain ops (ptrunc uA p))).
Proof.
  intros HA HB a ops p Ha Hp Hq. destruct (plain_ops_pair _ _ _ _ _ _ _ _ HA HB ops p Hp Hq) as (src & dst & H1 & H2 & H3).
  exists src, dst. split; [exact H1|]. split; [|exact H3]. unfold cli_run. rewrite Ha. exact H2.
Qed.
(* a sub-command applies at most one operation; invalid flags are refused before anything is written *)
Lemma cli_ops_at_most_one a ops : cli_ops a = Ok ops -> (length ops <= 1)%nat.
Proof.
  unfold cli_ops. destruct (c_cmd a); try (intros H; inversion H; cbn; auto; fail).
  - destruct ((c_a1 a <=? 0)%Z || (c_d1 a <=? 0)%Z || (c_a2 a <=? 0)%Z || (c_d2 a <=? 0)%Z); intros H; inversion H; cbn; auto.
  - destruct (c_f a <=? 0)%Z; intros H; inversion H; cbn; auto.
  - destruct (c_second a); intros H; inversion H; cbn; auto.
  - destruct (c_s a =? 0)%Z; intros H; inversion H; cbn; auto.
Qed.

Theorem plain_ops_sink {SA SB : Type} (decA : SA -> res plain) uB okB (encB : plain -> res SB) decB :
  plain_faithful uB okB encB decB ->
  forall ops src p, decA src = Ok p -> okB (ops_plain ops p) ->
  exists dst, convert_plain_ops decA encB ops src = Ok dst /\ decB dst = Ok (ptrunc uB (ops_plain ops p)).
Proof.
  intros HB ops src p Hd Hp. destruct (HB _ Hp) as (dst & Hw & Hr). exists dst. split; [|exact Hr].
  unfold convert_plain_ops. rewrite Hd. exact Hw.
Qed.
