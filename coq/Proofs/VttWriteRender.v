(* WebVTT, the writing half stated without the reader: what WriteToWebVTT produces IS one particular rendering, in the
   sense of the reading half (render_vtt, Proofs/VttReadDoc.v), of a document whose denotation (denote_vtt) is the
   normalised document ndoc.  The canonical rendering: no byte-order mark, nothing after WEBVTT, one empty line after
   the header, after the STYLE block, after the region definitions (when the document has regions) and between cues;
   every cue carries its number as identifier; timestamps with a two-digit (or wider) hour field, one space on either
   side of the arrow, the settings in the writer's order after one space each; a NOTE block is ended by one empty line.
   The empty line the writer puts after the last cue is cut off again by the writer (it drops the last byte), which is
   why the rendering has no lines after the last cue. *)
From Coq Require Import List ZArith NArith Lia Bool Arith.
From Astisub Require Import Kit.Base Kit.Str Kit.Scan Kit.Html Model.Dur Model.Srt Model.Vtt.
From Astisub Require Import Proofs.DurProofs Proofs.SrtProofs Proofs.SrtReadProofs Proofs.EolProofs Proofs.VttBase Proofs.VttLine Proofs.VttDoc
  Proofs.VttReadTime Proofs.VttReadLine Proofs.VttReadDoc Proofs.VttReadDec.
Import ListNotations.
Open Scope N_scope.

(* ================= the canonical rendering ================= *)
(* the hour field: the decimal hours, with one zero in front when they are below ten *)
Definition w_hform (t : Z) : hform := HPad (if (f_h t <? 10)%Z then 1 else 0).
Definition w_opt (k : skey) (e : str) : list (skey * str) := match e with [] => [] | _ => [(k, e)] end.
(* the settings the writer emits for a cue, in its order: the effective settings (own, else fall-back) that are not
   empty, the region reference after position *)
Definition w_sets (it : vitem) : list (skey * str) :=
  w_opt KAlign (vs_align (eff_set it)) ++ w_opt KLine (vs_line (eff_set it)) ++ w_opt KPosition (vs_position (eff_set it)) ++
  (match eff_region it with Some id => [(KRegion, id)] | None => [] end) ++
  w_opt KSize (vs_size (eff_set it)) ++ w_opt KVertical (vs_vertical (eff_set it)).
Definition w_trend (it : vitem) : trend :=
  mkTrend (w_hform (vi_st it)) (w_hform (vi_en it)) [32] [32] (map (fun _ => [32]) (w_sets it)).
(* cue number k, counted from 0 *)
Definition w_gcue (k : nat) (it : vitem) : gcue :=
  mkGcue (vi_comments it) (Some (itoa (N.of_nat (S k)))) (vi_st it) (vi_en it) (w_sets it) (vi_lines it).
Definition w_crend (k : nat) (it : vitem) : crend :=
  mkCrend (match k with O => [] | S _ => [[]] end) [[]] (w_trend it).
Fixpoint w_cues_from (k : nat) (l : list vitem) : list (crend * gcue) :=
  match l with [] => [] | it :: r => (w_crend k it, w_gcue k it) :: w_cues_from (S k) r end.
Definition w_cues (d : vdoc) : list (crend * gcue) := w_cues_from 0 (vd_items d).
Definition w_hrend (d : vdoc) (so ro : list str) : hrend :=
  mkHrend false [] [[]] [[]] (match ro with [] => [] | _ => [[]] end).
Definition w_gdoc (d : vdoc) (so ro : list str) : gdoc :=
  mkGdoc (vd_tsmap d) (match style_list d so with [] => None | ss => Some ss end) (region_list d ro).

(* the side condition of the structural theorem: no negative time (a negative duration is formatted by the writer
   with truncated quotients, field by field, which is not a timestamp of any spelling; see the example at the end) *)
Definition times_nonneg (d : vdoc) : Prop := Forall (fun it => (0 <= vi_st it)%Z /\ (0 <= vi_en it)%Z) (vd_items d).

Lemma w_cues_length d : length (w_cues d) = length (vd_items d).
Proof. unfold w_cues. generalize 0%nat. induction (vd_items d) as [|it r IH]; intros k; [reflexivity|]. cbn [w_cues_from length]. rewrite IH. reflexivity. Qed.

(* ================= lines and bytes ================= *)
Lemma unlines_render_eol ls : unlines ls = render_eol [10] ls.
Proof. reflexivity. Qed.

(* ================= the timing line ================= *)
Lemma format_vtt_ts_render t : (0 <= t)%Z -> format_vtt t = ts_render (w_hform t) t.
Proof.
  intros Ht. unfold format_vtt. rewrite (format_duration_fields t [dot] 3 Ht).
  unfold ts_render, hms_render, w_hform, hdigits, ms_field, two.
  destruct (f_h t <? 10)%Z; cbn [repeat]; rewrite <- !app_assoc; reflexivity.
Qed.

Lemma w_opt_sword k e : map sword (w_opt k e) = optw 58 (skey_name k) e.
Proof. destruct e; reflexivity. Qed.
Lemma w_sets_words it : map sword (w_sets it) = set_words (eff_set it) (eff_region it).
Proof.
  unfold w_sets, set_words. rewrite !map_app, !w_opt_sword. cbn [skey_name].
  f_equal. f_equal. f_equal. f_equal. destruct (eff_region it); reflexivity.
Qed.
Lemma ws_words_single_space {A} (f : A -> str) (l : list A) :
  ws_words (combine (map (fun _ => [32]) l) (map f l)) = sp_words (map f l).
Proof.
  induction l as [|a l IH]; [reflexivity|]. cbn [map combine]. rewrite ws_words_cons, sp_words_cons. cbn [fst snd].
  rewrite IH. reflexivity.
Qed.

(* the writer's timing line is the rendering of the cue's times and settings in the canonical spelling *)
Lemma timing_line_render it : (0 <= vi_st it)%Z -> (0 <= vi_en it)%Z ->
  timing_line it = timing_render (w_trend it) (vi_st it) (vi_en it) (w_sets it).
Proof.
  intros Hst Hen. unfold timing_line, timing_render, set_words_any, w_trend. cbn [tr_h1 tr_h2 tr_sp1 tr_sp2 tr_seps].
  rewrite ws_words_single_space, w_sets_words, <- (format_vtt_ts_render _ Hst), <- (format_vtt_ts_render _ Hen).
  unfold arrow_sp, arrow. rewrite <- ?app_assoc. cbn [app]. reflexivity.
Qed.

(* ================= the cue lines ================= *)
Lemma note_lines_part cs : note_lines cs = note_part cs [[]].
Proof. destruct cs; reflexivity. Qed.

Lemma item_main_cue k it : (0 <= vi_st it)%Z -> (0 <= vi_en it)%Z ->
  cr_before (w_crend k it) ++ item_main_lines k it = cue_lines (w_crend k it) (w_gcue k it).
Proof.
  intros Hst Hen. unfold cue_lines, item_main_lines, w_gcue, w_crend.
  cbn [cr_before cr_note_blanks cr_time gc_comments gc_id gc_st gc_en gc_sets gc_lines id_part].
  rewrite note_lines_part, (timing_line_render it Hst Hen). reflexivity.
Qed.

(* the writer's cue lines (each cue followed by an empty line) are the cue lines of the canonical rendering (each cue
   but the first preceded by an empty line) followed by one empty line *)
Lemma items_lines_cues l : forall k, l <> [] -> Forall (fun it => (0 <= vi_st it)%Z /\ (0 <= vi_en it)%Z) l ->
  (match k with O => [] | S _ => [[]] end) ++ items_lines k l = all_cue_lines (w_cues_from k l) ++ [[]].
Proof.
  induction l as [|it r IH]; intros k Hne HF; [contradiction|]. inversion HF as [|? ? [Hst Hen] HF']; subst.
  cbn [items_lines w_cues_from]. unfold all_cue_lines. cbn [map concat fst snd]. fold (all_cue_lines (w_cues_from (S k) r)).
  rewrite <- (item_main_cue k it Hst Hen). cbn [w_crend cr_before]. rewrite <- !app_assoc. f_equal. f_equal.
  destruct r as [|it2 r2]; [reflexivity|]. exact (IH (S k) ltac:(discriminate) HF').
Qed.

Lemma hdr_cues_render d so ro :
  hdr_lines d so ro ++ all_cue_lines (w_cues d) = render_vtt (w_hrend d so ro) (w_gdoc d so ro) (w_cues d) [].
Proof.
  unfold render_vtt, hdr_lines, header_line, tsmap_part, style_part, w_hrend, w_gdoc, with_bom.
  cbn [hr_bom hr_trailing hr_blanks0 hr_style_blanks hr_region_blanks gd_tsmap gd_style gd_regions].
  rewrite !app_nil_r, <- !app_assoc. destruct (style_list d so); reflexivity.
Qed.

(* THE WRITER'S OUTPUT IS THE CANONICAL RENDERING, every line ended by LF *)
Theorem write_is_rendering d so ro : vd_items d <> [] -> regions_keyed d ro -> times_nonneg d ->
  write_vtt d so ro = Ok (render_eol [10] (render_vtt (w_hrend d so ro) (w_gdoc d so ro) (w_cues d) [])).
Proof.
  intros Hne Hk Ht. rewrite (write_vtt_lines d so ro Hne Hk). f_equal.
  pose proof (items_lines_cues (vd_items d) 0 Hne Ht) as E. cbn [app] in E. fold (w_cues d) in E.
  unfold doc_lines. rewrite E, app_assoc, hdr_cues_render, unlines_app.
  unfold unlines at 2. cbn [map concat app]. rewrite removelast_last. reflexivity.
Qed.

(* ================= what the canonical rendering denotes ================= *)
Lemma w_sets_fold it : fold_left apply_setting (w_sets it) (vset0, None) = (eff_set it, eff_region it).
Proof.
  unfold w_sets. generalize (eff_set it) (eff_region it). intros [a l p s v] ro. cbn [vs_align vs_line vs_position vs_size vs_vertical].
  destruct a, l, p, s, v, ro; reflexivity.
Qed.

Lemma denote_w_gcue k it : (Z.of_nat (S k) <= max_int64)%Z -> denote_cue (w_gcue k it) = nitem k it.
Proof.
  intros Hk. unfold denote_cue, nitem, settings_of, w_gcue. cbn [gc_comments gc_id gc_st gc_en gc_sets gc_lines id_value].
  rewrite w_sets_fold. cbn [fst snd]. rewrite atoi_val_itoa by (rewrite nat_N_Z; exact Hk). rewrite nat_N_Z. reflexivity.
Qed.

Lemma denote_w_cues l : forall k, (Z.of_nat (k + length l) <= max_int64)%Z ->
  map (fun p => denote_cue (snd p)) (w_cues_from k l) = nitems k l.
Proof.
  induction l as [|it r IH]; intros k Hk; [reflexivity|]. cbn [length] in Hk. cbn [w_cues_from map snd nitems].
  rewrite (denote_w_gcue k it) by lia. f_equal. apply IH. cbn [plus]. lia.
Qed.

(* the canonical rendering denotes the normalised document; the only condition is that the cue numbers fit an int *)
Theorem write_denotes_count d so ro : (Z.of_nat (length (vd_items d)) <= max_int64)%Z ->
  denote_vtt (w_gdoc d so ro) (w_cues d) = ndoc d so ro.
Proof.
  intros Hc. unfold denote_vtt, ndoc, w_cues, w_gdoc. cbn [gd_tsmap gd_style gd_regions].
  rewrite (denote_w_cues (vd_items d) 0) by (cbn [plus]; exact Hc). f_equal. destruct (style_list d so); reflexivity.
Qed.
Theorem write_denotes d so ro : repr_vdoc d so ro -> denote_vtt (w_gdoc d so ro) (w_cues d) = ndoc d so ro.
Proof. intros H. apply write_denotes_count. exact (rd_count _ _ _ H). Qed.

(* ================= the canonical rendering satisfies the side conditions of the reading half ================= *)
Lemma blank_nil : blank [].
Proof. split; [constructor | reflexivity]. Qed.
Lemma blank_space : blank [32].
Proof. split; [repeat constructor | reflexivity]. Qed.

Lemma w_trend_ok it : trend_ok (w_trend it) (vi_st it) (vi_en it) (w_sets it).
Proof.
  unfold trend_ok, w_trend, w_hform. cbn [tr_h1 tr_h2 tr_sp1 tr_sp2 tr_seps hform_ok].
  split; [exact I|]. split; [exact I|]. split; [exact blank_space|]. split; [exact blank_space|]. split; [apply map_length|].
  apply Forall_forall. intros x Hx. apply in_map_iff in Hx. destruct Hx as (p & <- & _).
  split; [repeat constructor | split; [discriminate | reflexivity]].
Qed.
Lemma w_crend_ok k it : crend_ok (w_crend k it) (w_gcue k it).
Proof.
  unfold crend_ok, w_crend, w_gcue. cbn [cr_before cr_note_blanks cr_time gc_comments gc_st gc_en gc_sets].
  split; [destruct k; repeat constructor; exact blank_nil|]. split; [repeat constructor; exact blank_nil|].
  split; [intros _; discriminate | apply w_trend_ok].
Qed.

Lemma w_opt_ok regs k e : k <> KRegion -> sval_ok e = true -> Forall (setting_ok regs) (w_opt k e).
Proof.
  intros Hk He. destruct e as [|c e']; [constructor|]. constructor; [|constructor]. unfold setting_ok. cbn [fst snd].
  split; [exact He|]. destruct k; try exact I. contradiction.
Qed.
Lemma w_sets_ok regs it : set_ok (eff_set it) = true ->
  match eff_region it with
  | Some id => sval_ok id = true /\ exists rg, aget id regs = Some rg /\ rg_id rg = id
  | None => True
  end -> Forall (setting_ok regs) (w_sets it).
Proof.
  intros H Hr. unfold set_ok in H. rewrite !andb_true_iff in H. destruct H as ((((H1 & H2) & H3) & H4) & H5).
  unfold w_sets. repeat (apply Forall_app; split); try (apply w_opt_ok; [discriminate | assumption]).
  destruct (eff_region it) as [id|]; [|constructor]. destruct Hr as (A & C). constructor; [|constructor].
  unfold setting_ok. cbn [fst snd]. split; [exact A | exact C].
Qed.

Lemma itoa_lineok n : lineok (itoa n) = true.
Proof.
  pose proof (itoa_digits n) as Hd. pose proof (itoa_nonnil n) as Hne. unfold lineok.
  rewrite (digits_clean _ Hd Hne). destruct (itoa n) as [|c L] eqn:E; [contradiction|].
  rewrite digit_first_other; [reflexivity | apply (digits_in _ c Hd); left; reflexivity | apply digits_not_in; [exact Hd | reflexivity]].
Qed.

Lemma w_cues_gap l : forall k, Forall (fun p => cr_before (fst p) <> []) (w_cues_from (S k) l).
Proof. induction l as [|it r IH]; intros k; [constructor|]. cbn [w_cues_from]. constructor; [cbn [fst w_crend cr_before]; discriminate | apply IH]. Qed.

Lemma w_cues_ok d ro : regions_keyed d ro -> forall l, Forall (item_okd ro) l ->
  forall k, Forall (fun p => gcue_ok (read_regions d ro) (snd p) /\ crend_ok (fst p) (snd p)) (w_cues_from k l).
Proof.
  intros Hkeyed. induction l as [|it r IH]; intros Hitems k; [constructor|].
  inversion Hitems as [|? ? (A1 & A2 & A3 & A4 & A5 & A6) Hitems']; subst.
  cbn [w_cues_from]. constructor; [|apply IH; assumption].
  cbn [fst snd]. split; [|apply w_crend_ok].
  unfold gcue_ok, w_gcue. cbn [gc_comments gc_id gc_st gc_en gc_sets gc_lines].
  split; [exact A1|]. split; [exact A2|]. split; [|split; [exact A5 | split; [apply itoa_lineok | exact A6]]].
  apply w_sets_ok; [exact A3|]. destruct (eff_region it) as [id|]; [|exact I]. destruct A4 as [A4 A4'].
  split; [exact A4|].
  destruct (aget_regs (region_list d ro) id) as (rg & E1 & E2).
  - rewrite (region_ids d ro Hkeyed). apply ssort_in. exact A4'.
  - exists (nregion rg). split; [exact E1 | exact E2].
Qed.

Theorem write_rendering_ok d so ro : repr_vdoc d so ro ->
  hrend_ok (w_hrend d so ro) (w_gdoc d so ro) /\ gdoc_ok (w_gdoc d so ro) /\
  Forall (fun p => gcue_ok (denote_regions (w_gdoc d so ro)) (snd p) /\ crend_ok (fst p) (snd p)) (w_cues d) /\
  Forall (fun p => cr_before (fst p) <> []) (tl (w_cues d)) /\ Forall blank (@nil str).
Proof.
  intros [Hne Hcount Hnd Hregs Hitems [Hsty1 Hsty2] Hts].
  assert (Hkeyed : regions_keyed d ro) by (intros k Hk; destruct (Hregs k Hk) as (rg & A & B & _); exists rg; auto).
  split; [|split; [|split; [|split; [|constructor]]]].
  - unfold hrend_ok, w_hrend, w_gdoc. cbn [hr_trailing hr_blanks0 hr_style_blanks hr_region_blanks gd_style].
    split; [split; [left; reflexivity | split; reflexivity]|]. split; [repeat constructor; exact blank_nil|].
    split; [repeat constructor; exact blank_nil|]. split; [intros _; discriminate|].
    destruct ro; repeat constructor; exact blank_nil.
  - unfold gdoc_ok, w_gdoc. cbn [gd_tsmap gd_style gd_regions]. split; [exact Hts|]. split; [|split].
    + destruct (style_list d so) as [|s0 ss0]; [exact I | split; assumption].
    + unfold region_list. apply Forall_forall. intros rg Hin. apply in_map_iff in Hin. destruct Hin as (k & <- & Hk).
      apply (proj1 (ssort_in _ _)) in Hk. destruct (Hregs k Hk) as (rg & A & _ & B). unfold rget. rewrite A. exact B.
    + rewrite (region_ids d ro Hkeyed). apply ssort_nodup. exact Hnd.
  - change (denote_regions (w_gdoc d so ro)) with (read_regions d ro). apply (w_cues_ok d ro Hkeyed); assumption.
  - unfold w_cues. destruct (vd_items d) as [|it r]; [constructor|]. cbn [w_cues_from tl]. apply w_cues_gap.
Qed.

Lemma repr_times_nonneg d so ro : repr_vdoc d so ro -> times_nonneg d.
Proof.
  intros H. pose proof (rd_item _ _ _ H) as HF. unfold times_nonneg. revert HF. apply Forall_impl.
  intros it (A1 & A2 & _). lia.
Qed.
Lemma repr_regions_keyed d so ro : repr_vdoc d so ro -> regions_keyed d ro.
Proof. intros H k Hk. destruct (rd_regions _ _ _ H k Hk) as (rg & A & B & _). exists rg. auto. Qed.

(* the writer's output for a representable document, at full strength (no condition on region identifiers) *)
Theorem write_is_rendering_repr d so ro : repr_vdoc d so ro ->
  write_vtt d so ro = Ok (render_eol [10] (render_vtt (w_hrend d so ro) (w_gdoc d so ro) (w_cues d) [])).
Proof.
  intros H. apply write_is_rendering; [exact (rd_items _ _ _ H) | exact (repr_regions_keyed _ _ _ H) | exact (repr_times_nonneg _ _ _ H)].
Qed.

(* ================= reading a rendering given as bytes, side conditions as propositions ================= *)
Theorem read_rendered_vtt_bytes_gen e h g cues eof : eol_ok e ->
  hrend_ok h g -> gdoc_ok g ->
  Forall (fun p => gcue_ok (denote_regions g) (snd p) /\ crend_ok (fst p) (snd p)) cues ->
  Forall (fun p => cr_before (fst p) <> []) (tl cues) -> Forall blank eof ->
  read_vtt (render_eol e (render_vtt h g cues eof)) = Ok (denote_vtt g cues).
Proof.
  intros He H1 H2 H3 H4 H5. destruct (read_rendered_vtt h g cues eof H1 H2 H3 H4 H5) as [Hr Hn].
  unfold read_vtt. rewrite lines_render; [exact Hr | exact He|].
  apply Forall_forall. intros l Hl. rewrite forallb_forall in Hn. exact (Hn l Hl).
Qed.

(* THE ROUND TRIP RE-DERIVED THROUGH THE RENDERING: the writer's bytes are the canonical rendering, the reader returns
   what that rendering denotes (by the reading half's theorem for all renderings), and that is the normalised document *)
Theorem write_read_via_rendering d so ro : repr_vdoc d so ro ->
  exists data, write_vtt d so ro = Ok data /\
    data = render_eol [10] (render_vtt (w_hrend d so ro) (w_gdoc d so ro) (w_cues d) []) /\
    read_vtt data = Ok (denote_vtt (w_gdoc d so ro) (w_cues d)) /\
    denote_vtt (w_gdoc d so ro) (w_cues d) = ndoc d so ro.
Proof.
  intros H. eexists. split; [apply write_is_rendering_repr; exact H|]. split; [reflexivity|].
  split; [|apply write_denotes; exact H].
  destruct (write_rendering_ok d so ro H) as (H1 & H2 & H3 & H4 & H5).
  apply read_rendered_vtt_bytes_gen; [left; reflexivity | assumption ..].
Qed.

(* ================= a worked instance ================= *)
From Coq Require Strings.String.
Import Strings.String.StringSyntax.
Delimit Scope string_scope with string.
Arguments b s%string.

(* the document of Proofs/VttDoc.v: two regions, a STYLE block, a timestamp map, two cues, the first with a NOTE block
   of two lines, three own or inherited settings and a region reference *)
Example ex_write_lines :
  render_vtt (w_hrend ex_doc ex_so ex_ro) (w_gdoc ex_doc ex_so ex_ro) (w_cues ex_doc) [] =
  [b "WEBVTT"; b "X-TIMESTAMP-MAP=LOCAL:00:00:05.000,MPEGTS:900000"; [];
   b "STYLE"; b "::cue {"; b "color: red }"; [];
   b "Region: id=bill";
   b "Region: id=fred lines=3 regionanchor=0%,100% scroll=up viewportanchor=10%,90% width=40%"; [];
   b "NOTE a comment"; b "more"; [];
   b "1"; b "00:00:01.000 --> 00:00:02.500 align:start line:-1 position:10% region:fred vertical:rl";
   b "<v Bob><c.red.big>Hello </c><00:00:01.500>world"; b "second"; [];
   b "2"; b "00:00:03.000 --> 00:00:04.000"; b "second"].
Proof. vm_compute. reflexivity. Qed.
Example ex_write_is_rendering :
  write_vtt ex_doc ex_so ex_ro =
  Ok (render_eol [10] (render_vtt (w_hrend ex_doc ex_so ex_ro) (w_gdoc ex_doc ex_so ex_ro) (w_cues ex_doc) [])).
Proof. vm_compute. reflexivity. Qed.
Example ex_write_rendering_okb :
  rendering_okb (w_hrend ex_doc ex_so ex_ro) (w_gdoc ex_doc ex_so ex_ro) (w_cues ex_doc) [] = true.
Proof. vm_compute. reflexivity. Qed.
Example ex_write_denotes : denote_vtt (w_gdoc ex_doc ex_so ex_ro) (w_cues ex_doc) = ndoc ex_doc ex_so ex_ro.
Proof. vm_compute. reflexivity. Qed.

(* the condition on the times is needed: a cue that starts one nanosecond before zero is written with the fraction
   field 0-1, the canonical rendering would spell its start 0-1:59:59.999 (floored quotients) *)
Definition neg_doc : vdoc := mkVdoc [mkVitem 0 (-1)%Z 1000000000%Z [] None None None [ex_ln2]] [] [] None.
Example write_is_rendering_needs_nonneg :
  write_vtt neg_doc [] [] = Ok (b "WEBVTT" ++ [10; 10] ++ b "1" ++ [10] ++ b "00:00:00.0-1 --> 00:00:01.000" ++ [10] ++ b "second" ++ [10]) /\
  render_vtt (w_hrend neg_doc [] []) (w_gdoc neg_doc [] []) (w_cues neg_doc) [] =
  [b "WEBVTT"; []; b "1"; b "0-1:59:59.999 --> 00:00:01.000"; b "second"].
Proof. split; vm_compute; reflexivity. Qed.

(* a boundary case: a cue that refers to the region with the EMPTY identifier is representable; it is written with the
   setting word region: (nothing after the colon) and its canonical rendering passes the check of the reading half *)
Definition noid_doc : vdoc :=
  mkVdoc [mkVitem 0 0%Z 1000000000%Z [] (Some []) (Some vset0) None [ex_ln2]] [([], mkVregion [] None None)] [] None.
Example noid_doc_repr : repr_vdoc noid_doc [] [[]].
Proof.
  constructor.
  - discriminate.
  - vm_compute. discriminate.
  - repeat constructor. intros [].
  - intros k [<-|[]]. eexists. split; [reflexivity | split; [reflexivity | vm_compute; reflexivity]].
  - repeat constructor; try (vm_compute; reflexivity); try (vm_compute; discriminate).
  - split; vm_compute; reflexivity.
  - exact I.
Qed.
Example write_rendering_empty_region_id :
  render_vtt (w_hrend noid_doc [] [[]]) (w_gdoc noid_doc [] [[]]) (w_cues noid_doc) [] =
  [b "WEBVTT"; []; b "Region: id="; []; b "1"; b "00:00:00.000 --> 00:00:01.000 region:"; b "second"] /\
  rendering_okb (w_hrend noid_doc [] [[]]) (w_gdoc noid_doc [] [[]]) (w_cues noid_doc) [] = true.
Proof. split; vm_compute; reflexivity. Qed.
