(* C03: a rendered paragraph is read as the cue it denotes: any time-expression syntax for begin/end (through
   their parsed values), any rendering of the lines (Proofs/TtmlSpec.v), references resolved. *)
From Coq Require Import List ZArith NArith Bool Lia.
From Astisub Require Import Kit.Base Kit.Str Kit.Xml Model.Dur Model.Ttml Proofs.TtmlSpec Proofs.TtmlLines.
Import ListNotations.
Open Scope N_scope.

Definition ref_known {V} (m : list (str * V)) (r : str) : bool := null r || map_mem r m.
Definition group_style_ok {V} (styles : list (str * V)) (g : group) : bool :=
  match g with GSpan _ _ al _ _ => ref_known styles (attr_str s_style al) | _ => true end.

Lemma group_items_style_ok {V} (styles : list (str * V)) g : group_style_ok styles g = true ->
  forallb (item_style_ok styles) (group_items g) = true.
Proof.
  intros H. destruct g as [w sp|p|w nm al p0 ps]; cbn [group_items forallb]; unfold item_style_ok; cbn [in_local in_style].
  - reflexivity.
  - rewrite orb_true_r. reflexivity.
  - cbn [group_style_ok] in H. unfold ref_known in H. rewrite <- orb_assoc, H, orb_true_r. reflexivity.
Qed.

Theorem read_p_rendered : forall (styles regions : list (str * tstyle)) fr tr nm al gs wl b e ta,
  content_ok gs wl = true ->
  dur_attr s_begin al = Some (Some b) -> dur_attr s_end al = Some (Some e) -> tt_read_attrs al = Some ta ->
  ref_known regions (attr_str s_region al) = true -> ref_known styles (attr_str s_style al) = true ->
  forallb (group_style_ok styles) gs = true ->
  read_p styles regions fr tr (XElem nm al (render_content gs wl)) =
  Ok (mkItem (ttml_duration b fr tr) (ttml_duration e fr tr) (opt_ref (attr_str s_region al)) (opt_ref (attr_str s_style al)) ta
             (lines_of (flat_map group_toks gs))).
Proof.
  intros styles regions fr tr nm al gs wl b e ta Hc Hb He Ha Hrg Hsy Hgs.
  unfold read_p. cbn [elem_attrs elem_kids]. rewrite Hb, He, Ha.
  unfold ref_known in Hrg, Hsy. rewrite Hrg, Hsy. cbn [negb].
  unfold content_ok in Hc. apply andb_true_iff in Hc. destruct Hc as [Hc Hw]. apply andb_true_iff in Hc. destruct Hc as [Hg _].
  rewrite (strip_content_map _ (render_first gs wl Hg Hw)), (items_render gs wl Hg Hw).
  assert (Hok : forallb (item_style_ok styles) (flat_map group_items gs) = true).
  { clear -Hgs. induction gs as [|g r IH]; [reflexivity|]. cbn [forallb flat_map] in *.
    apply andb_true_iff in Hgs. destruct Hgs as [H1 H2]. rewrite forallb_app, (group_items_style_ok styles g H1), (IH H2). reflexivity. }
  rewrite Hok, (flat_items_toks gs Hg). reflexivity.
Qed.

(* a non-trivial content satisfying [content_ok]: bare text with indentation on both sides, a span whose
   content is three pieces separated by <br/> (indentation before a break and after one), a <br/> between
   elements, an empty span, indentation before the end tag *)
Definition ex_groups : list group :=
  [GText (mkPiece [10;32;32] [72;105] [10;32]);
   GSpan [] (mkName [] s_span) [(mkName [] s_style, [65]); (mkName ns_tts [99;111;108;111;114], [114;101;100])]
         (mkPiece [] [32;97] [10;32;32]) [([], mkPiece [10;9] [98] []); ([], mkPiece [] [] [])];
   GBr [10;32] [];
   GSpan [10] (mkName [] s_span) [] (mkPiece [] [] []) []].
Example ex_content_ok : content_ok ex_groups [10] = true. Proof. vm_compute. reflexivity. Qed.
