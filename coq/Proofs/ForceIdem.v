(* ForceDuration (C14): once a list lasts exactly d, forcing d again - with or without the filler, whatever the identity
   of the would-be filler - returns it unchanged. *)
From Coq Require Import List ZArith NArith Bool.
From Astisub Require Import Kit.Base Model.Ops Proofs.ForceProofs.
Import ListNotations.
Open Scope Z_scope.

Lemma force_idem_filler d dummy u u' l : wf_timeline l -> 0 < d ->
  force_duration d dummy u' (force_duration d true u l) = force_duration d true u l.
Proof.
  intros Hw Hd. apply force_same_duration. apply force_with_filler_duration; assumption.
Qed.
