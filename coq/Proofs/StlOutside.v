(* C05, OUTSIDE the proviso "text lies in the Latin repertoire and fits": what WriteToSTL does there, computed on the
   model (the harness compares the same cases with the library byte for byte: stl.encode_text.outside,
   stl.write.outside).  Nothing here is a fidelity statement; the statements say what is lost, silently.
   - a code point that is neither in the inverse mapping nor a floating diacritic is written as its LOW BYTE
     (encodeTextSTL: byte(rune)): U+0416 -> 0x16, U+1F600 -> 0x00, U+20AC -> 0xAC (the down arrow of the table is 0xAF, 0xAC
     is the left arrow), U+4E2D -> 0x2D ("-");
   - a cue whose encoded text exceeds 112 bytes is cut at 112 bytes (astikit.BytesPad with a maximum length), no error;
   - under display standard "0" the library's own reader rejects a file with a byte below 0x20 in a text field
     (C05_read_rendered_needs_no_control), so the file written for U+0416 cannot be read back; under the default display
     standard the byte is a teletext control code and the character is gone. *)
From Coq Require Import List ZArith NArith Bool.
From Astisub Require Import Kit.Base Kit.Str Kit.Utf8 Model.Dur Model.Stl Gen.StlTables.
Import ListNotations.
Open Scope N_scope.

Definition out_zhe : str := [208; 150].              (* U+0416 *)
Definition out_grin : str := [240; 159; 152; 128].   (* U+1F600 *)
Definition out_euro : str := [226; 130; 172].        (* U+20AC *)
Definition out_zhong : str := [228; 184; 173].       (* U+4E2D *)
Example outside_low_byte :
  encode_text_stl out_zhe = [22] /\ encode_text_stl out_grin = [0] /\ encode_text_stl out_euro = [172] /\
  encode_text_stl out_zhong = [45] /\ encode_text_stl ([97] ++ out_zhe ++ [98]) = [97; 22; 98] /\
  text_faithful out_zhe = false /\ text_faithful out_grin = false.
Proof. vm_compute. repeat split; reflexivity. Qed.
(* they read back as other characters or as nothing *)
Example outside_low_byte_read_back :
  fst (decode_bytes None [172]) = [226; 134; 144] (* U+2190 *) /\ fst (decode_bytes None [45]) = [45].
Proof. vm_compute. split; reflexivity. Qed.

Definition out_now : str := [50;52;48;50;50;57].
Definition out_item (t : str) : witem := mkWitem 1000000000 2000000000 None None [[mkWrun t false false false]].
Definition out_md (dsc : str) : option wmeta :=
  Some (mkWmeta 25 [] [] [] None dsc [] [] None None [] [] None 0 [] 0 [] [] [] []).
(* 130 letters: 1152 bytes written, the text field is the first 112 letters, read back as such, no error anywhere *)
Example outside_long_line_cut :
  match write_stl out_now None [out_item (repeat 120 130)] with
  | Ok f => length f = 1152%nat /\ skipn (1024 + 16) f = repeat 120 112 /\
            match read_stl false f with
            | Ok d => map (fun it => map (map ru_text) (ri_lines it)) (rd_items d) = [[[repeat 120 112]]]
            | _ => False
            end
  | _ => False
  end.
Proof. vm_compute. repeat split; reflexivity. Qed.
(* U+0416 under display standard "0": written without error, rejected by the reader; under the default standard: read,
   the character is gone *)
Example outside_unreadable_open :
  match write_stl out_now (out_md [48]) [out_item ([97] ++ out_zhe ++ [98])] with
  | Ok f => nth (1024 + 17) f 0 = 22 /\ read_stl false f = Err EParse
  | _ => False
  end.
Proof. vm_compute. split; reflexivity. Qed.
Example outside_lost_teletext :
  match write_stl out_now None [out_item ([97] ++ out_zhe ++ [98])] with
  | Ok f => nth (1024 + 17) f 0 = 22 /\
            match read_stl false f with
            | Ok d => map (fun it => map (map ru_text) (ri_lines it)) (rd_items d) = [[[[97; 98]]]]
            | _ => False
            end
  | _ => False
  end.
Proof. vm_compute. split; reflexivity. Qed.
