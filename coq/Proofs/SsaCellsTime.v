(* SSA/ASS time cells: which spellings denote which duration, stated without parseDuration's model, and the
   equivalence with parse_time (Model/Ssa.v, Model/Dur.v) for EVERY cell.

   white space : any sequence of the ASCII bytes 9 .. 13 and 32 and of the UTF-8 encodings of U+0085, U+00A0, U+1680,
                 U+2000 .. U+200A, U+2028, U+2029, U+202F, U+205F, U+3000 (Kit.Str.space_seqs): what strings.TrimSpace
                 removes;
   a field     : an integer (Proofs/SsaCells.v: optional sign, digits, int64 range) with white space on either side;
   h m s       : M:S, :M:S (an empty hours field) or H:M:S, each a field, white space around the whole: any number of
                 digits in every field, leading zeros or none, values of 60 and above and negative values accepted;
   a time      : h m s alone (no fraction), or h m s, a dot and a fraction field whose integer has at most three
                 bytes (sign included) and counts units of 10^(3 - number of bytes) milliseconds: one byte tenths,
                 two bytes hundredths, three bytes thousandths of a second;
   its value   : ((ms * 10^6 + s * 10^9 + m * 60 * 10^9 + h * 3600 * 10^9)) reduced to the int64 range modulo 2^64
                 (time.Duration arithmetic wraps).  *)
From Coq Require Import List ZArith NArith Bool Lia Arith ZifyBool ZifyN ZifyNat.
From Astisub Require Import Kit.Base Kit.Str Kit.Scan Model.Dur Model.Ssa Proofs.DurProofs Proofs.VttBase Proofs.SsaFields
  Proofs.SsaTrim Proofs.SsaRows Proofs.SsaCells.
Import ListNotations.
Open Scope N_scope.

(* ---------------------------------------------------------------- white space *)
Inductive white_char : str -> Prop :=
| wc_ascii c : c = 32 \/ 9 <= c <= 13 -> white_char [c]
| wc_multi q : In q space_seqs -> white_char q.
Inductive white : str -> Prop :=
| white_nil : white []
| white_cons w s : white_char w -> white s -> white (w ++ s).
(* [s] is [core] with white space on either side *)
Definition padded (core s : str) : Prop := exists l r, s = l ++ core ++ r /\ white l /\ white r.

Lemma white_char_nonnil w : white_char w -> w <> [].
Proof.
  intros [c _|q Hq]; [discriminate|]. pose proof space_seqs_nonnil as H. rewrite Forall_forall in H. exact (H q Hq).
Qed.
Lemma white_one w : white_char w -> white w.
Proof. intros H. rewrite <- (app_nil_r w). constructor; [exact H | constructor]. Qed.
Lemma white_app a b : white a -> white b -> white (a ++ b).
Proof. induction 1 as [|w s Hw _ IH]; intros Hb; [exact Hb|]. rewrite <- app_assoc. constructor; [exact Hw | exact (IH Hb)]. Qed.
Lemma white_char_bytes w c : white_char w -> In c w -> c = 32 \/ 9 <= c <= 13 \/ 128 <= c.
Proof.
  intros [x Hx|q Hq] Hin.
  - destruct Hin as [<-|[]]. lia.
  - pose proof space_seqs_high as H. rewrite Forall_forall in H. specialize (H q Hq). unfold high in H.
    rewrite Forall_forall in H. right. right. exact (H c Hin).
Qed.
Lemma white_bytes s c : white s -> In c s -> c = 32 \/ 9 <= c <= 13 \/ 128 <= c.
Proof.
  induction 1 as [|w s Hw _ IH]; intros Hin; [destruct Hin|].
  apply in_app_or in Hin. destruct Hin as [Hin|Hin]; [exact (white_char_bytes w c Hw Hin) | exact (IH Hin)].
Qed.
Lemma padded_refl s : padded s s.
Proof. exists [], []. rewrite app_nil_r. split; [reflexivity | split; constructor]. Qed.

(* one white-space character is what one step of TrimSpace removes *)
Lemma strip_space1_white w r : white_char w -> strip_space1 (w ++ r) = Some r.
Proof.
  intros [c Hc|q Hq].
  - cbn [app strip_space1]. assert (E : is_ascii_space c = true) by (unfold is_ascii_space; lia). rewrite E. reflexivity.
  - unfold space_seqs in Hq. cbn [In] in Hq.
    repeat (destruct Hq as [<-|Hq]; [vm_compute; reflexivity|]). destruct Hq.
Qed.
Lemma strip_space1_rev_white w r : white_char w -> strip_space1_rev (rev w ++ r) = Some r.
Proof.
  intros [c Hc|q Hq].
  - cbn [rev app strip_space1_rev]. assert (E : is_ascii_space c = true) by (unfold is_ascii_space; lia). rewrite E. reflexivity.
  - unfold space_seqs in Hq. cbn [In] in Hq.
    repeat (destruct Hq as [<-|Hq]; [vm_compute; reflexivity|]). destruct Hq.
Qed.
Lemma strip_any_inv seqs s r : strip_any seqs s = Some r -> exists q, In q seqs /\ s = q ++ r.
Proof.
  induction seqs as [|q seqs IH]; intros H; [discriminate H|]. cbn [strip_any] in H.
  destruct (prefix q s) as [rest|] eqn:E.
  - injection H as <-. exists q. split; [left; reflexivity | exact (prefix_Some q s rest E)].
  - destruct (IH H) as (q' & Hin & E'). exists q'. split; [right; exact Hin | exact E'].
Qed.
Lemma strip_space1_inv s r : strip_space1 s = Some r -> exists w, white_char w /\ s = w ++ r.
Proof.
  unfold strip_space1. destruct s as [|c t]; [discriminate|]. destruct (is_ascii_space c) eqn:E.
  - intros H. injection H as <-. exists [c]. split; [constructor; unfold is_ascii_space in E; lia | reflexivity].
  - destruct (c <? 128); [discriminate|]. intros H. destruct (strip_any_inv _ _ _ H) as (q & Hq & Es).
    exists q. split; [apply wc_multi; exact Hq | exact Es].
Qed.
Lemma strip_space1_rev_inv s r : strip_space1_rev s = Some r -> exists w, white_char w /\ s = rev w ++ r.
Proof.
  unfold strip_space1_rev. destruct s as [|c t]; [discriminate|]. destruct (is_ascii_space c) eqn:E.
  - intros H. injection H as <-. exists [c]. split; [constructor; unfold is_ascii_space in E; lia | reflexivity].
  - destruct (c <? 128); [discriminate|]. intros H. destruct (strip_any_inv _ _ _ H) as (q & Hq & Es).
    apply in_map_iff in Hq. destruct Hq as (q0 & <- & Hq0). exists q0. split; [apply wc_multi; exact Hq0 | exact Es].
Qed.

(* TrimSpace removes white space and nothing else *)
Lemma trim_left_fuel_inv f : forall s, exists l, white l /\ s = l ++ trim_left_fuel f s.
Proof.
  induction f as [|f IH]; intros s; cbn [trim_left_fuel]; [exists []; split; [constructor | reflexivity]|].
  destruct (strip_space1 s) as [r|] eqn:E; [|exists []; split; [constructor | reflexivity] ].
  destruct (strip_space1_inv s r E) as (w & Hw & ->). destruct (IH r) as (l & Hl & El).
  exists (w ++ l). split; [constructor; assumption|]. rewrite <- app_assoc. f_equal. exact El.
Qed.
Lemma trim_right_fuel_inv f : forall s, exists r, white r /\ s = rev r ++ trim_right_fuel f s.
Proof.
  induction f as [|f IH]; intros s; cbn [trim_right_fuel]; [exists []; split; [constructor | reflexivity]|].
  destruct (strip_space1_rev s) as [t|] eqn:E; [|exists []; split; [constructor | reflexivity] ].
  destruct (strip_space1_rev_inv s t E) as (w & Hw & ->). destruct (IH t) as (r & Hr & Er).
  exists (r ++ w). split; [apply white_app; [exact Hr | apply white_one; exact Hw]|].
  rewrite rev_app_distr, <- app_assoc. f_equal. exact Er.
Qed.
Theorem trim_space_padded s : padded (trim_space s) s.
Proof.
  unfold trim_space, trim_right, trim_left.
  destruct (trim_left_fuel_inv (length s) s) as (l & Hl & El). set (t1 := trim_left_fuel (length s) s) in *.
  destruct (trim_right_fuel_inv (length t1) (rev t1)) as (r & Hr & Er). set (t2 := trim_right_fuel (length t1) (rev t1)) in *.
  exists l, r. split; [|split; assumption]. rewrite El at 1. f_equal.
  rewrite <- (rev_involutive t1), Er, rev_app_distr, rev_involutive. reflexivity.
Qed.

(* white space in front and behind is removed *)
Lemma trim_left_fuel_white L : white L -> forall f Y, (length (L ++ Y) <= f)%nat ->
  exists f', (length Y <= f')%nat /\ trim_left_fuel f (L ++ Y) = trim_left_fuel f' Y.
Proof.
  induction 1 as [|w s Hw _ IH]; intros f Y Hf; [exists f; split; [exact Hf | reflexivity]|].
  rewrite <- app_assoc in *. pose proof (white_char_nonnil w Hw) as Hn.
  destruct f as [|f]; [destruct w; [contradiction | cbn [app length] in Hf; lia]|].
  cbn [trim_left_fuel]. rewrite (strip_space1_white w (s ++ Y) Hw). apply IH.
  rewrite app_length in Hf. destruct w; [contradiction | cbn [length] in Hf; lia].
Qed.
Lemma trim_right_fuel_white R : white R -> forall f Z, (length (rev R ++ Z) <= f)%nat ->
  exists f', (length Z <= f')%nat /\ trim_right_fuel f (rev R ++ Z) = trim_right_fuel f' Z.
Proof.
  induction 1 as [|w s Hw _ IH]; intros f Z Hf; [exists f; split; [exact Hf | reflexivity]|].
  rewrite rev_app_distr, <- app_assoc in *. pose proof (white_char_nonnil w Hw) as Hn.
  destruct (IH f (rev w ++ Z) Hf) as (f' & Hf' & ->).
  destruct f' as [|f']; [rewrite app_length, rev_length in Hf'; destruct w; [contradiction | cbn [length] in Hf'; lia]|].
  cbn [trim_right_fuel]. rewrite (strip_space1_rev_white w Z Hw). exists f'. split; [|reflexivity].
  rewrite app_length, rev_length in Hf'. destruct w; [contradiction | cbn [length] in Hf'; lia].
Qed.
Theorem padded_trim L T R : white L -> white R -> T <> [] ->
  plain_byte (hd 0 T) = true -> plain_byte (last T 0) = true -> trim_space (L ++ T ++ R) = T.
Proof.
  intros HL HR Hne Hh Hl. unfold trim_space, trim_left.
  destruct (trim_left_fuel_white L HL (length (L ++ T ++ R)) (T ++ R) (Nat.le_refl _)) as (f' & _ & ->).
  destruct T as [|x T']; [contradiction|]. cbn [hd] in Hh.
  assert (E1 : trim_left_fuel f' ((x :: T') ++ R) = (x :: T') ++ R).
  { apply trim_left_fuel_id. cbn [app]. apply left_fixed_plain. exact Hh. }
  rewrite E1. unfold trim_right. rewrite rev_app_distr.
  assert (Hlen : (length (rev R ++ rev (x :: T')) <= length ((x :: T') ++ R))%nat) by (rewrite !app_length, !rev_length; lia).
  destruct (trim_right_fuel_white R HR _ (rev (x :: T')) Hlen) as (f'' & _ & ->).
  destruct (@exists_last _ (x :: T') Hne) as (p & y & E). rewrite E in *. rewrite last_last in Hl.
  rewrite trim_right_fuel_id; [apply rev_involutive|]. exact (right_fixed_plain p y Hl).
Qed.

(* ---------------------------------------------------------------- fields *)
Definition field (v : Z) (p : str) : Prop := exists core, padded core p /\ int_spelling v core.

Definition num_char (c : byte) : Prop := dec_digit c \/ c = 43 \/ c = 45.
Lemma int_spelling_chars v core : int_spelling v core -> Forall num_char core.
Proof.
  intros (sg & neg & ds & -> & Hs & _ & Hd & _). apply Forall_app. split.
  - destruct Hs; repeat constructor; unfold num_char; lia.
  - apply Forall_forall. intros c Hc. left. exact (proj1 (Forall_forall _ _) Hd c Hc).
Qed.
Lemma num_char_plain c : num_char c -> plain_byte c = true.
Proof. unfold num_char, dec_digit, plain_byte, is_ascii_space. lia. Qed.
Lemma int_spelling_last v core : int_spelling v core -> dec_digit (last core 0).
Proof.
  intros (sg & neg & ds & -> & _ & Hne & Hd & _). destruct (@exists_last _ ds Hne) as (p & y & ->).
  rewrite app_assoc, last_last. apply (proj1 (Forall_forall _ _) Hd). apply in_or_app. right. left. reflexivity.
Qed.
Lemma int_spelling_tight v core : int_spelling v core ->
  core <> [] /\ plain_byte (hd 0 core) = true /\ plain_byte (last core 0) = true.
Proof.
  intros H. pose proof (int_spelling_nonnil v core H) as Hne. pose proof (int_spelling_chars v core H) as Hc.
  split; [exact Hne|]. split.
  - destruct core as [|c r]; [contradiction|]. apply num_char_plain. exact (Forall_inv Hc).
  - apply num_char_plain. left. exact (int_spelling_last v core H).
Qed.
Lemma padded_int_trim v core p : padded core p -> int_spelling v core -> trim_space p = core.
Proof.
  intros (l & r & -> & Hl & Hr) H. destruct (int_spelling_tight v core H) as (Hne & Hh & Hla).
  apply padded_trim; assumption.
Qed.

(* a field is what TrimSpace followed by Atoi reads *)
Theorem field_iff v p : field v p <-> atoi (trim_space p) = Some v.
Proof.
  split.
  - intros (core & Hp & H). rewrite (padded_int_trim v core p Hp H). apply int_spelling_iff. exact H.
  - intros H. exists (trim_space p). split; [apply trim_space_padded | apply int_spelling_iff; exact H].
Qed.

Lemma field_bytes v p c : field v p -> In c p -> num_char c \/ c = 32 \/ 9 <= c <= 13 \/ 128 <= c.
Proof.
  intros (core & (l & r & -> & Hl & Hr) & H) Hin. apply in_app_or in Hin. destruct Hin as [Hin|Hin]; [right; exact (white_bytes l c Hl Hin)|].
  apply in_app_or in Hin. destruct Hin as [Hin|Hin]; [|right; exact (white_bytes r c Hr Hin)].
  left. exact (proj1 (Forall_forall _ _) (int_spelling_chars v core H) c Hin).
Qed.
Lemma field_no_colon v p : field v p -> ~ In 58 p.
Proof. intros H Hin. destruct (field_bytes v p 58 H Hin) as [Hc|Hc]; unfold num_char, dec_digit in *; lia. Qed.
Lemma field_no_dot v p : field v p -> ~ In 46 p.
Proof. intros H Hin. destruct (field_bytes v p 46 H Hin) as [Hc|Hc]; unfold num_char, dec_digit in *; lia. Qed.
Lemma white_no_colon s : white s -> ~ In 58 s.
Proof. intros H Hin. pose proof (white_bytes s 58 H Hin). lia. Qed.
Lemma white_no_dot s : white s -> ~ In 46 s.
Proof. intros H Hin. pose proof (white_bytes s 46 H Hin). lia. Qed.

(* ---------------------------------------------------------------- hours, minutes, seconds *)
Definition hms_core (h m s : Z) (core : str) : Prop :=
  (exists pm ps, core = pm ++ 58 :: ps /\ h = 0%Z /\ field m pm /\ field s ps) \/
  (exists pm ps, core = 58 :: pm ++ 58 :: ps /\ h = 0%Z /\ field m pm /\ field s ps) \/
  (exists ph pm ps, core = ph ++ 58 :: pm ++ 58 :: ps /\ field h ph /\ field m pm /\ field s ps).
Definition hms_spelling (h m s : Z) (x : str) : Prop := exists core, padded core x /\ hms_core h m s core.

(* the same strings with the outer white space attributed to the whole: the first field carries white space on its
   right only, the last on its left only *)
Definition field_r (v : Z) (p : str) : Prop := exists core w, p = core ++ w /\ white w /\ int_spelling v core.
Definition field_l (v : Z) (p : str) : Prop := exists w core, p = w ++ core /\ white w /\ int_spelling v core.
Lemma field_r_field v p : field_r v p -> field v p.
Proof. intros (core & w & -> & Hw & H). exists core. split; [exists [], w; split; [reflexivity | split; [constructor | exact Hw] ] | exact H]. Qed.
Lemma field_l_field v p : field_l v p -> field v p.
Proof.
  intros (w & core & -> & Hw & H). exists core. split; [|exact H]. exists w, []. rewrite app_nil_r.
  split; [reflexivity | split; [exact Hw | constructor] ].
Qed.
Definition hms_tight (h m s : Z) (core : str) : Prop :=
  (exists pm ps, core = pm ++ 58 :: ps /\ h = 0%Z /\ field_r m pm /\ field_l s ps) \/
  (exists pm ps, core = 58 :: pm ++ 58 :: ps /\ h = 0%Z /\ field m pm /\ field_l s ps) \/
  (exists ph pm ps, core = ph ++ 58 :: pm ++ 58 :: ps /\ field_r h ph /\ field m pm /\ field_l s ps).

Lemma field_split_r v p : field v p -> exists l p', p = l ++ p' /\ white l /\ field_r v p'.
Proof. intros (core & (l & r & -> & Hl & Hr) & H). exists l, (core ++ r). split; [reflexivity|]. split; [exact Hl|]. exists core, r. auto. Qed.
Lemma field_split_l v p : field v p -> exists p' r, p = p' ++ r /\ white r /\ field_l v p'.
Proof.
  intros (core & (l & r & -> & Hl & Hr) & H). exists (l ++ core), r. split; [rewrite app_assoc; reflexivity|]. split; [exact Hr|].
  exists l, core. auto.
Qed.

Lemma hms_spelling_tight h m s x : hms_spelling h m s x ->
  exists L core R, x = L ++ core ++ R /\ white L /\ white R /\ hms_tight h m s core.
Proof.
  intros (core & (l & r & -> & Hl & Hr) & [(pm & ps & -> & Hh & Hm & Hs)|[(pm & ps & -> & Hh & Hm & Hs)|(ph & pm & ps & -> & Hh & Hm & Hs)] ]).
  - destruct (field_split_r m pm Hm) as (l1 & pm' & -> & Hl1 & Hm'). destruct (field_split_l s ps Hs) as (ps' & r1 & -> & Hr1 & Hs').
    exists (l ++ l1), (pm' ++ 58 :: ps'), (r1 ++ r). split; [rewrite <- !app_assoc; cbn [app]; rewrite <- !app_assoc; reflexivity|].
    split; [apply white_app; assumption|]. split; [apply white_app; assumption|]. left. exists pm', ps'. auto.
  - destruct (field_split_l s ps Hs) as (ps' & r1 & -> & Hr1 & Hs').
    exists l, (58 :: pm ++ 58 :: ps'), (r1 ++ r). split; [cbn [app]; rewrite <- !app_assoc; cbn [app]; rewrite <- !app_assoc; reflexivity|].
    split; [exact Hl|]. split; [apply white_app; assumption|]. right. left. exists pm, ps'. auto.
  - destruct (field_split_r h ph Hh) as (l1 & ph' & -> & Hl1 & Hh'). destruct (field_split_l s ps Hs) as (ps' & r1 & -> & Hr1 & Hs').
    exists (l ++ l1), (ph' ++ 58 :: pm ++ 58 :: ps'), (r1 ++ r).
    split; [rewrite <- !app_assoc; cbn [app]; rewrite <- !app_assoc; cbn [app]; rewrite <- !app_assoc; reflexivity|].
    split; [apply white_app; assumption|]. split; [apply white_app; assumption|]. right. right. exists ph', pm, ps'. auto.
Qed.

Lemma field_r_head v p : field_r v p -> p <> [] /\ plain_byte (hd 0 p) = true.
Proof.
  intros (core & w & -> & _ & H). destruct (int_spelling_tight v core H) as (Hne & Hh & _).
  destruct core as [|c r]; [contradiction|]. split; [discriminate | exact Hh].
Qed.
Lemma field_l_last v p a : field_l v p -> plain_byte (last (a ++ p) 0) = true.
Proof.
  intros (w & core & -> & _ & H). destruct (int_spelling_tight v core H) as (Hne & _ & Hl).
  destruct (@exists_last _ core Hne) as (q & y & ->). rewrite last_last in Hl. rewrite !app_assoc, last_last. exact Hl.
Qed.

Lemma hms_tight_trim h m s core L R : white L -> white R -> hms_tight h m s core -> trim_space (L ++ core ++ R) = core.
Proof.
  intros HL HR [(pm & ps & -> & Hh & Hm & Hs)|[(pm & ps & -> & Hh & Hm & Hs)|(ph & pm & ps & -> & Hh & Hm & Hs)] ].
  - destruct (field_r_head m pm Hm) as (Hne & Hhd). apply padded_trim; try assumption.
    + destruct pm; [contradiction | discriminate].
    + destruct pm; [contradiction | exact Hhd].
    + change (pm ++ 58 :: ps) with (pm ++ [58] ++ ps). rewrite app_assoc. apply (field_l_last s ps). exact Hs.
  - apply padded_trim; try assumption; [discriminate | reflexivity|].
    replace (58 :: pm ++ 58 :: ps) with ((58 :: pm ++ [58]) ++ ps) by (cbn [app]; rewrite <- app_assoc; reflexivity).
    apply (field_l_last s ps). exact Hs.
  - destruct (field_r_head h ph Hh) as (Hne & Hhd). apply padded_trim; try assumption.
    + destruct ph; [contradiction | discriminate].
    + destruct ph; [contradiction | exact Hhd].
    + change (ph ++ 58 :: pm ++ 58 :: ps) with (ph ++ [58] ++ pm ++ [58] ++ ps). rewrite !app_assoc. apply (field_l_last s ps). exact Hs.
Qed.

Lemma colon_is : colon = 58. Proof. reflexivity. Qed.

(* parseDuration's hours-minutes-seconds part accepts exactly these spellings *)
Theorem hms_spelling_iff h m s x : hms_spelling h m s x <-> parse_hms x = Some (h, m, s).
Proof.
  unfold parse_hms. rewrite colon_is. split.
  - intros H. destruct (hms_spelling_tight h m s x H) as (L & core & R & -> & HL & HR & Ht).
    rewrite (hms_tight_trim h m s core L R HL HR Ht).
    destruct Ht as [(pm & ps & -> & -> & Hm & Hs)|[(pm & ps & -> & -> & Hm & Hs)|(ph & pm & ps & -> & Hh & Hm & Hs)] ].
    + apply field_r_field in Hm. apply field_l_field in Hs.
      rewrite (split_byte_app 58 pm ps (field_no_colon m pm Hm)), (split_byte_none 58 ps (field_no_colon s ps Hs)).
      rewrite (proj1 (field_iff s ps) Hs), (proj1 (field_iff m pm) Hm). reflexivity.
    + apply field_l_field in Hs.
      change (58 :: pm ++ 58 :: ps) with ([] ++ 58 :: pm ++ 58 :: ps).
      rewrite (split_byte_app 58 [] (pm ++ 58 :: ps)) by (intros []).
      rewrite (split_byte_app 58 pm ps (field_no_colon m pm Hm)), (split_byte_none 58 ps (field_no_colon s ps Hs)).
      rewrite (proj1 (field_iff s ps) Hs), (proj1 (field_iff m pm) Hm). reflexivity.
    + destruct (field_r_head h ph Hh) as (Hne & _). apply field_r_field in Hh. apply field_l_field in Hs.
      rewrite (split_byte_app 58 ph (pm ++ 58 :: ps) (field_no_colon h ph Hh)).
      rewrite (split_byte_app 58 pm ps (field_no_colon m pm Hm)), (split_byte_none 58 ps (field_no_colon s ps Hs)).
      rewrite (proj1 (field_iff s ps) Hs), (proj1 (field_iff m pm) Hm), (proj1 (field_iff h ph) Hh).
      destruct ph; [contradiction | reflexivity].
  - intros H. exists (trim_space x). split; [apply trim_space_padded|]. set (t := trim_space x) in *.
    pose proof (join_split_byte 58 t) as Ej.
    destruct (split_byte 58 t) as [|p1 [|p2 [|p3 [|p4 rest] ] ] ]; try discriminate H.
    + cbn [join] in Ej. destruct (atoi (trim_space p2)) as [sec|] eqn:Es; [|discriminate H].
      destruct (atoi (trim_space p1)) as [mn|] eqn:Em; [|discriminate H]. injection H as <- <- <-.
      left. exists p1, p2. split; [symmetry; exact Ej|]. split; [reflexivity|]. split; apply field_iff; assumption.
    + cbn [join app] in Ej. destruct (atoi (trim_space p3)) as [sec|] eqn:Es; [|discriminate H].
      destruct (atoi (trim_space p2)) as [mn|] eqn:Em; [|discriminate H].
      destruct p1 as [|c1 p1].
      * injection H as <- <- <-. right. left. exists p2, p3. split; [symmetry; exact Ej|]. split; [reflexivity|]. split; apply field_iff; assumption.
      * destruct (atoi (trim_space (c1 :: p1))) as [hh|] eqn:Eh; [|discriminate H]. injection H as <- <- <-.
        right. right. exists (c1 :: p1), p2, p3. split; [symmetry; exact Ej|]. repeat split; apply field_iff; assumption.
Qed.

(* ---------------------------------------------------------------- the whole cell *)
(* [t] is [x] reduced to the int64 range modulo 2^64 *)
Definition wraps_to (x t : Z) : Prop := int64 t /\ exists k : Z, (t = x + k * 18446744073709551616)%Z.
Lemma wraps_to_iff x t : wraps_to x t <-> wrap64 x = t.
Proof.
  unfold wraps_to, int64, wrap64, two63. split.
  - intros (Hr & k & ->). lia.
  - intros <-. split; [lia|]. exists (- ((x + 9223372036854775808) / 18446744073709551616))%Z. lia.
Qed.

Definition time_spelling (t : Z) (cell : str) : Prop :=
  exists h m s ms : Z,
    wraps_to (ms * 1000000 + s * 1000000000 + m * 60000000000 + h * 3600000000000)%Z t /\
    ((hms_spelling h m s cell /\ ms = 0%Z) \/
     (exists x fr core v, cell = x ++ 46 :: fr /\ hms_spelling h m s x /\ padded core fr /\ int_spelling v core /\
                          (length core <= 3)%nat /\ ms = (v * 10 ^ (3 - Z.of_nat (length core)))%Z)).

Lemma hms_spelling_no_dot h m s x : hms_spelling h m s x -> ~ In 46 x.
Proof.
  intros (core & (l & r & -> & Hl & Hr) & Hc) Hin.
  apply in_app_or in Hin. destruct Hin as [Hin|Hin]; [exact (white_no_dot l Hl Hin)|].
  apply in_app_or in Hin. destruct Hin as [Hin|Hin]; [|exact (white_no_dot r Hr Hin)].
  destruct Hc as [(pm & ps & -> & _ & Hm & Hs)|[(pm & ps & -> & _ & Hm & Hs)|(ph & pm & ps & -> & Hh & Hm & Hs)] ].
  - apply in_app_or in Hin. destruct Hin as [Hin|[Hin|Hin] ]; [exact (field_no_dot m pm Hm Hin) | discriminate Hin | exact (field_no_dot s ps Hs Hin)].
  - destruct Hin as [Hin|Hin]; [discriminate Hin|].
    apply in_app_or in Hin. destruct Hin as [Hin|[Hin|Hin] ]; [exact (field_no_dot m pm Hm Hin) | discriminate Hin | exact (field_no_dot s ps Hs Hin)].
  - apply in_app_or in Hin. destruct Hin as [Hin|[Hin|Hin] ]; [exact (field_no_dot h ph Hh Hin) | discriminate Hin|].
    apply in_app_or in Hin. destruct Hin as [Hin|[Hin|Hin] ]; [exact (field_no_dot m pm Hm Hin) | discriminate Hin | exact (field_no_dot s ps Hs Hin)].
Qed.
Lemma padded_int_no_dot v core fr : padded core fr -> int_spelling v core -> ~ In 46 fr.
Proof. intros Hp H. apply (field_no_dot v fr). exists core. split; assumption. Qed.

Lemma join_snoc c l x : l <> [] -> join [c] (l ++ [x]) = join [c] l ++ c :: x.
Proof.
  induction l as [|a l IH]; intros Hne; [contradiction|]. destruct l as [|b l].
  - reflexivity.
  - change ((a :: b :: l) ++ [x]) with (a :: (b :: l) ++ [x]).
    change (join [c] (a :: (b :: l) ++ [x])) with (a ++ [c] ++ join [c] ((b :: l) ++ [x])).
    rewrite IH by discriminate. change (join [c] (a :: b :: l)) with (a ++ [c] ++ join [c] (b :: l)).
    rewrite <- !app_assoc. reflexivity.
Qed.

Lemma dot_is : dot = 46. Proof. reflexivity. Qed.
Lemma some_inj {A} (a b : A) : Some a = Some b -> a = b.
Proof. intros H. injection H as H. exact H. Qed.
Lemma some_wrap_eq a b : a = b -> Some (wrap64 a) = Some (wrap64 b).
Proof. intros ->. reflexivity. Qed.

(* parseDurationSSA accepts exactly these spellings, with these values: no side condition *)
Theorem time_spelling_iff t cell : time_spelling t cell <-> parse_time cell = Some t.
Proof.
  unfold parse_time, parse_ssa, parse_duration. rewrite dot_is. unfold ms_ns, second_ns, minute_ns, hour_ns. split.
  - intros (h & m & s & ms & Hw & [(Hx & ->)|(x & fr & core & v & -> & Hx & Hp & Hv & Hl & ->)]); apply wraps_to_iff in Hw.
    + rewrite (split_byte_none 46 cell (hms_spelling_no_dot h m s cell Hx)). cbn [rev app].
      rewrite (proj1 (hms_spelling_iff h m s cell) Hx). rewrite <- Hw. apply some_wrap_eq. lia.
    + rewrite (split_byte_app 46 x fr (hms_spelling_no_dot h m s x Hx)).
      rewrite (split_byte_none 46 fr (padded_int_no_dot v core fr Hp Hv)). cbn [rev app].
      rewrite (padded_int_trim v core fr Hp Hv).
      assert (El : Nat.ltb 3 (length core) = false) by (apply Nat.ltb_ge; exact Hl). rewrite El.
      rewrite (proj1 (int_spelling_iff v core) Hv). cbn [join].
      rewrite (proj1 (hms_spelling_iff h m s x) Hx). rewrite <- Hw. apply some_wrap_eq. do 3 f_equal.
      unfold pow10_int. change (Z.of_nat 3) with 3%Z. destruct (3 - Z.of_nat (length core) <? 0)%Z eqn:B; [lia | reflexivity].
  - intros H. pose proof (join_split_byte 46 cell) as Ej.
    assert (G : match parse_hms cell with
                | Some (h, mn, sec) => Some (sec * 1000000000 + mn * 60000000000 + h * 3600000000000)%Z
                | None => None
                end = Some (wrap64 t) \/ True) by (right; exact I). clear G.
    assert (Gno : forall u, match parse_hms cell with
                            | Some (h, mn, sec) => Some (sec * 1000000000 + mn * 60000000000 + h * 3600000000000)%Z
                            | None => None
                            end = Some u -> wrap64 u = t -> time_spelling t cell).
    { intros u Hu Hw. destruct (parse_hms cell) as [ [ [h mn] sec]|] eqn:Eh; [|discriminate Hu]. injection Hu as <-.
      exists h, mn, sec, 0%Z. split; [apply wraps_to_iff; rewrite <- Hw; f_equal; lia|]. left. split; [apply hms_spelling_iff; exact Eh | reflexivity]. }
    destruct (rev (split_byte 46 cell)) as [|lastp [|p2 front] ] eqn:Er.
    + destruct (match parse_hms cell with Some (h, mn, sec) => Some (sec * 1000000000 + mn * 60000000000 + h * 3600000000000)%Z | None => None end) as [u|] eqn:Eu; [|discriminate H].
      injection H as H. exact (Gno u eq_refl H).
    + destruct (match parse_hms cell with Some (h, mn, sec) => Some (sec * 1000000000 + mn * 60000000000 + h * 3600000000000)%Z | None => None end) as [u|] eqn:Eu; [|discriminate H].
      injection H as H. exact (Gno u eq_refl H).
    + clear Gno. apply (f_equal (@rev str)) in Er. rewrite rev_involutive in Er. cbn [rev] in Er. rewrite Er in Ej.
      set (fr0 := rev front ++ [p2]) in *.
      assert (Hfr0 : fr0 <> []) by (unfold fr0; intros E; apply app_eq_nil in E; destruct E as [_ E]; discriminate E).
      rewrite (join_snoc 46 fr0 lastp Hfr0) in Ej.
      assert (Erev : rev (p2 :: front) = fr0) by reflexivity. rewrite Erev in H.
      destruct (Nat.ltb 3 (length (trim_space lastp))) eqn:El; [discriminate H|]. apply Nat.ltb_ge in El.
      destruct (atoi (trim_space lastp)) as [ms|] eqn:Ea; [|discriminate H].
      destruct (parse_hms (join [46] fr0)) as [ [ [h mn] sec]|] eqn:Eh; [|discriminate H]. apply some_inj in H.
      exists h, mn, sec, (ms * 10 ^ (3 - Z.of_nat (length (trim_space lastp))))%Z. split.
      * apply wraps_to_iff. rewrite <- H. do 4 f_equal. unfold pow10_int. change (Z.of_nat 3) with 3%Z.
        destruct (3 - Z.of_nat (length (trim_space lastp)) <? 0)%Z eqn:B; [lia | reflexivity].
      * right. exists (join [46] fr0), lastp, (trim_space lastp), ms. split; [symmetry; exact Ej|].
        split; [apply hms_spelling_iff; exact Eh|]. split; [apply trim_space_padded|]. split; [apply int_spelling_iff; exact Ea|].
        split; [exact El | reflexivity].
Qed.

(* ---------------------------------------------------------------- audit item d: any number of hour digits *)
(* H:MM:SS.cc with the hours written in any number of digits, with or without leading zeros, and no upper bound on
   the hours other than the int64 range of the result *)
Theorem parse_time_hh_mm_ss_cc (k : nat) h m s c : (0 <= h)%Z -> (0 <= m < 60)%Z -> (0 <= s < 60)%Z -> (0 <= c < 100)%Z ->
  (h * hour_ns + m * minute_ns + s * second_ns + c * 10000000 <= max_int64)%Z ->
  parse_time ((repeat 48 k ++ itoa_z h) ++ [58] ++ two m ++ [58] ++ two s ++ [46] ++ two c) =
  Some (h * hour_ns + m * minute_ns + s * second_ns + c * 10000000)%Z.
Proof.
  intros Hh Hm Hs Hc Hb. unfold parse_time.
  assert (Hhm : (h <= max_int64)%Z) by (unfold hour_ns, minute_ns, second_ns, max_int64 in *; lia).
  rewrite (parse_ssa_gen (repeat 48 k ++ itoa_z h) h m s c); try (unfold max_int64; lia).
  - rewrite wrap64_id; [f_equal; unfold ms_ns, second_ns, minute_ns, hour_ns; lia|].
    unfold int_ok, max_int64, ms_ns, second_ns, minute_ns, hour_ns in *. lia.
  - apply digits_app; [apply digits_repeat | apply itoa_z_digits; exact Hh].
  - intros E. apply app_eq_nil in E. destruct E as [_ E]. exact (itoa_z_nonnil h E).
  - apply int_spelling_iff. rewrite (itoa_z_nonneg h Hh).
    pose proof (int_spelling_canonical false [] k (Z.to_N h) sign_none) as G. unfold signed in G. rewrite Z2N.id in G by exact Hh.
    apply G. unfold int64, max_int64 in *. lia.
Qed.
(* the writer's two-digit form HH:MM:SS.cc, hours below 100 *)
Corollary parse_time_two_hours h m s c : (0 <= h < 100)%Z -> (0 <= m < 60)%Z -> (0 <= s < 60)%Z -> (0 <= c < 100)%Z ->
  parse_time (two h ++ [58] ++ two m ++ [58] ++ two s ++ [46] ++ two c) =
  Some (h * hour_ns + m * minute_ns + s * second_ns + c * 10000000)%Z.
Proof.
  intros Hh Hm Hs Hc. unfold two at 1.
  assert (Hb : (h * hour_ns + m * minute_ns + s * second_ns + c * 10000000 <= max_int64)%Z)
    by (unfold hour_ns, minute_ns, second_ns, max_int64; lia).
  destruct (h <? 10)%Z.
  - exact (parse_time_hh_mm_ss_cc 1 h m s c ltac:(lia) Hm Hs Hc Hb).
  - exact (parse_time_hh_mm_ss_cc 0 h m s c ltac:(lia) Hm Hs Hc Hb).
Qed.
