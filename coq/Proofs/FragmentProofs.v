(* Fragment (C10): per-cue cutting at the multiples of f, then Order. *)
From Coq Require Import List ZArith NArith Bool Lia Permutation Sorted.
From Astisub Require Import Kit.Base Model.Ops Proofs.OrderProofs.
Import ListNotations.
Open Scope Z_scope.

Ltac Zify.zify_post_hook ::= Z.to_euclidean_division_equations.

Definition is_mult (f b : Z) : Prop := exists k, b = k * f.

(* next_mult f s is the first multiple of f strictly after s *)
Lemma next_mult_spec f s : 0 < f ->
  is_mult f (next_mult f s) /\ s < next_mult f s /\ next_mult f s - f <= s.
Proof.
  intros Hf. unfold next_mult, is_mult.
  destruct (s - Z.rem s f <=? s) eqn:E.
  - apply Z.leb_le in E. split; [exists (Z.quot s f + 1); lia | lia].
  - apply Z.leb_gt in E. split; [exists (Z.quot s f); lia | lia].
Qed.

(* a cue strictly contains no multiple of f *)
Definition no_interior_mult (f : Z) (p : item) : Prop := forall k, ~ (st p < k * f /\ k * f < en p).

(* consecutive pieces covering [s, e) *)
Inductive tiles : Z -> Z -> list item -> Prop :=
| tiles_one x : tiles (st x) (en x) [x]
| tiles_cons x e r : tiles (en x) e r -> tiles (st x) e (x :: r).

(* a piece carries its original's content, style and region *)
Definition piece_of (x p : item) : Prop :=
  i_lines p = i_lines x /\ i_reg p = i_reg x /\ i_sty p = i_sty x /\ i_inl p = i_inl x /\
  st x <= st p /\ (en p <= en x \/ en p = en x).

Lemma no_mult_between f k b : 0 < f -> b = k * f -> forall j, ~ (b - f < j * f /\ j * f < b).
Proof.
  intros Hf -> j [H1 H2].
  assert (j < k) by nia. assert (k - 1 < j) by nia. lia.
Qed.

Lemma pieces_loop_spec f : 0 < f -> forall fuel x b,
  is_mult f b -> st x < b -> b - f <= st x -> en x - b < Z.of_nat fuel * f ->
  tiles (st x) (en x) (pieces_loop fuel f x b) /\
  Forall (no_interior_mult f) (pieces_loop fuel f x b) /\
  Forall (fun p => i_lines p = i_lines x /\ i_reg p = i_reg x /\ i_sty p = i_sty x /\ i_inl p = i_inl x /\
                   st x <= st p /\ st p <= en p \/ pieces_loop fuel f x b = [x]) (pieces_loop fuel f x b) /\
  (en x <= b -> pieces_loop fuel f x b = [x]).
Proof.
  intros Hf. induction fuel as [|n IH]; intros x b Hm Hlt Hge Hfuel.
  - cbn [pieces_loop]. cbn in Hfuel.
    assert (Hnone : no_interior_mult f x).
    { destruct Hm as [k ->]. intros j [H1 H2]. apply (no_mult_between f k (k * f) Hf eq_refl j). lia. }
    repeat split; [constructor | constructor; [exact Hnone | constructor] | constructor; [right; reflexivity | constructor]].
  - cbn [pieces_loop]. destruct (b <? en x) eqn:E.
    + apply Z.ltb_lt in E.
      assert (Hm' : is_mult f (b + f)) by (destruct Hm as [k ->]; exists (k + 1); lia).
      specialize (IH (set_st x b) (b + f) Hm'). cbn [st en set_st] in IH.
      specialize (IH ltac:(lia) ltac:(lia) ltac:(lia)).
      destruct IH as (T & N & P & _).
      split; [|split; [|split]].
      * change (st x) with (st (set_uid (set_en x b) 0%N)). apply tiles_cons. cbn. exact T.
      * constructor; [|exact N]. destruct Hm as [k ->]. intros j [H1 H2]. cbn in H1, H2.
        apply (no_mult_between f k (k * f) Hf eq_refl j). lia.
      * constructor.
        -- left. cbn. repeat split; lia.
        -- rewrite Forall_forall in *. intros p Hp. specialize (P p Hp). left. cbn [i_lines i_reg i_sty i_inl set_st] in P.
           destruct P as [P|P].
           ++ destruct P as (A & B & C & D & F & G). repeat split; try assumption. lia.
           ++ rewrite P in Hp. destruct Hp as [<-|[]]. cbn. repeat split; lia.
      * intros Hle. lia.
    + apply Z.ltb_ge in E.
      assert (Hnone : no_interior_mult f x).
      { destruct Hm as [k ->]. intros j [H1 H2]. apply (no_mult_between f k (k * f) Hf eq_refl j). lia. }
      repeat split; [constructor | constructor; [exact Hnone | constructor] | constructor; [right; reflexivity | constructor]].
Qed.

Lemma pieces_fuel f x : 0 < f ->
  en x - next_mult f (st x) < Z.of_nat (Z.to_nat ((en x - st x) / f + 2)) * f.
Proof.
  intros Hf. pose proof (next_mult_spec f (st x) Hf) as (_ & Hlt & _).
  destruct (Z_lt_le_dec (en x - st x) 0) as [Hneg|Hpos].
  - assert (0 <= Z.of_nat (Z.to_nat ((en x - st x) / f + 2)) * f) by (apply Z.mul_nonneg_nonneg; lia). lia.
  - rewrite Z2Nat.id by (assert (0 <= (en x - st x) / f) by (apply Z.div_pos; lia); lia).
    assert ((en x - st x) / f * f > en x - st x - f) by lia. lia.
Qed.

(* the pieces of one cue *)
Theorem pieces_spec f x : 0 < f ->
  tiles (st x) (en x) (pieces f x) /\
  Forall (no_interior_mult f) (pieces f x) /\
  Forall (fun p => i_lines p = i_lines x /\ i_reg p = i_reg x /\ i_sty p = i_sty x /\ i_inl p = i_inl x) (pieces f x).
Proof.
  intros Hf. unfold pieces.
  pose proof (next_mult_spec f (st x) Hf) as (Hm & Hlt & Hge).
  destruct (pieces_loop_spec f Hf _ x _ Hm Hlt Hge (pieces_fuel f x Hf)) as (T & N & P & _).
  split; [exact T|]. split; [exact N|].
  rewrite Forall_forall in *. intros p Hp. specialize (P p Hp). destruct P as [P|P].
  - tauto.
  - rewrite P in Hp. destruct Hp as [<-|[]]. tauto.
Qed.

(* a cue that strictly contains no multiple of f is left as it was *)
Theorem pieces_untouched f x : 0 < f -> no_interior_mult f x -> pieces f x = [x].
Proof.
  intros Hf Hn. unfold pieces.
  pose proof (next_mult_spec f (st x) Hf) as (Hm & Hlt & Hge).
  destruct (pieces_loop_spec f Hf _ x _ Hm Hlt Hge (pieces_fuel f x Hf)) as (_ & _ & _ & U).
  apply U. destruct Hm as [k Hk]. destruct (Z_lt_le_dec (next_mult f (st x)) (en x)) as [L|G]; [|exact G].
  exfalso. apply (Hn k). lia.
Qed.

(* the cuts are exactly the multiples of f inside the cue: every boundary between two consecutive
   pieces is a multiple of f lying strictly inside, and (by no_interior_mult) none is skipped *)
Inductive boundaries_mult (f : Z) : list item -> Prop :=
| bm_one x : boundaries_mult f [x]
| bm_cons x y r : is_mult f (en x) -> boundaries_mult f (y :: r) -> boundaries_mult f (x :: y :: r).

Lemma pieces_loop_nonnil fuel f x b : pieces_loop fuel f x b <> [].
Proof. destruct fuel; cbn [pieces_loop]; [discriminate|]. destruct (b <? en x); discriminate. Qed.

Lemma pieces_loop_boundaries f : 0 < f -> forall fuel x b, is_mult f b -> boundaries_mult f (pieces_loop fuel f x b).
Proof.
  intros Hf. induction fuel as [|n IH]; intros x b Hm; cbn [pieces_loop]; [constructor|].
  destruct (b <? en x); [|constructor].
  assert (Hm' : is_mult f (b + f)) by (destruct Hm as [k ->]; exists (k + 1); lia).
  specialize (IH (set_st x b) (b + f) Hm').
  destruct (pieces_loop n f (set_st x b) (b + f)) as [|y r] eqn:E.
  - exfalso. exact (pieces_loop_nonnil _ _ _ _ E).
  - constructor; [exact Hm | exact IH].
Qed.

Theorem pieces_boundaries f x : 0 < f -> boundaries_mult f (pieces f x).
Proof.
  intros Hf. unfold pieces. apply pieces_loop_boundaries; [exact Hf|].
  apply (next_mult_spec f (st x) Hf).
Qed.

(* ---- the list level ---- *)
Lemma fragment_eq f l : 0 < f -> fragment f l = order (flat_map (pieces f) l).
Proof. intros Hf. unfold fragment. destruct (f <=? 0) eqn:E; [apply Z.leb_le in E; lia | reflexivity]. Qed.

Theorem fragment_perm f l : 0 < f -> Permutation (flat_map (pieces f) l) (fragment f l).
Proof. intros Hf. rewrite (fragment_eq f l Hf). apply order_perm. Qed.

Theorem fragment_sorted f l : 0 < f -> sorted (fragment f l).
Proof. intros Hf. rewrite (fragment_eq f l Hf). apply order_sorted. Qed.

Theorem fragment_no_interior f l : 0 < f -> Forall (no_interior_mult f) (fragment f l).
Proof.
  intros Hf. eapply Permutation_Forall; [apply (fragment_perm f l Hf)|].
  rewrite Forall_forall. intros p Hp. apply in_flat_map in Hp. destruct Hp as (x & _ & Hp).
  destruct (pieces_spec f x Hf) as (_ & N & _). rewrite Forall_forall in N. auto.
Qed.

Theorem fragment_untouched f l : 0 < f -> sorted l -> Forall (no_interior_mult f) l -> fragment f l = l.
Proof.
  intros Hf Hs Hn. rewrite (fragment_eq f l Hf).
  assert (E : flat_map (pieces f) l = l).
  { induction l as [|x r IH]; [reflexivity|]. cbn [flat_map]. inversion Hn; subst.
    rewrite (pieces_untouched f x Hf) by assumption. cbn [app]. f_equal. apply IH; [|assumption].
    apply sorted_inv in Hs. tauto. }
  rewrite E. apply order_sorted_id. exact Hs.
Qed.

Lemma flat_map_length_sum {A B} (g : A -> list B) l :
  length (flat_map g l) = fold_right (fun x n => (length (g x) + n)%nat) 0%nat l.
Proof. induction l as [|x r IH]; cbn [flat_map fold_right]; [reflexivity|]. rewrite app_length, IH. reflexivity. Qed.

Theorem fragment_length f l : 0 < f ->
  length (fragment f l) = fold_right (fun x n => (length (pieces f x) + n)%nat) 0%nat l.
Proof. intros Hf. rewrite (fragment_eq f l Hf), order_length. apply flat_map_length_sum. Qed.

(* f <= 0 is ignored *)
Lemma fragment_nonpos f l : f <= 0 -> fragment f l = l.
Proof. intros H. unfold fragment. destruct (f <=? 0) eqn:E; [reflexivity | apply Z.leb_gt in E; lia]. Qed.
