(* Line-ending conventions: a list of break-free lines rendered with LF, CR LF or lone CR after every line is cut
   back into exactly those lines by the scanner specification [lines] -- for every list, unbounded. *)
From Coq Require Import List NArith Bool Arith Lia.
From Astisub Require Import Kit.Base Kit.Scan Proofs.ScanProofs.
Import ListNotations.
Local Open Scope N_scope.

Definition brkfree (l : str) : Prop := forallb (fun c => negb (is_brk c)) l = true.
Definition eol_ok (e : str) : Prop := e = [LF] \/ e = [CR; LF] \/ e = [CR].
Definition render_eol (e : str) (ls : list str) : str := concat (map (fun l => l ++ e) ls).

Lemma span_nobrk_app tok rest : brkfree tok -> span_nobrk (tok ++ CR :: rest) = (tok, CR :: rest).
Proof.
  unfold brkfree. induction tok as [|x t IH]; intros H; [reflexivity|].
  cbn [forallb] in H. apply andb_true_iff in H. destruct H as [Hx Ht].
  apply negb_true_iff in Hx. cbn [app span_nobrk]. rewrite Hx, (IH Ht). reflexivity.
Qed.

Lemma lines_cr_end tok : brkfree tok -> lines (tok ++ [CR]) = [tok].
Proof.
  intros H. rewrite (lines_unfold (tok ++ [CR]) tok []); [rewrite lines_nil; reflexivity|].
  rewrite (split_of_span _ _ _ _ (span_nobrk_app tok [] H) (app_cons_nonnil _ _ _)). reflexivity.
Qed.

Lemma render_cons e l ls : render_eol e (l :: ls) = l ++ e ++ render_eol e ls.
Proof. unfold render_eol. cbn [map concat]. rewrite <- app_assoc. reflexivity. Qed.

Lemma render_cr_head ls c r : Forall brkfree ls -> render_eol [CR] ls = c :: r -> c <> LF.
Proof.
  intros HF E. destruct ls as [|l ls']; [discriminate|]. rewrite render_cons in E.
  inversion HF as [|? ? Hl _]; subst. destruct l as [|x t].
  - cbn [app] in E. inversion E; subst. discriminate.
  - cbn [app] in E. inversion E; subst. unfold brkfree in Hl. cbn [forallb] in Hl.
    apply andb_true_iff in Hl. destruct Hl as [Hx _]. apply negb_true_iff in Hx.
    unfold is_brk in Hx. apply orb_false_iff in Hx. destruct Hx as [_ Hx]. apply N.eqb_neq in Hx. exact Hx.
Qed.

Theorem lines_render e ls : eol_ok e -> Forall brkfree ls -> lines (render_eol e ls) = ls.
Proof.
  intros He HF. induction ls as [|l ls' IH]; [apply lines_nil|].
  inversion HF as [|? ? Hl HF']; subst. rewrite render_cons.
  destruct He as [-> | [-> | ->] ].
  - cbn [app]. rewrite (lines_cons_lf l _ Hl). rewrite (IH HF'); reflexivity.
  - cbn [app]. rewrite (lines_cons_crlf l _ Hl). rewrite (IH HF'); reflexivity.
  - cbn [app]. assert (IHs := IH HF'). clear IH. destruct (render_eol [CR] ls') as [|c r] eqn:E.
    + destruct ls' as [|l2 ls2]; [rewrite (lines_cr_end l Hl); reflexivity|].
      rewrite render_cons in E. destruct l2; discriminate.
    + rewrite (lines_cons_cr l c r Hl (render_cr_head ls' c r HF' E)). try rewrite E in IHs.
      rewrite IHs; reflexivity.
Qed.

(* consequence used by the line-based readers: the three conventions give the same token list *)
Corollary lines_eol_independent e e' ls : eol_ok e -> eol_ok e' -> Forall brkfree ls ->
  lines (render_eol e ls) = lines (render_eol e' ls).
Proof. intros H H' HF. rewrite (lines_render e ls H HF), (lines_render e' ls H' HF). reflexivity. Qed.

(* the last line may also be left unterminated *)
Theorem lines_render_unterminated e ls last : eol_ok e -> Forall brkfree ls -> brkfree last -> last <> [] ->
  lines (render_eol e ls ++ last) = ls ++ [last].
Proof.
  intros He HF Hlast Hne. induction ls as [|l ls' IH]; [cbn [render_eol map concat app]; apply lines_last; assumption|].
  inversion HF as [|? ? Hl HF']; subst. rewrite render_cons. rewrite <- !app_assoc.
  assert (Hhd : forall c r, render_eol e ls' ++ last = c :: r -> e = [CR] -> c <> LF).
  { intros c r E ->. destruct (render_eol [CR] ls') as [|c' r'] eqn:E'.
    - cbn [app] in E. destruct last as [|x t]; [contradiction|]. inversion E; subst.
      unfold brkfree in Hlast. cbn [forallb] in Hlast. apply andb_true_iff in Hlast. destruct Hlast as [Hx _].
      apply negb_true_iff in Hx. unfold is_brk in Hx. apply orb_false_iff in Hx. destruct Hx as [_ Hx]. apply N.eqb_neq in Hx. exact Hx.
    - cbn [app] in E. inversion E; subst. exact (render_cr_head ls' c r' HF' E'). }
  destruct He as [-> | [-> | ->] ].
  - cbn [app]. rewrite (lines_cons_lf l _ Hl). rewrite (IH HF'); reflexivity.
  - cbn [app]. rewrite (lines_cons_crlf l _ Hl). rewrite (IH HF'); reflexivity.
  - cbn [app]. assert (IHs := IH HF'). clear IH. destruct (render_eol [CR] ls' ++ last) as [|c r] eqn:E.
    + destruct last; [contradiction|]. destruct (render_eol [CR] ls'); discriminate.
    + rewrite (lines_cons_cr l c r Hl (Hhd c r eq_refl eq_refl)). try rewrite E in IHs.
      rewrite IHs; reflexivity.
Qed.
