(* C03: the time expressions of a rendering (TtmlRender.v): under the boolean side conditions the parser accepts the
   rendered expression and resolves it to the closed form [texpr_time], which denotes the exact instant
   [texpr_exact]; and an instant equal as a fraction is denoted as well.  Assembly of TtmlTime.v, TtmlFloat.v,
   TtmlFloat2.v. *)
From Coq Require Import List ZArith NArith Bool Lia.
From Astisub Require Import Kit.Base Kit.Str Kit.Float64 Kit.Float64x Kit.Xml Model.Dur Model.Ttml
  Proofs.DurProofs Proofs.TtmlSpec Proofs.TtmlTime Proofs.TtmlFloat Proofs.TtmlFloat2 Proofs.TtmlTimeAll
  Proofs.TtmlRender.
Import ListNotations.
Open Scope Z_scope.

(* ---- the boolean conditions as propositions ---- *)
Lemma negb_null_ne (s : str) : negb (null s) = true -> s <> [].
Proof. intros H E. rewrite E in H. discriminate H. Qed.

Lemma field_ok_spec s : field_ok s = true -> digits s /\ s <> [] /\ dval s <= max_int64.
Proof.
  unfold field_ok, digitsb. intros H. rewrite !andb_true_iff in H. destruct H as [[Hd Hn] Hm].
  split; [exact Hd|]. split; [exact (negb_null_ne s Hn) | apply Z.leb_le; exact Hm].
Qed.

Lemma dec_mant_nonneg ip fp : 0 <= dec_mant ip fp.
Proof. unfold dec_mant. destruct (atoi_digits (ip ++ fp)); lia. Qed.

Lemma pow10n_pos fp : 0 < pow10n fp.
Proof. unfold pow10n. apply Z.pow_pos_nonneg; lia. Qed.

(* ---- the three forms, side conditions as propositions ---- *)
Lemma okb_clock fr tr hs ms ss fs : texpr_okb0 fr tr (TClock hs ms ss fs) = true ->
  (digits hs /\ hs <> [] /\ dval hs <= max_int64) /\ (digits ms /\ ms <> [] /\ dval ms <= max_int64) /\
  (digits ss /\ ss <> [] /\ dval ss <= max_int64) /\ digits fs /\ (length fs <= 3)%nat /\ dval fs <= max_int64.
Proof.
  cbn [texpr_okb0]. unfold digitsb. intros H. rewrite !andb_true_iff in H.
  destruct H as [[[[[Hh Hm] Hs] Hf] Hl] Hv].
  repeat split; try (apply field_ok_spec; assumption); try assumption.
  - apply Nat.leb_le. exact Hl.
  - apply Z.leb_le. exact Hv.
Qed.

Lemma okb_clock_frames fr tr hs ms ss fds : texpr_okb0 fr tr (TClockFrames hs ms ss fds) = true ->
  (digits hs /\ hs <> [] /\ dval hs <= max_int64) /\ (digits ms /\ ms <> [] /\ dval ms <= max_int64) /\
  (digits ss /\ ss <> [] /\ dval ss <= max_int64) /\ digits fds /\ fds <> [] /\ dval fds < 2 ^ 53 /\
  0 < fr < 2 ^ 53 /\ dval fds * second_ns < 2 ^ 49 * fr.
Proof.
  cbn [texpr_okb0]. unfold digitsb, two53, two49. intros H. rewrite !andb_true_iff in H.
  destruct H as [[[[[[[[Hh Hm] Hs] Hf] Hn] Hv] Hfr0] Hfr1] Hb].
  apply Z.ltb_lt in Hv. apply Z.ltb_lt in Hfr0. apply Z.ltb_lt in Hfr1. apply Z.ltb_lt in Hb.
  repeat split; try (apply field_ok_spec; assumption); try assumption.
  apply negb_null_ne. exact Hn.
Qed.

(* the rate-dependent part of the condition of an offset in frames or ticks *)
Definition rate_cond (n : Z) (fp : str) (rate : Z) : Prop :=
  n = 0 \/ (0 < rate < 2 ^ 53 /\ n * second_ns < 2 ^ 49 * (pow10n fp * rate)).

Lemma rate_cond_of_bool n fp rate :
  (n =? 0) || ((0 <? rate) && (rate <? two53) && (n * second_ns <? two49 * (pow10n fp * rate))) = true ->
  rate_cond n fp rate.
Proof.
  unfold two53, two49, rate_cond. intros H. apply orb_true_iff in H. destruct H as [H0|H1].
  - left. apply Z.eqb_eq. exact H0.
  - right. rewrite !andb_true_iff in H1. destruct H1 as [[Ha Hb] Hc].
    apply Z.ltb_lt in Ha. apply Z.ltb_lt in Hb. apply Z.ltb_lt in Hc. split; [split|]; assumption.
Qed.

Lemma okb_offset fr tr ip fp m : texpr_okb0 fr tr (TOffset ip fp m) = true ->
  digits ip /\ digits fp /\ ip <> [] /\ 0 <= dec_mant ip fp < 2 ^ 53 /\ (length fp <= 22)%nat /\
  match m with
  | Mf => rate_cond (dec_mant ip fp) fp fr
  | Mt => rate_cond (dec_mant ip fp) fp tr
  | _ => dec_mant ip fp * timebase m < 2 ^ 49 * pow10n fp
  end.
Proof.
  cbn [texpr_okb0]. cbv zeta. unfold digitsb. intros H. rewrite !andb_true_iff in H.
  destruct H as [[[[[Hi Hf] Hn] Hv] Hl] Hm].
  apply Z.ltb_lt in Hv. unfold two53 in Hv. pose proof (dec_mant_nonneg ip fp) as H0.
  split; [exact Hi|]. split; [exact Hf|]. split; [apply negb_null_ne; exact Hn|]. split; [lia|].
  split; [apply Nat.leb_le; exact Hl|].
  destruct m; try (apply rate_cond_of_bool; exact Hm); apply Z.ltb_lt in Hm; unfold two49 in Hm; exact Hm.
Qed.

(* ---- the parser on a rendered expression ---- *)
Lemma two53_le_max z : z < 2 ^ 53 -> z <= max_int64.
Proof. unfold max_int64. lia. Qed.

Lemma texpr_time_some0 fr tr e : texpr_okb0 fr tr e = true ->
  ttml_time (texpr_str e) fr tr = Some (texpr_time fr tr e).
Proof.
  intros Hok. destruct e as [hs ms ss fs | hs ms ss fds | ip fp m].
  - apply okb_clock in Hok.
    destruct Hok as ((Dh & Nh & Mh) & (Dm & Nm & Mm) & (Ds & Ns & Mss) & Df & Lf & Mf).
    cbn [texpr_str texpr_time]. apply clock_time; assumption.
  - apply okb_clock_frames in Hok.
    destruct Hok as ((Dh & Nh & Mh) & (Dm & Nm & Mm) & (Ds & Ns & Mss) & Df & Nf & Vf & Hfr & Hb).
    cbn [texpr_str texpr_time]. apply clock_frames_time; try assumption. apply two53_le_max. exact Vf.
  - apply okb_offset in Hok. destruct Hok as (Di & Df & Ni & Hn & Hl & Hm).
    cbn [texpr_str texpr_time]. rewrite offset_time by assumption. cbv zeta.
    destruct m; try reflexivity.
    + (* frames *)
      destruct (dec_mant ip fp =? 0) eqn:E0.
      * apply Z.eqb_eq in E0. destruct (parse_dec_zero ip fp E0) as [Hp Hz]. rewrite Hp, Hz. reflexivity.
      * apply Z.eqb_neq in E0. destruct Hm as [Hm|[Hfr Hb]]; [contradiction|].
        assert (Hpos : 0 < dec_mant ip fp < 2 ^ 53) by lia.
        rewrite (parse_dec_fpos ip fp Hpos Hl), orb_true_r.
        assert (E : (0 <? fr) = true) by (apply Z.ltb_lt; lia). rewrite E. reflexivity.
    + (* ticks *)
      destruct (dec_mant ip fp =? 0) eqn:E0.
      * apply Z.eqb_eq in E0. destruct (parse_dec_zero ip fp E0) as [Hp Hz]. rewrite Hp, Hz. reflexivity.
      * apply Z.eqb_neq in E0. destruct Hm as [Hm|[Htr Hb]]; [contradiction|].
        assert (Hpos : 0 < dec_mant ip fp < 2 ^ 53) by lia.
        rewrite (parse_dec_fpos ip fp Hpos Hl), orb_true_r.
        assert (E : (0 <? tr) = true) by (apply Z.ltb_lt; lia). rewrite E. reflexivity.
Qed.

Theorem texpr_unmarshal0 : forall fr tr e, texpr_okb0 fr tr e = true ->
  exists d, ttml_unmarshal (texpr_str e) = Some d /\ ttml_duration d fr tr = texpr_time fr tr e.
Proof.
  intros fr tr e Hok. pose proof (texpr_time_some0 fr tr e Hok) as Ht. unfold ttml_time in Ht.
  destruct (ttml_unmarshal (texpr_str e)) as [d|]; [|discriminate Ht].
  exists d. split; [reflexivity|]. injection Ht as Ht. exact Ht.
Qed.

(* ---- what the closed form denotes ---- *)
Lemma denotes_whole x : denotes_instant x x 1.
Proof.
  unfold denotes_instant. split; [intros _; rewrite Z.div_1_r; reflexivity | lia].
Qed.

Lemma denotes_zero d : 0 < d -> denotes_instant 0 0 d.
Proof.
  intros Hd. unfold denotes_instant. split; [intros _; rewrite Z.div_0_l by lia; reflexivity | lia].
Qed.

Lemma denotes_shift h r n d : denotes_instant r n d -> 0 < d -> denotes_instant (h + r) (h * d + n) d.
Proof.
  intros [H1 H2] Hd. unfold denotes_instant. split.
  - intros Hdiv. assert (Hn : (d | n)).
    { apply (Z.divide_add_cancel_r d (h * d) n); [apply Z.divide_factor_r | exact Hdiv]. }
    rewrite Z.div_add_l by lia. rewrite (H1 Hn). reflexivity.
  - replace ((h + r) * d - (h * d + n)) with (r * d - n) by ring. exact H2.
Qed.

Theorem texpr_denotes0 : forall fr tr e, texpr_okb0 fr tr e = true ->
  denotes_instant (texpr_time fr tr e) (fst (texpr_exact fr tr e)) (snd (texpr_exact fr tr e)).
Proof.
  intros fr tr e Hok. destruct e as [hs ms ss fs | hs ms ss fds | ip fp m].
  - cbn [texpr_time texpr_exact fst snd]. apply denotes_whole.
  - apply okb_clock_frames in Hok.
    destruct Hok as (_ & _ & _ & Df & Nf & Vf & Hfr & Hb).
    cbn [texpr_time texpr_exact fst snd]. apply denotes_shift; [|lia].
    pose proof (dval_nonneg fds) as H0.
    destruct (Z.eq_dec (dval fds) 0) as [E0|E0].
    + rewrite E0. cbn [Z.ltb Z.compare andb]. rewrite Z.mul_0_l. apply denotes_zero. lia.
    + assert (E : (0 <? dval fds) && (0 <? fr) = true) by (apply andb_true_iff; split; apply Z.ltb_lt; lia).
      rewrite E. apply frames_term_correct; lia.
  - apply okb_offset in Hok. destruct Hok as (Di & Df & Ni & Hn & Hl & Hm).
    cbn [texpr_time texpr_exact]. cbv zeta. unfold pow10n in *.
    destruct m; cbn [fst snd];
      try (apply offset_term_correct; [tauto | exact Hn | exact Hl | exact Hm]).
    + destruct (dec_mant ip fp =? 0) eqn:E0; cbn [fst snd]; [apply denotes_zero; lia|].
      apply Z.eqb_neq in E0. destruct Hm as [Hm|[Hfr Hb]]; [contradiction|].
      apply frames_val_correct; [lia | exact Hl | exact Hfr | exact Hb].
    + destruct (dec_mant ip fp =? 0) eqn:E0; cbn [fst snd]; [apply denotes_zero; lia|].
      apply Z.eqb_neq in E0. destruct Hm as [Hm|[Htr Hb]]; [contradiction|].
      apply ticks_val_correct; [lia | exact Hl | exact Htr | exact Hb].
Qed.

(* ---- equal fractions are denoted alike ---- *)
Lemma same_instant_spec g x : same_instant g x = true ->
  0 < snd g /\ 0 < snd x /\ fst g * snd x = fst x * snd g.
Proof.
  unfold same_instant. intros H. rewrite !andb_true_iff in H. destruct H as [[Ha Hb] Hc].
  apply Z.ltb_lt in Ha. apply Z.ltb_lt in Hb. apply Z.eqb_eq in Hc. tauto.
Qed.

(* (a) a whole number of ns on one side is the same whole number on the other *)
Lemma frac_whole gn gd xn xd k : 0 < gd -> 0 < xd -> gn * xd = xn * gd -> gn = k * gd -> xn = k * xd.
Proof.
  intros Hg Hx He Hk. subst gn. apply (Z.mul_reg_r _ _ gd); [lia|]. rewrite <- He. ring.
Qed.

(* (b) the error bound carries over *)
Lemma frac_close r gn gd xn xd : 0 < gd -> 0 < xd -> gn * xd = xn * gd ->
  Z.abs (r * xd - xn) < xd -> Z.abs (r * gd - gn) < gd.
Proof.
  intros Hg Hx He Hb.
  assert (Hm : (r * gd - gn) * xd = (r * xd - xn) * gd).
  { replace ((r * gd - gn) * xd) with (r * gd * xd - gn * xd) by ring. rewrite He. ring. }
  assert (Ha : Z.abs (r * gd - gn) * xd = Z.abs (r * xd - xn) * gd).
  { rewrite <- (Z.abs_eq xd) at 1 by lia. rewrite <- (Z.abs_eq gd) at 2 by lia.
    rewrite <- !Z.abs_mul. rewrite Hm. reflexivity. }
  apply (Z.mul_lt_mono_pos_r xd); [exact Hx|]. rewrite Ha. rewrite (Z.mul_comm gd xd).
  apply Z.mul_lt_mono_pos_r; [exact Hg | exact Hb].
Qed.

Theorem denotes_same_instant : forall r g x, same_instant g x = true ->
  denotes_instant r (fst x) (snd x) -> denotes_instant r (fst g) (snd g).
Proof.
  intros r [gn gd] [xn xd] Hs [H1 H2]. apply same_instant_spec in Hs. cbn [fst snd] in *.
  destruct Hs as (Hg & Hx & He). unfold denotes_instant. split.
  - intros [k Hk]. pose proof (frac_whole gn gd xn xd k Hg Hx He Hk) as Hxk.
    assert (Hdiv : (xd | xn)) by (exists k; exact Hxk).
    rewrite (H1 Hdiv). rewrite Hxk, Hk. rewrite !Z.div_mul by lia. reflexivity.
  - apply (frac_close r gn gd xn xd); assumption.
Qed.

Print Assumptions texpr_unmarshal0.
Print Assumptions texpr_denotes0.
Print Assumptions denotes_same_instant.

(* ---- with the int64 bound of [texpr_okb] ---- *)
Lemma texpr_okb_parts fr tr e : texpr_okb fr tr e = true -> texpr_okb0 fr tr e = true /\ (texpr_time fr tr e <= max_int64)%Z.
Proof. unfold texpr_okb. intros H. apply andb_true_iff in H. destruct H as [H0 H1]. split; [exact H0 | apply Z.leb_le; exact H1]. Qed.
Theorem texpr_unmarshal : forall fr tr e, texpr_okb fr tr e = true ->
  exists d, ttml_unmarshal (texpr_str e) = Some d /\ ttml_duration d fr tr = texpr_time fr tr e.
Proof. intros fr tr e H. apply texpr_unmarshal0. exact (proj1 (texpr_okb_parts fr tr e H)). Qed.
Theorem texpr_denotes : forall fr tr e, texpr_okb fr tr e = true ->
  denotes_instant (texpr_time fr tr e) (fst (texpr_exact fr tr e)) (snd (texpr_exact fr tr e)).
Proof. intros fr tr e H. apply texpr_denotes0. exact (proj1 (texpr_okb_parts fr tr e H)). Qed.
Print Assumptions texpr_unmarshal.
