(* C07, styled teletext sources (Model/ConvTtx.v): what the reader returned is written into the destination format and read
   back with the same cues in the same order, times truncated to the destination's unit and, per line, the same text: the
   texts of the runs put together (ttx_to_plain).  SubRip and SSA/ASS: the written bytes are those of the plain document with
   the joined line texts (adjacent unstyled runs cannot be told apart in those formats), then the plain codec theorems;
   TTML: one span per run, the write -> read theorem of the format.  WebVTT and STL in ConvTtxProofs2.v. *)
From Coq Require Import List ZArith NArith Bool Lia.
From Astisub Require Import Kit.Base Kit.Str Model.TtxRow Model.Ttx Model.Plain Model.PlainTtx Model.ConvTtx.
From Astisub Require Import Model.Srt Model.Conv Model.Ssa Model.PlainSsa Model.Ttml Model.PlainTtml Kit.Xml Kit.XmlParse.
From Astisub Require Import Proofs.SrtEscProofs Proofs.SrtProofs Proofs.PlainProofs Proofs.SsaRows Proofs.SsaDoc Proofs.PlainSsaProofs Proofs.TtmlSpec Proofs.TtmlDocSpec Proofs.TtmlBytes.
Import ListNotations.

Lemma with_cues {A} (f : list tcue -> res A) ds cs : ttx_feed 0 ds = Ok cs -> with_ttx_cues f ds = f cs.
Proof. intros H. unfold with_ttx_cues. rewrite H. reflexivity. Qed.

(* ---- SubRip ---- *)
(* The writer puts the runs of a line one after the other, each escaped on its own; a run of the teletext reader carries
   none of the four SubRip attributes, so the bytes are those of the line written as one run whose text is the run
   texts put together -- provided no run text stops in the middle of the two bytes of U+00A0 (0xC2 0xA0), the only
   escaped sequence longer than a byte (run texts of the reader are whole characters). *)
Open Scope N_scope.
Lemma fm_other c X : c <> 38 -> c <> 60 -> c <> 194 -> first_match esc_pairs (c :: X) = None.
Proof.
  intros H1 H2 H3. cbv [esc_pairs first_match prefix nbsp].
  rewrite (proj2 (N.eqb_neq 38 c)) by congruence. rewrite (proj2 (N.eqb_neq 60 c)) by congruence.
  rewrite (proj2 (N.eqb_neq 194 c)) by congruence. reflexivity.
Qed.
Lemma fm_194 d X : d <> 160 -> first_match esc_pairs (194 :: d :: X) = None.
Proof. intros H. cbv [esc_pairs first_match prefix nbsp]. destruct (160 =? d) eqn:E; [apply N.eqb_eq in E; congruence | reflexivity]. Qed.
Lemma last_cons2 {A} (x y : A) l d : last (x :: y :: l) d = last (y :: l) d. Proof. reflexivity. Qed.
Lemma escape_html_app : forall n a b, (length a <= n)%nat -> last a 0 <> 194 -> escape_html (a ++ b) = escape_html a ++ escape_html b.
Proof.
  induction n as [|n IH]; intros a b Hlen Hlast.
  - destruct a; [reflexivity | cbn in Hlen; lia].
  - destruct a as [|c t]; [reflexivity|]. cbn [length] in Hlen.
    assert (Ht : t <> [] -> last t 0 <> 194) by (intros Hne; destruct t; [contradiction | exact Hlast]).
    assert (Ht0 : last t 0 <> 194 \/ (t = [] /\ c <> 194)).
    { destruct t; [right; split; [reflexivity | exact Hlast] | left; exact Hlast]. }
    assert (IHt : escape_html (t ++ b) = escape_html t ++ escape_html b).
    { destruct t as [|d t']; [reflexivity|]. apply IH; [cbn [length] in *; lia | apply Ht; discriminate]. }
    cbn [app]. unfold escape_html in *.
    destruct (N.eq_dec c 38) as [->|N1].
    { rewrite (replace_cons_match esc_pairs 38 (t ++ b) e_amp (t ++ b) esc_pairs_ne eq_refl).
      rewrite (replace_cons_match esc_pairs 38 t e_amp t esc_pairs_ne eq_refl). rewrite IHt, app_assoc. reflexivity. }
    destruct (N.eq_dec c 60) as [->|N2].
    { rewrite (replace_cons_match esc_pairs 60 (t ++ b) e_lt (t ++ b) esc_pairs_ne eq_refl).
      rewrite (replace_cons_match esc_pairs 60 t e_lt t esc_pairs_ne eq_refl). rewrite IHt, app_assoc. reflexivity. }
    destruct (N.eq_dec c 194) as [->|N3].
    { destruct t as [|d t']; [exfalso; apply Hlast; reflexivity|]. cbn [app].
      destruct (N.eq_dec d 160) as [->|N4].
      - rewrite (replace_cons_match esc_pairs 194 (160 :: t' ++ b) e_nbsp (t' ++ b) esc_pairs_ne eq_refl).
        rewrite (replace_cons_match esc_pairs 194 (160 :: t') e_nbsp t' esc_pairs_ne eq_refl).
        assert (E : replace_all esc_pairs (t' ++ b) = replace_all esc_pairs t' ++ replace_all esc_pairs b).
        { destruct t' as [|e t'']; [reflexivity|]. apply (IH (e :: t'') b); [cbn [length] in *; lia|]. exact Hlast. }
        rewrite E, app_assoc. reflexivity.
      - rewrite (replace_cons_nomatch esc_pairs 194 (d :: t' ++ b) (fm_194 d _ N4)).
        rewrite (replace_cons_nomatch esc_pairs 194 (d :: t') (fm_194 d _ N4)). cbn [app] in IHt. rewrite IHt. reflexivity. }
    rewrite (replace_cons_nomatch esc_pairs c (t ++ b) (fm_other c _ N1 N2 N3)).
    rewrite (replace_cons_nomatch esc_pairs c t (fm_other c _ N1 N2 N3)). rewrite IHt. reflexivity.
Qed.
Definition run_whole (r : trunT) : bool := negb (last (tr_text r) 0 =? 194).
Definition runs_whole (cs : list tcue) : bool := forallb (fun c => forallb (forallb run_whole) (c_lines c)) cs.
Lemma line_bytes_joined : forall l : list trunT, forallb run_whole l = true ->
  concat (map run_bytes (map (fun r : trunT => mkSrun (tr_text r) (Some sa0) 0) l)) = escape_html (concat (map (fun r : trunT => tr_text r) l)).
Proof.
  induction l as [|r rest IH]; intros H; [reflexivity|]. cbn [forallb] in H. apply andb_true_iff in H. destruct H as [Hr Hrest].
  cbn [map concat]. rewrite (IH Hrest).
  rewrite (escape_html_app (length (tr_text r)) (tr_text r) _ (le_n _)).
  - f_equal. unfold run_bytes. cbn. rewrite app_nil_r. reflexivity.
  - unfold run_whole in Hr. apply negb_true_iff in Hr. apply N.eqb_neq in Hr. exact Hr.
Qed.
Lemma items_bytes_joined : forall cs k, runs_whole cs = true -> items_bytes k (conv_ttx_srt cs) = items_bytes k (srt_of_plain (ttx_to_plain cs)).
Proof.
  induction cs as [|c r IH]; intros k H; [reflexivity|]. cbn [runs_whole forallb] in H. apply andb_true_iff in H. destruct H as [Hc Hr].
  cbn [conv_ttx_srt ttx_to_plain srt_of_plain map items_bytes si_st si_en si_lines]. fold (conv_ttx_srt r). fold (ttx_to_plain r). fold (srt_of_plain (ttx_to_plain r)).
  rewrite (IH (S k) Hr).
  assert (EL : map line_bytes (map (map (fun r0 : trunT => mkSrun (tr_text r0) (Some sa0) 0)) (c_lines c))
             = map line_bytes (map (fun t => [mkSrun t None 0]) (map (fun runs => concat (map (fun r0 : trunT => tr_text r0) runs)) (c_lines c)))).
  { rewrite !map_map. apply map_ext_in. intros l Hl. rewrite forallb_forall in Hc. specialize (Hc l Hl). unfold line_bytes. f_equal.
    rewrite (line_bytes_joined l Hc). cbn [map concat]. unfold run_bytes. cbn. rewrite !app_nil_r. reflexivity. }
  rewrite EL. reflexivity.
Qed.
Lemma write_srt_joined cs : runs_whole cs = true -> write_srt (conv_ttx_srt cs) = srt_enc (ttx_to_plain cs).
Proof.
  intros H. unfold srt_enc, write_srt. destruct cs as [|c r]; [reflexivity|]. rewrite (items_bytes_joined _ 0%nat H). reflexivity.
Qed.
Close Scope N_scope.
Theorem ttx_to_srt_styled : forall ds cs, ttx_feed 0 ds = Ok cs -> runs_whole cs = true -> srt_plain_ok (ttx_to_plain cs) ->
  exists dst, convert_ttx_srt ds = Ok dst /\ srt_dec dst = Ok (ptrunc 1000000 (ttx_to_plain cs)).
Proof.
  intros ds cs Hf Hw Hok. destruct (srt_plain_faithful _ Hok) as (dst & He & Hd). exists dst. split; [|exact Hd].
  unfold convert_ttx_srt. rewrite (with_cues _ ds cs Hf), (write_srt_joined cs Hw). exact He.
Qed.

(* ---- SSA / ASS ---- *)
(* The writer puts the runs of a line one after the other (override block, then text); a run of the teletext reader has no
   override block, so the bytes are those of the line written as one run whose text is the run texts put together. *)
Lemma item_name_novoice : forall (ls : list aline) n, Forall (fun l => al_voice l = []) ls -> fold_left (fun n l => match al_voice l with [] => n | v => v end) ls n = n.
Proof. induction ls as [|l r IH]; intros n H; [reflexivity|]. inversion H as [|? ? Hl Hr]; subst. cbn [fold_left]. rewrite Hl. apply IH. exact Hr. Qed.
Lemma line_string_joined (l : list trunT) : line_string (mkAline [] (map (fun r : trunT => mkArun (tr_text r) None) l)) = concat (map (fun r : trunT => tr_text r) l).
Proof. unfold line_string. cbn [al_runs]. rewrite map_map. reflexivity. Qed.
Lemma event_of_item_joined (c : tcue) :
  event_of_item (mkAitem (c_st c) (c_en c) None None (map (fun l => mkAline [] (map (fun r : trunT => mkArun (tr_text r) None) l)) (c_lines c))) =
  event_of_item (mkAitem (c_st c) (c_en c) None None (map (fun t => mkAline [] [mkArun t None]) (map (fun runs => concat (map (fun r : trunT => tr_text r) runs)) (c_lines c)))).
Proof.
  unfold event_of_item. cbn [ai_inl ai_end ai_start ai_style ai_lines]. f_equal.
  - unfold item_name. rewrite !item_name_novoice; [reflexivity | |]; apply Forall_forall; intros l Hl; rewrite ?map_map in Hl; apply in_map_iff in Hl;
      destruct Hl as (x & <- & _); reflexivity.
  - unfold item_text_ssa. f_equal. rewrite !map_map. apply map_ext. intros l. rewrite line_string_joined.
    unfold line_string. cbn. rewrite app_nil_r. reflexivity.
Qed.
Lemma events_bytes_joined cs : events_bytes (conv_ttx_ssa cs) = events_bytes (ssa_of_plain (ttx_to_plain cs)).
Proof.
  unfold events_bytes, conv_ttx_ssa, ssa_of_plain, ttx_to_plain. cbn [ad_items]. do 7 f_equal. rewrite !map_map. apply map_ext. intros c0.
  rewrite event_of_item_joined. reflexivity.
Qed.
Lemma write_ssa_joined cs : write_ssa (conv_ttx_ssa cs) [] = ssa_enc (ttx_to_plain cs).
Proof.
  unfold ssa_enc, write_ssa, write_ssa_chunks. rewrite (events_bytes_joined cs). destruct cs; reflexivity.
Qed.
Theorem ttx_to_ssa_styled : forall ds cs, ttx_feed 0 ds = Ok cs -> ssa_plain_ok (ttx_to_plain cs) ->
  exists dst, convert_ttx_ssa ds = Ok dst /\ ssa_dec dst = Ok (ptrunc ssa_unit (ttx_to_plain cs)).
Proof.
  intros ds cs Hf Hok. destruct (ssa_plain_faithful _ Hok) as (dst & He & Hd). exists dst. split; [|exact Hd].
  unfold convert_ttx_ssa. rewrite (with_cues _ ds cs Hf), (write_ssa_joined cs). exact He.
Qed.

(* ---- TTML ---- *)
Lemma ttml_to_plain_written_ttx cs : ttml_to_plain (written_value (conv_ttx_ttml cs)) = ptrunc 1000000 (ttx_to_plain cs).
Proof.
  unfold ttml_to_plain, written_value, conv_ttx_ttml, ttx_to_plain. cbn [td_items]. rewrite !map_map.
  unfold ptrunc. rewrite map_map. apply map_ext. intros c. cbn [written_item ti_st ti_en ti_lines]. unfold trunc_ms, trunc_to.
  f_equal. rewrite map_map. apply map_ext. intros l. unfold ttml_line_text. rewrite map_map. reflexivity.
Qed.
Theorem ttx_to_ttml_styled : forall ds cs, ttx_feed 0 ds = Ok cs -> repr_doc (conv_ttx_ttml cs) = true ->
  exists dst d', convert_ttx_ttml ds = Ok dst /\ read_ttml_bytes dst = Ok d' /\ ttml_to_plain d' = ptrunc 1000000 (ttx_to_plain cs).
Proof.
  intros ds cs Hf Hr. destruct (write_read_bytes (conv_ttx_ttml cs) ttml_default_indent Hr eq_refl) as (b & t & Hw & Hx & Hrd).
  exists b, (written_value (conv_ttx_ttml cs)). split; [unfold convert_ttx_ttml; rewrite (with_cues _ ds cs Hf); exact Hw|].
  split; [unfold read_ttml_bytes; rewrite Hx; exact Hrd | apply ttml_to_plain_written_ttx].
Qed.
