(* ApplyLinearCorrection (C15), additions: every cue's length is scaled by the slope (the intercept cancels, so the
   bound is tighter than twice the bound of one boundary), start <= end and the start order survive at list level,
   and what the model returns on the degenerate quadruple a1 = a2. *)
From Coq Require Import ZArith Reals Lia Lra Psatz Bool List Sorted.
From Flocq Require Import Core BinarySingleNaN.
From Astisub Require Import Kit.Base Kit.Float64 Model.Ops Model.Lin Proofs.FracFloatProofs Proofs.LinProofs
  Proofs.LinListProofs Proofs.OrderProofs.
Import ListNotations.
Open Scope R_scope.

(* the difference of two corrected instants: the truncated intercept is added to both and cancels; what remains is two
   rounded products (1/16 each) and two truncations (< 1 each) *)
Theorem lin_length_slope : forall a1 d1 a2 d2 : Z,
  in_day a1 -> in_day d1 -> in_day a2 -> in_day d2 -> slope_ok a1 d1 a2 d2 ->
  forall t t' : Z, in_day t -> in_day t' ->
  Rabs (IZR (lin a1 d1 a2 d2 t' - lin a1 d1 a2 d2 t) - IZR (t' - t) * slope a1 d1 a2 d2) <= 17 / 8.
Proof.
  intros a1 d1 a2 d2 Ha1 Hd1 Ha2 Hd2 Hs t t' Ht Ht'.
  destruct (lin_a_correct a1 d1 a2 d2 Ha1 Hd1 Ha2 Hd2 Hs) as [Fa [Ba Ea]].
  pose proof (slope_bounds _ _ _ _ Hs) as Sb.
  destruct (mul_err (lin_a a1 d1 a2 d2) (slope a1 d1 a2 d2) t Fa Ba Sb Ea Ht) as [_ [_ [_ Et]]].
  destruct (mul_err (lin_a a1 d1 a2 d2) (slope a1 d1 a2 d2) t' Fa Ba Sb Ea Ht') as [_ [_ [_ Et']]].
  unfold lin.
  replace (to_Z (fmul (lin_a a1 d1 a2 d2) (of_Z t')) + lin_b a1 d1 a2 d2 -
           (to_Z (fmul (lin_a a1 d1 a2 d2) (of_Z t)) + lin_b a1 d1 a2 d2))%Z
    with (to_Z (fmul (lin_a a1 d1 a2 d2) (of_Z t')) - to_Z (fmul (lin_a a1 d1 a2 d2) (of_Z t)))%Z by lia.
  rewrite minus_IZR, 2!to_Z_correct, minus_IZR.
  pose proof (Ztrunc_err (B2R (fmul (lin_a a1 d1 a2 d2) (of_Z t)))) as T1.
  pose proof (Ztrunc_err (B2R (fmul (lin_a a1 d1 a2 d2) (of_Z t')))) as T2.
  apply Rabs_le_inv in Et. apply Rabs_le_inv in Et'.
  apply Rabs_def2 in T1. apply Rabs_def2 in T2.
  apply Rabs_le. lra.
Qed.

(* with the slope spelled out, in whole nanoseconds: within 3 ns (indeed 17/8 ns) of slope * (t' - t) *)
Theorem lin_length : forall a1 d1 a2 d2 t t' : Z,
  in_day a1 -> in_day d1 -> in_day a2 -> in_day d2 -> in_day t -> in_day t' -> a1 <> a2 -> slope_ok a1 d1 a2 d2 ->
  Rabs (IZR (lin a1 d1 a2 d2 t' - lin a1 d1 a2 d2 t) - IZR (t' - t) * IZR (d2 - d1) / IZR (a2 - a1)) <= 3.
Proof.
  intros a1 d1 a2 d2 t t' Ha1 Hd1 Ha2 Hd2 Ht Ht' _ Hs.
  pose proof (lin_length_slope a1 d1 a2 d2 Ha1 Hd1 Ha2 Hd2 Hs t t' Ht Ht') as H. unfold slope in H.
  replace (IZR (t' - t) * IZR (d2 - d1) / IZR (a2 - a1)) with (IZR (t' - t) * (IZR (d2 - d1) / IZR (a2 - a1)))
    by (unfold Rdiv; ring).
  lra.
Qed.

(* a cue of length n comes out with a length between slope*n - 17/8 and slope*n + 17/8, and never negative *)
Corollary lin_length_nonneg : forall a1 d1 a2 d2 t t' : Z,
  in_day a1 -> in_day d1 -> in_day a2 -> in_day d2 -> in_day t -> in_day t' -> a1 <> a2 -> slope_ok a1 d1 a2 d2 ->
  (t <= t')%Z -> (0 <= lin a1 d1 a2 d2 t' - lin a1 d1 a2 d2 t)%Z.
Proof.
  intros a1 d1 a2 d2 t t' Ha1 Hd1 Ha2 Hd2 Ht Ht' Hne Hs Hle.
  pose proof (lin_monotone a1 d1 a2 d2 t t' Ha1 Hd1 Ha2 Hd2 Ht Ht' Hne Hs Hle). lia.
Qed.

(* ---- list level ---- *)
Definition cue_in_day (x : item) : Prop := in_day (st x) /\ in_day (en x).

Section ListLevel.
Variables a1 d1 a2 d2 : Z.
Hypothesis Ha1 : in_day a1.
Hypothesis Hd1 : in_day d1.
Hypothesis Ha2 : in_day a2.
Hypothesis Hd2 : in_day d2.
Hypothesis Hne : a1 <> a2.
Hypothesis Hs : slope_ok a1 d1 a2 d2.

(* every cue, in list order: its length is the old length times the slope, to within 3 ns *)
Theorem linear_correction_lengths l : Forall cue_in_day l ->
  Forall2 (fun x y => Rabs (IZR (en y - st y) - IZR (en x - st x) * IZR (d2 - d1) / IZR (a2 - a1)) <= 3)
          l (linear_correction a1 d1 a2 d2 l).
Proof.
  unfold linear_correction. induction l as [|x r IH]; intros H; cbn [map]; constructor.
  - pose proof (Forall_inv H) as [Hst Hen]. cbn [st en set_st set_en].
    apply lin_length; assumption.
  - apply IH. exact (Forall_inv_tail H).
Qed.

(* start <= end is preserved for every cue (monotonicity applied to both ends) *)
Theorem linear_correction_wf l : Forall cue_in_day l -> Forall (fun x => (st x <= en x)%Z) l ->
  Forall (fun y => (st y <= en y)%Z) (linear_correction a1 d1 a2 d2 l).
Proof.
  unfold linear_correction. intros Hd Hw. rewrite Forall_forall in *. intros y Hy.
  apply in_map_iff in Hy. destruct Hy as (x & <- & Hx). cbn [st en set_st set_en].
  destruct (Hd x Hx) as [Hst Hen]. apply lin_monotone; try assumption. apply Hw. exact Hx.
Qed.

(* zero-length cues stay zero-length *)
Theorem linear_correction_zero_length l :
  Forall2 (fun x y => st x = en x -> st y = en y) l (linear_correction a1 d1 a2 d2 l).
Proof.
  unfold linear_correction. induction l as [|x r IH]; cbn [map]; constructor; [|exact IH].
  cbn [st en set_st set_en]. intros ->. reflexivity.
Qed.

(* a start-ordered list stays start-ordered, an end-ordered list end-ordered (no cue overtakes another) *)
Theorem linear_correction_sorted l : Forall cue_in_day l -> sorted l -> sorted (linear_correction a1 d1 a2 d2 l).
Proof.
  unfold linear_correction. induction l as [|x r IH]; intros Hd Hsrt; cbn [map]; [constructor|].
  apply sorted_inv in Hsrt. destruct Hsrt as [Hr Hx].
  pose proof (Forall_inv Hd) as [Hxs _]. pose proof (Forall_inv_tail Hd) as Hd'.
  constructor; [apply IH; assumption|].
  rewrite Forall_forall in *. intros y Hy. apply in_map_iff in Hy. destruct Hy as (z & <- & Hz).
  cbn [st set_st set_en]. destruct (Hd' z Hz) as [Hzs _]. apply lin_monotone; try assumption. apply Hx. exact Hz.
Qed.

(* cues that do not overlap before do not overlap after: en x <= st y is preserved *)
Theorem linear_correction_no_new_overlap x y : cue_in_day x -> cue_in_day y -> (en x <= st y)%Z ->
  (lin a1 d1 a2 d2 (en x) <= lin a1 d1 a2 d2 (st y))%Z.
Proof. intros [_ Hx] [Hy _] Hle. apply lin_monotone; assumption. Qed.
End ListLevel.

(* ---- the degenerate quadruple a1 = a2 (outside the property's domain) ----
   The model: the slope is x/0, i.e. an infinity or NaN in binary64; every product and the intercept are then
   non-finite, and [to_Z] (Flocq's Btrunc) maps non-finite values to 0: the model returns 0 for every boundary.
   The library converts such a float64 to time.Duration with a Go conversion whose result is implementation-defined
   for values that do not fit (typically the minimal int64 on amd64): the model is NOT claimed to agree there; the
   property asks a1 <> a2. *)
Theorem lin_degenerate : forall a d1 d2 t : Z, lin a d1 a d2 t = 0%Z.
Proof.
  intros a d1 d2 t. unfold lin, lin_b, lin_a, to_Z, fmul, fsub, fdiv. rewrite Z.sub_diag.
  change (of_Z 0) with (B754_zero false : f64).
  destruct (of_Z (d2 - d1)) as [s0|s0| |s0 m0 e0 H0]; destruct (of_Z t) as [s1|s1| |s1 m1 e1 H1];
    destruct (of_Z d1) as [s2|s2| |s2 m2 e2 H2]; destruct (of_Z a) as [s3|s3| |s3 m3 e3 H3];
    cbn [Bdiv Bmult Bminus Bplus Bopp Btrunc xorb]; try reflexivity;
    repeat match goal with |- context [Bool.eqb ?x ?y] => destruct (Bool.eqb x y) end; reflexivity.
Qed.

(* ---- non-vacuity: three cues with text, PAL -> NTSC-film ratio 25/23.976 anchored over one hour ---- *)
Definition ex_cue (u : N) (s e : Z) (t : N) : item := mkItem u s e [mkLine [mkRun [t] None false] []] None None false.
Definition ex_lin : list item :=
  [ex_cue 1 1000000000 3500000000 65; ex_cue 2 3500000000 3500000000 66; ex_cue 3 1800000000000 1802000000000 67].
Example ex_lin_result :
  map (fun x => (uid x, st x, en x, item_text x)) (linear_correction 0 0 3600000000000 3753753753753 ex_lin) =
  [(1%N, 1042709376, 3649482816, [65%N]); (2%N, 3649482816, 3649482816, [66%N]);
   (3%N, 1876876876876, 1878962295628, [67%N])]%Z.
Proof. vm_compute. reflexivity. Qed.
Example ex_lin_hyps : in_day 0 /\ in_day 3600000000000 /\ in_day 3753753753753 /\
  slope_ok 0 0 3600000000000 3753753753753 /\ Forall cue_in_day ex_lin /\ Forall (fun x => (st x <= en x)%Z) ex_lin /\ sorted ex_lin.
Proof.
  assert (D : forall z, (0 <=? z)%Z = true -> (z <=? day)%Z = true -> in_day z).
  { intros z H1 H2. split; apply Z.leb_le; assumption. }
  split; [apply D; reflexivity|]. split; [apply D; reflexivity|]. split; [apply D; reflexivity|].
  split. { left. split; [reflexivity | split; apply Z.leb_le; reflexivity]. }
  unfold ex_lin, ex_cue, cue_in_day, sorted.
  split. { repeat (constructor; [cbn [st en]; split; apply D; reflexivity|]). constructor. }
  split. { repeat (constructor; [cbn [st en]; apply Z.leb_le; reflexivity|]). constructor. }
  repeat (constructor; [|repeat (constructor; [cbn [st]; apply Z.leb_le; reflexivity|]); constructor]). constructor.
Qed.
Example ex_lin_degenerate : lin 5 7 5 9 1000 = 0%Z /\ lin 5 7 5 7 0 = 0%Z.
Proof. split; apply lin_degenerate. Qed.
