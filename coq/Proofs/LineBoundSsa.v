(* The scanner's line limit composed with the SSA/ASS theorems (second audit, item N3; generic part: Proofs/LineBound.v).

   C04_write_read, C04_rewrite (and the _any_order variants), C04_read_rendered, C04_read_sections_all, C04_write_denotes
   are stated on the unbounded line splitter; ReadFromSSA reads through bufio.Scanner with the default limit and refuses a
   line of 65536 bytes or more (an event row is one line: "Dialogue: " + the cells + the whole text with its \N breaks).
   [write_read_ssa_within], [write_read_ssa_any_order_within]   the round trip through the limit-aware reader, every schedule;
   [write_read_ssa_exact]         the writer's bytes are read back iff no written line ([doc_lines d]) has [max] bytes or more;
                                  otherwise an error, for every schedule;
   [rewrite_ssa_within], [rewrite_ssa_any_order_within]   write, read through the limit-aware reader, write again: the same
                                  bytes (so that the second file is read under the limit exactly as the first);
   [read_rendered_ssa_within], [read_sections_all_ssa_within], [read_ssa_lim_eol]   every rendering, line end, schedule;
   [ssa_doc_lines_within], [ssa_events_within], [event_row_length]   the bound on [doc_lines d] from its three blocks; an
                                  event row is bounded by 10 + the cell lengths + one comma each;
   [ssa_needs_line_bound], [ssa_line_bound_sharp_128], [ssa_real_line_bound]   the bound is needed and sharp. *)
From Coq Require Import List ZArith NArith Bool Arith Lia Permutation.
From Astisub Require Import Kit.Base Kit.Str Kit.Scan Kit.ScanLim Model.Dur Model.Ssa.
From Astisub Require Import Proofs.ScanLimProofs Proofs.EolProofs Proofs.SrtProofs Proofs.LineBound.
From Astisub Require Import Proofs.SsaFields Proofs.SsaText.
From Astisub Require Import Proofs.SsaRows Proofs.SsaInfo Proofs.SsaStyles Proofs.SsaEvents Proofs.SsaDoc Proofs.SsaOrder Proofs.SsaRepr
  Proofs.SsaRead Proofs.SsaReadAny Proofs.SsaWriteRender Proofs.SsaReadAll.
Import ListNotations.

(* ---- the round trip, hypothesis on the written bytes ---- *)
Theorem write_read_ssa_within max d : (0 < max)%nat -> doc_repr d ->
  forall data, write_ssa d (style_keys d) = Ok data -> lines_within max (lines data) ->
  forall counts, read_ssa_lim max data counts = Ok (canon_doc d).
Proof.
  intros Hmax Hr data Hw HW counts. destruct (write_read d Hr) as (data' & Hw' & Hrd).
  rewrite Hw in Hw'. inversion Hw'; subst data'.
  rewrite (proj2 (proj2 (read_lim_lines max data counts Hmax HW))). exact Hrd.
Qed.
Theorem write_read_ssa_any_order_within max d order : (0 < max)%nat -> doc_repr d -> Permutation order (style_keys d) ->
  forall data, write_ssa d order = Ok data -> lines_within max (lines data) ->
  forall counts, read_ssa_lim max data counts = Ok (canon_doc d).
Proof.
  intros Hmax Hr P data Hw. rewrite (write_order_independent d _ _ P) in Hw. exact (write_read_ssa_within max d Hmax Hr data Hw).
Qed.

(* what the reader makes of the written lines *)
Lemma read_doc_lines d : doc_repr d -> read_ssa_lines (doc_lines d) false = Ok (canon_doc d).
Proof.
  intros Hr. destruct (write_read d Hr) as (data & Hw & Hrd). pose proof Hr as (Hs & _ & Hne & _).
  rewrite (write_lines d Hs Hne) in Hw. inversion Hw; subst data. unfold read_ssa in Hrd.
  rewrite (lines_render [10%N] (doc_lines d) (or_introl eq_refl) (doc_lines_brkfree d Hr)) in Hrd. exact Hrd.
Qed.

(* ---- THE EXACT STATEMENT FOR THE WRITER'S BYTES ---- *)
Theorem write_read_ssa_exact max d : (0 < max)%nat -> doc_repr d ->
  exists data, write_ssa d (style_keys d) = Ok data /\
    (lines_within_lf max (doc_lines d) -> forall counts, read_ssa_lim max data counts = Ok (canon_doc d)) /\
    (line_beyond_lf max (doc_lines d) -> forall counts, exists k, read_ssa_lim max data counts = Err k).
Proof.
  intros Hmax Hr. pose proof Hr as (Hs & _ & Hne & _). eexists. split; [apply write_lines; assumption|].
  pose proof (doc_lines_brkfree d Hr) as HB. split.
  - intros HW counts. change [10%N] with [LF]. rewrite (proj2 (proj2 (read_lim_render_lf max _ counts Hmax HB HW))).
    apply read_doc_lines. exact Hr.
  - intros HE counts. change [10%N] with [LF]. exact (proj2 (proj2 (read_lim_render_lf_beyond max _ counts HB HE))).
Qed.
(* the refusal needs no representability beyond what makes the writer's bytes these lines *)
Theorem write_ssa_beyond max d : styles_repr (ad_styles d) (doc_styles d) -> ad_items d <> [] ->
  Forall brkfree (doc_lines d) -> line_beyond_lf max (doc_lines d) ->
  exists data, write_ssa d (style_keys d) = Ok data /\ forall counts, exists k, read_ssa_lim max data counts = Err k.
Proof.
  intros Hs Hne HB HE. eexists. split; [apply write_lines; assumption|]. intros counts.
  change [10%N] with [LF]. exact (proj2 (proj2 (read_lim_render_lf_beyond max _ counts HB HE))).
Qed.

(* ---- the second write: the document the limit-aware reader returns is written to the same bytes ---- *)
Theorem rewrite_ssa_within max d : (0 < max)%nat -> doc_repr d -> lines_within_lf max (doc_lines d) ->
  exists data d', write_ssa d (style_keys d) = Ok data /\
                  (forall counts, read_ssa_lim max data counts = Ok d') /\
                  write_ssa d' (style_keys d') = Ok data.
Proof.
  intros Hmax Hr HW. destruct (write_read_ssa_exact max d Hmax Hr) as (data & Hw & Hin & _).
  destruct (rewrite_same d Hr) as (data' & d' & Hw' & Hrd & Hw2). rewrite Hw in Hw'. inversion Hw'; subst data'.
  destruct (write_read d Hr) as (data'' & Hw'' & Hrd''). rewrite Hw in Hw''. inversion Hw''; subst data''.
  rewrite Hrd in Hrd''. inversion Hrd''; subst d'.
  exists data, (canon_doc d). split; [exact Hw|]. split; [exact (Hin HW) | exact Hw2].
Qed.
Theorem rewrite_ssa_any_order_within max d order : (0 < max)%nat -> doc_repr d -> Permutation order (style_keys d) ->
  lines_within_lf max (doc_lines d) ->
  exists data d', write_ssa d order = Ok data /\
                  (forall counts, read_ssa_lim max data counts = Ok d') /\
                  (forall order', Permutation order' (style_keys d') -> write_ssa d' order' = Ok data).
Proof.
  intros Hmax Hr P HW. destruct (rewrite_ssa_within max d Hmax Hr HW) as (data & d' & Hw & Hrd & Hw2). exists data, d'.
  split; [rewrite (write_order_independent d _ _ P); exact Hw|]. split; [exact Hrd|].
  intros order' P'. rewrite (write_order_independent d' _ _ P'). exact Hw2.
Qed.

(* ---- every rendering, every line-end convention, every schedule ----
   the lines are free of line breaks: a hypothesis, as in C04_eol (a cell may hold a carriage return, which is then a line
   break and not part of the row) *)
Theorem read_ssa_lim_eol max e ls counts : (0 < max)%nat -> eol_ok e -> Forall brkfree ls -> lines_within max ls ->
  read_ssa_lim max (render_eol e ls) counts = read_ssa_lines ls false.
Proof. intros Hmax He HB HW. exact (proj2 (proj2 (read_lim_render max e ls counts Hmax He HB HW))). Qed.

Theorem read_rendered_ssa_within max e hi b keys styles he fe erows scols ecols : (0 < max)%nat -> eol_ok e ->
  section_hdr true hi SInfo -> info_ok b -> (forall f, In f keys) ->
  match styles with
  | Some (hs, fs, srows) => section_hdr false hs SStyles /\ format_value fs scols /\ scols <> [] /\
                            Forall (fun p : list str * astyle => style_row scols (fst p) (snd p)) srows
  | None => True
  end ->
  section_hdr false he SEvents -> format_value fe ecols -> ecols <> [] ->
  Forall (fun p : (list str * str) * aevent => event_row ecols (fst (fst p)) (snd (fst p)) (snd p)) erows ->
  Forall brkfree (rendered_lines hi b keys styles he fe erows) -> lines_within max (rendered_lines hi b keys styles he fe erows) ->
  let sts := match styles with Some (_, _, srows) => map snd srows | None => [] end in
  forall counts, read_ssa_lim max (render_eol e (rendered_lines hi b keys styles he fe erows)) counts =
    Ok (mkAdoc (Some b) (styles_map sts) (map (fun ev => event_item ev (styles_map sts)) (map snd erows))).
Proof.
  intros Hmax He H1 H2 H3 H4 H5 H6 H7 H8 HB HW sts counts. rewrite (read_ssa_lim_eol max e _ counts Hmax He HB HW).
  exact (read_rendered hi b keys styles he fe erows scols ecols false H1 H2 H3 H4 H5 H6 H7 H8).
Qed.

Theorem read_sections_all_ssa_within max e b pre secs : (0 < max)%nat -> eol_ok e -> info_ok b -> adoc_ok pre secs ->
  comments_of (adoc_entries pre secs) = an_comments b -> (forall f, In (IK f) (adoc_entries pre secs)) ->
  Forall brkfree (adoc_lines b pre secs) -> lines_within max (adoc_lines b pre secs) ->
  let sts := flat_map asec_styles secs in
  forall counts, read_ssa_lim max (render_eol e (adoc_lines b pre secs)) counts =
    Ok (mkAdoc (Some b) (styles_map sts)
               (map (fun ev => event_item ev (styles_map sts)) (filter is_dialogue (flat_map asec_events secs)))).
Proof.
  intros Hmax He H1 H2 H3 H4 HB HW sts counts. rewrite (read_ssa_lim_eol max e _ counts Hmax He HB HW).
  exact (read_sections_all b pre secs false H1 H2 H3 H4).
Qed.

(* ---- the bound on the written lines, block by block ---- *)
Theorem ssa_doc_lines_within max d : lines_within max (info_lines (canon_info d)) ->
  (ad_styles d = [] \/ lines_within max (styles_lines (is_v4plus d) (doc_styles d))) ->
  lines_within max (events_lines (is_v4plus d) (ad_items d)) -> lines_within max (doc_lines d).
Proof.
  intros Hi Hs He. unfold doc_lines. apply lines_within_app. split; [exact Hi|]. apply lines_within_app. split; [|exact He].
  destruct Hs as [-> | Hs]; [constructor|]. destruct (ad_styles d); [constructor | exact Hs].
Qed.

Lemma join_length_le sep : forall l, (length (join sep l) <= list_sum (map (@length byte) l) + length sep * length l)%nat.
Proof.
  induction l as [|x r IH]; [cbn; lia|]. destruct r as [|y r'].
  - cbn [join map list_sum fold_right length]. lia.
  - change (join sep (x :: y :: r')) with (x ++ sep ++ join sep (y :: r')). rewrite !app_length.
    cbn [map list_sum fold_right length] in *. lia.
Qed.
(* one event row: "Dialogue: " (10 bytes), the cells, one comma between two cells *)
Definition ssa_row_len (v4p : bool) (i : aitem) : nat :=
  (10 + list_sum (map (fun a => length (event_cell_string a (event_of_item i))) (event_format v4p)) + length (event_format v4p))%nat.
Lemma event_row_length v4p i :
  (length (n_dialogue_pfx ++ event_string (event_of_item i) (event_format v4p)) <= ssa_row_len v4p i)%nat.
Proof.
  unfold ssa_row_len, event_string. rewrite app_length. change (length n_dialogue_pfx) with 10%nat.
  pose proof (join_length_le [comma] (map (fun a => event_cell_string a (event_of_item i)) (event_format v4p))) as H.
  rewrite map_map, map_length in H. cbn [length] in H. lia.
Qed.
Theorem ssa_events_within max v4p items : (82 <= max)%nat -> Forall (fun i => (ssa_row_len v4p i + 2 <= max)%nat) items ->
  lines_within max (events_lines v4p items).
Proof.
  intros Hmax HF. unfold events_lines. apply lines_within_app. split.
  - destruct v4p; repeat constructor; vm_compute; lia.
  - unfold lines_within. rewrite Forall_map. revert HF. apply Forall_impl. intros i Hi. pose proof (event_row_length v4p i). lia.
Qed.

(* ================= the bound is needed, and sharp ================= *)
(* no script info, no styles, one event with one line of n letters a: the row is "Dialogue: Marked=0,00:00:01.00,00:00:02.00,,,0,0,0,,"
   (52 bytes) followed by the text; the Format line has 80 bytes *)
Definition a_adoc (n : N) : adoc :=
  mkAdoc None [] [mkAitem 1000000000%Z 2000000000%Z None None [mkAline [] [mkArun (a_line n) None]]].
Definition ssa_bytes (d : adoc) : str := match write_ssa d (style_keys d) with Ok x => x | _ => [] end.

Lemma a_adoc_repr_128 : doc_repr (a_adoc 74) /\ doc_repr (a_adoc 75) /\ doc_repr (a_adoc 76).
Proof. split; [|split]; apply doc_reprb_ok; vm_compute; reflexivity. Qed.

(* a_adoc n is representable for every n > 0 (the boolean check is quadratic in n by computation: proved instead) *)
Lemma a_item_text t : item_text_ssa [mkAline [] [mkArun t None]] = t.
Proof. unfold item_text_ssa, line_string, run_string. cbn [map join al_runs ar_eff ar_text concat app]. apply app_nil_r. Qed.

Lemma a_adoc_repr n : (0 < n)%N -> doc_repr (a_adoc n).
Proof.
  intros Hn. assert (Ht : trim_space (a_line n) = a_line n) by (apply SrtProofs.trim_space_all_plain, a_line_plain).
  assert (Hne : a_line n <> []) by (apply a_line_nonnil; exact Hn).
  split; [|split; [|split]].
  - split; [reflexivity|]. split; [constructor|]. split; [reflexivity | constructor].
  - apply info_okb_ok. vm_compute. reflexivity.
  - discriminate.
  - constructor; [|constructor]. split; [|split; [exact I | split; [discriminate|]]].
    + unfold event_repr, event_ok, event_of_item. cbn [ai_inl ai_lines ai_start ai_end ai_style ae_effect ae_layer ae_marked ae_ml ae_mr ae_mv
        av_start av_end av_layer av_ml av_mr av_mv av_effect av_name av_style av_text].
      rewrite a_item_text. unfold int_ok, oz, max_int64, item_name. cbn [fold_left al_voice].
      repeat split; try lia; try (intros []); try exact Ht; try exact (nobrk_repeat _).
    + constructor; [|constructor]. unfold line_ok, runs_ok, no_nl, text_ok, line_string, run_string.
      cbn [al_runs ar_eff ar_text map concat app]. rewrite app_nil_r.
      split; [|split; [split|exact Ht]].
      * split; [constructor|]. right. split; [reflexivity|]. split; [|left; exact Hne].
        split; apply a_line_not_in; discriminate.
      * apply SrtProofs.contains_none. apply a_line_not_in. discriminate.
      * apply SrtProofs.contains_none. apply a_line_not_in. discriminate.
Qed.

(* the lines written for it: [Script Info], an empty line, [Events], the Format line (80 bytes), the row = 52 bytes + the text *)
Definition aitem1 (t : str) : aitem := mkAitem 1000000000%Z 2000000000%Z None None [mkAline [] [mkArun t None]].
Definition row_pfx : str := Eval vm_compute in (n_dialogue_pfx ++ event_string (event_of_item (aitem1 [])) (event_format false)).
Lemma join_snoc1 sep : forall l x, l <> [] -> join sep (l ++ [x]) = join sep l ++ sep ++ x.
Proof.
  induction l as [|a l IH]; intros x Hne; [contradiction|]. destruct l as [|b l']; [reflexivity|].
  change (join sep ((a :: b :: l') ++ [x])) with (a ++ sep ++ join sep ((b :: l') ++ [x])).
  rewrite (IH x ltac:(discriminate)). change (join sep (a :: b :: l')) with (a ++ sep ++ join sep (b :: l')).
  rewrite <- !app_assoc. reflexivity.
Qed.
Lemma a_row t : n_dialogue_pfx ++ event_string (event_of_item (aitem1 t)) (event_format false) = row_pfx ++ t.
Proof.
  unfold event_string. rewrite event_format_init, map_app. cbn [map]. rewrite join_snoc1 by discriminate.
  cbn [event_cell_string]. unfold event_of_item at 2. cbn [aitem1 ai_lines av_text]. rewrite a_item_text.
  rewrite !app_assoc. f_equal; try (vm_compute; reflexivity).
Qed.
Lemma a_adoc_lines n : exists pre, doc_lines (a_adoc n) = pre ++ [row_pfx ++ a_line n] /\ map (@length byte) pre = [13; 0; 8; 80]%nat.
Proof.
  exists (info_lines ainfo0 ++ [[]; n_events_hdr; n_format_pfx ++ join comma_sp (map eattr_name (event_format false))]).
  split; [|vm_compute; reflexivity].
  unfold doc_lines, events_lines. change (is_v4plus (a_adoc n)) with false. change (canon_info (a_adoc n)) with ainfo0.
  cbn [a_adoc ad_styles ad_items map app]. change (mkAitem 1000000000 2000000000 None None [mkAline [] [mkArun (a_line n) None]]) with (aitem1 (a_line n)).
  rewrite a_row, <- app_assoc. reflexivity.
Qed.
Lemma row_pfx_length : length row_pfx = 52%nat. Proof. reflexivity. Qed.

(* FOR EVERY BUFFER SIZE above the Format line and every schedule: a row of 52 + n bytes is read back iff 52 + n + 1 <= max *)
Theorem ssa_line_bound_sharp max n : (81 <= max)%nat -> (0 < n)%N ->
  doc_repr (a_adoc n) /\
  exists data, write_ssa (a_adoc n) (style_keys (a_adoc n)) = Ok data /\ read_ssa data = Ok (canon_doc (a_adoc n)) /\
    ((52 + N.to_nat n + 1 <= max)%nat -> forall counts, read_ssa_lim max data counts = Ok (canon_doc (a_adoc n))) /\
    ((max < 52 + N.to_nat n + 1)%nat -> forall counts, exists k, read_ssa_lim max data counts = Err k).
Proof.
  intros Hmax Hn. pose proof (a_adoc_repr n Hn) as Hr. split; [exact Hr|].
  destruct (write_read_ssa_exact max _ ltac:(lia) Hr) as (data & Hw & Hin & Hout).
  destruct (write_read _ Hr) as (data' & Hw' & Hrd). rewrite Hw in Hw'. inversion Hw'; subst data'.
  destruct (a_adoc_lines n) as (pre & E & Lp). rewrite E in Hin, Hout.
  exists data. split; [exact Hw|]. split; [exact Hrd|].
  destruct pre as [|p1 [|p2 [|p3 [|p4 [|p5 pre']]]]]; try discriminate Lp. cbn [map] in Lp. injection Lp as L1 L2 L3 L4. split.
  - intros Hle. apply Hin. cbn [app]. repeat constructor; rewrite ?L1, ?L2, ?L3, ?L4, ?app_length, ?row_pfx_length, ?a_line_length; lia.
  - intros Hgt. apply Hout. cbn [app]. do 4 right. left. rewrite app_length, row_pfx_length, a_line_length. exact Hgt.
Qed.

(* the real constant: a row of 65535 bytes is read back, one of 65536 bytes is refused (both for every schedule); the
   document with the row of 65536 bytes satisfies every hypothesis of C04_write_read *)
Theorem ssa_real_line_bound_full :
  doc_repr (a_adoc 65484) /\
  (exists data, write_ssa (a_adoc 65483) (style_keys (a_adoc 65483)) = Ok data /\
     forall counts, read_ssa_lim max_scan_token data counts = Ok (canon_doc (a_adoc 65483))) /\
  (exists data, write_ssa (a_adoc 65484) (style_keys (a_adoc 65484)) = Ok data /\ read_ssa data = Ok (canon_doc (a_adoc 65484)) /\
     forall counts, exists k, read_ssa_lim max_scan_token data counts = Err k).
Proof.
  split; [apply a_adoc_repr; reflexivity|]. split.
  - destruct (ssa_line_bound_sharp max_scan_token 65483 ltac:(unfold max_scan_token; lia) eq_refl) as (_ & data & Hw & _ & Hin & _).
    exists data. split; [exact Hw|]. apply Hin. unfold max_scan_token. lia.
  - destruct (ssa_line_bound_sharp max_scan_token 65484 ltac:(unfold max_scan_token; lia) eq_refl) as (_ & data & Hw & Hrd & _ & Hout).
    exists data. split; [exact Hw|]. split; [exact Hrd|]. apply Hout. unfold max_scan_token. lia.
Qed.

(* FOR EVERY SCHEDULE (through the exact theorem), buffer of 128 bytes: a row of 127 bytes (75 letters) is read back, a row
   of 128 bytes (76 letters) is refused, and the unbounded splitter of C04_write_read returns the item *)
Theorem ssa_line_bound_sharp_128 :
  (exists data, write_ssa (a_adoc 75) (style_keys (a_adoc 75)) = Ok data /\
     forall counts, read_ssa_lim 128 data counts = Ok (canon_doc (a_adoc 75))) /\
  (exists data, write_ssa (a_adoc 76) (style_keys (a_adoc 76)) = Ok data /\ read_ssa data = Ok (canon_doc (a_adoc 76)) /\
     forall counts, exists k, read_ssa_lim 128 data counts = Err k).
Proof.
  destruct a_adoc_repr_128 as (_ & R75 & R76). split.
  - destruct (write_read_ssa_exact 128 _ ltac:(lia) R75) as (data & Hw & Hin & _). exists data. split; [exact Hw|].
    apply Hin. apply lines_within_lfb_ok. vm_compute. reflexivity.
  - destruct (write_read_ssa_exact 128 _ ltac:(lia) R76) as (data & Hw & _ & Hout).
    destruct (write_read _ R76) as (data' & Hw' & Hrd). rewrite Hw in Hw'. inversion Hw'; subst data'.
    exists data. split; [exact Hw|]. split; [exact Hrd|]. apply Hout. apply lines_within_lfb_false. vm_compute. reflexivity.
Qed.

(* the same by computation, with the error returned; 75 letters pass with LF and fail with CR LF *)
Example ssa_needs_line_bound :
  map (@length byte) (lines (ssa_bytes (a_adoc 76))) = [13; 0; 8; 80; 128]%nat /\
  read_ssa (ssa_bytes (a_adoc 76)) = Ok (canon_doc (a_adoc 76)) /\
  read_ssa_lim 128 (ssa_bytes (a_adoc 76)) [] = Err EIO /\
  read_ssa_lim 128 (ssa_bytes (a_adoc 76)) [7%nat; 0%nat; 100%nat] = Err EIO /\
  lines_withinb 128 (lines (ssa_bytes (a_adoc 74))) = true /\
  read_ssa_lim 128 (ssa_bytes (a_adoc 74)) [7%nat; 0%nat; 100%nat] = Ok (canon_doc (a_adoc 74)) /\
  lines_withinb 128 (lines (ssa_bytes (a_adoc 75))) = false /\
  read_ssa_lim 128 (ssa_bytes (a_adoc 75)) [7%nat; 0%nat; 100%nat] = Ok (canon_doc (a_adoc 75)) /\
  read_ssa_lim 128 (render_eol [CR; LF] (lines (ssa_bytes (a_adoc 75)))) [7%nat; 0%nat; 100%nat] = Err EIO /\
  read_ssa (render_eol [CR; LF] (lines (ssa_bytes (a_adoc 75)))) = Ok (canon_doc (a_adoc 75)).
Proof. vm_compute. repeat split; reflexivity. Qed.

(* the real constant: 65484 letters make a row of 65536 bytes, refused under every schedule.  (That a_adoc n is
   representable is checked by computation for the small sizes above only: the check is quadratic in the line length.) *)
Theorem ssa_real_line_bound :
  exists data, write_ssa (a_adoc 65484) (style_keys (a_adoc 65484)) = Ok data /\
    forall counts, exists k, read_ssa_lim max_scan_token data counts = Err k.
Proof.
  apply write_ssa_beyond.
  - split; [reflexivity|]. split; [constructor|]. split; [reflexivity | constructor].
  - discriminate.
  - apply Forall_forall. intros l Hl. assert (H : forallb (fun l => forallb (fun c => negb (is_brk c)) l) (doc_lines (a_adoc 65484)) = true) by (vm_compute; reflexivity).
    rewrite forallb_forall in H. exact (H l Hl).
  - apply lines_within_lfb_false. vm_compute. reflexivity.
Qed.
Example ssa_real_line_bound_computed :
  map (fun l => N.of_nat (length l)) (lines (ssa_bytes (a_adoc 65484))) = [13; 0; 8; 80; 65536]%N /\
  read_ssa_lim max_scan_token (ssa_bytes (a_adoc 65484)) [] = Err EIO /\
  read_ssa_lim max_scan_token (ssa_bytes (a_adoc 65484)) [max_scan_token; 0%nat] = Err EIO.
Proof. vm_compute. repeat split; reflexivity. Qed.
