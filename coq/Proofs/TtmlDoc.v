(* C03: a representable document value written by WriteToTTML (with any blank indentation) is read back by
   ReadFromTTML as the value it denotes.  Parts A (attributes, integers, maps) and B (headers, paragraphs)
   are in TtmlDocA.v / TtmlDocB.v; here: navigation in the written tree, indentation, assembly. *)
From Coq Require Import List ZArith NArith Bool Lia ZifyBool ZifyN ZifyNat.
From Astisub Require Import Kit.Base Kit.Str Kit.Xml Kit.SortOrd Model.Dur Model.Ttml
  Proofs.DurProofs Proofs.TtmlSpec Proofs.TtmlTime Proofs.TtmlLines Proofs.TtmlDocSpec Proofs.TtmlDocA Proofs.TtmlDocB.
Import ListNotations.
Open Scope N_scope.

(* ================= list helpers ================= *)
Lemma flat_map_map {A B C} (f : B -> list C) (g : A -> B) l : flat_map f (map g l) = flat_map (fun x => f (g x)) l.
Proof. induction l as [|x l IH]; [reflexivity|]. cbn [map flat_map]. rewrite IH. reflexivity. Qed.
Lemma map_flat_map {A B C} (f : B -> C) (g : A -> list B) l : map f (flat_map g l) = flat_map (fun x => map f (g x)) l.
Proof. induction l as [|x l IH]; [reflexivity|]. cbn [flat_map]. rewrite map_app, IH. reflexivity. Qed.
Lemma kids_named_app l a b : kids_named l (a ++ b) = kids_named l a ++ kids_named l b.
Proof. unfold kids_named. apply filter_app. Qed.
Lemma map_res_map_ok {A B C} (f : B -> res C) (g : A -> B) (h : A -> C) l :
  (forall a, In a l -> f (g a) = Ok (h a)) -> map_res f (map g l) = Ok (map h l).
Proof.
  induction l as [|a r IH]; intros H; [reflexivity|].
  cbn [map_res map]. rewrite (H a (or_introl eq_refl)). cbn [bind].
  rewrite IH by (intros x Hx; apply H; right; exact Hx). reflexivity.
Qed.
Lemma map_id_in {A} (f : A -> A) l : (forall a, In a l -> f a = a) -> map f l = l.
Proof.
  induction l as [|a r IH]; intros H; [reflexivity|]. cbn [map].
  rewrite (H a (or_introl eq_refl)), IH by (intros x Hx; apply H; right; exact Hx). reflexivity.
Qed.
Lemma forallb_In {A} (P : A -> bool) l x : forallb P l = true -> In x l -> P x = true.
Proof. intros H Hin. rewrite forallb_forall in H. exact (H x Hin). Qed.
Lemma filter_In_sub {A} (P : A -> bool) l x : In x (filter P l) -> In x l.
Proof. intros H. apply filter_In in H. tauto. Qed.

(* ================= the written tree ================= *)
Definition md_of (m : option tmeta) : list xnode :=
  match m with
  | Some m =>
    elem_if (negb (null (tm_copyright m) && null (tm_title m)))
            (XElem (nm ns_ttml s_metadata) []
                   (elem_if (negb (null (tm_copyright m))) (XElem (nm ns_ttm s_copyright) [] [XText (tm_copyright m)])
                    ++ elem_if (negb (null (tm_title m))) (XElem (nm ns_ttm s_title) [] [XText (tm_title m)])))
  | None => []
  end.
Definition lang_code (m : option tmeta) : option str :=
  match m with Some m => map_get_inv (tm_lang m) lang_table | None => None end.
Definition root_attrs (lang : option str) : list xattr :=
  [(nm [] s_xmlns, ns_ttml)] ++ opt_attr ns_xml s_lang lang ++ [(nm s_xmlns s_ttm, ns_ttm); (nm s_xmlns s_tts, ns_tts)].
Definition skel (md sty lay ps : list xnode) : list xnode :=
  [XElem (nm ns_ttml s_head) [] (md ++ [XElem (nm ns_ttml s_styling) [] sty; XElem (nm ns_ttml s_layout) [] lay]);
   XElem (nm ns_ttml s_body) [] [XElem (nm ns_ttml s_div) [] ps]].
Definition headers (el : str) (m : list (str * tstyle)) : list xnode := map (fun kv => out_header el (snd kv)) m.
Definition written_tree (d : tdoc) : xnode :=
  XElem (nm ns_ttml s_tt) (root_attrs (lang_code (td_meta d)))
        (skel (md_of (td_meta d)) (headers s_style (sort_keys (td_styles d))) (headers s_region (sort_keys (td_regions d)))
              (map out_p (td_items d))).

Lemma write_ttml_eq d : td_items d <> [] -> write_ttml d = Ok (written_tree d).
Proof. intros H. unfold write_ttml. destruct (td_items d) as [|i r] eqn:E; [contradiction|]. unfold written_tree. rewrite E. reflexivity. Qed.

Definition md_shape (md : list xnode) : Prop := md = [] \/ exists ks, md = [XElem (nm ns_ttml s_metadata) [] ks].
Lemma md_of_shape m : md_shape (md_of m).
Proof.
  destruct m as [m|]; [|left; reflexivity]. unfold md_of.
  destruct (negb (null (tm_copyright m) && null (tm_title m))); [right; eexists; reflexivity | left; reflexivity].
Qed.

Lemma skel_regions md sty lay ps : md_shape md ->
  path_elems [s_head; s_layout; s_region] (skel md sty lay ps) = kids_named s_region lay.
Proof. intros [->|(ks & ->)]; cbn; rewrite !app_nil_r; reflexivity. Qed.
Lemma skel_styles md sty lay ps : md_shape md ->
  path_elems [s_head; s_styling; s_style] (skel md sty lay ps) = kids_named s_style sty.
Proof. intros [->|(ks & ->)]; cbn; rewrite !app_nil_r; reflexivity. Qed.
Lemma skel_items md sty lay ps : path_elems [s_body; s_div; s_p] (skel md sty lay ps) = kids_named s_p ps.
Proof. cbn. rewrite !app_nil_r. reflexivity. Qed.
Lemma skel_md md sty lay ps : md_shape md -> path_elems [s_head; s_metadata] (skel md sty lay ps) = md.
Proof. intros [->|(ks & ->)]; cbn; reflexivity. Qed.

Lemma headers_named el m : kids_named el (headers el m) = headers el m.
Proof.
  unfold kids_named. apply filter_all. unfold headers. rewrite forallb_forall. intros x Hx.
  apply in_map_iff in Hx. destruct Hx as (kv & <- & _). cbn [out_header is_elem_named x_local nm]. apply str_eqb_refl.
Qed.
Lemma items_named its : kids_named s_p (map out_p its) = map out_p its.
Proof.
  unfold kids_named. apply filter_all. rewrite forallb_forall. intros x Hx.
  apply in_map_iff in Hx. destruct Hx as (it & <- & _). reflexivity.
Qed.

(* ================= metadata and language ================= *)
Definition leafy (n : xnode) : bool := negb (existsb is_elem (elem_kids n)).

Lemma md_kids_leafy m : forallb leafy (flat_map elem_kids (md_of m)) = true.
Proof.
  destruct m as [[fr t c l]|]; [|reflexivity]. unfold md_of. cbn [tm_copyright tm_title].
  destruct c as [|c0 c]; destruct t as [|t0 t]; reflexivity.
Qed.
Lemma md_title m : last_text (kids_named s_title (flat_map elem_kids (md_of m))) = tm_title (written_meta m).
Proof.
  destruct m as [[fr t c l]|]; [|reflexivity]. unfold md_of. cbn [tm_copyright tm_title written_meta].
  destruct c as [|c0 c]; destruct t as [|t0 t]; try reflexivity; cbn; rewrite app_nil_r; reflexivity.
Qed.
Lemma md_copyright m : last_text (kids_named s_copyright (flat_map elem_kids (md_of m))) = tm_copyright (written_meta m).
Proof.
  destruct m as [[fr t c l]|]; [|reflexivity]. unfold md_of. cbn [tm_copyright tm_title written_meta].
  destruct c as [|c0 c]; destruct t as [|t0 t]; try reflexivity; cbn; rewrite app_nil_r; reflexivity.
Qed.

Lemma lang_roundtrip l :
  lang_of (match map_get_inv l lang_table with Some (c :: r) => c :: r | _ => [] end) = written_lang l.
Proof.
  unfold written_lang, lang_table. cbn [map_get_inv].
  repeat match goal with
         | |- context [str_eqb l ?s] =>
           let E := fresh "E" in destruct (str_eqb l s) eqn:E; [apply str_eqb_eq in E; subst l; reflexivity|]
         end.
  reflexivity.
Qed.

Lemma root_lang lang : attr_str s_lang (root_attrs lang) = match lang with Some (c :: r) => c :: r | _ => [] end.
Proof. destruct lang as [[|c r]|]; reflexivity. Qed.
Lemma root_framerate lang : int_attr s_frameRate (root_attrs lang) = Some None.
Proof. destruct lang as [[|c r]|]; reflexivity. Qed.
Lemma root_tickrate lang : int_attr s_tickRate (root_attrs lang) = Some None.
Proof. destruct lang as [[|c r]|]; reflexivity. Qed.

Lemma written_lang_meta m :
  lang_of (attr_str s_lang (root_attrs (lang_code m))) = tm_lang (written_meta m).
Proof.
  rewrite root_lang. destruct m as [m|]; [|reflexivity]. cbn [lang_code written_meta tm_lang]. apply lang_roundtrip.
Qed.

(* ================= the reader, step by step ================= *)
Lemma read_ttml_eq name a kids rgs sts items :
  str_eqb (x_local name) s_tt = true -> int_attr s_frameRate a = Some None -> int_attr s_tickRate a = Some None ->
  map_res read_header (path_elems [s_head; s_layout; s_region] kids) = Ok rgs ->
  map_res read_header (path_elems [s_head; s_styling; s_style] kids) = Ok sts ->
  forallb (ref_ok (add_all sts [])) sts = true -> forallb (ref_ok (add_all sts [])) rgs = true ->
  map_res (read_p (add_all sts []) (add_all rgs []) 0 0) (path_elems [s_body; s_div; s_p] kids) = Ok items ->
  read_ttml (XElem name a kids) =
  Ok (mkDoc (Some (mkMeta 0 (last_text (path_elems [s_title] (flat_map elem_kids (path_elems [s_head; s_metadata] kids))))
                          (last_text (path_elems [s_copyright] (flat_map elem_kids (path_elems [s_head; s_metadata] kids))))
                          (lang_of (attr_str s_lang a))))
            (add_all sts []) (add_all rgs []) items).
Proof.
  intros Hn Hf Ht Hr Hs Hrs Hrr Hi. unfold read_ttml. rewrite Hn, Hf, Ht. cbn [negb].
  rewrite Hr. cbn [bind]. rewrite Hs. cbn [bind]. rewrite Hrs, Hrr. cbn [negb]. rewrite Hi. reflexivity.
Qed.

Lemma ref_ok_header {V} (styles : list (str * V)) kv : header_ok styles kv = true -> ref_ok styles (snd kv) = true.
Proof.
  unfold header_ok. intros H. apply andb_true_iff in H. destruct H as [H _]. unfold ref_ok.
  destruct (ref_in_cases _ _ H) as [E|(c & k & E & Hm)]; rewrite E; [reflexivity | exact Hm].
Qed.

Lemma repr_doc_parts d : repr_doc d = true ->
  td_items d <> [] /\ map_ok (td_styles d) = true /\ map_ok (td_regions d) = true
  /\ forallb (header_ok (td_styles d)) (td_styles d) = true /\ forallb (header_ok (td_styles d)) (td_regions d) = true
  /\ forallb (item_ok (td_styles d) (td_regions d)) (td_items d) = true.
Proof.
  unfold repr_doc. intros H.
  apply andb_true_iff in H. destruct H as [H H6]. apply andb_true_iff in H. destruct H as [H H5].
  apply andb_true_iff in H. destruct H as [H H4]. apply andb_true_iff in H. destruct H as [H H3].
  apply andb_true_iff in H. destruct H as [H1 H2].
  repeat split; try assumption. intros E. rewrite E in H1. discriminate.
Qed.

(* ================= any lay-out transformation that only adds indentation ================= *)
Section Xform.
  Variable T : nat -> xnode -> xnode.
  Hypothesis T_elem : forall d name a ks, T d (XElem name a ks) = XElem name a (elem_kids (T d (XElem name a ks))).
  Hypothesis T_kids : forall d n l, kids_named l (elem_kids (T d n)) = map (T (S d)) (kids_named l (elem_kids n)).
  Hypothesis T_leaf : forall d n, leafy n = true -> T d n = n.
  Hypothesis T_lines : forall d name a ls, exists w wl, is_indent w = true /\ is_indent wl = true /\
    elem_kids (T d (XElem name a (out_lines ls))) = render_content (glines w ls) wl.

  Lemma T_path p : forall d n, path_elems p (elem_kids (T d n)) = map (T (d + length p)) (path_elems p (elem_kids n)).
  Proof.
    induction p as [|l p IH]; intros d n; [reflexivity|].
    destruct p as [|l' p'].
    - cbn [path_elems length]. rewrite Nat.add_1_r. apply T_kids.
    - change (path_elems (l :: l' :: p') (elem_kids (T d n)))
        with (flat_map (fun x => path_elems (l' :: p') (elem_kids x)) (kids_named l (elem_kids (T d n)))).
      change (path_elems (l :: l' :: p') (elem_kids n))
        with (flat_map (fun x => path_elems (l' :: p') (elem_kids x)) (kids_named l (elem_kids n))).
      rewrite T_kids, flat_map_map, map_flat_map. apply flat_map_ext. intros x.
      rewrite (IH (S d) x). cbn [length]. f_equal. f_equal. lia.
  Qed.

  Lemma T_kids_flat l d ns :
    kids_named l (flat_map elem_kids (map (T d) ns)) = map (T (S d)) (kids_named l (flat_map elem_kids ns)).
  Proof.
    induction ns as [|n ns IH]; [reflexivity|]. cbn [map flat_map].
    rewrite !kids_named_app, map_app, T_kids, IH. reflexivity.
  Qed.

  Lemma T_leaves d l : forallb leafy l = true -> map (T d) l = l.
  Proof. intros H. apply map_id_in. intros a Ha. apply T_leaf. exact (forallb_In _ _ _ H Ha). Qed.

  Lemma T_headers d el m : map (T d) (headers el m) = headers el m.
  Proof.
    apply map_id_in. intros a Ha. apply T_leaf. unfold headers in Ha. apply in_map_iff in Ha.
    destruct Ha as (kv & <- & _). reflexivity.
  Qed.

  Lemma T_read_p styles regions d it : item_ok styles regions it = true ->
    read_p styles regions 0 0 (T d (out_p it)) = Ok (written_item it).
  Proof.
    intros H. rewrite out_p_eq, T_elem.
    destruct (T_lines d (nm ns_ttml s_p) (p_attrs it) (ti_lines it)) as (w & wl & Hw & Hwl & E).
    rewrite E. exact (read_p_written styles regions it w wl H Hw Hwl).
  Qed.

  Theorem read_transformed d : repr_doc d = true -> read_ttml (T 0 (written_tree d)) = Ok (written_value d).
  Proof.
    intros H. apply repr_doc_parts in H. destruct H as (Hne & Hms & Hmr & Hhs & Hhr & Hit).
    unfold written_tree. rewrite (sort_keys_map_ok _ Hms), (sort_keys_map_ok _ Hmr).
    set (kids := skel (md_of (td_meta d)) (headers s_style (td_styles d)) (headers s_region (td_regions d)) (map out_p (td_items d))).
    set (ra := root_attrs (lang_code (td_meta d))).
    rewrite T_elem.
    pose proof (md_of_shape (td_meta d)) as Hsh.
    assert (Ek : forall p, path_elems p (elem_kids (T 0 (XElem (nm ns_ttml s_tt) ra kids))) = map (T (length p)) (path_elems p kids)).
    { intros p. rewrite T_path. reflexivity. }
    assert (Er : map_res read_header (path_elems [s_head; s_layout; s_region] (elem_kids (T 0 (XElem (nm ns_ttml s_tt) ra kids))))
                 = Ok (map snd (td_regions d))).
    { rewrite Ek. unfold kids. rewrite (skel_regions _ _ _ _ Hsh), headers_named, T_headers. unfold headers.
      apply map_res_map_ok. intros kv Hkv. apply (read_header_written (td_styles d)). exact (forallb_In _ _ _ Hhr Hkv). }
    assert (Es : map_res read_header (path_elems [s_head; s_styling; s_style] (elem_kids (T 0 (XElem (nm ns_ttml s_tt) ra kids))))
                 = Ok (map snd (td_styles d))).
    { rewrite Ek. unfold kids. rewrite (skel_styles _ _ _ _ Hsh), headers_named, T_headers. unfold headers.
      apply map_res_map_ok. intros kv Hkv. apply (read_header_written (td_styles d)). exact (forallb_In _ _ _ Hhs Hkv). }
    assert (Ei : map_res (read_p (td_styles d) (td_regions d) 0 0)
                         (path_elems [s_body; s_div; s_p] (elem_kids (T 0 (XElem (nm ns_ttml s_tt) ra kids))))
                 = Ok (map written_item (td_items d))).
    { rewrite Ek. unfold kids. rewrite skel_items, items_named, map_map.
      apply map_res_map_ok. intros it Hin. apply T_read_p. exact (forallb_In _ _ _ Hit Hin). }
    assert (Em : path_elems [s_head; s_metadata] (elem_kids (T 0 (XElem (nm ns_ttml s_tt) ra kids))) = map (T 2) (md_of (td_meta d))).
    { rewrite Ek. unfold kids. rewrite (skel_md _ _ _ _ Hsh). reflexivity. }
    pose proof (add_all_map_ok _ Hms) as As. pose proof (add_all_map_ok _ Hmr) as Ar.
    rewrite (read_ttml_eq _ ra _ (map snd (td_regions d)) (map snd (td_styles d)) (map written_item (td_items d))).
    - rewrite As, Ar, Em. unfold written_value. f_equal. f_equal. f_equal.
      assert (Hleaf : forall l, map (T 3) (kids_named l (flat_map elem_kids (md_of (td_meta d))))
                                = kids_named l (flat_map elem_kids (md_of (td_meta d)))).
      { intros l. apply map_id_in. intros a Ha. apply T_leaf. unfold kids_named in Ha. apply filter_In_sub in Ha.
        exact (forallb_In _ _ _ (md_kids_leafy (td_meta d)) Ha). }
      cbn [path_elems]. rewrite !T_kids_flat, !Hleaf, md_title, md_copyright.
      unfold ra. rewrite written_lang_meta. destruct (td_meta d) as [[fr t c l]|]; reflexivity.
    - reflexivity.
    - apply root_framerate.
    - apply root_tickrate.
    - exact Er.
    - exact Es.
    - rewrite As. rewrite forallb_forall. intros s Hs. apply in_map_iff in Hs. destruct Hs as (kv & <- & Hkv).
      apply ref_ok_header. exact (forallb_In _ _ _ Hhs Hkv).
    - rewrite As. rewrite forallb_forall. intros s Hs. apply in_map_iff in Hs. destruct Hs as (kv & <- & Hkv).
      apply ref_ok_header. exact (forallb_In _ _ _ Hhr Hkv).
    - rewrite As, Ar. exact Ei.
  Qed.
End Xform.

(* ================= no indentation ================= *)
Lemma lines_plain ls : out_lines ls = render_content (glines [] ls) [].
Proof. unfold render_content. rewrite nodes_glines, ins_nil, out_lines_olines. cbn [text_kids]. rewrite app_nil_r. reflexivity. Qed.

Theorem read_written d : repr_doc d = true -> read_ttml (written_tree d) = Ok (written_value d).
Proof.
  intros H. apply (read_transformed (fun _ n => n)); try exact H.
  - reflexivity.
  - intros d0 n l. rewrite map_id. reflexivity.
  - reflexivity.
  - intros d0 name a ls. exists [], []. repeat split. cbn [elem_kids]. apply lines_plain.
Qed.

(* ================= Encoder.Indent ================= *)
Lemma olines_forall (P : xnode -> bool) ls : P out_br = true -> (forall r, P (out_run r) = true) -> forallb P (olines ls) = true.
Proof.
  intros Hb Hr.
  assert (Hm : forall l, forallb P (map out_run l) = true).
  { induction l as [|x l IHl]; [reflexivity|]. cbn [map forallb]. rewrite (Hr x), IHl. reflexivity. }
  induction ls as [|l r IH]; [reflexivity|].
  destruct r as [|l' r'].
  - cbn [olines]. apply Hm.
  - change (olines (l :: l' :: r')) with (map out_run l ++ out_br :: olines (l' :: r')).
    rewrite forallb_app. cbn [forallb]. rewrite Hm, Hb, IH. reflexivity.
Qed.
Lemma out_run_leafy r : leafy (out_run r) = true.
Proof. unfold out_run, leafy. cbn [elem_kids]. destruct (tr_txt r); reflexivity. Qed.
Lemma olines_leafy ls : forallb leafy (olines ls) = true.
Proof. apply olines_forall; [reflexivity | exact out_run_leafy]. Qed.

Lemma indent_leaf ind d n : leafy n = true -> indent_tree ind d n = n.
Proof.
  unfold leafy. intros H. apply negb_true_iff in H. destruct n as [s|name a ks]; [reflexivity|].
  cbn [elem_kids] in H. cbn [indent_tree]. rewrite H. reflexivity.
Qed.

Lemma indent_named ind d l k : is_elem_named l (indent_tree ind d k) = is_elem_named l k.
Proof. destruct k as [s|name a ks]; [reflexivity|]. cbn [indent_tree]. destruct (existsb is_elem ks); reflexivity. Qed.

Lemma no_elem_named l ks : existsb is_elem ks = false -> kids_named l ks = [].
Proof.
  induction ks as [|k ks IH]; intros H; [reflexivity|]. cbn [existsb] in H. apply orb_false_iff in H. destruct H as [H1 H2].
  unfold kids_named in *. cbn [filter]. destruct k as [s|name a ks']; [|discriminate]. cbn [is_elem_named]. apply IH. exact H2.
Qed.

Lemma indented_named ind d l w ks :
  kids_named l (flat_map (fun k => [XText w; indent_tree ind d k]) ks) = map (indent_tree ind d) (kids_named l ks).
Proof.
  induction ks as [|k ks IH]; [reflexivity|]. cbn [flat_map]. unfold kids_named in *. cbn [app filter is_elem_named].
  rewrite indent_named, IH. destruct (is_elem_named l k); reflexivity.
Qed.

Lemma indent_kids ind d n l :
  kids_named l (elem_kids (indent_tree ind d n)) = map (indent_tree ind (S d)) (kids_named l (elem_kids n)).
Proof.
  destruct n as [s|name a ks]; [reflexivity|]. cbn [indent_tree elem_kids].
  destruct (existsb is_elem ks) eqn:E; cbn [elem_kids].
  - rewrite kids_named_app, indented_named. cbn [kids_named filter is_elem_named]. apply app_nil_r.
  - rewrite (no_elem_named l ks E). reflexivity.
Qed.

Lemma ws_repeat ind k : forallb is_ws ind = true -> forallb is_ws (concat (repeat ind k)) = true.
Proof.
  intros H. induction k as [|k IH]; [reflexivity|]. cbn [repeat concat]. rewrite forallb_app, H, IH. reflexivity.
Qed.
Lemma indent_is_indent ind k : forallb is_ws ind = true -> is_indent (10 :: concat (repeat ind k)) = true.
Proof. intros H. cbn [is_indent]. rewrite (ws_repeat ind k H). reflexivity. Qed.

Lemma indented_ins ind d w ks : forallb leafy ks = true ->
  flat_map (fun k => [XText (10 :: w); indent_tree ind d k]) ks = flat_map (ins (10 :: w)) ks.
Proof.
  induction ks as [|k ks IH]; intros H; [reflexivity|]. cbn [forallb] in H. apply andb_true_iff in H. destruct H as [H1 H2].
  cbn [flat_map]. rewrite (indent_leaf ind d k H1), (IH H2). reflexivity.
Qed.

Lemma indent_lines ind d name a ls : forallb is_ws ind = true -> exists w wl, is_indent w = true /\ is_indent wl = true /\
  elem_kids (indent_tree ind d (XElem name a (out_lines ls))) = render_content (glines w ls) wl.
Proof.
  intros Hi. cbn [indent_tree]. rewrite out_lines_olines. destruct (existsb is_elem (olines ls)) eqn:E; cbn [elem_kids].
  - exists (10 :: concat (repeat ind (S d))), (10 :: concat (repeat ind d)).
    split; [apply indent_is_indent; exact Hi|]. split; [apply indent_is_indent; exact Hi|].
    rewrite (indented_ins ind (S d) _ _ (olines_leafy ls)). unfold render_content. rewrite nodes_glines. reflexivity.
  - exists [], []. repeat split. rewrite <- out_lines_olines. apply lines_plain.
Qed.

Theorem read_indented d ind : repr_doc d = true -> indent_ok ind = true ->
  read_ttml (indent_tree ind 0 (written_tree d)) = Ok (written_value d).
Proof.
  intros H Hi. apply (read_transformed (indent_tree ind)); try exact H.
  - intros d0 name a ks. cbn [indent_tree]. destruct (existsb is_elem ks); reflexivity.
  - intros d0 n l. apply indent_kids.
  - intros d0 n Hl. apply indent_leaf. exact Hl.
  - intros d0 name a ls. apply indent_lines. exact Hi.
Qed.

(* ================= the round trip ================= *)
Theorem write_read : forall d ind, repr_doc d = true -> indent_ok ind = true ->
  exists t, write_ttml d = Ok t /\ read_ttml (indent_doc ind t) = Ok (written_value d).
Proof.
  intros d ind Hr Hi. exists (written_tree d). split.
  - apply write_ttml_eq. apply repr_doc_parts in Hr. tauto.
  - destruct ind as [|c ind'].
    + cbn [indent_doc]. exact (read_written d Hr).
    + cbn [indent_doc]. exact (read_indented d (c :: ind') Hr Hi).
Qed.

Print Assumptions write_read.
