(* Optimize / RemoveStyling (C13), additions.
   (1) The model resolves a reference by identifier (first definition whose ID matches); the library follows pointers.
       Under [wf_refs] (every identifier referred to is defined, definition IDs pairwise distinct) an identifier
       determines its definition, so both readings coincide: the exact characterisation is restated with a
       reachability relation that does not mention "first match".  Map keys play no role (a definition stored under a
       key different from its ID is handled by its ID, as the library does); two definitions with the same ID are
       excluded by [wf_refs], and an example shows why they must be.
   (2) RemoveStyling as separate checkable facts. *)
From Coq Require Import List ZArith NArith Bool Lia Arith.
From Astisub Require Import Kit.Base Model.Ops Proofs.OptimizeProofs.
Import ListNotations.

(* ---- (1) ---- *)
(* SOME definition with identifier c names p as its parent *)
Definition declared_parent (ss : list (N * style)) (c p : N) : Prop :=
  exists kv, In kv ss /\ s_id (snd kv) = c /\ s_parent (snd kv) = Some p.

Inductive reach_decl (ss : list (N * style)) (roots : list N) : N -> Prop :=
| rd_root id : In id roots -> reach_decl ss roots id
| rd_parent c p : reach_decl ss roots c -> declared_parent ss c p -> reach_decl ss roots p.

Lemma parent_of_declared ss c p : parent_of ss c p -> declared_parent ss c p.
Proof.
  intros (kv & F & P). unfold style_by_id in F. apply find_some in F. destruct F as [Hin E]. apply N.eqb_eq in E.
  exists kv. auto.
Qed.

Lemma declared_parent_of ss c p : NoDup (map (fun kv => s_id (snd kv)) ss) -> declared_parent ss c p -> parent_of ss c p.
Proof.
  intros Hnd (kv & Hin & Hid & P). exists kv. split; [|exact P]. rewrite <- Hid. apply find_unique_id; assumption.
Qed.

Lemma reach_reach_decl ss roots id : reach ss roots id -> reach_decl ss roots id.
Proof.
  intros H. induction H as [z Hz|c p Hc IH Hp]; [apply rd_root; exact Hz|].
  eapply rd_parent; [exact IH | apply parent_of_declared; exact Hp].
Qed.

Lemma reach_decl_reach ss roots id : NoDup (map (fun kv => s_id (snd kv)) ss) -> reach_decl ss roots id -> reach ss roots id.
Proof.
  intros Hnd H. induction H as [z Hz|c p Hc IH Hp]; [apply reach_root; exact Hz|].
  eapply reach_parent; [exact IH | apply declared_parent_of; assumption].
Qed.

(* distinct definition IDs: an identifier has at most one definition, whatever key it is stored under *)
Lemma nodup_ids_unique (ss : list (N * style)) :
  NoDup (map (fun kv => s_id (snd kv)) ss) ->
  forall kv kv', In kv ss -> In kv' ss -> s_id (snd kv) = s_id (snd kv') -> kv = kv'.
Proof.
  induction ss as [|a r IH]; intros Hnd kv kv' H1 H2 E; [destruct H1|].
  cbn [map] in Hnd. inversion Hnd as [|? ? Hna Hr]; subst.
  destruct H1 as [<-|H1]; destruct H2 as [<-|H2]; [reflexivity | | |apply IH; assumption].
  - exfalso. apply Hna. rewrite E. apply (in_map (fun kv => s_id (snd kv))). exact H2.
  - exfalso. apply Hna. rewrite <- E. apply (in_map (fun kv => s_id (snd kv))). exact H1.
Qed.

Theorem wf_refs_unique_definition s : wf_refs s ->
  forall kv kv', In kv (map_or_empty (styles s)) -> In kv' (map_or_empty (styles s)) ->
    s_id (snd kv) = s_id (snd kv') -> kv = kv'.
Proof. intros (_ & _ & _ & _ & Hnd). apply nodup_ids_unique. exact Hnd. Qed.

(* every reference resolves to exactly one definition *)
Theorem wf_refs_resolves s : wf_refs s -> forall id, defined_style s id ->
  exists kv, In kv (map_or_empty (styles s)) /\ s_id (snd kv) = id /\
             forall kv', In kv' (map_or_empty (styles s)) -> s_id (snd kv') = id -> kv' = kv.
Proof.
  intros W id (kv & Hin & Hid). exists kv. split; [exact Hin|]. split; [exact Hid|].
  intros kv' Hin' Hid'. apply (wf_refs_unique_definition s W); [exact Hin' | exact Hin | congruence].
Qed.

Definition reach_style_decl (s : subs) (id : N) : Prop := reach_decl (map_or_empty (styles s)) (style_roots s) id.

Lemma reach_style_decl_iff s id : wf_refs s -> (reach_style s id <-> reach_style_decl s id).
Proof.
  intros (_ & _ & _ & _ & Hnd). unfold reach_style, reach_style_decl. split.
  - apply reach_reach_decl.
  - apply reach_decl_reach. exact Hnd.
Qed.

(* the exact characterisation under well-formed references, free of "first match" *)
Theorem optimize_styles_exact_wf s kv : wf_refs s -> items s <> [] ->
  In kv (map_or_empty (styles (optimize s))) <-> In kv (map_or_empty (styles s)) /\ reach_style_decl s (s_id (snd kv)).
Proof. intros W Hne. rewrite (optimize_styles_exact s kv Hne), (reach_style_decl_iff s _ W). reflexivity. Qed.

Theorem optimize_regions_exact_wf s kv : wf_refs s -> items s <> [] ->
  In kv (map_or_empty (regions (optimize s))) <-> In kv (map_or_empty (regions s)) /\ reach_region s (g_id (snd kv)).
Proof. intros _ Hne. exact (optimize_regions_exact s kv Hne). Qed.

(* without the hypothesis only one inclusion survives: what the model keeps is reachable through declared parents *)
Theorem optimize_styles_sound_any s kv : items s <> [] ->
  In kv (map_or_empty (styles (optimize s))) -> In kv (map_or_empty (styles s)) /\ reach_style_decl s (s_id (snd kv)).
Proof.
  intros Hne H. apply (optimize_styles_exact s kv Hne) in H. destruct H as [H1 H2].
  split; [exact H1 | apply reach_reach_decl; exact H2].
Qed.

(* a definition stored under a key different from its ID (IDs distinct): handled by its ID.
   keys: 9 holds style 3 (used by the cue, parent 1), 1 holds style 1, 3 holds style 5 (unused although its KEY is a
   used identifier), region key 8 holds region 0 (used) whose style is 2 stored under key 2 *)
Definition ex_keys : subs :=
  mkSubs [mkItem 1 0 5 [mkLine [mkRun [65] (Some 3) false] []] (Some 0) None false]%N%Z
         (Some [(8, mkRegion 0 (Some 2) false); (0, mkRegion 6 None false)])%N
         (Some [(9, mkStyle 3 (Some 1) false); (1, mkStyle 1 None false); (3, mkStyle 5 None false); (2, mkStyle 2 None false)])%N.
Example ex_keys_result :
  map_or_empty (styles (optimize ex_keys)) = [(9, mkStyle 3 (Some 1) false); (1, mkStyle 1 None false); (2, mkStyle 2 None false)]%N /\
  map_or_empty (regions (optimize ex_keys)) = [(8, mkRegion 0 (Some 2) false)]%N.
Proof. split; reflexivity. Qed.
Example ex_keys_wf : wf_refs ex_keys.
Proof.
  unfold wf_refs. repeat split.
  - intros x id [<-|[]] [<-|[]]. exists (9, mkStyle 3 (Some 1) false)%N. split; [left; reflexivity | reflexivity].
  - intros x id [<-|[]] H. inversion H; subst. exists (8, mkRegion 0 (Some 2) false)%N. split; [left; reflexivity | reflexivity].
  - intros kv id [<-|[<-|[]]] H; inversion H; subst. exists (2, mkStyle 2 None false)%N. split; [cbn; auto 6 | reflexivity].
  - intros kv id [<-|[<-|[<-|[<-|[]]]]] H; inversion H; subst. exists (1, mkStyle 1 None false)%N. split; [cbn; auto | reflexivity].
  - cbn. repeat constructor; cbn; intuition discriminate.
Qed.

(* two definitions with the same ID (3) and different parents: the model's answer follows the first one in the list,
   the library's the object the cue points to - the situation is outside [wf_refs] and the exact theorems do not
   claim it *)
Definition ex_dup (first_parent second_parent : N) : subs :=
  mkSubs [mkItem 1 0 5 [] None (Some 3%N) false]%Z None
         (Some [(3, mkStyle 3 (Some first_parent) false); (4, mkStyle 3 (Some second_parent) false);
                (1, mkStyle 1 None false); (2, mkStyle 2 None false)])%N.
Example ex_dup_order_matters :
  map fst (map_or_empty (styles (optimize (ex_dup 1 2)))) = [3; 4; 1]%N /\
  map fst (map_or_empty (styles (optimize (ex_dup 2 1)))) = [3; 4; 2]%N.
Proof. split; reflexivity. Qed.
Example ex_dup_not_wf : forall p q, ~ wf_refs (ex_dup p q).
Proof.
  intros p q (_ & _ & _ & _ & Hnd). cbn in Hnd. inversion Hnd as [|? ? Hn _]; subst. apply Hn. left. reflexivity.
Qed.

(* ---- (2) RemoveStyling, fact by fact ---- *)
Lemma rs_items s : items (remove_styling s) = map strip_item (items s).
Proof. reflexivity. Qed.

(* no region or style definition is left *)
Theorem rs_no_definitions s : regions (remove_styling s) = Some [] /\ styles (remove_styling s) = Some [].
Proof. split; reflexivity. Qed.

(* no cue carries a region, a style or inline attributes *)
Theorem rs_no_cue_styling s :
  Forall (fun x => i_reg x = None /\ i_sty x = None /\ i_inl x = false) (items (remove_styling s)).
Proof.
  rewrite rs_items, Forall_forall. intros y Hy. apply in_map_iff in Hy. destruct Hy as (x & <- & _). repeat split.
Qed.

(* no text run carries a style or inline attributes *)
Theorem rs_no_run_styling s : forall x l r,
  In x (items (remove_styling s)) -> In l (i_lines x) -> In r (l_runs l) -> r_sty r = None /\ r_inl r = false.
Proof.
  intros y l r Hy Hl Hr. rewrite rs_items in Hy. apply in_map_iff in Hy. destruct Hy as (x & <- & _).
  cbn [strip_item i_lines] in Hl. apply in_map_iff in Hl. destruct Hl as (l0 & <- & _).
  cbn [strip_line l_runs] in Hr. apply in_map_iff in Hr. destruct Hr as (r0 & <- & _). split; reflexivity.
Qed.

Lemma strip_item_style_refs x : item_style_refs (strip_item x) = [].
Proof.
  unfold item_style_refs, strip_item. cbn [i_sty i_lines opt_list app].
  induction (i_lines x) as [|l ls IH]; [reflexivity|]. cbn [map flat_map]. rewrite IH, app_nil_r.
  unfold strip_line. cbn [l_runs]. induction (l_runs l) as [|r rs IHr]; [reflexivity|]. cbn [map flat_map]. exact IHr.
Qed.

(* hence no reference to a definition anywhere in the list *)
Theorem rs_no_references s :
  flat_map item_style_refs (items (remove_styling s)) = [] /\ used_regions (items (remove_styling s)) = [].
Proof.
  rewrite rs_items. split.
  - induction (items s) as [|x r IH]; [reflexivity|]. cbn [map flat_map]. rewrite strip_item_style_refs, IH. reflexivity.
  - unfold used_regions. induction (items s) as [|x r IH]; [reflexivity|]. cbn [map flat_map]. exact IH.
Qed.

(* timing untouched *)
Theorem rs_timing s :
  map (fun x => (st x, en x)) (items (remove_styling s)) = map (fun x => (st x, en x)) (items s).
Proof. rewrite rs_items, map_map. reflexivity. Qed.

(* order and identity untouched: the same cue objects at the same positions *)
Theorem rs_order s :
  length (items (remove_styling s)) = length (items s) /\ map uid (items (remove_styling s)) = map uid (items s).
Proof. rewrite rs_items, map_length, map_map. split; reflexivity. Qed.

Lemma strip_line_text l : line_text (strip_line l) = line_text l.
Proof. unfold line_text, strip_line. cbn [l_runs]. rewrite map_map. reflexivity. Qed.

Lemma strip_item_text x : item_text (strip_item x) = item_text x.
Proof.
  unfold item_text, strip_item. cbn [i_lines]. rewrite map_map. f_equal. apply map_ext. exact strip_line_text.
Qed.

(* text untouched: the rendered text of every cue, and run by run *)
Theorem rs_text s :
  map item_text (items (remove_styling s)) = map item_text (items s) /\
  map (fun x => map (fun l => map r_text (l_runs l)) (i_lines x)) (items (remove_styling s)) =
  map (fun x => map (fun l => map r_text (l_runs l)) (i_lines x)) (items s).
Proof.
  rewrite rs_items, !map_map. split.
  - apply map_ext. exact strip_item_text.
  - apply map_ext. intros x. cbn [strip_item i_lines]. rewrite map_map. apply map_ext. intros l.
    cbn [strip_line l_runs]. rewrite map_map. reflexivity.
Qed.

(* voice names untouched *)
Theorem rs_voices s :
  map (fun x => map l_voice (i_lines x)) (items (remove_styling s)) = map (fun x => map l_voice (i_lines x)) (items s).
Proof.
  rewrite rs_items, map_map. apply map_ext. intros x. cbn [strip_item i_lines]. rewrite map_map. reflexivity.
Qed.

(* twice = once *)
Theorem rs_idempotent s : remove_styling (remove_styling s) = remove_styling s.
Proof.
  unfold remove_styling. cbn [items]. f_equal. rewrite map_map. apply map_ext. intros x.
  unfold strip_item. cbn [uid st en i_lines]. f_equal. rewrite map_map. apply map_ext. intros l.
  unfold strip_line. cbn [l_runs l_voice]. f_equal. rewrite map_map. reflexivity.
Qed.

(* non-vacuity: two cues, out of start order, with region, cue style, inline attributes, styled runs and voices *)
Definition ex_styled : subs :=
  mkSubs [mkItem 7 50 90 [mkLine [mkRun [72; 105] (Some 3) true; mkRun [33] None false] [66; 111; 98]] (Some 0) (Some 1) true;
          mkItem 8 10 30 [mkLine [mkRun [65] None true] []; mkLine [mkRun [66] (Some 1) false] [65; 108]] None None false]%N%Z
         (Some [(0, mkRegion 0 (Some 1) true)])%N
         (Some [(1, mkStyle 1 None true); (3, mkStyle 3 (Some 1) false)])%N.
Example ex_styled_result :
  remove_styling ex_styled =
  mkSubs [mkItem 7 50 90 [mkLine [mkRun [72; 105] None false; mkRun [33] None false] [66; 111; 98]] None None false;
          mkItem 8 10 30 [mkLine [mkRun [65] None false] []; mkLine [mkRun [66] None false] [65; 108]] None None false]%N%Z
         (Some []) (Some []).
Proof. reflexivity. Qed.
Example ex_styled_text :
  map item_text (items ex_styled) = [[72; 105; 33]; [65; 32; 45; 32; 66]]%N /\
  flat_map item_style_refs (items ex_styled) = [1; 3; 1]%N /\ used_regions (items ex_styled) = [0]%N.
Proof. repeat split; reflexivity. Qed.
