(* SubRip: what the reader reads back from what the writer wrote (line level, document level).
   Main statements (all closed under the global context):
     parse_written_line : repr_line l -> parse_text_srt (concat (map run_bytes l)) sa0 = (l, sa0)
     read_write_srt     : Forall repr_item l -> l <> [] -> Z.of_nat (length l) <= max_int64 ->
                          exists data, write_srt l = Ok data /\ read_srt data = Ok (renumber_truncate l)
   repr_run / repr_line / repr_doc_line / repr_item are the hypotheses; repr_itemb ... are executable versions
   (repr_itemb_ok).  The predicates keep the written lines inside the tokenizer model's faithful domain
   (Kit.Html.html_simple, proved in Proofs/SrtSimple.v: repr_line_simple): a colour has no double quote, no '&' (the real
   tokenizer unescapes character references inside attribute values, the writer does not escape them), no CR
   (converted to LF inside attribute values) and no NUL byte; the text of a run has no NUL byte. *)
From Coq Require Import List ZArith NArith Lia Bool Arith.
From Astisub Require Import Kit.Base Kit.Str Kit.Html Kit.Scan Model.Dur Model.Srt.
From Astisub Require Import Proofs.DurProofs Proofs.ScanProofs Proofs.SrtEscProofs.
Import ListNotations.
Open Scope N_scope.

(* ================= tokenizer: the readers consume input ================= *)
Lemma skip_ws_len s : (length (skip_ws s) <= length s)%nat.
Proof. induction s as [|c t IH]; cbn [skip_ws length]; [lia|]. destruct (is_tag_ws c); cbn [length]; lia. Qed.

Lemma read_name_len s acc n r : read_name s acc = Some (n, r) -> (length r <= length s)%nat.
Proof.
  revert acc. induction s as [|c t IH]; intros acc H; cbn [read_name] in H; [discriminate|].
  destruct (is_tag_ws c); [inversion H; subst; cbn [length]; lia|].
  destruct ((c =? SLASH) || (c =? GT)); [inversion H; subst; cbn [length]; lia|].
  apply IH in H. cbn [length]; lia.
Qed.
Lemma read_key_len s acc n r : read_key s acc = Some (n, r) -> (length r <= length s)%nat.
Proof.
  revert acc. induction s as [|c t IH]; intros acc H; cbn [read_key] in H; [discriminate|].
  destruct (is_tag_ws c || (c =? SLASH)); [inversion H; subst; cbn [length]; lia|].
  destruct ((c =? EQ) || (c =? GT)); [inversion H; subst; cbn [length]; lia|].
  apply IH in H. cbn [length]; lia.
Qed.
Lemma read_until_quote_len q s acc n r : read_until_quote q s acc = Some (n, r) -> (length r <= length s)%nat.
Proof.
  revert acc. induction s as [|c t IH]; intros acc H; cbn [read_until_quote] in H; [discriminate|].
  destruct (c =? q); [inversion H; subst; cbn [length]; lia|].
  apply IH in H. cbn [length]; lia.
Qed.
Lemma read_bare_len s acc n r : read_bare s acc = Some (n, r) -> (length r <= length s)%nat.
Proof.
  revert acc. induction s as [|c t IH]; intros acc H; cbn [read_bare] in H; [discriminate|].
  destruct (is_tag_ws c); [inversion H; subst; cbn [length]; lia|].
  destruct (c =? GT); [inversion H; subst; cbn [length]; lia|].
  apply IH in H. cbn [length]; lia.
Qed.
Lemma read_val_len s v r : read_val s = Some (v, r) -> (length r <= length s)%nat.
Proof.
  unfold read_val. pose proof (skip_ws_len s) as L1. destruct (skip_ws s) as [|c t]; [discriminate|].
  destruct (negb (c =? EQ)); [intros H; inversion H; subst; exact L1|].
  pose proof (skip_ws_len t) as L2. destruct (skip_ws t) as [|q t2]; [discriminate|].
  destruct (q =? GT); [intros H; inversion H; subst; cbn [length] in *; lia|].
  destruct ((q =? 39) || (q =? 34)).
  - intros H. apply read_until_quote_len in H. cbn [length] in *; lia.
  - intros H. apply read_bare_len in H. cbn [length] in *; lia.
Qed.
Lemma read_attrs_len fuel : forall s acc a r, read_attrs fuel s acc = Some (a, r) -> (length r < length s)%nat.
Proof.
  induction fuel as [|f IH]; intros s acc a r H; cbn [read_attrs] in H; [discriminate|].
  destruct s as [|c t]; [discriminate|].
  destruct (c =? GT); [inversion H; subst; cbn [length]; lia|].
  destruct (read_key (c :: t) []) as [[k s1]|] eqn:Ek; [|discriminate].
  destruct (read_val s1) as [[v s2]|] eqn:Ev; [|discriminate].
  pose proof (skip_ws_len s2) as L3. destruct (skip_ws s2) as [|c3 t3] eqn:E3; [discriminate|].
  apply IH in H. apply read_key_len in Ek. apply read_val_len in Ev.
  (* the key reader consumed at least one byte unless it stopped at '=' ... we only need <=, then the recursive call gives < *)
  cbn [length] in *. lia.
Qed.
Lemma read_tag_len s n a r : read_tag s = Some (n, a, r) -> (length r < length s)%nat.
Proof.
  unfold read_tag. destruct (read_name s []) as [[name s1]|] eqn:En; [|discriminate].
  pose proof (skip_ws_len s1) as L. destruct (skip_ws s1) as [|c t] eqn:E; [discriminate|].
  destruct (read_attrs (S (length (c :: t))) (c :: t) []) as [[attrs rest]|] eqn:Ea; [|discriminate].
  intros H; inversion H; subst. apply read_attrs_len in Ea. apply read_name_len in En. lia.
Qed.
Lemma read_until_gt_len s : (length (read_until_gt s) <= length s)%nat.
Proof. induction s as [|c t IH]; cbn [read_until_gt length]; [lia|]. destruct (c =? GT); lia. Qed.

Lemma tokenize_fuel_enough n : forall m s cur, (length s < n)%nat -> (length s < m)%nat ->
  tokenize_fuel n s cur = tokenize_fuel m s cur.
Proof.
  induction n as [|n IH]; intros m s cur Hn Hm; [lia|]. destruct m as [|m]; [lia|].
  cbn [tokenize_fuel]. destruct s as [|c t]; [reflexivity|]. cbn [length] in Hn, Hm.
  destruct (negb (c =? LT)); [apply IH; lia|].
  destruct t as [|d t2]; [reflexivity|]. cbn [length] in Hn, Hm.
  destruct (is_letter d).
  { f_equal. destruct (read_tag (d :: t2)) as [[[name attrs] rest]|] eqn:E; [|reflexivity].
    apply read_tag_len in E. cbn [length] in E. f_equal. apply IH; lia. }
  destruct (d =? SLASH).
  { destruct t2 as [|e t3]; [reflexivity|]. cbn [length] in Hn, Hm. f_equal.
    destruct (e =? GT); [f_equal; apply IH; lia|].
    destruct (is_letter e).
    - destruct (read_tag (e :: t3)) as [[[name attrs] rest]|] eqn:E; [|reflexivity].
      apply read_tag_len in E. cbn [length] in E. f_equal. apply IH; lia.
    - pose proof (read_until_gt_len (e :: t3)) as L. cbn [length] in L. f_equal. apply IH; lia. }
  destruct ((d =? 33) || (d =? 63)).
  { pose proof (read_until_gt_len (d :: t2)) as L. cbn [length] in L. f_equal. f_equal. apply IH; lia. }
  apply IH; cbn [length]; lia.
Qed.

(* ================= tokenizer: unfolding equations over [tokc] ================= *)
Definition tokc (s cur : str) : list htok := tokenize_fuel (S (length s)) s cur.
Lemma tokenize_tokc s : tokenize s = tokc s []. Proof. reflexivity. Qed.
Lemma tokc_fuel f s cur : (length s < f)%nat -> tokenize_fuel f s cur = tokc s cur.
Proof. intros H. apply tokenize_fuel_enough; [exact H | lia]. Qed.

Lemma tokc_nil cur : tokc [] cur = flush cur. Proof. reflexivity. Qed.
Lemma tokc_text c t cur : c <> 60 -> tokc (c :: t) cur = tokc t (c :: cur).
Proof.
  intros H. unfold tokc at 1. cbn [tokenize_fuel length]. unfold LT.
  destruct (c =? 60) eqn:E; [apply N.eqb_eq in E; contradiction|]. cbn [negb]. reflexivity.
Qed.
Lemma tokc_app_text txt : forall rest cur, ~ In 60 txt -> tokc (txt ++ rest) cur = tokc rest (rev txt ++ cur).
Proof.
  induction txt as [|c t IH]; intros rest cur H; [reflexivity|]. cbn [app rev].
  rewrite tokc_text by (intros E; apply H; left; congruence).
  rewrite IH by (intros Hin; apply H; right; exact Hin). rewrite <- app_assoc. reflexivity.
Qed.

Lemma consumed_app p rest : consumed (p ++ rest) rest = p.
Proof.
  unfold consumed. rewrite app_length. replace (length p + length rest - length rest)%nat with (length p + 0)%nat by lia.
  rewrite firstn_app_2. cbn [firstn]. apply app_nil_r.
Qed.

(* one-step unfoldings with abstract fuel *)
Lemma tf_lt_letter f d t2 cur : is_letter d = true ->
  tokenize_fuel (S f) (60 :: d :: t2) cur =
  flush cur ++ match read_tag (d :: t2) with
               | None => []
               | Some (name, attrs, rest) =>
                 let raw := consumed (60 :: d :: t2) rest in
                 let selfclose := match rev raw with _ :: x :: _ => x =? SLASH | _ => false end in
                 (if selfclose then HSelfClose name attrs raw else HStart name attrs raw) :: tokenize_fuel f rest []
               end.
Proof. intros H. cbn [tokenize_fuel]. change (negb (60 =? LT)) with false. cbv iota. rewrite H. reflexivity. Qed.

Lemma tf_lt_slash_letter f e t3 cur : is_letter e = true -> (e =? GT) = false ->
  tokenize_fuel (S f) (60 :: 47 :: e :: t3) cur =
  flush cur ++ match read_tag (e :: t3) with
               | None => []
               | Some (name, _, rest) => HEnd name (consumed (60 :: 47 :: e :: t3) rest) :: tokenize_fuel f rest []
               end.
Proof.
  intros H G. cbn [tokenize_fuel]. change (negb (60 =? LT)) with false. cbv iota.
  change (is_letter 47) with false. change (47 =? SLASH) with true. cbv iota. rewrite G, H. reflexivity.
Qed.

Definition is_biu (c : N) : Prop := c = 98 \/ c = 105 \/ c = 117.

Lemma read_tag_biu c rest : is_biu c -> read_tag (c :: 62 :: rest) = Some ([c], [], rest).
Proof. intros [-> | [-> | ->]]; reflexivity. Qed.

Lemma tokc_open c rest cur : is_biu c ->
  tokc (60 :: c :: 62 :: rest) cur = flush cur ++ HStart [c] [] [60; c; 62] :: tokc rest [].
Proof.
  intros Hc. unfold tokc at 1.
  assert (L : is_letter c = true) by (destruct Hc as [-> | [-> | ->]]; reflexivity).
  rewrite (tf_lt_letter _ _ _ _ L), (read_tag_biu c rest Hc). f_equal. cbv zeta.
  change (60 :: c :: 62 :: rest) with ([60; c; 62] ++ rest). rewrite consumed_app. cbn [rev app].
  assert (S0 : (c =? SLASH) = false) by (destruct Hc as [-> | [-> | ->]]; reflexivity). rewrite S0.
  f_equal. apply tokc_fuel. rewrite ?app_length. cbn [length]. lia.
Qed.

Lemma tokc_close c rest cur : is_biu c ->
  tokc (60 :: 47 :: c :: 62 :: rest) cur = flush cur ++ HEnd [c] [60; 47; c; 62] :: tokc rest [].
Proof.
  intros Hc. unfold tokc at 1.
  assert (G : (c =? GT) = false) by (destruct Hc as [-> | [-> | ->]]; reflexivity).
  assert (L : is_letter c = true) by (destruct Hc as [-> | [-> | ->]]; reflexivity).
  rewrite (tf_lt_slash_letter _ _ _ _ L G), (read_tag_biu c rest Hc). f_equal.
  change (60 :: 47 :: c :: 62 :: rest) with ([60; 47; c; 62] ++ rest). rewrite consumed_app.
  f_equal. apply tokc_fuel. rewrite ?app_length. cbn [length]. lia.
Qed.

Lemma read_tag_font_close rest : read_tag (102 :: 111 :: 110 :: 116 :: 62 :: rest) = Some (n_font, [], rest).
Proof. reflexivity. Qed.

Lemma tokc_font_close rest cur :
  tokc (s_font_close ++ rest) cur = flush cur ++ HEnd n_font s_font_close :: tokc rest [].
Proof.
  unfold tokc at 1. unfold s_font_close at 2. cbn [app].
  rewrite (tf_lt_slash_letter _ 102 _ _ eq_refl eq_refl), read_tag_font_close. f_equal.
  change (60 :: 47 :: 102 :: 111 :: 110 :: 116 :: 62 :: rest) with (s_font_close ++ rest). rewrite consumed_app.
  f_equal. apply tokc_fuel. rewrite app_length. change (length s_font_close) with 7%nat. lia.
Qed.

Lemma read_until_quote_app q v : forall rest acc, ~ In q v ->
  read_until_quote q (v ++ q :: rest) acc = Some (rev acc ++ v, rest).
Proof.
  induction v as [|c t IH]; intros rest acc H; cbn [app read_until_quote].
  - rewrite N.eqb_refl, app_nil_r. reflexivity.
  - destruct (c =? q) eqn:E; [apply N.eqb_eq in E; exfalso; apply H; left; exact E|].
    rewrite IH by (intros Hin; apply H; right; exact Hin). cbn [rev]. rewrite <- app_assoc. reflexivity.
Qed.

Lemma read_name_font X : read_name (102 :: 111 :: 110 :: 116 :: 32 :: X) [] = Some (n_font, X).
Proof. reflexivity. Qed.
Lemma read_key_color X : read_key (99 :: 111 :: 108 :: 111 :: 114 :: 61 :: X) [] = Some (n_color, 61 :: X).
Proof. reflexivity. Qed.
Lemma read_val_quoted X : read_val (61 :: 34 :: X) = read_until_quote 34 X [].
Proof. reflexivity. Qed.

Lemma read_attrs_color f col rest : ~ In 34 col ->
  read_attrs (S (S f)) (99 :: 111 :: 108 :: 111 :: 114 :: 61 :: 34 :: col ++ 34 :: 62 :: rest) [] = Some ([(n_color, col)], rest).
Proof.
  intros H. cbn [read_attrs]. change (99 =? GT) with false. cbv iota.
  rewrite read_key_color, read_val_quoted, (read_until_quote_app 34 col (62 :: rest) [] H).
  cbn [rev app]. change (skip_ws (62 :: rest)) with (62 :: rest). cbv iota.
  change (62 =? GT) with true. cbv iota. reflexivity.
Qed.

Lemma read_tag_font col rest : ~ In 34 col ->
  read_tag (102 :: 111 :: 110 :: 116 :: 32 :: 99 :: 111 :: 108 :: 111 :: 114 :: 61 :: 34 :: col ++ 34 :: 62 :: rest)
  = Some (n_font, [(n_color, col)], rest).
Proof.
  intros H. unfold read_tag. rewrite read_name_font.
  change (skip_ws (99 :: ?X)) with (99 :: X). cbv iota. cbn [length].
  rewrite (read_attrs_color _ col rest H). reflexivity.
Qed.

Lemma tokc_font col rest cur : ~ In 34 col ->
  tokc (s_font_open ++ col ++ [34; 62] ++ rest) cur =
  flush cur ++ HStart n_font [(n_color, col)] (s_font_open ++ col ++ [34; 62]) :: tokc rest [].
Proof.
  intros H. unfold tokc at 1. unfold s_font_open at 2. cbn [app].
  rewrite (tf_lt_letter _ 102 _ _ eq_refl), (read_tag_font col rest H). f_equal. cbv zeta.
  change (60 :: 102 :: 111 :: 110 :: 116 :: 32 :: 99 :: 111 :: 108 :: 111 :: 114 :: 61 :: 34 :: col ++ 34 :: 62 :: rest)
    with (s_font_open ++ col ++ [34; 62] ++ rest).
  replace (s_font_open ++ col ++ [34; 62] ++ rest) with ((s_font_open ++ col ++ [34; 62]) ++ rest) by (rewrite <- !app_assoc; reflexivity).
  rewrite consumed_app.
  assert (R : match rev (s_font_open ++ col ++ [34; 62]) with _ :: x :: _ => x =? SLASH | _ => false end = false).
  { rewrite !rev_app_distr. reflexivity. }
  rewrite R. f_equal. apply tokc_fuel. rewrite !app_length. cbn [length]. lia.
Qed.

Global Opaque tokc.

(* ================= representable runs and lines ================= *)
(* a colour the writer can put between the quotes of the font tag's color attribute and that every HTML tokenizer reads back
   unchanged: not empty (the writer omits the tag), no double quote (ends the value), no '&' (start of a character reference: the real tokenizer
   unescapes them inside attribute values and the writer does not escape), no CR (the real tokenizer turns it into LF), no NUL *)
Definition col_ok (c : str) : Prop := c <> [] /\ ~ In 34 c /\ ~ In 38 c /\ ~ In 13 c /\ ~ In 0 c.
Definition repr_run (r : srun) : Prop :=
  sr_pos r = 0 /\ trim_space (escape_html (sr_text r)) <> [] /\
  match sr_sty r with
  | None => True
  | Some a => sa_styled a = true /\ match sa_col a with None => True | Some c => col_ok c end
  end /\
  ~ In 0 (sr_text r).
Definition has_tags (r : srun) : bool := match sr_sty r with Some _ => true | None => false end.
Fixpoint no_adj (l : list srun) : Prop :=
  match l with
  | r1 :: ((r2 :: _) as t) => (has_tags r1 || has_tags r2 = true) /\ no_adj t
  | _ => True
  end.

(* the tokens of a written run *)
Definition run_toks (r : srun) : list htok :=
  let '(color, b, i, u) := match sr_sty r with
                           | Some a => (match sa_col a with Some c => c | None => [] end, sa_b a, sa_i a, sa_u a)
                           | None => ([], false, false, false)
                           end in
  (match color with [] => [] | _ => [HStart n_font [(n_color, color)] (s_font_open ++ color ++ [34; 62])] end) ++
  (if b then [HStart [98] [] (tag_open 98)] else []) ++ (if i then [HStart [105] [] (tag_open 105)] else []) ++
  (if u then [HStart [117] [] (tag_open 117)] else []) ++
  [HText (escape_html (sr_text r))] ++
  (if u then [HEnd [117] (tag_close 117)] else []) ++ (if i then [HEnd [105] (tag_close 105)] else []) ++
  (if b then [HEnd [98] (tag_close 98)] else []) ++
  (match color with [] => [] | _ => [HEnd n_font s_font_close] end).

Lemma flush_rev_text e : e <> [] -> flush (rev e ++ []) = [HText e].
Proof.
  intros H. rewrite app_nil_r. unfold flush. destruct (rev e) eqn:E.
  - exfalso. apply H. rewrite <- (rev_involutive e), E. reflexivity.
  - rewrite <- E, rev_involutive. reflexivity.
Qed.

Lemma repr_run_esc_nonnil r : repr_run r -> escape_html (sr_text r) <> [].
Proof. intros (_ & H & _) E. apply H. rewrite E. reflexivity. Qed.

Lemma biu98 : is_biu 98. Proof. left; reflexivity. Qed.
Lemma biu105 : is_biu 105. Proof. right; left; reflexivity. Qed.
Lemma biu117 : is_biu 117. Proof. right; right; reflexivity. Qed.

Lemma tokc_font' col rest cur : ~ In 34 col ->
  tokc (s_font_open ++ col ++ 34 :: 62 :: rest) cur =
  flush cur ++ HStart n_font [(n_color, col)] (s_font_open ++ col ++ [34; 62]) :: tokc rest [].
Proof. exact (tokc_font col rest cur). Qed.

(* a run with tags: self-contained *)
Lemma tokc_run_tagged r rest cur : repr_run r -> has_tags r = true ->
  tokc (run_bytes r ++ rest) cur = flush cur ++ run_toks r ++ tokc rest [].
Proof.
  intros Hr Ht. pose proof (repr_run_esc_nonnil r Hr) as Hne.
  destruct Hr as (Hp & _ & Hs & _). unfold run_bytes, run_toks. rewrite Hp. change (0 =? 0) with true. cbv iota.
  pose proof (escape_no_lt (sr_text r)) as Hlt.
  set (e := escape_html (sr_text r)) in *. clearbody e.
  unfold has_tags in Ht. destruct (sr_sty r) as [a|]; [|discriminate]. destruct Hs as (Hst & Hc).
  destruct a as [b i u col]. cbn [sa_b sa_i sa_u sa_col] in *. unfold sa_styled in Hst. cbn [sa_b sa_i sa_u sa_col] in Hst.
  destruct col as [c|].
  - destruct Hc as (Hcne & Hq & _). destruct c as [|c0 c]; [contradiction|]. set (cc := c0 :: c) in *. clearbody cc.
    destruct b, i, u; cbv iota; rewrite <- ?app_assoc; cbn [app tag_open tag_close];
      rewrite (tokc_font' cc _ cur Hq);
      repeat (first [ rewrite (tokc_open 98 _ _ biu98) | rewrite (tokc_open 105 _ _ biu105) | rewrite (tokc_open 117 _ _ biu117)
                    | rewrite (tokc_close 98 _ _ biu98) | rewrite (tokc_close 105 _ _ biu105) | rewrite (tokc_close 117 _ _ biu117)
                    | rewrite tokc_font_close | rewrite (tokc_app_text e _ _ Hlt) | rewrite (flush_rev_text e Hne) ]; cbn [flush app]);
      reflexivity.
  - destruct b, i, u; try discriminate; cbv iota; rewrite <- ?app_assoc; cbn [app tag_open tag_close];
      repeat (first [ rewrite (tokc_open 98 _ _ biu98) | rewrite (tokc_open 105 _ _ biu105) | rewrite (tokc_open 117 _ _ biu117)
                    | rewrite (tokc_close 98 _ _ biu98) | rewrite (tokc_close 105 _ _ biu105) | rewrite (tokc_close 117 _ _ biu117)
                    | rewrite (tokc_app_text e _ _ Hlt) | rewrite (flush_rev_text e Hne) ]; cbn [flush app]);
      reflexivity.
Qed.

(* the tokens of a whole line *)
Lemma tokc_line : forall l cur, Forall repr_run l -> no_adj l ->
  (cur <> [] -> match l with r :: _ => has_tags r = true | [] => True end) ->
  tokc (concat (map run_bytes l)) cur = flush cur ++ concat (map run_toks l).
Proof.
  induction l as [|r l IH]; intros cur Hl Hadj Hcur.
  - cbn [map concat]. rewrite tokc_nil, app_nil_r. reflexivity.
  - inversion Hl as [|? ? Hr Hl']; subst. cbn [map concat].
    destruct (has_tags r) eqn:Ht.
    + rewrite (tokc_run_tagged r _ cur Hr Ht). rewrite IH.
      * cbn [flush app]. reflexivity.
      * exact Hl'.
      * destruct l; [exact I | apply Hadj].
      * intros C; contradiction.
    + assert (Ec : cur = []). { destruct cur; [reflexivity|]. assert (C : false = true) by (apply Hcur; discriminate). discriminate. }
      subst cur. cbn [flush app].
      assert (Eb : run_bytes r = escape_html (sr_text r)).
      { destruct Hr as (Hp & _). unfold run_bytes, has_tags in *. destruct (sr_sty r); [discriminate|]. rewrite Hp.
        change (0 =? 0) with true. cbn [app]. rewrite app_nil_r. reflexivity. }
      assert (Et : run_toks r = [HText (escape_html (sr_text r))]).
      { unfold run_toks, has_tags in *. destruct (sr_sty r); [discriminate|]. reflexivity. }
      rewrite Eb, Et. rewrite (tokc_app_text _ _ _ (escape_no_lt _)). rewrite IH.
      * rewrite (flush_rev_text _ (repr_run_esc_nonnil r Hr)). reflexivity.
      * exact Hl'.
      * destruct l; [exact I | apply Hadj].
      * intros _. destruct l as [|r2 l]; [exact I|]. destruct Hadj as [Ha _]. rewrite Ht in Ha. exact Ha.
Qed.

(* parse_toks, token by token *)
Lemma pt_start_b raw T a acc : parse_toks (HStart [98] [] raw :: T) a acc = parse_toks T (mkSa true (sa_i a) (sa_u a) (sa_col a)) acc.
Proof. reflexivity. Qed.
Lemma pt_start_i raw T a acc : parse_toks (HStart [105] [] raw :: T) a acc = parse_toks T (mkSa (sa_b a) true (sa_u a) (sa_col a)) acc.
Proof. reflexivity. Qed.
Lemma pt_start_u raw T a acc : parse_toks (HStart [117] [] raw :: T) a acc = parse_toks T (mkSa (sa_b a) (sa_i a) true (sa_col a)) acc.
Proof. reflexivity. Qed.
Lemma pt_start_font c raw T a acc : parse_toks (HStart n_font [(n_color, c)] raw :: T) a acc = parse_toks T (mkSa (sa_b a) (sa_i a) (sa_u a) (Some c)) acc.
Proof. reflexivity. Qed.
Lemma pt_end_b raw T a acc : parse_toks (HEnd [98] raw :: T) a acc = parse_toks T (mkSa false (sa_i a) (sa_u a) (sa_col a)) acc.
Proof. reflexivity. Qed.
Lemma pt_end_i raw T a acc : parse_toks (HEnd [105] raw :: T) a acc = parse_toks T (mkSa (sa_b a) false (sa_u a) (sa_col a)) acc.
Proof. reflexivity. Qed.
Lemma pt_end_u raw T a acc : parse_toks (HEnd [117] raw :: T) a acc = parse_toks T (mkSa (sa_b a) (sa_i a) false (sa_col a)) acc.
Proof. reflexivity. Qed.
Lemma pt_end_font raw T a acc : parse_toks (HEnd n_font raw :: T) a acc = parse_toks T (mkSa (sa_b a) (sa_i a) (sa_u a) None) acc.
Proof. reflexivity. Qed.
Lemma pt_text raw T a acc : trim_space raw <> [] ->
  parse_toks (HText raw :: T) a acc = parse_toks T a (mkSrun (unescape_html raw) (if sa_styled a then Some a else None) 0 :: acc).
Proof. intros H. cbn [parse_toks]. destruct (trim_space raw); [contradiction | reflexivity]. Qed.

Lemma parse_run_toks r T acc : repr_run r ->
  parse_toks (run_toks r ++ T) sa0 acc = parse_toks T sa0 (r :: acc).
Proof.
  intros (Hp & Hne & Hs & _). destruct r as [text sty pos]. cbn [sr_pos sr_text sr_sty] in *. subst pos.
  unfold run_toks. cbn [sr_sty sr_text].
  destruct sty as [a|].
  - destruct Hs as (Hst & Hc). destruct a as [b i u col]. cbn [sa_b sa_i sa_u sa_col] in *.
    unfold sa_styled in Hst. cbn [sa_b sa_i sa_u sa_col] in Hst.
    destruct col as [c|].
    + destruct Hc as (Hcne & _). destruct c as [|c0 c]; [contradiction|]. set (cc := c0 :: c) in *. clearbody cc.
      destruct b, i, u; cbn [app]; unfold sa0;
        rewrite ?pt_start_font, ?pt_start_b, ?pt_start_i, ?pt_start_u; cbn [sa_b sa_i sa_u sa_col];
        rewrite (pt_text _ _ _ _ Hne), unescape_escape; unfold sa_styled; cbn [sa_b sa_i sa_u sa_col orb];
        rewrite ?pt_end_u, ?pt_end_i, ?pt_end_b, ?pt_end_font; cbn [sa_b sa_i sa_u sa_col]; reflexivity.
    + destruct b, i, u; try discriminate; cbn [app]; unfold sa0;
        rewrite ?pt_start_font, ?pt_start_b, ?pt_start_i, ?pt_start_u; cbn [sa_b sa_i sa_u sa_col];
        rewrite (pt_text _ _ _ _ Hne), unescape_escape; unfold sa_styled; cbn [sa_b sa_i sa_u sa_col orb];
        rewrite ?pt_end_u, ?pt_end_i, ?pt_end_b, ?pt_end_font; cbn [sa_b sa_i sa_u sa_col]; reflexivity.
  - cbn [app]. rewrite (pt_text _ _ _ _ Hne), unescape_escape. reflexivity.
Qed.

Lemma parse_line_toks : forall l acc, Forall repr_run l ->
  parse_toks (concat (map run_toks l)) sa0 acc = (rev acc ++ l, sa0).
Proof.
  induction l as [|r l IH]; intros acc Hl.
  - cbn [map concat parse_toks]. rewrite app_nil_r. reflexivity.
  - inversion Hl as [|? ? Hr Hl']; subst. cbn [map concat]. rewrite (parse_run_toks r _ acc Hr), (IH _ Hl').
    cbn [rev]. rewrite <- app_assoc. reflexivity.
Qed.

Definition line_str (l : list srun) : str := concat (map run_bytes l).

(* Part 2: representable lines *)
Definition repr_line (l : list srun) : Prop :=
  Forall repr_run l /\ no_adj l /\ trim_space (line_str l) <> [].

Theorem parse_written_line : forall l, repr_line l -> parse_text_srt (concat (map run_bytes l)) sa0 = (l, sa0).
Proof.
  intros l (Hl & Hadj & Hne). unfold parse_text_srt. fold (line_str l).
  destruct (trim_space (line_str l)) eqn:E; [contradiction|].
  rewrite tokenize_tokc. unfold line_str. rewrite (tokc_line l [] Hl Hadj) by (intros C; contradiction).
  cbn [flush app]. rewrite (parse_line_toks l [] Hl). reflexivity.
Qed.

(* ================= Part 3: string-level facts ================= *)
Lemma prefix_head_ne h sp c t : c <> h -> prefix (h :: sp) (c :: t) = None.
Proof. intros H. cbn [prefix]. destruct (h =? c) eqn:E; [apply N.eqb_eq in E; congruence | reflexivity]. Qed.

Lemma cut_fuel_none h sp : forall s fuel, ~ In h s -> cut_fuel fuel (h :: sp) s = None.
Proof.
  induction s as [|c t IH]; intros fuel H; destruct fuel as [|f]; try reflexivity.
  cbn [cut_fuel]. rewrite prefix_head_ne by (intros E; apply H; left; exact E).
  rewrite IH by (intros Hin; apply H; right; exact Hin). reflexivity.
Qed.
Lemma cut_none h sp s : ~ In h s -> cut (h :: sp) s = None.
Proof. intros H. apply cut_fuel_none. exact H. Qed.

Lemma cut_fuel_found h sp b : forall a fuel, ~ In h a -> (length a < fuel)%nat ->
  cut_fuel fuel (h :: sp) (a ++ (h :: sp) ++ b) = Some (a, b).
Proof.
  induction a as [|c t IH]; intros fuel H Hf; (destruct fuel as [|f]; [lia|]).
  - cbn [cut_fuel app]. change (h :: sp ++ b) with ((h :: sp) ++ b). rewrite prefix_app. reflexivity.
  - cbn [cut_fuel app]. rewrite prefix_head_ne by (intros E; apply H; left; exact E).
    rewrite IH; [reflexivity | intros Hin; apply H; right; exact Hin | cbn [length] in Hf; lia].
Qed.
Lemma cut_found h sp a b : ~ In h a -> cut (h :: sp) (a ++ (h :: sp) ++ b) = Some (a, b).
Proof. intros H. apply cut_fuel_found; [exact H|]. rewrite app_length. lia. Qed.

Lemma contains_none h sp s : ~ In h s -> contains (h :: sp) s = false.
Proof. intros H. unfold contains. rewrite (cut_none h sp s H). reflexivity. Qed.
Lemma contains_found h sp a b : ~ In h a -> contains (h :: sp) (a ++ (h :: sp) ++ b) = true.
Proof. intros H. unfold contains. rewrite (cut_found h sp a b H). reflexivity. Qed.

Lemma split_once h sp a b : ~ In h a -> ~ In h b -> Str.split (h :: sp) (a ++ (h :: sp) ++ b) = [a; b].
Proof.
  intros Ha Hb. unfold Str.split. cbn [split_fuel]. rewrite (cut_found h sp a b Ha). f_equal.
  destruct (length (a ++ (h :: sp) ++ b)) as [|f]; [reflexivity|]. cbn [split_fuel]. rewrite (cut_none h sp b Hb). reflexivity.
Qed.

(* plain bytes: ASCII, not white space *)
Definition all_plain (s : str) : Prop := Forall (fun c => plain_byte c = true) s.

Lemma strip_space1_plain c r : plain_byte c = true -> strip_space1 (c :: r) = None.
Proof.
  unfold plain_byte. intros H. apply andb_true_iff in H. destruct H as [H1 H2]. apply negb_true_iff in H1.
  cbn [strip_space1]. rewrite H1, H2. reflexivity.
Qed.

Lemma fields_fuel_plain : forall s fuel cur, all_plain s -> (length s < fuel)%nat -> (cur <> [] \/ s <> []) ->
  fields_fuel fuel cur s = [rev cur ++ s].
Proof.
  induction s as [|c r IH]; intros fuel cur Hp Hf Hne; (destruct fuel as [|f]; [lia|]).
  - cbn [fields_fuel]. rewrite app_nil_r. destruct cur; [destruct Hne; contradiction | reflexivity].
  - inversion Hp as [|? ? Hc Hr]; subst. cbn [fields_fuel]. rewrite (strip_space1_plain c r Hc).
    rewrite IH; [|exact Hr | cbn [length] in Hf; lia | left; discriminate].
    cbn [rev]. rewrite <- app_assoc. reflexivity.
Qed.
Lemma fields_sp_plain s : all_plain s -> s <> [] -> fields (32 :: s) = [s].
Proof.
  intros Hp Hne. unfold fields.
  assert (E : forall f, fields_fuel (S f) [] (32 :: s) = fields_fuel f [] s) by reflexivity. rewrite E. cbn [length].
  rewrite fields_fuel_plain; [reflexivity | exact Hp | lia | right; exact Hne].
Qed.

Lemma digits_all_plain s : digits s -> all_plain s.
Proof.
  unfold digits, all_plain. intros H. apply Forall_forall. intros c Hc. apply is_digit_plain.
  rewrite forallb_forall in H. apply H. exact Hc.
Qed.
Lemma all_plain_app a b : all_plain a -> all_plain b -> all_plain (a ++ b).
Proof. apply Forall_app_intro || (intros; apply Forall_app; split; assumption). Qed.
Lemma all_plain_not_in s c : all_plain s -> plain_byte c = false -> ~ In c s.
Proof. intros H Hc Hin. unfold all_plain in H. rewrite Forall_forall in H. rewrite (H c Hin) in Hc. discriminate. Qed.

(* trim_space on the lines the writer produces *)
Lemma trim_space_all_plain s : all_plain s -> trim_space s = s.
Proof.
  intros H. destruct s as [|c r]; [reflexivity|]. apply trim_space_plain; [discriminate | |].
  - inversion H; assumption.
  - unfold all_plain in H. rewrite Forall_forall in H. apply H.
    destruct (@exists_last _ (c :: r) ltac:(discriminate)) as (s' & z & E). rewrite E, last_last. apply in_or_app. right. left. reflexivity.
Qed.

Lemma trim_left_bom r : trim_left (bom ++ r) = bom ++ r.
Proof. reflexivity. Qed.

Lemma trim_space_bom_plain s : all_plain s -> s <> [] -> trim_space (bom ++ s) = bom ++ s.
Proof.
  intros Hp Hne. unfold trim_space. rewrite trim_left_bom.
  destruct (@exists_last _ s Hne) as (s' & z & E). rewrite E, app_assoc. apply trim_right_plain.
  unfold all_plain in Hp. rewrite Forall_forall in Hp. apply Hp. rewrite E. apply in_or_app. right. left. reflexivity.
Qed.

Lemma trim_space_plain_sp s : all_plain s -> s <> [] -> trim_space (s ++ [32]) = s.
Proof.
  intros Hp Hne. unfold trim_space.
  destruct s as [|c r]; [contradiction|]. inversion Hp as [|? ? Hc Hr]; subst.
  change ((c :: r) ++ [32]) with (c :: (r ++ [32])). rewrite (trim_left_plain c _ Hc).
  change (c :: (r ++ [32])) with ((c :: r) ++ [32]).
  destruct (@exists_last _ (c :: r) Hne) as (s' & z & E). rewrite E in *. clear E.
  unfold trim_right. rewrite app_length. cbn [length]. replace (length (s' ++ [z]) + 1)%nat with (S (length (s' ++ [z]))) by lia.
  rewrite !rev_app_distr. cbn [rev app].
  cbn [trim_right_fuel strip_space1_rev]. change (is_ascii_space 32) with true. cbv iota.
  assert (Hz : plain_byte z = true).
  { unfold all_plain in Hp. rewrite Forall_forall in Hp. apply Hp. apply in_or_app. right. left. reflexivity. }
  assert (R : forall n, trim_right_fuel n (z :: rev s') = z :: rev s').
  { intros [|n]; [reflexivity|]. cbn [trim_right_fuel strip_space1_rev]. unfold plain_byte in Hz.
    apply andb_true_iff in Hz. destruct Hz as [H1 H2]. apply negb_true_iff in H1. rewrite H1, H2. reflexivity. }
  rewrite R. cbn [rev]. rewrite rev_involutive. reflexivity.
Qed.

(* UTF-8 validity of ASCII lines *)
Definition all_ascii (s : str) : Prop := Forall (fun c => c < 128) s.
Lemma utf8_valid_fuel_ascii : forall s fuel, all_ascii s -> utf8_valid_fuel fuel s = true.
Proof.
  induction s as [|c r IH]; intros fuel H; destruct fuel as [|f]; try reflexivity.
  inversion H as [|? ? Hc Hr]; subst. cbn [utf8_valid_fuel]. apply N.ltb_lt in Hc. rewrite Hc. apply IH. exact Hr.
Qed.
Lemma utf8_valid_ascii s : all_ascii s -> utf8_valid s = true.
Proof. intros H. apply utf8_valid_fuel_ascii. exact H. Qed.
Lemma utf8_valid_bom_ascii s : all_ascii s -> utf8_valid (bom ++ s) = true.
Proof.
  intros H. unfold utf8_valid, bom. cbn [app].
  assert (E : forall f, utf8_valid_fuel (S f) (239 :: 187 :: 191 :: s) = utf8_valid_fuel f s) by reflexivity.
  rewrite E. apply utf8_valid_fuel_ascii. exact H.
Qed.
Lemma all_plain_ascii s : all_plain s -> all_ascii s.
Proof.
  unfold all_plain, all_ascii. intros H. eapply Forall_impl; [|exact H]. cbv beta. intros c Hc.
  unfold plain_byte in Hc. apply andb_true_iff in Hc. destruct Hc as [_ Hc]. apply N.ltb_lt. exact Hc.
Qed.

(* ================= Part 3: timestamps and indices ================= *)
Definition trunc_ms (t : Z) : Z := (t - t mod 1000000)%Z.

Lemma sep_ok_comma : sep_ok comma. Proof. split; [reflexivity | discriminate]. Qed.

Lemma format_srt_all_plain t : (0 <= t)%Z -> all_plain (format_srt t) /\ format_srt t <> [].
Proof.
  intros Ht. unfold format_srt.
  destruct (format_grammar comma 3 t ltac:(lia) Ht) as (E & Dh & Lh & Dm & _ & _ & Ds & _ & _ & Df & _).
  rewrite E. split.
  - apply all_plain_app; [apply digits_all_plain; exact Dh|]. apply all_plain_app; [repeat constructor|].
    apply all_plain_app; [apply digits_all_plain; exact Dm|]. apply all_plain_app; [repeat constructor|].
    apply all_plain_app; [apply digits_all_plain; exact Ds|]. apply all_plain_app; [repeat constructor|].
    apply digits_all_plain; exact Df.
  - destruct (two (f_h t)); [cbn [length] in Lh; lia | discriminate].
Qed.

Lemma parse_srt_format t : (0 <= t <= max_int64)%Z -> parse_srt (format_srt t) = Some (trunc_ms t).
Proof.
  intros Ht. unfold parse_srt, format_srt. rewrite (parse_format comma 3 t sep_ok_comma ltac:(lia) Ht). reflexivity.
Qed.

(* the left-hand timestamp is followed by a space *)
Lemma parse_srt_format_sp t : (0 <= t <= max_int64)%Z -> parse_srt (format_srt t ++ [32]) = Some (trunc_ms t).
Proof.
  intros [Ht Hmax]. unfold parse_srt, format_srt.
  assert (Hk : (1 <= 3 <= 3)%nat) by lia.
  destruct (format_grammar comma 3 t Hk Ht) as (E & Dh & _ & Dm & _ & Bm & Ds & _ & Bs & Df & Lf).
  destruct (fields_bounds 3 t Hk Ht) as (Bh & _ & _ & Bf & Hsum).
  rewrite E. unfold parse_duration.
  set (HMS := two (f_h t) ++ [colon] ++ two (f_m t) ++ [colon] ++ two (f_s t)).
  set (F := pad_left 48%N 3 (itoa_z (f_fr 3 t))) in *.
  assert (Esplit : split_byte comma ((two (f_h t) ++ [colon] ++ two (f_m t) ++ [colon] ++ two (f_s t) ++ [comma] ++ F) ++ [32]) = [HMS; F ++ [32]]).
  { replace ((two (f_h t) ++ [colon] ++ two (f_m t) ++ [colon] ++ two (f_s t) ++ [comma] ++ F) ++ [32]) with (HMS ++ comma :: (F ++ [32]))
      by (unfold HMS; rewrite <- !app_assoc; reflexivity).
    rewrite split_byte_app by (apply hms_no_sep; [exact sep_ok_comma | assumption ..]).
    rewrite split_byte_none; [reflexivity|].
    intros Hin. apply in_app_or in Hin. destruct Hin as [Hin | [Hin | []]]; [|discriminate].
    exact (digits_not_in F comma Df eq_refl Hin). }
  rewrite Esplit. cbn [rev app].
  assert (HneF : F <> []). { intros EF. rewrite EF in Lf. cbn in Lf. lia. }
  rewrite (trim_space_plain_sp F (digits_all_plain F Df) HneF). rewrite Lf.
  change (Nat.ltb 3 3) with false. cbv iota.
  rewrite (atoi_no_sign F Df HneF). unfold F at 1. rewrite (proj2 (frac_digits 3 (f_fr 3 t) (proj1 Bf))).
  rewrite Z2N.id by lia.
  assert (Hfr_small : (f_fr 3 t < 1000)%Z) by (change (10 ^ Z.of_nat 3)%Z with 1000%Z in Bf; lia).
  destruct ((f_fr 3 t <? - max_int64 - 1)%Z || (max_int64 <? f_fr 3 t)%Z) eqn:B.
  { apply orb_true_iff in B. unfold max_int64 in *. destruct B as [B|B]; apply Z.ltb_lt in B; lia. }
  cbn [join].
  assert (Hh : (f_h t <= max_int64)%Z).
  { unfold f_h, hour_ns. assert (t / 3600000000000 <= t)%Z by (apply Z.div_le_upper_bound; lia). lia. }
  unfold HMS. rewrite parse_hms_spec by (unfold max_int64 in *; lia).
  f_equal. unfold trunc_ms. change 1000000%Z with (frac_div 3). rewrite <- Hsum. unfold pow10_int, ms_ns, frac_div. cbn. lia.
Qed.

Lemma atoi_val_itoa n : (Z.of_N n <= max_int64)%Z -> atoi_val (itoa n) = Z.of_N n.
Proof.
  intros Hr. unfold atoi_val.
  pose proof (digit_head_not_sign (itoa n) (itoa_digits n) (itoa_nonnil n)) as Hs.
  destruct (itoa n) as [|c r] eqn:E0; [exfalso; exact (itoa_nonnil n E0)|].
  assert (Hm : match c :: r with 45 :: r0 => (true, r0) | 43 :: r0 => (false, r0) | _ => (false, c :: r) end = (false, c :: r)).
  { destruct c as [|p]; [reflexivity|]. do 8 (destruct p as [p|p|]; try reflexivity; try contradiction). }
  rewrite Hm. rewrite <- E0, atoi_digits_itoa.
  destruct (Z.of_N n <? - max_int64 - 1)%Z eqn:B1; [apply Z.ltb_lt in B1; unfold max_int64 in *; lia|].
  destruct (max_int64 <? Z.of_N n)%Z eqn:B2; [apply Z.ltb_lt in B2; lia | reflexivity].
Qed.

(* ================= Part 3: pending-cue logic ================= *)
Definition line_keeps (l : list srun) : Prop := exists l0 r, l = l0 ++ [r] /\ sr_text r <> [].
Definition blank_run : srun := mkSrun [] None 0.

Lemma strip_line_keep l : line_keeps l -> l <> [] /\ rev (strip_runs_rev (rev l)) = l.
Proof.
  intros (l0 & r & -> & Hr). split; [destruct l0; discriminate|].
  rewrite rev_app_distr. cbn [rev app strip_runs_rev]. destruct (sr_text r) eqn:E; [contradiction|].
  cbn [rev]. rewrite rev_involutive. reflexivity.
Qed.

Lemma strip_lines_cons_keep l rest : line_keeps l -> strip_lines (l :: rest) = l :: strip_lines rest.
Proof.
  intros H. destruct (strip_line_keep l H) as (Hne & E). cbn [strip_lines].
  destruct l as [|r0 l']; [contradiction|]. rewrite E. reflexivity.
Qed.

Lemma strip_lines_keep ls : Forall line_keeps ls -> strip_lines ls = ls.
Proof.
  induction ls as [|l ls IH]; intros H; [reflexivity|]. inversion H as [|? ? Hl Hls]; subst.
  rewrite (strip_lines_cons_keep l ls Hl), (IH Hls). reflexivity.
Qed.

Lemma strip_lines_app_blank ls : Forall line_keeps ls -> strip_lines (ls ++ [[blank_run]]) = ls.
Proof.
  induction ls as [|l ls IH]; intros H; [reflexivity|]. inversion H as [|? ? Hl Hls]; subst.
  cbn [app]. rewrite (strip_lines_cons_keep l _ Hl), (IH Hls). reflexivity.
Qed.

Lemma finalize_first idx : idx <> [] -> finalize [[mkSrun idx None 0]] = ([], idx).
Proof. intros H. unfold finalize. cbn [rev app run_texts map sr_text concat]. rewrite app_nil_r. destruct idx; [contradiction | reflexivity]. Qed.

Lemma finalize_next ls idx : Forall line_keeps ls -> idx <> [] ->
  finalize ((ls ++ [[blank_run]]) ++ [[mkSrun idx None 0]]) = (ls, idx).
Proof.
  intros Hls H. unfold finalize. rewrite rev_app_distr. cbn [rev app run_texts map sr_text concat]. rewrite app_nil_r.
  destruct idx as [|c r]; [contradiction|]. rewrite rev_involutive, (strip_lines_app_blank ls Hls). reflexivity.
Qed.

Lemma repr_run_text_nonnil r : repr_run r -> sr_text r <> [].
Proof. intros (_ & H & _) E. apply H. rewrite E. reflexivity. Qed.

Lemma repr_line_keeps l : repr_line l -> line_keeps l.
Proof.
  intros (Hl & _ & Hne). assert (Hn : l <> []) by (intros ->; apply Hne; reflexivity).
  destruct (@exists_last _ l Hn) as (l0 & r & E). exists l0, r. split; [exact E|].
  apply repr_run_text_nonnil. rewrite Forall_forall in Hl. apply Hl. rewrite E. apply in_or_app. right. left. reflexivity.
Qed.

(* ================= Part 3: one reader step ================= *)
Definition add_line (s : rstate) (rs : list srun) : rstate :=
  match r_cur s with
  | Some it => mkR (r_done s) (Some (mkSitem (si_idx it) (si_st it) (si_en it) (si_lines it ++ [rs]))) sa0 (r_pre s)
  | None => mkR (r_done s) None sa0 (r_pre s ++ [rs])
  end.

Lemma step_plain s (first : bool) raw line rs :
  trim_space raw = raw -> utf8_valid raw = true -> (if first then trim_prefix bom raw else raw) = line ->
  contains arrow line = false -> parse_text_srt line (r_sa s) = (rs, sa0) -> rs <> [] ->
  srt_step s first raw = Ok (add_line s rs).
Proof.
  intros Ht Hu Hl Hc Hp Hne. unfold srt_step. rewrite Ht, Hu. cbn [negb]. rewrite Hl, Hc, Hp.
  unfold add_line. destruct rs; [contradiction|]. destruct (r_cur s); reflexivity.
Qed.

(* a line of digits is a text line with one unstyled run *)
Lemma parse_text_digits d : digits d -> d <> [] -> parse_text_srt d sa0 = ([mkSrun d None 0], sa0).
Proof.
  intros Hd Hne. unfold parse_text_srt. rewrite (digits_trim d Hd Hne). destruct d as [|c r]; [contradiction|]. cbv iota.
  set (d := c :: r) in *.
  rewrite tokenize_tokc. rewrite <- (app_nil_r d) at 1.
  rewrite tokc_app_text by (apply digits_not_in; [exact Hd | reflexivity]). rewrite tokc_nil, flush_rev_text by exact Hne.
  rewrite pt_text by (rewrite (digits_trim d Hd Hne); exact Hne).
  rewrite unescape_no_amp by (apply digits_not_in; [exact Hd | reflexivity]). reflexivity.
Qed.

Lemma parse_text_blank a : parse_text_srt [] a = ([blank_run], a).
Proof. reflexivity. Qed.

Definition time_line (it : sitem) : str := format_srt (si_st it) ++ arrow_sp ++ format_srt (si_en it).

Definition time_ok (it : sitem) : Prop := (0 <= si_st it <= max_int64)%Z /\ (0 <= si_en it <= max_int64)%Z.

Lemma plain_45 : plain_byte 45 = true. Proof. reflexivity. Qed.

Lemma format_srt_no c t : (0 <= t)%Z -> (is_digit c || (c =? 58) || (c =? 44)) = false -> ~ In c (format_srt t).
Proof.
  intros Ht Hc. apply orb_false_iff in Hc. destruct Hc as [Hc H44]. apply orb_false_iff in Hc. destruct Hc as [Hd H58].
  apply N.eqb_neq in H44, H58.
  unfold format_srt.
  destruct (format_grammar comma 3 t ltac:(lia) Ht) as (E & Dh & Lh & Dm & _ & _ & Ds & _ & _ & Df & _).
  rewrite E. intros Hin.
  apply in_app_or in Hin; destruct Hin as [Hin|Hin]; [exact (digits_not_in _ c Dh Hd Hin)|].
  apply in_app_or in Hin; destruct Hin as [[Hin|[]]|Hin]; [unfold colon in Hin; congruence|].
  apply in_app_or in Hin; destruct Hin as [Hin|Hin]; [exact (digits_not_in _ c Dm Hd Hin)|].
  apply in_app_or in Hin; destruct Hin as [[Hin|[]]|Hin]; [unfold colon in Hin; congruence|].
  apply in_app_or in Hin; destruct Hin as [Hin|Hin]; [exact (digits_not_in _ c Ds Hd Hin)|].
  apply in_app_or in Hin; destruct Hin as [[Hin|[]]|Hin]; [unfold comma in Hin; congruence|].
  exact (digits_not_in _ c Df Hd Hin).
Qed.

Lemma step_time s it fl index :
  time_ok it ->
  finalize (match r_cur s with Some c => si_lines c | None => r_pre s end) = (fl, index) ->
  srt_step s false (time_line it) =
  Ok (mkR (close_cur s fl)
          (Some (mkSitem (match index with [] => 0%Z | _ => atoi_val index end) (trunc_ms (si_st it)) (trunc_ms (si_en it)) []))
          sa0 []).
Proof.
  intros ((Hs0 & Hs1) & (He0 & He1)) Hf. unfold srt_step.
  destruct (format_srt_all_plain (si_st it) Hs0) as (Ps & Ns). destruct (format_srt_all_plain (si_en it) He0) as (Pe & Ne).
  assert (Al : all_ascii (time_line it)).
  { unfold time_line, arrow_sp. apply Forall_app. split; [exact (all_plain_ascii _ Ps)|].
    apply Forall_app. split; [repeat constructor | exact (all_plain_ascii _ Pe)]. }
  assert (Tl : trim_space (time_line it) = time_line it).
  { unfold time_line. apply trim_space_plain.
    - destruct (format_srt (si_st it)); [contradiction | discriminate].
    - destruct (format_srt (si_st it)) as [|c r]; [contradiction|]. cbn [app hd]. inversion Ps; assumption.
    - destruct (@exists_last _ _ Ne) as (s' & z & E). rewrite E, !app_assoc, last_last.
      unfold all_plain in Pe. rewrite Forall_forall in Pe. apply Pe. rewrite E. apply in_or_app. right. left. reflexivity. }
  rewrite Tl, (utf8_valid_ascii _ Al). cbn [negb].
  assert (Eline : time_line it = (format_srt (si_st it) ++ [32]) ++ arrow ++ (32 :: format_srt (si_en it))).
  { unfold time_line, arrow_sp, arrow. rewrite <- !app_assoc. reflexivity. }
  assert (N1 : ~ In 45 (format_srt (si_st it) ++ [32])).
  { intros Hin. apply in_app_or in Hin. destruct Hin as [Hin|[Hin|[]]]; [|discriminate]. exact (format_srt_no 45 _ Hs0 eq_refl Hin). }
  assert (N2 : ~ In 45 (32 :: format_srt (si_en it))).
  { intros [Hin|Hin]; [discriminate|]. exact (format_srt_no 45 _ He0 eq_refl Hin). }
  rewrite Eline. unfold arrow. rewrite (contains_found 45 [45; 62] _ _ N1), Hf, (split_once 45 [45; 62] _ _ N1 N2).
  rewrite (fields_sp_plain _ Pe Ne).
  rewrite (parse_srt_format_sp _ (conj Hs0 Hs1)), (parse_srt_format _ (conj He0 He1)). reflexivity.
Qed.

(* ================= Part 3: the lines of a written document ================= *)
Definition nobrk (s : str) : Prop := forallb (fun c => negb (is_brk c)) s = true.

Definition idx_str (k : nat) : str := itoa (N.of_nat (S k)).
Definition item_lines (k : nat) (it : sitem) : list str := idx_str k :: time_line it :: map line_str (si_lines it).
Fixpoint all_lines (k : nat) (l : list sitem) : list str :=
  match l with [] => [] | it :: r => item_lines k it ++ [[]] ++ all_lines (S k) r end.
Fixpoint rest_lines (k : nat) (l : list sitem) : list str :=
  match l with [] => [] | it :: r => [] :: item_lines k it ++ rest_lines (S k) r end.
Definition lf_join (ls : list str) : str := concat (map (fun x => x ++ [10]) ls).

Lemma lf_join_app a b : lf_join (a ++ b) = lf_join a ++ lf_join b.
Proof. unfold lf_join. rewrite map_app, concat_app. reflexivity. Qed.

Lemma items_bytes_lines : forall l k, items_bytes k l = lf_join (all_lines k l).
Proof.
  induction l as [|it r IH]; intros k; [reflexivity|].
  cbn [items_bytes all_lines]. rewrite IH. unfold item_lines. rewrite !lf_join_app.
  unfold lf_join at 1 2. cbn [map concat app]. fold (lf_join (map line_str (si_lines it))).
  unfold idx_str, time_line. rewrite <- !app_assoc. cbn [app]. do 2 f_equal. repeat rewrite <- app_assoc. cbn [app].
  do 3 f_equal.
  assert (E : concat (map line_bytes (si_lines it)) = lf_join (map line_str (si_lines it))).
  { unfold lf_join. rewrite map_map. reflexivity. }
  rewrite E. reflexivity.
Qed.

Lemma all_lines_rest : forall r X k, X ++ [[]] ++ all_lines k r = (X ++ rest_lines k r) ++ [[]].
Proof.
  induction r as [|it r IH]; intros X k.
  - cbn [all_lines rest_lines]. rewrite !app_nil_r. reflexivity.
  - cbn [all_lines rest_lines].
    replace (X ++ [[]] ++ item_lines k it ++ [[]] ++ all_lines (S k) r)
      with ((X ++ [[]] ++ item_lines k it) ++ [[]] ++ all_lines (S k) r) by (rewrite <- !app_assoc; reflexivity).
    rewrite IH. rewrite <- !app_assoc. cbn [app]. rewrite <- ?app_assoc. reflexivity.
Qed.

Lemma lines_lf_join : forall ls, Forall nobrk ls -> lines (lf_join ls) = ls.
Proof.
  induction ls as [|x ls IH]; intros H; [reflexivity|]. inversion H as [|? ? Hx Hls]; subst.
  unfold lf_join. cbn [map concat]. rewrite <- app_assoc. cbn [app]. fold (lf_join ls).
  change 10 with LF. rewrite (lines_cons_lf x _ Hx), (IH Hls). reflexivity.
Qed.

Definition doc_lines (it : sitem) (r : list sitem) : list str :=
  (bom ++ idx_str 0) :: time_line it :: map line_str (si_lines it) ++ rest_lines 1 r.

Lemma write_srt_lines it r : write_srt (it :: r) = Ok (lf_join (doc_lines it r)).
Proof.
  unfold write_srt. f_equal. rewrite items_bytes_lines. cbn [all_lines]. rewrite all_lines_rest, lf_join_app.
  change (lf_join [[]]) with [10]. rewrite removelast_last.
  unfold doc_lines, item_lines. unfold lf_join. cbn [app map concat]. rewrite <- !app_assoc. reflexivity.
Qed.

(* ================= Part 3: representable documents ================= *)
Definition repr_doc_line (l : list srun) : Prop :=
  repr_line l /\
  let b := line_str l in
  trim_space b = b /\ contains arrow b = false /\ nobrk b /\ utf8_valid b = true.
Definition repr_item (it : sitem) : Prop := time_ok it /\ Forall repr_doc_line (si_lines it).

Definition new_item (k : nat) (it : sitem) : sitem :=
  mkSitem (Z.of_nat (S k)) (trunc_ms (si_st it)) (trunc_ms (si_en it)) (si_lines it).
Fixpoint renum (k : nat) (l : list sitem) : list sitem :=
  match l with [] => [] | it :: r => new_item k it :: renum (S k) r end.
Definition renumber_truncate (l : list sitem) : list sitem := renum 0 l.

Definition M (D : list sitem) (it : sitem) : rstate := mkR D (Some it) sa0 [].
Definition finish (s : rstate) : list sitem :=
  match r_cur s with
  | Some it => r_done s ++ [mkSitem (si_idx it) (si_st it) (si_en it) (finalize_eof (si_lines it))]
  | None => r_done s
  end.

Lemma srt_run_cons s first raw R s' : srt_step s first raw = Ok s' -> srt_run s first (raw :: R) = srt_run s' false R.
Proof. intros H. cbn [srt_run]. rewrite H. reflexivity. Qed.

Lemma run_text_lines : forall ls D i s e acc R, Forall repr_doc_line ls ->
  srt_run (M D (mkSitem i s e acc)) false (map line_str ls ++ R) = srt_run (M D (mkSitem i s e (acc ++ ls))) false R.
Proof.
  induction ls as [|l ls IH]; intros D i s e acc R H.
  - cbn [map app]. rewrite app_nil_r. reflexivity.
  - inversion H as [|? ? Hl Hls]; subst. destruct Hl as (Hrl & Ht & Hc & _ & Hu). cbn [map app].
    rewrite (srt_run_cons _ _ _ _ (add_line (M D (mkSitem i s e acc)) l)).
    + unfold add_line, M. cbn [r_cur r_done r_pre si_idx si_st si_en si_lines]. fold (M D (mkSitem i s e (acc ++ [l]))).
      rewrite (IH _ _ _ _ _ _ Hls). rewrite <- app_assoc. reflexivity.
    + apply (step_plain _ false _ (line_str l)); try assumption; try reflexivity.
      * unfold M. cbn [r_sa]. apply parse_written_line. exact Hrl.
      * destruct Hrl as (_ & _ & Hne). intros ->. apply Hne. reflexivity.
Qed.

Lemma idx_facts k : (Z.of_nat (S k) <= max_int64)%Z ->
  digits (idx_str k) /\ idx_str k <> [] /\ atoi_val (idx_str k) = Z.of_nat (S k).
Proof.
  intros H. unfold idx_str. split; [apply itoa_digits|]. split; [apply itoa_nonnil|].
  rewrite atoi_val_itoa by (rewrite nat_N_Z; exact H). apply nat_N_Z.
Qed.

Lemma step_idx s (first : bool) pfx k :
  (Z.of_nat (S k) <= max_int64)%Z -> r_sa s = sa0 ->
  (first = true /\ pfx = bom) \/ (first = false /\ pfx = []) ->
  srt_step s first (pfx ++ idx_str k) = Ok (add_line s [mkSrun (idx_str k) None 0]).
Proof.
  intros Hk Hsa Hf. destruct (idx_facts k Hk) as (Hd & Hne & _).
  apply (step_plain _ _ _ (idx_str k)).
  - destruct Hf as [(_ & ->) | (_ & ->)]; [apply trim_space_bom_plain; [apply digits_all_plain; exact Hd | exact Hne] | apply digits_trim; assumption].
  - destruct Hf as [(_ & ->) | (_ & ->)].
    + apply utf8_valid_bom_ascii. apply all_plain_ascii, digits_all_plain. exact Hd.
    + apply utf8_valid_ascii. apply all_plain_ascii, digits_all_plain. exact Hd.
  - destruct Hf as [(-> & ->) | (-> & ->)]; [|reflexivity]. unfold trim_prefix. rewrite prefix_app. reflexivity.
  - unfold arrow. apply contains_none. apply digits_not_in; [exact Hd | reflexivity].
  - rewrite Hsa. apply parse_text_digits; assumption.
  - discriminate.
Qed.

Lemma run_item_first it R : repr_item it ->
  srt_run (mkR [] None sa0 []) true ((bom ++ idx_str 0) :: time_line it :: map line_str (si_lines it) ++ R)
  = srt_run (M [] (new_item 0 it)) false R.
Proof.
  intros (Ht & Hls).
  assert (Hk : (Z.of_nat 1 <= max_int64)%Z) by (unfold max_int64; lia).
  destruct (idx_facts 0 Hk) as (Hd & Hne & Hv).
  rewrite (srt_run_cons _ _ _ _ _ (step_idx (mkR [] None sa0 []) true bom 0 Hk eq_refl (or_introl (conj eq_refl eq_refl)))).
  unfold add_line. cbn [r_cur r_done r_pre app].
  rewrite (srt_run_cons _ _ _ _ _ (step_time (mkR [] None sa0 [[mkSrun (idx_str 0) None 0]]) it [] (idx_str 0) Ht (finalize_first _ Hne))).
  unfold close_cur. cbn [r_cur r_done]. rewrite Hv.
  destruct (idx_str 0) eqn:E; [contradiction|].
  fold (M [] (mkSitem (Z.of_nat 1) (trunc_ms (si_st it)) (trunc_ms (si_en it)) [])).
  rewrite (run_text_lines _ _ _ _ _ _ _ Hls). reflexivity.
Qed.

Lemma run_item_next D itp k it R : Forall line_keeps (si_lines itp) -> repr_item it -> (Z.of_nat (S k) <= max_int64)%Z ->
  srt_run (M D itp) false ([] :: item_lines k it ++ R) = srt_run (M (D ++ [itp]) (new_item k it)) false R.
Proof.
  intros Hkeep (Ht & Hls) Hk. destruct (idx_facts k Hk) as (Hd & Hne & Hv).
  destruct itp as [pi ps pe pl]. cbn [si_lines] in Hkeep.
  rewrite (srt_run_cons _ _ _ _ (add_line (M D (mkSitem pi ps pe pl)) [blank_run])).
  2:{ apply (step_plain _ false [] []); try reflexivity. discriminate. }
  unfold add_line at 1, M at 1. cbn [r_cur r_done r_pre si_idx si_st si_en si_lines].
  unfold item_lines. cbn [app].
  rewrite (srt_run_cons _ _ _ _ _ (step_idx (mkR D (Some (mkSitem pi ps pe (pl ++ [[blank_run]]))) sa0 []) false [] k Hk eq_refl (or_intror (conj eq_refl eq_refl)))).
  unfold add_line. cbn [r_cur r_done r_pre si_idx si_st si_en si_lines].
  rewrite (srt_run_cons _ _ _ _ _ (step_time (mkR D (Some (mkSitem pi ps pe ((pl ++ [[blank_run]]) ++ [[mkSrun (idx_str k) None 0]]))) sa0 []) it pl (idx_str k) Ht (finalize_next pl _ Hkeep Hne))).
  unfold close_cur. cbn [r_cur r_done si_idx si_st si_en]. rewrite Hv.
  destruct (idx_str k) eqn:E; [contradiction|].
  fold (M (D ++ [mkSitem pi ps pe pl]) (mkSitem (Z.of_nat (S k)) (trunc_ms (si_st it)) (trunc_ms (si_en it)) [])).
  rewrite (run_text_lines _ _ _ _ _ _ _ Hls). reflexivity.
Qed.

Lemma repr_item_keeps it : repr_item it -> Forall line_keeps (si_lines it).
Proof. intros (_ & H). eapply Forall_impl; [|exact H]. intros l (Hl & _). apply repr_line_keeps. exact Hl. Qed.

Lemma run_rest : forall r k D itp, Forall line_keeps (si_lines itp) -> Forall repr_item r ->
  (Z.of_nat (k + length r) <= max_int64)%Z ->
  exists s', srt_run (M D itp) false (rest_lines k r) = Ok s' /\ finish s' = D ++ itp :: renum k r.
Proof.
  induction r as [|it r IH]; intros k D itp Hkeep Hr Hk.
  - exists (M D itp). split; [reflexivity|]. unfold finish, M, finalize_eof. cbn [r_cur r_done renum].
    rewrite (strip_lines_keep _ Hkeep). destruct itp; reflexivity.
  - inversion Hr as [|? ? Hit Hr']; subst. cbn [rest_lines renum]. cbn [length] in Hk.
    rewrite (run_item_next D itp k it _ Hkeep Hit) by lia.
    destruct (IH (S k) (D ++ [itp]) (new_item k it)) as (s' & E & F).
    + unfold new_item. cbn [si_lines]. apply repr_item_keeps. exact Hit.
    + exact Hr'.
    + lia.
    + exists s'. split; [exact E|]. rewrite F, <- app_assoc. reflexivity.
Qed.

(* line breaks *)
Lemma all_plain_nobrk s : all_plain s -> nobrk s.
Proof.
  unfold all_plain, nobrk. intros H. apply forallb_forall. intros c Hc. rewrite Forall_forall in H. specialize (H c Hc).
  unfold plain_byte in H. apply andb_true_iff in H. destruct H as [H _]. apply negb_true_iff in H.
  unfold is_ascii_space in H. apply orb_false_iff in H. destruct H as [_ H].
  apply negb_true_iff. unfold is_brk, CR, LF. apply orb_false_iff. split; apply N.eqb_neq; intros ->; discriminate.
Qed.
Lemma nobrk_app a b : nobrk a -> nobrk b -> nobrk (a ++ b).
Proof. unfold nobrk. intros Ha Hb. rewrite forallb_app, Ha, Hb. reflexivity. Qed.

Lemma nobrk_idx k : nobrk (idx_str k).
Proof. apply all_plain_nobrk, digits_all_plain. apply itoa_digits. Qed.
Lemma nobrk_time it : time_ok it -> nobrk (time_line it).
Proof.
  intros ((Hs & _) & (He & _)). unfold time_line. apply nobrk_app; [apply all_plain_nobrk, format_srt_all_plain; exact Hs|].
  apply nobrk_app; [reflexivity | apply all_plain_nobrk, format_srt_all_plain; exact He].
Qed.
Lemma nobrk_text_lines ls : Forall repr_doc_line ls -> Forall nobrk (map line_str ls).
Proof.
  intros H. apply Forall_forall. intros x Hx. apply in_map_iff in Hx. destruct Hx as (l & <- & Hl).
  rewrite Forall_forall in H. destruct (H l Hl) as (_ & _ & _ & Hb & _). exact Hb.
Qed.
Lemma nobrk_rest : forall r k, Forall repr_item r -> Forall nobrk (rest_lines k r).
Proof.
  induction r as [|it r IH]; intros k H; [constructor|]. inversion H as [|? ? (Ht & Hls) Hr]; subst.
  cbn [rest_lines]. constructor; [reflexivity|]. unfold item_lines. constructor; [apply nobrk_idx|].
  constructor; [apply nobrk_time; exact Ht|]. apply Forall_app. split; [apply nobrk_text_lines; exact Hls | apply IH; exact Hr].
Qed.

Theorem read_write_srt : forall l, Forall repr_item l -> l <> [] -> (Z.of_nat (length l) <= max_int64)%Z ->
  exists data, write_srt l = Ok data /\ read_srt data = Ok (renumber_truncate l).
Proof.
  intros l Hl Hne Hlen. destruct l as [|it r]; [contradiction|]. inversion Hl as [|? ? Hit Hr]; subst.
  exists (lf_join (doc_lines it r)). split; [apply write_srt_lines|].
  unfold read_srt. rewrite lines_lf_join.
  2:{ unfold doc_lines. destruct Hit as (Ht & Hls). constructor; [apply nobrk_app; [reflexivity | apply nobrk_idx]|].
      constructor; [apply nobrk_time; exact Ht|]. apply Forall_app. split; [apply nobrk_text_lines; exact Hls | apply nobrk_rest; exact Hr]. }
  unfold read_srt_lines, doc_lines. rewrite (run_item_first it _ Hit).
  destruct (run_rest r 1 [] (new_item 0 it)) as (s' & E & F).
  - unfold new_item. cbn [si_lines]. apply repr_item_keeps. exact Hit.
  - exact Hr.
  - cbn [length] in Hlen. lia.
  - rewrite E. unfold finish in F. cbn [app] in F. unfold renumber_truncate. cbn [renum]. rewrite <- F. reflexivity.
Qed.

(* ================= executable versions of the predicates ================= *)
Definition is_nil {A} (l : list A) : bool := match l with [] => true | _ => false end.
Lemma is_nil_false {A} (l : list A) : is_nil l = false -> l <> [].
Proof. destruct l; [discriminate | discriminate]. Qed.

Definition col_okb (c : str) : bool :=
  negb (is_nil c) && negb (existsb (N.eqb 34) c) && negb (existsb (N.eqb 38) c) && negb (existsb (N.eqb 13) c) &&
  negb (existsb (N.eqb 0) c).
Definition repr_runb (r : srun) : bool :=
  (sr_pos r =? 0) && negb (is_nil (trim_space (escape_html (sr_text r)))) &&
  match sr_sty r with
  | None => true
  | Some a => sa_styled a && match sa_col a with None => true | Some c => col_okb c end
  end &&
  negb (existsb (N.eqb 0) (sr_text r)).
Fixpoint no_adjb (l : list srun) : bool :=
  match l with
  | r1 :: ((r2 :: _) as t) => (has_tags r1 || has_tags r2) && no_adjb t
  | _ => true
  end.
Definition repr_lineb (l : list srun) : bool :=
  forallb repr_runb l && no_adjb l && negb (is_nil (trim_space (line_str l))).
Definition repr_doc_lineb (l : list srun) : bool :=
  repr_lineb l &&
  let b := line_str l in
  str_eqb (trim_space b) b && negb (contains arrow b) && forallb (fun c => negb (is_brk c)) b && utf8_valid b.
Definition repr_itemb (it : sitem) : bool :=
  (0 <=? si_st it)%Z && (si_st it <=? max_int64)%Z && (0 <=? si_en it)%Z && (si_en it <=? max_int64)%Z &&
  forallb repr_doc_lineb (si_lines it).

Lemma negb_existsb_not_in k s : negb (existsb (N.eqb k) s) = true -> ~ In k s.
Proof.
  intros H Hin. apply negb_true_iff in H.
  assert (E : existsb (N.eqb k) s = true) by (apply existsb_exists; exists k; split; [exact Hin | apply N.eqb_refl]).
  rewrite E in H. discriminate.
Qed.
Lemma col_okb_ok c : col_okb c = true -> col_ok c.
Proof.
  unfold col_okb, col_ok. intros H. apply andb_true_iff in H. destruct H as [H H5]. apply andb_true_iff in H. destruct H as [H H4].
  apply andb_true_iff in H. destruct H as [H H3]. apply andb_true_iff in H. destruct H as [H1 H2].
  apply negb_true_iff in H1. split; [apply is_nil_false; exact H1|].
  repeat split; apply negb_existsb_not_in; assumption.
Qed.
Lemma repr_runb_ok r : repr_runb r = true -> repr_run r.
Proof.
  unfold repr_runb, repr_run. intros H. apply andb_true_iff in H. destruct H as [H H0]. apply andb_true_iff in H. destruct H as [H H3].
  apply andb_true_iff in H. destruct H as [H1 H2].
  apply N.eqb_eq in H1. apply negb_true_iff in H2. split; [exact H1|]. split; [apply is_nil_false; exact H2|].
  split; [|apply negb_existsb_not_in; exact H0].
  destruct (sr_sty r) as [a|]; [|exact I]. apply andb_true_iff in H3. destruct H3 as [H3 H4]. split; [exact H3|].
  destruct (sa_col a); [apply col_okb_ok; exact H4 | exact I].
Qed.
Lemma no_adjb_ok : forall l, no_adjb l = true -> no_adj l.
Proof.
  induction l as [|r1 l IH]; intros H; [exact I|]. destruct l as [|r2 l]; [exact I|].
  cbn [no_adjb] in H. apply andb_true_iff in H. destruct H as [H1 H2]. split; [exact H1 | apply IH; exact H2].
Qed.
Lemma repr_lineb_ok l : repr_lineb l = true -> repr_line l.
Proof.
  unfold repr_lineb, repr_line. intros H. apply andb_true_iff in H. destruct H as [H H3]. apply andb_true_iff in H. destruct H as [H1 H2].
  split; [|split; [apply no_adjb_ok; exact H2 | apply is_nil_false; apply negb_true_iff; exact H3]].
  apply Forall_forall. intros r Hr. apply repr_runb_ok. rewrite forallb_forall in H1. apply H1. exact Hr.
Qed.
Lemma repr_doc_lineb_ok l : repr_doc_lineb l = true -> repr_doc_line l.
Proof.
  unfold repr_doc_lineb, repr_doc_line. cbv zeta. intros H.
  apply andb_true_iff in H. destruct H as [H0 H]. apply andb_true_iff in H. destruct H as [H H4].
  apply andb_true_iff in H. destruct H as [H H3]. apply andb_true_iff in H. destruct H as [H1 H2].
  split; [apply repr_lineb_ok; exact H0|]. split; [apply str_eqb_eq; exact H1|].
  split; [apply negb_true_iff; exact H2|]. split; [exact H3 | exact H4].
Qed.
Lemma repr_itemb_ok it : repr_itemb it = true -> repr_item it.
Proof.
  unfold repr_itemb, repr_item, time_ok. intros H.
  apply andb_true_iff in H. destruct H as [H H5]. apply andb_true_iff in H. destruct H as [H H4].
  apply andb_true_iff in H. destruct H as [H H3]. apply andb_true_iff in H. destruct H as [H1 H2].
  apply Z.leb_le in H1, H2, H3, H4. split; [lia|].
  apply Forall_forall. intros l Hl. apply repr_doc_lineb_ok. rewrite forallb_forall in H5. apply H5. exact Hl.
Qed.
Lemma repr_itemsb_ok l : forallb repr_itemb l = true -> Forall repr_item l.
Proof. intros H. apply Forall_forall. intros it Hit. apply repr_itemb_ok. rewrite forallb_forall in H. apply H. exact Hit. Qed.

(* ================= run-level sufficient conditions for two of the line conditions ================= *)
Definition run_nobrk (r : srun) : Prop :=
  nobrk (sr_text r) /\ match sr_sty r with Some a => match sa_col a with Some c => nobrk c | None => True end | None => True end.

Lemma nobrk_in s : nobrk s <-> (forall c, In c s -> c <> 13 /\ c <> 10).
Proof.
  unfold nobrk. rewrite forallb_forall. split; intros H c Hc; specialize (H c Hc).
  - apply negb_true_iff in H. unfold is_brk, CR, LF in H. apply orb_false_iff in H. destruct H as [H1 H2]. apply N.eqb_neq in H1, H2. tauto.
  - apply negb_true_iff. unfold is_brk, CR, LF. apply orb_false_iff. split; apply N.eqb_neq; tauto.
Qed.

Lemma nobrk_escape s : nobrk s -> nobrk (escape_html s).
Proof.
  rewrite !nobrk_in. intros H c Hc. destruct (escape_bytes s c Hc) as [Hin|Hin]; [exact (H c Hin)|].
  cbn [In] in Hin. repeat (destruct Hin as [<-|Hin]; [split; discriminate|]). contradiction.
Qed.

Lemma nobrk_run r : sr_pos r = 0 -> run_nobrk r -> nobrk (run_bytes r).
Proof.
  intros Hp (Ht & Hc). unfold run_bytes. rewrite Hp. change (0 =? 0) with true. cbv iota.
  apply nobrk_escape in Ht. destruct (sr_sty r) as [a|].
  - destruct a as [b i u col]. cbn [sa_b sa_i sa_u sa_col] in *.
    assert (Hcol : nobrk (match col with Some c => c | None => [] end)) by (destruct col; [exact Hc | reflexivity]).
    set (cc := match col with Some c => c | None => [] end) in *. clearbody cc.
    repeat apply nobrk_app; try exact Ht; try (destruct cc; [reflexivity|]); try (destruct b; reflexivity); try (destruct i; reflexivity);
      try (destruct u; reflexivity); try reflexivity.
    repeat apply nobrk_app; try reflexivity. exact Hcol.
  - cbn [app]. rewrite app_nil_r. exact Ht.
Qed.

Lemma nobrk_line l : Forall (fun r => sr_pos r = 0 /\ run_nobrk r) l -> nobrk (line_str l).
Proof.
  induction l as [|r l IH]; intros H; [reflexivity|]. inversion H as [|? ? (Hp & Hr) Hl]; subst.
  unfold line_str. cbn [map concat]. apply nobrk_app; [apply nobrk_run; assumption | apply IH; exact Hl].
Qed.

(* ================= a non-trivial representable document ================= *)
(* cue 1: line 1 = "Hi & <b>" unstyled, then "a<nbsp>b" bold+underline+colour "#ff0000", then "!" unstyled;
          line 2 = "it" in italics.
   cue 2: one line "42" (a text line of digits), times not on millisecond boundaries.
   cue 3: no lines.   cue 4: one line. *)
Definition ex_items : list sitem :=
  [ mkSitem 7 1234567890%Z 2500000000%Z
      [ [ mkSrun [72;105;32;38;32;60;98;62] None 0;
          mkSrun [97;194;160;98] (Some (mkSa true false true (Some [35;102;102;48;48;48;48]))) 0;
          mkSrun [33] None 0 ];
        [ mkSrun [105;116] (Some (mkSa false true false None)) 0 ] ];
    mkSitem 0 3600000000000%Z 3661001999999%Z [ [ mkSrun [52;50] None 0 ] ];
    mkSitem 0 0%Z 1%Z [];
    mkSitem 0 5%Z 1000000%Z [ [ mkSrun [120] None 0 ] ] ].

Example ex_items_repr : Forall repr_item ex_items.
Proof. apply repr_itemsb_ok. vm_compute. reflexivity. Qed.

Example ex_line_parse :
  parse_text_srt (line_str (hd [] (si_lines (hd (mkSitem 0 0 0 []) ex_items)))) sa0
  = (hd [] (si_lines (hd (mkSitem 0 0 0 []) ex_items)), sa0).
Proof. vm_compute. reflexivity. Qed.

Example ex_items_roundtrip :
  exists data, write_srt ex_items = Ok data /\ read_srt data = Ok (renumber_truncate ex_items).
Proof. apply read_write_srt; [exact ex_items_repr | discriminate | vm_compute; discriminate]. Qed.

(* the same, by computation *)
Example ex_items_roundtrip_computed :
  match write_srt ex_items with Ok data => read_srt data | _ => Err EOther end = Ok (renumber_truncate ex_items).
Proof. vm_compute. reflexivity. Qed.

(* things the hypotheses exclude, by computation: adjacent unstyled runs are merged; a leading space is trimmed *)
Example ex_adjacent_merged :
  parse_text_srt (line_str [mkSrun [97] None 0; mkSrun [98] None 0]) sa0 = ([mkSrun [97;98] None 0], sa0).
Proof. vm_compute. reflexivity. Qed.

Print Assumptions parse_written_line.
Print Assumptions read_write_srt.
