(* WebVTT proofs, part 3: a written document is read back (statement 3). *)
From Coq Require Import List ZArith NArith Bool Lia Arith.
From Astisub Require Import Kit.Base Kit.Str Kit.Html Kit.Scan Model.Dur Model.Srt Model.Vtt
  Proofs.DurProofs Proofs.ScanProofs Proofs.SrtEscProofs Proofs.VttBase Proofs.VttLine.
Import ListNotations.
Open Scope N_scope.

(* ================= lines ================= *)
Definition unlines (l : list str) : str := concat (map (fun x => x ++ [10]) l).
Definition nobrk (s : str) : bool := forallb (fun c => negb (is_brk c)) s.

Lemma unlines_app a b : unlines (a ++ b) = unlines a ++ unlines b.
Proof. unfold unlines. rewrite map_app, concat_app. reflexivity. Qed.
Lemma unlines_cons x l : unlines (x :: l) = x ++ 10 :: unlines l.
Proof. unfold unlines. cbn [map concat]. rewrite <- app_assoc. reflexivity. Qed.

Lemma lines_unlines l : forallb nobrk l = true -> lines (unlines l) = l.
Proof.
  induction l as [|x l IH]; intros H; [reflexivity|]. cbn [forallb] in H. apply andb_true_iff in H. destruct H as [Hx Hl].
  rewrite unlines_cons. change 10 with LF. rewrite lines_cons_lf by exact Hx. rewrite (IH Hl). reflexivity.
Qed.

Lemma join_unlines l : l <> [] -> join [10] l ++ [10] = unlines l.
Proof.
  induction l as [|x l IH]; intros H; [contradiction|]. destruct l as [|y l'].
  - cbn [join]. unfold unlines. cbn [map concat]. rewrite app_nil_r. reflexivity.
  - rewrite join_cons by discriminate. rewrite unlines_cons. rewrite <- !app_assoc. rewrite IH by discriminate. reflexivity.
Qed.

(* ================= UTF-8 validity of ASCII text ================= *)
Definition ascii (s : str) : bool := forallb (fun c => c <? 128) s.
Lemma utf8_ascii_fuel s : forall f, (length s <= f)%nat -> ascii s = true -> utf8_valid_fuel f s = true.
Proof.
  induction s as [|c s IH]; intros f Hf H; (destruct f as [|f]; [reflexivity|]); [reflexivity|].
  unfold ascii in H. cbn [forallb] in H. apply andb_true_iff in H. destruct H as [Hc Hs].
  cbn [utf8_valid_fuel]. rewrite Hc. apply IH; [cbn [length] in Hf; lia | exact Hs].
Qed.
Lemma utf8_ascii s : ascii s = true -> utf8_valid s = true.
Proof. intros H. unfold utf8_valid. apply utf8_ascii_fuel; [lia | exact H]. Qed.
Lemma ascii_app a b : ascii a = true -> ascii b = true -> ascii (a ++ b) = true.
Proof. unfold ascii. intros Ha Hb. rewrite forallb_app, Ha, Hb. reflexivity. Qed.

(* ================= the step function, by kind of line ================= *)
Definition step_block (s : vstate) (line : str) : res vstate :=
    match v_block s with
    | BComment => Ok (mkVst (v_done s) (v_cur s) (v_pre_lines s) BComment (v_comments s ++ [line]) (v_index s) (v_tags s) (v_styles s) (v_regions s) (v_tsmap s))
    | BStyle => Ok (mkVst (v_done s) (v_cur s) (v_pre_lines s) BStyle (v_comments s) (v_index s) (v_tags s)
                          (match v_styles s with Some l => Some (l ++ [line]) | None => None end) (v_regions s) (v_tsmap s))
    | BText =>
      let '(ln, tags') := parse_text_vtt line (v_tags s) in
      match vl_runs ln with
      | [] => Ok (mkVst (v_done s) (v_cur s) (v_pre_lines s) BText (v_comments s) (v_index s) tags' (v_styles s) (v_regions s) (v_tsmap s))
      | _ =>
        match v_cur s with
        | Some it =>
          Ok (mkVst (v_done s) (Some (mkVitem (vi_idx it) (vi_st it) (vi_en it) (vi_comments it) (vi_region it) (vi_set it) (vi_fb it) (vi_lines it ++ [ln])))
                    (v_pre_lines s) BText (v_comments s) (v_index s) tags' (v_styles s) (v_regions s) (v_tsmap s))
        | None => Ok (mkVst (v_done s) None (S (v_pre_lines s)) BText (v_comments s) (v_index s) tags' (v_styles s) (v_regions s) (v_tsmap s))
        end
      end
    | BNone => Ok (mkVst (v_done s) (v_cur s) (v_pre_lines s) BNone (v_comments s) (atoi_val line) (v_tags s) (v_styles s) (v_regions s) (v_tsmap s))
    end.
Definition step_cue (s : vstate) (line : str) : res vstate :=
    match Str.split arrow line with
    | l :: r :: _ =>
      match fields r with
      | [] => Err EParse
      | e :: settings =>
        match parse_vtt l with
        | None => Err EParse
        | Some d0 =>
          match parse_vtt e with
          | None => Err EParse
          | Some d1 =>
            match cue_settings settings (v_regions s) vset0 None with
            | Ok (st, reg) =>
              Ok (mkVst (close_vcur s) (Some (mkVitem (v_index s) d0 d1 (v_comments s) reg (Some st) None [])) (v_pre_lines s)
                        BText [] 0%Z (v_tags s) (v_styles s) (v_regions s) (v_tsmap s))
            | Err k => Err k
            | Panic p => Panic p
            end
          end
        end
      end
    | _ => Err EParse
    end.
Definition step_region (s : vstate) (line : str) : res vstate :=
    match region_parts (Str.split [32] (trim_prefix p_region line)) [] vregattr0 with
    | Ok (id, a) =>
      Ok (mkVst (v_done s) (v_cur s) (v_pre_lines s) (v_block s) (v_comments s) (v_index s) (v_tags s) (v_styles s)
                (aset id (mkVregion id (Some a) None) (v_regions s)) (v_tsmap s))
    | Err k => Err k
    | Panic p => Panic p
    end.
Definition step_style (s : vstate) : res vstate :=
    match v_styles s with
    | Some _ => Ok (mkVst (v_done s) (v_cur s) (v_pre_lines s) BStyle (v_comments s) (v_index s) (v_tags s) (v_styles s) (v_regions s) (v_tsmap s))
    | None => Ok (mkVst (v_done s) (v_cur s) (v_pre_lines s) BStyle (v_comments s) (v_index s) [] (Some []) (v_regions s) (v_tsmap s))
    end.
Definition step_tsmap (s : vstate) (line : str) : res vstate :=
    if cur_has_lines s then Err EParse
    else match parse_tsmap line with
         | Some m => Ok (mkVst (v_done s) (v_cur s) (v_pre_lines s) (v_block s) (v_comments s) (v_index s) (v_tags s) (v_styles s) (v_regions s) (Some m))
         | None => Err EParse
         end.
Definition step_blank (s : vstate) : res vstate :=
    let keep := match v_block s with
                | BStyle => match v_styles s with Some l => negb (last_ends_brace l) | None => false end
                | _ => false
                end in
    Ok (mkVst (v_done s) (v_cur s) (v_pre_lines s) (if keep then BStyle else BNone) (v_comments s) (v_index s) [] (v_styles s) (v_regions s) (v_tsmap s)).
Definition step_note (s : vstate) (line : str) : res vstate :=
    Ok (mkVst (v_done s) (v_cur s) (v_pre_lines s) BComment (v_comments s ++ [trim_prefix p_note line]) (v_index s) (v_tags s) (v_styles s) (v_regions s) (v_tsmap s)).

Lemma vtt_step_eq s raw :
  vtt_step s raw =
  let line := trim_space raw in
  if negb (utf8_valid line) then Err EParse else
  if has_prefix p_note line then step_note s line
  else match line with
  | [] => step_blank s
  | _ =>
    if has_prefix p_region line then step_region s line
    else if has_prefix p_style line then step_style s
    else if contains arrow line then step_cue s line
    else if has_prefix p_tsmap line then step_tsmap s line
    else step_block s line
  end.
Proof. reflexivity. Qed.

(* hygiene of a written line: valid UTF-8, no surrounding white space (the reader trims every line), no line break *)
Definition line_clean (L : str) : bool := utf8_valid L && str_eqb (trim_space L) L && nobrk L.
(* the line is none of: comment start, blank, region definition, STYLE, cue timing, timestamp map *)
Definition line_other (L : str) : bool :=
  negb (has_prefix p_note L) && (match L with [] => false | _ => true end) && negb (has_prefix p_region L) &&
  negb (has_prefix p_style L) && negb (contains arrow L) && negb (has_prefix p_tsmap L).

Lemma line_clean_parts L : line_clean L = true -> utf8_valid L = true /\ trim_space L = L /\ nobrk L = true.
Proof.
  unfold line_clean. intros H. apply andb_true_iff in H. destruct H as [H H3]. apply andb_true_iff in H. destruct H as [H1 H2].
  apply str_eqb_eq in H2. auto.
Qed.

Lemma step_blank_eq s : vtt_step s [] = step_blank s.
Proof. reflexivity. Qed.

Lemma line_other_parts L : line_other L = true ->
  has_prefix p_note L = false /\ L <> [] /\ has_prefix p_region L = false /\ has_prefix p_style L = false /\
  contains arrow L = false /\ has_prefix p_tsmap L = false.
Proof.
  unfold line_other. intros H.
  apply andb_true_iff in H. destruct H as [H H6]. apply andb_true_iff in H. destruct H as [H H5].
  apply andb_true_iff in H. destruct H as [H H4]. apply andb_true_iff in H. destruct H as [H H3].
  apply andb_true_iff in H. destruct H as [H1 H2].
  apply negb_true_iff in H1, H3, H4, H5, H6. repeat split; try assumption. destruct L; [discriminate | discriminate].
Qed.

Lemma step_other_eq s L : line_clean L = true -> line_other L = true -> vtt_step s L = step_block s L.
Proof.
  intros Hc Ho. destruct (line_clean_parts L Hc) as (H1 & H2 & _).
  destruct (line_other_parts L Ho) as (O1 & O2 & O3 & O4 & O5 & O6).
  rewrite vtt_step_eq. cbv zeta. rewrite H2, H1. cbn [negb].
  rewrite O1. destruct L as [|c L']; [contradiction|].
  rewrite O3, O4, O5, O6. reflexivity.
Qed.

Lemma step_note_eq s c : line_clean (p_note ++ c) = true ->
  vtt_step s (p_note ++ c) =
  Ok (mkVst (v_done s) (v_cur s) (v_pre_lines s) BComment (v_comments s ++ [c]) (v_index s) (v_tags s) (v_styles s) (v_regions s) (v_tsmap s)).
Proof.
  intros Hc. destruct (line_clean_parts _ Hc) as (H1 & H2 & _).
  rewrite vtt_step_eq. cbv zeta. rewrite H2, H1. cbn [negb].
  unfold has_prefix, step_note, trim_prefix. rewrite prefix_app. reflexivity.
Qed.

(* ================= lines made of ASCII words ================= *)
Lemma is_digit_facts d : is_digit d = true -> (d <? 128) = true /\ is_brk d = false /\ d <> 62 /\ plain_byte d = true.
Proof.
  intros H. pose proof (is_digit_plain d H) as P. apply is_digit_range in H. repeat split.
  - apply N.ltb_lt. lia.
  - unfold is_brk, CR, LF. rewrite !eqb_false_of_neq by lia. reflexivity.
  - lia.
  - exact P.
Qed.

Lemma digits_ascii s : digits s -> ascii s = true.
Proof. unfold digits, ascii. apply forallb_impl. intros c H. apply is_digit_facts in H. tauto. Qed.
Lemma digits_nobrk s : digits s -> nobrk s = true.
Proof. unfold digits, nobrk. apply forallb_impl. intros c H. apply is_digit_facts in H. destruct H as (_ & H & _). rewrite H. reflexivity. Qed.

Lemma has_prefix_hd_neq x p c L : x <> c -> has_prefix (x :: p) (c :: L) = false.
Proof. intros H. unfold has_prefix. cbn [prefix]. rewrite eqb_false_of_neq by exact H. reflexivity. Qed.

Lemma contains_none c sep s : In c sep -> ~ In c s -> contains sep s = false.
Proof. intros H1 H2. unfold contains. rewrite (cut_none c sep s H1 H2). reflexivity. Qed.

Lemma digits_clean s : digits s -> s <> [] -> line_clean s = true.
Proof.
  intros Hd Hne. unfold line_clean. rewrite (utf8_ascii _ (digits_ascii _ Hd)), (digits_trim _ Hd Hne), str_eqb_refl, (digits_nobrk _ Hd). reflexivity.
Qed.

Lemma digit_first_other d L : is_digit d = true -> ~ In 62 (d :: L) -> line_other (d :: L) = true.
Proof.
  intros Hd Hn. apply is_digit_range in Hd. unfold line_other, p_note, p_region, p_style, p_tsmap.
  rewrite !has_prefix_hd_neq by lia. rewrite (contains_none 62 arrow _ ltac:(right; right; left; reflexivity) Hn). reflexivity.
Qed.

Lemma atoi_val_itoa n : (Z.of_N n <= max_int64)%Z -> atoi_val (itoa n) = Z.of_N n.
Proof.
  intros Hr. unfold atoi_val.
  pose proof (digit_head_not_sign (itoa n) (itoa_digits n) (itoa_nonnil n)) as Hs.
  destruct (itoa n) as [|c r] eqn:E0; [exfalso; exact (itoa_nonnil n E0)|].
  assert (Hm : match c :: r with 45 :: r0 => (true, r0) | 43 :: r0 => (false, r0) | _ => (false, c :: r) end = (false, c :: r)).
  { destruct c as [|p]; [reflexivity|]. do 8 (destruct p as [p|p|]; try reflexivity; try contradiction). }
  rewrite Hm. rewrite <- E0, atoi_digits_itoa.
  destruct (Z.of_N n <? - max_int64 - 1)%Z eqn:B1; [apply Z.ltb_lt in B1; unfold max_int64 in *; lia|].
  destruct (max_int64 <? Z.of_N n)%Z eqn:B2; [apply Z.ltb_lt in B2; lia|]. reflexivity.
Qed.

(* the cue identifier line *)
Lemma step_index s n : v_block s = BNone -> (Z.of_N n <= max_int64)%Z ->
  vtt_step s (itoa n) =
  Ok (mkVst (v_done s) (v_cur s) (v_pre_lines s) BNone (v_comments s) (Z.of_N n) (v_tags s) (v_styles s) (v_regions s) (v_tsmap s)).
Proof.
  intros Hb Hn. pose proof (itoa_digits n) as Hd. pose proof (itoa_nonnil n) as Hne.
  rewrite step_other_eq.
  - unfold step_block. rewrite Hb, (atoi_val_itoa n Hn). reflexivity.
  - apply digits_clean; assumption.
  - destruct (itoa n) as [|d L] eqn:E; [contradiction|]. apply digit_first_other.
    + apply (digits_in _ d Hd). left. reflexivity.
    + apply digits_not_in; [exact Hd | reflexivity].
Qed.

(* a cue text line *)
Definition text_line_ok (l : vline) : bool :=
  repr_vline l && (match vl_runs l with [] => false | _ => true end) &&
  line_clean (removelast (vline_bytes l)) && line_other (removelast (vline_bytes l)).

Lemma step_text s it l : v_block s = BText -> v_tags s = [] -> v_cur s = Some it -> text_line_ok l = true ->
  vtt_step s (removelast (vline_bytes l)) =
  Ok (mkVst (v_done s) (Some (mkVitem (vi_idx it) (vi_st it) (vi_en it) (vi_comments it) (vi_region it) (vi_set it) (vi_fb it) (vi_lines it ++ [nline l])))
            (v_pre_lines s) BText (v_comments s) (v_index s) [] (v_styles s) (v_regions s) (v_tsmap s)).
Proof.
  intros Hb Ht Hc H. unfold text_line_ok in H.
  apply andb_true_iff in H. destruct H as [H H4]. apply andb_true_iff in H. destruct H as [H H3]. apply andb_true_iff in H. destruct H as [H1 H2].
  rewrite (step_other_eq s _ H3 H4). unfold step_block. rewrite Hb, Ht, (parse_vline l H1), Hc.
  unfold nline at 1. cbn [vl_runs]. destruct (vl_runs l) as [|r rs]; [discriminate|]. reflexivity.
Qed.

(* comment continuation, style lines *)
Lemma step_comment s c : v_block s = BComment -> line_clean c = true -> line_other c = true ->
  vtt_step s c =
  Ok (mkVst (v_done s) (v_cur s) (v_pre_lines s) BComment (v_comments s ++ [c]) (v_index s) (v_tags s) (v_styles s) (v_regions s) (v_tsmap s)).
Proof. intros Hb H1 H2. rewrite (step_other_eq s c H1 H2). unfold step_block. rewrite Hb. reflexivity. Qed.

Lemma step_style_line s c l : v_block s = BStyle -> v_styles s = Some l -> line_clean c = true -> line_other c = true ->
  vtt_step s c =
  Ok (mkVst (v_done s) (v_cur s) (v_pre_lines s) BStyle (v_comments s) (v_index s) (v_tags s) (Some (l ++ [c])) (v_regions s) (v_tsmap s)).
Proof. intros Hb Hs H1 H2. rewrite (step_other_eq s c H1 H2). unfold step_block. rewrite Hb, Hs. reflexivity. Qed.

Lemma step_style_start s : v_styles s = None ->
  vtt_step s p_style =
  Ok (mkVst (v_done s) (v_cur s) (v_pre_lines s) BStyle (v_comments s) (v_index s) [] (Some []) (v_regions s) (v_tsmap s)).
Proof.
  intros H. rewrite vtt_step_eq. cbv zeta.
  assert (E1 : trim_space p_style = p_style) by (vm_compute; reflexivity). rewrite E1.
  assert (E2 : utf8_valid p_style = true) by (vm_compute; reflexivity). rewrite E2.
  assert (E3 : has_prefix p_note p_style = false) by (vm_compute; reflexivity). rewrite E3.
  assert (E4 : has_prefix p_region p_style = false) by (vm_compute; reflexivity).
  assert (E5 : has_prefix p_style p_style = true) by (vm_compute; reflexivity).
  cbn [negb]. unfold p_style at 1. rewrite E4, E5. unfold step_style. rewrite H. reflexivity.
Qed.

(* the timestamp map line *)
Lemma tsmap_string_eq l m : tsmap_string (l, m) = p_tsmap ++ [61; 76; 79; 67; 65; 76; 58] ++ format_vtt l ++ [44; 77; 80; 69; 71; 84; 83; 58] ++ itoa_z m.
Proof. reflexivity. Qed.

Lemma ts_char_facts c : ts_char c = true -> (c <? 128) = true /\ is_brk c = false /\ c <> 62 /\ c <> 45 /\ plain_byte c = true.
Proof.
  unfold ts_char. intros H. apply orb_true_iff in H. destruct H as [H|H].
  - apply orb_true_iff in H. destruct H as [H|H].
    + destruct (is_digit_facts c H) as (A & B & C & D). apply is_digit_range in H. repeat split; try assumption. lia.
    + apply N.eqb_eq in H. subst c. repeat split; try reflexivity; discriminate.
  - apply N.eqb_eq in H. subst c. repeat split; try reflexivity; discriminate.
Qed.

Lemma format_vtt_ascii t : (0 <= t)%Z -> ascii (format_vtt t) = true.
Proof. intros H. unfold ascii. apply (forallb_impl ts_char); [intros c Hc; apply ts_char_facts in Hc; tauto | apply format_vtt_chars, H]. Qed.
Lemma format_vtt_nobrk t : (0 <= t)%Z -> nobrk (format_vtt t) = true.
Proof.
  intros H. unfold nobrk. apply (forallb_impl ts_char); [|apply format_vtt_chars, H].
  intros c Hc. apply ts_char_facts in Hc. destruct Hc as (_ & Hc & _). rewrite Hc. reflexivity.
Qed.
Lemma nobrk_app a b : nobrk a = true -> nobrk b = true -> nobrk (a ++ b) = true.
Proof. unfold nobrk. intros Ha Hb. rewrite forallb_app, Ha, Hb. reflexivity. Qed.

Lemma last_app_cons {A} (a : list A) x b d : last (a ++ x :: b) d = last (x :: b) d.
Proof. induction a as [|y a IH]; [reflexivity|]. cbn [app]. rewrite <- IH. destruct (a ++ x :: b) eqn:E; [destruct a; discriminate | reflexivity]. Qed.

Lemma last_app_nonnil {A} (a b : list A) d : b <> [] -> last (a ++ b) d = last b d.
Proof. intros H. destruct b as [|x b]; [contradiction|]. apply last_app_cons. Qed.

Lemma last_in_nonnil (s : str) d : s <> [] -> In (last s d) s.
Proof. intros H. destruct (@exists_last _ s H) as (s' & z & ->). rewrite last_last. apply in_or_app. right. left. reflexivity. Qed.

Lemma step_tsmap_line s l m : cur_has_lines s = false -> (0 <= l <= max_int64)%Z -> (0 <= m <= max_int64)%Z ->
  vtt_step s (tsmap_string (l, m)) =
  Ok (mkVst (v_done s) (v_cur s) (v_pre_lines s) (v_block s) (v_comments s) (v_index s) (v_tags s) (v_styles s) (v_regions s) (Some (trunc_ms l, m)))
  /\ nobrk (tsmap_string (l, m)) = true.
Proof.
  intros Hc Hl Hm.
  pose proof (itoa_z_digits m ltac:(lia)) as Dm.
  assert (Mne : itoa_z m <> []) by (rewrite itoa_z_nonneg by lia; apply itoa_nonnil).
  assert (Ha : ascii (tsmap_string (l, m)) = true).
  { rewrite tsmap_string_eq. apply ascii_app; [reflexivity|]. apply ascii_app; [reflexivity|].
    apply ascii_app; [apply format_vtt_ascii; lia|]. apply ascii_app; [reflexivity | apply digits_ascii, Dm]. }
  assert (Hb : nobrk (tsmap_string (l, m)) = true).
  { rewrite tsmap_string_eq. apply nobrk_app; [reflexivity|]. apply nobrk_app; [reflexivity|].
    apply nobrk_app; [apply format_vtt_nobrk; lia|]. apply nobrk_app; [reflexivity | apply digits_nobrk, Dm]. }
  split; [|exact Hb].
  assert (Ht : trim_space (tsmap_string (l, m)) = tsmap_string (l, m)).
  { apply trim_space_plain.
    - rewrite tsmap_string_eq. discriminate.
    - reflexivity.
    - rewrite tsmap_string_eq. rewrite !app_assoc. rewrite last_app_nonnil by exact Mne.
      apply is_digit_plain. apply (digits_in _ _ Dm). apply last_in_nonnil. exact Mne. }
  assert (Hgt : ~ In 62 (tsmap_string (l, m))).
  { rewrite tsmap_string_eq. apply not_in_app; [cbn [In p_tsmap]; intros H; repeat (destruct H as [H|H]; [discriminate|]); exact H|].
    apply not_in_app; [cbn [In]; intros H; repeat (destruct H as [H|H]; [discriminate|]); exact H|].
    apply not_in_app; [apply format_vtt_not_in; [lia | reflexivity]|].
    apply not_in_app; [cbn [In]; intros H; repeat (destruct H as [H|H]; [discriminate|]); exact H|].
    apply digits_not_in; [exact Dm | reflexivity]. }
  rewrite vtt_step_eq. cbv zeta. rewrite Ht, (utf8_ascii _ Ha). cbn [negb].
  rewrite (contains_none 62 arrow _ ltac:(right; right; left; reflexivity) Hgt).
  assert (E1 : has_prefix p_note (tsmap_string (l, m)) = false) by (rewrite tsmap_string_eq; reflexivity).
  assert (E2 : has_prefix p_region (tsmap_string (l, m)) = false) by (rewrite tsmap_string_eq; reflexivity).
  assert (E3 : has_prefix p_style (tsmap_string (l, m)) = false) by (rewrite tsmap_string_eq; reflexivity).
  assert (E4 : has_prefix p_tsmap (tsmap_string (l, m)) = true) by (rewrite tsmap_string_eq; unfold has_prefix; rewrite prefix_app; reflexivity).
  rewrite E1, E2, E3, E4.
  destruct (tsmap_string (l, m)) as [|c0 r0] eqn:ET; [rewrite tsmap_string_eq in ET; discriminate|]. rewrite <- ET.
  unfold step_tsmap. rewrite Hc, (parse_tsmap_string l m Hl Hm). reflexivity.
Qed.

(* ================= words separated by single spaces ================= *)
Definition sp_words (ws : list str) : str := concat (map (cons 32) ws).
Definition plainw (w : str) : Prop := w <> [] /\ forallb plain_byte w = true.
Definition eff (v fb : str) : str := match v with [] => fb | _ => v end.
Definition optw (sep : N) (k e : str) : list str := match e with [] => [] | _ => [k ++ [sep] ++ e] end.

Lemma sp_words_app a b : sp_words (a ++ b) = sp_words a ++ sp_words b.
Proof. unfold sp_words. rewrite map_app, concat_app. reflexivity. Qed.
Lemma sp_words_cons w ws : sp_words (w :: ws) = 32 :: w ++ sp_words ws.
Proof. reflexivity. Qed.

Lemma split_sp_words ws : forall A, ~ In 32 A -> Forall (fun w => ~ In 32 w) ws -> split_byte 32 (A ++ sp_words ws) = A :: ws.
Proof.
  induction ws as [|w ws IH]; intros A HA Hws.
  - cbn [sp_words map concat]. rewrite app_nil_r. apply split_byte_none. exact HA.
  - inversion Hws as [|? ? Hw Hws']; subst. rewrite sp_words_cons. rewrite (split_byte_app 32 A _ HA). f_equal. apply IH; assumption.
Qed.

Lemma plain_byte_facts c : plain_byte c = true -> is_ascii_space c = false /\ (c <? 128) = true /\ is_brk c = false /\ c <> 32.
Proof.
  unfold plain_byte. intros H. apply andb_true_iff in H. destruct H as [H1 H2]. apply negb_true_iff in H1.
  repeat split; try assumption.
  - unfold is_ascii_space in H1. apply orb_false_iff in H1. destruct H1 as [H1 H3]. apply N.eqb_neq in H1.
    unfold is_brk, CR, LF. destruct (c =? 13) eqn:E1; [apply N.eqb_eq in E1; subst c; discriminate|].
    destruct (c =? 10) eqn:E2; [apply N.eqb_eq in E2; subst c; discriminate|]. reflexivity.
  - intros E. subst c. discriminate.
Qed.

Lemma fields_fuel_word w : forall cur f rest, forallb plain_byte w = true ->
  fields_fuel (length w + f) cur (w ++ rest) = fields_fuel f (rev w ++ cur) rest.
Proof.
  induction w as [|c w IH]; intros cur f rest H; [reflexivity|].
  cbn [forallb] in H. apply andb_true_iff in H. destruct H as [Hc Hw]. destruct (plain_byte_facts c Hc) as (S1 & S2 & _).
  cbn [length plus app fields_fuel strip_space1]. rewrite S1, S2. rewrite (IH (c :: cur) f rest Hw).
  cbn [rev]. rewrite <- app_assoc. reflexivity.
Qed.

Lemma fields_words ws : forall cur f, Forall plainw ws ->
  fields_fuel (length (sp_words ws) + S f) cur (sp_words ws) = (match cur with [] => [] | _ => [rev cur] end) ++ ws.
Proof.
  induction ws as [|w ws IH]; intros cur f H.
  - cbn [sp_words map concat length plus fields_fuel]. rewrite app_nil_r. reflexivity.
  - inversion H as [|? ? [Hne Hw] Hws]; subst. rewrite sp_words_cons. cbn [length]. rewrite app_length.
    cbn [plus fields_fuel]. change (strip_space1 (32 :: w ++ sp_words ws)) with (Some (w ++ sp_words ws)). cbv iota.
    rewrite <- Nat.add_assoc. rewrite (fields_fuel_word w [] _ _ Hw). rewrite app_nil_r.
    rewrite (IH (rev w) f Hws). rewrite rev_involutive.
    assert (Er : match rev w with [] => [] | _ :: _ => [w] end = [w]).
    { destruct (rev w) eqn:E; [|reflexivity]. exfalso. apply Hne. rewrite <- (rev_involutive w), E. reflexivity. }
    rewrite Er. destruct cur; reflexivity.
Qed.

Lemma fields_sp_words ws : Forall plainw ws -> fields (sp_words ws) = ws.
Proof.
  intros H. unfold fields. rewrite <- Nat.add_1_r. rewrite (fields_words ws [] 0 H). reflexivity.
Qed.

(* a line of plain words *)
Lemma plainw_ascii w : plainw w -> ascii w = true.
Proof. intros [_ H]. unfold ascii. revert H. apply forallb_impl. intros c Hc. apply plain_byte_facts in Hc. tauto. Qed.
Lemma plainw_nobrk w : plainw w -> nobrk w = true.
Proof. intros [_ H]. unfold nobrk. revert H. apply forallb_impl. intros c Hc. apply plain_byte_facts in Hc. destruct Hc as (_ & _ & Hc & _). rewrite Hc. reflexivity. Qed.

Lemma sp_words_ascii ws : Forall plainw ws -> ascii (sp_words ws) = true.
Proof.
  induction ws as [|w ws IH]; intros H; [reflexivity|]. inversion H; subst. rewrite sp_words_cons.
  change (32 :: w ++ sp_words ws) with ([32] ++ w ++ sp_words ws). apply ascii_app; [reflexivity|]. apply ascii_app; [apply plainw_ascii; assumption | apply IH; assumption].
Qed.
Lemma sp_words_nobrk ws : Forall plainw ws -> nobrk (sp_words ws) = true.
Proof.
  induction ws as [|w ws IH]; intros H; [reflexivity|]. inversion H; subst. rewrite sp_words_cons.
  change (32 :: w ++ sp_words ws) with ([32] ++ w ++ sp_words ws). apply nobrk_app; [reflexivity|]. apply nobrk_app; [apply plainw_nobrk; assumption | apply IH; assumption].
Qed.

Lemma words_last_plain ws : forall w0, plainw w0 -> Forall plainw ws -> plain_byte (last (w0 ++ sp_words ws) 0) = true.
Proof.
  induction ws as [|w ws IH]; intros w0 [Hne Hw0] Hws.
  - cbn [sp_words map concat]. rewrite app_nil_r. rewrite forallb_forall in Hw0. apply Hw0. apply last_in_nonnil. exact Hne.
  - inversion Hws as [|? ? Hw Hws']; subst. rewrite sp_words_cons. rewrite last_app_cons.
    change (32 :: w ++ sp_words ws) with ([32] ++ (w ++ sp_words ws)). rewrite last_app_nonnil.
    + apply IH; assumption.
    + destruct Hw as [Hwne _]. destruct w; [contradiction | discriminate].
Qed.

Lemma words_line_clean w0 ws : plainw w0 -> Forall plainw ws -> line_clean (w0 ++ sp_words ws) = true.
Proof.
  intros H0 Hws. unfold line_clean.
  rewrite (utf8_ascii _ (ascii_app _ _ (plainw_ascii _ H0) (sp_words_ascii _ Hws))).
  rewrite (nobrk_app _ _ (plainw_nobrk _ H0) (sp_words_nobrk _ Hws)).
  rewrite trim_space_plain; [rewrite str_eqb_refl; reflexivity | | |].
  - destruct H0 as [Hne _]. destruct w0; [contradiction | discriminate].
  - destruct H0 as [Hne Hw]. destruct w0 as [|c r]; [contradiction|]. cbn [app hd]. cbn [forallb] in Hw. apply andb_true_iff in Hw. tauto.
  - apply words_last_plain; assumption.
Qed.

(* ================= a timestamp followed by a space ================= *)
Lemma trim_right_sp s : trim_right (s ++ [32]) = trim_right s.
Proof.
  unfold trim_right. rewrite rev_app_distr, app_length. change (rev [32]) with [32]. cbn [app length].
  rewrite Nat.add_1_r. reflexivity.
Qed.

Lemma trim_space_sp s : s <> [] -> plain_byte (hd 0 s) = true -> plain_byte (last s 0) = true -> trim_space (s ++ [32]) = s.
Proof.
  intros Hne Hh Hl. unfold trim_space. destruct s as [|c r]; [contradiction|]. cbn [hd] in Hh.
  change ((c :: r) ++ [32]) with (c :: (r ++ [32])). rewrite (trim_left_plain c _ Hh).
  change (c :: (r ++ [32])) with ((c :: r) ++ [32]). rewrite trim_right_sp.
  destruct (@exists_last _ (c :: r) Hne) as (s' & z & E). rewrite E in *. rewrite last_last in Hl.
  apply trim_right_plain. exact Hl.
Qed.

Lemma parse_format_vtt_sp t : (0 <= t <= max_int64)%Z -> parse_vtt (format_vtt t ++ [32]) = Some (trunc_ms t).
Proof.
  intros Ht. rewrite <- (parse_format_vtt t Ht). unfold parse_vtt, format_vtt.
  destruct (format_grammar dot 3 t ltac:(lia) (proj1 Ht)) as (E & Dh & _ & Dm & _ & _ & Ds & _ & _ & Df & Lf).
  rewrite E. set (HMS := two (f_h t) ++ [colon] ++ two (f_m t) ++ [colon] ++ two (f_s t)).
  set (F := pad_left 48 3 (itoa_z (f_fr 3 t))) in *.
  replace (two (f_h t) ++ [colon] ++ two (f_m t) ++ [colon] ++ two (f_s t) ++ [dot] ++ F) with (HMS ++ dot :: F)
    by (unfold HMS; rewrite <- !app_assoc; reflexivity).
  assert (Hh : ~ In dot HMS) by (apply hms_no_sep; [exact sep_ok_dot | assumption ..]).
  assert (HF : ~ In dot F) by (apply digits_not_in; [exact Df | reflexivity]).
  assert (HneF : F <> []) by (intros EF; rewrite EF in Lf; cbn in Lf; lia).
  unfold parse_duration. rewrite <- app_assoc. cbn [app].
  rewrite (split_byte_app dot HMS (F ++ [32]) Hh), (split_byte_app dot HMS F Hh).
  rewrite (split_byte_none dot F HF).
  rewrite (split_byte_none dot (F ++ [32])) by (apply not_in_app; [exact HF | intros [H|[]]; discriminate]).
  cbn [rev app].
  rewrite (digits_trim F Df HneF).
  rewrite trim_space_sp; [reflexivity | exact HneF | |].
  - destruct F as [|c r]; [contradiction|]. cbn [hd]. apply is_digit_plain. apply (digits_in _ c Df). left. reflexivity.
  - apply is_digit_plain. apply (digits_in _ _ Df). apply last_in_nonnil. exact HneF.
Qed.

(* ================= region definitions ================= *)
Definition rattr (rg : vregion) : vregattr := match rg_attr rg with Some a => a | None => vregattr0 end.
Definition rfb (rg : vregion) : vregattr := match rg_fb rg with Some a => a | None => vregattr0 end.
Definition eff_lines (rg : vregion) : Z := if (ra_lines (rattr rg) =? 0)%Z then ra_lines (rfb rg) else ra_lines (rattr rg).
(* the attributes the writer renders: the region's own, else the fall-back ones *)
Definition eff_attr (rg : vregion) : vregattr :=
  mkVregattr (eff_lines rg) (eff (ra_anchor (rattr rg)) (ra_anchor (rfb rg))) (eff (ra_scroll (rattr rg)) (ra_scroll (rfb rg)))
             (eff (ra_vanchor (rattr rg)) (ra_vanchor (rfb rg))) (eff (ra_width (rattr rg)) (ra_width (rfb rg))).
Definition lines_words (L : Z) : list str := if (L =? 0)%Z then [] else [k_lines ++ [61] ++ itoa_z L].
Definition attr_words (a : vregattr) : list str :=
  lines_words (ra_lines a) ++ optw 61 k_anchor (ra_anchor a) ++ optw 61 k_scroll (ra_scroll a) ++
  optw 61 k_vanchor (ra_vanchor a) ++ optw 61 k_width (ra_width a).
Definition region_line (rg : vregion) : str := p_region ++ (k_id ++ [61] ++ rg_id rg) ++ sp_words (attr_words (eff_attr rg)).

Lemma reg_setting_eq key v fb : reg_setting key v fb = sp_words (optw 61 key (eff v fb)).
Proof. unfold reg_setting, optw, eff, sp_words. destruct v; [destruct fb|]; cbn [map concat app]; rewrite ?app_nil_r; reflexivity. Qed.

Lemma vregion_bytes_eq rg : vregion_bytes rg = region_line rg ++ [10].
Proof.
  unfold vregion_bytes, region_line, attr_words, eff_attr. cbn [ra_lines ra_anchor ra_scroll ra_vanchor ra_width].
  fold (rattr rg). fold (rfb rg). rewrite !reg_setting_eq. rewrite !sp_words_app.
  assert (EL : (if (ra_lines (rattr rg) =? 0)%Z
                then if (ra_lines (rfb rg) =? 0)%Z then [] else [32] ++ k_lines ++ [61] ++ itoa_z (ra_lines (rfb rg))
                else [32] ++ k_lines ++ [61] ++ itoa_z (ra_lines (rattr rg))) = sp_words (lines_words (eff_lines rg))).
  { unfold lines_words, eff_lines. destruct (ra_lines (rattr rg) =? 0)%Z eqn:E1.
    - destruct (ra_lines (rfb rg) =? 0)%Z eqn:E2; [reflexivity|]. unfold sp_words. cbn [map concat app]. rewrite app_nil_r. reflexivity.
    - rewrite E1. unfold sp_words. cbn [map concat app]. rewrite app_nil_r. reflexivity. }
  rewrite EL. change [82; 101; 103; 105; 111; 110; 58; 32; 105; 100; 61] with (p_region ++ k_id ++ [61]).
  rewrite <- !app_assoc. reflexivity.
Qed.

Definition rval_ok (v : str) : bool := forallb (fun c => negb (c =? 32) && negb (c =? 61)) v.
Lemma rval_ok_no v : rval_ok v = true -> ~ In 32 v /\ ~ In 61 v.
Proof.
  unfold rval_ok. intros H. rewrite forallb_forall in H. split; intros Hin; specialize (H _ Hin); discriminate.
Qed.

Definition set_rlines n a := mkVregattr n (ra_anchor a) (ra_scroll a) (ra_vanchor a) (ra_width a).
Definition set_ranchor v a := mkVregattr (ra_lines a) v (ra_scroll a) (ra_vanchor a) (ra_width a).
Definition set_rscroll v a := mkVregattr (ra_lines a) (ra_anchor a) v (ra_vanchor a) (ra_width a).
Definition set_rvanchor v a := mkVregattr (ra_lines a) (ra_anchor a) (ra_scroll a) v (ra_width a).
Definition set_rwidth v a := mkVregattr (ra_lines a) (ra_anchor a) (ra_scroll a) (ra_vanchor a) v.

Lemma region_part_kv key v r id a : ~ In 61 key -> ~ In 61 v ->
  region_parts ((key ++ 61 :: v) :: r) id a =
      if str_eqb key k_id then region_parts r v a
      else if str_eqb key k_lines then
        match atoi v with
        | Some n => region_parts r id (set_rlines n a)
        | None => Err EParse
        end
      else if str_eqb key k_anchor then region_parts r id (set_ranchor v a)
      else if str_eqb key k_scroll then region_parts r id (set_rscroll v a)
      else if str_eqb key k_vanchor then region_parts r id (set_rvanchor v a)
      else if str_eqb key k_width then region_parts r id (set_rwidth v a)
      else region_parts r id a.
Proof.
  intros Hk Hv. cbn [region_parts]. rewrite split1.
  rewrite (split_byte_app 61 key v Hk), (split_byte_none 61 v Hv). reflexivity.
Qed.

Ltac no61 := cbn [In]; intros H61; repeat (destruct H61 as [H61|H61]; [discriminate|]); exact H61.

Lemma rp_opt_anchor e r id a : ~ In 61 e -> region_parts (optw 61 k_anchor e ++ r) id a = region_parts r id (match e with [] => a | _ => set_ranchor e a end).
Proof. intros H. destruct e as [|c e']; [reflexivity|]. unfold optw. cbn [app]. rewrite region_part_kv; [reflexivity | unfold k_anchor; no61 | exact H]. Qed.
Lemma rp_opt_scroll e r id a : ~ In 61 e -> region_parts (optw 61 k_scroll e ++ r) id a = region_parts r id (match e with [] => a | _ => set_rscroll e a end).
Proof. intros H. destruct e as [|c e']; [reflexivity|]. unfold optw. cbn [app]. rewrite region_part_kv; [reflexivity | unfold k_scroll; no61 | exact H]. Qed.
Lemma rp_opt_vanchor e r id a : ~ In 61 e -> region_parts (optw 61 k_vanchor e ++ r) id a = region_parts r id (match e with [] => a | _ => set_rvanchor e a end).
Proof. intros H. destruct e as [|c e']; [reflexivity|]. unfold optw. cbn [app]. rewrite region_part_kv; [reflexivity | unfold k_vanchor; no61 | exact H]. Qed.
Lemma rp_opt_width e r id a : ~ In 61 e -> region_parts (optw 61 k_width e ++ r) id a = region_parts r id (match e with [] => a | _ => set_rwidth e a end).
Proof. intros H. destruct e as [|c e']; [reflexivity|]. unfold optw. cbn [app]. rewrite region_part_kv; [reflexivity | unfold k_width; no61 | exact H]. Qed.
Lemma rp_lines L r id a : (0 <= L <= max_int64)%Z ->
  region_parts (lines_words L ++ r) id a = region_parts r id (if (L =? 0)%Z then a else set_rlines L a).
Proof.
  intros HL. unfold lines_words. destruct (L =? 0)%Z; [reflexivity|]. cbn [app].
  rewrite region_part_kv; [| unfold k_lines; no61 | apply digits_not_in; [apply itoa_z_digits; lia | reflexivity]].
  change (str_eqb k_lines k_id) with false. change (str_eqb k_lines k_lines) with true. cbv iota.
  rewrite (atoi_itoa_z L HL). reflexivity.
Qed.

Lemma region_parts_line id a : ~ In 61 id -> (0 <= ra_lines a <= max_int64)%Z ->
  ~ In 61 (ra_anchor a) -> ~ In 61 (ra_scroll a) -> ~ In 61 (ra_vanchor a) -> ~ In 61 (ra_width a) ->
  region_parts ((k_id ++ [61] ++ id) :: attr_words a) [] vregattr0 = Ok (id, a).
Proof.
  intros Hid HL H1 H2 H3 H4. change (k_id ++ [61] ++ id) with (k_id ++ 61 :: id). rewrite region_part_kv; [| unfold k_id; no61 | exact Hid].
  change (str_eqb k_id k_id) with true. cbv iota. unfold attr_words.
  rewrite (rp_lines _ _ _ _ HL), (rp_opt_anchor _ _ _ _ H1), (rp_opt_scroll _ _ _ _ H2), (rp_opt_vanchor _ _ _ _ H3).
  rewrite <- (app_nil_r (optw 61 k_width (ra_width a))). rewrite (rp_opt_width _ _ _ _ H4). cbn [region_parts].
  destruct a as [L e1 e2 e3 e4]. cbn [ra_lines ra_anchor ra_scroll ra_vanchor ra_width].
  destruct (L =? 0)%Z eqn:EL; [apply Z.eqb_eq in EL; subst L|]; destruct e1, e2, e3, e4; reflexivity.
Qed.

Definition region_ok (rg : vregion) : bool :=
  rval_ok (rg_id rg) && rval_ok (ra_anchor (eff_attr rg)) && rval_ok (ra_scroll (eff_attr rg)) &&
  rval_ok (ra_vanchor (eff_attr rg)) && rval_ok (ra_width (eff_attr rg)) &&
  (0 <=? eff_lines rg)%Z && (eff_lines rg <=? max_int64)%Z && line_clean (region_line rg).

Lemma region_ok_parts rg : region_ok rg = true ->
  rval_ok (rg_id rg) = true /\ rval_ok (ra_anchor (eff_attr rg)) = true /\ rval_ok (ra_scroll (eff_attr rg)) = true /\
  rval_ok (ra_vanchor (eff_attr rg)) = true /\ rval_ok (ra_width (eff_attr rg)) = true /\
  (0 <= eff_lines rg <= max_int64)%Z /\ line_clean (region_line rg) = true.
Proof.
  unfold region_ok. intros H.
  apply andb_true_iff in H. destruct H as [H H8]. apply andb_true_iff in H. destruct H as [H H7].
  apply andb_true_iff in H. destruct H as [H H6]. apply andb_true_iff in H. destruct H as [H H5].
  apply andb_true_iff in H. destruct H as [H H4]. apply andb_true_iff in H. destruct H as [H H3].
  apply andb_true_iff in H. destruct H as [H1 H2]. apply Z.leb_le in H6, H7. repeat split; assumption.
Qed.

Lemma optw_no32 sep k e : ~ In 32 k -> sep <> 32 -> ~ In 32 e -> Forall (fun w => ~ In 32 w) (optw sep k e).
Proof.
  intros Hk Hs He. unfold optw. destruct e; [constructor|]. constructor; [|constructor].
  apply not_in_app; [exact Hk|]. apply not_in_app; [intros [H|[]]; congruence | exact He].
Qed.

Ltac no32 := cbn [In]; intros H32; repeat (destruct H32 as [H32|H32]; [discriminate|]); exact H32.

Lemma step_region_line s rg : region_ok rg = true ->
  vtt_step s (region_line rg) =
  Ok (mkVst (v_done s) (v_cur s) (v_pre_lines s) (v_block s) (v_comments s) (v_index s) (v_tags s) (v_styles s)
            (aset (rg_id rg) (mkVregion (rg_id rg) (Some (eff_attr rg)) None) (v_regions s)) (v_tsmap s)).
Proof.
  intros H. destruct (region_ok_parts rg H) as (H1 & H2 & H3 & H4 & H5 & HL & Hc).
  destruct (line_clean_parts _ Hc) as (C1 & C2 & _).
  destruct (rval_ok_no _ H1) as [I1 I1']. destruct (rval_ok_no _ H2) as [I2 I2']. destruct (rval_ok_no _ H3) as [I3 I3'].
  destruct (rval_ok_no _ H4) as [I4 I4']. destruct (rval_ok_no _ H5) as [I5 I5'].
  rewrite vtt_step_eq. cbv zeta. rewrite C2, C1. cbn [negb].
  assert (E1 : has_prefix p_note (region_line rg) = false) by reflexivity.
  assert (E2 : has_prefix p_region (region_line rg) = true) by (unfold region_line, has_prefix; rewrite prefix_app; reflexivity).
  rewrite E1, E2. destruct (region_line rg) as [|c0 r0] eqn:ER; [discriminate|]. rewrite <- ER.
  unfold step_region. unfold region_line at 1, trim_prefix. rewrite prefix_app.
  rewrite split1, split_sp_words.
  - rewrite region_parts_line; [reflexivity | exact I1' | exact HL | exact I2' | exact I3' | exact I4' | exact I5'].
  - apply not_in_app; [unfold k_id; no32|]. apply not_in_app; [no32 | exact I1].
  - unfold attr_words. repeat (apply Forall_app; split).
    + unfold lines_words. destruct (ra_lines (eff_attr rg) =? 0)%Z; [constructor|]. constructor; [|constructor].
      apply not_in_app; [unfold k_lines; no32|]. apply not_in_app; [no32|].
      apply digits_not_in; [apply itoa_z_digits; cbn [eff_attr ra_lines]; lia | reflexivity].
    + apply optw_no32; [unfold k_anchor; no32 | discriminate | exact I2].
    + apply optw_no32; [unfold k_scroll; no32 | discriminate | exact I3].
    + apply optw_no32; [unfold k_vanchor; no32 | discriminate | exact I4].
    + apply optw_no32; [unfold k_width; no32 | discriminate | exact I5].
Qed.

(* ================= cue timing lines ================= *)
Definition ifb (it : vitem) : vset := match vi_fb it with Some f => f | None => vset0 end.
(* the settings the writer renders: the cue's own, else the fall-back ones *)
Definition eff_set (it : vitem) : vset :=
  match vi_set it with
  | None => vset0
  | Some s => mkVset (eff (vs_align s) (vs_align (ifb it))) (eff (vs_line s) (vs_line (ifb it))) (eff (vs_position s) (vs_position (ifb it)))
                     (eff (vs_size s) (vs_size (ifb it))) (eff (vs_vertical s) (vs_vertical (ifb it)))
  end.
Definition eff_region (it : vitem) : option str := match vi_set it with None => None | Some _ => vi_region it end.
Definition regw (ro : option str) : list str := match ro with Some id => [k_regionk ++ [58] ++ id] | None => [] end.
Definition set_words (st : vset) (ro : option str) : list str :=
  optw 58 k_align (vs_align st) ++ optw 58 k_line (vs_line st) ++ optw 58 k_position (vs_position st) ++ regw ro ++
  optw 58 k_size (vs_size st) ++ optw 58 k_vertical (vs_vertical st).
Definition timing_line (it : vitem) : str :=
  format_vtt (vi_st it) ++ arrow_sp ++ format_vtt (vi_en it) ++ sp_words (set_words (eff_set it) (eff_region it)).

Lemma setting_eq key v fb : setting key v fb = sp_words (optw 58 key (eff v fb)).
Proof. unfold setting, optw, eff, sp_words. destruct v; [destruct fb|]; cbn [map concat app]; rewrite ?app_nil_r; reflexivity. Qed.

Lemma vitem_settings_eq it : vitem_settings it = sp_words (set_words (eff_set it) (eff_region it)).
Proof.
  unfold vitem_settings, eff_set, eff_region, set_words. destruct (vi_set it) as [s|]; [|reflexivity].
  fold (ifb it). cbn [vs_align vs_line vs_position vs_size vs_vertical]. rewrite !setting_eq, !sp_words_app.
  f_equal. f_equal. f_equal. f_equal. destruct (vi_region it); [|reflexivity].
  unfold regw, sp_words. cbn [map concat app]. rewrite app_nil_r. reflexivity.
Qed.

Definition sval_ok (v : str) : bool := forallb (fun c => plain_byte c && negb (c =? 58) && negb (c =? 62)) v.
Lemma sval_ok_parts v : sval_ok v = true -> forallb plain_byte v = true /\ ~ In 58 v /\ ~ In 62 v.
Proof.
  unfold sval_ok. intros H. rewrite forallb_forall in H. split; [|split].
  - apply forallb_forall. intros c Hc. specialize (H c Hc). apply andb_true_iff in H. destruct H as [H _]. apply andb_true_iff in H. tauto.
  - intros Hin. specialize (H _ Hin). discriminate.
  - intros Hin. specialize (H _ Hin). discriminate.
Qed.

Definition set_align v s := mkVset v (vs_line s) (vs_position s) (vs_size s) (vs_vertical s).
Definition set_line v s := mkVset (vs_align s) v (vs_position s) (vs_size s) (vs_vertical s).
Definition set_position v s := mkVset (vs_align s) (vs_line s) v (vs_size s) (vs_vertical s).
Definition set_size v s := mkVset (vs_align s) (vs_line s) (vs_position s) v (vs_vertical s).
Definition set_vertical v s := mkVset (vs_align s) (vs_line s) (vs_position s) (vs_size s) v.

Lemma cue_part_kv key v r regs s reg : ~ In 58 key -> ~ In 58 v ->
  cue_settings ((key ++ 58 :: v) :: r) regs s reg =
      if str_eqb key k_align then cue_settings r regs (set_align v s) reg
      else if str_eqb key k_line then cue_settings r regs (set_line v s) reg
      else if str_eqb key k_position then cue_settings r regs (set_position v s) reg
      else if str_eqb key k_regionk then
        match aget v regs with
        | Some rg => cue_settings r regs s (Some (rg_id rg))
        | None => Err EUnknownRef
        end
      else if str_eqb key k_size then cue_settings r regs (set_size v s) reg
      else if str_eqb key k_vertical then cue_settings r regs (set_vertical v s) reg
      else cue_settings r regs s reg.
Proof.
  intros Hk Hv. cbn [cue_settings]. rewrite split1.
  rewrite (split_byte_app 58 key v Hk), (split_byte_none 58 v Hv). reflexivity.
Qed.

Ltac no58 := cbn [In]; intros H58; repeat (destruct H58 as [H58|H58]; [discriminate|]); exact H58.

Lemma cs_opt_align e r regs s reg : ~ In 58 e -> cue_settings (optw 58 k_align e ++ r) regs s reg = cue_settings r regs (match e with [] => s | _ => set_align e s end) reg.
Proof. intros H. destruct e as [|c e']; [reflexivity|]. unfold optw. cbn [app]. rewrite cue_part_kv; [reflexivity | unfold k_align; no58 | exact H]. Qed.
Lemma cs_opt_line e r regs s reg : ~ In 58 e -> cue_settings (optw 58 k_line e ++ r) regs s reg = cue_settings r regs (match e with [] => s | _ => set_line e s end) reg.
Proof. intros H. destruct e as [|c e']; [reflexivity|]. unfold optw. cbn [app]. rewrite cue_part_kv; [reflexivity | unfold k_line; no58 | exact H]. Qed.
Lemma cs_opt_position e r regs s reg : ~ In 58 e -> cue_settings (optw 58 k_position e ++ r) regs s reg = cue_settings r regs (match e with [] => s | _ => set_position e s end) reg.
Proof. intros H. destruct e as [|c e']; [reflexivity|]. unfold optw. cbn [app]. rewrite cue_part_kv; [reflexivity | unfold k_position; no58 | exact H]. Qed.
Lemma cs_opt_size e r regs s reg : ~ In 58 e -> cue_settings (optw 58 k_size e ++ r) regs s reg = cue_settings r regs (match e with [] => s | _ => set_size e s end) reg.
Proof. intros H. destruct e as [|c e']; [reflexivity|]. unfold optw. cbn [app]. rewrite cue_part_kv; [reflexivity | unfold k_size; no58 | exact H]. Qed.
Lemma cs_opt_vertical e r regs s reg : ~ In 58 e -> cue_settings (optw 58 k_vertical e ++ r) regs s reg = cue_settings r regs (match e with [] => s | _ => set_vertical e s end) reg.
Proof. intros H. destruct e as [|c e']; [reflexivity|]. unfold optw. cbn [app]. rewrite cue_part_kv; [reflexivity | unfold k_vertical; no58 | exact H]. Qed.

Definition region_ref_ok (regs : list (str * vregion)) (ro : option str) : Prop :=
  match ro with Some id => ~ In 58 id /\ exists rg, aget id regs = Some rg /\ rg_id rg = id | None => True end.

Lemma cs_region ro r regs s : region_ref_ok regs ro ->
  cue_settings (regw ro ++ r) regs s None = cue_settings r regs s ro.
Proof.
  intros H. destruct ro as [id|]; [|reflexivity]. destruct H as (Hid & rg & Hg & Hr).
  unfold regw. cbn [app]. rewrite cue_part_kv; [| unfold k_regionk; no58 | exact Hid].
  change (str_eqb k_regionk k_align) with false. change (str_eqb k_regionk k_line) with false.
  change (str_eqb k_regionk k_position) with false. change (str_eqb k_regionk k_regionk) with true. cbv iota.
  rewrite Hg, Hr. reflexivity.
Qed.

Lemma cue_settings_words st ro regs : region_ref_ok regs ro ->
  ~ In 58 (vs_align st) -> ~ In 58 (vs_line st) -> ~ In 58 (vs_position st) -> ~ In 58 (vs_size st) -> ~ In 58 (vs_vertical st) ->
  cue_settings (set_words st ro) regs vset0 None = Ok (st, ro).
Proof.
  intros Hr H1 H2 H3 H4 H5. unfold set_words.
  rewrite (cs_opt_align _ _ _ _ _ H1), (cs_opt_line _ _ _ _ _ H2), (cs_opt_position _ _ _ _ _ H3), (cs_region _ _ _ _ Hr),
          (cs_opt_size _ _ _ _ _ H4).
  rewrite <- (app_nil_r (optw 58 k_vertical (vs_vertical st))). rewrite (cs_opt_vertical _ _ _ _ _ H5). cbn [cue_settings].
  destruct st as [e1 e2 e3 e4 e5]. cbn [vs_align vs_line vs_position vs_size vs_vertical]. destruct e1, e2, e3, e4, e5; reflexivity.
Qed.

Definition set_ok (st : vset) : bool :=
  sval_ok (vs_align st) && sval_ok (vs_line st) && sval_ok (vs_position st) && sval_ok (vs_size st) && sval_ok (vs_vertical st).
Definition wordok (w : str) : Prop := plainw w /\ ~ In 62 w.

Lemma optw_wordok key e : key <> [] -> forallb plain_byte key = true -> ~ In 62 key -> sval_ok e = true -> Forall wordok (optw 58 key e).
Proof.
  intros Hne Hk Hk2 He. destruct (sval_ok_parts e He) as (E1 & _ & E3). unfold optw. destruct e as [|c e']; [constructor|].
  constructor; [|constructor]. split; [split|].
  - destruct key; [contradiction | discriminate].
  - rewrite !forallb_app. rewrite Hk, E1. reflexivity.
  - apply not_in_app; [exact Hk2|]. apply not_in_app; [intros [H|[]]; discriminate | exact E3].
Qed.

Lemma set_words_ok st ro : set_ok st = true -> match ro with Some id => sval_ok id = true | None => True end ->
  Forall wordok (set_words st ro).
Proof.
  intros H Hr. unfold set_ok in H.
  apply andb_true_iff in H. destruct H as [H H5]. apply andb_true_iff in H. destruct H as [H H4].
  apply andb_true_iff in H. destruct H as [H H3]. apply andb_true_iff in H. destruct H as [H1 H2].
  unfold set_words. repeat (apply Forall_app; split).
  - apply optw_wordok; [discriminate | reflexivity | unfold k_align; no58 | exact H1].
  - apply optw_wordok; [discriminate | reflexivity | unfold k_line; no58 | exact H2].
  - apply optw_wordok; [discriminate | reflexivity | unfold k_position; no58 | exact H3].
  - destruct ro as [id|]; [|constructor]. exact (optw_wordok k_regionk id ltac:(discriminate) eq_refl ltac:(unfold k_regionk; no58) Hr) || idtac.
    unfold regw. destruct (sval_ok_parts id Hr) as (E1 & _ & E3). constructor; [|constructor]. split; [split|].
    + discriminate.
    + rewrite !forallb_app. rewrite E1. reflexivity.
    + apply not_in_app; [unfold k_regionk; no58|]. apply not_in_app; [intros [H0|[]]; discriminate | exact E3].
  - apply optw_wordok; [discriminate | reflexivity | unfold k_size; no58 | exact H4].
  - apply optw_wordok; [discriminate | reflexivity | unfold k_vertical; no58 | exact H5].
Qed.

Lemma set_ok_no58 st : set_ok st = true ->
  ~ In 58 (vs_align st) /\ ~ In 58 (vs_line st) /\ ~ In 58 (vs_position st) /\ ~ In 58 (vs_size st) /\ ~ In 58 (vs_vertical st).
Proof.
  intros H. unfold set_ok in H.
  apply andb_true_iff in H. destruct H as [H H5]. apply andb_true_iff in H. destruct H as [H H4].
  apply andb_true_iff in H. destruct H as [H H3]. apply andb_true_iff in H. destruct H as [H1 H2].
  repeat split; apply sval_ok_parts; assumption.
Qed.

Lemma format_vtt_plainw t : (0 <= t)%Z -> wordok (format_vtt t) /\ ~ In 45 (format_vtt t).
Proof.
  intros Ht. split; [split; [split|]|].
  - apply format_vtt_nonnil, Ht.
  - apply (forallb_impl ts_char); [intros c Hc; apply ts_char_facts in Hc; tauto | apply format_vtt_chars, Ht].
  - apply format_vtt_not_in; [exact Ht | reflexivity].
  - apply format_vtt_not_in; [exact Ht | reflexivity].
Qed.

Lemma split_fuel_none n sep s : cut sep s = None -> split_fuel n sep s = [s].
Proof. intros H. destruct n; cbn [split_fuel]; [reflexivity | rewrite H; reflexivity]. Qed.

Lemma sp_words_no c ws : c <> 32 -> Forall (fun w => ~ In c w) ws -> ~ In c (sp_words ws).
Proof.
  intros Hc. induction ws as [|w ws IH]; intros H; [intros []|]. inversion H; subst. rewrite sp_words_cons.
  intros [E|Hin]; [congruence|]. apply in_app_or in Hin. destruct Hin as [Hin|Hin]; [contradiction | exact (IH ltac:(assumption) Hin)].
Qed.

Lemma timing_line_eq it :
  timing_line it = format_vtt (vi_st it) ++ sp_words (arrow :: format_vtt (vi_en it) :: set_words (eff_set it) (eff_region it)).
Proof. unfold timing_line, arrow_sp, arrow. rewrite !sp_words_cons. cbn [app]. reflexivity. Qed.

Lemma step_timing s it :
  (0 <= vi_st it <= max_int64)%Z -> (0 <= vi_en it <= max_int64)%Z -> set_ok (eff_set it) = true ->
  match eff_region it with Some id => sval_ok id = true | None => True end ->
  region_ref_ok (v_regions s) (eff_region it) ->
  vtt_step s (timing_line it) =
  Ok (mkVst (close_vcur s) (Some (mkVitem (v_index s) (trunc_ms (vi_st it)) (trunc_ms (vi_en it)) (v_comments s) (eff_region it) (Some (eff_set it)) None []))
            (v_pre_lines s) BText [] 0%Z (v_tags s) (v_styles s) (v_regions s) (v_tsmap s))
  /\ nobrk (timing_line it) = true.
Proof.
  intros Hst Hen Hset Hrv Hrr.
  destruct (format_vtt_plainw (vi_st it) ltac:(lia)) as ([P1 G1] & M1).
  destruct (format_vtt_plainw (vi_en it) ltac:(lia)) as ([P2 G2] & _).
  pose proof (set_words_ok _ _ Hset Hrv) as Hws.
  set (ws := set_words (eff_set it) (eff_region it)) in *.
  assert (Hpl : Forall plainw ws) by (revert Hws; apply Forall_impl; intros w [H _]; exact H).
  assert (Hgt : Forall (fun w => ~ In 62 w) ws) by (revert Hws; apply Forall_impl; intros w [_ H]; exact H).
  assert (Parrow : plainw arrow) by (split; [discriminate | reflexivity]).
  assert (Hall : Forall plainw (arrow :: format_vtt (vi_en it) :: ws)) by (constructor; [exact Parrow | constructor; [exact P2 | exact Hpl]]).
  assert (Hc : line_clean (timing_line it) = true) by (rewrite timing_line_eq; apply words_line_clean; assumption).
  destruct (line_clean_parts _ Hc) as (C1 & C2 & C3). split; [|exact C3].
  assert (E1 : has_prefix p_note (timing_line it) = false /\ has_prefix p_region (timing_line it) = false /\
               has_prefix p_style (timing_line it) = false /\ timing_line it <> []).
  { unfold timing_line. destruct (format_vtt_hd (vi_st it) ltac:(lia)) as (d & F' & E & Hd). rewrite E. cbn [app].
    apply is_digit_range in Hd. unfold p_note, p_region, p_style. rewrite !has_prefix_hd_neq by lia. repeat split. discriminate. }
  destruct E1 as (E1 & E2 & E3 & E4).
  set (A := format_vtt (vi_st it) ++ [32]).
  set (B := sp_words (format_vtt (vi_en it) :: ws)).
  assert (EL : timing_line it = A ++ arrow ++ B).
  { unfold timing_line, A, B, arrow_sp, arrow. rewrite sp_words_cons. rewrite <- !app_assoc. reflexivity. }
  assert (HA : ~ In 45 A) by (unfold A; apply not_in_app; [exact M1 | intros [H|[]]; discriminate]).
  assert (HB : ~ In 62 B).
  { unfold B. apply sp_words_no; [discriminate|]. constructor; [exact G2 | exact Hgt]. }
  assert (Ecut : cut arrow (timing_line it) = Some (A, B)) by (rewrite EL; apply (cut_app 45 [45; 62] A B HA)).
  rewrite vtt_step_eq. cbv zeta. rewrite C2, C1. cbn [negb]. rewrite E1.
  destruct (timing_line it) as [|c0 r0] eqn:ET; [contradiction|]. rewrite E2, E3. rewrite <- ET in *.
  unfold contains. rewrite Ecut.
  unfold step_cue. unfold Str.split. cbn [split_fuel]. rewrite Ecut.
  rewrite (split_fuel_none _ arrow B (cut_none 62 arrow B ltac:(right; right; left; reflexivity) HB)).
  unfold B at 1. rewrite (fields_sp_words _ (Forall_cons _ P2 Hpl)).
  unfold A. rewrite (parse_format_vtt_sp _ Hst), (parse_format_vtt _ Hen).
  destruct (set_ok_no58 _ Hset) as (N1 & N2 & N3 & N4 & N5).
  unfold ws. rewrite (cue_settings_words _ _ _ Hrr N1 N2 N3 N4 N5). reflexivity.
Qed.

(* ================= running over segments of lines ================= *)
Lemma vtt_run_app s l1 l2 :
  vtt_run s (l1 ++ l2) = match vtt_run s l1 with Ok s' => vtt_run s' l2 | Err k => Err k | Panic p => Panic p end.
Proof.
  revert s. induction l1 as [|x l1 IH]; intros s; [reflexivity|]. cbn [app vtt_run].
  destruct (vtt_step s x); [apply IH | reflexivity | reflexivity].
Qed.

Lemma vtt_run_app_ok s l1 l2 s1 : vtt_run s l1 = Ok s1 -> vtt_run s (l1 ++ l2) = vtt_run s1 l2.
Proof. intros H. rewrite vtt_run_app, H. reflexivity. Qed.

Definition lineok (x : str) : bool := line_clean x && line_other x.
Lemma lineok_parts x : lineok x = true -> line_clean x = true /\ line_other x = true.
Proof. unfold lineok. intros H. apply andb_true_iff in H. exact H. Qed.
Lemma line_clean_nobrk x : line_clean x = true -> nobrk x = true.
Proof. intros H. apply line_clean_parts in H. tauto. Qed.

Section Reader.
Variables (STY : option (list str)) (REGS : list (str * vregion)) (TSM : option (Z * Z)).

(* ---- comments ---- *)
Lemma comments_loop D C idx T cs : forall acc, forallb lineok cs = true ->
  vtt_run (mkVst D C 0 BComment acc idx T STY REGS TSM) cs = Ok (mkVst D C 0 BComment (acc ++ cs) idx T STY REGS TSM).
Proof.
  induction cs as [|c cs IH]; intros acc H; [rewrite app_nil_r; reflexivity|].
  cbn [forallb] in H. apply andb_true_iff in H. destruct H as [Hc Hcs]. destruct (lineok_parts c Hc) as [H1 H2].
  cbn [vtt_run]. rewrite step_comment; [| reflexivity | exact H1 | exact H2]. cbn [v_done v_cur v_pre_lines v_comments v_index v_tags v_styles v_regions v_tsmap].
  rewrite (IH (acc ++ [c]) Hcs). rewrite <- app_assoc. reflexivity.
Qed.

Definition note_lines (cs : list str) : list str := match cs with [] => [] | c :: cs' => (p_note ++ c) :: cs' ++ [[]] end.
Definition comments_ok (cs : list str) : bool :=
  match cs with [] => true | c :: cs' => line_clean (p_note ++ c) && forallb lineok cs' end.

Lemma note_run D C idx cs : comments_ok cs = true ->
  vtt_run (mkVst D C 0 BNone [] idx [] STY REGS TSM) (note_lines cs) = Ok (mkVst D C 0 BNone cs idx [] STY REGS TSM).
Proof.
  intros H. destruct cs as [|c cs']; [reflexivity|]. cbn [comments_ok] in H. apply andb_true_iff in H. destruct H as [H1 H2].
  cbn [note_lines vtt_run]. rewrite (step_note_eq _ c H1). cbn [v_done v_cur v_pre_lines v_comments v_index v_tags v_styles v_regions v_tsmap app].
  rewrite (vtt_run_app_ok _ _ _ _ (comments_loop D C idx [] cs' [c] H2)). cbn [vtt_run]. rewrite step_blank_eq. reflexivity.
Qed.

Lemma note_lines_nobrk cs : comments_ok cs = true -> forallb nobrk (note_lines cs) = true.
Proof.
  intros H. destruct cs as [|c cs']; [reflexivity|]. cbn [comments_ok] in H. apply andb_true_iff in H. destruct H as [H1 H2].
  cbn [note_lines forallb]. rewrite (line_clean_nobrk _ H1). rewrite forallb_app. cbn [forallb andb].
  rewrite andb_true_r. apply forallb_forall. intros x Hx. rewrite forallb_forall in H2. apply line_clean_nobrk. apply lineok_parts. apply H2, Hx.
Qed.

(* ---- cue text ---- *)
Definition text_lines (ls : list vline) : list str := map (fun l => removelast (vline_bytes l)) ls.

Lemma text_loop D i st en cs rg se fb idx ls : forall acc, forallb text_line_ok ls = true ->
  vtt_run (mkVst D (Some (mkVitem i st en cs rg se fb acc)) 0 BText [] idx [] STY REGS TSM) (text_lines ls) =
  Ok (mkVst D (Some (mkVitem i st en cs rg se fb (acc ++ map nline ls))) 0 BText [] idx [] STY REGS TSM).
Proof.
  induction ls as [|l ls IH]; intros acc H; [cbn [map]; rewrite app_nil_r; reflexivity|].
  cbn [forallb] in H. apply andb_true_iff in H. destruct H as [Hl Hls].
  cbn [text_lines map vtt_run]. rewrite (step_text _ (mkVitem i st en cs rg se fb acc) l); [| reflexivity | reflexivity | reflexivity | exact Hl].
  cbn [v_done v_cur v_pre_lines v_comments v_index v_tags v_styles v_regions v_tsmap vi_idx vi_st vi_en vi_comments vi_region vi_set vi_fb vi_lines].
  fold (text_lines ls). rewrite (IH (acc ++ [nline l]) Hls). rewrite <- app_assoc. reflexivity.
Qed.

Lemma text_lines_nobrk ls : forallb text_line_ok ls = true -> forallb nobrk (text_lines ls) = true.
Proof.
  intros H. unfold text_lines. rewrite forallb_forall in *. intros x Hx. apply in_map_iff in Hx. destruct Hx as (l & <- & Hl).
  specialize (H l Hl). unfold text_line_ok in H. apply andb_true_iff in H. destruct H as [H _]. apply andb_true_iff in H. destruct H as [_ H].
  apply line_clean_nobrk, H.
Qed.

(* ---- one cue ---- *)
Definition item_ok (it : vitem) : Prop :=
  (0 <= vi_st it <= max_int64)%Z /\ (0 <= vi_en it <= max_int64)%Z /\ set_ok (eff_set it) = true /\
  match eff_region it with Some id => sval_ok id = true | None => True end /\
  region_ref_ok REGS (eff_region it) /\ comments_ok (vi_comments it) = true /\ forallb text_line_ok (vi_lines it) = true.

Definition item_main_lines (k : nat) (it : vitem) : list str :=
  note_lines (vi_comments it) ++ [itoa (N.of_nat (S k)); timing_line it] ++ text_lines (vi_lines it).
Definition nitem (k : nat) (it : vitem) : vitem :=
  mkVitem (Z.of_nat (S k)) (trunc_ms (vi_st it)) (trunc_ms (vi_en it)) (vi_comments it) (eff_region it) (Some (eff_set it)) None
          (map nline (vi_lines it)).

Definition close_dc (D : list vitem) (C : option vitem) : list vitem := match C with Some it => D ++ [it] | None => D end.

Lemma item_main_run k it D C idx : item_ok it -> (Z.of_nat (S k) <= max_int64)%Z ->
  vtt_run (mkVst D C 0 BNone [] idx [] STY REGS TSM) (item_main_lines k it) =
  Ok (mkVst (close_dc D C) (Some (nitem k it)) 0 BText [] 0%Z [] STY REGS TSM)
  /\ forallb nobrk (item_main_lines k it) = true.
Proof.
  intros (Hst & Hen & Hset & Hrv & Hrr & Hcs & Hls) Hk. unfold item_main_lines. split.
  - rewrite (vtt_run_app_ok _ _ _ _ (note_run D C idx _ Hcs)).
    cbn [app vtt_run]. rewrite step_index; [|reflexivity | rewrite nat_N_Z; exact Hk].
    cbn [v_done v_cur v_pre_lines v_comments v_index v_tags v_styles v_regions v_tsmap].
    destruct (step_timing (mkVst D C 0 BNone (vi_comments it) (Z.of_N (N.of_nat (S k))) [] STY REGS TSM) it Hst Hen Hset Hrv Hrr) as [E _].
    rewrite E. cbn [v_done v_cur v_pre_lines v_comments v_index v_tags v_styles v_regions v_tsmap].
    rewrite (text_loop _ _ _ _ _ _ _ _ _ _ [] Hls). rewrite nat_N_Z. reflexivity.
  - rewrite forallb_app, (note_lines_nobrk _ Hcs). cbn [app forallb andb].
    rewrite (digits_nobrk _ (itoa_digits _)).
    destruct (step_timing (mkVst D C 0 BNone [] 0%Z [] STY REGS TSM) it Hst Hen Hset Hrv Hrr) as [_ E]. rewrite E.
    rewrite (text_lines_nobrk _ Hls). reflexivity.
Qed.

Lemma blank_after_text D C idx :
  vtt_step (mkVst D C 0 BText [] idx [] STY REGS TSM) [] = Ok (mkVst D C 0 BNone [] idx [] STY REGS TSM).
Proof. reflexivity. Qed.

(* ---- all cues ---- *)
Fixpoint items_lines (k : nat) (l : list vitem) : list str :=
  match l with [] => [] | it :: r => item_main_lines k it ++ [[]] ++ items_lines (S k) r end.
Fixpoint nitems (k : nat) (l : list vitem) : list vitem :=
  match l with [] => [] | it :: r => nitem k it :: nitems (S k) r end.

Lemma items_lines_snoc k l : l <> [] -> exists X, items_lines k l = X ++ [[]].
Proof.
  revert k. induction l as [|it r IH]; intros k H; [contradiction|]. cbn [items_lines]. destruct r as [|it2 r2].
  - exists (item_main_lines k it). cbn [items_lines]. rewrite app_nil_r. reflexivity.
  - destruct (IH (S k) ltac:(discriminate)) as (X & E). rewrite E. exists (item_main_lines k it ++ [[]] ++ X). rewrite <- !app_assoc. reflexivity.
Qed.

Lemma items_run l : forall k D C idx, l <> [] -> Forall item_ok l -> (Z.of_nat (k + length l) <= max_int64)%Z ->
  exists D' C', vtt_run (mkVst D C 0 BNone [] idx [] STY REGS TSM) (removelast (items_lines k l)) =
                Ok (mkVst D' C' 0 BText [] 0%Z [] STY REGS TSM) /\ close_dc D' C' = close_dc D C ++ nitems k l.
Proof.
  induction l as [|it r IH]; intros k D C idx Hne Hok Hk; [contradiction|].
  inversion Hok as [|? ? Hit Hr]; subst. cbn [length] in Hk.
  destruct (item_main_run k it D C idx Hit ltac:(lia)) as [E _].
  cbn [items_lines nitems]. destruct r as [|it2 r2].
  - cbn [items_lines]. rewrite app_nil_r. rewrite removelast_last. rewrite E. eexists. eexists. split; [reflexivity|]. reflexivity.
  - destruct (items_lines_snoc (S k) (it2 :: r2) ltac:(discriminate)) as (X & EX).
    rewrite EX. rewrite !app_assoc. rewrite removelast_last. rewrite <- !app_assoc.
    rewrite (vtt_run_app_ok _ _ _ _ E). cbn [app vtt_run]. rewrite blank_after_text.
    destruct (IH (S k) (close_dc D C) (Some (nitem k it)) 0%Z ltac:(discriminate) Hr ltac:(cbn [length] in *; lia)) as (D' & C' & E2 & E3).
    rewrite EX, removelast_last in E2. exists D', C'. split; [exact E2|]. rewrite E3. cbn [close_dc]. rewrite <- app_assoc. reflexivity.
Qed.

Lemma items_lines_nobrk l : forall k, Forall item_ok l -> (Z.of_nat (k + length l) <= max_int64)%Z -> forallb nobrk (items_lines k l) = true.
Proof.
  induction l as [|it r IH]; intros k Hok Hk; [reflexivity|]. inversion Hok as [|? ? Hit Hr]; subst. cbn [length] in Hk.
  destruct (item_main_run k it [] None 0%Z Hit ltac:(lia)) as [_ E]. cbn [items_lines]. rewrite !forallb_app, E. cbn [forallb andb].
  apply IH; [exact Hr | lia].
Qed.

(* ---- STYLE block ---- *)
Lemma style_loop D C idx ss : forall acc, forallb lineok ss = true ->
  vtt_run (mkVst D C 0 BStyle [] idx [] (Some acc) REGS TSM) ss = Ok (mkVst D C 0 BStyle [] idx [] (Some (acc ++ ss)) REGS TSM).
Proof.
  induction ss as [|c ss IH]; intros acc H; [rewrite app_nil_r; reflexivity|].
  cbn [forallb] in H. apply andb_true_iff in H. destruct H as [Hc Hss]. destruct (lineok_parts c Hc) as [H1 H2].
  cbn [vtt_run]. rewrite (step_style_line _ c acc); [| reflexivity | reflexivity | exact H1 | exact H2]. cbn [v_done v_cur v_pre_lines v_comments v_index v_tags v_styles v_regions v_tsmap].
  rewrite (IH (acc ++ [c]) Hss). rewrite <- app_assoc. reflexivity.
Qed.

Lemma style_run D C idx ss : forallb lineok ss = true -> last_ends_brace ss = true ->
  vtt_run (mkVst D C 0 BNone [] idx [] None REGS TSM) ([p_style] ++ ss ++ [[]]) = Ok (mkVst D C 0 BNone [] idx [] (Some ss) REGS TSM).
Proof.
  intros H1 H2. cbn [app vtt_run]. rewrite step_style_start by reflexivity.
  cbn [v_done v_cur v_pre_lines v_comments v_index v_tags v_styles v_regions v_tsmap].
  rewrite (vtt_run_app_ok _ _ _ _ (style_loop D C idx ss [] H1)). cbn [app vtt_run]. rewrite step_blank_eq.
  unfold step_blank. cbn [v_done v_cur v_pre_lines v_block v_comments v_index v_tags v_styles v_regions v_tsmap]. rewrite H2. reflexivity.
Qed.
End Reader.

(* ================= region definitions, in sequence ================= *)
Definition nregion (rg : vregion) : vregion := mkVregion (rg_id rg) (Some (eff_attr rg)) None.

Lemma aset_fresh {V} k (v : V) m : ~ In k (map fst m) -> aset k v m = m ++ [(k, v)].
Proof.
  induction m as [|[k' v'] m IH]; intros H; [reflexivity|]. cbn [aset]. destruct (str_eqb k k') eqn:E.
  - exfalso. apply H. left. apply str_eqb_eq in E. cbn [fst]. congruence.
  - cbn [app]. f_equal. apply IH. intros Hin. apply H. right. exact Hin.
Qed.

Lemma region_loop D C idx STY TSM rgs : forall acc, Forall (fun rg => region_ok rg = true) rgs ->
  NoDup (map fst acc ++ map rg_id rgs) ->
  vtt_run (mkVst D C 0 BNone [] idx [] STY acc TSM) (map region_line rgs) =
  Ok (mkVst D C 0 BNone [] idx [] STY (acc ++ map (fun rg => (rg_id rg, nregion rg)) rgs) TSM).
Proof.
  induction rgs as [|rg rgs IH]; intros acc Hok Hnd; [cbn [map]; rewrite app_nil_r; reflexivity|].
  inversion Hok as [|? ? H1 H2]; subst. cbn [map vtt_run]. rewrite (step_region_line _ rg H1).
  cbn [v_done v_cur v_pre_lines v_block v_comments v_index v_tags v_styles v_regions v_tsmap].
  cbn [map] in Hnd. rewrite aset_fresh.
  2:{ apply NoDup_remove_2 in Hnd. intros Hin. apply Hnd. apply in_or_app. left. exact Hin. }
  fold (nregion rg). rewrite IH; [rewrite <- app_assoc; reflexivity | exact H2 |].
  rewrite map_app. cbn [map fst]. rewrite <- app_assoc. exact Hnd.
Qed.

(* ---- the sort of the region / style keys ---- *)
Lemma sinsert_in x y l : In x (sinsert y l) <-> x = y \/ In x l.
Proof.
  induction l as [|z l IH]; cbn [sinsert In]; [intuition|]. destruct (str_leb y z); cbn [In]; [intuition|]. rewrite IH. intuition.
Qed.
Lemma ssort_in x l : In x (ssort l) <-> In x l.
Proof. induction l as [|y l IH]; cbn [ssort fold_right In]; [tauto|]. fold (ssort l). rewrite sinsert_in, IH. intuition. Qed.
Lemma sinsert_nodup y l : ~ In y l -> NoDup l -> NoDup (sinsert y l).
Proof.
  induction l as [|z l IH]; intros Hn Hd; cbn [sinsert]; [constructor; [intros [] | constructor]|].
  destruct (str_leb y z); [constructor; assumption|]. inversion Hd as [|? ? Hz Hl]; subst. constructor.
  - rewrite sinsert_in. intros [E|Hin]; [apply Hn; left; exact E | contradiction].
  - apply IH; [intros Hin; apply Hn; right; exact Hin | exact Hl].
Qed.
Lemma ssort_nodup l : NoDup l -> NoDup (ssort l).
Proof.
  induction l as [|y l IH]; intros H; [constructor|]. inversion H as [|? ? Hy Hl]; subst. cbn [ssort fold_right]. fold (ssort l).
  apply sinsert_nodup; [rewrite ssort_in; exact Hy | apply IH; exact Hl].
Qed.

(* ---- the header ---- *)
Lemma vtt_header_webvtt rest : vtt_header (p_webvtt :: rest) = Ok rest.
Proof. reflexivity. Qed.

(* ================= the written document as a list of lines ================= *)
Definition style_list (d : vdoc) (so : list str) : list str :=
  flat_map (fun id => match aget id (vd_styles d) with Some (Some l) => l | _ => [] end) (ssort so).
Definition rget (d : vdoc) (id : str) : vregion :=
  match aget id (vd_regions d) with Some rg => rg | None => mkVregion id None None end.
Definition region_list (d : vdoc) (ro : list str) : list vregion := map (rget d) (ssort ro).
Definition read_regions (d : vdoc) (ro : list str) : list (str * vregion) := map (fun rg => (rg_id rg, nregion rg)) (region_list d ro).
Definition hdr_lines (d : vdoc) (so ro : list str) : list str :=
  [p_webvtt] ++ (match vd_tsmap d with Some m => [tsmap_string m] | None => [] end) ++ [[]] ++
  (match style_list d so with [] => [] | ss => [p_style] ++ ss ++ [[]] end) ++
  map region_line (region_list d ro) ++ (match ro with [] => [] | _ => [[]] end).
Definition doc_lines (d : vdoc) (so ro : list str) : list str := hdr_lines d so ro ++ items_lines 0 (vd_items d).

Definition regions_keyed (d : vdoc) (ro : list str) : Prop :=
  forall k, In k ro -> exists rg, aget k (vd_regions d) = Some rg /\ rg_id rg = k.

Lemma vline_bytes_split l : vline_bytes l = removelast (vline_bytes l) ++ [10].
Proof. rewrite vline_bytes_removelast. unfold vline_bytes. rewrite <- app_assoc. reflexivity. Qed.

Lemma text_lines_bytes ls : concat (map vline_bytes ls) = unlines (text_lines ls).
Proof.
  induction ls as [|l ls IH]; [reflexivity|]. cbn [map concat text_lines]. fold (text_lines ls). rewrite unlines_cons, <- IH.
  rewrite (vline_bytes_split l) at 1. rewrite <- app_assoc. reflexivity.
Qed.

Lemma note_bytes cs :
  (match cs with [] => [] | _ => p_note ++ concat (map (fun c => c ++ [10]) cs) ++ [10] end) = unlines (note_lines cs).
Proof.
  destruct cs as [|c cs']; [reflexivity|]. cbn [note_lines map concat]. rewrite unlines_cons, unlines_app.
  unfold unlines at 2. cbn [map concat app]. fold (unlines cs'). rewrite <- !app_assoc. reflexivity.
Qed.

Lemma vitems_bytes_lines l : forall k, vitems_bytes k l = unlines (items_lines k l).
Proof.
  induction l as [|it r IH]; intros k; [reflexivity|]. cbn [vitems_bytes items_lines]. rewrite IH.
  assert (EN : match vi_comments it with [] => [] | l0 :: l1 => p_note ++ concat (map (fun c => c ++ [10]) (l0 :: l1)) ++ [10] end
               = unlines (note_lines (vi_comments it))).
  { destruct (vi_comments it) as [|c0 cs0]; [reflexivity | exact (note_bytes (c0 :: cs0))]. }
  rewrite EN.
  unfold item_main_lines. rewrite !unlines_app. rewrite text_lines_bytes, vitem_settings_eq.
  unfold timing_line. rewrite !unlines_cons. change (unlines []) with (@nil N).
  rewrite <- !app_assoc. cbn [app]. rewrite <- !app_assoc. reflexivity.
Qed.

Lemma region_bytes_lines d ids : (forall k, In k ids -> exists rg, aget k (vd_regions d) = Some rg /\ rg_id rg = k) ->
  concat (map (fun id => match aget id (vd_regions d) with Some rg => vregion_bytes rg | None => [] end) ids) =
  unlines (map region_line (map (rget d) ids)).
Proof.
  induction ids as [|id ids IH]; intros H; [reflexivity|]. cbn [map concat]. rewrite unlines_cons.
  destruct (H id ltac:(left; reflexivity)) as (rg & E & _). unfold rget at 1. rewrite E, vregion_bytes_eq.
  rewrite IH by (intros k Hk; apply H; right; exact Hk). rewrite <- app_assoc. reflexivity.
Qed.

Lemma write_vtt_lines d so ro : vd_items d <> [] -> regions_keyed d ro ->
  write_vtt d so ro = Ok (removelast (unlines (doc_lines d so ro))).
Proof.
  intros Hne Hk. unfold write_vtt. destruct (vd_items d) as [|it0 r0] eqn:Ei; [contradiction|]. rewrite <- Ei.
  f_equal. f_equal. unfold doc_lines, hdr_lines. rewrite !unlines_app.
  fold (style_list d so).
  rewrite (region_bytes_lines d (ssort ro)) by (intros k Hin; apply Hk; apply ssort_in; exact Hin).
  fold (region_list d ro). rewrite vitems_bytes_lines.
  assert (E1 : forall X, p_webvtt ++ (match vd_tsmap d with Some m => [10] ++ tsmap_string m | None => [] end) ++ [10; 10] ++ X =
                         unlines [p_webvtt] ++ unlines (match vd_tsmap d with Some m => [tsmap_string m] | None => [] end) ++ unlines [[]] ++ X).
  { intros X. destruct (vd_tsmap d); unfold unlines; cbn [map concat app]; rewrite <- ?app_assoc; cbn [app]; rewrite ?app_nil_r; reflexivity. }
  rewrite E1. rewrite <- !app_assoc. f_equal. f_equal. f_equal. f_equal; [|f_equal; f_equal; destruct ro; reflexivity].
  destruct (style_list d so) as [|s0 ss0]; [reflexivity|].
  rewrite !unlines_app. rewrite <- (join_unlines (s0 :: ss0)) by discriminate.
  unfold unlines. cbn [map concat app]. rewrite <- !app_assoc. reflexivity.
Qed.

(* ================= statement 3: a written document is read back ================= *)
(* what the reader returns: cues numbered from 1, times truncated to the millisecond, settings and region attributes
   merged with their fall-backs (and the fall-backs cleared), styles collapsed into the default style entry,
   regions keyed by ID in sorted order *)
Definition ndoc (d : vdoc) (so ro : list str) : vdoc :=
  mkVdoc (nitems 0 (vd_items d)) (read_regions d ro)
         (match style_list d so with [] => [] | ss => [(default_style_id, Some ss)] end)
         (match vd_tsmap d with Some (l, m) => Some (trunc_ms l, m) | None => None end).

Definition item_okd (ro : list str) (it : vitem) : Prop :=
  (0 <= vi_st it <= max_int64)%Z /\ (0 <= vi_en it <= max_int64)%Z /\ set_ok (eff_set it) = true /\
  match eff_region it with Some id => sval_ok id = true /\ In id ro | None => True end /\
  comments_ok (vi_comments it) = true /\ forallb text_line_ok (vi_lines it) = true.

Record repr_vdoc (d : vdoc) (so ro : list str) : Prop := {
  rd_items : vd_items d <> [];
  rd_count : (Z.of_nat (length (vd_items d)) <= max_int64)%Z;
  rd_ro : NoDup ro;
  rd_regions : forall k, In k ro -> exists rg, aget k (vd_regions d) = Some rg /\ rg_id rg = k /\ region_ok rg = true;
  rd_item : Forall (item_okd ro) (vd_items d);
  rd_styles : forallb lineok (style_list d so) = true /\ last_ends_brace (style_list d so) = true;
  rd_tsmap : match vd_tsmap d with Some (l, m) => (0 <= l <= max_int64)%Z /\ (0 <= m <= max_int64)%Z | None => True end }.

Lemma aget_regs rgs id : In id (map rg_id rgs) ->
  exists rg, aget id (map (fun rg => (rg_id rg, nregion rg)) rgs) = Some (nregion rg) /\ rg_id rg = id.
Proof.
  induction rgs as [|rg rgs IH]; intros H; [destruct H|]. cbn [map aget]. destruct (str_eqb id (rg_id rg)) eqn:E.
  - exists rg. split; [reflexivity|]. apply str_eqb_eq in E. congruence.
  - destruct H as [H|H]; [rewrite H, str_eqb_refl in E; discriminate|]. exact (IH H).
Qed.

Lemma region_ids d ro : regions_keyed d ro -> map rg_id (region_list d ro) = ssort ro.
Proof.
  intros Hk. unfold region_list. rewrite map_map. rewrite <- (map_id (ssort ro)) at 2. apply map_ext_in. intros k Hin.
  apply (proj1 (ssort_in _ _)) in Hin. destruct (Hk k Hin) as (rg & E & Eid). unfold rget. rewrite E. exact Eid.
Qed.

Lemma blank_clean D C idx STY REGS TSM :
  vtt_step (mkVst D C 0 BNone [] idx [] STY REGS TSM) [] = Ok (mkVst D C 0 BNone [] idx [] STY REGS TSM).
Proof. reflexivity. Qed.

Theorem write_read_vtt d so ro : repr_vdoc d so ro ->
  exists data, write_vtt d so ro = Ok data /\ read_vtt data = Ok (ndoc d so ro).
Proof.
  intros [Hne Hcount Hnd Hregs Hitems [Hsty1 Hsty2] Hts].
  assert (Hkeyed : regions_keyed d ro) by (intros k Hk; destruct (Hregs k Hk) as (rg & A & B & _); exists rg; auto).
  eexists. split; [apply write_vtt_lines; assumption|].
  destruct (items_lines_snoc 0 (vd_items d) Hne) as (Y & EY).
  set (REGS := read_regions d ro).
  set (STY := match style_list d so with [] => None | ss => Some ss end).
  set (TSM := match vd_tsmap d with Some (l, m) => Some (trunc_ms l, m) | None => None end).
  (* the cues, against the regions read *)
  assert (Hok : Forall (item_ok REGS) (vd_items d)).
  { revert Hitems. apply Forall_impl. intros it (A1 & A2 & A3 & A4 & A5 & A6).
    split; [exact A1|]. split; [exact A2|]. split; [exact A3|]. split; [|split; [|split; assumption]].
    - destruct (eff_region it); [tauto | exact I].
    - unfold region_ref_ok. destruct (eff_region it) as [id|]; [|exact I]. destruct A4 as [A4 A4'].
      split; [apply sval_ok_parts; exact A4|].
      destruct (aget_regs (region_list d ro) id) as (rg & E1 & E2).
      + rewrite (region_ids d ro Hkeyed). apply ssort_in. exact A4'.
      + exists (nregion rg). split; [exact E1 | exact E2]. }
  assert (Hrok : Forall (fun rg => region_ok rg = true) (region_list d ro)).
  { unfold region_list. apply Forall_forall. intros rg Hin. apply in_map_iff in Hin. destruct Hin as (k & <- & Hk).
    apply (proj1 (ssort_in _ _)) in Hk. destruct (Hregs k Hk) as (rg & A & _ & B). unfold rget. rewrite A. exact B. }
  (* no line contains a line break *)
  assert (Hnb : forallb nobrk (hdr_lines d so ro ++ Y) = true).
  { rewrite forallb_app. apply andb_true_iff. split.
    - unfold hdr_lines. rewrite !forallb_app. repeat (apply andb_true_iff; split); try reflexivity.
      + destruct (vd_tsmap d) as [[l m]|]; [|reflexivity]. cbn [forallb]. destruct Hts as [H1 H2].
        destruct (step_tsmap_line vstate0 l m eq_refl H1 H2) as [_ E]. rewrite E. reflexivity.
      + assert (Hs : forallb nobrk (style_list d so) = true).
        { revert Hsty1. apply forallb_impl'. intros x Hx. apply line_clean_nobrk. apply lineok_parts in Hx. tauto. }
        destruct (style_list d so) as [|s0 ss0]; [reflexivity|]. rewrite !forallb_app. rewrite Hs. reflexivity.
      + apply forallb_forall. intros x Hx. apply in_map_iff in Hx. destruct Hx as (rg & <- & Hrg). rewrite Forall_forall in Hrok.
        specialize (Hrok rg Hrg). apply region_ok_parts in Hrok. apply line_clean_nobrk. tauto.
      + destruct ro; reflexivity.
    - pose proof (items_lines_nobrk STY REGS TSM (vd_items d) 0 Hok ltac:(cbn [plus]; exact Hcount)) as E. rewrite EY, forallb_app in E.
      apply andb_true_iff in E. tauto. }
  assert (Edata : removelast (unlines (doc_lines d so ro)) = unlines (hdr_lines d so ro ++ Y)).
  { unfold doc_lines. rewrite EY, app_assoc, unlines_app. unfold unlines at 2. cbn [map concat app]. apply removelast_last. }
  rewrite Edata. unfold read_vtt. rewrite (lines_unlines _ Hnb).
  unfold read_vtt_lines.
  set (TSL := match vd_tsmap d with Some m => [tsmap_string m] | None => [] end).
  set (STYL := match style_list d so with [] => [] | ss => [p_style] ++ ss ++ [[]] end).
  set (SEPL := match ro with [] => @nil str | _ => [[]] end).
  assert (EH : hdr_lines d so ro ++ Y = p_webvtt :: (TSL ++ [[]] ++ (STYL ++ (map region_line (region_list d ro) ++ (SEPL ++ Y))))).
  { unfold hdr_lines. fold TSL. fold STYL. fold SEPL. rewrite <- !app_assoc. reflexivity. }
  rewrite EH. rewrite vtt_header_webvtt.
  (* the header lines *)
  assert (R1 : vtt_run vstate0 TSL =
               Ok (mkVst [] None 0 BNone [] 0%Z [] None [] TSM)).
  { unfold TSM, TSL. destruct (vd_tsmap d) as [[l m]|]; [|reflexivity]. destruct Hts as [H1 H2]. cbn [vtt_run].
    destruct (step_tsmap_line vstate0 l m eq_refl H1 H2) as [E _]. rewrite E. reflexivity. }
  rewrite (vtt_run_app_ok _ _ _ _ R1). cbn [app vtt_run]. rewrite blank_clean.
  assert (R2 : vtt_run (mkVst [] None 0 BNone [] 0%Z [] None [] TSM) STYL =
               Ok (mkVst [] None 0 BNone [] 0%Z [] STY [] TSM)).
  { unfold STY, STYL. destruct (style_list d so) as [|s0 ss0]; [reflexivity|]. apply style_run; assumption. }
  rewrite (vtt_run_app_ok _ _ _ _ R2).
  assert (R3 : vtt_run (mkVst [] None 0 BNone [] 0%Z [] STY [] TSM) (map region_line (region_list d ro)) =
               Ok (mkVst [] None 0 BNone [] 0%Z [] STY REGS TSM)).
  { rewrite (region_loop [] None 0%Z STY TSM (region_list d ro) [] Hrok); [reflexivity|].
    cbn [map app]. rewrite (region_ids d ro Hkeyed). apply ssort_nodup. exact Hnd. }
  rewrite (vtt_run_app_ok _ _ _ _ R3).
  assert (R4 : vtt_run (mkVst [] None 0 BNone [] 0%Z [] STY REGS TSM) SEPL =
               Ok (mkVst [] None 0 BNone [] 0%Z [] STY REGS TSM)).
  { unfold SEPL. destruct ro; [reflexivity|]. cbn [vtt_run]. rewrite blank_clean. reflexivity. }
  rewrite (vtt_run_app_ok _ _ _ _ R4).
  destruct (items_run STY REGS TSM (vd_items d) 0 [] None 0%Z Hne Hok ltac:(cbn [plus]; exact Hcount)) as (D' & C' & E1 & E2).
  rewrite EY, removelast_last in E1. rewrite E1.
  unfold ndoc. f_equal. f_equal.
  - unfold close_vcur. cbn [v_cur v_done]. exact E2.
  - cbn [v_styles]. unfold STY. destruct (style_list d so); reflexivity.
Qed.

(* ================= consequences ================= *)
Lemma nitems_idx l : forall k, map vi_idx (nitems k l) = map Z.of_nat (seq (S k) (length l)).
Proof. induction l as [|it r IH]; intros k; [reflexivity|]. cbn [nitems map length seq vi_idx nitem]. rewrite IH. reflexivity. Qed.

(* cues are numbered consecutively from 1 *)
Corollary written_cues_numbered d so ro :
  map vi_idx (vd_items (ndoc d so ro)) = map Z.of_nat (seq 1 (length (vd_items d))).
Proof. apply nitems_idx. Qed.

Lemma nitems_in l : forall k it', In it' (nitems k l) -> exists j it, In it l /\ it' = nitem j it.
Proof.
  induction l as [|it r IH]; intros k it' H; [destruct H|]. destruct H as [H|H].
  - exists k, it. split; [left; reflexivity | symmetry; exact H].
  - destruct (IH _ _ H) as (j & it0 & A & B). exists j, it0. split; [right; exact A | exact B].
Qed.

(* every region a cue of the document read back refers to is one of the regions read back, under its own ID;
   its definition line belongs to the header lines, which precede every cue line of the file *)
Corollary written_regions_defined d so ro : repr_vdoc d so ro ->
  Forall (fun it' => match vi_region it' with
                     | Some id => exists rg, aget id (vd_regions (ndoc d so ro)) = Some (nregion rg) /\ rg_id rg = id /\
                                             In (region_line rg) (hdr_lines d so ro)
                     | None => True
                     end) (vd_items (ndoc d so ro)).
Proof.
  intros [Hne Hcount Hnd Hregs Hitems _ _].
  assert (Hkeyed : regions_keyed d ro) by (intros k Hk; destruct (Hregs k Hk) as (rg & A & B & _); exists rg; auto).
  apply Forall_forall. intros it' Hin. cbn [ndoc vd_items] in Hin. destruct (nitems_in _ _ _ Hin) as (j & it & Hit & ->).
  cbn [nitem vi_region]. rewrite Forall_forall in Hitems. destruct (Hitems it Hit) as (_ & _ & _ & A4 & _).
  destruct (eff_region it) as [id|]; [|exact I]. destruct A4 as [_ Hid].
  assert (Hin2 : In id (map rg_id (region_list d ro))) by (rewrite (region_ids d ro Hkeyed); apply ssort_in; exact Hid).
  destruct (aget_regs (region_list d ro) id Hin2) as (rg & E1 & E2).
  (* the region found is one of the listed ones *)
  assert (Hl : exists rg0, In rg0 (region_list d ro) /\ aget id (read_regions d ro) = Some (nregion rg0) /\ rg_id rg0 = id).
  { clear E1 E2 rg. unfold read_regions. induction (region_list d ro) as [|r0 rs IH]; [destruct Hin2|]. cbn [map aget].
    destruct (str_eqb id (rg_id r0)) eqn:E.
    - exists r0. apply str_eqb_eq in E. split; [left; reflexivity | split; [reflexivity | congruence]].
    - destruct Hin2 as [H|H]; [rewrite H, str_eqb_refl in E; discriminate|]. destruct (IH H) as (rg0 & A & B & C).
      exists rg0. split; [right; exact A | split; assumption]. }
  destruct Hl as (rg0 & A & B & C). exists rg0. split; [exact B | split; [exact C|]].
  unfold hdr_lines. apply in_or_app. right. apply in_or_app. right. apply in_or_app. right. apply in_or_app. right. apply in_or_app. left.
  apply in_map. exact A.
Qed.

(* ================= any successfully read file: referenced regions are defined ================= *)
Definition regs_keyed (m : list (str * vregion)) : Prop := forall k rg, aget k m = Some rg -> rg_id rg = k.
Definition ref_ok (m : list (str * vregion)) (r : option str) : Prop :=
  match r with Some id => exists rg, aget id m = Some rg | None => True end.
Definition sinv (s : vstate) : Prop :=
  regs_keyed (v_regions s) /\ Forall (fun it => ref_ok (v_regions s) (vi_region it)) (close_vcur s).

Lemma aget_aset_same {V} k (v : V) m : aget k (aset k v m) = Some v.
Proof.
  induction m as [|[k' v'] m IH]; cbn [aset aget]; [rewrite str_eqb_refl; reflexivity|].
  destruct (str_eqb k k') eqn:E; cbn [aget]; [rewrite str_eqb_refl; reflexivity | rewrite E; exact IH].
Qed.
Lemma aget_aset_other {V} k k' (v : V) m : k' <> k -> aget k' (aset k v m) = aget k' m.
Proof.
  intros Hne. induction m as [|[k2 v2] m IH]; cbn [aset aget].
  - destruct (str_eqb k' k) eqn:E; [apply str_eqb_eq in E; contradiction | reflexivity].
  - destruct (str_eqb k k2) eqn:E; cbn [aget].
    + apply str_eqb_eq in E. subst k2. destruct (str_eqb k' k) eqn:E2; [apply str_eqb_eq in E2; contradiction | reflexivity].
    + destruct (str_eqb k' k2); [reflexivity | exact IH].
Qed.

Lemma regs_keyed_aset id a m : regs_keyed m -> regs_keyed (aset id (mkVregion id a None) m).
Proof.
  intros H k rg E. destruct (list_eq_dec N.eq_dec k id) as [->|Hne].
  - rewrite aget_aset_same in E. injection E as <-. reflexivity.
  - rewrite aget_aset_other in E by exact Hne. exact (H k rg E).
Qed.
Lemma ref_ok_aset id v m r : ref_ok m r -> ref_ok (aset id v m) r.
Proof.
  destruct r as [k|]; [|intros _; exact I]. intros (rg & E). cbn [ref_ok]. destruct (list_eq_dec N.eq_dec k id) as [->|Hne].
  - rewrite aget_aset_same. eexists. reflexivity.
  - rewrite aget_aset_other by exact Hne. exists rg. exact E.
Qed.

Lemma cue_settings_ref fs regs : regs_keyed regs -> forall s reg s' reg',
  cue_settings fs regs s reg = Ok (s', reg') -> ref_ok regs reg -> ref_ok regs reg'.
Proof.
  intros Hk. induction fs as [|f fs IH]; intros s reg s' reg' H Hr.
  - cbn [cue_settings] in H. injection H as _ <-. exact Hr.
  - cbn [cue_settings] in H. destruct (Str.split [58] f) as [|k [|v rest]]; try discriminate.
    destruct (str_eqb k k_align); [exact (IH _ _ _ _ H Hr)|].
    destruct (str_eqb k k_line); [exact (IH _ _ _ _ H Hr)|].
    destruct (str_eqb k k_position); [exact (IH _ _ _ _ H Hr)|].
    destruct (str_eqb k k_regionk).
    { destruct (aget v regs) as [rg|] eqn:E; [|discriminate]. apply (IH _ _ _ _ H). cbn [ref_ok]. exists rg.
      rewrite (Hk v rg E). exact E. }
    destruct (str_eqb k k_size); [exact (IH _ _ _ _ H Hr)|].
    destruct (str_eqb k k_vertical); exact (IH _ _ _ _ H Hr).
Qed.

Lemma sinv_same s s' : v_regions s' = v_regions s -> close_vcur s' = close_vcur s -> sinv s -> sinv s'.
Proof. intros E1 E2 [H1 H2]. unfold sinv. rewrite E1, E2. split; assumption. Qed.

Lemma vtt_step_sinv s raw s' : vtt_step s raw = Ok s' -> sinv s -> sinv s'.
Proof.
  intros H Hs. rewrite vtt_step_eq in H. cbv zeta in H.
  destruct (negb (utf8_valid (trim_space raw))); [discriminate|].
  destruct (has_prefix p_note (trim_space raw)).
  { unfold step_note in H. injection H as <-. apply (sinv_same s); [reflexivity | reflexivity | exact Hs]. }
  destruct (trim_space raw) as [|c0 line0] eqn:El.
  { unfold step_blank in H. injection H as <-. apply (sinv_same s); [reflexivity | reflexivity | exact Hs]. }
  destruct (has_prefix p_region (c0 :: line0)).
  { unfold step_region in H. destruct (region_parts _ _ _) as [[id a]| |]; try discriminate. injection H as <-.
    destruct Hs as [H1 H2]. split; cbn [v_regions].
    - apply regs_keyed_aset. exact H1.
    - change (close_vcur _) with (close_vcur s). revert H2. apply Forall_impl. intros it. apply ref_ok_aset. }
  destruct (has_prefix p_style (c0 :: line0)).
  { unfold step_style in H. destruct (v_styles s); injection H as <-; apply (sinv_same s); try reflexivity; exact Hs. }
  destruct (contains arrow (c0 :: line0)).
  { unfold step_cue in H. destruct (Str.split arrow (c0 :: line0)) as [|l [|r rest]]; try discriminate.
    destruct (fields r) as [|e settings]; [discriminate|].
    destruct (parse_vtt l); [|discriminate]. destruct (parse_vtt e); [|discriminate].
    destruct (cue_settings settings (v_regions s) vset0 None) as [[st reg]| |] eqn:Ec; try discriminate. injection H as <-.
    destruct Hs as [H1 H2]. split; cbn [v_regions]; [exact H1|].
    unfold close_vcur at 1. cbn [v_cur v_done]. apply Forall_app. split; [exact H2|]. constructor; [|constructor].
    cbn [vi_region]. exact (cue_settings_ref _ _ H1 _ _ _ _ Ec I). }
  destruct (has_prefix p_tsmap (c0 :: line0)).
  { unfold step_tsmap in H. destruct (cur_has_lines s); [discriminate|]. destruct (parse_tsmap _); [|discriminate].
    injection H as <-. apply (sinv_same s); [reflexivity | reflexivity | exact Hs]. }
  unfold step_block in H. destruct (v_block s).
  - injection H as <-. apply (sinv_same s); [reflexivity | reflexivity | exact Hs].
  - injection H as <-. apply (sinv_same s); [reflexivity | reflexivity | exact Hs].
  - injection H as <-. apply (sinv_same s); [reflexivity | reflexivity | exact Hs].
  - destruct (parse_text_vtt (c0 :: line0) (v_tags s)) as [ln tags'].
    destruct (vl_runs ln).
    + injection H as <-. apply (sinv_same s); [reflexivity | reflexivity | exact Hs].
    + destruct (v_cur s) as [it|] eqn:Ecur.
      * injection H as <-. destruct Hs as [H1 H2]. split; cbn [v_regions]; [exact H1|].
        unfold close_vcur in *. cbn [v_cur v_done]. rewrite Ecur in H2. apply Forall_app in H2. destruct H2 as [H2 H3].
        apply Forall_app. split; [exact H2|]. inversion H3; subst. constructor; [|constructor]. cbn [vi_region]. assumption.
      * injection H as <-. destruct Hs as [H1 H2]. split; cbn [v_regions]; [exact H1|].
        unfold close_vcur in *. cbn [v_cur v_done]. rewrite Ecur in H2. exact H2.
Qed.

Lemma vtt_run_sinv ls : forall s s', vtt_run s ls = Ok s' -> sinv s -> sinv s'.
Proof.
  induction ls as [|l ls IH]; intros s s' H Hs; cbn [vtt_run] in H; [injection H as <-; exact Hs|].
  destruct (vtt_step s l) as [s1| |] eqn:E; try discriminate. exact (IH _ _ H (vtt_step_sinv _ _ _ E Hs)).
Qed.

(* whatever the input: if it is read successfully, every region a cue refers to has been defined (by a "Region:" line
   processed before the cue's timing line -- the invariant holds after every line), under the key equal to its ID *)
Theorem read_vtt_regions_defined data d : read_vtt data = Ok d ->
  Forall (fun it => match vi_region it with
                    | Some id => exists rg, aget id (vd_regions d) = Some rg /\ rg_id rg = id
                    | None => True
                    end) (vd_items d).
Proof.
  unfold read_vtt, read_vtt_lines. intros H. destruct (vtt_header (lines data)) as [body| |]; try discriminate.
  destruct (vtt_run vstate0 body) as [s| |] eqn:E; try discriminate. injection H as <-. cbn [vd_items vd_regions].
  assert (H0 : sinv vstate0) by (split; [intros k rg Hk; discriminate | constructor]).
  destruct (vtt_run_sinv _ _ _ E H0) as [H1 H2]. revert H2. apply Forall_impl. intros it Hit.
  destruct (vi_region it) as [id|]; [|exact I]. destruct Hit as (rg & Hrg). exists rg. split; [exact Hrg | exact (H1 _ _ Hrg)].
Qed.

(* ================= an example ================= *)
From Coq Require String Ascii.
Fixpoint b (s : String.string) : list N :=
  match s with String.EmptyString => [] | String.String c r => Ascii.N_of_ascii c :: b r end.

Import String.StringSyntax.
Local Open Scope string_scope.
Definition ex_c1 : vtag := mkVtag (b "c") [] [b "red"; b "big"].
Definition ex_ln1 : vline := mkVline [mkVrun (b "Hello ") (Some [ex_c1]) 0%Z None; mkVrun (b "world") None 1500000000%Z None] (b "Bob").
Definition ex_ln2 : vline := mkVline [mkVrun (b "second") None 0%Z None] [].
Definition ex_rgA : vregion :=
  mkVregion (b "fred") (Some (mkVregattr 3 (b "0%,100%") [] (b "10%,90%") (b "40%"))) (Some (mkVregattr 5 [] (b "up") [] [])).
Definition ex_rgB : vregion := mkVregion (b "bill") None None.
Definition ex_it1 : vitem :=
  mkVitem 7 1000000000%Z 2500000000%Z [b "a comment"; b "more"] (Some (b "fred"))
          (Some (mkVset (b "start") [] (b "10%") [] [])) (Some (mkVset [] (b "-1") [] [] (b "rl"))) [ex_ln1; ex_ln2].
Definition ex_it2 : vitem := mkVitem 0 3000000000%Z 4000000123%Z [] None None None [ex_ln2].
Definition ex_doc : vdoc :=
  mkVdoc [ex_it1; ex_it2] [(b "fred", ex_rgA); (b "bill", ex_rgB)]
         [(b "s1", Some [b "::cue {"; b "color: red }"]); (b "s0", None)] (Some (5000000123%Z, 900000%Z)).
Definition ex_so : list str := [b "s1"; b "s0"].
Definition ex_ro : list str := [b "fred"; b "bill"].

Example ex_doc_repr : repr_vdoc ex_doc ex_so ex_ro.
Proof.
  constructor.
  - discriminate.
  - vm_compute. discriminate.
  - repeat constructor; cbn [In]; intros H; repeat (destruct H as [H|H]; [discriminate|]); exact H.
  - intros k [<-|[<-|[]]]; eexists; (split; [reflexivity | split; [reflexivity | vm_compute; reflexivity]]).
  - repeat constructor; try (vm_compute; reflexivity); try (vm_compute; discriminate); try exact I.
  - split; vm_compute; reflexivity.
  - cbn. unfold max_int64. lia.
Qed.

Example ex_doc_roundtrip :
  exists data, write_vtt ex_doc ex_so ex_ro = Ok data /\ read_vtt data = Ok (ndoc ex_doc ex_so ex_ro).
Proof. apply write_read_vtt, ex_doc_repr. Qed.
