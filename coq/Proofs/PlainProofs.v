(* C07 through the plain view: a codec is "plain-faithful" at time unit u when every acceptable plain cue list is
   written to a document that reads back with the same cues, order and line texts, times truncated to u.  Any two
   plain-faithful codecs compose: the generic pair theorem below gives the conversion statement of C07 for every
   (source, destination) pair at once; the SubRip and WebVTT instances are proved here, the other codecs prove
   theirs next to their round-trip theorems. *)
From Coq Require Import List ZArith NArith Bool Lia.
From Astisub Require Import Kit.Base Kit.Str Model.Srt Model.Vtt Model.Conv Model.Plain.
From Astisub Require Import Proofs.SrtProofs Proofs.VttBase Proofs.VttLine Proofs.VttDoc Proofs.ConvProofs.
Import ListNotations.

(* S = what the codec's documents are: a byte string for the five file formats, a list of delivered PES payloads for the
   teletext reader model *)
Definition plain_faithful {S : Type} (u : Z) (ok : plain -> Prop) (enc : plain -> res S) (dec : S -> res plain) : Prop :=
  forall p, ok p -> exists data, enc p = Ok data /\ dec data = Ok (ptrunc u p).

(* source codec A, destination codec B *)
Theorem plain_pair {SA SB : Type} uA okA (encA : plain -> res SA) decA uB okB (encB : plain -> res SB) decB :
  plain_faithful uA okA encA decA -> plain_faithful uB okB encB decB ->
  forall p, okA p -> okB (ptrunc uA p) ->
  exists src dst, encA p = Ok src /\ convert_plain decA encB src = Ok dst /\ decB dst = Ok (ptrunc uB (ptrunc uA p)).
Proof.
  intros HA HB p Hp Hq. destruct (HA p Hp) as (src & Hw & Hr). destruct (HB (ptrunc uA p) Hq) as (dst & Hw' & Hr').
  exists src, dst. split; [exact Hw|]. split; [|exact Hr']. unfold convert_plain. rewrite Hr. exact Hw'.
Qed.

Lemma ptrunc_length u p : length (ptrunc u p) = length p.
Proof. apply map_length. Qed.

(* ---- SubRip instance ---- *)
Definition srt_plain_ok (p : plain) : Prop :=
  Forall repr_item (srt_of_plain p) /\ p <> [] /\ (Z.of_nat (length p) <= max_int64)%Z.

Lemma sview_renum_plain : forall p k, map sview (renum k (srt_of_plain p)) = ptrunc 1000000 p.
Proof.
  induction p as [|[[s e] ls] r IH]; intros k; [reflexivity|].
  cbn [srt_of_plain map renum ptrunc]. fold (srt_of_plain r). fold (ptrunc 1000000 r). rewrite IH. f_equal.
  unfold sview, new_item. cbn [si_st si_en si_lines]. unfold SrtProofs.trunc_ms, trunc_to. f_equal.
  rewrite map_map. rewrite <- (map_id ls) at 2. apply map_ext. intros t. unfold sline_text. cbn [map concat sr_text].
  apply app_nil_r.
Qed.

Theorem srt_plain_faithful : plain_faithful 1000000 srt_plain_ok srt_enc srt_dec.
Proof.
  intros p (Hr & Hne & Hlen).
  assert (Hne' : srt_of_plain p <> []) by (destruct p; [contradiction | discriminate]).
  assert (Hlen' : (Z.of_nat (length (srt_of_plain p)) <= max_int64)%Z) by (unfold srt_of_plain; rewrite map_length; exact Hlen).
  destruct (read_write_srt _ Hr Hne' Hlen') as (data & Hw & Hrd).
  exists data. split; [exact Hw|]. unfold srt_dec, dec_with. rewrite Hrd. f_equal.
  unfold srt_to_plain, renumber_truncate. apply sview_renum_plain.
Qed.

(* ---- WebVTT instance ---- *)
Definition vtt_plain_ok (p : plain) : Prop := repr_vdoc (vtt_of_plain p) [] [].

Lemma vview_nitems_plain : forall p k,
  map vview (nitems k (vd_items (vtt_of_plain p))) = ptrunc 1000000 p.
Proof.
  induction p as [|[[s e] ls] r IH]; intros k; [reflexivity|].
  cbn [vtt_of_plain vd_items map nitems ptrunc]. fold (ptrunc 1000000 r).
  change (map (fun c : pcue => let '(s0, e0, ls0) := c in
                 mkVitem 0 s0 e0 [] None None None (map (fun t => mkVline [mkVrun t None 0%Z None] []) ls0)) r)
    with (vd_items (vtt_of_plain r)).
  rewrite IH. f_equal.
  unfold vview, nitem. cbn [vi_st vi_en vi_lines]. unfold VttBase.trunc_ms, trunc_to. f_equal.
  rewrite !map_map. rewrite <- (map_id ls) at 2. apply map_ext. intros t.
  unfold vline_text, nline. cbn [vl_runs map]. unfold nrun. cbn [vr_text map concat]. apply app_nil_r.
Qed.

Theorem vtt_plain_faithful : plain_faithful 1000000 vtt_plain_ok vtt_enc vtt_dec.
Proof.
  intros p Hr. destruct (write_read_vtt _ _ _ Hr) as (data & Hw & Hrd).
  exists data. split; [exact Hw|]. unfold vtt_dec, dec_with. rewrite Hrd. f_equal.
  unfold vtt_to_plain, ndoc. cbn [vd_items]. apply vview_nitems_plain.
Qed.

(* pairs among the two codecs, from the generic theorem *)
Corollary plain_srt_to_vtt p : srt_plain_ok p -> vtt_plain_ok (ptrunc 1000000 p) ->
  exists src dst, srt_enc p = Ok src /\ convert_plain srt_dec vtt_enc src = Ok dst /\
                  vtt_dec dst = Ok (ptrunc 1000000 (ptrunc 1000000 p)).
Proof. apply (plain_pair _ _ _ _ _ _ _ _ srt_plain_faithful vtt_plain_faithful). Qed.
Corollary plain_vtt_to_srt p : vtt_plain_ok p -> srt_plain_ok (ptrunc 1000000 p) ->
  exists src dst, vtt_enc p = Ok src /\ convert_plain vtt_dec srt_enc src = Ok dst /\
                  srt_dec dst = Ok (ptrunc 1000000 (ptrunc 1000000 p)).
Proof. apply (plain_pair _ _ _ _ _ _ _ _ vtt_plain_faithful srt_plain_faithful). Qed.

(* non-vacuity *)
Definition ex_plain : plain :=
  [(1000000000%Z, 2500000000%Z, [[72; 105]; [116; 104; 101; 114; 101]]%N); (3000000123%Z, 4000000000%Z, [[89; 111; 33]]%N)].
Example ex_plain_srt_ok : srt_plain_ok ex_plain.
Proof. split; [apply repr_itemsb_ok; vm_compute; reflexivity | split; [discriminate | vm_compute; discriminate]]. Qed.
Example ex_plain_vtt_ok : vtt_plain_ok (ptrunc 1000000 ex_plain).
Proof.
  unfold vtt_plain_ok. constructor.
  - discriminate.
  - vm_compute. discriminate.
  - constructor.
  - intros k [].
  - repeat constructor; try (vm_compute; reflexivity); try (vm_compute; discriminate); try exact I.
  - split; vm_compute; reflexivity.
  - exact I.
Qed.
Example ex_plain_conversion :
  exists src dst, srt_enc ex_plain = Ok src /\ convert_plain srt_dec vtt_enc src = Ok dst /\
                  vtt_dec dst = Ok (ptrunc 1000000 (ptrunc 1000000 ex_plain)).
Proof. apply plain_srt_to_vtt; [exact ex_plain_srt_ok | exact ex_plain_vtt_ok]. Qed.

(* Any source document - styled or not, in any rendering the source reader accepts - whose plain view the destination can
   carry: the conversion through the plain view reads back as that plain view, truncated to the destination's unit.  Only
   the destination needs to be plain-faithful. *)
Theorem plain_sink {SA SB : Type} (decA : SA -> res plain) uB okB (encB : plain -> res SB) decB :
  plain_faithful uB okB encB decB ->
  forall src p, decA src = Ok p -> okB p ->
  exists dst, convert_plain decA encB src = Ok dst /\ decB dst = Ok (ptrunc uB p).
Proof.
  intros HB src p Hd Hp. destruct (HB p Hp) as (dst & Hw & Hr). exists dst. split; [|exact Hr].
  unfold convert_plain. rewrite Hd. exact Hw.
Qed.

(* non-vacuity of the styled WebVTT -> SubRip theorem (ConvProofs.vtt_to_srt) on an untagged two-cue document *)
Example ex_vtt_to_srt_hyps :
  repr_vdoc (vtt_of_plain (ptrunc 1000000 ex_plain)) [] [] /\
  Forall repr_item (conv_vs (ndoc (vtt_of_plain (ptrunc 1000000 ex_plain)) [] [])).
Proof. split; [exact ex_plain_vtt_ok | apply repr_itemsb_ok; vm_compute; reflexivity]. Qed.
