(* SSA/ASS reader and writer under delivery schedules and faults (C17, C18). *)
From Coq Require Import List ZArith NArith Bool Arith Lia.
From Astisub Require Import Kit.Base Kit.Str Kit.Scan Kit.IOW Model.Dur Model.Ssa Proofs.ScanProofs Proofs.SsaIgnore.
Import ListNotations.

(* the reader is a function of the scanner's tokens, and these do not depend on the schedule *)
Theorem read_ssa_schedule data counts : read_ssa_lines (scan data counts) false = read_ssa data.
Proof. unfold read_ssa. rewrite scan_lines. reflexivity. Qed.

(* a scanner error (read failure, line too long) is never swallowed *)
Theorem read_ssa_fault ls : exists k, read_ssa_lines ls true = Err k.
Proof.
  unfold read_ssa_lines. destruct (ssa_run rstate0 true ls) as [s|k|q] eqn:E.
  - eexists; reflexivity.
  - eexists; reflexivity.
  - exfalso. exact (ssa_run_no_panic _ _ _ _ E).
Qed.

(* the writer issues up to three Write calls (script info; styles when any; events), each checked *)
Definition write_ssa_to (d : adoc) (order : list str) (dst : dest) : res nat :=
  match write_ssa_chunks d order with Ok ws => run_writes ws dst 0 | Err k => Err k | Panic p => Panic p end.

Lemma write_ssa_chunks_doc d order doc : write_ssa d order = Ok doc ->
  exists ws, write_ssa_chunks d order = Ok ws /\ doc = concat ws.
Proof.
  unfold write_ssa. destruct (write_ssa_chunks d order) as [ws|k|p]; try discriminate.
  intros H. injection H as <-. exists ws. split; reflexivity.
Qed.
Theorem write_ssa_fault d order doc k : write_ssa d order = Ok doc -> (k < length doc)%nat ->
  write_ssa_to d order (fail_at k) = Err EIO.
Proof.
  intros H Hk. destruct (write_ssa_chunks_doc d order doc H) as (ws & Hw & ->).
  unfold write_ssa_to. rewrite Hw. apply writes_fault. exact Hk.
Qed.
Theorem write_ssa_complete d order doc : write_ssa d order = Ok doc -> write_ssa_to d order ok_dest = Ok (length doc).
Proof.
  intros H. destruct (write_ssa_chunks_doc d order doc H) as (ws & Hw & ->).
  unfold write_ssa_to. rewrite Hw, writes_complete. reflexivity.
Qed.
(* nothing is written when there is nothing to write *)
Theorem write_ssa_to_empty d order dst : ad_items d = [] -> write_ssa_to d order dst = Err ENothingToWrite.
Proof. intros H. unfold write_ssa_to, write_ssa_chunks. rewrite H. reflexivity. Qed.

Theorem read_ssa_schedule_independent data counts counts' :
  read_ssa_lines (scan data counts) false = read_ssa_lines (scan data counts') false.
Proof. rewrite !read_ssa_schedule. reflexivity. Qed.
(* a stream failing after k bytes under any delivery schedule: an error, not a shorter document *)
Theorem read_ssa_fault_at_offset data k counts :
  exists e, read_ssa_lines (fst (scan_fail data k counts)) (snd (scan_fail data k counts)) = Err e.
Proof. cbn [scan_fail fst snd]. apply read_ssa_fault. Qed.
