(* C03: rendered documents as bytes: the standard name-space assignment (default namespace for elements, xml: for
   id and lang, tts: as written, the two declarations on the root) and the decidable conditions under which the
   rendered tree is printable and parsed back by the XML parser model (no CR anywhere, names printable). *)
From Coq Require Import List ZArith NArith Bool.
From Astisub Require Import Kit.Base Kit.Str Kit.Xml Kit.XmlParse Kit.XmlParse2 Model.Dur Model.Ttml
  Proofs.TtmlSpec Proofs.TtmlRefs Proofs.TtmlRender Proofs.XmlParseProofs Proofs.XmlParse2Proofs.
Import ListNotations.
Open Scope N_scope.

Definition std_space (n : xname) : str :=
  if str_eqb (x_space n) el_mark then ns_ttml
  else if str_eqb (x_local n) s_id || str_eqb (x_local n) s_lang then ns_xml
  else x_space n.
Definition std_attr (a : xattr) : xattr := (rename std_space (fst a), snd a).
Definition std_extra : list xattr := [(mkName [] s_xmlns, ns_ttml); (mkName s_xmlns s_tts, ns_tts)].
(* the rendered document under the standard assignment *)
Definition render_std (r : rendering) (m : gdoc) : xnode := respace std_space (render_tree r m).

Definition ename_src_ok (nm : xname) : bool :=
  str_eqb (x_space nm) el_mark && local_ok2 (x_local nm) && negb (str_eqb (x_local nm) s_xmlns).
Definition attrs_bytes_ok (al : list xattr) : bool := forallb (fun a => attr_ok2 (std_attr a)) al.
Definition group_bytes_ok (g : group) : bool :=
  match g with
  | GBr w sp => str_eqb sp el_mark && no13 w
  | GText p => no13 (piece_str p)
  | GSpan w nm al p0 ps =>
    no13 w && ename_src_ok nm && attrs_bytes_ok al && no13 (piece_str p0)
    && forallb (fun bp => str_eqb (fst bp) el_mark && no13 (piece_str (snd bp))) ps
  end.
Definition para_bytes_ok (p : rpara) : bool :=
  attrs_bytes_ok (rp_attrs p) && forallb group_bytes_ok (rp_groups p) && no13 (rp_wl p).
Definition bytes_ok (r : rendering) (m : gdoc) : bool :=
  list_eqb xattr_eqb (r_root_extra r) std_extra
  && forallb (fun a => rattr_ok (std_attr a)) (r_root_attrs r)
  && no13 (gd_title m) && no13 (gd_copyright m)
  && forallb attrs_bytes_ok (r_style_attrs r) && forallb attrs_bytes_ok (r_region_attrs r)
  && forallb para_bytes_ok (r_paras r)
  && forallb no13 (r_ws_root r) && forallb no13 (r_ws_head r) && forallb no13 (r_ws_meta r)
  && forallb no13 (r_ws_styling r) && forallb no13 (r_ws_layout r) && forallb no13 (r_ws_body r)
  && forallb no13 (r_ws_div r).

(* What makes the byte-level statement true of the library as well: ReadFromTTML strips the indentation of a paragraph's
   inner XML line-wise; a line break between attributes inside a tag is replaced by a blank (repo fix "keeps attributes
   apart ..."), but a line break INSIDE a quoted attribute value of an element inside a paragraph is replaced too, which
   changes the value: such values are excluded. *)
Definition span_values_ok (g : group) : bool :=
  match g with GSpan _ _ al _ _ => forallb (fun a => no_nl (snd a)) al | _ => true end.
Definition bytes_ok_go (r : rendering) (m : gdoc) : bool :=
  bytes_ok r m && forallb (fun p => forallb span_values_ok (rp_groups p)) (r_paras r).
