(* SubRip, reading half: the hypotheses of read_rendered_raw / read_rendered keep every line that reaches the markup
   tokenizer (the lines without an arrow: text lines and index lines) inside the tokenizer model's faithful domain
   Kit.Html.html_simple, and the computed witness that the domain conjunct of body_line_ok is needed. *)
From Coq Require Import List ZArith NArith Lia Bool Arith.
From Astisub Require Import Kit.Base Kit.Str Kit.Html Kit.Scan Model.Dur Model.Srt.
From Astisub Require Import Proofs.DurProofs Proofs.ScanProofs Proofs.SrtEscProofs Proofs.SrtProofs Proofs.SrtSimple Proofs.SrtReadProofs.
Import ListNotations.
Open Scope N_scope.

Theorem rcue_ok_simple : forall q, rcue_ok q -> Forall (fun x => html_simple x = true) (rc_body q).
Proof.
  intros q (_ & _ & Hb & _). eapply Forall_impl; [|exact Hb]. cbv beta. intros x (_ & _ & _ & H). exact H.
Qed.

(* the timing line is recognised by its arrow and is not tokenized *)
Lemma rtime_line_arrow c st en : rend_ok c -> (0 <= st)%Z -> contains arrow (rtime_line c st en) = true.
Proof.
  intros (_ & Hs & Hk & Hl & _) Hst. destruct (ts_facts _ _ st Hs Hk Hst) as (_ & _ & M1).
  unfold rtime_line.
  replace (ts (rd_sep c) (rd_digits c) st ++ rd_sp_left c ++ arrow ++ rd_sp_right c ++ ts (rd_sep c) (rd_digits c) en ++ rd_tail c)
    with ((ts (rd_sep c) (rd_digits c) st ++ rd_sp_left c) ++ arrow ++ (rd_sp_right c ++ ts (rd_sep c) (rd_digits c) en ++ rd_tail c))
    by (rewrite <- !app_assoc; reflexivity).
  unfold arrow. apply contains_found. intros Hin. apply in_app_or in Hin.
  destruct Hin as [Hin|Hin]; [exact (M1 Hin) | exact (ws_no45 _ Hl Hin)].
Qed.

Definition tokenized_simple (x : str) : Prop := contains arrow x = true \/ html_simple x = true.

Lemma cue_lines_simple c q : rend_ok c -> rcue_ok q -> Forall tokenized_simple (cue_lines c q).
Proof.
  intros Hc Hq. unfold cue_lines. apply Forall_app. split.
  { apply Forall_forall. intros x Hx. apply repeat_spec in Hx. subst x. right. reflexivity. }
  apply Forall_app. split.
  { destruct Hc as (Hi & _). destruct (rd_index c) as [x|]; [|constructor]. constructor; [|constructor]. right. apply index_ok_simple. exact Hi. }
  constructor.
  - left. apply rtime_line_arrow; [exact Hc | apply Hq].
  - eapply Forall_impl; [|exact (rcue_ok_simple q Hq)]. cbv beta. intros x H. right. exact H.
Qed.

(* every line of a rendering that reaches the tokenizer is inside the faithful domain (the byte-order mark of the first
   line is removed by the reader before the line is tokenized) *)
Theorem rendered_raw_simple : forall (cs : list (rend * rcue)) (eof : nat),
  Forall (fun p => rend_ok (fst p) /\ rcue_ok (snd p)) cs ->
  Forall tokenized_simple (all_cue_lines cs ++ repeat [] eof).
Proof.
  intros cs eof Hok. apply Forall_app. split.
  - unfold all_cue_lines. induction cs as [|[c q] cs IH]; [constructor|].
    pose proof (Forall_inv Hok) as (Hc & Hq). cbn [map concat fst snd] in *.
    apply Forall_app. split; [apply cue_lines_simple; assumption | apply IH; exact (Forall_inv_tail Hok)].
  - apply Forall_forall. intros x Hx. apply repeat_spec in Hx. subst x. right. reflexivity.
Qed.

Theorem rendered_items_simple : forall (l : list (rend * sitem)) (eof : nat),
  Forall (fun p => rend_ok (fst p) /\ repr_item (snd p)) l ->
  Forall tokenized_simple (all_cue_lines (map (fun p => (fst p, rcue_of (snd p))) l) ++ repeat [] eof).
Proof.
  intros l eof Hok. apply rendered_raw_simple.
  apply Forall_forall. intros p Hp. apply in_map_iff in Hp. destruct Hp as ([c it] & <- & Hin). cbn [fst snd].
  rewrite Forall_forall in Hok. destruct (Hok _ Hin) as (Hc & Hit). split; [exact Hc | apply rcue_of_ok; exact Hit].
Qed.

(* ---- the domain conjunct is needed ---- *)
(* the raw body line [<script>x<b>y]: trimmed, valid UTF-8, no arrow, and the model reads an unstyled run x and a bold run y
   from it -- but the real tokenizer treats script as a raw-text element and the library returns the single unstyled run
   [x<b>y] (replayed on the library).  The line is outside html_simple and now rejected by rcue_okb. *)
Definition script_line : str := [60;115;99;114;105;112;116;62;120;60;98;62;121].
Definition script_cue : rcue := mkRcue 1000000000 2000000000 [script_line].
Example raw_text_witness :
  html_simple script_line = false /\ body_line_okb script_line = false /\ rcue_okb script_cue = false /\
  (str_eqb (trim_space script_line) script_line && utf8_valid script_line && negb (contains arrow script_line) = true) /\
  forallb line_keepsb (fst (thread (rc_body script_cue) sa0)) = true /\
  parse_text_srt script_line sa0 = ([mkSrun [120] None 0; mkSrun [121] (Some (mkSa true false false None)) 0], mkSa true false false None).
Proof. repeat split; vm_compute; reflexivity. Qed.
(* title and style likewise, and a comment *)
Example raw_text_witness_more :
  html_simple [60;116;105;116;108;101;62;116] = false /\
  html_simple [60;115;116;121;108;101;62;115;60;47;115;116;121;108;101;62] = false /\
  html_simple [60;33;45;45;99;45;45;62;122] = false.
Proof. repeat split; vm_compute; reflexivity. Qed.

Print Assumptions rcue_ok_simple.
Print Assumptions rendered_raw_simple.
