(* C07, operations in between: every documented operation keeps or copies the content of the cues it is given
   (lines, region, style, inline attributes travel together), so whatever sequence of operations is applied to a
   representable SubRip cue list, the text content of every resulting cue is that of a source cue and the SubRip
   writer/reader pair carries the transformed list unchanged (times to the millisecond, renumbered). *)
From Coq Require Import List ZArith NArith Bool Lia Permutation.
From Astisub Require Import Kit.Base Kit.Str Kit.Scan Model.Dur Model.Ops Model.Lin Model.Srt Model.Vtt Model.Conv Model.ConvOps.
From Astisub Require Import Proofs.OrderProofs Proofs.SrtProofs Proofs.VttDoc Proofs.ConvProofs.
Import ListNotations.

Definition content (x : item) := (i_lines x, i_reg x, i_sty x, i_inl x).
(* every cue of l' carries the content of some cue of l *)
Definition from (l l' : list item) : Prop := forall y, In y l' -> exists x, In x l /\ content y = content x.

Lemma from_refl l : from l l.
Proof. intros y Hy. exists y. split; [exact Hy | reflexivity]. Qed.
Lemma from_trans l1 l2 l3 : from l1 l2 -> from l2 l3 -> from l1 l3.
Proof.
  intros H12 H23 z Hz. destruct (H23 z Hz) as (y & Hy & Ey). destruct (H12 y Hy) as (x & Hx & Ex).
  exists x. split; [exact Hx | congruence].
Qed.
Lemma from_perm l l' : Permutation l l' -> from l l'.
Proof. intros HP y Hy. exists y. split; [apply (Permutation_in y (Permutation_sym HP) Hy) | reflexivity]. Qed.
Lemma from_sub l l' : incl l' l -> from l l'.
Proof. intros H y Hy. exists y. split; [apply H; exact Hy | reflexivity]. Qed.

Lemma content_set_st x v : content (set_st x v) = content x. Proof. reflexivity. Qed.
Lemma content_set_en x v : content (set_en x v) = content x. Proof. reflexivity. Qed.
Lemma content_set_uid x v : content (set_uid x v) = content x. Proof. reflexivity. Qed.

(* ---- Add ---- *)
Lemma shift1_content d x x' : shift1 d x = Some x' -> content x' = content x.
Proof.
  unfold shift1. destruct ((en x + d <=? 0)%Z && (st x + d <=? 0)%Z); [discriminate|]. intros H. inversion H. reflexivity.
Qed.
Lemma add_from d l : from l (add_dur d l).
Proof.
  induction l as [|x r IH]; intros y Hy; [contradiction|]. cbn [add_dur] in Hy.
  destruct (shift1 d x) as [x'|] eqn:E.
  - destruct Hy as [Hy|Hy].
    + subst y. exists x. split; [left; reflexivity | apply (shift1_content d x x' E)].
    + destruct (IH y Hy) as (z & Hz & Ez). exists z. split; [right; exact Hz | exact Ez].
  - destruct (IH y Hy) as (z & Hz & Ez). exists z. split; [right; exact Hz | exact Ez].
Qed.

(* ---- Order ---- *)
Lemma order_from l : from l (order l).
Proof. apply from_perm. apply order_perm. Qed.

(* ---- Fragment ---- *)
Lemma pieces_loop_content : forall fuel f x b y, In y (pieces_loop fuel f x b) -> content y = content x.
Proof.
  induction fuel as [|k IH]; intros f x b y Hy; cbn [pieces_loop] in Hy.
  - destruct Hy as [Hy|[]]. subst y. reflexivity.
  - destruct (b <? en x)%Z.
    + destruct Hy as [Hy|Hy]; [subst y; reflexivity|]. rewrite (IH f (set_st x b) (b + f)%Z y Hy). reflexivity.
    + destruct Hy as [Hy|[]]. subst y. reflexivity.
Qed.
Lemma fragment_from f l : from l (fragment f l).
Proof.
  unfold fragment. destruct (f <=? 0)%Z; [apply from_refl|].
  apply (from_trans l (flat_map (pieces f) l)); [|apply order_from].
  intros y Hy. apply in_flat_map in Hy. destruct Hy as (x & Hx & Hy). exists x. split; [exact Hx|].
  unfold pieces in Hy. apply (pieces_loop_content _ _ _ _ _ Hy).
Qed.

(* ---- Unfragment ---- *)
Lemma absorb_content : forall rest x x' rest', absorb x rest = (x', rest') -> content x' = content x /\ incl rest' rest.
Proof.
  induction rest as [|y ys IH]; intros x x' rest' H; cbn [absorb] in H.
  - inversion H. split; [reflexivity | apply incl_refl].
  - destruct (str_eqb (item_text x) (item_text y) && (st y <=? en x)%Z).
    + destruct (IH _ _ _ H) as (Hc & Hi). split.
      * rewrite Hc. destruct (en x <? en y)%Z; reflexivity.
      * apply incl_tl. exact Hi.
    + destruct (en x <? st y)%Z.
      * inversion H. split; [reflexivity | apply incl_refl].
      * destruct (absorb x ys) as (x1, ys1) eqn:E. inversion H; subst. destruct (IH _ _ _ E) as (Hc & Hi).
        split; [exact Hc|]. intros z [Hz|Hz]; [left; exact Hz | right; apply Hi; exact Hz].
Qed.
Lemma unfrag_from : forall fuel l, from l (unfrag fuel l).
Proof.
  induction fuel as [|k IH]; intros l; [destruct l; apply from_refl|].
  destruct l as [|x rest]; [apply from_refl|]. cbn [unfrag].
  destruct (absorb x rest) as (x', rest') eqn:E. destruct (absorb_content _ _ _ _ E) as (Hc & Hi).
  intros y [Hy|Hy].
  - subst y. exists x. split; [left; reflexivity | exact Hc].
  - destruct (IH rest' y Hy) as (z & Hz & Ez). exists z. split; [right; apply Hi; exact Hz | exact Ez].
Qed.
Lemma unfragment_from l : from l (unfragment l).
Proof. unfold unfragment. apply (from_trans l (order l)); [apply order_from | apply unfrag_from]. Qed.

(* ---- linear correction, optimize ---- *)
Lemma lin_from a1 d1 a2 d2 l : from l (linear_correction a1 d1 a2 d2 l).
Proof.
  unfold linear_correction. intros y Hy. apply in_map_iff in Hy. destruct Hy as (x & E & Hx). exists x. split; [exact Hx|].
  subst y. reflexivity.
Qed.
Lemma optimize_items xs : items (optimize (mkSubs xs None None)) = xs.
Proof. destruct xs; reflexivity. Qed.

(* ---- the tag invariant ---- *)
Definition tagged (D : list sitem) (x : item) : Prop :=
  exists k it, i_sty x = Some (N.of_nat k) /\ nth_error D k = Some it.
Lemma tagged_from D l l' : from l l' -> Forall (tagged D) l -> Forall (tagged D) l'.
Proof.
  intros Hf Hl. apply Forall_forall. intros y Hy. destruct (Hf y Hy) as (x & Hx & E).
  rewrite Forall_forall in Hl. destruct (Hl x Hx) as (k & it & Hs & Hn). exists k, it. split; [|exact Hn].
  unfold content in E. inversion E. congruence.
Qed.
Lemma tagged_ext D o x : tagged D x -> tagged (D ++ o) x.
Proof.
  intros (k & it & Hs & Hn). exists k, it. split; [exact Hs|]. rewrite nth_error_app1; [exact Hn|].
  apply nth_error_Some. congruence.
Qed.
Lemma g_items_tagged : forall o D0 D1, Forall (tagged (D0 ++ o ++ D1)) (g_items (length D0) o).
Proof.
  induction o as [|it r IH]; intros D0 D1; [constructor|]. cbn [g_items]. constructor.
  - exists (length D0), it. split; [reflexivity|]. rewrite nth_error_app2 by lia. rewrite Nat.sub_diag. reflexivity.
  - specialize (IH (D0 ++ [it]) D1). rewrite app_length in IH. cbn [length] in IH. rewrite Nat.add_1_r in IH.
    rewrite <- app_assoc in IH. exact IH.
Qed.

Definition cop_ok (Q : sitem -> Prop) (o : cop) : Prop :=
  match o with CMerge other => Forall Q other | _ => True end.

Lemma apply_cop_inv (Q : sitem -> Prop) o D xs :
  Forall Q D -> Forall (tagged D) xs -> cop_ok Q o ->
  Forall Q (fst (apply_cop o (D, xs))) /\ Forall (tagged (fst (apply_cop o (D, xs)))) (snd (apply_cop o (D, xs))).
Proof.
  intros HD Hx Ho. destruct o as [d|f| | | |a1 d1 a2 d2|other]; cbn [apply_cop fst snd].
  - split; [exact HD | apply (tagged_from D xs); [apply add_from | exact Hx]].
  - split; [exact HD | apply (tagged_from D xs); [apply fragment_from | exact Hx]].
  - split; [exact HD | apply (tagged_from D xs); [apply unfragment_from | exact Hx]].
  - split; [exact HD | apply (tagged_from D xs); [apply order_from | exact Hx]].
  - rewrite optimize_items. split; [exact HD | exact Hx].
  - split; [exact HD | apply (tagged_from D xs); [apply lin_from | exact Hx]].
  - cbn [cop_ok] in Ho. split; [apply Forall_app; split; assumption|].
    rewrite merge_items. cbn [items].
    apply (tagged_from (D ++ other) (xs ++ g_items (length D) other)); [apply order_from|].
    apply Forall_app. split.
    + apply Forall_forall. intros x Hin. apply tagged_ext. rewrite Forall_forall in Hx. apply Hx. exact Hin.
    + pose proof (g_items_tagged other D []) as H. rewrite app_nil_r in H. exact H.
Qed.

Lemma run_cops_inv (Q : sitem -> Prop) : forall ops D xs,
  Forall Q D -> Forall (tagged D) xs -> Forall (cop_ok Q) ops ->
  let s := fold_left (fun s o => apply_cop o s) ops (D, xs) in Forall Q (fst s) /\ Forall (tagged (fst s)) (snd s).
Proof.
  induction ops as [|o ops IH]; intros D xs HD Hx Ho; cbn [fold_left]; [split; assumption|].
  inversion Ho as [|? ? Ho1 Ho2]; subst.
  destruct (apply_cop_inv Q o D xs HD Hx Ho1) as (H1 & H2).
  destruct (apply_cop o (D, xs)) as (D', xs') eqn:E. cbn [fst snd] in H1, H2. apply IH; assumption.
Qed.

Lemma back_lines (Q : list (list srun) -> Prop) D x : Forall (fun it => Q (si_lines it)) D -> tagged D x ->
  Q (si_lines (back D x)) /\ si_st (back D x) = st x /\ si_en (back D x) = en x.
Proof.
  intros HD (k & it & Hs & Hn). unfold back. rewrite Hs, Nat2N.id, Hn. cbn [si_lines si_st si_en].
  split; [|split; reflexivity]. rewrite Forall_forall in HD. apply HD. apply (nth_error_In _ _ Hn).
Qed.

(* the lines of every cue that comes out of any operation sequence are the lines of a source cue (of the document or
   of a merged document): in particular they are representable when the sources are *)
Theorem srt_ops_lines (Q : list (list srun) -> Prop) ops l :
  Forall (fun it => Q (si_lines it)) l ->
  Forall (cop_ok (fun it => Q (si_lines it))) ops ->
  Forall (fun it => Q (si_lines it)) (srt_ops ops l).
Proof.
  intros Hl Ho. unfold srt_ops, run_cops.
  assert (Ht : Forall (tagged l) (g_items 0 l)).
  { pose proof (g_items_tagged l [] []) as H. cbn [app length] in H. rewrite app_nil_r in H. exact H. }
  pose proof (run_cops_inv (fun it => Q (si_lines it)) ops l (g_items 0 l) Hl Ht Ho) as H. cbv zeta in H.
  destruct (fold_left (fun s o => apply_cop o s) ops (l, g_items 0 l)) as (D, xs). cbn [fst snd] in H. destruct H as (HD & Hx).
  apply Forall_forall. intros s Hs. apply in_map_iff in Hs. destruct Hs as (x & E & Hin). subst s.
  rewrite Forall_forall in Hx. apply (back_lines Q D x HD (Hx x Hin)).
Qed.

(* times of the result: those the operations computed *)
Lemma srt_ops_times ops l :
  Forall (cop_ok (fun _ => True)) ops ->
  let '(D, xs) := run_cops ops l in
  map (fun s => (si_st s, si_en s)) (srt_ops ops l) = map (fun x => (st x, en x)) xs.
Proof.
  intros Ho. unfold srt_ops.
  assert (Ht : Forall (tagged l) (g_items 0 l)).
  { pose proof (g_items_tagged l [] []) as H. cbn [app length] in H. rewrite app_nil_r in H. exact H. }
  assert (Hl : Forall (fun _ : sitem => True) l) by (apply Forall_forall; intros; exact I).
  pose proof (run_cops_inv (fun _ => True) ops l (g_items 0 l) Hl Ht Ho) as H. cbv zeta in H. unfold run_cops in *.
  destruct (fold_left (fun s o => apply_cop o s) ops (l, g_items 0 l)) as (D, xs). cbn [fst snd] in H. destruct H as (HD & Hx).
  rewrite map_map. apply map_ext_in. intros x Hin. rewrite Forall_forall in Hx.
  destruct (back_lines (fun _ => True) D x) as (_ & E1 & E2); [apply Forall_forall; intros; exact I | apply Hx; exact Hin|].
  rewrite E1, E2. reflexivity.
Qed.

Definition lines_ok (it : sitem) : Prop := Forall repr_doc_line (si_lines it).
Lemma repr_item_split it : repr_item it <-> time_ok it /\ lines_ok it.
Proof. reflexivity. Qed.

(* SubRip -> operations -> SubRip, at the level of cue lists: whatever the operations, if the times they produce are
   non-negative (C07's proviso) the transformed list is written and read back unchanged (ms, renumbered) *)
Theorem srt_ops_write_read ops l :
  Forall repr_item l -> Forall (cop_ok repr_item) ops ->
  let l' := srt_ops ops l in
  Forall time_ok l' -> l' <> [] -> (Z.of_nat (length l') <= max_int64)%Z ->
  exists data, write_srt l' = Ok data /\ read_srt data = Ok (renumber_truncate l').
Proof.
  intros Hl Ho l' Ht Hne Hlen. apply read_write_srt; [|exact Hne | exact Hlen].
  assert (HL : Forall lines_ok l').
  { apply (srt_ops_lines (Forall repr_doc_line) ops l).
    - apply Forall_forall. intros it Hin. rewrite Forall_forall in Hl. apply (Hl it Hin).
    - apply Forall_forall. intros o Hin. rewrite Forall_forall in Ho. specialize (Ho o Hin).
      destruct o; try exact I. cbn [cop_ok] in *. apply Forall_forall. intros it Hit. rewrite Forall_forall in Ho. apply (Ho it Hit). }
  apply Forall_forall. intros it Hin. rewrite Forall_forall in Ht, HL. split; [apply Ht | apply HL]; exact Hin.
Qed.

Lemma new_item_repr k it : repr_item it -> repr_item (new_item k it).
Proof.
  intros ((Hs & He) & Hls). split; [|exact Hls]. unfold time_ok, new_item. cbn [si_st si_en].
  unfold SrtProofs.trunc_ms, max_int64 in *.
  pose proof (Z.mod_pos_bound (si_st it) 1000000 ltac:(lia)). pose proof (Z.mod_pos_bound (si_en it) 1000000 ltac:(lia)).
  pose proof (Z.mod_le (si_st it) 1000000 ltac:(lia) ltac:(lia)). pose proof (Z.mod_le (si_en it) 1000000 ltac:(lia) ltac:(lia)).
  lia.
Qed.
Lemma renum_repr : forall l k, Forall repr_item l -> Forall repr_item (renum k l).
Proof.
  induction l as [|it r IH]; intros k H; [constructor|]. inversion H; subst. cbn [renum]. constructor; [apply new_item_repr; assumption | apply IH; assumption].
Qed.

(* file to file: a written SubRip document, converted with any operation sequence in between, reads back as the
   operations applied to the cues of the source document *)
Theorem srt_ops_srt ops l :
  Forall repr_item l -> l <> [] -> (Z.of_nat (length l) <= max_int64)%Z -> Forall (cop_ok repr_item) ops ->
  let l' := srt_ops ops (renumber_truncate l) in
  Forall time_ok l' -> l' <> [] -> (Z.of_nat (length l') <= max_int64)%Z ->
  exists src dst, write_srt l = Ok src /\ convert_srt_ops_srt ops src = Ok dst /\ read_srt dst = Ok (renumber_truncate l').
Proof.
  intros Hl Hne Hlen Ho l' Ht Hne' Hlen'. destruct (read_write_srt l Hl Hne Hlen) as (src & Hw & Hr).
  destruct (srt_ops_write_read ops (renumber_truncate l) (renum_repr l 0 Hl) Ho Ht Hne' Hlen') as (dst & Hw' & Hr').
  exists src, dst. split; [exact Hw|]. split; [|exact Hr']. unfold convert_srt_ops_srt. rewrite Hr. exact Hw'.
Qed.

(* the same towards WebVTT: the destination read back has the cues, order, times (ms) and text of the transformed list *)
Theorem srt_ops_vtt ops l :
  Forall repr_item l -> l <> [] -> (Z.of_nat (length l) <= max_int64)%Z ->
  let l' := srt_ops ops (renumber_truncate l) in
  repr_vdoc (conv_sv l') [] [] ->
  exists src dst d', write_srt l = Ok src /\ convert_srt_ops_vtt ops src = Ok dst /\ read_vtt dst = Ok d' /\
                     map vview (vd_items d') = map sview_ms l'.
Proof.
  intros Hl Hne Hlen l' Hv. destruct (read_write_srt l Hl Hne Hlen) as (src & Hw & Hr).
  destruct (write_read_vtt _ _ _ Hv) as (dst & Hwv & Hrv).
  exists src, dst, (ndoc (conv_sv l') [] []). split; [exact Hw|]. split.
  - unfold convert_srt_ops_vtt. rewrite Hr. exact Hwv.
  - split; [exact Hrv|]. unfold ndoc, conv_sv. cbn [vd_items]. apply view_sv_items.
Qed.

(* non-vacuity: a two-cue list through fragment, sync, merge, order, unfragment *)
Definition ex_ops_src : list sitem :=
  [mkSitem 1 1000000000 5000000000 [[mkSrun [72;105]%N None 0%N]];
   mkSitem 2 6000000000 7000000000 [[mkSrun [89;111]%N (Some (mkSa true false false None)) 0%N]]].
Definition ex_ops : list cop :=
  [CFragment 2000000000; CAdd 500000000; CMerge [mkSitem 1 0 400000000 [[mkSrun [65]%N None 0%N]]]; COrder; CUnfragment].

Example ex_ops_src_repr : Forall repr_item ex_ops_src.
Proof. apply repr_itemsb_ok. vm_compute. reflexivity. Qed.
Example ex_ops_ok : Forall (cop_ok repr_item) ex_ops.
Proof.
  unfold ex_ops. constructor; [exact I|]. constructor; [exact I|]. constructor.
  - cbn [cop_ok]. apply repr_itemsb_ok. vm_compute. reflexivity.
  - constructor; [exact I|]. constructor; [exact I|]. constructor.
Qed.
(* the transformed list: [0,0.4) "A", then "Hi" put together again from its three pieces, then "Yo" *)
Example ex_ops_result :
  map (fun s => (si_st s, si_en s)) (srt_ops ex_ops (renumber_truncate ex_ops_src)) =
  [(0, 400000000); (1500000000, 5500000000); (6500000000, 7500000000)]%Z.
Proof. vm_compute. reflexivity. Qed.
Example ex_ops_times_ok : Forall time_ok (srt_ops ex_ops (renumber_truncate ex_ops_src)).
Proof. apply Forall_forall. intros it Hin. vm_compute in Hin. unfold time_ok, max_int64.
  repeat (destruct Hin as [Hin|Hin]; [subst it; cbn [si_st si_en]; lia|]). contradiction. Qed.
Example ex_ops_roundtrip :
  exists src dst, write_srt ex_ops_src = Ok src /\ convert_srt_ops_srt ex_ops src = Ok dst /\
                  read_srt dst = Ok (renumber_truncate (srt_ops ex_ops (renumber_truncate ex_ops_src))).
Proof.
  apply srt_ops_srt; [exact ex_ops_src_repr | discriminate | vm_compute; discriminate | exact ex_ops_ok
                     | exact ex_ops_times_ok | vm_compute; discriminate | vm_compute; discriminate].
Qed.
