(* Fragment (C10): fragmenting with the same period twice is fragmenting once - the result is start-ordered and none of
   its cues strictly contains a multiple of the period, so the second call leaves every cue as it is. *)
From Coq Require Import List ZArith NArith Bool.
From Astisub Require Import Kit.Base Model.Ops Proofs.OrderProofs Proofs.FragmentProofs.
Import ListNotations.
Open Scope Z_scope.

Lemma fragment_idem f l : 0 < f -> fragment f (fragment f l) = fragment f l.
Proof.
  intros Hf. apply fragment_untouched; [exact Hf | apply fragment_sorted; exact Hf | apply fragment_no_interior; exact Hf].
Qed.
