(* C07 for TTML through the plain view, at byte level: from the round trip through bytes (Proofs/TtmlBytes.v). *)
From Coq Require Import List ZArith NArith Bool Lia.
From Astisub Require Import Kit.Base Kit.Str Kit.Xml Kit.XmlParse Model.Dur Model.Ttml Model.Plain Model.PlainTtml.
From Astisub Require Import Proofs.PlainProofs Proofs.TtmlSpec Proofs.TtmlDocSpec Proofs.TtmlBytes.
Import ListNotations.

(* representability of a plain cue list for TTML: at least one cue, times in [0, max_int64], at least one line per
   cue, no line break inside a line's text (it would be read as a line boundary) *)
Definition ttml_plain_okb (p : plain) : bool := repr_doc (ttml_of_plain p).
Definition ttml_plain_ok (p : plain) : Prop := ttml_plain_okb p = true.

Lemma ttml_to_plain_written p : ttml_to_plain (written_value (ttml_of_plain p)) = ptrunc 1000000 p.
Proof.
  unfold ttml_to_plain, written_value, ttml_of_plain. cbn [td_items]. rewrite !map_map.
  unfold ptrunc. apply map_ext. intros [[s e] ls]. cbn [written_item ti_st ti_en ti_lines]. unfold trunc_ms, trunc_to.
  f_equal. rewrite map_map. rewrite <- (map_id ls) at 2. apply map_ext. intros t.
  unfold ttml_line_text. cbn [map concat tr_txt]. apply app_nil_r.
Qed.

Theorem ttml_plain_faithful : plain_faithful 1000000 ttml_plain_ok ttml_enc ttml_dec.
Proof.
  intros p Hp. destruct (write_read_bytes (ttml_of_plain p) ttml_default_indent Hp eq_refl) as (b & t & Hw & Hx & Hr).
  exists b. split; [exact Hw|]. unfold ttml_dec, dec_with, read_ttml_bytes. rewrite Hx, Hr. f_equal.
  apply ttml_to_plain_written.
Qed.

Example ex_plain_ttml_ok : ttml_plain_ok ex_plain.
Proof. vm_compute. reflexivity. Qed.

(* the same instance with the decoder over the XML parser model for hand-written documents (what the plain view
   registers for TTML sources): [xml_parse2] also inverts the writer's bytes (Proofs/Parse2Written.v) *)
From Astisub Require Import Kit.XmlParse2 Proofs.TtmlDoc Proofs.Parse2Written.
Theorem ttml_plain_faithful2 : plain_faithful 1000000 ttml_plain_ok ttml_enc ttml_dec2.
Proof.
  intros p Hp. destruct (write_read (ttml_of_plain p) ttml_default_indent Hp eq_refl) as (t0 & Hw & Hread).
  assert (Hb : write_ttml_bytes ttml_default_indent (ttml_of_plain p) = Ok (print_node print_name ttml_default_indent 0 t0))
    by (unfold write_ttml_bytes; rewrite Hw; reflexivity).
  assert (Hi : indent_ok ttml_default_indent = true) by reflexivity.
  destruct (parse2_written (ttml_of_plain p) ttml_default_indent _ Hi Hb) as (t1 & Hw1 & Hp2). rewrite Hw in Hw1. inversion Hw1; subst t1.
  exists (print_node print_name ttml_default_indent 0 t0). split; [exact Hb|].
  unfold ttml_dec2, dec_with, read_ttml_bytes2. rewrite Hp2, Hread. f_equal. apply ttml_to_plain_written.
Qed.
