(* C07 for TTML through the plain view, at byte level: from the round trip through bytes (Proofs/TtmlBytes.v). *)
From Coq Require Import List ZArith NArith Bool Lia.
From Astisub Require Import Kit.Base Kit.Str Kit.Xml Kit.XmlParse Kit.XmlEsc Model.Dur Model.Ttml Model.TtmlGo Model.Plain Model.PlainTtml.
From Astisub Require Import Proofs.PlainProofs Proofs.TtmlSpec Proofs.TtmlDocSpec Proofs.TtmlBytes Proofs.TtmlLegal.
Import ListNotations.

(* representability of a plain cue list for TTML: at least one cue, times in [0, max_int64], at least one line per
   cue, no line break inside a line's text (it would be read as a line boundary), and every text XML-legal (valid
   UTF-8 of XML 1.0 characters: Go's encoder writes U+FFFD for anything else - [ttml_enc] models that) *)
Definition ttml_plain_okb (p : plain) : bool := repr_doc (ttml_of_plain p) && legal_doc (ttml_of_plain p).
Lemma ttml_plain_ok_parts p : ttml_plain_okb p = true -> repr_doc (ttml_of_plain p) = true /\ legal_doc (ttml_of_plain p) = true.
Proof. unfold ttml_plain_okb. intros H. apply andb_true_iff in H. exact H. Qed.
Definition ttml_plain_ok (p : plain) : Prop := ttml_plain_okb p = true.

Lemma ttml_to_plain_written p : ttml_to_plain (written_value (ttml_of_plain p)) = ptrunc 1000000 p.
Proof.
  unfold ttml_to_plain, written_value, ttml_of_plain. cbn [td_items]. rewrite !map_map.
  unfold ptrunc. apply map_ext. intros [[s e] ls]. cbn [written_item ti_st ti_en ti_lines]. unfold trunc_ms, trunc_to.
  f_equal. rewrite map_map. rewrite <- (map_id ls) at 2. apply map_ext. intros t.
  unfold ttml_line_text. cbn [map concat tr_txt]. apply app_nil_r.
Qed.

Theorem ttml_plain_faithful : plain_faithful 1000000 ttml_plain_ok ttml_enc ttml_dec.
Proof.
  intros p Hp0. destruct (ttml_plain_ok_parts p Hp0) as [Hp Hl].
  destruct (write_read_bytes (ttml_of_plain p) ttml_default_indent Hp eq_refl) as (b & t & Hw & Hx & Hr).
  exists b. split; [unfold ttml_enc; rewrite (write_ttml_bytes_go_legal _ ttml_default_indent Hp Hl); exact Hw|]. unfold ttml_dec, dec_with, read_ttml_bytes. rewrite Hx, Hr. f_equal.
  apply ttml_to_plain_written.
Qed.

Example ex_plain_ttml_ok : ttml_plain_ok ex_plain.
Proof. vm_compute. reflexivity. Qed.

(* the same instance with the decoder over the XML parser model for hand-written documents (what the plain view
   registers for TTML sources): [xml_parse2] also inverts the writer's bytes (Proofs/Parse2Written.v) *)
From Astisub Require Import Kit.XmlParse2 Proofs.TtmlDoc Proofs.Parse2Written.
Theorem ttml_plain_faithful2 : plain_faithful 1000000 ttml_plain_ok ttml_enc ttml_dec2.
Proof.
  intros p Hp0. destruct (ttml_plain_ok_parts p Hp0) as [Hp Hl].
  destruct (write_read (ttml_of_plain p) ttml_default_indent Hp eq_refl) as (t0 & Hw & Hread).
  assert (Hb : write_ttml_bytes ttml_default_indent (ttml_of_plain p) = Ok (print_node print_name ttml_default_indent 0 t0))
    by (unfold write_ttml_bytes; rewrite Hw; reflexivity).
  assert (Hi : indent_ok ttml_default_indent = true) by reflexivity.
  destruct (parse2_written (ttml_of_plain p) ttml_default_indent _ Hi Hb) as (t1 & Hw1 & Hp2). rewrite Hw in Hw1. inversion Hw1; subst t1.
  exists (print_node print_name ttml_default_indent 0 t0).
  split; [unfold ttml_enc; rewrite (write_ttml_bytes_go_legal _ ttml_default_indent Hp Hl); exact Hb|].
  unfold ttml_dec2, dec_with, read_ttml_bytes2. rewrite Hp2, Hread. f_equal. apply ttml_to_plain_written.
Qed.

(* the premise [legal_doc] cannot be dropped: the plain cue list whose only text is "a", byte 1, "b" is representable
   (times, lines, no line break) but byte 1 is not an XML character; Go's encoder writes U+FFFD, which is what is read
   back (second audit, N4; replayed by the conversion suites, which now carry such runes into TTML destinations) *)
Definition ex_plain_illegal : plain := [(1000000000%Z, 2000000000%Z, [[97; 1; 98]%N])].
Example ttml_plain_illegal_not_faithful :
  repr_doc (ttml_of_plain ex_plain_illegal) = true /\ ttml_plain_okb ex_plain_illegal = false /\
  exists b, ttml_enc ex_plain_illegal = Ok b /\
            ttml_dec2 b = Ok [(1000000000%Z, 2000000000%Z, [[97; 239; 191; 189; 98]%N])].
Proof.
  split; [vm_compute; reflexivity|]. split; [vm_compute; reflexivity|].
  exists (match ttml_enc ex_plain_illegal with Ok b => b | _ => [] end). split; vm_compute; reflexivity.
Qed.
Print Assumptions ttml_plain_faithful2.
