(* ttml.go: the checked transcription (Model/TtmlC.v) never reaches a panic site, and agrees with the pattern-matching
   transcription (Model/Ttml.v) on which the fidelity theorems are stated.  The content of each equation is that the
   guard the Go code tests implies that the access behind it is in range / non-nil / on an allocated map. *)
From Coq Require Import List ZArith NArith Bool Arith Lia Permutation.
From Astisub Require Import Kit.Base Kit.Str Kit.Float64 Kit.Float64x Kit.Xml Kit.SortOrd Kit.Chk Model.Dur Model.DurC
  Model.Ttml Model.TtmlC Proofs.DurChk Proofs.TtmlBase.
Import ListNotations.
Open Scope N_scope.

(* ================= checked accesses in range ================= *)
Lemma ttc_slice_to_all {A} (l : list A) site : slice_to l (length l) site = Ok l.
Proof. unfold slice_to. rewrite Nat.leb_refl, firstn_all. reflexivity. Qed.
Lemma ttc_slice_to_app {A} (P T : list A) site : slice_to (P ++ T) (length P) site = Ok P.
Proof.
  unfold slice_to. rewrite app_length. destruct (Nat.leb (length P) (length P + length T)) eqn:E; [|apply Nat.leb_gt in E; lia].
  rewrite firstn_app, Nat.sub_diag, firstn_all. cbn [firstn]. rewrite app_nil_r. reflexivity.
Qed.
Lemma ttc_slice_from_app {A} (P T : list A) site : slice_from (P ++ T) (length P) site = Ok T.
Proof.
  unfold slice_from. rewrite app_length. destruct (Nat.leb (length P) (length P + length T)) eqn:E; [|apply Nat.leb_gt in E; lia].
  rewrite skipn_app, Nat.sub_diag, skipn_all. reflexivity.
Qed.
(* s[len(P)+1 : len(s)] of s = P ++ c :: T *)
Lemma ttc_slice_tail {A} (P T : list A) c site :
  ttc_slice (P ++ c :: T) (length P + 1) (length (P ++ c :: T)) site = Ok T.
Proof.
  unfold ttc_slice. rewrite ttc_slice_to_all. cbn [bind].
  replace (P ++ c :: T) with ((P ++ [c]) ++ T) by (rewrite <- app_assoc; reflexivity).
  replace (length P + 1)%nat with (length (P ++ [c])) by (rewrite app_length; reflexivity).
  apply ttc_slice_from_app.
Qed.

(* ================= A. UnmarshalText ================= *)
(* THE REGEXP CONTRACT, as facts about the matcher functions: a match is a slice of 4 *)
Lemma match_offset_sub_length s l : match_offset_sub s = Some l -> length l = 4%nat.
Proof.
  unfold match_offset_sub. destruct (match_offset s) as [[[ip fp] m]|]; [|discriminate].
  intros H. injection H as <-. reflexivity.
Qed.
Lemma match_clock_idx_length s l : match_clock_idx s = Some l -> length l = 4%nat.
Proof.
  unfold match_clock_idx. destruct (match_clock_frames s) as [[front fd]|]; [|discriminate].
  intros H. injection H as <-. reflexivity.
Qed.
(* the two matchers match exactly when the models' matchers do *)
Lemma match_offset_sub_none s : match_offset_sub s = None <-> match_offset s = None.
Proof. unfold match_offset_sub. destruct (match_offset s) as [[[ip fp] m]|]; split; intros H; try reflexivity; discriminate. Qed.
Lemma match_clock_idx_none s : match_clock_idx s = None <-> match_clock_frames s = None.
Proof. unfold match_clock_idx. destruct (match_clock_frames s) as [[a b]|]; split; intros H; try reflexivity; discriminate. Qed.

Definition ttc_digits (s : str) : Prop := forallb is_digit s = true.
Lemma ttc_span_digits_spec s : forall d t, span_digits s = (d, t) ->
  s = d ++ t /\ ttc_digits d /\ match t with c :: _ => is_digit c = false | [] => True end.
Proof.
  induction s as [|c r IH]; intros d t H; cbn [span_digits] in H.
  - injection H as <- <-. repeat split.
  - destruct (is_digit c) eqn:Ec.
    + destruct (span_digits r) as [d' t'] eqn:Er. injection H as <- <-.
      destruct (IH d' t' eq_refl) as (E & Hd & Ht). split; [cbn [app]; f_equal; exact E|]. split; [|exact Ht].
      unfold ttc_digits. cbn [forallb]. rewrite Ec. exact Hd.
    + injection H as <- <-. repeat split. exact Ec.
Qed.
Lemma ttc_span_digits_app a r : ttc_digits a -> match r with c :: _ => is_digit c = false | [] => True end ->
  span_digits (a ++ r) = (a, r).
Proof.
  intros Ha Hr. induction a as [|c a IH]; cbn [app].
  - destruct r as [|c r]; [reflexivity|]. cbn [span_digits]. rewrite Hr. reflexivity.
  - unfold ttc_digits in Ha. cbn [forallb] in Ha. apply andb_true_iff in Ha. destruct Ha as [Hc Ha].
    cbn [span_digits]. rewrite Hc, (IH Ha). reflexivity.
Qed.

(* the literal pattern [46 :: r] of match_offset as a test *)
Lemma ttc_match_offset_eq s :
  match_offset s =
  let '(ip, r1) := span_digits s in
  match ip with
  | [] => None
  | _ =>
    let '(fp, r2) := match r1 with
                     | c :: r => if c =? 46
                                 then let '(fp, r') := span_digits r in match fp with [] => ([], r1) | _ => (fp, r') end
                                 else ([], r1)
                     | [] => ([], r1)
                     end in
    match metric_of r2 with Some m => Some (ip, fp, m) | None => None end
  end.
Proof.
  unfold match_offset. destruct (span_digits s) as [ip r1]. destruct ip as [|i0 ip]; [reflexivity|].
  destruct r1 as [|c r]; [reflexivity|]. destruct c as [|p]; [reflexivity|].
  do 7 (try (destruct p as [p|p|]; try reflexivity)).
Qed.

(* group 1 of a match is a decimal that ParseFloat reads as the model says *)
Lemma ttc_parse_float_group s ip fp m : match_offset s = Some (ip, fp, m) ->
  ttc_parse_float (ip ++ ttc_frac fp) = Some (parse_dec ip fp).
Proof.
  rewrite ttc_match_offset_eq. destruct (span_digits s) as [ip0 r1] eqn:E1.
  destruct (ttc_span_digits_spec s ip0 r1 E1) as (_ & Hip & _).
  destruct ip0 as [|i0 ip0]; [discriminate|].
  assert (Hplain : ttc_parse_float ((i0 :: ip0) ++ ttc_frac []) = Some (parse_dec (i0 :: ip0) [])).
  { cbn [ttc_frac]. rewrite app_nil_r. unfold ttc_parse_float.
    rewrite <- (app_nil_r (i0 :: ip0)) at 1. rewrite (ttc_span_digits_app (i0 :: ip0) [] Hip I). reflexivity. }
  destruct r1 as [|c r].
  - destruct (metric_of []) as [m0|]; [|discriminate]. intros H. injection H as <- <- <-. exact Hplain.
  - destruct (c =? 46) eqn:Ec.
    + destruct (span_digits r) as [fp0 r'] eqn:E2.
      destruct (ttc_span_digits_spec r fp0 r' E2) as (_ & Hfp & _).
      destruct fp0 as [|f0 fp0].
      * destruct (metric_of (c :: r)) as [m0|]; [|discriminate]. intros H. injection H as <- <- <-. exact Hplain.
      * destruct (metric_of r') as [m0|]; [|discriminate]. intros H. injection H as <- <- <-.
        cbn [ttc_frac]. unfold ttc_parse_float.
        rewrite (ttc_span_digits_app (i0 :: ip0) (46 :: f0 :: fp0) Hip eq_refl).
        cbv iota beta. change (46 =? 46) with true. cbv iota.
        rewrite <- (app_nil_r (f0 :: fp0)) at 1. rewrite (ttc_span_digits_app (f0 :: fp0) [] Hfp I). reflexivity.
    + destruct (metric_of (c :: r)) as [m0|]; [|discriminate]. intros H. injection H as <- <- <-. exact Hplain.
Qed.

Lemma ttc_join_split_byte c s : join [c] (split_byte c s) = s.
Proof.
  induction s as [|x r IH]; [reflexivity|]. cbn [split_byte].
  destruct (split_byte c r) as [|h t] eqn:E; [exfalso; exact (split_byte_nonnil c r E)|].
  destruct (x =? c) eqn:Ex.
  - apply N.eqb_eq in Ex. subst x. cbn [join app]. cbn [join] in IH. f_equal. exact IH.
  - destruct t as [|h2 t2]; cbn [join] in *; [f_equal; exact IH|].
    cbn [app]. f_equal. exact IH.
Qed.
(* group 1 of the clock-time-frames match starts at the last colon: the text is front ++ ":" ++ digits *)
Lemma ttc_match_clock_split s front fd : match_clock_frames s = Some (front, fd) -> s = front ++ colon :: fd.
Proof.
  unfold match_clock_frames. pose proof (ttc_join_split_byte colon s) as J.
  destruct (split_byte colon s) as [|a [|b [|c [|d [|e r]]]]]; try discriminate.
  destruct d as [|d0 d]; [discriminate|]. destruct (forallb is_digit (d0 :: d)); [|discriminate].
  intros H. injection H as <- <-. rewrite <- J. cbn [join]. repeat (rewrite <- app_assoc; cbn [app]). reflexivity.
Qed.

Theorem ttml_unmarshal_c_agrees : forall s, ttml_unmarshal_c s = Ok (ttml_unmarshal s).
Proof.
  intros s. unfold ttml_unmarshal_c, ttml_unmarshal, match_offset_sub.
  destruct (match_offset s) as [[[ip fp] m]|] eqn:Em.
  - cbn [index nth_error bind]. rewrite (ttc_parse_float_group s ip fp m Em).
    destruct m; reflexivity.
  - unfold match_clock_idx. destruct (match_clock_frames s) as [[front fd]|] eqn:Ec.
    + pose proof (ttc_match_clock_split s front fd Ec) as Es.
      cbn [index nth_error bind].
      rewrite Es at 1 2. rewrite ttc_slice_tail. cbn [bind].
      destruct (atoi fd) as [f|]; [|reflexivity].
      rewrite Es at 1. rewrite ttc_slice_to_app. cbn [bind].
      rewrite parse_duration_c_ok. cbn [bind]. destruct (parse_duration _ dot 3); reflexivity.
    + cbn [bind]. rewrite parse_duration_c_ok. cbn [bind]. destruct (parse_duration s dot 3); reflexivity.
Qed.
Theorem ttml_unmarshal_c_total : forall s (p : N), ttml_unmarshal_c s <> Panic p.
Proof. intros s p. rewrite ttml_unmarshal_c_agrees. discriminate. Qed.

(* ================= B. propagateTTMLAttributes ================= *)
Lemma ttc_is_tb_ok wm site : exists b, ttc_is_tb wm site = Ok b.
Proof. unfold ttc_is_tb. destruct wm as [m|]; cbn [is_some deref bind]; eexists; reflexivity. Qed.
(* len(l) > 1 is what the two index expressions need *)
Lemma ttc_index01 {A} (l : list A) : Nat.ltb 1 (length l) = true ->
  exists x y, (forall s0, index l 0 s0 = Ok x) /\ (forall s1, index l 1 s1 = Ok y).
Proof.
  destruct l as [|x [|y r]]; cbn [length]; intros H; try discriminate.
  exists x, y. split; intros s; reflexivity.
Qed.
Lemma propagate_c_ok a : propagate_c a = Ok tt.
Proof.
  unfold propagate_c.
  destruct (nth 16 (ta_s a) None) as [al|]; cbn [is_some deref bind].
  all: destruct (nth 5 (ta_s a) None) as [e|]; cbn [is_some deref bind].
  all: destruct (nth 12 (ta_s a) None) as [o|]; cbn [is_some deref bind].
  all: try reflexivity.
  all: repeat match goal with
       | |- context [Nat.ltb 1 (length ?l)] =>
         let H := fresh "Hl" in let x := fresh "x" in let y := fresh "y" in
         let H0 := fresh "Hi" in let H1 := fresh "Hj" in
         destruct (Nat.ltb 1 (length l)) eqn:H;
         [destruct (ttc_index01 l H) as (x & y & H0 & H1); repeat (rewrite H0 || rewrite H1); cbn [bind]|]
       end.
  all: repeat match goal with
       | |- context [ttc_is_tb ?w ?s] =>
         let b := fresh "b" in let Hb := fresh "Hb" in
         destruct (ttc_is_tb_ok w s) as (b & Hb); rewrite Hb; cbn [bind]; destruct b
       end.
  all: repeat match goal with
       | Hi : forall s0, index ?l _ s0 = Ok _ |- _ => repeat rewrite Hi; cbn [bind]; clear Hi
       end.
  all: reflexivity.
Qed.
Theorem propagate_c_total : forall a (p : N), propagate_c a <> Panic p.
Proof. intros a p. rewrite propagate_c_ok. discriminate. Qed.

(* ================= C. ReadFromTTML ================= *)
Lemma dur_vals_c_ok vs : forall acc,
  dur_vals_c vs acc = Ok (fold_left (fun acc v => match acc, ttml_unmarshal v with
                                                  | Some _, Some d => Some (Some d)
                                                  | _, _ => None
                                                  end) vs acc).
Proof.
  induction vs as [|v r IH]; intros acc; [reflexivity|].
  cbn [dur_vals_c fold_left]. rewrite ttml_unmarshal_c_agrees. cbn [bind]. apply IH.
Qed.
Lemma dur_attr_c_ok l attrs : dur_attr_c l attrs = Ok (dur_attr l attrs).
Proof. unfold dur_attr_c, dur_attr. apply dur_vals_c_ok. Qed.

Lemma ttc_mem_some {V} k (l : list (str * V)) : ttc_mem k (Some l) = map_mem k l.
Proof. unfold ttc_mem, ttc_get, map_mem. destruct (map_get k l); reflexivity. Qed.

(* the maps NewSubtitles (and make) allocated stay allocated: every store is on a non-nil map *)
Definition ttc_children (sts : list tstyle) : list (tstyle * str) :=
  flat_map (fun s => match ts_ref s with Some id => [(s, id)] | None => [] end) sts.
Lemma styles_loop_c_ok sts : forall l pl,
  styles_loop_c sts (Some l) (Some pl) = Ok (Some (add_all sts l), Some (pl ++ ttc_children sts)).
Proof.
  induction sts as [|s r IH]; intros l pl; [cbn [styles_loop_c ttc_children flat_map]; rewrite app_nil_r; reflexivity|].
  cbn [styles_loop_c]. rewrite propagate_c_ok. cbn [bind ttc_store]. unfold ttc_children. cbn [flat_map].
  destruct (ts_ref s) as [id|]; cbn [ttc_store_ptr bind]; rewrite IH; [|reflexivity].
  rewrite <- app_assoc. reflexivity.
Qed.
Lemma parents_loop_c_ok sts l :
  parents_loop_c (ttc_children sts) (Some l) = if forallb (ref_ok l) sts then Ok tt else Err EUnknownRef.
Proof.
  induction sts as [|s r IH]; [reflexivity|]. unfold ttc_children. cbn [flat_map forallb]. unfold ref_ok at 1.
  destruct (ts_ref s) as [id|]; [|exact IH]. cbn [app parents_loop_c]. rewrite ttc_mem_some.
  destruct (map_mem id l); [exact IH | reflexivity].
Qed.
Lemma regions_loop_c_ok rgs st : forall l,
  regions_loop_c rgs (Some st) (Some l) = if forallb (ref_ok st) rgs then Ok (Some (add_all rgs l)) else Err EUnknownRef.
Proof.
  induction rgs as [|s r IH]; intros l; [reflexivity|]. cbn [regions_loop_c forallb]. rewrite propagate_c_ok. cbn [bind].
  unfold ref_ok at 1. destruct (ts_ref s) as [id|].
  - rewrite ttc_mem_some. destruct (map_mem id st); [|reflexivity]. cbn [ttc_store bind andb]. apply IH.
  - cbn [ttc_store bind andb]. apply IH.
Qed.

Lemma parts_c_ok st it parts :
  parts_c (Some st) it parts =
  if null parts || (null (in_style it) || map_mem (in_style it) st)
  then Ok (map (fun t => TRun (mkRun t (opt_ref (in_style it)) (in_attrs it))) parts)
  else Err EUnknownRef.
Proof.
  induction parts as [|t r IH]; [reflexivity|].
  cbn [parts_c null orb map]. rewrite propagate_c_ok. cbn [bind]. rewrite ttc_mem_some, IH.
  destruct (null (in_style it) || map_mem (in_style it) st) eqn:E.
  - apply orb_true_iff in E. rewrite orb_true_r.
    destruct E as [E|E]; rewrite E; [reflexivity|]. rewrite andb_false_r. reflexivity.
  - apply orb_false_iff in E. destruct E as [E1 E2]. rewrite E1, E2. reflexivity.
Qed.
Lemma items_toks_c_ok st its :
  items_toks_c (Some st) its =
  if forallb (item_style_ok st) its then Ok (flat_map run_toks its) else Err EUnknownRef.
Proof.
  induction its as [|it r IH]; [reflexivity|].
  cbn [items_toks_c forallb flat_map]. unfold item_style_ok at 1, run_toks at 1.
  destruct (is_br (in_local it)) eqn:Eb.
  - cbn [bind orb andb]. rewrite IH. destruct (forallb _ r); reflexivity.
  - rewrite parts_c_ok. destruct (split_byte 10 (in_text it)) as [|t0 ts] eqn:Es; [exfalso; exact (split_byte_nonnil _ _ Es)|].
    cbn [null orb]. destruct (null (in_style it) || map_mem (in_style it) st); cbn [bind andb]; [|reflexivity].
    rewrite IH. destruct (forallb _ r); reflexivity.
Qed.

(* one <p>: behind the guard of line 411 both pointers are non-nil *)
Lemma read_p_c_ok st rg fr tr p : read_p_c (Some st) (Some rg) fr tr p = read_p st rg fr tr p.
Proof.
  unfold read_p_c, read_p_gen, read_p. rewrite !dur_attr_c_ok. cbn [bind].
  destruct (dur_attr s_begin (elem_attrs p)) as [[b|]|]; destruct (dur_attr s_end (elem_attrs p)) as [[e|]|];
    destruct (tt_read_attrs (elem_attrs p)) as [ta|]; try reflexivity.
  cbn [is_some negb orb andb deref bind]. rewrite propagate_c_ok. cbn [bind]. rewrite !ttc_mem_some, !negb_orb.
  destruct (negb (null (attr_str s_region (elem_attrs p))) && negb (map_mem (attr_str s_region (elem_attrs p)) rg)); [reflexivity|].
  destruct (negb (null (attr_str s_style (elem_attrs p))) && negb (map_mem (attr_str s_style (elem_attrs p)) st)); [reflexivity|].
  destruct (items_of (strip_content (elem_kids p))) as [its|]; [|reflexivity].
  rewrite items_toks_c_ok. destruct (forallb (item_style_ok st) its); reflexivity.
Qed.

Lemma ttc_map_res_ext {A B} (f g : A -> res B) l : (forall a, f a = g a) -> map_res f l = map_res g l.
Proof. intros H. induction l as [|a r IH]; [reflexivity|]. cbn [map_res]. rewrite H, IH. reflexivity. Qed.

(* THE CHECKED READER AGREES WITH THE READER OF THE FIDELITY THEOREMS, error kinds included *)
Theorem read_ttml_c_agrees : forall root, read_ttml_c root = read_ttml root.
Proof.
  intros root. unfold read_ttml_c, read_ttml_gen, read_ttml. destruct root as [t|nm a kids]; [reflexivity|].
  destruct (negb (str_eqb (x_local nm) s_tt)); [reflexivity|].
  destruct (int_attr s_frameRate a) as [fro|]; [|reflexivity]. destruct (int_attr s_tickRate a) as [tro|]; [|reflexivity].
  cbv zeta.
  destruct (map_res read_header (path_elems [s_head; s_layout; s_region] kids)) as [rgs|k|q]; cbn [bind]; try reflexivity.
  destruct (map_res read_header (path_elems [s_head; s_styling; s_style] kids)) as [sts|k|q]; cbn [bind]; try reflexivity.
  rewrite styles_loop_c_ok. cbn [bind app]. rewrite parents_loop_c_ok.
  destruct (forallb (ref_ok (add_all sts [])) sts); cbn [negb bind]; [|reflexivity].
  rewrite regions_loop_c_ok. destruct (forallb (ref_ok (add_all sts [])) rgs); cbn [negb bind]; [|reflexivity].
  rewrite (ttc_map_res_ext _ _ _ (read_p_c_ok (add_all sts []) (add_all rgs []) _ _)). reflexivity.
Qed.
(* totality, now with content: no panic site of ReadFromTTML (nor of what it calls) is reachable *)
Theorem read_ttml_c_total : forall root (p : N), read_ttml_c root <> Panic p.
Proof. intros root p. rewrite read_ttml_c_agrees. apply read_ttml_total. Qed.

(* the guard of line 411 is what keeps lines 417-425 safe: <tt><body><div><p end="2s"/></div></body></tt> *)
Definition ttc_no_begin : xnode :=
  XElem (mkName [] s_tt) []
        [XElem (mkName [] s_body) []
               [XElem (mkName [] s_div) [] [XElem (mkName [] s_p) [(mkName [] s_end, [50; 115])] []]]].
Example ttml_unguarded_begin : exists root p, read_ttml_unguarded root = Panic p.
Proof. exists ttc_no_begin, 417. vm_compute. reflexivity. Qed.
(* the guarded reader refuses the same document *)
Example ttml_guarded_begin : read_ttml_c ttc_no_begin = Err EParse.
Proof. vm_compute. reflexivity. Qed.

(* ================= D. WriteToTTML ================= *)
Lemma out_attrs_c_ok o : out_attrs_c o = Ok (inline_proj o).
Proof. destruct o; reflexivity. Qed.
Lemma ttc_id_of_ok p site : ttc_id_of p site = Ok (match p with Some v => v | None => [] end).
Proof. destruct p; reflexivity. Qed.
(* a string field left "" is an omitted attribute, as is a nil pointer in the model *)
Lemma ttc_opt_attr_some sp l o : opt_attr sp l (Some (match o with Some v => v | None => [] end)) = opt_attr sp l o.
Proof. destruct o as [[|c r]|]; reflexivity. Qed.
Lemma ttc_map_res_ok {A B} (f : A -> res B) (g : A -> B) l : (forall a, In a l -> f a = Ok (g a)) -> map_res f l = Ok (map g l).
Proof.
  induction l as [|a r IH]; intros H; [reflexivity|]. cbn [map_res map].
  rewrite (H a (or_introl eq_refl)). cbn [bind]. rewrite IH; [reflexivity|]. intros b Hb. apply H. right. exact Hb.
Qed.

Lemma out_run_c_ok r : out_run_c r = Ok (out_run (ttc_wrun_proj r)).
Proof.
  unfold out_run_c, out_run, ttc_wrun_proj. rewrite out_attrs_c_ok, ttc_id_of_ok. cbn [bind tr_style tr_attrs tr_txt].
  rewrite ttc_opt_attr_some. reflexivity.
Qed.
Lemma out_lines_c_ok ls : out_lines_c ls = Ok (flat_map (fun l => map out_run l ++ [out_br]) (map (map ttc_wrun_proj) ls)).
Proof.
  induction ls as [|l r IH]; [reflexivity|]. cbn [out_lines_c map flat_map].
  rewrite (ttc_map_res_ok out_run_c (fun x => out_run (ttc_wrun_proj x)) l (fun a _ => out_run_c_ok a)). cbn [bind].
  rewrite IH. cbn [bind]. rewrite map_map, <- app_assoc. reflexivity.
Qed.
(* 762-764: len(Items) > 0 is what Items[:len(Items)-1] needs *)
Lemma ttc_drop_last_ok {A} (items : list A) site :
  (if Nat.ltb 0 (length items) then ttc_drop_last items site else Ok items) = Ok (removelast items).
Proof.
  destruct items as [|x r]; [reflexivity|]. change (Nat.ltb 0 (length (x :: r))) with true. cbv iota.
  unfold ttc_drop_last. cbn [length]. unfold slice_to. cbn [length].
  destruct (Nat.leb (length r) (S (length r))) eqn:E; [|apply Nat.leb_gt in E; lia].
  rewrite removelast_firstn_len. reflexivity.
Qed.
Lemma out_p_c_ok it : out_p_c it = Ok (out_p (ttc_witem_proj it)).
Proof.
  unfold out_p_c, out_p, ttc_witem_proj. rewrite out_attrs_c_ok, !ttc_id_of_ok, out_lines_c_ok. cbn [bind].
  rewrite ttc_drop_last_ok. cbn [bind ti_st ti_en ti_region ti_style ti_attrs ti_lines].
  rewrite !ttc_opt_attr_some. reflexivity.
Qed.

(* ranging over the map: the value that comes with a key is the one a look-up by that key finds *)
Lemma ttc_range_get {V} (m : list (str * V)) k v : In (k, v) (ttc_range m) -> map_get k m = Some v.
Proof.
  induction m as [|[k0 v0] r IH]; intros H; [contradiction|]. cbn [ttc_range] in H. cbn [map_get].
  destruct H as [H|H].
  - injection H as -> ->. rewrite str_eqb_refl. reflexivity.
  - apply filter_In in H. destruct H as [Hin Hne]. cbn [fst] in Hne. apply negb_true_iff in Hne. rewrite Hne. apply IH. exact Hin.
Qed.
(* so the entry looked up with a collected key is the non-nil pointer that was tested when the key was collected *)
Lemma out_header_c_ok el m s1 s2 s3 s4 id s : map_get id m = Some (Some s) ->
  out_header_c el m s1 s2 s3 s4 id = Ok (out_header el (wstyle_proj s)).
Proof.
  intros H. unfold out_header_c, ttc_lookup, out_header, wstyle_proj. rewrite H. cbn [deref bind]. rewrite out_attrs_c_ok. cbn [bind ts_id ts_ref ts_attrs].
  destruct (ws_ref s) as [[|c r]|]; reflexivity.
Qed.
(* sort.Strings over the keys is the key order of the model's sorted association list *)
Lemma ttc_ginsert_fst {V} (x : str * V) L : map fst (ginsert key_leb x L) = ginsert sleb (fst x) (map fst L).
Proof.
  induction L as [|y r IH]; [reflexivity|]. cbn [ginsert map]. unfold key_leb at 1.
  destruct (sleb (fst x) (fst y)); cbn [map]; [reflexivity|]. rewrite IH. reflexivity.
Qed.
Lemma ttc_gsort_fst {V} (L : list (str * V)) : map fst (gsort key_leb L) = gsort sleb (map fst L).
Proof. induction L as [|x r IH]; [reflexivity|]. cbn [gsort fold_right map]. rewrite ttc_ginsert_fst. f_equal. exact IH. Qed.
Lemma ttc_keys_proj m : map fst (wmap_proj m) = ttc_keys m.
Proof.
  unfold wmap_proj, ttc_keys. induction (ttc_range m) as [|[k e] r IH]; [reflexivity|].
  cbn [flat_map fst snd]. rewrite map_app, IH. destruct e as [s|]; reflexivity.
Qed.
Lemma out_headers_c_ok el m s1 s2 s3 s4 :
  map_res (out_header_c el m s1 s2 s3 s4) (gsort sleb (ttc_keys m)) =
  Ok (map (fun kv => out_header el (snd kv)) (sort_keys (wmap_proj m))).
Proof.
  unfold sort_keys. rewrite <- ttc_keys_proj, <- ttc_gsort_fst.
  assert (Hall : forall kv, In kv (gsort key_leb (wmap_proj m)) ->
                 out_header_c el m s1 s2 s3 s4 (fst kv) = Ok (out_header el (snd kv))).
  { intros kv Hin. apply (Permutation_in _ (Permutation_sym (gsort_perm key_leb (wmap_proj m)))) in Hin.
    unfold wmap_proj in Hin. apply in_flat_map in Hin. destruct Hin as ([k e] & Hr & Hkv). cbn [fst snd] in Hkv.
    destruct e as [s|]; [|contradiction]. destruct Hkv as [<-|[]]. cbn [fst snd].
    apply out_header_c_ok. apply ttc_range_get. exact Hr. }
  revert Hall. generalize (gsort key_leb (wmap_proj m)). intros L Hall.
  induction L as [|kv r IH]; [reflexivity|]. cbn [map map_res]. rewrite (Hall kv (or_introl eq_refl)). cbn [bind].
  rewrite IH; [reflexivity|]. intros kv' Hin. apply Hall. right. exact Hin.
Qed.

(* THE CHECKED WRITER AGREES WITH THE WRITER OF THE FIDELITY THEOREMS on the projection of its input *)
Theorem write_ttml_c_agrees : forall w, write_ttml_c w = write_ttml (wdoc_proj w).
Proof.
  intros w. unfold write_ttml_c, write_ttml, wdoc_proj. cbn [td_items td_meta td_styles td_regions].
  destruct (w_items w) as [|it r] eqn:Ei; [reflexivity|]. cbn [length Nat.eqb].
  rewrite !out_headers_c_ok.
  rewrite (ttc_map_res_ok out_p_c (fun x => out_p (ttc_witem_proj x)) (it :: r) (fun a _ => out_p_c_ok a)).
  rewrite <- (map_map ttc_witem_proj out_p). cbn [map].
  destruct (w_meta w) as [m|]; cbn [is_some deref bind]; [|reflexivity].
  destruct (tm_copyright m) as [|c0 c]; destruct (tm_title m) as [|t0 t]; reflexivity.
Qed.
(* no panic site of WriteToTTML is reachable, whatever nil pointers the value contains *)
Theorem write_ttml_c_total : forall w (p : N), write_ttml_c w <> Panic p.
Proof. intros w p. rewrite write_ttml_c_agrees. apply write_ttml_total. Qed.

(* nil items: whatever nil elements the list has, no panic; they are skipped *)
Theorem write_ttml_items_c_total : forall items w (p : N), write_ttml_items_c items w <> Panic p.
Proof. intros items w p. unfold write_ttml_items_c. apply write_ttml_c_total. Qed.
Theorem ttml_nil_items_skipped : forall (l : list ttc_witem) (a b : list (option ttc_witem)) w,
  somes a = [] -> somes b = [] ->
  write_ttml_items_c (a ++ map Some l ++ b) w = write_ttml_items_c (map Some l) w.
Proof.
  intros l a b w Ha Hb. unfold write_ttml_items_c. rewrite !somes_app, Ha, Hb, somes_map_Some, app_nil_r. reflexivity.
Qed.
Example ttml_only_nil_items : forall w, write_ttml_items_c [None; None] w = Err ENothingToWrite.
Proof. intros w. reflexivity. Qed.

(* the guards are what keeps the sites unreachable: each line is a function of the checked model (or its variant with
   ONE guard dropped, equal to the model function when the guard is kept) evaluated where the guard would have stopped it *)
Lemma out_attrs_g_kept s : out_attrs_g true s = out_attrs_c s.
Proof. reflexivity. Qed.
Lemma out_p_g_kept it : out_p_g true it = out_p_c it.
Proof. reflexivity. Qed.
Lemma propagate_g_kept a : propagate_g true a = propagate_c a.
Proof. reflexivity. Qed.
Definition ttc_extent_only (e : str) : tattrs :=
  mkTA (map (fun i => if Nat.eqb i 5 then Some e else None) (seq 0 (length attr_names))) None.
Example ttml_unguarded_sites :
  (* a header looked up by a key whose entry is nil (the key collection's "if region != nil" dropped) *)
  out_header_c s_region [([114], None)] 690 691 693 694 [114] = Panic 690 /\
  (* ttmlOutStyleAttributesFromStyleAttributes without its nil test, on a nil InlineStyle *)
  out_attrs_g false None = Panic 560 /\ out_attrs_g true None = Ok no_attrs /\
  (* the style loop of ReadFromTTML on a Subtitles whose Styles map was never allocated *)
  styles_loop_c [mkStyle [] None no_attrs] None None = Panic 375 /\
  (* a paragraph without lines: Items[:len(Items)-1] without the length test *)
  out_p_g false (mkTWitem 0 0 None None None []) = Panic 763 /\
  (exists n, out_p_g true (mkTWitem 0 0 None None None []) = Ok n) /\
  (* tts:extent="80%": dimensions[1] without len(dimensions) > 1 *)
  propagate_g false (ttc_extent_only [56; 48; 37]) = Panic 10394 /\
  propagate_g true (ttc_extent_only [56; 48; 37]) = Ok tt.
Proof. repeat split; try reflexivity. eexists. reflexivity. Qed.

Print Assumptions read_ttml_c_total.
Print Assumptions write_ttml_c_total.
Print Assumptions write_ttml_items_c_total.
