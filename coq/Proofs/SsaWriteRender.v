(* SSA/ASS: what the WRITER emits is one of the renderings of [read_rendered] (Proofs/SsaRead.v), with one empty line
   before the styles header and one before the events header.  The renderer / denotation pair of that theorem is
   therefore a decoder of writer output that does not go through the block-by-block reading of Proofs/SsaDoc.v; the
   document it denotes is the canonical form [canon_doc] -- the two routes agree. *)
From Coq Require Import Strings.String Strings.Ascii.
From Coq Require Import List ZArith NArith Bool Lia.
From Astisub Require Import Kit.Base Kit.Str Kit.Scan Model.Dur Model.Ssa.
From Astisub Require Import Proofs.VttBase Proofs.DurProofs Proofs.ScanProofs Proofs.EolProofs Proofs.SsaFields Proofs.SsaText Proofs.SsaTrim
  Proofs.SsaRows Proofs.SsaLines Proofs.SsaInfo Proofs.SsaInfoOrder Proofs.SsaStyles Proofs.SsaEvents Proofs.SsaDoc Proofs.SsaIgnore Proofs.SsaRead.
Import ListNotations.
Open Scope N_scope.

(* ---------------------------------------------------------------- the three segments of a rendering *)
Definition r_info (b : ainfo) (keys : list fkey) : list str := comment_lines b ++ flat_map (fun f => fline f b) keys.
Definition r_styles (styles : option (str * str * list (list str * astyle))) : list str :=
  match styles with
  | Some (hs, fs, srows) => hs :: (n_format_pfx ++ fs) :: map (fun p : list str * astyle => n_style_pfx ++ join [44] (fst p)) srows
  | None => []
  end.
Definition r_events (he fe : str) (erows : list ((list str * str) * aevent)) : list str :=
  he :: (n_format_pfx ++ fe) :: map (fun p : (list str * str) * aevent => n_dialogue_pfx ++ join [44] (fst (fst p) ++ [snd (fst p)])) erows.
Lemma rendered_lines_parts hi b keys styles he fe erows :
  rendered_lines hi b keys styles he fe erows = hi :: r_info b keys ++ r_styles styles ++ r_events he fe erows.
Proof. reflexivity. Qed.

(* the same rendering with an empty line before each section header after the first (the writer's layout) *)
Definition blank_before (l : list str) : list str := match l with [] => [] | _ => [] :: l end.
Definition spaced_lines (hi : str) (b : ainfo) (keys : list fkey)
    (styles : option (str * str * list (list str * astyle)))
    (he fe : str) (erows : list ((list str * str) * aevent)) : list str :=
  hi :: r_info b keys ++ blank_before (r_styles styles) ++ blank_before (r_events he fe erows).

Lemma blank_junk : junk [].
Proof. left. reflexivity. Qed.
Lemma blank_before_run l1 l l2 e : l1 <> [] ->
  read_ssa_lines (l1 ++ blank_before l ++ l2) e = read_ssa_lines (l1 ++ l ++ l2) e.
Proof.
  intros Hne. destruct l as [|x r]; [reflexivity|]. cbn [blank_before app].
  apply read_ignores_junk; [exact Hne | exact blank_junk].
Qed.
Lemma blank_before_run_end l1 l e : l1 <> [] ->
  read_ssa_lines (l1 ++ blank_before l) e = read_ssa_lines (l1 ++ l) e.
Proof.
  intros Hne. destruct l as [|x r]; [reflexivity|]. cbn [blank_before].
  apply read_ignores_junk; [exact Hne | exact blank_junk].
Qed.
(* THE EMPTY LINES DO NOT COUNT: obtained from [read_ignores_junk] only *)
Theorem read_spaced hi b keys styles he fe erows e :
  read_ssa_lines (spaced_lines hi b keys styles he fe erows) e = read_ssa_lines (rendered_lines hi b keys styles he fe erows) e.
Proof.
  rewrite rendered_lines_parts. unfold spaced_lines.
  change (read_ssa_lines ((hi :: r_info b keys) ++ blank_before (r_styles styles) ++ blank_before (r_events he fe erows)) e =
          read_ssa_lines ((hi :: r_info b keys) ++ r_styles styles ++ r_events he fe erows) e).
  rewrite blank_before_run by discriminate. rewrite !app_assoc. apply blank_before_run_end.
  cbn [app]. discriminate.
Qed.

(* ---------------------------------------------------------------- the hypotheses of [read_rendered], packaged *)
Definition rendering_ok (hi : str) (b : ainfo) (keys : list fkey)
    (styles : option (str * str * list (list str * astyle)))
    (he fe : str) (erows : list ((list str * str) * aevent)) (scols ecols : list str) : Prop :=
  section_hdr true hi SInfo /\ info_ok b /\ (forall f, In f keys) /\
  match styles with
  | Some (hs, fs, srows) => section_hdr false hs SStyles /\ format_value fs scols /\ scols <> [] /\
                            Forall (fun p : list str * astyle => style_row scols (fst p) (snd p)) srows
  | None => True
  end /\
  section_hdr false he SEvents /\ format_value fe ecols /\ ecols <> [] /\
  Forall (fun p : (list str * str) * aevent => event_row ecols (fst (fst p)) (snd (fst p)) (snd p)) erows.
(* the document a rendering denotes (the right-hand side of [read_rendered]) *)
Definition r_sts (styles : option (str * str * list (list str * astyle))) : list astyle :=
  match styles with Some (_, _, srows) => map snd srows | None => [] end.
Definition rendering_denotes (b : ainfo) (styles : option (str * str * list (list str * astyle)))
    (erows : list ((list str * str) * aevent)) : adoc :=
  mkAdoc (Some b) (styles_map (r_sts styles)) (map (fun ev => event_item ev (styles_map (r_sts styles))) (map snd erows)).
Lemma read_rendered_ok hi b keys styles he fe erows scols ecols :
  rendering_ok hi b keys styles he fe erows scols ecols ->
  read_ssa_lines (rendered_lines hi b keys styles he fe erows) false = Ok (rendering_denotes b styles erows).
Proof.
  intros (H1 & H2 & H3 & H4 & H5 & H6 & H7 & H8).
  exact (read_rendered hi b keys styles he fe erows scols ecols false H1 H2 H3 H4 H5 H6 H7 H8).
Qed.

(* ---------------------------------------------------------------- the canonical rendering of a document *)
Definition event_init (v4p : bool) : list eattr :=
  [if v4p then ELayer else EMarked; EStart; EEnd; EStyle; EName; EMarginL; EMarginR; EMarginV; EEffect].
Lemma event_format_init v4p : event_format v4p = event_init v4p ++ [EText].
Proof. reflexivity. Qed.

Definition w_styles_hdr (d : adoc) : str := if is_v4plus d then n_styles_hdr_v4p else n_styles_hdr_v4.
(* the columns of the two Format lines *)
Definition w_scols (d : adoc) : list str := map sattr_name (style_fmt (doc_styles d)).
Definition w_ecols (d : adoc) : list str := map eattr_name (event_format (is_v4plus d)).
(* a style row: the name, then the cell of every other attribute of the format; it denotes the style itself *)
Definition w_srow (attrs : list sattr) (st : astyle) : list str * astyle := (ay_name st :: map (cell_of st) attrs, st).
Definition w_styles (d : adoc) : option (str * str * list (list str * astyle)) :=
  match ad_styles d with
  | [] => None
  | _ => Some (w_styles_hdr d, join comma_sp (w_scols d), map (w_srow (tl (style_fmt (doc_styles d)))) (doc_styles d))
  end.
(* an event row: the nine cells before the text, the text cell; it denotes [event_canon] of the event of the item *)
Definition w_erow (v4p : bool) (i : aitem) : (list str * str) * aevent :=
  let e := event_of_item i in
  ((map (fun a => event_cell_string a e) (event_init v4p), event_cell_string EText e), event_canon v4p e).
Definition w_fe (d : adoc) : str := join comma_sp (w_ecols d).
Definition w_erows (d : adoc) : list ((list str * str) * aevent) := map (w_erow (is_v4plus d)) (ad_items d).

(* 1a. THE WRITER'S LINES ARE THE CANONICAL RENDERING, SPACED (for every document) *)
Theorem write_is_rendering d :
  doc_lines d = spaced_lines n_script_info_hdr (canon_info d) all_fkeys (w_styles d) n_events_hdr (w_fe d) (w_erows d).
Proof.
  assert (Es : match ad_styles d with [] => [] | _ => styles_lines (is_v4plus d) (doc_styles d) end =
               blank_before (r_styles (w_styles d))).
  { unfold w_styles. destruct (ad_styles d) as [|p r]; [reflexivity|]. cbn [r_styles blank_before].
    unfold styles_lines, w_styles_hdr, w_scols. cbn [app]. do 3 f_equal.
    rewrite (map_map (w_srow (tl (style_fmt (doc_styles d))))). apply map_ext. intros st. unfold w_srow. cbn [fst].
    destruct (style_fmt_covers (doc_styles d)) as (attrs & Ef & Hn & _). rewrite Ef. cbn [tl].
    rewrite (style_string_cells st attrs Hn). reflexivity. }
  assert (Ee : events_lines (is_v4plus d) (ad_items d) = blank_before (r_events n_events_hdr (w_fe d) (w_erows d))).
  { unfold events_lines, w_fe, w_ecols, w_erows, r_events. cbn [blank_before app]. do 3 f_equal.
    rewrite (map_map (w_erow (is_v4plus d))). apply map_ext. intros i. unfold w_erow. cbn [fst snd].
    unfold event_string, comma. rewrite event_format_init, map_app. reflexivity. }
  unfold doc_lines, spaced_lines, info_lines, r_info. rewrite info_body_lines_keys, Es, Ee. reflexivity.
Qed.

(* ---------------------------------------------------------------- 1b. the side conditions *)
Lemma Forall2_map_in {A B C} (R : B -> C -> Prop) (f : A -> B) (g : A -> C) l :
  (forall a, In a l -> R (f a) (g a)) -> Forall2 R (map f l) (map g l).
Proof.
  induction l as [|a r IH]; intros H; cbn [map]; constructor.
  - apply H. left. reflexivity.
  - apply IH. intros b Hb. apply H. right. exact Hb.
Qed.
Lemma in_cols_names a F : in_cols a (map sattr_name F) <-> In a F.
Proof.
  split.
  - intros (c & Hc & Ha). apply in_map_iff in Hc. destruct Hc as (b & <- & Hb). rewrite sattr_of_name_name in Ha.
    inversion Ha; subst. exact Hb.
  - intros Hi. exists (sattr_name a). split; [apply in_map; exact Hi | apply sattr_of_name_name].
Qed.
Lemma in_ecols_names a F : in_ecols a (map eattr_name F) <-> In a F.
Proof.
  split.
  - intros (c & Hc & Ha). apply in_map_iff in Hc. destruct Hc as (b & <- & Hb). rewrite eattr_of_name_name in Ha.
    inversion Ha; subst. exact Hb.
  - intros Hi. exists (eattr_name a). split; [apply in_map; exact Hi | apply eattr_of_name_name].
Qed.

(* the value of a Format line written as names joined by ", " denotes those names *)
Lemma w_format_value names : names <> [] -> Forall (fun n => cell_clean n /\ n <> []) names ->
  format_value (join comma_sp names) names.
Proof.
  intros Hne HF. destruct (format_value_ok names Hne HF) as (H1 & H2 & _). split; [exact H1|]. split; [exact H2|].
  apply format_line_names; [exact Hne|]. apply Forall_forall. intros n Hn. rewrite Forall_forall in HF.
  exact (proj1 (HF n Hn)).
Qed.

(* the row the writer emits for a representable style, under a format that covers what the style sets, is a style row
   of [read_rendered] that denotes the style *)
Lemma w_style_row st attrs : style_repr st -> ~ In AName attrs -> (forall a, a <> AName -> sets a st -> In a attrs) ->
  style_row (map sattr_name (AName :: attrs)) (ay_name st :: map (cell_of st) attrs) st.
Proof.
  intros Hr Hn Hcov. pose proof Hr as (Hok & Hne & Hname & Hfn).
  assert (Hna : forall a, In a attrs -> a <> AName) by (intros a Ha ->; contradiction).
  unfold style_row. split; [discriminate|]. split.
  { constructor; [apply Hok|]. apply Forall_forall. intros c Hc. apply in_map_iff in Hc. destruct Hc as (a & <- & Ha).
    apply written_cell_denotes; [exact Hok | apply Hna; exact Ha]. }
  split.
  { cbn [map]. constructor.
    - unfold col_ok. rewrite sattr_of_name_name. reflexivity.
    - apply Forall2_map_in. intros a Ha. unfold col_ok. rewrite sattr_of_name_name.
      apply written_cell_denotes; [exact Hok | apply Hna; exact Ha]. }
  split.
  { intros a Ha. apply in_cols_names. destruct (sattr_eq_dec a AName) as [->|Hne']; [left; reflexivity|].
    right. apply Hcov; [exact Hne' | exact Ha]. }
  rewrite <- (style_string_cells st attrs Hn). destruct (style_row_value st attrs Hr Hn) as (H1 & H2 & _).
  split; assumption.
Qed.

(* the fields of [event_canon]: what the written cell denotes for the ten columns, the default for the absent one *)
Lemma eget_canon_in v4p a e : In a (event_format v4p) -> eget a (event_canon v4p e) = ewritten a e.
Proof. intros Hi. destruct v4p, a; try reflexivity; exfalso; cbn in Hi; intuition discriminate. Qed.
Lemma eget_canon_out v4p a e : ~ In a (event_format v4p) -> eget a (event_canon v4p e) = eget a (aevent0 n_dialogue).
Proof. intros Hni. destruct v4p, a; try reflexivity; exfalso; apply Hni; cbn; tauto. Qed.

(* the row the writer emits for a representable event is an event row of [read_rendered] that denotes [event_canon] *)
Lemma w_event_row v4p e : event_repr e ->
  event_row (map eattr_name (event_format v4p)) (map (fun a => event_cell_string a e) (event_init v4p))
            (event_cell_string EText e) (event_canon v4p e).
Proof.
  intros Hr. pose proof Hr as (Hok & _).
  assert (Ecells : map (fun a => event_cell_string a e) (event_init v4p) ++ [event_cell_string EText e] =
                   map (fun a => event_cell_string a e) (event_format v4p)).
  { rewrite event_format_init, map_app. reflexivity. }
  unfold event_row. rewrite Ecells. split.
  { apply Forall_forall. intros c Hc. apply in_map_iff in Hc. destruct Hc as (a & <- & Ha).
    apply written_ecell_nocomma; [exact Hok|]. intros ->. destruct v4p; cbn in Ha; intuition discriminate. }
  split.
  { apply Forall2_map_in. intros a Ha. unfold ecol_ok. rewrite eattr_of_name_name, (eget_canon_in v4p a e Ha).
    apply decode_written. exact Hok. }
  split; [reflexivity|]. split.
  { intros a Ha. apply eget_canon_out. intros Hi. apply Ha. apply in_ecols_names. exact Hi. }
  destruct (event_row_value v4p e Hr) as (H1 & H2 & _). unfold event_string, comma in H1, H2. split; assumption.
Qed.

Open Scope string_scope.
Lemma w_info_hdr : section_hdr true n_script_info_hdr SInfo.
Proof. exists (s2l "Script Info"). split; reflexivity. Qed.
Lemma w_styles_hdr_ok d : section_hdr false (w_styles_hdr d) SStyles.
Proof.
  unfold w_styles_hdr. destruct (is_v4plus d); [exists (s2l "V4+ Styles") | exists (s2l "V4 Styles")]; split; reflexivity.
Qed.
Lemma w_events_hdr : section_hdr false n_events_hdr SEvents.
Proof. exists (s2l "Events"). split; reflexivity. Qed.
Close Scope string_scope.

(* 1b. EVERY HYPOTHESIS OF [read_rendered] HOLDS FOR THE CANONICAL RENDERING of a representable document *)
Theorem write_rendering_ok d : doc_repr d ->
  rendering_ok n_script_info_hdr (canon_info d) all_fkeys (w_styles d) n_events_hdr (w_fe d) (w_erows d) (w_scols d) (w_ecols d).
Proof.
  intros (Hs & Hinfo & Hne & Hitems). pose proof Hs as (_ & _ & _ & Hsr).
  unfold rendering_ok. split; [exact w_info_hdr|]. split; [exact Hinfo|].
  split; [intros f; destruct f as [k|k|]; try destruct k; cbn; tauto|].
  split.
  { unfold w_styles. destruct (ad_styles d) as [|p r]; [exact I|].
    unfold w_scols. destruct (style_fmt_covers (doc_styles d)) as (attrs & Ef & Hn & Hcov). rewrite Ef. cbn [tl].
    split; [apply w_styles_hdr_ok|]. split.
    { apply w_format_value; [discriminate|]. apply Forall_forall. intros n Hin. apply in_map_iff in Hin.
      destruct Hin as (a & <- & _). apply sattr_name_clean. }
    split; [discriminate|].
    apply Forall_forall. intros p' Hp. apply in_map_iff in Hp. destruct Hp as (st & <- & Hst). unfold w_srow. cbn [fst snd].
    rewrite Forall_forall in Hsr. apply w_style_row; [apply Hsr; exact Hst | exact Hn|].
    intros a Ha Hsets. exact (Hcov st a Hst Ha Hsets). }
  split; [exact w_events_hdr|]. unfold w_fe, w_ecols. split.
  { apply w_format_value; [destruct (is_v4plus d); discriminate|]. apply Forall_forall. intros n Hin. apply in_map_iff in Hin.
    destruct Hin as (a & <- & _). apply eattr_name_clean. }
  split; [destruct (is_v4plus d); discriminate|].
  unfold w_erows. apply Forall_forall. intros p Hp. apply in_map_iff in Hp. destruct Hp as (i & <- & Hi).
  unfold w_erow. cbn [fst snd]. rewrite Forall_forall in Hitems. destruct (Hitems i Hi) as (Her & _).
  apply w_event_row. exact Her.
Qed.

(* ---------------------------------------------------------------- 2. the document the writer's bytes denote *)
Definition w_denotation (d : adoc) : adoc :=
  mkAdoc (Some (canon_info d)) (styles_map (doc_styles d))
         (map (fun ev => event_item ev (styles_map (doc_styles d)))
              (map (fun i => event_canon (is_v4plus d) (event_of_item i)) (ad_items d))).

Lemma w_sts d : r_sts (w_styles d) = doc_styles d.
Proof.
  unfold w_styles, doc_styles. destruct (ad_styles d) as [|p r]; [reflexivity|]. cbn [r_sts].
  rewrite map_map. unfold w_srow. cbn [snd]. apply map_id.
Qed.
Lemma w_evs d : map snd (w_erows d) = map (fun i => event_canon (is_v4plus d) (event_of_item i)) (ad_items d).
Proof. unfold w_erows. rewrite map_map. reflexivity. Qed.
Lemma w_rendering_denotes d : rendering_denotes (canon_info d) (w_styles d) (w_erows d) = w_denotation d.
Proof. unfold rendering_denotes, w_denotation. rewrite w_sts, w_evs. reflexivity. Qed.

Lemma doc_lines_brkfree d : doc_repr d -> Forall brkfree (doc_lines d).
Proof.
  intros (Hs & Hinfo & Hne & Hitems). pose proof Hs as (_ & _ & _ & Hsr).
  unfold doc_lines. apply Forall_app. split; [apply info_lines_brkfree; exact Hinfo|]. apply Forall_app. split.
  - destruct (ad_styles d); [constructor | apply styles_lines_brkfree; exact Hsr].
  - apply events_lines_brkfree. apply Forall_forall. intros i Hi. rewrite Forall_forall in Hitems. apply (Hitems i Hi).
Qed.

(* WRITE, THEN DECODE THROUGH [read_rendered]: the bytes are the canonical rendering (LF line ends, two empty lines);
   line splitting ([lines_render]), the empty lines ([read_ignores_junk]) and [read_rendered] give the document *)
Theorem write_denotes d : doc_repr d ->
  exists data, write_ssa d (style_keys d) = Ok data /\ read_ssa data = Ok (w_denotation d).
Proof.
  intros Hr. pose proof Hr as (Hs & _ & Hne & _).
  exists (render_eol [10] (doc_lines d)). split; [apply write_lines; assumption|].
  unfold read_ssa. rewrite (lines_render [10] (doc_lines d)); [|left; reflexivity | apply doc_lines_brkfree; exact Hr].
  rewrite write_is_rendering, read_spaced, (read_rendered_ok _ _ _ _ _ _ _ _ _ (write_rendering_ok d Hr)).
  rewrite w_rendering_denotes. reflexivity.
Qed.

(* THE TWO ROUTES AGREE: the denotation is the canonical form of [write_read] *)
Theorem write_denotes_canon d : doc_repr d -> w_denotation d = canon_doc d.
Proof.
  intros (Hs & Hinfo & Hne & Hitems). pose proof Hs as (Em & Hnd & _ & _).
  unfold w_denotation, canon_doc. f_equal.
  - rewrite (styles_map_repr _ Hnd). symmetry. exact Em.
  - rewrite map_map. apply map_ext_in. intros i Hi. rewrite Forall_forall in Hitems.
    apply (read_item (map ay_name (doc_styles d)) _ i _ (Hitems i Hi)).
    intros n Hn. apply sm_mem_in. rewrite (styles_map_repr _ Hnd), map_map. exact Hn.
Qed.

(* packaged for Properties/C04.v *)
Theorem write_is_rendering_full d : doc_repr d ->
  write_ssa d (style_keys d) =
    Ok (render_eol [10] (spaced_lines n_script_info_hdr (canon_info d) all_fkeys (w_styles d) n_events_hdr (w_fe d) (w_erows d))) /\
  rendering_ok n_script_info_hdr (canon_info d) all_fkeys (w_styles d) n_events_hdr (w_fe d) (w_erows d) (w_scols d) (w_ecols d).
Proof.
  intros Hr. split; [|exact (write_rendering_ok d Hr)]. destruct Hr as (Hs & _ & Hne & _).
  rewrite <- write_is_rendering. apply write_lines; assumption.
Qed.
