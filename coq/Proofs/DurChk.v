(* subtitles.go parseDuration: the checked transcription never reaches a panic site and agrees with Model.Dur. *)
From Coq Require Import List ZArith NArith Bool Arith Lia.
From Astisub Require Import Kit.Base Kit.Str Kit.Chk Model.Dur Model.DurC.
Import ListNotations.

Lemma slice_to_app1 {A} (P : list A) x site : slice_to (P ++ [x]) (length (P ++ [x]) - 1) site = Ok P.
Proof.
  rewrite app_length. cbn [length]. replace (length P + 1 - 1)%nat with (length P) by lia. unfold slice_to. rewrite app_length. cbn [length].
  destruct (Nat.leb (length P) (length P + 1)) eqn:E; [|apply Nat.leb_gt in E; lia].
  rewrite firstn_app, Nat.sub_diag, firstn_all. cbn [firstn]. rewrite app_nil_r. reflexivity.
Qed.
Lemma index_last1 {A} (P : list A) x site : index (P ++ [x]) (length (P ++ [x]) - 1) site = Ok x.
Proof.
  rewrite app_length. cbn [length]. replace (length P + 1 - 1)%nat with (length P) by lia. unfold index.
  rewrite nth_error_app2 by lia. rewrite Nat.sub_diag. reflexivity.
Qed.
Lemma parse_hms_c_ok s : parse_hms_c s = Ok (parse_hms s).
Proof.
  unfold parse_hms_c, parse_hms. destruct (split_byte colon (trim_space s)) as [|a [|b [|c [|d r]]]]; try reflexivity.
Qed.
Theorem parse_duration_c_ok s sep k : parse_duration_c s sep k = Ok (parse_duration s sep k).
Proof.
  unfold parse_duration_c, parse_duration. destruct (split_byte sep s) as [|p0 ps] eqn:E using rev_ind.
  - cbn [length Nat.leb rev]. rewrite parse_hms_c_ok. reflexivity.
  - clear IHps. rewrite rev_app_distr. cbn [rev app]. destruct ps as [|q qs].
    + cbn [app length Nat.leb rev]. rewrite parse_hms_c_ok. reflexivity.
    + assert (El : Nat.leb 2 (length ((q :: qs) ++ [p0])) = true) by (rewrite app_length; cbn [length]; apply Nat.leb_le; lia).
      rewrite El, index_last1. cbn [bind].
      destruct (rev (q :: qs)) as [|x xs] eqn:Er.
      { exfalso. apply (f_equal (@length _)) in Er. rewrite rev_length in Er. discriminate. }
      destruct (Nat.ltb 3 (length (trim_space p0))); [reflexivity|]. destruct (atoi (trim_space p0)); [|reflexivity].
      rewrite slice_to_pred_app1. cbn [bind]. rewrite parse_hms_c_ok. cbn [bind]. rewrite <- Er, rev_involutive. reflexivity.
Qed.
Theorem parse_duration_c_no_panic s sep k p : parse_duration_c s sep k <> Panic p.
Proof. rewrite parse_duration_c_ok. discriminate. Qed.
