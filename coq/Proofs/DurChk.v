(* subtitles.go parseDuration: the checked transcription never reaches a panic site and agrees with Model.Dur. *)
From Coq Require Import List ZArith NArith Bool Arith Lia.
From Astisub Require Import Kit.Base Kit.Str Kit.Chk Model.Dur Model.DurC.
Import ListNotations.

Lemma slice_to_app1 {A} (P : list A) x site : slice_to (P ++ [x]) (length (P ++ [x]) - 1) site = Ok P.
Proof.
  rewrite app_length. cbn [length]. replace (length P + 1 - 1)%nat with (length P) by lia. unfold slice_to. rewrite app_length. cbn [length].
  destruct (Nat.leb (length P) (length P + 1)) eqn:E; [|apply Nat.leb_gt in E; lia].
  rewrite firstn_app, Nat.sub_diag, firstn_all. cbn [firstn]. rewrite app_nil_r. reflexivity.
Qed.
Lemma index_last1 {A} (P : list A) x site : index (P ++ [x]) (length (P ++ [x]) - 1) site = Ok x.
Proof.
  rewrite app_length. cbn [length]. replace (length P + 1 - 1)%nat with (length P) by lia. unfold index.
  rewrite nth_error_app2 by lia. rewrite Nat.sub_diag. reflexivity.
Qed.
Lemma parse_hms_c_ok s : parse_hms_c s = Ok (parse_hms s).
Proof.
  unfold parse_hms_c, parse_hms. destruct (split_byte colon (trim_space s)) as [|a [|b [|c [|d r]]]]; try reflexivity.
Qed.
Theorem parse_duration_c_ok s sep k : parse_duration_c s sep k = Ok (parse_duration s sep k).
Proof.
  unfold parse_duration_c, parse_duration. destruct (split_byte sep s) as [|p0 ps] eqn:E using rev_ind.
  - cbn [length Nat.leb rev]. rewrite parse_hms_c_ok. reflexivity.
  - clear IHps. rewrite rev_app_distr. cbn [rev app]. destruct ps as [|q qs].
    + cbn [app length Nat.leb rev]. rewrite parse_hms_c_ok. reflexivity.
    + assert (El : Nat.leb 2 (length ((q :: qs) ++ [p0])) = true) by (rewrite app_length; cbn [length]; apply Nat.leb_le; lia).
      rewrite El, index_last1. cbn [bind].
      destruct (rev (q :: qs)) as [|x xs] eqn:Er.
      { exfalso. apply (f_equal (@length _)) in Er. rewrite rev_length in Er. discriminate. }
      destruct (Nat.ltb 3 (length (trim_space p0))); [reflexivity|]. destruct (atoi (trim_space p0)); [|reflexivity].
      rewrite slice_to_pred_app1. cbn [bind]. rewrite parse_hms_c_ok. cbn [bind]. rewrite <- Er, rev_involutive. reflexivity.
Qed.
Theorem parse_duration_c_no_panic s sep k p : parse_duration_c s sep k <> Panic p.
Proof. rewrite parse_duration_c_ok. discriminate. Qed.

(* ---- second audit, N6: which guards of parseDuration are load-bearing ----
   Each function below is the checked function of Model/DurC.v with ONE guard removed and nothing else changed. *)
(* length test before index: "else if len(parts) == 3" replaced by "else" (subtitles.go:826) *)
Definition parse_hms_c_noguard3 (s : str) : res (option (Z * Z * Z)) :=
  let parts := split_byte colon (trim_space s) in
  if Nat.eqb (length parts) 2 then
    do ps <- index parts 1 824; do pm <- index parts 0 825;
    Ok (match atoi (trim_space ps), atoi (trim_space pm) with
        | Some sec, Some mn => Some (0, mn, sec)
        | _, _ => None
        end)
  else
    do ps <- index parts 2 827; do pm <- index parts 1 828; do ph <- index parts 0 829;
    Ok (match atoi (trim_space ps), atoi (trim_space pm) with
        | Some sec, Some mn =>
          match ph with
          | [] => Some (0, mn, sec)
          | _ => match atoi (trim_space ph) with Some h => Some (h, mn, sec) | None => None end
          end
        | _, _ => None
        end).
(* length test before index: "if len(parts) == 2" removed (subtitles.go:823): parts[1], parts[0] whatever the length *)
Definition parse_hms_c_noguard2 (s : str) : res (option (Z * Z * Z)) :=
  let parts := split_byte colon (trim_space s) in
  do ps <- index parts 1 824; do pm <- index parts 0 825;
  Ok (match atoi (trim_space ps), atoi (trim_space pm) with
      | Some sec, Some mn => Some (0, mn, sec)
      | _, _ => None
      end).
(* "if len(parts) >= 2" removed (subtitles.go:801), the parts given as an argument: parts[len(parts)-1] (803) and
   parts[:len(parts)-1] (815) on whatever Split returned *)
Definition parse_duration_on_c_noguard (parts : list str) (sep : byte) (k : nat) : res (option Z) :=
  do lastp <- index parts (length parts - 1) 803;
  let f := trim_space lastp in
  if Nat.ltb 3 (length f) then Ok None
  else match atoi f with
       | None => Ok None
       | Some ms =>
         let ms' := (ms * pow10_int (Z.of_nat k - Z.of_nat (length f)))%Z in
         do front <- slice_to_pred parts 815;
         do hms <- parse_hms_c (join [sep] front);
         Ok (match hms with
             | Some (h, mn, sec) => Some (ms' * ms_ns + sec * second_ns + mn * minute_ns + h * hour_ns)%Z
             | None => None
             end)
       end.
Definition parse_duration_c_noguard (s : str) (sep : byte) (k : nat) : res (option Z) :=
  parse_duration_on_c_noguard (split_byte sep s) sep k.
(* This guard is NOT a panic guard: strings.Split with a non-empty separator returns at least one part
   (Kit.Str.split_byte_nonnil), so len(parts)-1 >= 0 with or without the test; what the test decides is whether a string
   without the separator is read as hours:minutes:seconds or as milliseconds.  The sites 803 and 815 are live all the
   same: on an empty list of parts (what strings.Split returns for an empty string AND an empty separator) the first
   one fires; 815 is dominated by 803 (same slice, same bound). *)
Theorem parse_duration_c_noguard_no_panic s sep k p : parse_duration_c_noguard s sep k <> Panic p.
Proof.
  unfold parse_duration_c_noguard, parse_duration_on_c_noguard.
  destruct (split_byte sep s) as [|p0 ps] eqn:E using rev_ind; [exfalso; exact (split_byte_nonnil sep s E)|]. clear IHps.
  rewrite index_last1. cbn [bind]. destruct (Nat.ltb 3 (length (trim_space p0))); [discriminate|].
  destruct (atoi (trim_space p0)); [|discriminate]. rewrite slice_to_pred_app1. cbn [bind]. rewrite parse_hms_c_ok. discriminate.
Qed.
Lemma dur_guards_load_bearing :
  (parse_hms_c_noguard3 [53%N] = Panic 827 /\ parse_hms_c [53%N] = Ok None) /\
  (parse_hms_c_noguard2 [53%N] = Panic 824 /\ parse_hms_c [53%N] = Ok None) /\
  (parse_duration_on_c_noguard [] comma 3 = Panic 803 /\ slice_to_pred (@nil str) 815 = Panic 815 /\
   parse_duration_c_noguard [53%N] comma 3 = Ok None /\ parse_duration_c [53%N] comma 3 = Ok None) /\
  (forall s sep k p, parse_duration_c_noguard s sep k <> Panic p).
Proof. split; [|split; [|split]]; [vm_compute; repeat split .. | exact parse_duration_c_noguard_no_panic]. Qed.
