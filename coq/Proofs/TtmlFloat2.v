(* Offset times in frames / ticks whose count carries a fraction ("12.5f"): the parsed value
   v = parse_dec ip fp (one correctly rounded division) enters the frames / ticks term directly, so the
   term is THREE correctly rounded operations on exactly represented inputs followed by math.Round.
   The accumulated error stays below 1/4 ns as long as the instant is below 2^49 ns. *)
From Coq Require Import List ZArith NArith Reals Lia Lra Psatz Bool.
From Flocq Require Import Core BinarySingleNaN Relative.
From Astisub Require Import Kit.Base Kit.Str Kit.Float64 Kit.Float64x Model.Dur Model.Ttml
  Proofs.FracFloatProofs Proofs.LinProofs Proofs.TtmlSpec Proofs.TtmlFloat.
Import ListNotations.
Open Scope R_scope.

(* ---------------------------------------------------------------- *)
(* x > 0                                                              *)

Lemma fzero_val : B2R fzero = 0 /\ is_finite fzero = true.
Proof. unfold fzero. apply (of_Z_correct 0). reflexivity. Qed.

Lemma fpos_correct : forall x : f64, is_finite x = true ->
  fpos x = match Rcompare (B2R x) 0 with Gt => true | _ => false end.
Proof.
  intros x Fx. destruct fzero_val as [Z1 Z2]. unfold fpos.
  rewrite (Bcompare_correct prec emax x fzero Fx Z2), Z1. reflexivity.
Qed.

Lemma fpos_fzero : fpos fzero = false.
Proof.
  destruct fzero_val as [Z1 Z2]. rewrite (fpos_correct fzero Z2), Z1.
  rewrite Rcompare_Eq by reflexivity. reflexivity.
Qed.

(* ---------------------------------------------------------------- *)
(* the parsed value                                                   *)

Lemma RN_nonneg : forall x : R, 0 <= x -> 0 <= RN x.
Proof.
  intros x Hx. apply round_ge_generic; auto with typeclass_instances.
  apply generic_format_0.
Qed.

(* the parsed value is the correctly rounded quotient n / 10^k *)
Lemma parse_dec_val : forall ip fp,
  (0 <= dec_mant ip fp < 2 ^ 53)%Z -> (length fp <= 22)%nat ->
  B2R (parse_dec ip fp) = RN (IZR (dec_mant ip fp) / IZR (10 ^ Z.of_nat (length fp))) /\
  is_finite (parse_dec ip fp) = true.
Proof.
  intros ip fp Hn Hfp. unfold parse_dec.
  set (n := dec_mant ip fp) in *. set (den := (10 ^ Z.of_nat (length fp))%Z).
  assert (Hk : (0 <= Z.of_nat (length fp) <= 22)%Z) by lia.
  destruct (of_Z_pow10 _ Hk) as [Hd1 [Hd2 Hd3]]. fold den in Hd1, Hd2, Hd3.
  destruct (of_Z_correct n) as [Hn1 Hn2]; [lia|].
  pose proof (IZR_lt53 n Hn) as Bn.
  assert (Yi : 0 < / IZR den <= 1).
  { split; [apply Rinv_0_lt_compat; lra|]. rewrite <- Rinv_1. apply Rinv_le_contravar; lra. }
  destruct (fdiv_correct (of_Z n) (of_Z den)) as [Hq Fq].
  - exact Hn2.
  - rewrite Hd1. lra.
  - rewrite Hn1, Hd1, bpow100_val. unfold Rdiv. rewrite Rabs_pos_eq.
    + nra.
    + apply Rmult_le_pos; lra.
  - rewrite Hn1, Hd1 in Hq. split; assumption.
Qed.

Lemma pow10_22_val : IZR (10 ^ 22) = 10000000000000000000000.
Proof. reflexivity. Qed.

(* n / 10^k >= 10^-22 > 2^-74, and 2^-74 is a binary64 number *)
Lemma parse_dec_lower : forall ip fp,
  (0 < dec_mant ip fp < 2 ^ 53)%Z -> (length fp <= 22)%nat ->
  bpow radix2 (-74) <= B2R (parse_dec ip fp).
Proof.
  intros ip fp Hn Hfp.
  destruct (parse_dec_val ip fp) as [Hv _]; [lia | exact Hfp |].
  rewrite Hv. set (n := dec_mant ip fp) in *. set (den := (10 ^ Z.of_nat (length fp))%Z).
  assert (Hk : (0 <= Z.of_nat (length fp) <= 22)%Z) by lia.
  destruct (of_Z_pow10 _ Hk) as [_ [_ Hd3]]. fold den in Hd3.
  assert (Hd4 : IZR den <= 10000000000000000000000).
  { rewrite <- pow10_22_val. apply IZR_le. unfold den. apply Z.pow_le_mono_r; lia. }
  assert (Bn : 1 <= IZR n) by (apply IZR_le; lia).
  apply round_ge_generic; auto with typeclass_instances.
  - apply fmt_bpow. lia.
  - change (bpow radix2 (-74)) with (/ 18889465931478580854784).
    apply Rle_trans with (/ IZR den).
    + apply Rinv_le_contravar; lra.
    + assert (Hi : 0 < / IZR den) by (apply Rinv_0_lt_compat; lra).
      unfold Rdiv. nra.
Qed.

Lemma parse_dec_fpos : forall ip fp,
  (0 < dec_mant ip fp < 2 ^ 53)%Z -> (length fp <= 22)%nat -> fpos (parse_dec ip fp) = true.
Proof.
  intros ip fp Hn Hfp.
  destruct (parse_dec_val ip fp) as [_ Fv]; [lia | exact Hfp |].
  pose proof (parse_dec_lower ip fp Hn Hfp) as Hl.
  pose proof (bpow_gt_0 radix2 (-74)) as Hb.
  rewrite (fpos_correct _ Fv). rewrite Rcompare_Gt by lra. reflexivity.
Qed.

(* 0 / 10^k is +0 whatever k is (10^k may even overflow to +Inf: 0 / Inf = 0) *)
Lemma parse_dec_zero_val : forall ip fp, dec_mant ip fp = 0%Z ->
  B2R (parse_dec ip fp) = 0 /\ is_finite (parse_dec ip fp) = true.
Proof.
  intros ip fp Hn. unfold parse_dec. rewrite Hn.
  set (den := (10 ^ Z.of_nat (length fp))%Z).
  assert (Hden : (1 <= den)%Z).
  { unfold den. change 1%Z with (10 ^ 0)%Z. apply Z.pow_le_mono_r; lia. }
  assert (HD : 1 <= IZR den) by (apply IZR_le; exact Hden).
  destruct (of_Z_correct 0) as [Hz1 Hz2]; [reflexivity|].
  generalize (binary_normalize_correct prec emax Hprec Hmax mode_NE den 0 false).
  norm_fexp. rewrite F2R_0exp. fold (of_Z den).
  destruct (Rlt_bool (Rabs (RN (IZR den))) (bpow radix2 emax)).
  - intros [H1 _].
    assert (Hy : 1 <= B2R (of_Z den)).
    { rewrite H1. apply round_ge_generic; auto with typeclass_instances.
      apply (fmt_IZR 1). reflexivity. }
    generalize (Bdiv_correct prec emax Hprec Hmax mode_NE (of_Z 0) (of_Z den)).
    norm_fexp. fold (fdiv (of_Z 0) (of_Z den)). rewrite Hz1.
    unfold Rdiv. rewrite Rmult_0_l, round_0 by auto with typeclass_instances.
    rewrite Rabs_R0. rewrite Rlt_bool_true by apply bpow_gt_0.
    intros H. destruct H as [E1 [E2 _]]; [lra|]. rewrite Hz2 in E2. split; assumption.
  - assert (Hneg : Rlt_bool (IZR den) 0 = false) by (apply Rlt_bool_false; lra).
    rewrite Hneg. unfold binary_overflow. cbn [overflow_to_inf].
    intros H. change (SpecFloat.S754_infinity false) with (B2SF (B754_infinity false : f64)) in H.
    apply B2SF_inj in H. rewrite H.
    assert (Hz : of_Z 0 = B754_zero false) by (vm_compute; reflexivity).
    rewrite Hz. split; reflexivity.
Qed.

Lemma parse_dec_zero : forall ip fp, dec_mant ip fp = 0%Z ->
  fpos (parse_dec ip fp) = false /\ to_Z (parse_dec ip fp) = 0%Z.
Proof.
  intros ip fp Hn. destruct (parse_dec_zero_val ip fp Hn) as [Hv Fv]. split.
  - rewrite (fpos_correct _ Fv), Hv. rewrite Rcompare_Eq by reflexivity. reflexivity.
  - rewrite to_Z_correct, Hv. apply (Ztrunc_IZR 0).
Qed.

(* ---------------------------------------------------------------- *)
(* three roundings: the first operand x is itself a correctly rounded
   value of the exact X                                               *)

Lemma divmul3_err : forall (x y z : f64) (X : R),
  is_finite x = true -> is_finite z = true ->
  0 <= X <= 9007199254740992 -> 0 <= B2R x ->
  Rabs (B2R x - X) <= / 9007199254740992 * X + / 18446744073709551616 ->
  1 <= B2R y -> 0 <= B2R z <= 1073741824 ->
  X * B2R z <= 562949953421312 * B2R y ->
  let p := fmul (fdiv x y) z in
  is_finite p = true /\ Rabs (B2R p - X * B2R z / B2R y) <= / 4.
Proof.
  intros x y z X Fx Fz BX Bx0 Hx By Bz HE p.
  set (xv := B2R x) in *. set (Y := B2R y) in *. set (Z := B2R z) in *.
  pose proof bpow100_val as Hbig.
  assert (Yi : 0 < / Y <= 1).
  { split; [apply Rinv_0_lt_compat; lra|]. rewrite <- Rinv_1. apply Rinv_le_contravar; lra. }
  assert (YY : Y * / Y = 1) by (apply Rinv_r; lra).
  apply Rabs_le_inv in Hx.
  assert (Bxv : xv <= 9007199254740994) by lra.
  (* exact quotient A, computed quotient a *)
  assert (HA : exists A, A = X * / Y) by (eexists; reflexivity). destruct HA as [A HA].
  assert (Ha : exists a, a = xv * / Y) by (eexists; reflexivity). destruct Ha as [a Ha].
  assert (BA : 0 <= A <= 9007199254740992).
  { rewrite HA. split; [apply Rmult_le_pos; lra|]. nra. }
  assert (Ba : 0 <= a <= 9007199254740994).
  { rewrite Ha. split; [apply Rmult_le_pos; lra|]. nra. }
  assert (Da : - (/ 9007199254740992 * A + / 18446744073709551616) <= a - A
               <= / 9007199254740992 * A + / 18446744073709551616).
  { pose proof (Rmult_le_compat_r (/ Y) _ _ (Rlt_le _ _ (proj1 Yi)) (proj1 Hx)) as L.
    pose proof (Rmult_le_compat_r (/ Y) _ _ (Rlt_le _ _ (proj1 Yi)) (proj2 Hx)) as U.
    rewrite HA, Ha. lra. }
  assert (HE' : exists E, E = A * Z) by (eexists; reflexivity). destruct HE' as [E HE'].
  assert (BE : 0 <= E <= 562949953421312).
  { rewrite HE'. split; [apply Rmult_le_pos; lra|].
    pose proof (Rmult_le_compat_r (/ Y) _ _ (Rlt_le _ _ (proj1 Yi)) HE) as H.
    rewrite HA. lra. }
  destruct (fdiv_correct x y Fx) as [Hq Fq].
  - fold Y. lra.
  - fold xv Y. unfold Rdiv. rewrite <- Ha. rewrite Rabs_pos_eq; lra.
  - set (q := fdiv x y) in *. fold xv Y in Hq. unfold Rdiv in Hq. rewrite <- Ha in Hq.
    pose proof (RN_err a) as E1. rewrite <- Hq in E1. rewrite (Rabs_pos_eq a) in E1 by lra.
    set (Q := B2R q) in *. apply Rabs_le_inv in E1.
    assert (Eb : - (/ 8 + / 2048) <= Q * Z - E <= / 8 + / 2048).
    { pose proof (Rmult_le_compat_r Z _ _ (proj1 Bz) (proj1 E1)) as L1.
      pose proof (Rmult_le_compat_r Z _ _ (proj1 Bz) (proj2 E1)) as U1.
      pose proof (Rmult_le_compat_r Z _ _ (proj1 Bz) (proj1 Da)) as L2.
      pose proof (Rmult_le_compat_r Z _ _ (proj1 Bz) (proj2 Da)) as U2.
      rewrite HE'. rewrite HE' in BE. lra. }
    assert (Hb : exists b, b = Q * Z) by (eexists; reflexivity). destruct Hb as [b Hb].
    rewrite <- Hb in Eb.
    destruct (fmul_correct q z Fq Fz) as [Hp Fp].
    + fold Q Z. rewrite <- Hb. rewrite Hbig. apply Rabs_le. lra.
    + fold p in Hp, Fp. fold Q Z in Hp. rewrite <- Hb in Hp. split; [exact Fp|].
      replace (X * Z / Y) with E by (rewrite HE', HA; field; lra).
      pose proof (RN_err b) as E2. rewrite <- Hp in E2.
      assert (Bb : Rabs b <= 562949953421313) by (apply Rabs_le; lra).
      set (W := Rabs b) in *. apply Rabs_le_inv in E2. apply Rabs_le. lra.
Qed.

Lemma muldiv3_err : forall (x y z : f64) (X : R),
  is_finite x = true -> is_finite z = true ->
  0 <= X <= 9007199254740992 -> 0 <= B2R x ->
  Rabs (B2R x - X) <= / 9007199254740992 * X + / 18446744073709551616 ->
  1 <= B2R y -> 0 <= B2R z <= 1073741824 ->
  X * B2R z <= 562949953421312 * B2R y ->
  let p := fdiv (fmul x z) y in
  is_finite p = true /\ Rabs (B2R p - X * B2R z / B2R y) <= / 4.
Proof.
  intros x y z X Fx Fz BX Bx0 Hx By Bz HE p.
  set (xv := B2R x) in *. set (Y := B2R y) in *. set (Z := B2R z) in *.
  pose proof bpow100_val as Hbig.
  assert (Yi : 0 < / Y <= 1).
  { split; [apply Rinv_0_lt_compat; lra|]. rewrite <- Rinv_1. apply Rinv_le_contravar; lra. }
  assert (YY : Y * / Y = 1) by (apply Rinv_r; lra).
  apply Rabs_le_inv in Hx.
  assert (Bxv : xv <= 9007199254740994) by lra.
  (* exact product PX, computed product P *)
  assert (HPX : exists PX, PX = X * Z) by (eexists; reflexivity). destruct HPX as [PX HPX].
  assert (HP : exists P, P = xv * Z) by (eexists; reflexivity). destruct HP as [P HP].
  assert (BPX : 0 <= PX <= 9671406556917033397649408).
  { rewrite HPX. split; [apply Rmult_le_pos; lra|]. nra. }
  assert (BP : 0 <= P <= 9671406556917035545133056).
  { rewrite HP. split; [apply Rmult_le_pos; lra|]. nra. }
  assert (DP : - (/ 9007199254740992 * PX + / 18446744073709551616 * Z) <= P - PX
               <= / 9007199254740992 * PX + / 18446744073709551616 * Z).
  { pose proof (Rmult_le_compat_r Z _ _ (proj1 Bz) (proj1 Hx)) as L.
    pose proof (Rmult_le_compat_r Z _ _ (proj1 Bz) (proj2 Hx)) as U.
    rewrite HPX, HP. lra. }
  assert (HE' : exists E, E = PX * / Y) by (eexists; reflexivity). destruct HE' as [E HE'].
  assert (BE : 0 <= E <= 562949953421312).
  { rewrite HE'. split; [apply Rmult_le_pos; lra|].
    pose proof (Rmult_le_compat_r (/ Y) _ _ (Rlt_le _ _ (proj1 Yi)) HE) as H.
    rewrite HPX. lra. }
  assert (ZYi : 0 <= Z * / Y <= 1073741824).
  { split; [apply Rmult_le_pos; lra|]. nra. }
  destruct (fmul_correct x z Fx Fz) as [Hq Fq].
  - fold xv Z. rewrite <- HP. rewrite Hbig. rewrite Rabs_pos_eq; lra.
  - set (q := fmul x z) in *. fold xv Z in Hq. rewrite <- HP in Hq.
    pose proof (RN_err P) as E1. rewrite <- Hq in E1. rewrite (Rabs_pos_eq P) in E1 by lra.
    set (Q := B2R q) in *. apply Rabs_le_inv in E1.
    assert (Eb : - (/ 8 + / 2048) <= Q * / Y - E <= / 8 + / 2048).
    { pose proof (Rmult_le_compat_r (/ Y) _ _ (Rlt_le _ _ (proj1 Yi)) (proj1 E1)) as L1.
      pose proof (Rmult_le_compat_r (/ Y) _ _ (Rlt_le _ _ (proj1 Yi)) (proj2 E1)) as U1.
      pose proof (Rmult_le_compat_r (/ Y) _ _ (Rlt_le _ _ (proj1 Yi)) (proj1 DP)) as L2.
      pose proof (Rmult_le_compat_r (/ Y) _ _ (Rlt_le _ _ (proj1 Yi)) (proj2 DP)) as U2.
      rewrite HE'. rewrite HE' in BE. lra. }
    assert (Hb : exists b, b = Q * / Y) by (eexists; reflexivity). destruct Hb as [b Hb].
    rewrite <- Hb in Eb.
    destruct (fdiv_correct q y Fq) as [Hp Fp].
    + fold Y. lra.
    + fold Q Y. unfold Rdiv. rewrite <- Hb. rewrite Hbig. apply Rabs_le. lra.
    + fold p in Hp, Fp. fold Q Y in Hp. unfold Rdiv in Hp. rewrite <- Hb in Hp. split; [exact Fp|].
      replace (X * Z / Y) with E by (rewrite HE', HPX; field; lra).
      pose proof (RN_err b) as E2. rewrite <- Hp in E2.
      assert (Bb : Rabs b <= 562949953421313) by (apply Rabs_le; lra).
      set (W := Rabs b) in *. apply Rabs_le_inv in E2. apply Rabs_le. lra.
Qed.

(* ---------------------------------------------------------------- *)
(* the theorems                                                       *)

(* what the three-rounding lemmas need to know about the parsed value *)
Lemma parse_dec_facts : forall ip fp,
  let n := dec_mant ip fp in let den := (10 ^ Z.of_nat (length fp))%Z in
  (0 < n < 2 ^ 53)%Z -> (length fp <= 22)%nat ->
  let X := IZR n / IZR den in
  (0 < den)%Z /\ is_finite (parse_dec ip fp) = true /\ 0 <= X <= 9007199254740992 /\
  0 <= B2R (parse_dec ip fp) /\
  Rabs (B2R (parse_dec ip fp) - X) <= / 9007199254740992 * X + / 18446744073709551616.
Proof.
  intros ip fp n den Hn Hfp X.
  assert (Hk : (0 <= Z.of_nat (length fp) <= 22)%Z) by lia.
  destruct (of_Z_pow10 _ Hk) as [_ [_ Hd3]]. fold den in Hd3.
  destruct (parse_dec_val ip fp) as [Hv Fv]; [fold n; lia | exact Hfp |].
  fold n den X in Hv.
  pose proof (IZR_lt53 n ltac:(lia)) as Bn.
  assert (Yi : 0 < / IZR den <= 1).
  { split; [apply Rinv_0_lt_compat; lra|]. rewrite <- Rinv_1. apply Rinv_le_contravar; lra. }
  assert (BX : 0 <= X <= 9007199254740992).
  { unfold X, Rdiv. split; [apply Rmult_le_pos; lra|]. nra. }
  split; [apply lt_IZR; lra|]. split; [exact Fv|]. split; [exact BX|].
  rewrite Hv. split.
  - apply RN_nonneg. lra.
  - pose proof (RN_err X) as H. rewrite (Rabs_pos_eq X) in H by lra. exact H.
Qed.

Theorem frames_val_correct : forall ip fp fr,
  let n := dec_mant ip fp in let den := (10 ^ Z.of_nat (length fp))%Z in
  (0 < n < 2 ^ 53)%Z -> (length fp <= 22)%nat -> (0 < fr < 2 ^ 53)%Z ->
  (n * second_ns < 2 ^ 49 * (den * fr))%Z ->
  denotes_instant (frames_val_term (parse_dec ip fp) fr) (n * second_ns) (den * fr).
Proof.
  intros ip fp fr n den Hn Hfp Hfr Hb. pose proof second_ns_bound as Hs.
  destruct (parse_dec_facts ip fp Hn Hfp) as [Hden [Fv [BX [Bv Ev]]]].
  fold n den in Hden, BX, Ev.
  assert (HD : 0 < IZR den) by (apply IZR_lt; exact Hden).
  assert (HF : 1 <= IZR fr) by (apply IZR_le; lia).
  destruct (of_Z_correct fr) as [Hr1 Hr2]; [lia|].
  destruct (of_Z_correct second_ns) as [Hs1 Hs2]; [lia|].
  unfold frames_val_term.
  destruct (divmul3_err (parse_dec ip fp) (of_Z fr) (of_Z second_ns) (IZR n / IZR den))
    as [Fp Ep].
  - exact Fv.
  - exact Hs2.
  - exact BX.
  - exact Bv.
  - exact Ev.
  - rewrite Hr1. exact HF.
  - rewrite Hs1. unfold second_ns. lra.
  - rewrite Hr1, Hs1.
    pose proof (IZR_bound49 _ _ _ Hb) as H. rewrite mult_IZR in H.
    apply Rmult_le_reg_r with (IZR den); [exact HD|].
    replace (IZR n / IZR den * IZR second_ns * IZR den) with (IZR n * IZR second_ns)
      by (field; lra).
    lra.
  - rewrite Hr1, Hs1 in Ep. apply denotes_of_err; [lia | exact Fp |].
    rewrite !mult_IZR.
    replace (IZR n * IZR second_ns / (IZR den * IZR fr))
      with (IZR n / IZR den * IZR second_ns / IZR fr) by (field; lra).
    exact Ep.
Qed.

Theorem ticks_val_correct : forall ip fp tr,
  let n := dec_mant ip fp in let den := (10 ^ Z.of_nat (length fp))%Z in
  (0 < n < 2 ^ 53)%Z -> (length fp <= 22)%nat -> (0 < tr < 2 ^ 53)%Z ->
  (n * second_ns < 2 ^ 49 * (den * tr))%Z ->
  denotes_instant (ticks_val_term (parse_dec ip fp) tr) (n * second_ns) (den * tr).
Proof.
  intros ip fp tr n den Hn Hfp Htr Hb. pose proof second_ns_bound as Hs.
  destruct (parse_dec_facts ip fp Hn Hfp) as [Hden [Fv [BX [Bv Ev]]]].
  fold n den in Hden, BX, Ev.
  assert (HD : 0 < IZR den) by (apply IZR_lt; exact Hden).
  assert (HF : 1 <= IZR tr) by (apply IZR_le; lia).
  destruct (of_Z_correct tr) as [Hr1 Hr2]; [lia|].
  destruct (of_Z_correct second_ns) as [Hs1 Hs2]; [lia|].
  unfold ticks_val_term.
  destruct (muldiv3_err (parse_dec ip fp) (of_Z tr) (of_Z second_ns) (IZR n / IZR den))
    as [Fp Ep].
  - exact Fv.
  - exact Hs2.
  - exact BX.
  - exact Bv.
  - exact Ev.
  - rewrite Hr1. exact HF.
  - rewrite Hs1. unfold second_ns. lra.
  - rewrite Hr1, Hs1.
    pose proof (IZR_bound49 _ _ _ Hb) as H. rewrite mult_IZR in H.
    apply Rmult_le_reg_r with (IZR den); [exact HD|].
    replace (IZR n / IZR den * IZR second_ns * IZR den) with (IZR n * IZR second_ns)
      by (field; lra).
    lra.
  - rewrite Hr1, Hs1 in Ep. apply denotes_of_err; [lia | exact Fp |].
    rewrite !mult_IZR.
    replace (IZR n * IZR second_ns / (IZR den * IZR tr))
      with (IZR n / IZR den * IZR second_ns / IZR tr) by (field; lra).
    exact Ep.
Qed.

Print Assumptions fpos_fzero.
Print Assumptions parse_dec_fpos.
Print Assumptions parse_dec_zero.
Print Assumptions frames_val_correct.
Print Assumptions ticks_val_correct.
