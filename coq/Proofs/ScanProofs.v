(* C17: the tokens of the line scanner, and the blocks of the STL reader, do not depend on the
   delivery schedule. *)
From Coq Require Import List NArith Bool Arith Lia.
From Astisub Require Import Kit.Base Kit.Scan.
Import ListNotations.
Open Scope N_scope.

Lemma span_app_brk buf tok c r more :
  span_nobrk buf = (tok, c :: r) -> span_nobrk (buf ++ more) = (tok, (c :: r) ++ more).
Proof.
  revert tok c r. induction buf as [|x xs IH]; intros tok c r H; cbn [span_nobrk app] in *.
  - discriminate.
  - destruct (is_brk x) eqn:Hx.
    + inversion H; subst. reflexivity.
    + destruct (span_nobrk xs) as [a b] eqn:E. inversion H; subst.
      rewrite (IH a c r eq_refl). reflexivity.
Qed.

Lemma span_length s tok rest : span_nobrk s = (tok, rest) -> (length tok + length rest = length s)%nat.
Proof.
  revert tok rest. induction s as [|x xs IH]; intros tok rest H; cbn [span_nobrk] in *.
  - inversion H; reflexivity.
  - destruct (is_brk x).
    + inversion H; subst; cbn [length]; lia.
    + destruct (span_nobrk xs) as [a b] eqn:E. inversion H; subst. cbn [length]. specialize (IH a rest eq_refl). lia.
Qed.

Lemma span_concat s tok rest : span_nobrk s = (tok, rest) -> s = tok ++ rest.
Proof.
  revert tok rest. induction s as [|x xs IH]; intros tok rest H; cbn [span_nobrk] in *.
  - inversion H; reflexivity.
  - destruct (is_brk x).
    + inversion H; subst. reflexivity.
    + destruct (span_nobrk xs) as [a b] eqn:E. inversion H; subst. cbn [app]. f_equal. apply IH. reflexivity.
Qed.

Lemma span_tok_nobrk s tok rest : span_nobrk s = (tok, rest) -> forallb (fun c => negb (is_brk c)) tok = true.
Proof.
  revert tok rest. induction s as [|x xs IH]; intros tok rest H; cbn [span_nobrk] in *.
  - inversion H; reflexivity.
  - destruct (is_brk x) eqn:Hx.
    + inversion H; subst. reflexivity.
    + destruct (span_nobrk xs) as [a b] eqn:E. inversion H; subst. cbn [forallb]. rewrite Hx. cbn [negb andb]. eapply IH. reflexivity.
Qed.

Lemma split_shrinks s b tok rest : split s b = Some (tok, rest) -> (length rest < length s)%nat.
Proof.
  unfold split. destruct s as [|x xs]; [discriminate|].
  destruct (span_nobrk (x :: xs)) as [t r] eqn:E. pose proof (span_length _ _ _ E) as HL.
  destruct r as [|c r].
  - destruct b; [|discriminate]. intros H; inversion H; subst; cbn [length] in *; lia.
  - destruct (c =? LF).
    + intros H; inversion H; subst. cbn [length] in *. lia.
    + destruct r as [|c2 r2].
      * destruct b; [|discriminate]. intros H; inversion H; subst; cbn [length] in *; lia.
      * destruct (c2 =? LF); intros H; inversion H; subst; cbn [length] in *; lia.
Qed.

(* stability: a decision taken before end of input is the decision taken on any extension *)
Lemma split_stable buf tok b' more :
  split buf false = Some (tok, b') -> split (buf ++ more) true = Some (tok, b' ++ more).
Proof.
  unfold split. destruct buf as [|x xs]; [discriminate|].
  destruct (span_nobrk (x :: xs)) as [t r] eqn:E.
  destruct r as [|c r]; [discriminate|].
  change ((x :: xs) ++ more) with (x :: (xs ++ more)).
  change (x :: (xs ++ more)) with ((x :: xs) ++ more).
  rewrite (span_app_brk _ _ _ _ more E). cbn [app].
  destruct (c =? LF).
  - intros H; inversion H; subst. reflexivity.
  - destruct r as [|c2 r2]; [discriminate|]. cbn [app].
    destruct (c2 =? LF); intros H; inversion H; subst; reflexivity.
Qed.

Lemma split_stable_false buf tok b' more :
  split buf false = Some (tok, b') -> split (buf ++ more) false = Some (tok, b' ++ more).
Proof.
  unfold split. destruct buf as [|x xs]; [discriminate|].
  destruct (span_nobrk (x :: xs)) as [t r] eqn:E.
  destruct r as [|c r]; [discriminate|].
  change ((x :: xs) ++ more) with (x :: (xs ++ more)).
  change (x :: (xs ++ more)) with ((x :: xs) ++ more).
  rewrite (span_app_brk _ _ _ _ more E). cbn [app].
  destruct (c =? LF).
  - intros H; inversion H; subst. reflexivity.
  - destruct r as [|c2 r2]; [discriminate|]. cbn [app].
    destruct (c2 =? LF); intros H; inversion H; subst; reflexivity.
Qed.

Lemma lines_fuel_enough n m s : (length s < n)%nat -> (length s < m)%nat -> lines_fuel n s = lines_fuel m s.
Proof.
  revert m s. induction n as [|n IH]; intros m s Hn Hm; [lia|].
  destruct m as [|m]; [lia|]. cbn [lines_fuel].
  destruct (split s true) as [[tok rest]|] eqn:E; [|reflexivity].
  pose proof (split_shrinks _ _ _ _ E). f_equal. apply IH; lia.
Qed.

Lemma lines_unfold s tok rest : split s true = Some (tok, rest) -> lines s = tok :: lines rest.
Proof.
  intros E. unfold lines at 1. cbn [lines_fuel]. rewrite E. f_equal.
  pose proof (split_shrinks _ _ _ _ E). unfold lines. apply lines_fuel_enough; lia.
Qed.

Lemma lines_none s : split s true = None -> lines s = [].
Proof. intros H. unfold lines. cbn [lines_fuel]. rewrite H. reflexivity. Qed.

Lemma lines_nil : lines [] = []. Proof. reflexivity. Qed.

(* the abstract scanner delivers exactly [lines] of the whole input, whatever the read sizes *)
Theorem scan_abs_lines : forall fuel counts buf rest,
  (length buf + length rest + length counts < fuel)%nat ->
  scan_abs fuel buf rest counts = lines (buf ++ rest).
Proof.
  induction fuel as [|f IH]; intros counts buf rest Hf; [lia|].
  cbn [scan_abs]. destruct counts as [|k cs].
  - destruct (split (buf ++ rest) true) as [[tok b']|] eqn:E.
    + pose proof (split_shrinks _ _ _ _ E) as Hs. rewrite app_length in Hs.
      rewrite (lines_unfold _ _ _ E). f_equal.
      rewrite IH by (cbn [length] in *; lia). rewrite app_nil_r. reflexivity.
    + symmetry. apply lines_none. exact E.
  - destruct (split buf false) as [[tok b']|] eqn:E.
    + pose proof (split_stable _ _ _ rest E) as E2.
      pose proof (split_shrinks _ _ _ _ E) as Hs.
      rewrite (lines_unfold _ _ _ E2). f_equal.
      apply IH. cbn [length] in *; lia.
    + rewrite IH.
      * rewrite <- app_assoc, firstn_skipn. reflexivity.
      * rewrite app_length. pose proof (firstn_skipn k rest) as Hfs.
        assert (length (firstn k rest) + length (skipn k rest) = length rest)%nat by (rewrite <- app_length, Hfs; reflexivity).
        cbn [length] in *; lia.
Qed.

Theorem scan_lines data counts : scan data counts = lines data.
Proof. unfold scan. rewrite scan_abs_lines by (cbn [length]; lia). reflexivity. Qed.

Corollary scan_schedule_independent data counts counts' : scan data counts = scan data counts'.
Proof. rewrite !scan_lines. reflexivity. Qed.

Lemma split_of_span s b tok rest : span_nobrk s = (tok, rest) -> s <> [] ->
  split s b = match rest with
              | [] => if b then Some (tok, []) else None
              | c :: r => if c =? LF then Some (tok, r)
                          else match r with
                               | [] => if b then Some (tok, []) else None
                               | c2 :: r2 => if c2 =? LF then Some (tok, r2) else Some (tok, r)
                               end
              end.
Proof. intros E Hne. unfold split. destruct s; [contradiction|]. rewrite E. reflexivity. Qed.

Lemma app_cons_nonnil {A} (a : list A) x b : a ++ x :: b <> [].
Proof. destruct a; discriminate. Qed.

(* what [lines] is: the text cut at every LF, CRLF or lone CR *)
Lemma lines_cons_lf tok rest : forallb (fun c => negb (is_brk c)) tok = true ->
  lines (tok ++ LF :: rest) = tok :: lines rest.
Proof.
  intros H. apply lines_unfold.
  assert (E : span_nobrk (tok ++ LF :: rest) = (tok, LF :: rest)).
  { induction tok as [|c t IH]; [reflexivity|]. cbn [forallb] in H. apply andb_true_iff in H. destruct H as [Hc Ht].
    apply negb_true_iff in Hc. cbn [app span_nobrk]. rewrite Hc, (IH Ht). reflexivity. }
  rewrite (split_of_span _ _ _ _ E (app_cons_nonnil _ _ _)). reflexivity.
Qed.

Lemma lines_cons_crlf tok rest : forallb (fun c => negb (is_brk c)) tok = true ->
  lines (tok ++ CR :: LF :: rest) = tok :: lines rest.
Proof.
  intros H. apply lines_unfold.
  assert (E : span_nobrk (tok ++ CR :: LF :: rest) = (tok, CR :: LF :: rest)).
  { induction tok as [|c t IH]; [reflexivity|]. cbn [forallb] in H. apply andb_true_iff in H. destruct H as [Hc Ht].
    apply negb_true_iff in Hc. cbn [app span_nobrk]. rewrite Hc, (IH Ht). reflexivity. }
  rewrite (split_of_span _ _ _ _ E (app_cons_nonnil _ _ _)). reflexivity.
Qed.

Lemma lines_cons_cr tok c rest : forallb (fun c => negb (is_brk c)) tok = true -> c <> LF ->
  lines (tok ++ CR :: c :: rest) = tok :: lines (c :: rest).
Proof.
  intros H Hc. apply lines_unfold.
  assert (E : span_nobrk (tok ++ CR :: c :: rest) = (tok, CR :: c :: rest)).
  { induction tok as [|x t IH]; [reflexivity|]. cbn [forallb] in H. apply andb_true_iff in H. destruct H as [Hx Ht].
    apply negb_true_iff in Hx. cbn [app span_nobrk]. rewrite Hx, (IH Ht). reflexivity. }
  rewrite (split_of_span _ _ _ _ E (app_cons_nonnil _ _ _)).
  change (CR =? LF) with false. cbv iota. destruct (c =? LF) eqn:E1; [apply N.eqb_eq in E1; contradiction | reflexivity].
Qed.

Lemma lines_last tok : tok <> [] -> forallb (fun c => negb (is_brk c)) tok = true -> lines tok = [tok].
Proof.
  intros Hne H. assert (E : span_nobrk tok = (tok, [])).
  { clear Hne. induction tok as [|c t IH]; [reflexivity|]. cbn [forallb] in H. apply andb_true_iff in H. destruct H as [Hc Ht].
    apply negb_true_iff in Hc. cbn [span_nobrk]. rewrite Hc, (IH Ht). reflexivity. }
  rewrite (lines_unfold tok tok []); [rewrite lines_nil; reflexivity|].
  rewrite (split_of_span _ _ _ _ E Hne). reflexivity.
Qed.

(* ---- STL block reader ---- *)
Lemma read_n_fuel_ok : forall fuel n acc data counts,
  (length counts < fuel)%nat -> (n <= length acc + length data)%nat ->
  exists cs, read_n_fuel fuel n acc data counts =
             RnOk (acc ++ firstn (n - length acc) data) (skipn (n - length acc) data) cs.
Proof.
  induction fuel as [|f IH]; intros n acc data counts Hf Hn; [lia|].
  cbn [read_n_fuel]. destruct (Nat.leb n (length acc)) eqn:E.
  - apply Nat.leb_le in E. replace (n - length acc)%nat with 0%nat by lia. cbn [firstn skipn]. rewrite app_nil_r. eauto.
  - apply Nat.leb_gt in E. destruct counts as [|k cs].
    + assert (L : length (acc ++ firstn (n - length acc) data) = n).
      { rewrite app_length, firstn_length. lia. }
      rewrite L, Nat.leb_refl. eauto.
    + set (k' := Nat.min k (n - length acc)).
      destruct (IH n (acc ++ firstn k' data) (skipn k' data) cs) as (cs' & R).
      * cbn [length] in Hf. lia.
      * rewrite app_length, firstn_length, skipn_length. lia.
      * exists cs'. rewrite R. rewrite app_length, firstn_length.
        assert (Hk : (Nat.min k' (length data) = k')%nat \/ (length data < k')%nat) by lia.
        destruct Hk as [Hk|Hk].
        -- rewrite Hk. rewrite <- app_assoc. f_equal.
           ++ f_equal. replace (n - length acc)%nat with (k' + (n - (length acc + k')))%nat by (unfold k'; lia).
              rewrite firstn_plus. reflexivity.
           ++ rewrite skipn_plus. f_equal. unfold k'. lia.
        -- exfalso. unfold k' in *. lia.
Qed.

(* a block that is completely present is returned whole, whatever the read sizes *)
Theorem read_n_full n data counts : (n <= length data)%nat ->
  exists cs, read_n n data counts = RnOk (firstn n data) (skipn n data) cs.
Proof.
  intros H. unfold read_n.
  destruct (read_n_fuel_ok (S (length counts)) n [] data counts ltac:(lia) ltac:(cbn [length]; lia)) as (cs & R).
  exists cs. rewrite R. cbn [length app]. rewrite Nat.sub_0_r. reflexivity.
Qed.
