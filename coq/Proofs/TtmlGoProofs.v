(* The cross-cutting TTML theorems restated on the writer bytes as Go produces them ([write_ttml_bytes_go]: EscapeText
   modelled exactly), so that they are true of the library and not only of the byte-wise model (second audit, N4). *)
From Coq Require Import List ZArith NArith Bool Arith Lia Permutation.
From Astisub Require Import Kit.Base Kit.Str Kit.Xml Kit.XmlParse Kit.XmlEsc Kit.SortOrd Kit.IOW Model.Dur Model.Ttml
  Model.TtmlGo Model.TtmlOpt Proofs.TtmlBase Proofs.TtmlSpec Proofs.TtmlDocSpec Proofs.TtmlIO Proofs.TtmlLegal
  Proofs.TtmlOptProofs Proofs.TtmlBytes.
Import ListNotations.

(* C19: no clock, no iteration order; the tables may be listed in any order *)
Theorem write_ttml_bytes_go_perm ind meta items st st' rg rg' :
  Permutation st st' -> Permutation rg rg' -> NoDup (map fst st) -> NoDup (map fst rg) ->
  write_ttml_bytes_go ind (mkDoc meta st rg items) = write_ttml_bytes_go ind (mkDoc meta st' rg' items).
Proof.
  intros Hs Hr Ns Nr. unfold write_ttml_bytes_go, write_ttml. cbn [td_items td_meta td_styles td_regions].
  rewrite (sort_keys_perm st st' Hs Ns), (sort_keys_perm rg rg' Hr Nr). reflexivity.
Qed.
(* C08 *)
Theorem write_ttml_bytes_go_total ind d : no_panic (write_ttml_bytes_go ind d).
Proof.
  intros s. unfold write_ttml_bytes_go. destruct (write_ttml d) as [t|k|s'] eqn:E; cbn [bind]; try discriminate.
  exfalso. exact (write_ttml_total d s' E).
Qed.
(* C18: any cut of Go's bytes into checked Write calls *)
Section TtmlWritesGo.
  Variable cut : str -> list str.
  Hypothesis cut_concat : forall s, concat (cut s) = s.
  Definition write_ttml_to_go (ind : str) (d : tdoc) (dst : dest) : res nat :=
    match write_ttml_bytes_go ind d with
    | Ok doc => run_writes (cut doc) dst 0
    | Err k => Err k
    | Panic p => Panic p
    end.
  Theorem write_ttml_go_fault ind d doc k : write_ttml_bytes_go ind d = Ok doc -> (k < length doc)%nat ->
    write_ttml_to_go ind d (fail_at k) = Err EIO.
  Proof. intros H Hk. unfold write_ttml_to_go. rewrite H. apply writes_fault. unfold total. rewrite cut_concat. exact Hk. Qed.
  Theorem write_ttml_go_complete ind d doc : write_ttml_bytes_go ind d = Ok doc -> write_ttml_to_go ind d ok_dest = Ok (length doc).
  Proof. intros H. unfold write_ttml_to_go. rewrite H, writes_complete. unfold total. rewrite cut_concat. reflexivity. Qed.
End TtmlWritesGo.

(* C13: legality survives Optimize (it only drops table entries) *)
Lemma forallb_filter {A} (p q : A -> bool) l : forallb p l = true -> forallb p (filter q l) = true.
Proof.
  intros H. apply forallb_forall. intros x Hx. apply filter_In in Hx. destruct Hx as [Hx _].
  rewrite forallb_forall in H. exact (H x Hx).
Qed.
Theorem ttml_optimize_legal d : legal_doc d = true -> legal_doc (ttml_optimize d) = true.
Proof.
  unfold ttml_optimize. destruct (td_items d) as [|it its] eqn:E; [exact (fun H => H)|].
  unfold legal_doc. cbn [td_meta td_styles td_regions td_items]. rewrite E. intros H.
  rewrite !andb_true_iff in H. destruct H as [[[Hm Hs] Hr] Hi].
  rewrite !andb_true_iff. repeat split; try assumption; apply forallb_filter; assumption.
Qed.
(* the optimized list can still be written (Go's bytes) and is read back with the same cues *)
Theorem ttml_optimize_cues_go : forall d ind, repr_doc d = true -> legal_doc d = true -> indent_ok ind = true ->
  exists b t b' t',
    write_ttml_bytes_go ind d = Ok b /\ xml_parse b = Some t /\ read_ttml t = Ok (written_value d) /\
    write_ttml_bytes_go ind (ttml_optimize d) = Ok b' /\ xml_parse b' = Some t' /\
    read_ttml t' = Ok (written_value (ttml_optimize d)) /\
    td_items (written_value (ttml_optimize d)) = td_items (written_value d) /\
    td_meta (written_value (ttml_optimize d)) = td_meta (written_value d).
Proof.
  intros d ind Hr Hl Hi. destruct (ttml_optimize_cues d ind Hr Hi) as (b & t & b' & t' & H1 & H2 & H3 & H4 & H5 & H6 & H7 & H8).
  exists b, t, b', t'.
  rewrite (write_ttml_bytes_go_legal d ind Hr Hl).
  rewrite (write_ttml_bytes_go_legal (ttml_optimize d) ind (ttml_optimize_repr d Hr) (ttml_optimize_legal d Hl)).
  repeat split; assumption.
Qed.
Print Assumptions write_ttml_bytes_go_perm.
Print Assumptions write_ttml_bytes_go_total.
Print Assumptions write_ttml_go_fault.
Print Assumptions ttml_optimize_cues_go.
