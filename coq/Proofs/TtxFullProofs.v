(* teletextFullReader (Model/TtxFull.v): whatever the delivery schedule, the demuxer receives the one-shot sequence of
   buffers (C17); a failure at offset k surfaces from the Read that would cross offset k, after exactly the k bytes (C18). *)
From Coq Require Import List NArith Bool Arith Lia.
From Astisub Require Import Kit.Base Kit.Str Kit.Scan Model.TtxFull.
Import ListNotations.
Local Open Scope nat_scope.

Lemma tf_firstn_add {A} : forall a b (l : list A), firstn (a + b) l = firstn a l ++ firstn b (skipn a l).
Proof. induction a as [|a IH]; intros b l; [reflexivity|]. destruct l as [|x l]; [cbn; rewrite firstn_nil; reflexivity|]. cbn. rewrite IH. reflexivity. Qed.
Lemma tf_skipn_add {A} : forall a b (l : list A), skipn b (skipn a l) = skipn (a + b) l.
Proof. induction a as [|a IH]; intros b l; [reflexivity|]. destruct l as [|x l]; [cbn; rewrite skipn_nil; reflexivity|]. cbn. apply IH. Qed.

(* one filled request, as a function of what was accumulated and what remains *)
Definition tf_spec_one (acc avail : str) (e : tf_sig) (n : nat) : str * option tf_sig * str :=
  let need := n - length acc in
  if Nat.leb need (length avail) then (acc ++ firstn need avail, None, skipn need avail)
  else (acc ++ avail, tf_final e (acc ++ avail), []).
Lemma tf_spec_step acc avail e n want : want <= n - length acc -> want <= length avail ->
  tf_spec_one (acc ++ firstn want avail) (skipn want avail) e n = tf_spec_one acc avail e n.
Proof.
  intros H1 H2. unfold tf_spec_one. rewrite app_length, firstn_length_le, skipn_length by exact H2.
  replace (n - (length acc + want)) with (n - length acc - want) by lia. set (need := n - length acc) in *.
  destruct (Nat.leb need (length avail)) eqn:E.
  - apply Nat.leb_le in E. replace (Nat.leb (need - want) (length avail - want)) with true by (symmetry; apply Nat.leb_le; lia).
    rewrite <- app_assoc, <- tf_firstn_add, tf_skipn_add. replace (want + (need - want)) with need by lia. reflexivity.
  - apply Nat.leb_gt in E. replace (Nat.leb (need - want) (length avail - want)) with false by (symmetry; apply Nat.leb_gt; lia).
    rewrite <- app_assoc, firstn_skipn. reflexivity.
Qed.

(* steps io.ReadFull still needs: none when the buffer is full; otherwise one per remaining count, then at most two (the
   rest arrives; the end signal) *)
Definition tf_meas (counts : list nat) (avail : str) (need : nat) : nat :=
  match need with 0 => 0 | _ => length counts + match avail with [] => 1 | _ => 2 end end.
Lemma tf_fill_spec : forall fuel s n acc, tf_meas (tf_counts s) (tf_avail s) (n - length acc) <= fuel ->
  exists cs', length cs' <= length (tf_counts s) /\
    tf_fill fuel s n acc = let '(b, sg, av) := tf_spec_one acc (tf_avail s) (tf_end s) n in Some (b, sg, mkTfs av cs' (tf_end s) (tf_with s)).
Proof.
  induction fuel as [|fuel IH]; intros s n acc Hf; destruct s as [avail counts e w]; cbn [tf_avail tf_counts tf_end tf_with] in *.
  - (* no step needed: the buffer is full *)
    assert (En : n <= length acc) by (unfold tf_meas in Hf; destruct (n - length acc) eqn:E; [lia | destruct avail; lia]).
    exists counts. split; [lia|]. cbn [tf_fill]. replace (Nat.leb n (length acc)) with true by (symmetry; apply Nat.leb_le; exact En).
    unfold tf_spec_one. replace (n - length acc) with 0 by lia. cbn [Nat.leb firstn skipn]. rewrite app_nil_r. reflexivity.
  - cbn [tf_fill]. destruct (Nat.leb n (length acc)) eqn:En.
    + apply Nat.leb_le in En. exists counts. split; [lia|]. unfold tf_spec_one. replace (n - length acc) with 0 by lia.
      cbn [Nat.leb firstn skipn]. rewrite app_nil_r. reflexivity.
    + apply Nat.leb_gt in En. unfold tf_read. cbn [tf_avail tf_counts tf_end tf_with]. destruct avail as [|a av] eqn:Ea.
      * exists counts. split; [lia|]. rewrite app_nil_r. replace (Nat.leb n (length acc)) with false by (symmetry; apply Nat.leb_gt; lia).
        unfold tf_spec_one. replace (Nat.leb (n - length acc) (length (@nil N))) with false by (symmetry; apply Nat.leb_gt; cbn; lia).
        rewrite app_nil_r. reflexivity.
      * rewrite <- Ea in *. assert (Hne : avail <> []) by (subst avail; discriminate).
        assert (Hm : length counts + 2 <= S fuel).
        { unfold tf_meas in Hf. destruct (n - length acc) eqn:E; [lia|]. rewrite Ea in Hf. exact Hf. }
        clear Ea a av Hf.
        set (c := match counts with k :: _ => k | [] => length avail end).
        set (want := Nat.min c (Nat.min (n - length acc) (length avail))).
        assert (Hw1 : want <= n - length acc) by (unfold want; lia). assert (Hw2 : want <= length avail) by (unfold want; lia).
        destruct (Nat.eqb want (length avail) && w) eqn:Ew.
        -- apply andb_true_iff in Ew. destruct Ew as [Ew ->]. apply Nat.eqb_eq in Ew.
           exists (tl counts). split; [destruct counts; cbn; lia|].
           rewrite <- (tf_spec_step acc avail e n want Hw1 Hw2). unfold tf_spec_one.
           rewrite Ew, firstn_all, skipn_all. cbn [length].
           destruct (Nat.leb n (length (acc ++ avail))) eqn:E2.
           ++ apply Nat.leb_le in E2. replace (Nat.leb (n - length (acc ++ avail)) 0) with true by (symmetry; apply Nat.leb_le; lia).
              replace (n - length (acc ++ avail)) with 0 by lia. cbn [firstn skipn]. rewrite app_nil_r. reflexivity.
           ++ apply Nat.leb_gt in E2. replace (Nat.leb (n - length (acc ++ avail)) 0) with false by (symmetry; apply Nat.leb_gt; lia).
              rewrite app_nil_r. reflexivity.
        -- (* no signal with these bytes: go on *)
           destruct (IH (mkTfs (skipn want avail) (tl counts) e w) n (acc ++ firstn want avail)) as (cs' & Hl & Hr).
           { cbn [tf_counts tf_avail]. rewrite app_length, firstn_length_le by exact Hw2. unfold tf_meas.
             destruct (n - (length acc + want)) eqn:E; [lia|]. destruct counts as [|k cs]; cbn [tl length] in *.
             - (* no count left: all that is left arrived *)
               assert (want = length avail) by (unfold want, c; lia). subst want. rewrite H, skipn_all. lia.
             - destruct (skipn want avail); lia. }
           cbn [tf_avail tf_counts tf_end tf_with] in Hr, Hl. exists cs'. split; [destruct counts; cbn [tl length] in *; lia|].
           rewrite Hr, (tf_spec_step acc avail e n want Hw1 Hw2). reflexivity.
Qed.
Lemma tf_full_read_spec s n : exists cs', length cs' <= length (tf_counts s) /\
  tf_full_read s n = Some (if Nat.leb n (length (tf_avail s)) then (firstn n (tf_avail s), None, mkTfs (skipn n (tf_avail s)) cs' (tf_end s) (tf_with s))
                           else (tf_avail s, tf_final (tf_end s) (tf_avail s), mkTfs [] cs' (tf_end s) (tf_with s))).
Proof.
  destruct (tf_fill_spec (length (tf_counts s) + 2) s n []) as (cs' & Hl & Hr).
  { unfold tf_meas. destruct (n - length (@nil N)); [lia | destruct (tf_avail s); lia]. }
  exists cs'. split; [exact Hl|]. unfold tf_full_read. rewrite Hr. unfold tf_spec_one. cbn [length app]. rewrite Nat.sub_0_r.
  destruct (Nat.leb n (length (tf_avail s))); reflexivity.
Qed.

(* every schedule: the one-shot sequence *)
Theorem tf_reads_oneshot : forall ns s, tf_reads s ns = Some (tf_oneshot (tf_avail s) (tf_end s) ns).
Proof.
  induction ns as [|n r IH]; intros s; [reflexivity|]. cbn [tf_reads tf_oneshot].
  destruct (tf_full_read_spec s n) as (cs' & _ & Hr). rewrite Hr.
  destruct (Nat.leb n (length (tf_avail s))); rewrite IH; reflexivity.
Qed.
Theorem ttx_full_reads : forall data counts w ns, tf_reads (tf_of data SEof counts w) ns = Some (tf_oneshot data TfEOF ns).
Proof. intros. apply tf_reads_oneshot. Qed.
Corollary ttx_full_reads_schedule_free : forall data c1 w1 c2 w2 ns, tf_reads (tf_of data SEof c1 w1) ns = tf_reads (tf_of data SEof c2 w2) ns.
Proof. intros. rewrite !ttx_full_reads. reflexivity. Qed.
(* while bytes remain every request is filled, and the buffers put together are the stream *)
Lemma tf_oneshot_bytes : forall ns avail e, list_sum ns <= length avail ->
  concat (map fst (tf_oneshot avail e ns)) = firstn (list_sum ns) avail /\ Forall (fun x => snd x = None) (tf_oneshot avail e ns) /\
  map (fun x => length (fst x)) (tf_oneshot avail e ns) = ns.
Proof.
  induction ns as [|n r IH]; intros avail e H; [split; [reflexivity | split; [constructor | reflexivity]]|]. change (list_sum (n :: r)) with (n + list_sum r) in *. cbn [tf_oneshot].
  replace (Nat.leb n (length avail)) with true by (symmetry; apply Nat.leb_le; lia).
  destruct (IH (skipn n avail) e) as (H1 & H2 & H3); [rewrite skipn_length; lia|]. cbn [map concat fst snd]. rewrite H1, H3.
  split; [rewrite tf_firstn_add; reflexivity|]. split; [constructor; [reflexivity | exact H2]|]. rewrite firstn_length_le by lia. reflexivity.
Qed.

(* a failure at offset k *)
Theorem ttx_fault_reads : forall data k counts w ns, k <= length data ->
  tf_reads (tf_of data (SFail k) counts w) ns = Some (tf_oneshot (firstn k data) TfFault ns).
Proof.
  intros data k counts w ns H. unfold tf_of. replace (Nat.leb k (length data)) with true by (symmetry; apply Nat.leb_le; exact H).
  apply tf_reads_oneshot.
Qed.
(* it surfaces from the Read that would cross the offset: the reads before it are filled and report nothing, it returns the
   bytes up to the offset with the failure, nothing beyond the offset is ever delivered *)
Lemma tf_oneshot_fault : forall ns avail, length avail < list_sum ns ->
  exists pre b post, tf_oneshot avail TfFault ns = pre ++ (b, Some TfFault) :: post /\
                     Forall (fun x => snd x = None) pre /\ concat (map fst pre) ++ b = avail /\ Forall (fun x => fst x = []) post.
Proof.
  induction ns as [|n r IH]; intros avail H; [cbn in H; lia|]. change (list_sum (n :: r)) with (n + list_sum r) in *. cbn [tf_oneshot].
  destruct (Nat.leb n (length avail)) eqn:E.
  - apply Nat.leb_le in E. destruct (IH (skipn n avail)) as (pre & b & post & H1 & H2 & H3 & H4); [rewrite skipn_length; lia|].
    exists ((firstn n avail, None) :: pre), b, post. rewrite H1. split; [reflexivity|]. split; [constructor; [reflexivity | exact H2]|].
    split; [|exact H4]. cbn [map concat fst]. rewrite <- app_assoc, H3. apply firstn_skipn.
  - exists [], avail, (tf_oneshot [] TfFault r). split; [reflexivity|]. split; [constructor|]. split; [reflexivity|].
    clear. induction r as [|m r IH]; [constructor|]. cbn [tf_oneshot]. destruct (Nat.leb m (length (@nil N))) eqn:E.
    + constructor; [cbn; apply firstn_nil | rewrite skipn_nil; exact IH].
    + constructor; [reflexivity | exact IH].
Qed.
Theorem ttx_fault_propagates : forall data k counts w ns, k <= length data -> k < list_sum ns ->
  exists pre b post, tf_reads (tf_of data (SFail k) counts w) ns = Some (pre ++ (b, Some TfFault) :: post) /\
                     Forall (fun x => snd x = None) pre /\ concat (map fst pre) ++ b = firstn k data /\ Forall (fun x => fst x = []) post.
Proof.
  intros data k counts w ns H1 H2. rewrite (ttx_fault_reads data k counts w ns H1).
  destruct (tf_oneshot_fault ns (firstn k data)) as (pre & b & post & E & P); [rewrite firstn_length_le; lia|].
  exists pre, b, post. rewrite E. split; [reflexivity | exact P].
Qed.
(* and a fault the demuxer never reaches is never seen *)
Theorem ttx_fault_unreached : forall data k counts w ns, k <= length data -> list_sum ns <= k ->
  tf_reads (tf_of data (SFail k) counts w) ns = tf_reads (tf_of data SEof counts w) ns.
Proof.
  intros data k counts w ns H1 H2. rewrite (ttx_fault_reads data k counts w ns H1), ttx_full_reads. revert data k H1 H2.
  induction ns as [|n r IH]; intros data k H1 H2; [reflexivity|]. change (list_sum (n :: r)) with (n + list_sum r) in *. cbn [tf_oneshot].
  rewrite firstn_length_le by exact H1. replace (Nat.leb n k) with true by (symmetry; apply Nat.leb_le; lia).
  replace (Nat.leb n (length data)) with true by (symmetry; apply Nat.leb_le; lia).
  rewrite firstn_firstn. replace (Nat.min n k) with n by lia. do 2 f_equal.
  replace (skipn n (firstn k data)) with (firstn (k - n) (skipn n data)).
  - assert (E : Some (tf_oneshot (firstn (k - n) (skipn n data)) TfFault r) = Some (tf_oneshot (skipn n data) TfEOF r)) by (apply IH; [rewrite skipn_length; lia | lia]).
    injection E as E'. exact E'.
  - rewrite firstn_skipn_comm. replace (n + (k - n)) with k by lia. reflexivity.
Qed.
