(* EBU STL, GSI block: the READING half, for every rendering of a block the parser accepts (not only the writer's).

     Theorem parse_rendered_gsi f g : gsi_forms_ok f g ->
       length (render_gsi f g) = 1024 /\ parse_gsi (render_gsi f g) = Ok g.

   [render_gsi f g] lays the 30 fields of the block out in their byte positions; [f : gsi_forms] picks, field by
   field, one of the renderings the reader accepts:
     - a number field of k characters: zero padded ("007"), blank padded on the left ("  7") or on the right
       ("7  "), or all blank when the value is 0;
     - the two one-character numbers: a digit, or a blank when 0;
     - a timecode: the eight digits HHMMSSFF, or all blank when 0;
     - a text field: any number of blanks in front of the text, blanks behind it up to the width;
     - the 75 spare bytes 373..447: anything; the user-defined area (448..1023) is a text field of 576 characters.
   The binary fields (code page number, character code table), the disk format code and the dates (six digits, or
   blank for the zero date) have one rendering.  [gsi_forms_ok] collects the side conditions (values in range,
   texts unchanged by TrimSpace and fitting behind their leading blanks); [gsi_forms_okb] decides them.
   [render_gsi_writer]: with [writer_forms] the rendering is the writer's block [gsi_bytes g]. *)
From Coq Require Import List ZArith NArith Bool Lia ZifyBool ZifyN ZifyNat.
From Astisub Require Import Kit.Base Kit.Str Kit.Utf8 Model.Dur Model.Stl Gen.StlTables Proofs.DurProofs Proofs.StlBlocks
  Proofs.StlGsi Proofs.StlRows.
Import ListNotations.
Open Scope Z_scope.

(* ================= renderings of one field ================= *)
Inductive numform := NZeroPad | NSpaceLeft | NSpaceRight | NBlankZero.
(* k-character number field holding v *)
Definition render_num (f : numform) (k : nat) (v : Z) : str :=
  match f with
  | NZeroPad => pad_left 48%N k (itoa_z v)          (* 007 *)
  | NSpaceLeft => pad_left 32%N k (itoa_z v)        (* "  7" *)
  | NSpaceRight => pad_right 32%N k (itoa_z v)      (* "7  " *)
  | NBlankZero => repeat 32%N k                      (* all blank: only for v = 0 *)
  end.
Definition numform_ok (f : numform) (k : nat) (v : Z) : Prop := 0 <= v < 10 ^ Z.of_nat k /\ (f = NBlankZero -> v = 0).
(* w-character text field holding s, with [lead] blanks in front *)
Definition render_text (lead w : nat) (s : str) : str := pad_right 32%N w (repeat 32%N lead ++ s).
Definition text_ok (lead w : nat) (s : str) : Prop := (lead + length s <= w)%nat /\ trim_space s = s.
(* 8-character timecode field: HHMMSSFF digits, or all blank when the value is 0 and [blank] is chosen *)
Definition render_tc (blank : bool) (t fps : Z) : str := if blank then repeat 32%N 8 else format_stl t fps.
Definition tcform_ok (blank : bool) (t fps : Z) : Prop := tc_instant t fps /\ (blank = true -> t = 0).
(* one-character number: a digit, or a blank when 0 *)
Definition render_one (blank : bool) (v : Z) : str := if blank then [32%N] else itoa_z v.
Definition oneform_ok (blank : bool) (v : Z) : Prop := 0 <= v < 10 /\ (blank = true -> v = 0).

(* ---- text ---- *)
Lemma trim_space_lead lead t : trim_space (repeat 32%N lead ++ t) = trim_space t.
Proof. induction lead as [|n IH]; [reflexivity|]. cbn [repeat app]. rewrite trim_space_32. exact IH. Qed.

Theorem render_text_trim lead w s : trim_space s = s -> trim_space (render_text lead w s) = s.
Proof.
  intros H. unfold render_text, pad_right. rewrite <- app_assoc, trim_space_lead. apply trim_space_pad. exact H.
Qed.
Lemma render_text_length lead w s : (lead + length s <= w)%nat -> length (render_text lead w s) = w.
Proof. intros H. unfold render_text, pad_right. rewrite !app_length, !repeat_length. lia. Qed.

(* ---- padding that fits is not cut ---- *)
Lemma pad_right_cut_fit c n s : (length s <= n)%nat -> pad_right_cut c n s = pad_right c n s.
Proof. intros H. rewrite pad_right_cut_le by exact H. reflexivity. Qed.
Lemma pad_left_cut_fit c n s : (length s <= n)%nat -> pad_left_cut c n s = pad_left c n s.
Proof.
  intros H. unfold pad_left_cut. assert (E : Nat.ltb n (length s) = false) by (apply Nat.ltb_ge; exact H).
  rewrite E. reflexivity.
Qed.
Lemma pad_left_length c n s : (length s <= n)%nat -> length (pad_left c n s) = n.
Proof. intros H. unfold pad_left. rewrite app_length, repeat_length. lia. Qed.
Lemma pad_right_length c n s : (length s <= n)%nat -> length (pad_right c n s) = n.
Proof. intros H. unfold pad_right. rewrite app_length, repeat_length. lia. Qed.

(* ---- numbers ---- *)
Lemma itoa_fits k v : (0 < k)%nat -> 0 <= v < 10 ^ Z.of_nat k -> (length (itoa (Z.to_N v)) <= k)%nat.
Proof.
  intros Hk [H0 H1]. apply itoa_length_le; [exact Hk|].
  apply N2Z.inj_lt. rewrite N2Z.inj_pow, Z2N.id, nat_N_Z by exact H0. exact H1.
Qed.
Lemma pow10_le_int64 k v : (k <= 18)%nat -> 0 <= v < 10 ^ Z.of_nat k -> 0 <= v <= max_int64.
Proof.
  intros Hk [H0 H1]. unfold max_int64.
  assert (P : 10 ^ Z.of_nat k <= 10 ^ 18) by (apply Z.pow_le_mono_r; lia).
  change (10 ^ 18) with 1000000000000000000 in P. lia.
Qed.
Lemma itoa_trim n : trim_space (itoa n) = itoa n.
Proof. apply digits_trim; [apply itoa_digits | apply itoa_nonnil]. Qed.

(* a field that trims to the decimal digits of v *)
Lemma num_field_trimmed s v : 0 <= v <= max_int64 -> trim_space s = itoa (Z.to_N v) -> num_field s = Ok v.
Proof.
  intros Hv H. unfold num_field. rewrite H. pose proof (itoa_nonnil (Z.to_N v)) as Hne.
  destruct (itoa (Z.to_N v)) as [|c r] eqn:E; [contradiction|]. rewrite <- E.
  rewrite atoi_itoa by (rewrite Z2N.id; lia). rewrite Z2N.id by lia. reflexivity.
Qed.
Lemma num_field_blank k : num_field (repeat 32%N k) = Ok 0.
Proof. unfold num_field. rewrite trim_space_spaces. reflexivity. Qed.

Theorem render_num_field f k v : (0 < k <= 18)%nat -> numform_ok f k v -> num_field (render_num f k v) = Ok v.
Proof.
  intros Hk [Hv Hz]. pose proof (itoa_fits k v ltac:(lia) Hv) as HL.
  pose proof (pow10_le_int64 k v ltac:(lia) Hv) as Hm.
  destruct f; cbn [render_num].
  - rewrite <- pad_left_cut_fit by (rewrite itoa_z_nonneg by lia; exact HL). apply num_field_pad; assumption.
  - apply num_field_trimmed; [exact Hm|]. rewrite itoa_z_nonneg by lia. unfold pad_left.
    rewrite trim_space_lead. apply itoa_trim.
  - apply num_field_trimmed; [exact Hm|]. rewrite itoa_z_nonneg by lia. unfold pad_right.
    apply trim_space_pad. apply itoa_trim.
  - rewrite (Hz eq_refl). apply num_field_blank.
Qed.
Lemma render_num_length f k v : (0 < k)%nat -> numform_ok f k v -> length (render_num f k v) = k.
Proof.
  intros Hk [Hv Hz]. pose proof (itoa_fits k v Hk Hv) as HL. rewrite <- itoa_z_nonneg in HL by lia.
  destruct f; cbn [render_num];
    [apply pad_left_length; exact HL | apply pad_left_length; exact HL | apply pad_right_length; exact HL | apply repeat_length].
Qed.

(* ---- the one-character numbers, read as string(b[i]) ---- *)
Theorem render_one_field blank v : oneform_ok blank v ->
  num_field (utf8_encode_rune (nth 0 (render_one blank v) 0%N)) = Ok v.
Proof.
  intros [H Hz]. destruct blank.
  - rewrite (Hz eq_refl). vm_compute. reflexivity.
  - assert (C : v = 0 \/ v = 1 \/ v = 2 \/ v = 3 \/ v = 4 \/ v = 5 \/ v = 6 \/ v = 7 \/ v = 8 \/ v = 9) by lia.
    destruct C as [C|[C|[C|[C|[C|[C|[C|[C|[C|C]]]]]]]]]; subst v; vm_compute; reflexivity.
Qed.
Lemma render_one_length blank v : oneform_ok blank v -> length (render_one blank v) = 1%nat.
Proof.
  intros [H Hz]. destruct blank; [reflexivity|].
  assert (C : v = 0 \/ v = 1 \/ v = 2 \/ v = 3 \/ v = 4 \/ v = 5 \/ v = 6 \/ v = 7 \/ v = 8 \/ v = 9) by lia.
  destruct C as [C|[C|[C|[C|[C|[C|[C|[C|[C|C]]]]]]]]]; subst v; reflexivity.
Qed.

(* ---- dates ---- *)
Lemma date_ok_length d : date_ok d -> (length d <= 6)%nat.
Proof.
  intros [->|H]; [cbn [length]; lia|]. unfold date_valid in H. apply andb_true_iff in H. destruct H as [H _].
  apply andb_true_iff in H. destruct H as [HL _]. apply Nat.eqb_eq in HL. lia.
Qed.
Theorem render_date_field d : date_ok d -> date_field (pad_right 32%N 6 d) = Ok d.
Proof.
  intros H. rewrite <- pad_right_cut_fit by (apply date_ok_length; exact H). apply (date_field_pad d H).
Qed.

(* ---- timecodes ---- *)
Lemma format_stl_length t fps : (fps = 25 \/ fps = 30) -> tc_instant t fps -> length (format_stl t fps) = 8%nat.
Proof.
  intros Hfps (h & m & s & f & Hh & Hm & Hs & Hf & ->).
  assert (Hf' : 0 <= f < 100) by (destruct Hfps; subst fps; lia).
  unfold format_stl. rewrite (tc_fields h m s f fps Hfps Hh Hm Hs Hf).
  rewrite !app_length, (two_length_100 h Hh), (two_length_100 m ltac:(lia)), (two_length_100 s ltac:(lia)),
    (two_length_100 f Hf'). reflexivity.
Qed.
Theorem render_tc_field blank t fps : (fps = 25 \/ fps = 30) -> tcform_ok blank t fps ->
  tc_field (render_tc blank t fps) fps = Ok t.
Proof.
  intros Hfps [Hi Hz]. destruct blank; cbn [render_tc].
  - rewrite (Hz eq_refl). unfold tc_field. rewrite trim_space_spaces. reflexivity.
  - rewrite <- (pad_right_cut_exact stl_sp 8 (format_stl t fps) (format_stl_length t fps Hfps Hi)).
    apply tc_field_pad; assumption.
Qed.
Lemma render_tc_length blank t fps : (fps = 25 \/ fps = 30) -> tcform_ok blank t fps -> length (render_tc blank t fps) = 8%nat.
Proof. intros Hfps [Hi Hz]. destruct blank; cbn [render_tc]; [reflexivity | apply format_stl_length; assumption]. Qed.

(* ================= the block ================= *)
Record gsi_forms := mkGsiForms {
  gf_rn : numform; gf_tnb : numform; gf_tns : numform; gf_tng : numform; gf_mnc : numform; gf_mnr : numform;   (* widths 2 5 5 3 2 2 *)
  gf_tnd_blank : bool; gf_dsn_blank : bool;     (* the two one-character numbers: a digit, or a blank when 0 *)
  gf_tcp_blank : bool; gf_tcf_blank : bool;
  gf_lead : nat -> nat;                          (* blanks in front of text field number i (index in gsi_widths order) *)
  gf_spare : str                                 (* the 75 spare bytes 373..447: anything *)
}.

Definition render_fields (f : gsi_forms) (g : gsi) : list str :=
  [ [(g_cpn g / 65536) mod 256; (g_cpn g / 256) mod 256; g_cpn g mod 256]%N;
    pad_right_cut stl_sp 8 (match zlookup (g_fps g) stl_framerate_inv with Some x => x | None => [] end);
    render_text (gf_lead f 2) 1 (g_dsc g);
    [(g_cct g / 256) mod 256; g_cct g mod 256]%N;
    render_text (gf_lead f 4) 2 (g_lc g);
    render_text (gf_lead f 5) 32 (g_opt g); render_text (gf_lead f 6) 32 (g_oet g);
    render_text (gf_lead f 7) 32 (g_tpt g); render_text (gf_lead f 8) 32 (g_tet g);
    render_text (gf_lead f 9) 32 (g_tn g); render_text (gf_lead f 10) 32 (g_tcd g);
    render_text (gf_lead f 11) 16 (g_slr g);
    pad_right 32%N 6 (g_cd g); pad_right 32%N 6 (g_rd g);
    render_num (gf_rn f) 2 (g_rn g);
    render_num (gf_tnb f) 5 (g_tnb g); render_num (gf_tns f) 5 (g_tns g); render_num (gf_tng f) 3 (g_tng g);
    render_num (gf_mnc f) 2 (g_mnc g); render_num (gf_mnr f) 2 (g_mnr g);
    render_text (gf_lead f 20) 1 (g_tcs g);
    render_tc (gf_tcp_blank f) (g_tcp g) (g_fps g); render_tc (gf_tcf_blank f) (g_tcf g) (g_fps g);
    render_one (gf_tnd_blank f) (g_tnd g); render_one (gf_dsn_blank f) (g_dsn g);
    render_text (gf_lead f 25) 3 (g_co g);
    render_text (gf_lead f 26) 32 (g_pub g); render_text (gf_lead f 27) 32 (g_en g); render_text (gf_lead f 28) 32 (g_ecd g);
    gf_spare f ++ render_text (gf_lead f 29) 576 (g_uda g) ].
Definition render_gsi (f : gsi_forms) (g : gsi) : str := concat (render_fields f g).

Record gsi_forms_ok (f : gsi_forms) (g : gsi) : Prop := mkGsiFormsOk {
  fo_cct : (g_cct g < 65536)%N;
  fo_cpn : (g_cpn g < 16777216)%N;
  fo_fps : g_fps g = 25 \/ g_fps g = 30;
  fo_dsc : text_ok (gf_lead f 2) 1 (g_dsc g);
  fo_lc : text_ok (gf_lead f 4) 2 (g_lc g);
  fo_opt : text_ok (gf_lead f 5) 32 (g_opt g);
  fo_oet : text_ok (gf_lead f 6) 32 (g_oet g);
  fo_tpt : text_ok (gf_lead f 7) 32 (g_tpt g);
  fo_tet : text_ok (gf_lead f 8) 32 (g_tet g);
  fo_tn : text_ok (gf_lead f 9) 32 (g_tn g);
  fo_tcd : text_ok (gf_lead f 10) 32 (g_tcd g);
  fo_slr : text_ok (gf_lead f 11) 16 (g_slr g);
  fo_cd : date_ok (g_cd g);
  fo_rd : date_ok (g_rd g);
  fo_rn : numform_ok (gf_rn f) 2 (g_rn g);
  fo_tnb : numform_ok (gf_tnb f) 5 (g_tnb g);
  fo_tns : numform_ok (gf_tns f) 5 (g_tns g);
  fo_tng : numform_ok (gf_tng f) 3 (g_tng g);
  fo_mnc : numform_ok (gf_mnc f) 2 (g_mnc g);
  fo_mnr : numform_ok (gf_mnr f) 2 (g_mnr g);
  fo_tcs : text_ok (gf_lead f 20) 1 (g_tcs g);
  fo_tcp : tcform_ok (gf_tcp_blank f) (g_tcp g) (g_fps g);
  fo_tcf : tcform_ok (gf_tcf_blank f) (g_tcf g) (g_fps g);
  fo_tnd : 0 <= g_tnd g < 10 /\ (gf_tnd_blank f = true -> g_tnd g = 0);
  fo_dsn : 0 <= g_dsn g < 10 /\ (gf_dsn_blank f = true -> g_dsn g = 0);
  fo_co : text_ok (gf_lead f 25) 3 (g_co g);
  fo_pub : text_ok (gf_lead f 26) 32 (g_pub g);
  fo_en : text_ok (gf_lead f 27) 32 (g_en g);
  fo_ecd : text_ok (gf_lead f 28) 32 (g_ecd g);
  fo_uda : text_ok (gf_lead f 29) 576 (g_uda g);
  fo_spare : length (gf_spare f) = 75%nat
}.

(* ================= slices of any field list of the GSI widths ================= *)
Lemma length_concat_sum (fs : list str) : length (concat fs) = sum (map (@length N) fs).
Proof. induction fs as [|x fs IH]; [reflexivity|]. cbn [concat map sum]. rewrite app_length, IH. reflexivity. Qed.

Lemma fields_sl (fs : list str) i : map (@length N) fs = gsi_widths -> Nat.ltb i 30 = true ->
  stl_sl (sum (firstn i gsi_widths)) (nth i gsi_widths O) (concat fs) = nth i fs [].
Proof.
  intros W H. apply Nat.ltb_lt in H. rewrite <- split_at_nth by exact H.
  pose proof (split_at_concat fs) as E. rewrite W in E. rewrite E. reflexivity.
Qed.
Lemma fields_length (fs : list str) : map (@length N) fs = gsi_widths -> length (concat fs) = 1024%nat.
Proof. intros W. rewrite length_concat_sum, W. reflexivity. Qed.

Lemma render_fields_widths f g : gsi_forms_ok f g -> map (@length N) (render_fields f g) = gsi_widths.
Proof.
  intros [Rcct Rcpn Rfps [Ldsc _] [Llc _] [Lopt _] [Loet _] [Ltpt _] [Ltet _] [Ltn _] [Ltcd _]
    [Lslr _] Rcd Rrd Rrn Rtnb Rtns Rtng Rmnc Rmnr [Ltcs _] Rtcp Rtcf Rtnd Rdsn [Lco _] [Lpub _] [Len _] [Lecd _] [Luda _] Rsp].
  unfold render_fields. cbn [map]. rewrite app_length, Rsp.
  rewrite pad_right_cut_length.
  rewrite (render_text_length _ _ _ Ldsc), (render_text_length _ _ _ Llc), (render_text_length _ _ _ Lopt),
    (render_text_length _ _ _ Loet), (render_text_length _ _ _ Ltpt), (render_text_length _ _ _ Ltet),
    (render_text_length _ _ _ Ltn), (render_text_length _ _ _ Ltcd), (render_text_length _ _ _ Lslr),
    (render_text_length _ _ _ Ltcs), (render_text_length _ _ _ Lco), (render_text_length _ _ _ Lpub),
    (render_text_length _ _ _ Len), (render_text_length _ _ _ Lecd), (render_text_length _ _ _ Luda).
  rewrite (pad_right_length _ _ _ (date_ok_length _ Rcd)), (pad_right_length _ _ _ (date_ok_length _ Rrd)).
  rewrite (render_num_length _ 2 _ ltac:(lia) Rrn), (render_num_length _ 5 _ ltac:(lia) Rtnb),
    (render_num_length _ 5 _ ltac:(lia) Rtns), (render_num_length _ 3 _ ltac:(lia) Rtng),
    (render_num_length _ 2 _ ltac:(lia) Rmnc), (render_num_length _ 2 _ ltac:(lia) Rmnr).
  rewrite (render_tc_length _ _ _ Rfps Rtcp), (render_tc_length _ _ _ Rfps Rtcf).
  rewrite (render_one_length _ _ Rtnd), (render_one_length _ _ Rdsn).
  reflexivity.
Qed.

(* ================= the reading theorem ================= *)
Theorem parse_rendered_gsi f g : gsi_forms_ok f g ->
  length (render_gsi f g) = 1024%nat /\ parse_gsi (render_gsi f g) = Ok g.
Proof.
  intros R.
  assert (K2 : (0 < 2 <= 18)%nat) by lia. assert (K3 : (0 < 3 <= 18)%nat) by lia. assert (K5 : (0 < 5 <= 18)%nat) by lia.
  pose proof (render_fields_widths f g R) as W. unfold render_gsi.
  pose proof (fields_length _ W) as Lb. split; [exact Lb|].
  assert (S0 : stl_sl 0 3 (concat (render_fields f g)) = [(g_cpn g / 65536) mod 256; (g_cpn g / 256) mod 256; g_cpn g mod 256]%N)
    by exact (fields_sl _ 0 W eq_refl).
  assert (S1 : stl_sl 3 8 (concat (render_fields f g)) = pad_right_cut stl_sp 8 (match zlookup (g_fps g) stl_framerate_inv with Some x => x | None => [] end))
    by exact (fields_sl _ 1 W eq_refl).
  assert (S2 : stl_sl 11 1 (concat (render_fields f g)) = render_text (gf_lead f 2) 1 (g_dsc g)) by exact (fields_sl _ 2 W eq_refl).
  assert (S3 : stl_sl 12 2 (concat (render_fields f g)) = [(g_cct g / 256) mod 256; g_cct g mod 256]%N) by exact (fields_sl _ 3 W eq_refl).
  assert (S4 : stl_sl 14 2 (concat (render_fields f g)) = render_text (gf_lead f 4) 2 (g_lc g)) by exact (fields_sl _ 4 W eq_refl).
  assert (S5 : stl_sl 16 32 (concat (render_fields f g)) = render_text (gf_lead f 5) 32 (g_opt g)) by exact (fields_sl _ 5 W eq_refl).
  assert (S6 : stl_sl 48 32 (concat (render_fields f g)) = render_text (gf_lead f 6) 32 (g_oet g)) by exact (fields_sl _ 6 W eq_refl).
  assert (S7 : stl_sl 80 32 (concat (render_fields f g)) = render_text (gf_lead f 7) 32 (g_tpt g)) by exact (fields_sl _ 7 W eq_refl).
  assert (S8 : stl_sl 112 32 (concat (render_fields f g)) = render_text (gf_lead f 8) 32 (g_tet g)) by exact (fields_sl _ 8 W eq_refl).
  assert (S9 : stl_sl 144 32 (concat (render_fields f g)) = render_text (gf_lead f 9) 32 (g_tn g)) by exact (fields_sl _ 9 W eq_refl).
  assert (S10 : stl_sl 176 32 (concat (render_fields f g)) = render_text (gf_lead f 10) 32 (g_tcd g)) by exact (fields_sl _ 10 W eq_refl).
  assert (S11 : stl_sl 208 16 (concat (render_fields f g)) = render_text (gf_lead f 11) 16 (g_slr g)) by exact (fields_sl _ 11 W eq_refl).
  assert (S12 : stl_sl 224 6 (concat (render_fields f g)) = pad_right 32%N 6 (g_cd g)) by exact (fields_sl _ 12 W eq_refl).
  assert (S13 : stl_sl 230 6 (concat (render_fields f g)) = pad_right 32%N 6 (g_rd g)) by exact (fields_sl _ 13 W eq_refl).
  assert (S14 : stl_sl 236 2 (concat (render_fields f g)) = render_num (gf_rn f) 2 (g_rn g)) by exact (fields_sl _ 14 W eq_refl).
  assert (S15 : stl_sl 238 5 (concat (render_fields f g)) = render_num (gf_tnb f) 5 (g_tnb g)) by exact (fields_sl _ 15 W eq_refl).
  assert (S16 : stl_sl 243 5 (concat (render_fields f g)) = render_num (gf_tns f) 5 (g_tns g)) by exact (fields_sl _ 16 W eq_refl).
  assert (S17 : stl_sl 248 3 (concat (render_fields f g)) = render_num (gf_tng f) 3 (g_tng g)) by exact (fields_sl _ 17 W eq_refl).
  assert (S18 : stl_sl 251 2 (concat (render_fields f g)) = render_num (gf_mnc f) 2 (g_mnc g)) by exact (fields_sl _ 18 W eq_refl).
  assert (S19 : stl_sl 253 2 (concat (render_fields f g)) = render_num (gf_mnr f) 2 (g_mnr g)) by exact (fields_sl _ 19 W eq_refl).
  assert (S20 : stl_sl 255 1 (concat (render_fields f g)) = render_text (gf_lead f 20) 1 (g_tcs g)) by exact (fields_sl _ 20 W eq_refl).
  assert (S21 : stl_sl 256 8 (concat (render_fields f g)) = render_tc (gf_tcp_blank f) (g_tcp g) (g_fps g)) by exact (fields_sl _ 21 W eq_refl).
  assert (S22 : stl_sl 264 8 (concat (render_fields f g)) = render_tc (gf_tcf_blank f) (g_tcf g) (g_fps g)) by exact (fields_sl _ 22 W eq_refl).
  assert (S23 : stl_sl 272 1 (concat (render_fields f g)) = render_one (gf_tnd_blank f) (g_tnd g)) by exact (fields_sl _ 23 W eq_refl).
  assert (S24 : stl_sl 273 1 (concat (render_fields f g)) = render_one (gf_dsn_blank f) (g_dsn g)) by exact (fields_sl _ 24 W eq_refl).
  assert (S25 : stl_sl 274 3 (concat (render_fields f g)) = render_text (gf_lead f 25) 3 (g_co g)) by exact (fields_sl _ 25 W eq_refl).
  assert (S26 : stl_sl 277 32 (concat (render_fields f g)) = render_text (gf_lead f 26) 32 (g_pub g)) by exact (fields_sl _ 26 W eq_refl).
  assert (S27 : stl_sl 309 32 (concat (render_fields f g)) = render_text (gf_lead f 27) 32 (g_en g)) by exact (fields_sl _ 27 W eq_refl).
  assert (S28 : stl_sl 341 32 (concat (render_fields f g)) = render_text (gf_lead f 28) 32 (g_ecd g)) by exact (fields_sl _ 28 W eq_refl).
  assert (S29 : stl_sl 373 651 (concat (render_fields f g)) = gf_spare f ++ render_text (gf_lead f 29) 576 (g_uda g))
    by exact (fields_sl _ 29 W eq_refl).
  clear W. remember (concat (render_fields f g)) as b eqn:Eb. clear Eb.
  destruct R as [Rcct Rcpn Rfps [Ldsc Tdsc] [Llc Tlc] [Lopt Topt] [Loet Toet] [Ltpt Ttpt] [Ltet Ttet] [Ltn Ttn] [Ltcd Ttcd]
    [Lslr Tslr] Rcd Rrd Rrn Rtnb Rtns Rtng Rmnc Rmnr [Ltcs Ttcs] Rtcp Rtcf Rtnd Rdsn [Lco Tco] [Lpub Tpub] [Len Ten] [Lecd Tecd]
    [Luda Tuda] Rsp].
  (* single bytes *)
  pose proof (byte_at_slb 0 3 0 b eq_refl) as B0. rewrite S0 in B0. cbn [nth Nat.add] in B0.
  pose proof (byte_at_slb 0 3 1 b eq_refl) as B1. rewrite S0 in B1. cbn [nth Nat.add] in B1.
  pose proof (byte_at_slb 0 3 2 b eq_refl) as B2. rewrite S0 in B2. cbn [nth Nat.add] in B2.
  pose proof (byte_at_slb 12 2 0 b eq_refl) as B12. rewrite S3 in B12. cbn [nth Nat.add] in B12.
  pose proof (byte_at_slb 12 2 1 b eq_refl) as B13. rewrite S3 in B13. cbn [nth Nat.add] in B13.
  pose proof (byte_at_slb 272 1 0 b eq_refl) as B272. rewrite S23 in B272. cbn [Nat.add] in B272.
  pose proof (byte_at_slb 273 1 0 b eq_refl) as B273. rewrite S24 in B273. cbn [Nat.add] in B273.
  (* the user-defined area: everything from offset 448 *)
  assert (U : trim_space (skipn 448 b) = g_uda g).
  { assert (E : skipn 373 b = gf_spare f ++ render_text (gf_lead f 29) 576 (g_uda g)).
    { rewrite <- S29. unfold stl_sl. symmetry. apply firstn_all2. rewrite skipn_length, Lb. reflexivity. }
    change (skipn 448 b) with (skipn (373 + 75) b). rewrite <- skipn_plus, E, <- Rsp, skipn_length_app.
    apply render_text_trim. exact Tuda. }
  (* the text fields *)
  assert (T2 : trim_space (stl_sl 11 1 b) = g_dsc g) by (rewrite S2; apply render_text_trim; exact Tdsc).
  assert (T4 : trim_space (stl_sl 14 2 b) = g_lc g) by (rewrite S4; apply render_text_trim; exact Tlc).
  assert (T5 : trim_space (stl_sl 16 32 b) = g_opt g) by (rewrite S5; apply render_text_trim; exact Topt).
  assert (T6 : trim_space (stl_sl 48 32 b) = g_oet g) by (rewrite S6; apply render_text_trim; exact Toet).
  assert (T7 : trim_space (stl_sl 80 32 b) = g_tpt g) by (rewrite S7; apply render_text_trim; exact Ttpt).
  assert (T8 : trim_space (stl_sl 112 32 b) = g_tet g) by (rewrite S8; apply render_text_trim; exact Ttet).
  assert (T9 : trim_space (stl_sl 144 32 b) = g_tn g) by (rewrite S9; apply render_text_trim; exact Ttn).
  assert (T10 : trim_space (stl_sl 176 32 b) = g_tcd g) by (rewrite S10; apply render_text_trim; exact Ttcd).
  assert (T11 : trim_space (stl_sl 208 16 b) = g_slr g) by (rewrite S11; apply render_text_trim; exact Tslr).
  assert (T20 : trim_space (stl_sl 255 1 b) = g_tcs g) by (rewrite S20; apply render_text_trim; exact Ttcs).
  assert (T25 : trim_space (stl_sl 274 3 b) = g_co g) by (rewrite S25; apply render_text_trim; exact Tco).
  assert (T26 : trim_space (stl_sl 277 32 b) = g_pub g) by (rewrite S26; apply render_text_trim; exact Tpub).
  assert (T27 : trim_space (stl_sl 309 32 b) = g_en g) by (rewrite S27; apply render_text_trim; exact Ten).
  assert (T28 : trim_space (stl_sl 341 32 b) = g_ecd g) by (rewrite S28; apply render_text_trim; exact Tecd).
  unfold parse_gsi.
  rewrite S1, (dfc_field _ Rfps).
  rewrite S12, (render_date_field _ Rcd). cbn [bind].
  rewrite S13, (render_date_field _ Rrd). cbn [bind].
  rewrite S14, (render_num_field _ 2 _ K2 Rrn). cbn [bind].
  rewrite S15, (render_num_field _ 5 _ K5 Rtnb). cbn [bind].
  rewrite S16, (render_num_field _ 5 _ K5 Rtns). cbn [bind].
  rewrite S17, (render_num_field _ 3 _ K3 Rtng). cbn [bind].
  rewrite S18, (render_num_field _ 2 _ K2 Rmnc). cbn [bind].
  rewrite S19, (render_num_field _ 2 _ K2 Rmnr). cbn [bind].
  rewrite S21, (render_tc_field _ _ _ Rfps Rtcp). cbn [bind].
  rewrite S22, (render_tc_field _ _ _ Rfps Rtcf). cbn [bind].
  rewrite <- B272, (render_one_field _ _ Rtnd). cbn [bind].
  rewrite <- B273, (render_one_field _ _ Rdsn). cbn [bind].
  rewrite <- B0, <- B1, <- B2, <- B12, <- B13, (cct_bytes _ Rcct), (cpn_bytes _ Rcpn).
  rewrite T2, T4, T5, T6, T7, T8, T9, T10, T11, T20, T25, T26, T27, T28, U.
  destruct g. reflexivity.
Qed.

(* ================= a decidable form of the side conditions ================= *)
Definition text_okb (lead w : nat) (s : str) : bool := Nat.leb (lead + length s) w && str_eqb (trim_space s) s.
Definition numform_okb (f : numform) (k : nat) (v : Z) : bool :=
  rangeb 0 (10 ^ Z.of_nat k) v && match f with NBlankZero => v =? 0 | _ => true end.
Definition tcform_okb (blank : bool) (t fps : Z) : bool := tc_instantb t fps && (if blank then t =? 0 else true).
Definition oneform_okb (blank : bool) (v : Z) : bool := rangeb 0 10 v && (if blank then v =? 0 else true).

Lemma text_okb_sound lead w s : text_okb lead w s = true -> text_ok lead w s.
Proof.
  unfold text_okb, text_ok. intros H. apply andb_true_iff in H. destruct H as [H1 H2].
  split; [apply Nat.leb_le; exact H1 | apply str_eqb_eq; exact H2].
Qed.
Lemma numform_okb_sound f k v : numform_okb f k v = true -> numform_ok f k v.
Proof.
  unfold numform_okb, numform_ok. intros H. apply andb_true_iff in H. destruct H as [H1 H2].
  split; [apply rangeb_iff; exact H1|]. intros E. subst f. apply Z.eqb_eq. exact H2.
Qed.
Lemma tcform_okb_sound blank t fps : tcform_okb blank t fps = true -> tcform_ok blank t fps.
Proof.
  unfold tcform_okb, tcform_ok. intros H. apply andb_true_iff in H. destruct H as [H1 H2].
  split; [apply tc_instantb_sound; exact H1|]. intros E. subst blank. apply Z.eqb_eq. exact H2.
Qed.
Lemma oneform_okb_sound blank v : oneform_okb blank v = true -> 0 <= v < 10 /\ (blank = true -> v = 0).
Proof.
  unfold oneform_okb. intros H. apply andb_true_iff in H. destruct H as [H1 H2].
  split; [apply rangeb_iff; exact H1|]. intros E. subst blank. apply Z.eqb_eq. exact H2.
Qed.

Definition gsi_forms_okb (f : gsi_forms) (g : gsi) : bool :=
  (g_cct g <? 65536)%N && (g_cpn g <? 16777216)%N && ((g_fps g =? 25) || (g_fps g =? 30))
  && text_okb (gf_lead f 2) 1 (g_dsc g) && text_okb (gf_lead f 4) 2 (g_lc g)
  && text_okb (gf_lead f 5) 32 (g_opt g) && text_okb (gf_lead f 6) 32 (g_oet g)
  && text_okb (gf_lead f 7) 32 (g_tpt g) && text_okb (gf_lead f 8) 32 (g_tet g)
  && text_okb (gf_lead f 9) 32 (g_tn g) && text_okb (gf_lead f 10) 32 (g_tcd g)
  && text_okb (gf_lead f 11) 16 (g_slr g) && date_okb (g_cd g) && date_okb (g_rd g)
  && numform_okb (gf_rn f) 2 (g_rn g) && numform_okb (gf_tnb f) 5 (g_tnb g) && numform_okb (gf_tns f) 5 (g_tns g)
  && numform_okb (gf_tng f) 3 (g_tng g) && numform_okb (gf_mnc f) 2 (g_mnc g) && numform_okb (gf_mnr f) 2 (g_mnr g)
  && text_okb (gf_lead f 20) 1 (g_tcs g)
  && tcform_okb (gf_tcp_blank f) (g_tcp g) (g_fps g) && tcform_okb (gf_tcf_blank f) (g_tcf g) (g_fps g)
  && oneform_okb (gf_tnd_blank f) (g_tnd g) && oneform_okb (gf_dsn_blank f) (g_dsn g)
  && text_okb (gf_lead f 25) 3 (g_co g)
  && text_okb (gf_lead f 26) 32 (g_pub g) && text_okb (gf_lead f 27) 32 (g_en g) && text_okb (gf_lead f 28) 32 (g_ecd g)
  && text_okb (gf_lead f 29) 576 (g_uda g)
  && Nat.eqb (length (gf_spare f)) 75.

Theorem gsi_forms_okb_sound f g : gsi_forms_okb f g = true -> gsi_forms_ok f g.
Proof.
  unfold gsi_forms_okb. intros H.
  repeat match goal with H : _ && _ = true |- _ => apply andb_true_iff in H; destruct H end.
  constructor;
    first [ apply text_okb_sound; assumption | apply date_okb_iff; assumption | apply numform_okb_sound; assumption
          | apply tcform_okb_sound; assumption | apply oneform_okb_sound; assumption | apply N.ltb_lt; assumption
          | apply Nat.eqb_eq; assumption | idtac ].
  match goal with H : _ || _ = true |- _ => apply orb_true_iff in H; destruct H as [H|H]; apply Z.eqb_eq in H; [left | right]; exact H end.
Qed.
Corollary parse_rendered_gsi_b f g : gsi_forms_okb f g = true ->
  length (render_gsi f g) = 1024%nat /\ parse_gsi (render_gsi f g) = Ok g.
Proof. intros H. apply parse_rendered_gsi. apply gsi_forms_okb_sound. exact H. Qed.

(* ================= the writer's rendering ================= *)
Definition writer_forms : gsi_forms :=
  mkGsiForms NZeroPad NZeroPad NZeroPad NZeroPad NZeroPad NZeroPad false false false false (fun _ => O) (repeat 32%N 75).

Lemma render_text_writer w s : str_ok w s -> render_text 0 w s = pad_right_cut stl_sp w s.
Proof. intros [H _]. unfold render_text. cbn [repeat app]. symmetry. apply pad_right_cut_fit. exact H. Qed.
Lemma render_num_writer k v : (0 < k)%nat -> 0 <= v < 10 ^ Z.of_nat k -> render_num NZeroPad k v = pad_left_cut 48%N k (itoa_z v).
Proof.
  intros Hk Hv. cbn [render_num]. symmetry. apply pad_left_cut_fit. rewrite itoa_z_nonneg by lia. apply itoa_fits; assumption.
Qed.
Lemma render_one_writer v : 0 <= v < 10 -> render_one false v = pad_right_cut stl_sp 1 (itoa_z v).
Proof.
  intros H. cbn [render_one]. symmetry. apply pad_right_cut_exact.
  apply (render_one_length false v). split; [exact H | discriminate].
Qed.

Theorem render_gsi_writer g : gsi_repr g -> render_gsi writer_forms g = gsi_bytes g.
Proof.
  intros [Rcct Rcpn Rfps Rdsc Rlc Ropt Roet Rtpt Rtet Rtn Rtcd Rslr Rcd Rrd Rrn Rtnb Rtns Rtng Rmnc Rmnr Rtcs Rtcp Rtcf
          Rtnd Rdsn Rco Rpub Ren Recd Ruda].
  rewrite gsi_bytes_concat. unfold render_gsi. f_equal. unfold render_fields, gsi_fields, writer_forms.
  cbn [gf_rn gf_tnb gf_tns gf_tng gf_mnc gf_mnr gf_tnd_blank gf_dsn_blank gf_tcp_blank gf_tcf_blank gf_lead gf_spare].
  rewrite (render_text_writer _ _ Rdsc), (render_text_writer _ _ Rlc), (render_text_writer _ _ Ropt),
    (render_text_writer _ _ Roet), (render_text_writer _ _ Rtpt), (render_text_writer _ _ Rtet),
    (render_text_writer _ _ Rtn), (render_text_writer _ _ Rtcd), (render_text_writer _ _ Rslr),
    (render_text_writer _ _ Rtcs), (render_text_writer _ _ Rco), (render_text_writer _ _ Rpub),
    (render_text_writer _ _ Ren), (render_text_writer _ _ Recd).
  rewrite <- (pad_right_cut_fit 32%N 6 (g_cd g) (date_ok_length _ Rcd)), <- (pad_right_cut_fit 32%N 6 (g_rd g) (date_ok_length _ Rrd)).
  rewrite (render_num_writer 2 (g_rn g) ltac:(lia) Rrn), (render_num_writer 5 (g_tnb g) ltac:(lia) Rtnb),
    (render_num_writer 5 (g_tns g) ltac:(lia) Rtns), (render_num_writer 3 (g_tng g) ltac:(lia) Rtng),
    (render_num_writer 2 (g_mnc g) ltac:(lia) Rmnc), (render_num_writer 2 (g_mnr g) ltac:(lia) Rmnr).
  rewrite (render_one_writer _ Rtnd), (render_one_writer _ Rdsn).
  cbn [render_tc].
  rewrite (pad_right_cut_exact stl_sp 8 _ (format_stl_length _ _ Rfps Rtcp)),
    (pad_right_cut_exact stl_sp 8 _ (format_stl_length _ _ Rfps Rtcf)).
  rewrite Ruda. reflexivity.
Qed.
(* the writer's forms satisfy the side conditions on every representable block *)
Lemma writer_forms_ok g : gsi_repr g -> gsi_forms_ok writer_forms g.
Proof.
  intros [Rcct Rcpn Rfps Rdsc Rlc Ropt Roet Rtpt Rtet Rtn Rtcd Rslr Rcd Rrd Rrn Rtnb Rtns Rtng Rmnc Rmnr Rtcs Rtcp Rtcf
          Rtnd Rdsn Rco Rpub Ren Recd Ruda].
  constructor; cbn [writer_forms gf_rn gf_tnb gf_tns gf_tng gf_mnc gf_mnr gf_tnd_blank gf_dsn_blank gf_tcp_blank gf_tcf_blank gf_lead gf_spare];
    try assumption;
    try (split; [assumption | discriminate]).
  - rewrite Ruda. split; [cbn [length]; lia | reflexivity].
  - reflexivity.
Qed.

(* ================= an instance ================= *)
(* a block as another tool may write it: the revision number zero padded ("03"), the number of blocks blank padded on
   the left (" 1234"), the number of subtitles blank padded on the right ("412  "), the number of groups left blank
   (0), the disk counters a blank (0) and a digit, the programme start left blank (0), two blanks before the original
   programme title and three before the reference, notes in the user-defined area after one blank, and the spare
   bytes not blank. *)
Definition forms_ex : gsi_forms :=
  mkGsiForms NZeroPad NSpaceLeft NSpaceRight NBlankZero NSpaceLeft NZeroPad true false true false
    (fun i => match i with 5 => 2 | 11 => 3 | 29 => 1 | _ => 0 end)%nat
    (repeat 65%N 70 ++ [1;2;3;0;255]%N).
Definition gsi_ex2 : gsi :=
  mkGsi stl_c_cctLatin stl_c_codePageMultilingual [70;82;65]%N [50;52;48;49;51;49]%N 1 [49]%N
    [101;100;105;116;111;114;64;101;120;97;109;112;108;101;46;111;114;103]%N
    [69;100;105;116;111;114;32;78;97;109;101]%N 30 [48;70]%N 40 23
    [69;112;105;115;111;100;101;32;49;58;32;108;39;195;169;116;195;169]%N
    [195;137;116;195;169;32;105;110;100;105;101;110]%N
    [80;117;98;108;105;115;104;101;114]%N [50;52;48;50;50;57]%N 3 [82;69;70;45;48;48;48;49]%N
    36002500000000 0 [49]%N 0 0 412 1234
    [69;112;105;115;111;100;101;32;49;58;32;115;117;109;109;101;114]%N
    [73;110;100;105;97;110;32;83;117;109;109;101;114]%N
    [43;51;51;32;49;32;50;51;32;52;53;32;54;55;32;56;57]%N
    [84;114;97;110;115;108;97;116;111;114;32;78;97;109;101]%N
    [110;111;116;101;115;58;32;114;101;101;108;32;50]%N.

Example forms_ok_example : gsi_forms_ok forms_ex gsi_ex2.
Proof. apply gsi_forms_okb_sound. vm_compute. reflexivity. Qed.
Example parse_rendered_example :
  length (render_gsi forms_ex gsi_ex2) = 1024%nat /\ parse_gsi (render_gsi forms_ex gsi_ex2) = Ok gsi_ex2.
Proof. split; vm_compute; reflexivity. Qed.
(* the bytes of the rendering: the numeric/timecode area (offsets 236..273), the reference field, the end of the
   spare bytes and the beginning of the user-defined area *)
Example render_gsi_example :
  stl_sl 236 38 (render_gsi forms_ex gsi_ex2) =
    [48;51; 32;49;50;51;52; 52;49;50;32;32; 32;32;32; 52;48; 50;51; 49;
     32;32;32;32;32;32;32;32; 49;48;48;48;48;50;49;53; 32; 49]%N
  /\ stl_sl 208 16 (render_gsi forms_ex gsi_ex2) = [32;32;32;82;69;70;45;48;48;48;49;32;32;32;32;32]%N
  /\ stl_sl 441 14 (render_gsi forms_ex gsi_ex2) = [65;65;1;2;3;0;255; 32;110;111;116;101;115;58]%N
  /\ render_gsi forms_ex gsi_ex2 <> gsi_bytes gsi_ex2.
Proof. repeat split; try (vm_compute; reflexivity). vm_compute. discriminate. Qed.
(* the side conditions are needed: a number left blank that is not 0 does not come back *)
Example forms_not_ok_example :
  let g := mkGsi stl_c_cctLatin stl_c_codePageMultilingual [70;82;65]%N [] 1 [49]%N [] [] 25 [48;70]%N 40 23 [] [] [] [] 0 []
                 0 0 [49]%N 1 7 0 0 [] [] [] [] [] in
  gsi_forms_okb forms_ex g = false /\ parse_gsi (render_gsi forms_ex g) <> Ok g.
Proof. split; [vm_compute; reflexivity | vm_compute; discriminate]. Qed.
