(* SSA field codecs (Model/Ssa.v): booleans, integers, colours, floats in thousandths, times; cleanliness of
   every written cell. *)
From Coq Require Import List ZArith NArith Bool Lia Arith ZifyBool ZifyN ZifyNat.
From Astisub Require Import Kit.Base Kit.Str Kit.Scan Model.Dur Model.Ssa Proofs.DurProofs Proofs.VttBase.
Import ListNotations.
Open Scope N_scope.

Ltac Zify.zify_post_hook ::= Z.to_euclidean_division_equations.

Definition int_ok (v : Z) : Prop := (- max_int64 - 1 <= v <= max_int64)%Z.
Definition float_ok (z : Z) : Prop := (- float_bound < z < float_bound)%Z.
Definition color_ok (c : acolor) : Prop := ac_a c < 256 /\ ac_b c < 256 /\ ac_g c < 256 /\ ac_r c < 256.
Definition color_value (c : acolor) : Z := (Z.of_N (ac_a c) * 16777216 + Z.of_N (ac_b c) * 65536 + Z.of_N (ac_g c) * 256 + Z.of_N (ac_r c))%Z.
(* a cell made of plain ASCII bytes: no white space, no comma, no line break, no byte >= 128 *)
Definition cellb (c : N) : bool := plain_byte c && negb (c =? 44) && negb (is_brk c).
Definition cell_clean (s : str) : Prop := forallb cellb s = true.

Definition hex_upper (b : N) : N := if (97 <=? b) && (b <=? 102) then b - 32 else b.

(* ---------------------------------------------------------------- generic facts about clean cells *)
Lemma cellb_plain c : cellb c = true -> plain_byte c = true.
Proof. unfold cellb. intros H. destruct (plain_byte c); [reflexivity | discriminate H]. Qed.

Lemma cell_clean_in s c : cell_clean s -> In c s -> cellb c = true.
Proof. unfold cell_clean. intros H Hin. rewrite forallb_forall in H. exact (H c Hin). Qed.

Lemma cell_clean_nocomma s : cell_clean s -> ~ In 44 s.
Proof. intros H. apply (forallb_not_in cellb); [exact H | reflexivity]. Qed.

Lemma cell_clean_nobrk s : cell_clean s -> forallb (fun c => negb (is_brk c)) s = true.
Proof.
  intros H. apply forallb_forall. intros c Hc. pose proof (cell_clean_in s c H Hc) as B.
  unfold cellb in B. destruct (is_brk c); [|reflexivity].
  rewrite andb_false_r in B. discriminate B.
Qed.

Lemma cell_clean_app a b : cell_clean a -> cell_clean b -> cell_clean (a ++ b).
Proof. unfold cell_clean. intros Ha Hb. rewrite forallb_app, Ha, Hb. reflexivity. Qed.

Lemma cell_clean_cons c s : cellb c = true -> cell_clean s -> cell_clean (c :: s).
Proof. unfold cell_clean. intros Hc Hs. cbn [forallb]. rewrite Hc, Hs. reflexivity. Qed.

Lemma cell_clean_nil : cell_clean []. Proof. reflexivity. Qed.

Lemma cell_clean_trim s : cell_clean s -> trim_space s = s.
Proof.
  intros H. destruct s as [|c r]; [reflexivity|].
  apply trim_space_plain; [discriminate | |].
  - cbn [hd]. apply cellb_plain. apply (cell_clean_in _ c H). left. reflexivity.
  - apply cellb_plain. apply (cell_clean_in _ _ H).
    assert (Hne : c :: r <> []) by discriminate.
    destruct (@exists_last _ (c :: r) Hne) as (s' & z & E). rewrite E, last_last.
    apply in_or_app. right. left. reflexivity.
Qed.

Lemma is_digit_cellb c : is_digit c = true -> cellb c = true.
Proof.
  unfold is_digit, cellb, plain_byte, is_ascii_space, is_brk, CR, LF. intros H. lia.
Qed.

Lemma digits_clean s : digits s -> cell_clean s.
Proof.
  unfold digits, cell_clean. intros H. rewrite forallb_forall in *. intros c Hc. apply is_digit_cellb. exact (H c Hc).
Qed.

(* ---------------------------------------------------------------- the sign of a number *)
Definition sign_split (s : str) : bool * str :=
  match s with
  | 45 :: r => (true, r)
  | 43 :: r => (false, r)
  | _ => (false, s)
  end.

Lemma sign_split_other c r : c <> 45 -> c <> 43 -> sign_split (c :: r) = (false, c :: r).
Proof.
  intros H1 H2. unfold sign_split. destruct c as [|p]; [reflexivity|].
  do 8 (destruct p as [p|p|]; try reflexivity; try (exfalso; apply H1; reflexivity); try (exfalso; apply H2; reflexivity)).
Qed.

Lemma sign_split_digit c r : is_digit c = true -> sign_split (c :: r) = (false, c :: r).
Proof.
  intros H. apply sign_split_other; intros ->; discriminate H.
Qed.

Lemma atoi_sign s : atoi s =
  let '(neg, ds) := sign_split s in
  match atoi_digits ds with
  | None => None
  | Some n =>
    let v := if neg then (- Z.of_N n)%Z else Z.of_N n in
    if ((v <? - max_int64 - 1) || (max_int64 <? v))%Z then None else Some v
  end.
Proof. reflexivity. Qed.

(* ---------------------------------------------------------------- integers *)
Theorem atoi_itoa_z_all v : int_ok v -> atoi (itoa_z v) = Some v.
Proof.
  unfold int_ok. intros Hv. destruct v as [|p|p].
  - reflexivity.
  - apply atoi_itoa_z. lia.
  - rewrite atoi_sign. cbn [itoa_z]. change (sign_split (45 :: itoa (N.pos p))) with (true, itoa (N.pos p)).
    cbv iota beta. rewrite atoi_digits_itoa. cbv zeta iota beta.
    change (- Z.of_N (N.pos p))%Z with (Z.neg p).
    destruct ((Z.neg p <? - max_int64 - 1) || (max_int64 <? Z.neg p))%Z eqn:B; [|reflexivity].
    unfold max_int64 in *. lia.
Qed.

Theorem itoa_z_nonnil v : itoa_z v <> [].
Proof. destruct v; cbn [itoa_z]; [apply itoa_nonnil | apply itoa_nonnil | discriminate]. Qed.

Theorem itoa_z_clean v : cell_clean (itoa_z v).
Proof.
  destruct v; cbn [itoa_z]; try (apply digits_clean; apply itoa_digits).
  apply cell_clean_cons; [reflexivity | apply digits_clean; apply itoa_digits].
Qed.

(* ---------------------------------------------------------------- booleans *)
Theorem parse_bool_format b : parse_bool (format_bool b) = b.
Proof. destruct b; reflexivity. Qed.

Theorem parse_bool_int v : int_ok v -> parse_bool (itoa_z v) = negb (v =? 0)%Z.
Proof. intros H. unfold parse_bool. rewrite (atoi_itoa_z_all v H). reflexivity. Qed.

(* anything that is not an integer in the int64 range reads as false *)
Theorem parse_bool_junk s : atoi s = None -> parse_bool s = false.
Proof. intros H. unfold parse_bool. rewrite H. reflexivity. Qed.

Theorem format_bool_clean b : cell_clean (format_bool b).
Proof. destruct b; reflexivity. Qed.

Theorem format_bool_nonnil b : format_bool b <> [].
Proof. destruct b; discriminate. Qed.

(* ---------------------------------------------------------------- colours *)
(* finite sweeps over N *)
Lemma sweep_N (P : N -> bool) (k : nat) : forallb P (map N.of_nat (seq 0 k)) = true ->
  forall n, n < N.of_nat k -> P n = true.
Proof.
  intros H n Hn. rewrite forallb_forall in H. apply H. apply in_map_iff. exists (N.to_nat n).
  split; [apply N2Nat.id | apply in_seq; lia].
Qed.

(* a rendering of the 16 nibbles that strconv.ParseInt(_, 16, _) reads back *)
Definition nibble_ok (f : N -> N) : Prop := forall n, n < 16 -> hex_val (f n) = Some n.

Lemma nibble_ok_sweep f :
  forallb (fun n => opt_eqb (hex_val (f n)) (Some n)) (map N.of_nat (seq 0 16)) = true -> nibble_ok f.
Proof.
  intros Sw n Hn. pose proof (sweep_N _ 16 Sw n Hn) as E. cbv beta in E. unfold opt_eqb in E.
  destruct (hex_val (f n)) as [m|]; [apply N.eqb_eq in E; congruence | discriminate E].
Qed.

Lemma nibble_ok_lower : nibble_ok hex_digit.
Proof. apply nibble_ok_sweep. vm_compute. reflexivity. Qed.
Lemma nibble_ok_upper : nibble_ok (fun n => hex_upper (hex_digit n)).
Proof. apply nibble_ok_sweep. vm_compute. reflexivity. Qed.

Definition hex2f (f : N -> N) (v : N) : str := [f ((v / 16) mod 16); f (v mod 16)].
Definition color_stringf (f : N -> N) (c : acolor) : str :=
  hex2f f (ac_a c) ++ hex2f f (ac_b c) ++ hex2f f (ac_g c) ++ hex2f f (ac_r c).

Lemma color_string_f c : color_string c = color_stringf hex_digit c.
Proof. reflexivity. Qed.
Lemma color_string_upper_f c : map hex_upper (color_string c) = color_stringf (fun n => hex_upper (hex_digit n)) c.
Proof. reflexivity. Qed.

Lemma hex_digits_hex2f f acc v r : nibble_ok f -> v < 256 ->
  hex_digits acc (hex2f f v ++ r) = hex_digits (acc * 256 + v) r.
Proof.
  intros Hf Hv. unfold hex2f. cbn [app hex_digits].
  rewrite (Hf ((v / 16) mod 16)) by (apply N.mod_lt; discriminate).
  rewrite (Hf (v mod 16)) by (apply N.mod_lt; discriminate).
  f_equal. lia.
Qed.

Lemma hex_digits_color f c : nibble_ok f -> color_ok c ->
  hex_digits 0 (color_stringf f c) = Some (Z.to_N (color_value c)).
Proof.
  intros Hf (Ha & Hb & Hg & Hr). unfold color_stringf, color_value.
  rewrite <- (app_nil_r (hex2f f (ac_r c))).
  rewrite !(hex_digits_hex2f f) by assumption. cbn [hex_digits]. f_equal. lia.
Qed.

Lemma color_value_bounds c : color_ok c -> (0 <= color_value c < 4294967296)%Z.
Proof. intros (Ha & Hb & Hg & Hr). unfold color_value. lia. Qed.

Lemma color_of_int_value c : color_ok c -> color_of_int (color_value c) = c.
Proof.
  intros (Ha & Hb & Hg & Hr). destruct c as [a b g r]. cbn [ac_a ac_b ac_g ac_r] in *.
  unfold color_of_int, color_value, byte_of. cbn [ac_a ac_b ac_g ac_r].
  change (2 ^ 24)%Z with 16777216%Z. change (2 ^ 16)%Z with 65536%Z. change (2 ^ 8)%Z with 256%Z. change (2 ^ 0)%Z with 1%Z.
  f_equal; lia.
Qed.

Lemma parse_int_hex_sign s : parse_int_hex s =
  let '(neg, ds) := sign_split s in
  match ds with
  | [] => None
  | _ => match hex_digits 0 ds with
         | None => None
         | Some n =>
           let v := if neg then (- Z.of_N n)%Z else Z.of_N n in
           if ((v <? - max_int64 - 1) || (max_int64 <? v))%Z then None else Some v
         end
  end.
Proof. reflexivity. Qed.

Lemma parse_int_hex_nosign c r d n : hex_val c = Some d -> hex_digits 0 (c :: r) = Some n ->
  (Z.of_N n <= max_int64)%Z -> parse_int_hex (c :: r) = Some (Z.of_N n).
Proof.
  intros Hc Hn Hmax. rewrite parse_int_hex_sign.
  rewrite sign_split_other by (intros ->; discriminate Hc). cbv iota beta. rewrite Hn. cbv zeta iota beta.
  destruct ((Z.of_N n <? - max_int64 - 1) || (max_int64 <? Z.of_N n))%Z eqn:B; [|reflexivity].
  unfold max_int64 in *. lia.
Qed.

Lemma parse_color_amp s : parse_color (amp_h ++ s) =
  match parse_int_hex s with Some i => Ok (Some (color_of_int i)) | None => Err EParse end.
Proof. reflexivity. Qed.

Lemma parse_color_f f c : nibble_ok f -> color_ok c -> parse_color (amp_h ++ color_stringf f c) = Ok (Some c).
Proof.
  intros Hf Hc. rewrite parse_color_amp.
  pose proof (hex_digits_color f c Hf Hc) as Hd. pose proof (color_value_bounds c Hc) as Hb.
  assert (Hp : parse_int_hex (color_stringf f c) = Some (Z.of_N (Z.to_N (color_value c)))).
  { unfold color_stringf, hex2f in *. cbn [app] in *.
    eapply parse_int_hex_nosign; [apply Hf; apply N.mod_lt; discriminate | exact Hd | unfold max_int64; lia]. }
  rewrite Hp, Z2N.id by lia. rewrite (color_of_int_value c Hc). reflexivity.
Qed.

Theorem parse_color_format c : color_ok c -> parse_color (format_color c) = Ok (Some c).
Proof. intros Hc. unfold format_color. rewrite color_string_f. apply parse_color_f; [exact nibble_ok_lower | exact Hc]. Qed.

Theorem parse_color_hex_upper c : color_ok c -> parse_color (amp_h ++ map hex_upper (color_string c)) = Ok (Some c).
Proof. intros Hc. rewrite color_string_upper_f. apply parse_color_f; [exact nibble_ok_upper | exact Hc]. Qed.

Lemma parse_color_digit c r : is_digit c = true ->
  parse_color (c :: r) = match atoi (c :: r) with Some i => Ok (Some (color_of_int i)) | None => Err EParse end.
Proof.
  intros H. unfold parse_color, amp_h. cbn [prefix].
  assert (E : (38 =? c) = false) by (unfold is_digit in H; lia). rewrite E. reflexivity.
Qed.

Theorem parse_color_decimal c : color_ok c -> parse_color (itoa_z (color_value c)) = Ok (Some c).
Proof.
  intros Hc. pose proof (color_value_bounds c Hc) as Hb.
  pose proof (atoi_itoa_z (color_value c) ltac:(unfold max_int64; lia)) as Ha.
  pose proof (itoa_z_digits (color_value c) ltac:(lia)) as Hd. pose proof (itoa_z_nonnil (color_value c)) as Hn.
  destruct (itoa_z (color_value c)) as [|x r]; [contradiction|].
  rewrite parse_color_digit by (apply (digits_in _ x Hd); left; reflexivity).
  rewrite Ha, (color_of_int_value c Hc). reflexivity.
Qed.

Theorem parse_color_empty : parse_color [] = Ok None.
Proof. reflexivity. Qed.

Theorem parse_color_no_panic s p : parse_color s <> Panic p.
Proof.
  unfold parse_color. destruct s as [|c r]; [discriminate|].
  destruct (match prefix amp_h (c :: r) with Some r0 => parse_int_hex r0 | None => atoi (c :: r) end); discriminate.
Qed.

Lemma hex_digit_cellb n : n < 16 -> cellb (hex_digit n) = true.
Proof.
  assert (Sw : forallb (fun n => cellb (hex_digit n)) (map N.of_nat (seq 0 16)) = true) by (vm_compute; reflexivity).
  intros Hn. exact (sweep_N _ 16 Sw n Hn).
Qed.

Lemma hex2_clean v : cell_clean (hex2 v).
Proof.
  unfold hex2, cell_clean. cbn [forallb].
  rewrite !hex_digit_cellb by (apply N.mod_lt; discriminate). reflexivity.
Qed.

Theorem format_color_clean c : color_ok c -> cell_clean (format_color c).
Proof.
  intros _. unfold format_color, color_string.
  apply cell_clean_app; [reflexivity|]. repeat apply cell_clean_app; apply hex2_clean.
Qed.

Theorem format_color_nonnil c : format_color c <> [].
Proof. unfold format_color, amp_h. cbn [app]. discriminate. Qed.

(* ---------------------------------------------------------------- floats (thousandths) *)
Lemma span_digits_app ds r : digits ds -> match r with [] => True | c :: _ => is_digit c = false end ->
  span_digits (ds ++ r) = (ds, r).
Proof.
  intros Hd Hr. induction ds as [|c ds IH]; cbn [app].
  - destruct r as [|x r]; [reflexivity|]. cbn [span_digits]. rewrite Hr. reflexivity.
  - unfold digits in Hd. cbn [forallb] in Hd. apply andb_true_iff in Hd. destruct Hd as [Hc Hd].
    cbn [span_digits]. rewrite Hc, (IH Hd). reflexivity.
Qed.

Lemma span_digits_all ds : digits ds -> span_digits ds = (ds, []).
Proof. intros Hd. rewrite <- (app_nil_r ds) at 1. apply span_digits_app; [exact Hd | exact I]. Qed.

Lemma sign_split_digits s r : digits s -> s <> [] -> sign_split (s ++ r) = (false, s ++ r).
Proof.
  intros Hd Hne. destruct s as [|c s]; [contradiction|]. cbn [app]. apply sign_split_digit.
  apply (digits_in _ c Hd). left. reflexivity.
Qed.

(* the value computed from the integer part and the three fraction digits *)
Definition pf_val (neg : bool) (i f : N) : option Z :=
  let v := (Z.of_N i * 1000 + Z.of_N f)%Z in
  if (float_bound <=? v)%Z then None
  else if neg then (if (v =? 0)%Z then None else Some (- v)%Z) else Some v.

(* [parse_float3] after the sign *)
Definition pf_body (neg : bool) (body : str) : option Z :=
  let '(ip, r1) := span_digits body in
  let frac := match r1 with
              | [] => Some []
              | 46 :: r2 => let '(fp, r3) := span_digits r2 in match r3 with [] => Some fp | _ => None end
              | _ => None
              end in
  match frac with
  | None => None
  | Some fp =>
    match ip ++ fp with
    | [] => None
    | _ =>
      if negb (forallb (N.eqb 48) (skipn 3 fp)) then None
      else pf_val neg (digits_val ip) (digits_val (firstn 3 (fp ++ [48; 48; 48])))
    end
  end.

Lemma parse_float3_sign s : parse_float3 s = let '(neg, body) := sign_split s in pf_body neg body.
Proof. reflexivity. Qed.

Lemma parse_float3_signed (neg : bool) ip tail : digits ip -> ip <> [] ->
  parse_float3 ((if neg then [45] else []) ++ ip ++ tail) = pf_body neg (ip ++ tail).
Proof.
  intros Hd Hne. rewrite parse_float3_sign. destruct neg; cbn [app].
  - reflexivity.
  - rewrite (sign_split_digits ip tail Hd Hne). reflexivity.
Qed.

Lemma pf_body_spec neg ip fp tail : digits ip -> ip <> [] -> digits fp -> (length fp <= 3)%nat ->
  tail = match fp with [] => [] | _ => 46 :: fp end ->
  pf_body neg (ip ++ tail) = pf_val neg (digits_val ip) (digits_val (firstn 3 (fp ++ [48; 48; 48]))).
Proof.
  intros Hi Hne Hf Hl ->. unfold pf_body.
  assert (Hsk : skipn 3 fp = []) by (apply skipn_all2; exact Hl).
  assert (Hcat : forall x, match ip ++ fp with [] => None | _ :: _ => x end = x :> option Z).
  { intros x. destruct ip as [|c ip]; [contradiction | reflexivity]. }
  destruct fp as [|f fr].
  - rewrite (span_digits_app ip [] Hi I). cbv iota beta. rewrite Hcat, Hsk. reflexivity.
  - rewrite (span_digits_app ip (46 :: f :: fr) Hi) by reflexivity. cbv iota beta.
    rewrite (span_digits_all (f :: fr) Hf). cbv iota beta. rewrite Hcat, Hsk. reflexivity.
Qed.

Lemma digits_val_itoa n : digits_val (itoa n) = n.
Proof. unfold digits_val. rewrite atoi_digits_itoa. reflexivity. Qed.

(* the three fraction digits, as written in full and as shortened *)
Definition frac_okb (fp : str) (i : N) : bool :=
  forallb is_digit fp && (length fp <=? 3)%nat && (digits_val (firstn 3 (fp ++ [48; 48; 48])) =? i).
Definition frac3 (i : N) : str := pad_left 48 3 (itoa i).
Definition frac_short (i : N) : str := rev (strip_zeros_rev (rev (frac3 i))).

Lemma frac_okb_spec fp i : frac_okb fp i = true ->
  digits fp /\ (length fp <= 3)%nat /\ digits_val (firstn 3 (fp ++ [48; 48; 48])) = i.
Proof.
  unfold frac_okb, digits. intros H. apply andb_true_iff in H. destruct H as [H H3]. apply andb_true_iff in H. destruct H as [H1 H2].
  split; [exact H1|]. split; [apply Nat.leb_le; exact H2 | apply N.eqb_eq; exact H3].
Qed.

Lemma frac3_ok i : i < 1000 -> frac_okb (frac3 i) i = true /\ frac3 i <> [].
Proof.
  assert (Sw : forallb (fun i => frac_okb (frac3 i) i && negb (Nat.eqb (length (frac3 i)) 0)) (map N.of_nat (seq 0 1000)) = true)
    by (vm_compute; reflexivity).
  intros Hi. pose proof (sweep_N _ 1000 Sw i Hi) as H. cbv beta in H. apply andb_true_iff in H. destruct H as [H1 H2].
  split; [exact H1|]. intros E. rewrite E in H2. discriminate H2.
Qed.

Lemma frac_short_ok i : i < 1000 -> frac_okb (frac_short i) i = true.
Proof.
  assert (Sw : forallb (fun i => frac_okb (frac_short i) i) (map N.of_nat (seq 0 1000)) = true) by (vm_compute; reflexivity).
  intros Hi. exact (sweep_N _ 1000 Sw i Hi).
Qed.

Lemma pf_val_abs z : float_ok z ->
  pf_val (z <? 0)%Z (Z.abs_N z / 1000) (Z.abs_N z mod 1000) = Some z.
Proof.
  unfold float_ok, pf_val, float_bound. intros Hz. cbv zeta.
  assert (E : (Z.of_N (Z.abs_N z / 1000) * 1000 + Z.of_N (Z.abs_N z mod 1000))%Z = Z.abs z).
  { rewrite <- N2Z.inj_abs_N. lia. }
  rewrite E. destruct (1000000000000000 <=? Z.abs z)%Z eqn:B; [lia|].
  destruct (z <? 0)%Z eqn:Neg.
  - destruct (Z.abs z =? 0)%Z eqn:Z0; [lia|]. f_equal. lia.
  - f_equal. lia.
Qed.

Theorem parse_float3_format z : float_ok z -> parse_float3 (format_float3 z) = Some z.
Proof.
  intros Hz. unfold format_float3. cbv zeta. fold (frac3 (Z.abs_N z mod 1000)).
  assert (Hm : Z.abs_N z mod 1000 < 1000) by (apply N.mod_lt; discriminate).
  destruct (frac3_ok _ Hm) as (Hok & Hne). destruct (frac_okb_spec _ _ Hok) as (Hd & Hl & Hv).
  rewrite (parse_float3_signed (z <? 0)%Z) by (apply itoa_digits || apply itoa_nonnil).
  rewrite (pf_body_spec _ _ (frac3 (Z.abs_N z mod 1000))); try assumption; try (apply itoa_digits || apply itoa_nonnil).
  - rewrite Hv, digits_val_itoa. apply pf_val_abs. exact Hz.
  - destruct (frac3 (Z.abs_N z mod 1000)); [contradiction | reflexivity].
Qed.

Theorem parse_float3_short z : float_ok z -> parse_float3 (format_float_short z) = Some z.
Proof.
  intros Hz. unfold format_float_short. cbv zeta. fold (frac3 (Z.abs_N z mod 1000)). fold (frac_short (Z.abs_N z mod 1000)).
  assert (Hm : Z.abs_N z mod 1000 < 1000) by (apply N.mod_lt; discriminate).
  destruct (frac_okb_spec _ _ (frac_short_ok _ Hm)) as (Hd & Hl & Hv).
  rewrite (parse_float3_signed (z <? 0)%Z) by (apply itoa_digits || apply itoa_nonnil).
  rewrite (pf_body_spec _ _ (frac_short (Z.abs_N z mod 1000))); try assumption; try reflexivity; try (apply itoa_digits || apply itoa_nonnil).
  rewrite Hv, digits_val_itoa. apply pf_val_abs. exact Hz.
Qed.

Theorem parse_float3_int v : (0 <= v)%Z -> (v * 1000 < float_bound)%Z -> parse_float3 (itoa_z v) = Some (v * 1000)%Z.
Proof.
  intros H0 Hb. rewrite (itoa_z_nonneg v H0).
  pose proof (parse_float3_signed false (itoa (Z.to_N v)) [] (itoa_digits _) (itoa_nonnil _)) as E.
  cbn [app] in E. rewrite app_nil_r in E. rewrite E.
  rewrite <- (app_nil_r (itoa (Z.to_N v))).
  rewrite (pf_body_spec false _ [] []); try reflexivity; try (apply itoa_digits || apply itoa_nonnil); [|cbn [length]; lia].
  rewrite digits_val_itoa. unfold pf_val. change (digits_val (firstn 3 ([] ++ [48; 48; 48]))) with 0.
  cbv zeta. rewrite Z2N.id by exact H0. change (Z.of_N 0) with 0%Z. rewrite Z.add_0_r.
  destruct (float_bound <=? v * 1000)%Z eqn:B; [lia | reflexivity].
Qed.

(* the bytes of a rendered float: digits, '-', '.' *)
Definition fl_char (c : N) : bool := is_digit c || (c =? 45) || (c =? 46).

Lemma digits_fl s : digits s -> forallb fl_char s = true.
Proof.
  unfold digits. intros H. rewrite forallb_forall in *. intros c Hc. unfold fl_char. rewrite (H c Hc). reflexivity.
Qed.

Lemma fl_char_cellb c : fl_char c = true -> cellb c = true.
Proof.
  unfold fl_char, is_digit, cellb, plain_byte, is_ascii_space, is_brk, CR, LF. intros H. lia.
Qed.

Lemma fl_clean s : forallb fl_char s = true -> cell_clean s.
Proof.
  unfold cell_clean. intros H. rewrite forallb_forall in *. intros c Hc. apply fl_char_cellb. exact (H c Hc).
Qed.

Lemma frac3_digits i : digits (frac3 i).
Proof. unfold frac3, pad_left. apply digits_app; [apply digits_repeat | apply itoa_digits]. Qed.

Lemma frac_short_digits i : i < 1000 -> digits (frac_short i).
Proof. intros Hi. exact (proj1 (frac_okb_spec _ _ (frac_short_ok i Hi))). Qed.

Lemma format_float3_chars z : forallb fl_char (format_float3 z) = true.
Proof.
  unfold format_float3. cbv zeta. fold (frac3 (Z.abs_N z mod 1000)). rewrite !forallb_app.
  rewrite (digits_fl _ (itoa_digits _)), (digits_fl _ (frac3_digits _)).
  destruct (z <? 0)%Z; reflexivity.
Qed.

Lemma format_float_short_chars z : forallb fl_char (format_float_short z) = true.
Proof.
  unfold format_float_short. cbv zeta. fold (frac3 (Z.abs_N z mod 1000)). fold (frac_short (Z.abs_N z mod 1000)).
  assert (Hm : Z.abs_N z mod 1000 < 1000) by (apply N.mod_lt; discriminate).
  pose proof (digits_fl _ (frac_short_digits _ Hm)) as Hf.
  rewrite !forallb_app. rewrite (digits_fl _ (itoa_digits _)).
  assert (Ht : forallb fl_char (match frac_short (Z.abs_N z mod 1000) with [] => [] | _ :: _ => 46 :: frac_short (Z.abs_N z mod 1000) end) = true).
  { destruct (frac_short (Z.abs_N z mod 1000)) as [|f fr]; [reflexivity|]. cbn [forallb] in *. rewrite Hf. reflexivity. }
  rewrite Ht. destruct (z <? 0)%Z; reflexivity.
Qed.

Theorem format_float3_clean z : cell_clean (format_float3 z).
Proof. apply fl_clean. apply format_float3_chars. Qed.

Theorem format_float3_nonnil z : format_float3 z <> [].
Proof.
  unfold format_float3. cbv zeta. intros H. apply app_eq_nil in H. destruct H as [_ H].
  apply app_eq_nil in H. destruct H as [H _]. exact (itoa_nonnil _ H).
Qed.

Theorem format_float_short_clean z :
  forallb (fun c => plain_byte c && negb (is_brk c)) (dot_to_comma (format_float_short z)) = true.
Proof.
  unfold dot_to_comma. pose proof (format_float_short_chars z) as H. rewrite forallb_forall in *.
  intros c Hc. apply in_map_iff in Hc. destruct Hc as (x & Ex & Hx). specialize (H x Hx).
  destruct (x =? 46) eqn:E46; subst c; [reflexivity|].
  apply fl_char_cellb in H. unfold cellb in H.
  destruct (plain_byte x); [|discriminate H]. destruct (is_brk x); [|reflexivity].
  rewrite andb_false_r in H. discriminate H.
Qed.

Lemma comma_dot_id s : forallb fl_char s = true -> comma_to_dot (dot_to_comma s) = s.
Proof.
  unfold comma_to_dot, dot_to_comma. intros H. rewrite map_map. rewrite <- (map_id s) at 2.
  apply map_ext_in. intros c Hc. rewrite forallb_forall in H. specialize (H c Hc).
  unfold fl_char, is_digit in H. destruct (c =? 46) eqn:E; [apply N.eqb_eq in E; subst c; reflexivity|]. destruct (c =? 44) eqn:E2; [lia | reflexivity].
Qed.

Theorem timer_roundtrip z : float_ok z ->
  parse_float3 (comma_to_dot (dot_to_comma (format_float_short z))) = Some z.
Proof. intros Hz. rewrite (comma_dot_id _ (format_float_short_chars z)). apply parse_float3_short. exact Hz. Qed.

(* ---------------------------------------------------------------- times *)
Lemma wrap64_id z : int_ok z -> wrap64 z = z.
Proof. unfold int_ok, wrap64, two63, max_int64. intros H. lia. Qed.

Theorem parse_time_format t : (0 <= t <= max_int64)%Z -> parse_time (format_ssa t) = Some (t - t mod 10000000)%Z.
Proof.
  intros Ht. unfold parse_time, parse_ssa, format_ssa.
  rewrite (parse_format dot 2 t sep_ok_dot ltac:(lia) Ht). change (frac_div 2) with 10000000%Z.
  rewrite wrap64_id; [reflexivity|]. unfold int_ok, max_int64 in *. lia.
Qed.

Lemma colon_clean : cell_clean [colon]. Proof. reflexivity. Qed.
Lemma dot_clean : cell_clean [dot]. Proof. reflexivity. Qed.

Ltac clean_parts :=
  repeat first [apply colon_clean | apply dot_clean | (apply digits_clean; assumption) | apply cell_clean_app].

Lemma parse_hms_gen H h m s : digits H -> H <> [] -> atoi H = Some h ->
  (0 <= m <= max_int64)%Z -> (0 <= s <= max_int64)%Z ->
  parse_hms (H ++ [colon] ++ two m ++ [colon] ++ two s) = Some (h, m, s).
Proof.
  intros DH NH AH Hm Hs. unfold parse_hms.
  destruct (two_digits m (proj1 Hm)) as [Dm Nm]. destruct (two_digits s (proj1 Hs)) as [Ds Ns].
  rewrite cell_clean_trim by clean_parts.
  rewrite (split_hms _ _ _ DH Dm Ds), (atoi_two s Hs), (atoi_two m Hm), (digits_trim H DH NH), AH.
  destruct H; [contradiction | reflexivity].
Qed.

Lemma parse_ssa_gen H h m s c : digits H -> H <> [] -> atoi H = Some h ->
  (0 <= m <= max_int64)%Z -> (0 <= s <= max_int64)%Z -> (0 <= c < 100)%Z ->
  parse_ssa (H ++ [58] ++ two m ++ [58] ++ two s ++ [46] ++ two c) =
  Some (c * 10 * ms_ns + s * second_ns + m * minute_ns + h * hour_ns)%Z.
Proof.
  intros DH NH AH Hm Hs Hc. change [58] with [colon]. change [46] with [dot].
  destruct (two_digits m (proj1 Hm)) as [Dm Nm]. destruct (two_digits s (proj1 Hs)) as [Ds Ns].
  destruct (two_digits c (proj1 Hc)) as [Df NF]. pose proof (two_length_100 c Hc) as Lf.
  unfold parse_ssa, parse_duration.
  set (HMS := H ++ [colon] ++ two m ++ [colon] ++ two s). set (F := two c) in *.
  assert (Esplit : split_byte dot (H ++ [colon] ++ two m ++ [colon] ++ two s ++ [dot] ++ F) = [HMS; F]).
  { replace (H ++ [colon] ++ two m ++ [colon] ++ two s ++ [dot] ++ F) with (HMS ++ dot :: F)
      by (unfold HMS; rewrite <- !app_assoc; reflexivity).
    rewrite split_byte_app by (apply hms_no_sep; [exact sep_ok_dot | assumption ..]).
    rewrite split_byte_none by (apply digits_not_in; [exact Df | reflexivity]). reflexivity. }
  rewrite Esplit. cbn [rev app].
  rewrite (digits_trim F Df NF), Lf. change (Nat.ltb 3 2) with false. cbv iota.
  unfold F. rewrite (atoi_two' c) by (unfold max_int64; lia). cbn [join].
  unfold HMS. rewrite (parse_hms_gen H h m s DH NH AH Hm Hs).
  change (pow10_int (Z.of_nat 3 - Z.of_nat 2)) with 10%Z. reflexivity.
Qed.

(* H:MM:SS.CC with an hour field of any width *)
Theorem parse_time_h_mm_ss_cc_gen h m s c : (0 <= h <= 1000000)%Z -> (0 <= m < 60)%Z -> (0 <= s < 60)%Z -> (0 <= c < 100)%Z ->
  parse_time (itoa_z h ++ [58] ++ two m ++ [58] ++ two s ++ [46] ++ two c) =
  Some (h * hour_ns + m * minute_ns + s * second_ns + c * 10000000)%Z.
Proof.
  intros Hh Hm Hs Hc. unfold parse_time.
  rewrite (parse_ssa_gen (itoa_z h) h m s c); try (unfold max_int64; lia).
  - rewrite wrap64_id; [f_equal; unfold ms_ns, second_ns, minute_ns, hour_ns; lia|].
    unfold int_ok, max_int64, ms_ns, second_ns, minute_ns, hour_ns. lia.
  - apply itoa_z_digits. lia.
  - apply itoa_z_nonnil.
  - apply atoi_itoa_z. unfold max_int64. lia.
Qed.

Theorem parse_time_h_mm_ss_cc h m s c : (0 <= h <= 9)%Z -> (0 <= m < 60)%Z -> (0 <= s < 60)%Z -> (0 <= c < 100)%Z ->
  parse_time (itoa_z h ++ [58] ++ two m ++ [58] ++ two s ++ [46] ++ two c) =
  Some (h * hour_ns + m * minute_ns + s * second_ns + c * 10000000)%Z.
Proof. intros Hh. apply parse_time_h_mm_ss_cc_gen. lia. Qed.

Theorem format_ssa_clean t : (0 <= t)%Z -> cell_clean (format_ssa t).
Proof.
  intros Ht. unfold format_ssa.
  destruct (format_grammar dot 2 t ltac:(lia) Ht) as (E & Dh & _ & Dm & _ & _ & Ds & _ & _ & Df & _).
  rewrite E. clean_parts.
Qed.

Theorem format_ssa_nonnil t : (0 <= t)%Z -> format_ssa t <> [].
Proof.
  intros Ht. unfold format_ssa. destruct (format_grammar dot 2 t ltac:(lia) Ht) as (E & _).
  rewrite E. intros H. apply app_eq_nil in H. destruct H as [_ H]. discriminate H.
Qed.
