(* TTML for the cross-cutting properties: determinism of the writer (C19), totality at byte level (C08), the
   writer as a sequence of checked Write calls (C18). *)
From Coq Require Import List ZArith NArith Bool Arith Lia Permutation.
From Astisub Require Import Kit.Base Kit.Str Kit.Xml Kit.XmlParse Kit.SortOrd Kit.IOW Model.Dur Model.Ttml Model.Plain
  Model.PlainTtml Proofs.TtmlBase.
Import ListNotations.

(* ================= C19: the order in which the tables are listed ================= *)
Lemma ginsert_key_fst {V} (x : str * V) l : map fst (ginsert key_leb x l) = ginsert sleb (fst x) (map fst l).
Proof.
  induction l as [|y r IH]; [reflexivity|]. cbn [ginsert map]. unfold key_leb at 1.
  destruct (sleb (fst x) (fst y)); cbn [map]; [reflexivity|]. rewrite IH. reflexivity.
Qed.
Lemma gsort_key_fst {V} (l : list (str * V)) : map fst (gsort key_leb l) = gsort sleb (map fst l).
Proof. induction l as [|x r IH]; [reflexivity|]. cbn [gsort fold_right map]. fold (gsort (@key_leb V) r). rewrite ginsert_key_fst, IH. reflexivity. Qed.

Lemma perm_same_keys_eq {V} (l : list (str * V)) : forall l', Permutation l l' -> NoDup (map fst l) -> map fst l = map fst l' -> l = l'.
Proof.
  induction l as [|a r IH]; intros l' Hp Hn Hk.
  - apply Permutation_nil in Hp. subst. reflexivity.
  - destruct l' as [|b r']; [apply Permutation_sym, Permutation_nil in Hp; discriminate|].
    cbn [map] in Hk, Hn. inversion Hk as [[Hab Hr]]. inversion Hn as [|? ? Hnot Hnr]; subst.
    assert (Hin : In a (b :: r')) by (eapply Permutation_in; [exact Hp | left; reflexivity]).
    destruct Hin as [Heq|Hin].
    + subst b. f_equal. apply IH; [eapply Permutation_cons_inv; exact Hp | exact Hnr | exact Hr].
    + exfalso. apply Hnot. rewrite Hr. apply in_map. exact Hin.
Qed.

(* sorting the keys forgets the order in which a table (distinct keys) is listed *)
Theorem sort_keys_perm {V} (m m' : list (str * V)) : Permutation m m' -> NoDup (map fst m) -> sort_keys m = sort_keys m'.
Proof.
  intros Hp Hn. unfold sort_keys. apply perm_same_keys_eq.
  - etransitivity; [apply Permutation_sym, gsort_perm|]. etransitivity; [exact Hp | apply gsort_perm].
  - eapply Permutation_NoDup; [apply Permutation_map, gsort_perm | exact Hn].
  - rewrite !gsort_key_fst. apply (gsort_order_independent sleb sleb_total sleb_antisym sleb_trans).
    apply Permutation_map. exact Hp.
Qed.

(* the writer's bytes are a function of the document value and the indent option (no clock, no iteration order
   enters the model), and they do not depend on the order in which the style and region tables are listed *)
Theorem write_ttml_bytes_perm ind meta items st st' rg rg' :
  Permutation st st' -> Permutation rg rg' -> NoDup (map fst st) -> NoDup (map fst rg) ->
  write_ttml_bytes ind (mkDoc meta st rg items) = write_ttml_bytes ind (mkDoc meta st' rg' items).
Proof.
  intros Hs Hr Ns Nr. unfold write_ttml_bytes, write_ttml. cbn [td_items td_meta td_styles td_regions].
  rewrite (sort_keys_perm st st' Hs Ns), (sort_keys_perm rg rg' Hr Nr). reflexivity.
Qed.

(* ================= C08: totality at byte level ================= *)
Theorem write_ttml_bytes_total ind d : no_panic (write_ttml_bytes ind d).
Proof.
  intros s. unfold write_ttml_bytes. destruct (write_ttml d) as [t|k|s'] eqn:E; cbn [bind]; try discriminate.
  exfalso. exact (write_ttml_total d s' E).
Qed.
Theorem read_ttml_bytes_total data : no_panic (read_ttml_bytes data).
Proof. intros s. unfold read_ttml_bytes. destruct (xml_parse data); [apply read_ttml_total | discriminate]. Qed.

(* ================= C18: the writer as checked Write calls ================= *)
(* WriteToTTML hands the document to the destination through xml.Encoder's bufio.Writer: full buffers while the
   document is produced, the rest at the final Flush; the exact cut points depend on the buffer size and on the
   destination's type, which is why the cut is a parameter: ANY cut of the document into Write calls, each checked
   (bufio keeps the first error and Encode returns it). *)
Section TtmlWrites.
  Variable cut : str -> list str.
  Hypothesis cut_concat : forall s, concat (cut s) = s.

  Definition write_ttml_to (ind : str) (d : tdoc) (dst : dest) : res nat :=
    match write_ttml_bytes ind d with
    | Ok doc => run_writes (cut doc) dst 0
    | Err k => Err k
    | Panic p => Panic p
    end.
  Theorem write_ttml_fault ind d doc k : write_ttml_bytes ind d = Ok doc -> (k < length doc)%nat ->
    write_ttml_to ind d (fail_at k) = Err EIO.
  Proof. intros H Hk. unfold write_ttml_to. rewrite H. apply writes_fault. unfold total. rewrite cut_concat. exact Hk. Qed.
  Theorem write_ttml_complete ind d doc : write_ttml_bytes ind d = Ok doc -> write_ttml_to ind d ok_dest = Ok (length doc).
  Proof. intros H. unfold write_ttml_to. rewrite H, writes_complete. unfold total. rewrite cut_concat. reflexivity. Qed.
End TtmlWrites.
