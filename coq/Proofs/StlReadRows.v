(* C05, reading half for all renderings: the text field and the TTI block.
   A row of an open-subtitling text field is ANY sequence of elements: style codes 0x80..0x85 (redundant, repeated,
   unclosed, at the start or the end of the row), characters (a spacing character of the Latin table, or a floating
   diacritic followed by a spacing character), and bytes the table does not define (0x8F padding and the other unused
   codes).  Rows are separated by 0x8A; the field is 112 bytes.  [denote_open] says what a row means; the reader's
   row parser returns exactly that (open_row_rendered), for every such field (rows_open_rendered). *)
From Coq Require Import List ZArith NArith Bool Lia ZifyBool ZifyN ZifyNat.
From Astisub Require Import Kit.Base Kit.Str Kit.Utf8 Kit.Scan Model.Dur Model.Stl Gen.StlTables
  Proofs.StlBlocks Proofs.StlCodec Proofs.StlTti.
Import ListNotations.
Open Scope N_scope.

(* ---- elements of a row ---- *)
Inductive relem := RCode (c : N) | RChar (u : cunit) | RSkip (b : N).
Definition relem_bytes (e : relem) : str :=
  match e with RCode c => [c] | RChar u => cunit_bytes u | RSkip b => [b] end.
Definition row_bytes (es : list relem) : str := flat_map relem_bytes es.

(* a byte that is neither a teletext control code, nor a style code, nor the row separator *)
Definition plain_cell (b : N) : bool := negb (b <=? 31) && negb (o_some (sty_code b)) && negb (b =? 138).
Definition relem_ok (e : relem) : bool :=
  match e with
  | RCode c => o_some (sty_code c)
  | RChar u => cunit_ok u
  | RSkip b => plain_cell b && negb (o_some (alookup b stl_table)) && (b <? 256)
  end.

(* what a row means.  Text accumulates between style codes; a style code ends the run in front of it (kept, trimmed,
   when it is not blank) and sets its attribute; attributes never mentioned in the row stay unset (nil in the library);
   undefined bytes mean nothing.  [items] are the runs so far, last first. *)
Definition close_run (items : list erun) (text : str) (a : sattr_stl) : list erun := append_open items text a.
Fixpoint denote_open (es : list relem) (items : list erun) (text : str) (a : sattr_stl) : list erun :=
  match es with
  | [] => rev (close_run items text a)
  | RCode c :: r =>
    match sty_code c with
    | Some k => denote_open r (close_run items text a) [] (sty_update a k)
    | None => denote_open r items text a
    end
  | RChar u :: r => denote_open r items (text ++ cunit_text u) a
  | RSkip _ :: r => denote_open r items text a
  end.
Definition denote_row (es : list relem) : list erun := denote_open es [] [] sattr0_stl.
(* the lines of a text field: one per row that has a run *)
Definition denote_rows (rows : list (list relem)) : list (list erun) :=
  filter (fun l => match l with [] => false | _ => true end) (map denote_row rows).

(* ---- every byte of the table is a plain cell (generated table, by computation) ---- *)
Lemma table_cells_plain : forallb (fun e => plain_cell (fst e) && (fst e <? 256)) stl_table = true.
Proof. vm_compute. reflexivity. Qed.
Lemma alookup_In {V} k (m : list (N * V)) v : alookup k m = Some v -> In (k, v) m.
Proof.
  induction m as [|[k' v'] r IH]; cbn [alookup]; [discriminate|]. destruct (k =? k') eqn:E.
  - intros H. inversion H; subst. apply N.eqb_eq in E. subst. left. reflexivity.
  - intros H. right. exact (IH H).
Qed.
Lemma table_byte_plain b : o_some (alookup b stl_table) = true -> plain_cell b = true /\ b < 256.
Proof.
  destruct (alookup b stl_table) as [s|] eqn:E; [|discriminate]. intros _.
  pose proof (proj1 (forallb_forall _ _) table_cells_plain (b, s) (alookup_In _ _ _ E)) as H. cbn [fst] in H.
  apply andb_true_iff in H. destruct H as [H1 H2]. apply N.ltb_lt in H2. split; assumption.
Qed.

Lemma plain_cell_parts b : plain_cell b = true -> (b <=? 31) = false /\ sty_code b = None /\ b <> 138.
Proof.
  unfold plain_cell. intros H. apply andb_true_iff in H. destruct H as [H H3]. apply andb_true_iff in H. destruct H as [H1 H2].
  apply negb_true_iff in H1. apply negb_true_iff in H2. apply negb_true_iff in H3. apply N.eqb_neq in H3.
  repeat split; try assumption. destruct (sty_code b); [discriminate | reflexivity].
Qed.

(* ---- one plain cell through the row parser ---- *)
Lemma open_row_cell b rest items text a acc : plain_cell b = true ->
  open_row (b :: rest) items text a acc = let '(o, acc') := decode1 acc b in open_row rest items (text ++ o) a acc'.
Proof.
  intros H. destruct (plain_cell_parts b H) as (H1 & H2 & _). cbn [open_row]. rewrite H1, H2. reflexivity.
Qed.

Lemma cunit_bytes_plain u : cunit_ok u = true -> forallb plain_cell (cunit_bytes u) = true /\ Forall (fun b => b < 256) (cunit_bytes u).
Proof.
  destruct u as [b|a b]; cbn [cunit_ok cunit_bytes forallb]; intros H.
  - apply andb_true_iff in H. destruct H as [Hb _]. destruct (table_byte_plain b Hb) as [P L]. rewrite P. split; [reflexivity | repeat constructor; exact L].
  - apply andb_true_iff in H. destruct H as [H Hb]. apply andb_true_iff in H. destruct H as [Ha _].
    destruct (table_byte_plain a Ha) as [Pa La]. destruct (table_byte_plain b Hb) as [Pb Lb]. rewrite Pa, Pb. split; [reflexivity | repeat constructor; assumption].
Qed.

Lemma open_row_unit u rest items text a : cunit_ok u = true ->
  open_row (cunit_bytes u ++ rest) items text a None = open_row rest items (text ++ cunit_text u) a None.
Proof.
  intros H. pose proof (decode_unit u H) as D. destruct (cunit_bytes_plain u H) as [P _].
  destruct u as [b|x b]; cbn [cunit_bytes app forallb] in *.
  - apply andb_true_iff in P. destruct P as [Pb _]. rewrite (open_row_cell b _ _ _ _ _ Pb).
    cbn [decode_bytes] in D. destruct (decode1 None b) as [o acc']. rewrite app_nil_r in D. inversion D; subst. reflexivity.
  - apply andb_true_iff in P. destruct P as [Px P]. apply andb_true_iff in P. destruct P as [Pb _].
    rewrite (open_row_cell x _ _ _ _ _ Px). cbn [decode_bytes] in D. destruct (decode1 None x) as [o1 acc1].
    rewrite (open_row_cell b _ _ _ _ _ Pb). destruct (decode1 acc1 b) as [o2 acc2]. rewrite app_nil_r in D.
    assert (E : o1 ++ o2 = cunit_text (U2 x b) /\ acc2 = None) by (split; congruence). destruct E as [E ->].
    rewrite <- app_assoc, E. reflexivity.
Qed.

(* ---- a row ---- *)
Theorem open_row_rendered : forall es items text a, forallb relem_ok es = true ->
  open_row (row_bytes es) items text a None = Ok (denote_open es items text a, None).
Proof.
  induction es as [|e r IH]; intros items text a H; [reflexivity|].
  cbn [forallb] in H. apply andb_true_iff in H. destruct H as [He Hr]. unfold row_bytes. cbn [flat_map]. fold (row_bytes r).
  destruct e as [c|u|b]; cbn [relem_ok relem_bytes denote_open] in *.
  - destruct (sty_code c) as [k|] eqn:Ek; [|discriminate]. cbn [app open_row].
    assert (E31 : (c <=? 31) = false).
    { unfold sty_code in Ek. apply N.leb_gt.
      destruct (c =? 128) eqn:E1; [apply N.eqb_eq in E1; lia|]. destruct (c =? 129) eqn:E2; [apply N.eqb_eq in E2; lia|].
      destruct (c =? 130) eqn:E3; [apply N.eqb_eq in E3; lia|]. destruct (c =? 131) eqn:E4; [apply N.eqb_eq in E4; lia|].
      destruct (c =? 132) eqn:E5; [apply N.eqb_eq in E5; lia|]. destruct (c =? 133) eqn:E6; [apply N.eqb_eq in E6; lia|]. discriminate. }
    rewrite E31, Ek. apply IH. exact Hr.
  - rewrite (open_row_unit u _ _ _ _ He). apply IH. exact Hr.
  - apply andb_true_iff in He. destruct He as [He _]. apply andb_true_iff in He. destruct He as [Hp Hn]. apply negb_true_iff in Hn.
    cbn [app]. rewrite (open_row_cell b _ _ _ _ _ Hp). unfold decode1. destruct (alookup b stl_table); [discriminate|].
    rewrite app_nil_r. apply IH. exact Hr.
Qed.

(* no element contributes the row separator, every byte is a byte *)
Lemma row_bytes_no_sep es : forallb relem_ok es = true -> ~ In 138 (row_bytes es) /\ Forall (fun b => b < 256) (row_bytes es).
Proof.
  induction es as [|e r IH]; intros H; [split; [intros [] | constructor]|].
  cbn [forallb] in H. apply andb_true_iff in H. destruct H as [He Hr]. destruct (IH Hr) as [IH1 IH2].
  unfold row_bytes. cbn [flat_map]. fold (row_bytes r).
  assert (P : forallb plain_cell (relem_bytes e) = true \/ exists c, relem_bytes e = [c] /\ o_some (sty_code c) = true).
  { destruct e as [c|u|b]; cbn [relem_ok relem_bytes] in *.
    - right. exists c. split; [reflexivity | exact He].
    - left. exact (proj1 (cunit_bytes_plain u He)).
    - left. apply andb_true_iff in He. destruct He as [He _]. apply andb_true_iff in He. destruct He as [Hp _]. cbn [forallb]. rewrite Hp. reflexivity. }
  assert (L : Forall (fun b => b < 256) (relem_bytes e)).
  { destruct e as [c|u|b]; cbn [relem_ok relem_bytes] in *.
    - constructor; [|constructor]. unfold sty_code in He.
      destruct (c =? 128) eqn:E1; [apply N.eqb_eq in E1; lia|]. destruct (c =? 129) eqn:E2; [apply N.eqb_eq in E2; lia|].
      destruct (c =? 130) eqn:E3; [apply N.eqb_eq in E3; lia|]. destruct (c =? 131) eqn:E4; [apply N.eqb_eq in E4; lia|].
      destruct (c =? 132) eqn:E5; [apply N.eqb_eq in E5; lia|]. destruct (c =? 133) eqn:E6; [apply N.eqb_eq in E6; lia|]. discriminate.
    - exact (proj2 (cunit_bytes_plain u He)).
    - apply andb_true_iff in He. destruct He as [_ Hl]. apply N.ltb_lt in Hl. repeat constructor. exact Hl. }
  split; [|apply Forall_app; split; assumption].
  intros Hin. apply in_app_or in Hin. destruct Hin as [Hin|Hin]; [|exact (IH1 Hin)].
  destruct P as [P|(c & Ec & Hc)].
  - pose proof (proj1 (forallb_forall _ _) P 138 Hin) as Hp. vm_compute in Hp. discriminate.
  - rewrite Ec in Hin. destruct Hin as [->|[]]. vm_compute in Hc. discriminate.
Qed.

(* ---- the text field: rows separated by 0x8A ---- *)
Definition field_bytes (rows : list (list relem)) : str := join [138] (map row_bytes rows).
Definition rows_ok (rows : list (list relem)) : bool :=
  match rows with [] => false | _ => true end && forallb (forallb relem_ok) rows && Nat.eqb (length (field_bytes rows)) 112.

Lemma split_join_rows : forall (bs : list str), bs <> [] -> Forall (fun r => ~ In 138 r) bs -> split_byte 138 (join [138] bs) = bs.
Proof.
  induction bs as [|x r IH]; intros Hne H; [contradiction|]. inversion H as [|? ? Hx Hr]; subst.
  destruct r as [|y r']; [cbn [join]; apply split_byte_none; exact Hx|].
  change (join [138] (x :: y :: r')) with (x ++ [138] ++ join [138] (y :: r')). cbn [app].
  rewrite (split_byte_app 138 x _ Hx). rewrite IH by (try discriminate; exact Hr). reflexivity.
Qed.

Lemma rows_open_fold : forall rows lines, Forall (fun es => forallb relem_ok es = true) rows ->
  rows_open (map row_bytes rows) None lines = Ok (rev lines ++ denote_rows rows, None).
Proof.
  induction rows as [|es r IH]; intros lines H; [cbn [map rows_open denote_rows filter]; rewrite app_nil_r; reflexivity|].
  inversion H as [|? ? He Hr]; subst. cbn [map rows_open]. rewrite (open_row_rendered es [] [] sattr0_stl He). cbn [bind].
  fold (denote_row es). rewrite (IH _ Hr). unfold denote_rows. cbn [map filter]. destruct (denote_row es) as [|x l].
  - reflexivity.
  - cbn [rev]. rewrite <- app_assoc. reflexivity.
Qed.

Theorem rows_open_rendered rows : rows_ok rows = true ->
  length (field_bytes rows) = 112%nat /\
  split_byte 138 (field_bytes rows) = map row_bytes rows /\
  rows_open (split_byte 138 (field_bytes rows)) None [] = Ok (denote_rows rows, None).
Proof.
  unfold rows_ok. intros H. apply andb_true_iff in H. destruct H as [H HL]. apply andb_true_iff in H. destruct H as [Hne Hall].
  apply Nat.eqb_eq in HL.
  assert (Hall' : Forall (fun es => forallb relem_ok es = true) rows) by (apply Forall_forall; exact (proj1 (forallb_forall _ _) Hall)).
  assert (S : split_byte 138 (field_bytes rows) = map row_bytes rows).
  { unfold field_bytes. apply split_join_rows; [destruct rows; [discriminate Hne | discriminate]|].
    apply Forall_forall. intros bs Hin. apply in_map_iff in Hin. destruct Hin as (es & <- & Hes).
    exact (proj1 (row_bytes_no_sep es (proj1 (Forall_forall _ _) Hall' es Hes))). }
  split; [exact HL|]. split; [exact S|]. rewrite S. exact (rows_open_fold rows [] Hall').
Qed.

Lemma field_bytes_bytes rows : forallb (forallb relem_ok) rows = true -> Forall (fun b => b < 256) (field_bytes rows).
Proof.
  intros H. unfold field_bytes. induction rows as [|es r IH]; [constructor|].
  cbn [forallb] in H. apply andb_true_iff in H. destruct H as [He Hr]. cbn [map].
  destruct r as [|es2 r']; [cbn [join map]; exact (proj2 (row_bytes_no_sep es He))|].
  change (join [138] (row_bytes es :: map row_bytes (es2 :: r'))) with (row_bytes es ++ [138] ++ join [138] (map row_bytes (es2 :: r'))).
  apply Forall_app. split; [exact (proj2 (row_bytes_no_sep es He))|]. apply Forall_app. split; [repeat constructor; lia | exact (IH Hr)].
Qed.

(* in terms of effective flags (an attribute is on iff the reader returns "set and true") the attribute state is the
   plain boolean state of the codes seen so far in the row *)
Definition is_on (o : option bool) : bool := match o with Some true => true | _ => false end.
Definition run_flags (x : erun) : str * bool * bool * bool :=
  (ru_text x, is_on (a_it (ru_at x)), is_on (a_un (ru_at x)), is_on (a_bx (ru_at x))).
