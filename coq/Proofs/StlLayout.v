(* C05: the byte offsets of the models ARE the offsets probed from the code on this run.
   Model/Stl.v transcribes parseGSIBlock / parseTTIBlock with the literal offsets of stl.go and gsiBlock.bytes /
   ttiBlock.bytes as a sequence of fixed-width fields.  Here the same functions are written over a layout table (field
   index -> offset, length), and proved equal to the model's when the table is the GENERATED one
   (Gen/StlTables.v: stl_gsi_parse_layout, stl_gsi_write_layout, stl_tti_parse_layout, stl_tti_write_layout, probed from the
   current code by tools/gentables on every run).  The equalities hold by computation on the generated constants: if the
   code's layout changes, the tables change and these proofs fail - a broken proof obligation, not a silent drift. *)
From Coq Require Import List ZArith NArith Bool Lia.
From Astisub Require Import Kit.Base Kit.Str Kit.Utf8 Kit.Scan Model.Dur Model.Stl Gen.StlTables Proofs.StlBlocks Proofs.StlGsi.
Import ListNotations.
Open Scope N_scope.

Definition lay_find (lay : list (N * N * N)) (k : N) : nat * nat :=
  match find (fun e => fst (fst e) =? k) lay with
  | Some e => (N.to_nat (snd (fst e)), N.to_nat (snd e))
  | None => (O, O)
  end.
Definition fld (lay : list (N * N * N)) (k : N) (b : str) : str := let '(off, len) := lay_find lay k in stl_sl off len b.
Definition fld_byte (lay : list (N * N * N)) (k : N) (i : nat) (b : str) : N := stl_byte_at (fst (lay_find lay k) + i) b.

(* parseGSIBlock over a layout table: field numbers in gsiBlock's declaration order (0 = the disk format code) *)
Definition parse_gsi_at (lay : list (N * N * N)) (b : str) : res gsi :=
  match slookup (fld lay 0 b) stl_framerate with
  | None => Err EParse
  | Some fps =>
    do cd <- date_field (fld lay 4 b);
    do rd <- date_field (fld lay 16 b);
    do rn <- num_field (fld lay 17 b);
    do tnb <- num_field (fld lay 25 b);
    do tns <- num_field (fld lay 24 b);
    do tng <- num_field (fld lay 23 b);
    do mnc <- num_field (fld lay 11 b);
    do mnr <- num_field (fld lay 12 b);
    do tcp <- tc_field (fld lay 20 b) fps;
    do tcf <- tc_field (fld lay 19 b) fps;
    do tnd <- num_field (utf8_encode_rune (fld_byte lay 22 0 b));
    do dsn <- num_field (utf8_encode_rune (fld_byte lay 5 0 b));
    Ok (mkGsi (fld_byte lay 1 0 b * 256 + fld_byte lay 1 1 b)
              (fld_byte lay 2 0 b * 65536 + fld_byte lay 2 1 b * 256 + fld_byte lay 2 2 b)
              (trim_space (fld lay 3 b)) cd dsn (trim_space (fld lay 6 b))
              (trim_space (fld lay 7 b)) (trim_space (fld lay 8 b)) fps (trim_space (fld lay 10 b)) mnc mnr
              (trim_space (fld lay 13 b)) (trim_space (fld lay 14 b)) (trim_space (fld lay 15 b))
              rd rn (trim_space (fld lay 18 b)) tcf tcp (trim_space (fld lay 21 b)) tnd tng tns tnb
              (trim_space (fld lay 26 b)) (trim_space (fld lay 27 b)) (trim_space (fld lay 28 b)) (trim_space (fld lay 29 b))
              (trim_space (skipn (fst (lay_find lay 30)) b)))
  end.

Theorem parse_gsi_uses_generated_layout b : parse_gsi b = parse_gsi_at stl_gsi_parse_layout b.
Proof. reflexivity. Qed.

(* parseTTIBlock over a layout table: field numbers in ttiBlock's declaration order *)
Definition parse_tti_at (lay : list (N * N * N)) (p : str) (fps : Z) : tti :=
  mkTti (fld_byte lay 1 0 p) (fld_byte lay 2 0 p) (Z.of_N (fld_byte lay 3 0 p)) (fld_byte lay 4 0 p) (Z.of_N (fld_byte lay 5 0 p))
        (Z.of_N (fld_byte lay 6 0 p + 256 * fld_byte lay 6 1 p)) (fld lay 7 p)
        (parse_stl_bytes (fld lay 8 p) fps) (parse_stl_bytes (fld lay 9 p) fps) (Z.of_N (fld_byte lay 10 0 p)).
Theorem parse_tti_uses_generated_layout p fps : parse_tti p fps = parse_tti_at stl_tti_parse_layout p fps.
Proof. reflexivity. Qed.

(* the writers: a block is the concatenation of its fields in the model's order; the offset of each field (the sum of the
   widths in front of it) and its width are those probed from gsiBlock.bytes / ttiBlock.bytes *)
Fixpoint offsets (ids : list N) (widths : list nat) (off : nat) : list (N * N * N) :=
  match ids, widths with
  | i :: ids', w :: ws => (i, N.of_nat off, N.of_nat w) :: offsets ids' ws (off + w)
  | _, _ => []
  end.
Fixpoint insert_by_id (e : N * N * N) (l : list (N * N * N)) : list (N * N * N) :=
  match l with
  | [] => [e]
  | x :: r => if fst (fst e) <=? fst (fst x) then e :: l else x :: insert_by_id e r
  end.
Definition sort_by_id (l : list (N * N * N)) : list (N * N * N) := fold_right insert_by_id [] l.
(* the gsiBlock field each of the model's 29 leading fields renders (gsi_fields of Proofs/StlGsi.v; the 30th is the blank
   spare + user-defined area, which no field of the structure determines) *)
Definition gsi_field_ids : list N := [2; 9; 6; 1; 10; 14; 13; 27; 26; 29; 28; 18; 4; 16; 17; 25; 24; 23; 11; 12; 21; 20; 19; 22; 5; 3; 15; 8; 7].
Theorem gsi_bytes_uses_generated_layout :
  sort_by_id (offsets gsi_field_ids gsi_widths 0) = stl_gsi_write_layout /\
  (forall g, gsi_bytes g = concat (gsi_fields g) /\ map (@length N) (gsi_fields g) = gsi_widths).
Proof. split; [vm_compute; reflexivity | intros g; split; [apply gsi_bytes_concat | apply gsi_fields_widths]]. Qed.

Definition tti_fields (fps : Z) (dsc : str) (tcp : Z) (t : tti) : list str :=
  [[zbyte (t_sgn t)]; [zbyte (t_sn t); zbyte (t_sn t / 256)]; [zbyte (t_ebn t)]; [t_cs t];
   format_stl_bytes (t_in t + tcp) fps; format_stl_bytes (t_out t + tcp) fps; [validate_vp (t_vp t) dsc]; [t_jc t]; [t_cf t];
   pad_right_cut 143 112 (encode_text_stl (t_text t))].
Definition tti_field_ids : list N := [5; 6; 3; 2; 8; 9; 10; 4; 1; 7].
Definition tti_widths : list nat := [1; 2; 1; 1; 4; 4; 1; 1; 1; 112]%nat.
Theorem tti_bytes_uses_generated_layout :
  sort_by_id (offsets tti_field_ids tti_widths 0) = stl_tti_write_layout /\
  (forall fps dsc tcp t, tti_bytes fps dsc tcp t = concat (tti_fields fps dsc tcp t) /\ map (@length N) (tti_fields fps dsc tcp t) = tti_widths).
Proof.
  split; [vm_compute; reflexivity|]. intros fps dsc tcp t. split.
  - unfold tti_bytes, tti_fields. cbn [concat app]. rewrite app_nil_r. repeat rewrite <- app_assoc. reflexivity.
  - unfold tti_fields. cbn [map length]. rewrite !format_stl_bytes_length, pad_right_cut_length. reflexivity.
Qed.

(* sensitivity: with the programme-title field moved by one byte the parse equation is false on a computed block *)
Example layout_change_is_noticed :
  let lay' := map (fun e => if fst (fst e) =? 14 then (14, 17, 32) else e) stl_gsi_parse_layout in
  let b := gsi_bytes (mkGsi stl_c_cctLatin 0 [] [] 1 [48] [] [] 25 [] 40 23 [] [84;105;116;108;101] [] [] 0 [] 0 0 [49] 1 1 1 1 [] [] [] [] []) in
  parse_gsi b <> parse_gsi_at lay' b.
Proof. vm_compute. discriminate. Qed.
