(* The line scanner with bufio.Scanner's buffer limit (Kit/ScanLim.v): when every line fits, the tokens are [lines data]
   for every schedule; when a line cannot fit, scanning stops with ErrTooLong for every schedule after delivering the
   lines before it; the exact boundary, and the one case where it depends on how end-of-file is reported. *)
From Coq Require Import List NArith Bool Arith Lia.
From Astisub Require Import Kit.Base Kit.Scan Kit.ScanLim Proofs.ScanProofs.
Import ListNotations.

Local Notation nobrk tok := (forallb (fun c => negb (is_brk c)) tok = true).

(* ---- span / split / split_need ---- *)
Lemma span_app_nobrk buf more : snd (span_nobrk buf) = [] ->
  span_nobrk (buf ++ more) = (fst (span_nobrk buf) ++ fst (span_nobrk more), snd (span_nobrk more)).
Proof.
  induction buf as [|x xs IH]; intros H; cbn [span_nobrk app] in *.
  - destruct (span_nobrk more); reflexivity.
  - destruct (is_brk x) eqn:Hx; [discriminate H|].
    destruct (span_nobrk xs) as [a b] eqn:E. cbn [snd fst] in *. rewrite (IH H).
    cbn [fst snd app]. reflexivity.
Qed.

Lemma span_of_nobrk tok rest : nobrk tok -> (match rest with [] => True | c :: _ => is_brk c = true end) ->
  span_nobrk (tok ++ rest) = (tok, rest).
Proof.
  intros H Hr. induction tok as [|c t IH]; cbn [app].
  - destruct rest as [|c r]; [reflexivity|]. cbn [span_nobrk]. rewrite Hr. reflexivity.
  - cbn [forallb] in H. apply andb_true_iff in H. destruct H as [Hc Ht]. apply negb_true_iff in Hc.
    cbn [span_nobrk]. rewrite Hc, (IH Ht). reflexivity.
Qed.

Lemma span_rest_brk s tok c r : span_nobrk s = (tok, c :: r) -> is_brk c = true.
Proof.
  revert tok. induction s as [|x xs IH]; intros tok H; cbn [span_nobrk] in H; [discriminate|].
  destruct (is_brk x) eqn:Hx.
  - inversion H; subst. exact Hx.
  - destruct (span_nobrk xs) as [a b] eqn:E. inversion H; subst. eapply IH. reflexivity.
Qed.

(* a token delivered before end-of-file: the bytes needed were all in the buffer *)
Lemma split_false_need buf tok b' more : split buf false = Some (tok, b') ->
  exists k, split_need (buf ++ more) = Some k /\ (k <= length buf)%nat.
Proof.
  unfold split, split_need. destruct buf as [|x xs]; [discriminate|].
  destruct (span_nobrk (x :: xs)) as [t r] eqn:E. pose proof (span_length _ _ _ E) as HL.
  destruct r as [|c r]; [discriminate|].
  rewrite (span_app_brk _ _ _ _ more E). cbn [app].
  destruct (N.eqb c LF).
  - intros _. eexists. split; [reflexivity|]. cbn [length] in *. lia.
  - destruct r as [|c2 r2]; [discriminate|]. cbn [app]. intros _. eexists. split; [reflexivity|]. cbn [length] in *. lia.
Qed.

(* the split function asks for more: what it needs is beyond the buffer *)
Lemma split_none_need buf more k : split buf false = None -> split_need (buf ++ more) = Some k -> (length buf < k)%nat.
Proof.
  unfold split, split_need. destruct buf as [|x xs].
  - intros _. cbn [app length]. destruct (span_nobrk more) as [t r]. destruct r as [|c r]; [discriminate|].
    destruct (N.eqb c LF); [intros H; inversion H; lia|]. destruct r; [discriminate|]. intros H; inversion H; lia.
  - destruct (span_nobrk (x :: xs)) as [t r] eqn:E. pose proof (span_length _ _ _ E) as HL.
    destruct r as [|c r].
    + intros _. rewrite (span_app_nobrk (x :: xs) more) by (rewrite E; reflexivity). rewrite E. cbn [fst snd].
      destruct (span_nobrk more) as [a b]. cbn [fst snd]. rewrite app_length. cbn [length] in *.
      destruct b as [|c r]; [discriminate|].
      destruct (N.eqb c LF); [intros H; inversion H; lia|]. destruct r; [discriminate|]. intros H; inversion H; lia.
    + destruct (N.eqb c LF) eqn:Ec; [discriminate|].
      destruct r as [|c2 r2]; [|destruct (N.eqb c2 LF); discriminate].
      intros _. rewrite (span_app_brk _ _ _ _ more E). cbn [app]. rewrite Ec.
      destruct more as [|m ms]; [discriminate|]. intros H; inversion H. cbn [length] in *. lia.
Qed.

(* a line that needs k bytes: it is the first of [lines], it has k-1 or k-2 bytes, and k bytes are there *)
Lemma need_some s k : split_need s = Some k ->
  exists tok r, split s true = Some (tok, r) /\ (length tok + 1 <= k <= length tok + 2)%nat /\ (k <= length s)%nat.
Proof.
  unfold split_need. destruct (span_nobrk s) as [t r] eqn:E. pose proof (span_length _ _ _ E) as HL.
  destruct r as [|c r]; [discriminate|].
  assert (Hne : s <> []) by (destruct s; [cbn in E; inversion E | discriminate]).
  rewrite (split_of_span s true t (c :: r) E Hne).
  destruct (N.eqb c LF).
  - intros H; inversion H; subst. exists t, r. cbn [length] in *. repeat split; lia.
  - destruct r as [|c2 r2]; [discriminate|]. intros H; inversion H; subst. cbn [length] in *.
    destruct (N.eqb c2 LF); eexists _, _; (split; [reflexivity|]); lia.
Qed.

(* a line that only end-of-file releases: it is the last one, and the data is that line plus at most a CR *)
Lemma need_none s : s <> [] -> split_need s = None ->
  exists tok, split s true = Some (tok, []) /\ lines s = [tok] /\ (length tok <= length s <= length tok + 1)%nat.
Proof.
  intros Hne. unfold split_need. destruct (span_nobrk s) as [t r] eqn:E. pose proof (span_length _ _ _ E) as HL.
  assert (Hsp := split_of_span s true t r E Hne).
  destruct r as [|c r].
  - intros _. exists t. split; [exact Hsp|]. split; [rewrite (lines_unfold _ _ _ Hsp), lines_nil; reflexivity | cbn [length] in *; lia].
  - destruct (N.eqb c LF); [discriminate|]. destruct r as [|c2 r2]; [|discriminate].
    intros _. exists t. split; [exact Hsp|]. split; [rewrite (lines_unfold _ _ _ Hsp), lines_nil; reflexivity | cbn [length] in *; lia].
Qed.

(* ---- which inputs fit, which do not ---- *)
(* every line can be delivered whatever the schedule: a terminated line with the bytes it needs within [max]; the last,
   unterminated line (or one ending in a final CR) strictly shorter than [max], so that the Read that reports
   end-of-file can still be issued *)
Inductive lim_fits (max : nat) : str -> Prop :=
| lf_nil : lim_fits max []
| lf_last s : s <> [] -> split_need s = None -> (length s < max)%nat -> lim_fits max s
| lf_cons s k tok r : split_need s = Some k -> (k <= max)%nat -> split s true = Some (tok, r) -> lim_fits max r -> lim_fits max s.

(* line number [j] (from 0) is the first that can never be delivered: a terminated line needing more than [max] bytes,
   or a last line longer than [max] *)
Inductive lim_overlong (max : nat) : str -> nat -> Prop :=
| lo_last s : s <> [] -> split_need s = None -> (max < length s)%nat -> lim_overlong max s 0
| lo_here s k : split_need s = Some k -> (max < k)%nat -> lim_overlong max s 0
| lo_later s k tok r j : split_need s = Some k -> (k <= max)%nat -> split s true = Some (tok, r) ->
    lim_overlong max r j -> lim_overlong max s (S j).

Lemma lim_overlong_length max s j : lim_overlong max s j -> (max < length s)%nat.
Proof.
  intros H. induction H as [s Hne Hn Hl | s k Hn Hk | s k tok r j Hn Hk Hs Hr IH].
  - exact Hl.
  - destruct (need_some s k Hn) as (_ & _ & _ & _ & Hks). lia.
  - pose proof (split_shrinks _ _ _ _ Hs). lia.
Qed.

Lemma lim_overlong_index max s j : lim_overlong max s j -> (j < length (lines s))%nat.
Proof.
  intros H. induction H as [s Hne Hn Hl | s k Hn Hk | s k tok r j Hn Hk Hs Hr IH].
  - destruct (need_none s Hne Hn) as (tok & _ & E & _). rewrite E. cbn [length]. lia.
  - destruct (need_some s k Hn) as (tok & r & Hs & _). rewrite (lines_unfold _ _ _ Hs). cbn [length]. lia.
  - rewrite (lines_unfold _ _ _ Hs). cbn [length]. lia.
Qed.

(* ---- the two schedule-independent theorems ---- *)
Theorem scan_lim_abs_fits max : (0 < max)%nat -> forall fuel buf rest counts,
  (length buf + 2 * length rest + length counts < fuel)%nat -> (length buf <= max)%nat ->
  lim_fits max (buf ++ rest) -> scan_lim_abs fuel max buf rest counts = (lines (buf ++ rest), false).
Proof.
  intros Hmax. induction fuel as [|f IH]; intros buf rest counts Hf Hb HF; [lia|].
  cbn [scan_lim_abs]. destruct (split buf false) as [[tok b']|] eqn:E.
  - pose proof (split_stable _ _ _ rest E) as E2. pose proof (split_shrinks _ _ _ _ E) as Hs.
    destruct (split_false_need buf tok b' rest E) as (k & Hk & _).
    assert (HF' : lim_fits max (b' ++ rest)).
    { inversion HF as [Hnil | s Hne Hn Hl | s k0 tok0 r0 Hn Hk0 Hs0 Hr0]; subst.
      - exfalso. destruct buf; [discriminate E | discriminate].
      - congruence.
      - rewrite E2 in Hs0. inversion Hs0; subst. exact Hr0. }
    rewrite (IH b' rest counts) by (try assumption; lia).
    rewrite (lines_unfold _ _ _ E2). reflexivity.
  - destruct (Nat.leb max (length buf)) eqn:Efull.
    + (* buffer full: impossible when everything fits *)
      apply Nat.leb_le in Efull. exfalso.
      inversion HF as [Hnil | s Hne Hn Hl | s k0 tok0 r0 Hn Hk0 Hs0 Hr0]; subst.
      * destruct buf; [cbn [length] in *; lia | discriminate].
      * rewrite app_length in Hl. lia.
      * pose proof (split_none_need buf rest k0 E Hn). lia.
    + apply Nat.leb_gt in Efull. destruct counts as [|k cs].
      * destruct (Nat.leb (length rest) (max - length buf)) eqn:Er; [reflexivity|].
        apply Nat.leb_gt in Er.
        assert (Hl1 : length (firstn (max - length buf) rest) = (max - length buf)%nat) by (apply firstn_length_le; lia).
        assert (Hl2 : length (skipn (max - length buf) rest) = (length rest - (max - length buf))%nat) by apply skipn_length.
        rewrite IH.
        -- rewrite <- app_assoc, firstn_skipn. reflexivity.
        -- rewrite app_length, Hl1, Hl2. cbn [length]. lia.
        -- rewrite app_length, Hl1. lia.
        -- rewrite <- app_assoc, firstn_skipn. exact HF.
      * set (k' := Nat.min k (max - length buf)).
        assert (Hl1 : (length (firstn k' rest) <= k')%nat) by apply firstn_le_length.
        assert (Hl3 : (length (firstn k' rest) + length (skipn k' rest) = length rest)%nat)
          by (rewrite <- app_length, firstn_skipn; reflexivity).
        rewrite IH.
        -- rewrite <- app_assoc, firstn_skipn. reflexivity.
        -- rewrite app_length. cbn [length] in Hf. lia.
        -- rewrite app_length. unfold k' in *. lia.
        -- rewrite <- app_assoc, firstn_skipn. exact HF.
Qed.

Theorem scan_lim_abs_overlong max : forall fuel buf rest counts j,
  (length buf + 2 * length rest + length counts < fuel)%nat -> (length buf <= max)%nat ->
  lim_overlong max (buf ++ rest) j ->
  scan_lim_abs fuel max buf rest counts = (firstn j (lines (buf ++ rest)), true).
Proof.
  induction fuel as [|f IH]; intros buf rest counts j Hf Hb HO; [lia|].
  cbn [scan_lim_abs]. destruct (split buf false) as [[tok b']|] eqn:E.
  - pose proof (split_stable _ _ _ rest E) as E2. pose proof (split_shrinks _ _ _ _ E) as Hs.
    destruct (split_false_need buf tok b' rest E) as (k & Hk & Hkb).
    inversion HO as [s Hne Hn Hl | s k0 Hn Hk0 | s k0 tok0 r0 j0 Hn Hk0 Hs0 Hr0]; subst.
    + congruence.
    + rewrite Hk in Hn. inversion Hn; subst. lia.
    + rewrite E2 in Hs0. inversion Hs0; subst.
      rewrite (IH b' rest counts j0) by (try assumption; lia).
      rewrite (lines_unfold _ _ _ E2). reflexivity.
  - destruct (Nat.leb max (length buf)) eqn:Efull.
    + apply Nat.leb_le in Efull.
      inversion HO as [s Hne Hn Hl | s k0 Hn Hk0 | s k0 tok0 r0 j0 Hn Hk0 Hs0 Hr0]; subst; try reflexivity.
      exfalso. pose proof (split_none_need buf rest k0 E Hn). lia.
    + apply Nat.leb_gt in Efull. pose proof (lim_overlong_length _ _ _ HO) as HL. rewrite app_length in HL.
      destruct counts as [|k cs].
      * destruct (Nat.leb (length rest) (max - length buf)) eqn:Er; [apply Nat.leb_le in Er; lia|].
        apply Nat.leb_gt in Er.
        assert (Hl1 : length (firstn (max - length buf) rest) = (max - length buf)%nat) by (apply firstn_length_le; lia).
        assert (Hl2 : length (skipn (max - length buf) rest) = (length rest - (max - length buf))%nat) by apply skipn_length.
        rewrite (IH _ _ _ j).
        -- rewrite <- app_assoc, firstn_skipn. reflexivity.
        -- rewrite app_length, Hl1, Hl2. cbn [length]. lia.
        -- rewrite app_length, Hl1. lia.
        -- rewrite <- app_assoc, firstn_skipn. exact HO.
      * set (k' := Nat.min k (max - length buf)).
        assert (Hl1 : (length (firstn k' rest) <= k')%nat) by apply firstn_le_length.
        assert (Hl3 : (length (firstn k' rest) + length (skipn k' rest) = length rest)%nat)
          by (rewrite <- app_length, firstn_skipn; reflexivity).
        rewrite (IH _ _ _ j).
        -- rewrite <- app_assoc, firstn_skipn. reflexivity.
        -- rewrite app_length. cbn [length] in Hf. lia.
        -- rewrite app_length. unfold k' in *. lia.
        -- rewrite <- app_assoc, firstn_skipn. exact HO.
Qed.

(* every schedule: all the lines, no error *)
Theorem scan_lim_fits max data counts : (0 < max)%nat -> lim_fits max data ->
  scan_lim max data counts = (lines data, false).
Proof.
  intros Hmax HF. unfold scan_lim. rewrite (scan_lim_abs_fits max Hmax); cbn [app length]; first [reflexivity | assumption | lia].
Qed.

(* every schedule: the lines before the first one that cannot be buffered, then ErrTooLong *)
Theorem scan_lim_overlong max data counts j : lim_overlong max data j ->
  scan_lim max data counts = (firstn j (lines data), true).
Proof.
  intros HO. unfold scan_lim. rewrite (scan_lim_abs_overlong max _ [] data counts j); cbn [app length]; first [reflexivity | assumption | lia].
Qed.

(* ---- in terms of the line lengths only ---- *)
Lemma fits_of_lengths max : forall n s, (length s < n)%nat ->
  Forall (fun l => (length l + 2 <= max)%nat) (lines s) -> lim_fits max s.
Proof.
  induction n as [|n IH]; intros s Hn HA; [lia|].
  destruct s as [|x xs]; [constructor|]. set (s := x :: xs) in *.
  assert (Hne : s <> []) by discriminate.
  destruct (split_need s) as [k|] eqn:Ek.
  - destruct (need_some s k Ek) as (tok & r & Hs & Hk & _).
    rewrite (lines_unfold _ _ _ Hs) in HA. inversion HA as [|? ? Ht Hr]; subst.
    apply (lf_cons max s k tok r Ek); [lia | exact Hs |].
    apply IH; [pose proof (split_shrinks _ _ _ _ Hs); lia | exact Hr].
  - destruct (need_none s Hne Ek) as (tok & _ & El & Hl). rewrite El in HA. inversion HA as [|? ? Ht _]; subst.
    apply lf_last; [exact Hne | exact Ek | lia].
Qed.

(* (a) every line at least two bytes shorter than the buffer: the capacity never matters *)
Theorem scan_lim_short_lines max data counts : (0 < max)%nat ->
  Forall (fun l => (length l + 2 <= max)%nat) (lines data) -> scan_lim max data counts = (lines data, false).
Proof.
  intros Hmax HA. apply scan_lim_fits; [exact Hmax|]. apply (fits_of_lengths max (S (length data))); [lia | exact HA].
Qed.

Lemma overlong_of_lengths max : forall n s, (length s < n)%nat ->
  Exists (fun l => (max < length l)%nat) (lines s) -> exists j, lim_overlong max s j.
Proof.
  induction n as [|n IH]; intros s Hn HE; [lia|].
  destruct s as [|x xs]; [rewrite lines_nil in HE; inversion HE|]. set (s := x :: xs) in *.
  assert (Hne : s <> []) by discriminate.
  destruct (split_need s) as [k|] eqn:Ek.
  - destruct (need_some s k Ek) as (tok & r & Hs & Hk & _).
    destruct (Nat.ltb max k) eqn:C.
    + apply Nat.ltb_lt in C. exists 0%nat. apply (lo_here max s k Ek C).
    + apply Nat.ltb_ge in C. rewrite (lines_unfold _ _ _ Hs) in HE. inversion HE as [? ? Ht | ? ? Hr]; subst; [lia|].
      destruct (IH r ltac:(pose proof (split_shrinks _ _ _ _ Hs); lia) Hr) as (j & Hj).
      exists (S j). apply (lo_later max s k tok r j Ek C Hs Hj).
  - destruct (need_none s Hne Ek) as (tok & _ & El & Hl). rewrite El in HE.
    inversion HE as [? ? Ht | ? ? Hr]; subst; [|inversion Hr].
    exists 0%nat. apply lo_last; [exact Hne | exact Ek | lia].
Qed.

(* (b) some line longer than the buffer: ErrTooLong under every schedule, after a prefix of the lines *)
Theorem scan_lim_long_line max data : Exists (fun l => (max < length l)%nat) (lines data) ->
  exists j, (j < length (lines data))%nat /\ forall counts, scan_lim max data counts = (firstn j (lines data), true).
Proof.
  intros HE. destruct (overlong_of_lengths max (S (length data)) data ltac:(lia) HE) as (j & Hj).
  exists j. split; [exact (lim_overlong_index _ _ _ Hj)|]. intros counts. apply scan_lim_overlong. exact Hj.
Qed.

(* ---- (c) the boundary, line by line ---- *)
Lemma need_lf tok rest : nobrk tok -> split_need (tok ++ LF :: rest) = Some (length tok + 1)%nat.
Proof. intros H. unfold split_need. rewrite (span_of_nobrk tok (LF :: rest) H eq_refl). reflexivity. Qed.

Lemma need_cr tok c rest : nobrk tok -> split_need (tok ++ CR :: c :: rest) = Some (length tok + 2)%nat.
Proof. intros H. unfold split_need. rewrite (span_of_nobrk tok (CR :: c :: rest) H eq_refl). reflexivity. Qed.

Lemma need_cr_end tok : nobrk tok -> split_need (tok ++ [CR]) = None.
Proof. intros H. unfold split_need. rewrite (span_of_nobrk tok [CR] H eq_refl). reflexivity. Qed.

Lemma need_plain tok : nobrk tok -> split_need tok = None.
Proof. intros H. unfold split_need. rewrite <- (app_nil_r tok) at 1. rewrite (span_of_nobrk tok [] H I). reflexivity. Qed.

Lemma split_lf tok rest : nobrk tok -> split (tok ++ LF :: rest) true = Some (tok, rest).
Proof.
  intros H. rewrite (split_of_span _ true tok (LF :: rest) (span_of_nobrk tok (LF :: rest) H eq_refl) (app_cons_nonnil _ _ _)).
  reflexivity.
Qed.

Lemma split_crlf tok rest : nobrk tok -> split (tok ++ CR :: LF :: rest) true = Some (tok, rest).
Proof.
  intros H. rewrite (split_of_span _ true tok (CR :: LF :: rest) (span_of_nobrk tok (CR :: LF :: rest) H eq_refl) (app_cons_nonnil _ _ _)).
  reflexivity.
Qed.

Lemma split_cr tok c rest : nobrk tok -> c <> LF -> split (tok ++ CR :: c :: rest) true = Some (tok, c :: rest).
Proof.
  intros H Hc. rewrite (split_of_span _ true tok (CR :: c :: rest) (span_of_nobrk tok (CR :: c :: rest) H eq_refl) (app_cons_nonnil _ _ _)).
  change (N.eqb CR LF) with false. cbv iota. destruct (N.eqb c LF) eqn:E; [apply N.eqb_eq in E; contradiction | reflexivity].
Qed.

(* a line ended by LF: the line and the LF must fit - at most max - 1 bytes of text *)
Theorem boundary_lf max tok rest counts : (0 < max)%nat -> nobrk tok -> lim_fits max rest ->
  scan_lim max (tok ++ LF :: rest) counts =
  if Nat.leb (length tok + 1) max then (tok :: lines rest, false) else ([], true).
Proof.
  intros Hmax H HF. destruct (Nat.leb (length tok + 1) max) eqn:C.
  - apply Nat.leb_le in C. rewrite <- (lines_cons_lf tok rest H). apply scan_lim_fits; [exact Hmax|].
    apply (lf_cons max _ _ tok rest (need_lf tok rest H) C (split_lf tok rest H) HF).
  - apply Nat.leb_gt in C. apply (scan_lim_overlong max _ counts 0). apply (lo_here max _ _ (need_lf tok rest H)). lia.
Qed.

(* a line ended by CR LF: the line, the CR and the LF must fit - at most max - 2 bytes of text *)
Theorem boundary_crlf max tok rest counts : (0 < max)%nat -> nobrk tok -> lim_fits max rest ->
  scan_lim max (tok ++ CR :: LF :: rest) counts =
  if Nat.leb (length tok + 2) max then (tok :: lines rest, false) else ([], true).
Proof.
  intros Hmax H HF. destruct (Nat.leb (length tok + 2) max) eqn:C.
  - apply Nat.leb_le in C. rewrite <- (lines_cons_crlf tok rest H). apply scan_lim_fits; [exact Hmax|].
    apply (lf_cons max _ _ tok rest (need_cr tok LF rest H) C (split_crlf tok rest H) HF).
  - apply Nat.leb_gt in C. apply (scan_lim_overlong max _ counts 0). apply (lo_here max _ _ (need_cr tok LF rest H)). lia.
Qed.

(* a line ended by a lone CR followed by more text: the line, the CR and the byte after it (the look-ahead) must fit -
   at most max - 2 bytes of text, although the terminator is one byte *)
Theorem boundary_cr max tok c rest counts : (0 < max)%nat -> nobrk tok -> c <> LF -> lim_fits max (c :: rest) ->
  scan_lim max (tok ++ CR :: c :: rest) counts =
  if Nat.leb (length tok + 2) max then (tok :: lines (c :: rest), false) else ([], true).
Proof.
  intros Hmax H Hc HF. destruct (Nat.leb (length tok + 2) max) eqn:C.
  - apply Nat.leb_le in C. rewrite <- (lines_cons_cr tok c rest H Hc). apply scan_lim_fits; [exact Hmax|].
    apply (lf_cons max _ _ tok (c :: rest) (need_cr tok c rest H) C (split_cr tok c rest H Hc) HF).
  - apply Nat.leb_gt in C. apply (scan_lim_overlong max _ counts 0). apply (lo_here max _ _ (need_cr tok c rest H)). lia.
Qed.

(* the last line, without terminator: strictly less than max bytes always passes, more than max never; exactly max
   bytes: it depends on how end-of-file is reported *)
Theorem boundary_last max tok counts : tok <> [] -> nobrk tok ->
  ((length tok < max)%nat -> scan_lim max tok counts = ([tok], false)) /\
  ((max < length tok)%nat -> scan_lim max tok counts = ([], true)).
Proof.
  intros Hne H. split; intros C.
  - rewrite <- (lines_last tok Hne H). apply scan_lim_fits; [lia|]. apply lf_last; [exact Hne | exact (need_plain tok H) | exact C].
  - apply (scan_lim_overlong max _ counts 0). apply lo_last; [exact Hne | exact (need_plain tok H) | exact C].
Qed.

Lemma span_plain tok : nobrk tok -> span_nobrk tok = (tok, []).
Proof. intros H. rewrite <- (app_nil_r tok) at 1. apply (span_of_nobrk tok [] H I). Qed.

Lemma firstn_all_exact {A} (l : list A) : firstn (length l) l = l.
Proof. apply firstn_all. Qed.

Theorem boundary_last_exact max tok : tok <> [] -> nobrk tok -> length tok = max ->
  scan_lim max tok [] = ([tok], false) /\              (* end-of-file reported with the last bytes *)
  scan_lim max tok [max] = ([], true) /\               (* all the bytes, then a Read that would report end-of-file *)
  scan_lim max tok [max; 0%nat] = ([], true).
Proof.
  intros Hne H HL. assert (Hmax : (0 < max)%nat) by (destruct tok; [contradiction | cbn [length] in HL; lia]).
  assert (Hsp : split tok false = None).
  { rewrite (split_of_span tok false tok [] (span_plain tok H) Hne). reflexivity. }
  assert (Hfull : Nat.leb max (length tok) = true) by (apply Nat.leb_le; lia).
  assert (Hempty : Nat.leb max 0 = false) by (apply Nat.leb_gt; exact Hmax).
  assert (Ef : firstn max tok = tok) by (rewrite <- HL; apply firstn_all).
  unfold scan_lim. repeat split.
  - cbn [scan_lim_abs split length]. rewrite Hempty. rewrite Nat.sub_0_r.
    assert (E : Nat.leb (length tok) max = true) by (apply Nat.leb_le; lia). rewrite E. cbn [app].
    rewrite (lines_last tok Hne H). reflexivity.
  - cbn [scan_lim_abs split length]. rewrite Hempty, Nat.sub_0_r, Nat.min_id. cbn [app].
    rewrite Ef, Hsp, Hfull. reflexivity.
  - cbn [scan_lim_abs split length]. rewrite Hempty, Nat.sub_0_r, Nat.min_id. cbn [app].
    rewrite Ef, Hsp, Hfull. reflexivity.
Qed.

(* the last line ended by a CR at the very end of the data: the scanner waits for the byte after the CR, so the line
   and the CR must leave room for one more Read: at most max - 2 bytes of text always pass, max or more never; exactly
   max - 1 bytes: it depends on how end-of-file is reported *)
Theorem boundary_last_cr max tok counts : nobrk tok ->
  ((length tok + 1 < max)%nat -> scan_lim max (tok ++ [CR]) counts = ([tok], false)) /\
  ((max < length tok + 1)%nat -> scan_lim max (tok ++ [CR]) counts = ([], true)).
Proof.
  intros H.
  assert (Hne : tok ++ [CR] <> []) by apply app_cons_nonnil.
  assert (El : lines (tok ++ [CR]) = [tok]).
  { destruct (need_none _ Hne (need_cr_end tok H)) as (t & Hs & El & _). rewrite El. f_equal.
    rewrite (split_of_span _ true tok [CR] (span_of_nobrk tok [CR] H eq_refl) Hne) in Hs. cbv in Hs. inversion Hs. reflexivity. }
  split; intros C.
  - rewrite <- El. apply scan_lim_fits; [lia|]. apply lf_last; [exact Hne | exact (need_cr_end tok H) | rewrite app_length; cbn [length]; lia].
  - apply (scan_lim_overlong max _ counts 0). apply lo_last; [exact Hne | exact (need_cr_end tok H) | rewrite app_length; cbn [length]; lia].
Qed.

Theorem boundary_last_cr_exact max tok : nobrk tok -> (length tok + 1)%nat = max ->
  scan_lim max (tok ++ [CR]) [] = ([tok], false) /\ scan_lim max (tok ++ [CR]) [max] = ([], true).
Proof.
  intros H HL. set (s := tok ++ [CR]).
  assert (Hne : s <> []) by apply app_cons_nonnil.
  assert (Hlen : length s = max) by (unfold s; rewrite app_length; cbn [length]; exact HL).
  assert (Hsp : split s false = None).
  { unfold s. rewrite (split_of_span _ false tok [CR] (span_of_nobrk tok [CR] H eq_refl) Hne). reflexivity. }
  assert (El : lines s = [tok]).
  { destruct (need_none _ Hne (need_cr_end tok H)) as (t & Hs & El & _). fold s in Hs, El. rewrite El. f_equal.
    unfold s in Hs. rewrite (split_of_span _ true tok [CR] (span_of_nobrk tok [CR] H eq_refl) Hne) in Hs. cbv in Hs. inversion Hs. reflexivity. }
  assert (Hfull : Nat.leb max (length s) = true) by (apply Nat.leb_le; lia).
  assert (Hempty : Nat.leb max 0 = false) by (apply Nat.leb_gt; lia).
  assert (Ef : firstn max s = s) by (rewrite <- Hlen; apply firstn_all).
  unfold scan_lim. split.
  - cbn [scan_lim_abs split length]. rewrite Hempty, Nat.sub_0_r.
    assert (E : Nat.leb (length s) max = true) by (apply Nat.leb_le; lia). rewrite E. cbn [app]. rewrite El. reflexivity.
  - cbn [scan_lim_abs split length]. rewrite Hempty, Nat.sub_0_r, Nat.min_id. cbn [app].
    rewrite Ef, Hsp, Hfull. reflexivity.
Qed.

(* ---- the real constant: bufio.MaxScanTokenSize = 65536; lines of 'a' ---- *)
Lemma nobrk_repeat n : nobrk (repeat 97%N n).
Proof. induction n as [|n IH]; [reflexivity|]. cbn [repeat forallb]. rewrite IH. reflexivity. Qed.

Definition a_line (n : N) : str := repeat 97%N (N.to_nat n).
Lemma a_line_length n : length (a_line n) = N.to_nat n.
Proof. apply repeat_length. Qed.
Lemma a_line_nonnil n : (0 < n)%N -> a_line n <> [].
Proof. intros H E. apply (f_equal (@length _)) in E. rewrite a_line_length in E. cbn [length] in E. lia. Qed.

Ltac lim_arith := unfold max_scan_token; rewrite ?a_line_length; lia.
Ltac lim_leb b := match goal with |- context [Nat.leb ?x ?y] =>
  let E := fresh "E" in assert (E : Nat.leb x y = b) by (first [apply Nat.leb_le | apply Nat.leb_gt]; lim_arith); rewrite E end.

(* LF: 65535 bytes of text pass, 65536 do not - under every schedule *)
Example real_boundary_lf counts :
  scan_lim max_scan_token (a_line 65535 ++ [LF]) counts = ([a_line 65535], false) /\
  scan_lim max_scan_token (a_line 65536 ++ [LF]) counts = ([], true).
Proof.
  split.
  - rewrite (boundary_lf max_scan_token (a_line 65535) [] counts ltac:(lim_arith) (nobrk_repeat _) (lf_nil _)).
    lim_leb true. reflexivity.
  - rewrite (boundary_lf max_scan_token (a_line 65536) [] counts ltac:(lim_arith) (nobrk_repeat _) (lf_nil _)).
    lim_leb false. reflexivity.
Qed.

(* CR LF: 65534 pass, 65535 do not *)
Example real_boundary_crlf counts :
  scan_lim max_scan_token (a_line 65534 ++ [CR; LF]) counts = ([a_line 65534], false) /\
  scan_lim max_scan_token (a_line 65535 ++ [CR; LF]) counts = ([], true).
Proof.
  split.
  - rewrite (boundary_crlf max_scan_token (a_line 65534) [] counts ltac:(lim_arith) (nobrk_repeat _) (lf_nil _)).
    lim_leb true. reflexivity.
  - rewrite (boundary_crlf max_scan_token (a_line 65535) [] counts ltac:(lim_arith) (nobrk_repeat _) (lf_nil _)).
    lim_leb false. reflexivity.
Qed.

(* a lone CR followed by text ("x"): 65534 pass, 65535 do not - one byte of look-ahead beyond the terminator *)
Example real_boundary_cr counts :
  scan_lim max_scan_token (a_line 65534 ++ [CR; 120%N]) counts = ([a_line 65534; [120%N]], false) /\
  scan_lim max_scan_token (a_line 65535 ++ [CR; 120%N]) counts = ([], true).
Proof.
  assert (Hx : lim_fits max_scan_token [120%N]).
  { apply lf_last; [discriminate | reflexivity | unfold max_scan_token; cbn [length]; lia]. }
  assert (Hc : 120%N <> LF) by discriminate.
  split.
  - rewrite (boundary_cr max_scan_token (a_line 65534) 120%N [] counts ltac:(lim_arith) (nobrk_repeat _) Hc Hx).
    lim_leb true. reflexivity.
  - rewrite (boundary_cr max_scan_token (a_line 65535) 120%N [] counts ltac:(lim_arith) (nobrk_repeat _) Hc Hx).
    lim_leb false. reflexivity.
Qed.

(* no terminator: 65535 pass and 65537 do not under every schedule; 65536 pass iff end-of-file comes with the last
   bytes (bytes.Reader, strings.Reader and files report it by a separate Read: ErrTooLong) *)
Example real_boundary_last counts :
  scan_lim max_scan_token (a_line 65535) counts = ([a_line 65535], false) /\
  scan_lim max_scan_token (a_line 65537) counts = ([], true) /\
  scan_lim max_scan_token (a_line 65536) [] = ([a_line 65536], false) /\
  scan_lim max_scan_token (a_line 65536) [max_scan_token] = ([], true).
Proof.
  split; [|split].
  - apply (boundary_last max_scan_token (a_line 65535) counts (a_line_nonnil 65535 eq_refl) (nobrk_repeat _)). lim_arith.
  - apply (boundary_last max_scan_token (a_line 65537) counts (a_line_nonnil 65537 eq_refl) (nobrk_repeat _)). lim_arith.
  - destruct (boundary_last_exact max_scan_token (a_line 65536) (a_line_nonnil 65536 eq_refl) (nobrk_repeat _) ltac:(lim_arith)) as (A & B & _).
    split; assumption.
Qed.

(* a CR at the very end of the data: 65534 pass and 65536 do not under every schedule; 65535 depend on the
   end-of-file report in the same way *)
Example real_boundary_last_cr counts :
  scan_lim max_scan_token (a_line 65534 ++ [CR]) counts = ([a_line 65534], false) /\
  scan_lim max_scan_token (a_line 65536 ++ [CR]) counts = ([], true) /\
  scan_lim max_scan_token (a_line 65535 ++ [CR]) [] = ([a_line 65535], false) /\
  scan_lim max_scan_token (a_line 65535 ++ [CR]) [max_scan_token] = ([], true).
Proof.
  split; [|split].
  - apply (boundary_last_cr max_scan_token (a_line 65534) counts (nobrk_repeat _)). lim_arith.
  - apply (boundary_last_cr max_scan_token (a_line 65536) counts (nobrk_repeat _)). lim_arith.
  - apply (boundary_last_cr_exact max_scan_token (a_line 65535) (nobrk_repeat _)). lim_arith.
Qed.

(* tokens before the over-long line are delivered: "ab" LF, then 65536 bytes and LF *)
Example real_prefix_delivered counts :
  scan_lim max_scan_token ([97; 98; 10]%N ++ a_line 65536 ++ [LF]) counts = ([[97; 98]%N], true).
Proof.
  assert (HO : lim_overlong max_scan_token ([97; 98; 10]%N ++ a_line 65536 ++ [LF]) 1).
  { apply (lo_later max_scan_token _ 3 [97; 98]%N (a_line 65536 ++ [LF]) 0).
    - reflexivity.
    - unfold max_scan_token. lia.
    - reflexivity.
    - apply (lo_here max_scan_token _ _ (need_lf (a_line 65536) [] (nobrk_repeat _))). lim_arith. }
  rewrite (scan_lim_overlong _ _ counts 1 HO).
  change ([97; 98; 10]%N ++ a_line 65536 ++ [LF]) with ([97; 98]%N ++ LF :: (a_line 65536 ++ [LF])).
  rewrite (lines_cons_lf [97; 98]%N _ eq_refl). reflexivity.
Qed.

(* ---- for EVERY input and schedule (the boundary cases included): what is delivered is a prefix of [lines data], and
   all of it when no error is raised ---- *)
Lemma scan_lim_abs_sound max : forall fuel buf rest counts,
  (length buf + 2 * length rest + length counts < fuel)%nat ->
  (snd (scan_lim_abs fuel max buf rest counts) = false -> fst (scan_lim_abs fuel max buf rest counts) = lines (buf ++ rest)) /\
  (exists j, fst (scan_lim_abs fuel max buf rest counts) = firstn j (lines (buf ++ rest))).
Proof.
  induction fuel as [|f IH]; intros buf rest counts Hf; [lia|].
  cbn [scan_lim_abs]. destruct (split buf false) as [[tok b']|] eqn:E.
  - pose proof (split_stable _ _ _ rest E) as E2. pose proof (split_shrinks _ _ _ _ E) as Hs.
    destruct (IH b' rest counts ltac:(lia)) as (A & j & B).
    destruct (scan_lim_abs f max b' rest counts) as [ts e]. cbn [fst snd] in *.
    rewrite (lines_unfold _ _ _ E2). split.
    + intros He. rewrite (A He). reflexivity.
    + exists (S j). rewrite B. reflexivity.
  - destruct (Nat.leb max (length buf)) eqn:Efull.
    + cbn [fst snd]. split; [discriminate | exists 0%nat; reflexivity].
    + destruct counts as [|k cs].
      * destruct (Nat.leb (length rest) (max - length buf)) eqn:Er.
        -- cbn [fst snd]. split; [reflexivity | exists (length (lines (buf ++ rest))); rewrite firstn_all; reflexivity].
        -- apply Nat.leb_gt in Er. apply Nat.leb_gt in Efull.
           assert (Hl1 : length (firstn (max - length buf) rest) = (max - length buf)%nat) by (apply firstn_length_le; lia).
           assert (Hl2 : length (skipn (max - length buf) rest) = (length rest - (max - length buf))%nat) by apply skipn_length.
           specialize (IH (buf ++ firstn (max - length buf) rest) (skipn (max - length buf) rest) []).
           rewrite <- app_assoc, firstn_skipn in IH. apply IH.
           rewrite app_length, Hl1, Hl2. cbn [length]. lia.
      * set (k' := Nat.min k (max - length buf)).
        assert (Hl3 : (length (firstn k' rest) + length (skipn k' rest) = length rest)%nat)
          by (rewrite <- app_length, firstn_skipn; reflexivity).
        specialize (IH (buf ++ firstn k' rest) (skipn k' rest) cs).
        rewrite <- app_assoc, firstn_skipn in IH. apply IH.
        rewrite app_length. cbn [length] in Hf. lia.
Qed.

Theorem scan_lim_sound max data counts :
  (snd (scan_lim max data counts) = false -> fst (scan_lim max data counts) = lines data) /\
  (exists j, fst (scan_lim max data counts) = firstn j (lines data)).
Proof. unfold scan_lim. apply (scan_lim_abs_sound max _ [] data counts). cbn [length]. lia. Qed.
