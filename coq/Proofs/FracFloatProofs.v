(* The float path of formatDuration's fraction equals the integer quotient.
   Also hosts the small binary64 toolkit shared with LinProofs.v. *)
From Coq Require Import ZArith Reals Lia Lra Bool.
From Flocq Require Import Core BinarySingleNaN.
From Astisub Require Import Kit.Float64 Model.Lin.
Open Scope R_scope.

(* ---------------------------------------------------------------- *)
(* binary64 toolkit                                                   *)

Notation fexp := (FLT_exp (3 - emax - prec) prec).
Notation RN := (round radix2 fexp ZnearestE).
Notation fmt := (generic_format radix2 fexp).

Global Instance Hprec_inst : Prec_gt_0 prec := Hprec.

Ltac norm_fexp :=
  cbv zeta; simpl round_mode;
  change (SpecFloat.fexp prec emax) with (FLT_exp (3 - emax - prec) prec).

(* m * 2^e with |m| < 2^53 and e >= -1074 is a binary64 number *)
Lemma fmt_F2R : forall m e : Z, (Z.abs m < 2 ^ 53)%Z -> (-1074 <= e)%Z ->
  fmt (F2R (Float radix2 m e)).
Proof.
  intros m e Hm He. apply generic_format_FLT.
  apply (FLT_spec radix2 (3 - emax - prec) prec _ (Float radix2 m e)).
  - reflexivity.
  - exact Hm.
  - exact He.
Qed.

Lemma F2R_0exp : forall z : Z, F2R (Float radix2 z 0) = IZR z.
Proof. intros z. unfold F2R. simpl. ring. Qed.

Lemma fmt_IZR : forall z : Z, (Z.abs z < 2 ^ 53)%Z -> fmt (IZR z).
Proof. intros z Hz. rewrite <- F2R_0exp. apply fmt_F2R; [exact Hz | lia]. Qed.

Lemma fmt_bpow : forall e : Z, (-1074 <= e)%Z -> fmt (bpow radix2 e).
Proof.
  intros e He. apply generic_format_FLT_bpow; [exact Hprec | exact He].
Qed.

(* no overflow as soon as |x| <= 2^100 *)
Lemma no_overflow : forall x, Rabs x <= bpow radix2 100 ->
  Rlt_bool (Rabs (RN x)) (bpow radix2 emax) = true.
Proof.
  intros x Hx. apply Rlt_bool_true.
  apply Rle_lt_trans with (bpow radix2 100).
  - apply abs_round_le_generic; auto with typeclass_instances.
    apply fmt_bpow. lia.
  - apply bpow_lt. reflexivity.
Qed.

Lemma bpow100_big : 2 ^ 60 <= bpow radix2 100.
Proof.
  replace (2 ^ 60) with (bpow radix2 60).
  - apply bpow_le. lia.
  - simpl. lra.
Qed.

Lemma of_Z_correct : forall z : Z, (Z.abs z < 2 ^ 53)%Z ->
  B2R (of_Z z) = IZR z /\ is_finite (of_Z z) = true.
Proof.
  intros z Hz. unfold of_Z.
  generalize (binary_normalize_correct prec emax Hprec Hmax mode_NE z 0 false).
  norm_fexp. rewrite F2R_0exp.
  assert (Hr : RN (IZR z) = IZR z).
  { apply round_generic; auto with typeclass_instances. apply fmt_IZR, Hz. }
  rewrite Hr.
  rewrite Rlt_bool_true.
  - intros [H1 [H2 _]]. split; assumption.
  - apply Rlt_le_trans with (bpow radix2 53).
    + change (bpow radix2 53) with (IZR (2 ^ 53)). rewrite <- abs_IZR. apply IZR_lt, Hz.
    + apply bpow_le. unfold emax. lia.
Qed.

Lemma fdiv_correct : forall x y : f64, is_finite x = true -> B2R y <> 0 ->
  Rabs (B2R x / B2R y) <= bpow radix2 100 ->
  B2R (fdiv x y) = RN (B2R x / B2R y) /\ is_finite (fdiv x y) = true.
Proof.
  intros x y Fx Hy Hb. unfold fdiv.
  generalize (Bdiv_correct prec emax Hprec Hmax mode_NE x y Hy).
  norm_fexp. rewrite (no_overflow _ Hb).
  intros [H1 [H2 _]]. split; [exact H1 | now rewrite H2].
Qed.

Lemma fmul_correct : forall x y : f64, is_finite x = true -> is_finite y = true ->
  Rabs (B2R x * B2R y) <= bpow radix2 100 ->
  B2R (fmul x y) = RN (B2R x * B2R y) /\ is_finite (fmul x y) = true.
Proof.
  intros x y Fx Fy Hb. unfold fmul.
  generalize (Bmult_correct prec emax Hprec Hmax mode_NE x y).
  norm_fexp. rewrite (no_overflow _ Hb).
  intros [H1 [H2 _]]. split; [exact H1 | now rewrite H2, Fx, Fy].
Qed.

Lemma fsub_correct : forall x y : f64, is_finite x = true -> is_finite y = true ->
  Rabs (B2R x - B2R y) <= bpow radix2 100 ->
  B2R (fsub x y) = RN (B2R x - B2R y) /\ is_finite (fsub x y) = true.
Proof.
  intros x y Fx Fy Hb. unfold fsub.
  generalize (Bminus_correct prec emax Hprec Hmax mode_NE x y Fx Fy).
  norm_fexp. rewrite (no_overflow _ Hb).
  intros [H1 [H2 _]]. split; assumption.
Qed.

Lemma to_Z_correct : forall x : f64, to_Z x = Ztrunc (B2R x).
Proof.
  intros x. apply eq_IZR. unfold to_Z. rewrite (Btrunc_correct prec emax Hmax).
  apply round_FIX_IZR.
Qed.

(* floor of a finite non-negative float lying in [q, q+1) *)
Lemma floor_Z_correct : forall (x : f64) (q : Z), is_finite x = true ->
  (0 <= q < 2 ^ 53)%Z -> IZR q <= B2R x < IZR q + 1 -> floor_Z x = q.
Proof.
  intros x q Fx Hq Hx. unfold floor_Z.
  assert (Ht : to_Z x = q).
  { rewrite to_Z_correct. rewrite Ztrunc_floor.
    - apply Zfloor_imp. rewrite plus_IZR. exact Hx.
    - apply Rle_trans with (IZR q); [apply IZR_le; lia | apply Hx]. }
  rewrite Ht.
  destruct (of_Z_correct q) as [Hq1 Hq2]; [lia|].
  rewrite (Bcompare_correct prec emax x (of_Z q) Fx Hq2). rewrite Hq1.
  destruct (Rcompare_spec (B2R x) (IZR q)) as [H|H|H]; try reflexivity.
  lra.
Qed.

(* ---------------------------------------------------------------- *)
(* the sandwich                                                       *)

(* q + 1 - 2^-20 and q + 1 - 2^-24 are representable for 0 <= q < 2^20 *)
Lemma fmt_upper24 : forall q : Z, (0 <= q < 2 ^ 20)%Z ->
  fmt (IZR q + 1 - / 16777216).
Proof.
  intros q Hq.
  replace (IZR q + 1 - / 16777216)
    with (F2R (Float radix2 (q * 16777216 + 16777216 - 1) (-24))).
  - apply fmt_F2R; lia.
  - unfold F2R. simpl Fnum. simpl Fexp.
    rewrite minus_IZR, plus_IZR, mult_IZR.
    change (bpow radix2 (-24)) with (/ 16777216). field.
Qed.

Lemma fmt_upper20 : forall q : Z, (0 <= q < 2 ^ 20)%Z ->
  fmt (IZR q + 1 - / 1048576).
Proof.
  intros q Hq.
  replace (IZR q + 1 - / 1048576)
    with (F2R (Float radix2 (q * 1048576 + 1048576 - 1) (-20))).
  - apply fmt_F2R; lia.
  - unfold F2R. simpl Fnum. simpl Fexp.
    rewrite minus_IZR, plus_IZR, mult_IZR.
    change (bpow radix2 (-20)) with (/ 1048576). field.
Qed.

Lemma RN_sandwich24 : forall (q : Z) (x : R), (0 <= q < 2 ^ 20)%Z ->
  IZR q <= x <= IZR q + 1 - / 16777216 ->
  IZR q <= RN x <= IZR q + 1 - / 16777216.
Proof.
  intros q x Hq [H1 H2]. split.
  - apply round_ge_generic; auto with typeclass_instances.
    apply fmt_IZR. lia.
  - apply round_le_generic; auto with typeclass_instances.
    apply fmt_upper24, Hq.
Qed.

Lemma RN_sandwich20 : forall (q : Z) (x : R), (0 <= q < 2 ^ 20)%Z ->
  IZR q <= x <= IZR q + 1 - / 1048576 ->
  IZR q <= RN x <= IZR q + 1 - / 1048576.
Proof.
  intros q x Hq [H1 H2]. split.
  - apply round_ge_generic; auto with typeclass_instances.
    apply fmt_IZR. lia.
  - apply round_le_generic; auto with typeclass_instances.
    apply fmt_upper20, Hq.
Qed.

(* real-number side: n / d lies in [q, q + 1 - 1/d] *)
Lemma div_bounds : forall n d : Z, (0 < d)%Z ->
  IZR (n / d) <= IZR n / IZR d <= IZR (n / d) + 1 - / IZR d.
Proof.
  intros n d Hd.
  assert (Hd' : 0 < IZR d) by (apply IZR_lt; exact Hd).
  pose proof (Z.div_mod n d ltac:(lia)) as E.
  pose proof (Z.mod_pos_bound n d Hd) as B.
  assert (En : IZR n = IZR d * IZR (n / d) + IZR (n mod d)).
  { rewrite <- mult_IZR, <- plus_IZR. f_equal. exact E. }
  assert (B1 : 0 <= IZR (n mod d)) by (apply IZR_le; lia).
  assert (B2 : IZR (n mod d) <= IZR d - 1).
  { rewrite <- minus_IZR. apply IZR_le. lia. }
  rewrite En.
  replace ((IZR d * IZR (n / d) + IZR (n mod d)) / IZR d)
    with (IZR (n / d) + IZR (n mod d) / IZR d) by (field; lra).
  assert (0 <= IZR (n mod d) / IZR d).
  { apply Rmult_le_pos; [exact B1 | left; apply Rinv_0_lt_compat; exact Hd']. }
  assert (IZR (n mod d) / IZR d <= (IZR d - 1) / IZR d).
  { apply Rmult_le_compat_r; [left; apply Rinv_0_lt_compat; exact Hd' | exact B2]. }
  replace ((IZR d - 1) / IZR d) with (1 - / IZR d) in H0 by (field; lra).
  lra.
Qed.

(* first division: RN (n / 1e6) *)
Lemma first_div : forall n : Z, (0 <= n < 1000000000)%Z ->
  let x := fdiv (of_Z n) (of_Z 1000000) in
  is_finite x = true /\
  IZR (n / 1000000) <= B2R x <= IZR (n / 1000000) + 1 - / 1048576.
Proof.
  intros n Hn x.
  destruct (of_Z_correct n) as [Hn1 Hn2]; [lia|].
  destruct (of_Z_correct 1000000) as [Hd1 Hd2]; [lia|].
  pose proof (div_bounds n 1000000 ltac:(lia)) as Hb.
  assert (Hq : (0 <= n / 1000000 < 1000)%Z).
  { split; [apply Z.div_pos; lia | apply Z.div_lt_upper_bound; lia]. }
  assert (Hq' : 0 <= IZR (n / 1000000) <= 999).
  { split; apply IZR_le; lia. }
  destruct (fdiv_correct (of_Z n) (of_Z 1000000)) as [Hx1 Hx2].
  - exact Hn2.
  - rewrite Hd1. lra.
  - rewrite Hn1, Hd1. pose proof bpow100_big. rewrite Rabs_pos_eq; lra.
  - fold x in Hx1, Hx2. split; [exact Hx2|].
    rewrite Hx1, Hn1, Hd1. apply RN_sandwich20; [lia|]. lra.
Qed.

Theorem frac_float_correct : forall (k : nat) (n : Z), (k = 2 \/ k = 3)%nat ->
  (0 <= n < 1000000000)%Z ->
  frac_float k n = (n / 10 ^ (9 - Z.of_nat k))%Z.
Proof.
  intros k n Hk Hn. unfold frac_float.
  destruct (first_div n Hn) as [Fx Bx].
  set (x := fdiv (of_Z n) (of_Z 1000000)) in *.
  assert (Hq : (0 <= n / 1000000 < 1000)%Z).
  { split; [apply Z.div_pos; lia | apply Z.div_lt_upper_bound; lia]. }
  assert (Hq' : 0 <= IZR (n / 1000000) <= 999).
  { split; apply IZR_le; lia. }
  pose proof bpow100_big as Hbig.
  destruct Hk as [-> | ->].
  - (* k = 2: divide by 10 *)
    change (10 ^ (3 - Z.of_nat 2))%Z with 10%Z.
    change (10 ^ (9 - Z.of_nat 2))%Z with 10000000%Z.
    destruct (of_Z_correct 10) as [Hd1 Hd2]; [lia|].
    destruct (fdiv_correct x (of_Z 10)) as [Hy1 Hy2].
    + exact Fx.
    + rewrite Hd1. lra.
    + rewrite Hd1. rewrite Rabs_pos_eq; lra.
    + assert (Hqq : (n / 10000000 = n / 1000000 / 10)%Z).
      { rewrite Z.div_div by lia. reflexivity. }
      pose proof (div_bounds (n / 1000000) 10 ltac:(lia)) as Hb.
      rewrite <- Hqq in Hb.
      assert (Hq2 : (0 <= n / 10000000 < 100)%Z).
      { split; [apply Z.div_pos; lia | apply Z.div_lt_upper_bound; lia]. }
      apply floor_Z_correct; [exact Hy2 | lia |].
      rewrite Hy1, Hd1.
      assert (S : IZR (n / 10000000) <= RN (B2R x / 10)
                  <= IZR (n / 10000000) + 1 - / 16777216).
      { apply RN_sandwich24; [lia|]. lra. }
      lra.
  - (* k = 3: divide by 1 *)
    change (10 ^ (3 - Z.of_nat 3))%Z with 1%Z.
    change (10 ^ (9 - Z.of_nat 3))%Z with 1000000%Z.
    destruct (of_Z_correct 1) as [Hd1 Hd2]; [lia|].
    destruct (fdiv_correct x (of_Z 1)) as [Hy1 Hy2].
    + exact Fx.
    + rewrite Hd1. lra.
    + rewrite Hd1. rewrite Rabs_pos_eq; lra.
    + apply floor_Z_correct; [exact Hy2 | lia |].
      rewrite Hy1, Hd1.
      assert (S : IZR (n / 1000000) <= RN (B2R x / 1)
                  <= IZR (n / 1000000) + 1 - / 16777216).
      { apply RN_sandwich24; [lia|]. lra. }
      lra.
Qed.

Print Assumptions frac_float_correct.
