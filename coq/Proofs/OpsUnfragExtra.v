(* Unfragment (C11), additions: inside a MIXED list, a cue that touches or overlaps no other cue with the same text
   comes out unchanged (same record: times, content, identity), zero-length cues included. *)
From Coq Require Import List ZArith NArith Bool Lia Permutation Sorted.
From Astisub Require Import Kit.Base Model.Ops Proofs.OrderProofs Proofs.FragmentProofs Proofs.UnfragProofs Proofs.InverseProofs.
Import ListNotations.
Open Scope Z_scope.

(* [x] is separated by a gap from every cue of [others] that has its text *)
Definition iso (x : item) (others : list item) : Prop :=
  Forall (fun y => tx y = tx x -> en y < st x \/ en x < st y) others.

Lemma iso_incl x l l' : (forall y, In y l' -> In y l) -> iso x l -> iso x l'.
Proof. unfold iso. rewrite !Forall_forall. intros Hi H y Hy. apply H, Hi, Hy. Qed.

Lemma iso_perm x l l' : Permutation l l' -> iso x l -> iso x l'.
Proof. intros P. apply iso_incl. intros y Hy. eapply Permutation_in; [apply Permutation_sym; exact P | exact Hy]. Qed.

Lemma absorb_subset : forall rest x x' rest', absorb x rest = (x', rest') -> forall y, In y rest' -> In y rest.
Proof.
  induction rest as [|y ys IH]; intros x x' rest' H z Hz.
  - cbn in H. inversion H; subst. exact Hz.
  - rewrite absorb_unfold in H. destruct (str_eqb (tx x) (tx y) && (st y <=? en x)).
    + right. eapply IH; eassumption.
    + destruct (en x <? st y).
      * inversion H; subst. exact Hz.
      * destruct (absorb x ys) as [x1 ys1] eqn:E. inversion H; subst.
        destruct Hz as [<-|Hz]; [left; reflexivity | right; eapply IH; eassumption].
Qed.

(* the isolated cue at the head of the scan swallows nothing *)
Lemma absorb_iso_self x : st x <= en x -> forall rest,
  Forall (fun y => st x <= st y) rest -> wf rest -> iso x rest -> absorb x rest = (x, rest).
Proof.
  intros Hx. induction rest as [|y ys IH]; intros Hge Hw Hi; [reflexivity|].
  rewrite absorb_unfold. inversion Hge as [|? ? Hy Hge']; subst. inversion Hi as [|? ? Hiy Hi']; subst.
  inversion Hw as [|? ? Hwy Hw']; subst.
  destruct (str_eqb (tx x) (tx y) && (st y <=? en x)) eqn:C.
  - apply andb_true_iff in C. destruct C as [Ct Cs]. apply str_eqb_eq in Ct. apply Z.leb_le in Cs.
    symmetry in Ct. specialize (Hiy Ct). lia.
  - destruct (en x <? st y); [reflexivity|]. rewrite (IH Hge' Hw' Hi'). reflexivity.
Qed.

(* an earlier cue's scan passes over the isolated cue: it stays in the remaining list, which only loses cues *)
Lemma absorb_iso_other x : st x <= en x -> forall rest z z' rest' r1 r2,
  absorb z rest = (z', rest') -> rest = r1 ++ x :: r2 ->
  sorted rest -> Forall (fun y => st z <= st y) rest -> iso x (z :: r1 ++ r2) ->
  exists r1' r2', rest' = r1' ++ x :: r2' /\ (forall y, In y (r1' ++ r2') -> In y (r1 ++ r2)).
Proof.
  intros Hx. induction rest as [|y ys IH]; intros z z' rest' r1 r2 H E Hs Hge Hi.
  - destruct r1; discriminate E.
  - rewrite absorb_unfold in H. apply sorted_inv in Hs. destruct Hs as [Hs' Hy].
    inversion Hge as [|? ? Hzy Hge']; subst.
    inversion Hi as [|? ? Hiz Hi']; subst.
    destruct r1 as [|y1 r1'].
    + (* the cue met is x itself *)
      cbn [app] in E. inversion E; subst y ys. clear E.
      destruct (str_eqb (tx z) (tx x) && (st x <=? en z)) eqn:C.
      * apply andb_true_iff in C. destruct C as [Ct Cs]. apply str_eqb_eq in Ct. apply Z.leb_le in Cs.
        specialize (Hiz Ct). lia.
      * destruct (en z <? st x).
        -- inversion H; subst. exists [], r2. split; [reflexivity | auto].
        -- destruct (absorb z r2) as [z1 ys1] eqn:Ea. inversion H; subst.
           exists [], ys1. split; [reflexivity|]. cbn [app]. intros w Hw. eapply absorb_subset; eassumption.
    + cbn [app] in E. inversion E; subst y ys. clear E.
      assert (Hy1x : st y1 <= st x).
      { rewrite Forall_forall in Hy. apply Hy. apply in_or_app. right. left. reflexivity. }
      cbn [app] in Hi'. inversion Hi' as [|? ? Hiy1 Hi'']; subst.
      destruct (str_eqb (tx z) (tx y1) && (st y1 <=? en z)) eqn:C.
      * apply andb_true_iff in C. destruct C as [Ct Cs]. apply str_eqb_eq in Ct. apply Z.leb_le in Cs.
        destruct (IH (upd z y1) z' rest' r1' r2 H eq_refl Hs') as (a & b & Ea & Hab).
        -- rewrite upd_st. exact Hge'.
        -- constructor; [|exact Hi''].
           rewrite upd_tx, upd_en, upd_st. intros Ht. specialize (Hiz Ht). specialize (Hiy1 ltac:(congruence)).
           assert (st z <= st x) by lia. lia.
        -- exists a, b. split; [exact Ea|]. intros w Hw. right. apply Hab, Hw.
      * destruct (en z <? st y1).
        -- inversion H; subst. exists (y1 :: r1'), r2. split; [reflexivity | auto].
        -- destruct (absorb z (r1' ++ x :: r2)) as [z1 ys1] eqn:Ea. inversion H; subst.
           destruct (IH z z' ys1 r1' r2 Ea eq_refl Hs' Hge') as (a & b & Eab & Hab).
           ++ constructor; assumption.
           ++ exists (y1 :: a), b. split; [rewrite Eab; reflexivity|].
              intros w [<-|Hw]; [left; reflexivity | right; apply Hab, Hw].
Qed.

Lemma sorted_app_inv_mid l1 x l2 : sorted (l1 ++ x :: l2) -> Forall (fun y => st y <= st x) l1.
Proof.
  induction l1 as [|a r IH]; intros H; [constructor|]. cbn [app] in H. apply sorted_inv in H. destruct H as [Hs Ha].
  constructor; [|exact (IH Hs)]. rewrite Forall_forall in Ha. apply Ha. apply in_or_app. right. left. reflexivity.
Qed.

Theorem unfrag_keeps_isolated x : forall fuel l l1 l2, l = l1 ++ x :: l2 ->
  (length l <= fuel)%nat -> sorted l -> wf l -> iso x (l1 ++ l2) -> In x (unfrag fuel l).
Proof.
  induction fuel as [|k IH]; intros l l1 l2 E Hlen Hs Hw Hi.
  - subst l. rewrite app_length in Hlen. cbn [length] in Hlen. lia.
  - destruct l as [|h rest]; [destruct l1; discriminate E|].
    cbn [unfrag]. destruct (absorb h rest) as [h' rest'] eqn:Ea.
    pose proof (sorted_head_le _ _ Hs) as Hge.
    assert (Hs' : sorted rest) by (apply sorted_inv in Hs; tauto).
    pose proof (Forall_inv Hw) as Hh. cbv beta in Hh. pose proof (Forall_inv_tail Hw) as Hw'.
    destruct l1 as [|h1 l1'].
    + cbn [app] in E. inversion E; subst h rest. cbn [app] in Hi.
      rewrite (absorb_iso_self x Hh l2 Hge Hw' Hi) in Ea. inversion Ea; subst. left. reflexivity.
    + cbn [app] in E. inversion E; subst h rest. right.
      assert (Hxw : st x <= en x).
      { unfold wf in Hw'. rewrite Forall_forall in Hw'. apply Hw'. apply in_or_app. right. left. reflexivity. }
      destruct (absorb_iso_other x Hxw _ h1 h' rest' l1' l2 Ea eq_refl Hs' Hge Hi) as (a & b & Eab & Hab).
      destruct (absorb_facts _ h1 h' rest' Hs' Hge Hh Ea) as (_ & _ & _ & _ & _ & S1 & _ & G & I & _).
      apply (IH rest' a b Eab).
      * cbn [length] in Hlen. lia.
      * exact S1.
      * unfold wf in *. rewrite Forall_forall in *. intros w Hw0. apply Hw'. apply I. exact Hw0.
      * cbn [app] in Hi. inversion Hi as [|? ? _ Hi']; subst. eapply iso_incl; [exact Hab | exact Hi'].
Qed.

(* the statement on [unfragment] itself, any input order: a cue of the input that is separated by a gap from every
   OTHER cue with its text (the others are the rest of the list, so duplicates of the cue count as others) is a cue
   of the output - the same record: times, content and identity *)
Theorem unfragment_keeps_isolated l1 x l2 : wf (l1 ++ x :: l2) -> iso x (l1 ++ l2) -> In x (unfragment (l1 ++ x :: l2)).
Proof.
  intros Hw Hi. unfold unfragment. set (l := l1 ++ x :: l2) in *.
  pose proof (order_perm l) as P.
  assert (Hin : In x (order l)).
  { eapply Permutation_in; [exact P|]. unfold l. apply in_or_app. right. left. reflexivity. }
  apply in_split in Hin. destruct Hin as (m1 & m2 & Em).
  assert (P' : Permutation (l1 ++ l2) (m1 ++ m2)).
  { apply (Permutation_app_inv l1 l2 m1 m2 x). rewrite <- Em. exact P. }
  apply (unfrag_keeps_isolated x _ (order l) m1 m2 Em).
  - apply le_n.
  - apply order_sorted.
  - exact (wf_perm _ _ P Hw).
  - exact (iso_perm x _ _ P' Hi).
Qed.

(* cues with a different text never matter: a cue whose text no other cue has is always untouched *)
Corollary unfragment_keeps_unique_text l1 x l2 : wf (l1 ++ x :: l2) ->
  Forall (fun y => tx y <> tx x) (l1 ++ l2) -> In x (unfragment (l1 ++ x :: l2)).
Proof.
  intros Hw Hd. apply unfragment_keeps_isolated; [exact Hw|].
  unfold iso. rewrite Forall_forall in *. intros y Hy Ht. exfalso. exact (Hd y Hy Ht).
Qed.

(* zero-length cues (start = end) take part like the others: isolated ones are kept ... *)
Corollary unfragment_keeps_isolated_zero_length l1 x l2 : st x = en x -> wf (l1 ++ x :: l2) ->
  Forall (fun y => tx y = tx x -> en y < st x \/ st x < st y) (l1 ++ l2) -> In x (unfragment (l1 ++ x :: l2)).
Proof.
  intros E Hw Hi. apply unfragment_keeps_isolated; [exact Hw|].
  unfold iso. rewrite Forall_forall in *. intros y Hy Ht. specialize (Hi y Hy Ht). lia.
Qed.

(* ---- non-vacuity ---- *)
Definition ex_cue (u : N) (s e : Z) (t : N) : item := mkItem u s e [mkLine [mkRun [t] None false] []] None None false.
(* unordered; texts A (65) and B (66); cues 1-2-3 touch/overlap (merged), cue 4 has another text and overlaps them
   (untouched), cue 5 has text A but is separated by a gap (untouched), cue 6 is a zero-length cue of text B in the
   gap (untouched), cues 7 and 8: a zero-length cue touching the end of a same-text cue (merged) *)
Definition ex_unfrag : list item :=
  [ex_cue 1 4 6 65; ex_cue 2 0 2 65; ex_cue 3 2 4 65; ex_cue 4 3 5 66; ex_cue 5 8 9 65; ex_cue 6 7 7 66;
   ex_cue 7 10 12 66; ex_cue 8 12 12 66].
Example ex_unfrag_result :
  map (fun x => (uid x, st x, en x, item_text x)) (unfragment ex_unfrag) =
  [(2%N, 0, 6, [65%N]); (4%N, 3, 5, [66%N]); (6%N, 7, 7, [66%N]); (5%N, 8, 9, [65%N]); (7%N, 10, 12, [66%N])].
Proof. reflexivity. Qed.
Example ex_unfrag_wf : wf ex_unfrag.
Proof. unfold wf, ex_unfrag, ex_cue. repeat constructor; cbn [st en]; lia. Qed.
Ltac iso_tac := unfold iso, ex_cue; repeat constructor; cbn [st en]; intros Ht;
  first [lia | vm_compute in Ht; discriminate Ht].
(* cue 5 (text A, after a gap) through the theorem *)
Example ex_unfrag_isolated_5 : In (ex_cue 5 8 9 65) (unfragment ex_unfrag).
Proof.
  apply (unfragment_keeps_isolated [ex_cue 1 4 6 65; ex_cue 2 0 2 65; ex_cue 3 2 4 65; ex_cue 4 3 5 66] (ex_cue 5 8 9 65)
           [ex_cue 6 7 7 66; ex_cue 7 10 12 66; ex_cue 8 12 12 66]).
  - exact ex_unfrag_wf.
  - cbn [app]. iso_tac.
Qed.
(* cue 6 (zero-length, text B, in a gap between two B cues) *)
Example ex_unfrag_isolated_6 : In (ex_cue 6 7 7 66) (unfragment ex_unfrag).
Proof.
  apply (unfragment_keeps_isolated [ex_cue 1 4 6 65; ex_cue 2 0 2 65; ex_cue 3 2 4 65; ex_cue 4 3 5 66; ex_cue 5 8 9 65] (ex_cue 6 7 7 66)
           [ex_cue 7 10 12 66; ex_cue 8 12 12 66]).
  - exact ex_unfrag_wf.
  - cbn [app]. iso_tac.
Qed.

(* the hypotheses of the inverse law (sorted, no_touch, positive lengths) on a list with two texts, overlaps and
   abutting cues of different texts *)
Definition ex_inv : list item := [ex_cue 1 0 10 65; ex_cue 2 1 3 66; ex_cue 3 3 7 67; ex_cue 4 11 12 65; ex_cue 5 11 20 66].
Example ex_inv_sorted : sorted ex_inv.
Proof. unfold sorted, ex_inv, ex_cue. repeat constructor; cbn [st]; lia. Qed.
Example ex_inv_no_touch : no_touch ex_inv.
Proof.
  unfold no_touch, ex_inv, ex_cue. repeat constructor; cbn [st en]; intros Ht;
    first [lia | vm_compute in Ht; discriminate Ht].
Qed.
Example ex_inv_positive : Forall (fun x => st x < en x) ex_inv.
Proof. unfold ex_inv, ex_cue. repeat constructor. Qed.
Example ex_inv_fragmented : length (fragment 4 ex_inv) = 10%nat.
Proof. reflexivity. Qed.
Example ex_inv_roundtrip : map proj (unfragment (fragment 4 ex_inv)) = map proj ex_inv.
Proof. exact (unfragment_fragment 4 ex_inv eq_refl ex_inv_sorted ex_inv_no_touch ex_inv_positive). Qed.
