(* C05: writing then reading, for all representable documents: open subtitling (display standard "0") and the
   teletext display standards (every other display standard code, incl. the writer's default "1"). *)
From Coq Require Import List ZArith NArith Bool Lia ZifyBool ZifyN ZifyNat.
From Astisub Require Import Kit.Base Kit.Str Kit.Utf8 Kit.Scan Model.Dur Model.Stl Gen.StlTables
  Proofs.DurProofs Proofs.StlBlocks Proofs.StlCodec Proofs.StlTti Proofs.StlGsi Proofs.StlRows Proofs.StlRowsTtx Proofs.StlDoc.
Import ListNotations.
Open Scope Z_scope.

(* the rows of an item: lines of representable runs (Proofs/StlRows.v) whose encoding fits the 112-byte text field *)
Definition rows_repr (i : witem) : Prop :=
  wi_lines i <> [] /\ Forall line_repr (wi_lines i) /\ (length (encode_text_stl (stl_item_text i)) <= 112)%nat.

Lemma rows_roundtrip_open i : rows_repr i ->
  rows_open (split_byte 138 (text_field i)) None [] = Ok (map expected_line (wi_lines i), None).
Proof. intros (H1 & H2 & H3). exact (open_rows_roundtrip i H1 H2 H3). Qed.
Lemma rows_roundtrip_ttx i : rows_repr i ->
  rows_ttx (split_byte 138 (text_field i)) None [] = (map expected_ttx_line (wi_lines i), None).
Proof. intros (H1 & H2 & H3). exact (ttx_rows_roundtrip i H1 H2 H3). Qed.

(* a representable document: the GSI block built from the metadata (or the defaults) is representable
   (Proofs/StlGsi.v: fields fit their widths, numbers in range, valid dates, programme start a frame instant),
   fewer than 65536 cues, every cue representable *)
Definition doc_repr_open (now : str) (md : option wmeta) (items : list witem) : Prop :=
  let g := new_gsi now md items in
  items <> [] /\ Z.of_nat (length items) < 65536 /\ gsi_repr g /\ g_dsc g = stl_s_dscOpen /\
  Forall (item_repr rows_repr (g_fps g) (g_tcp g)) items.
Definition doc_repr_ttx (now : str) (md : option wmeta) (items : list witem) : Prop :=
  let g := new_gsi now md items in
  items <> [] /\ Z.of_nat (length items) < 65536 /\ gsi_repr g /\ str_eqb (g_dsc g) stl_s_dscOpen = false /\
  Forall (item_repr_ttx rows_repr (g_fps g) (g_dsc g) (g_tcp g)) items.

Definition read_back (g : gsi) (line : list wrun -> list erun) (items : list witem) : rdoc :=
  rdoc_of g (map (fun i => expected_item g (map line (wi_lines i)) i) items).

Theorem write_read_open now md items : doc_repr_open now md items ->
  exists out, write_stl now md items = Ok out /\
              read_stl false out = Ok (read_back (new_gsi now md items) expected_line items).
Proof.
  intros (Hne & Hlen & Hg & Hdsc & Hall). exists (written now md items). split; [apply write_stl_eq; exact Hne|].
  exact (read_written_gen rows_repr (fun i => map expected_line (wi_lines i)) rows_roundtrip_open now md items
           Hne Hlen (gsi_roundtrip _ Hg) (r_fps _ Hg) Hdsc Hall).
Qed.

Theorem write_read_ttx now md items : doc_repr_ttx now md items ->
  exists out, write_stl now md items = Ok out /\
              read_stl false out = Ok (read_back (new_gsi now md items) expected_ttx_line items).
Proof.
  intros (Hne & Hlen & Hg & Hdsc & Hall). exists (written now md items). split; [apply write_stl_eq; exact Hne|].
  exact (read_written_ttx_gen rows_repr (fun i => map expected_ttx_line (wi_lines i)) rows_roundtrip_ttx now md items
           Hne Hlen (gsi_roundtrip _ Hg) (r_fps _ Hg) Hdsc Hall).
Qed.

(* what that says about the cues: times, text and effective flags come back; so do justification and position *)
Lemma read_back_items g line items :
  map (fun x => (ri_st x, ri_en x)) (rd_items (read_back g line items)) = map (fun i => (wi_st i, wi_en i)) items /\
  map ri_lines (rd_items (read_back g line items)) = map (fun i => map line (wi_lines i)) items /\
  map ri_vp (rd_items (read_back g line items)) = map (fun i => match wi_vp i with Some v => v | None => 20 end) items /\
  map ri_just (rd_items (read_back g line items)) = map (fun i => parse_jc (jc_of (wi_just i))) items.
Proof. unfold read_back, rdoc_of. cbn [rd_items]. rewrite !map_map. repeat split. Qed.

(* the justification survives: the four values of the library's enumeration map to themselves *)
Lemma justification_roundtrip j :
  In j [stl_c_justificationUnchanged; stl_c_justificationLeft; stl_c_justificationCentered; stl_c_justificationRight] ->
  parse_jc (jc_of (Some j)) = j.
Proof. intros H. repeat (destruct H as [<-|H]; [reflexivity|]). contradiction. Qed.

(* and about the metadata: every field of a present metadata record is returned (empty country / display standard,
   unmapped language and frame rates other than 25/30 give the writer's defaults) *)
Lemma read_back_metadata now m items line :
  let d := read_back (new_gsi now (Some m) items) line items in
  rd_title d = wm_title m /\ rd_oet d = wm_oet m /\ rd_tpt d = wm_tpt m /\ rd_tet d = wm_tet m /\ rd_tn d = wm_tn m /\
  rd_tcd d = wm_tcd m /\ rd_slr d = wm_slr m /\ rd_pub d = wm_pub m /\ rd_en d = wm_en m /\ rd_ecd d = wm_ecd m /\
  rd_rn d = wm_rn m /\ rd_tcp d = wm_tcp m /\
  rd_cd d = match wm_cd m with Some c => c | None => now end /\ rd_rd d = match wm_rd m with Some c => c | None => now end /\
  rd_mnc d = match wm_mnc m with Some v => v | None => 40 end /\ rd_mnr d = match wm_mnr m with Some v => v | None => 23 end /\
  rd_co d = match wm_co m with [] => stl_s_countryFrance | c => c end /\
  rd_dsc d = match wm_dsc m with [] => stl_s_dscLevel1 | c => c end /\
  rd_fps d = (if (wm_fps m =? 25) || (wm_fps m =? 30) then wm_fps m else 25).
Proof.
  cbn zeta. unfold read_back, rdoc_of, new_gsi. cbn [rd_title rd_oet rd_tpt rd_tet rd_tn rd_tcd rd_slr rd_pub rd_en rd_ecd rd_rn rd_tcp rd_cd rd_rd rd_mnc rd_mnr rd_co rd_dsc rd_fps
    g_opt g_oet g_tpt g_tet g_tn g_tcd g_slr g_pub g_en g_ecd g_rn g_tcp g_cd g_rd g_mnc g_mnr g_co g_dsc g_fps].
  repeat split. unfold stl_framerate_inv, zlookup, o_some. destruct (wm_fps m =? 25); [reflexivity|]. destruct (wm_fps m =? 30); reflexivity.
Qed.
Lemma read_back_language now m items line code lang :
  slookup (wm_lang m) stl_language_inv = Some code -> slookup code stl_language = Some lang ->
  rd_lang (read_back (new_gsi now (Some m) items) line items) = lang.
Proof. intros H1 H2. unfold read_back, rdoc_of, new_gsi. cbn [rd_lang g_lc]. rewrite H1, H2. reflexivity. Qed.
(* the five languages of the mapping are their own images *)
Example languages_roundtrip :
  forallb (fun e => match slookup (snd e) stl_language with Some l => str_eqb l (fst e) | None => false end) stl_language_inv = true
  /\ length stl_language_inv = 5%nat.
Proof. vm_compute. split; reflexivity. Qed.

(* ---- a non-trivial representable document (30 fps, programme start 10:00:00:00, two cues) ---- *)
Definition ex_md : wmeta :=
  mkWmeta 30 [101;110;103;108;105;115;104]%N [84;105;116;108;101]%N [71;66;82]%N (Some [50;52;48;50;50;57]%N) [48]%N [] [69;100]%N
          (Some 38) (Some 23) [69;112]%N [80]%N None 7 [82;69;70]%N (10 * hour_ns) [] [] [] [].
Definition ex_items : list witem :=
  [mkWitem (frames_ns 7 30) (2 * second_ns + frames_ns 29 30) (Some 3%N) (Some 18) (wi_lines ex_item);
   mkWitem (3 * second_ns) (minute_ns + frames_ns 1 30) None None [[mkWrun [79;107]%N false false false]]].
Definition ex_now : str := [50;52;48;51;48;49]%N.

Lemma frame_instant_of h m s f fps t : tc_ok h m s f fps -> t = h * hour_ns + m * minute_ns + s * second_ns + frames_ns f fps -> frame_instant fps t.
Proof. intros H E. exists h, m, s, f. split; assumption. Qed.

Example ex_doc_repr : doc_repr_open ex_now (Some ex_md) ex_items.
Proof.
  unfold doc_repr_open. cbv zeta. split; [discriminate|]. split; [reflexivity|]. split; [apply gsi_reprb_sound; vm_compute; reflexivity|].
  split; [reflexivity|].
  assert (R2 : rows_repr (mkWitem (3 * second_ns) (minute_ns + frames_ns 1 30) None None [[mkWrun [79;107]%N false false false]])).
  { split; [discriminate|]. split; [|vm_compute; lia].
    constructor; [|constructor]. split; [discriminate|]. split; [|exact I].
    constructor; [|constructor]. split; [discriminate|]. split; [vm_compute; reflexivity|].
    exists [[79]%N; [107]%N]. split; [reflexivity|]. repeat (apply Forall_cons; [apply in_rep_In; vm_compute; reflexivity|]). apply Forall_nil. }
  assert (R1 : rows_repr (mkWitem (frames_ns 7 30) (2 * second_ns + frames_ns 29 30) (Some 3%N) (Some 18) (wi_lines ex_item))).
  { destruct ex_item_hyps as (A & B & C). split; [exact A|]. split; [exact B|]. exact C. }
  change (g_fps (new_gsi ex_now (Some ex_md) ex_items)) with 30. change (g_tcp (new_gsi ex_now (Some ex_md) ex_items)) with (10 * hour_ns).
  constructor; [|constructor; [|constructor]].
  - split; [exact R1|]. cbn [wi_st wi_en wi_vp]. split; [|split; [|lia]].
    + apply (frame_instant_of 10 0 0 7); [unfold tc_ok; lia | unfold hour_ns, minute_ns, second_ns; lia].
    + apply (frame_instant_of 10 0 2 29); [unfold tc_ok; lia | unfold hour_ns, minute_ns, second_ns; lia].
  - split; [exact R2|]. cbn [wi_st wi_en wi_vp]. split; [|split; [|exact I]].
    + apply (frame_instant_of 10 0 3 0); [unfold tc_ok; lia | unfold hour_ns, minute_ns, second_ns, frames_ns; cbn; lia].
    + apply (frame_instant_of 10 1 0 1); [unfold tc_ok; lia | unfold hour_ns, minute_ns, second_ns; lia].
Qed.
Example ex_doc_roundtrip :
  exists out, write_stl ex_now (Some ex_md) ex_items = Ok out /\ length out = 1280%nat /\
    exists d, read_stl false out = Ok d /\ rd_title d = [84;105;116;108;101]%N /\ rd_fps d = 30 /\ rd_tcp d = 10 * hour_ns /\
      map (fun x => (ri_st x, ri_en x)) (rd_items d) = [(233333334, 2966666667); (3000000000, 60033333334)].
Proof.
  destruct (write_read_open _ _ _ ex_doc_repr) as (out & W & R). exists out. split; [exact W|]. split; [exact (write_layout _ _ _ _ W)|].
  eexists. split; [exact R|]. vm_compute. repeat split; reflexivity.
Qed.
