(* C06: the encoders produce units of the classes the stream theorem is about (so the class is inhabited by what a
   standard-conforming multiplexer emits), and a worked example. *)
From Coq Require Import List ZArith NArith Bool Lia.
From Astisub Require Import Kit.Base Kit.Str Kit.GoMap Gen.TtxTables Model.TtxRow Model.Ttx Model.TtxSpec Model.TtxHam.
From Astisub Require Import Proofs.TtxHamProofs Proofs.TtxTables Proofs.TtxRowProofs Proofs.TtxCodec Proofs.TtxSteps Proofs.TtxStream.
Import ListNotations.
Open Scope N_scope.

Definition hdr_unit (fl mag : N) (h : hdr) : N * str := (3, enc_packet fl mag 0 (enc_header h)).
Definition row_unit (fl mag row : N) (cells extra : list N) : N * str := (3, enc_packet fl mag row (enc_row cells ++ extra)).

Lemma mag_addr_ok mag pkt : 1 <= mag <= 8 -> pkt < 32 -> addr_ok mag pkt = true.
Proof.
  intros Hm Hp. unfold addr_ok. apply andb_true_iff. split; [apply andb_true_iff; split|]; [apply N.leb_le | apply N.leb_le | apply N.ltb_lt]; lia.
Qed.

(* an encoded header of page (mag0, tens units) with national option cs is "our header" *)
Theorem header_unit_is_ours : forall fl mag0 h, 1 <= mag0 <= 8 -> hdr_ok h = true ->
  negb ((h_tens h =? 15) && (h_units h =? 15)) = true ->
  is_our_header mag0 (h_pn h) (h_cs h) (hdr_unit fl mag0 h) = true
  /\ exists p, unit_addr (hdr_unit fl mag0 h) = Some (mag0, 0, p) /\ hdr_c6 p = Some (h_subtitle h).
Proof.
  intros fl mag0 h Hm Hok Hff. unfold is_our_header, hdr_unit.
  rewrite (unit_addr_enc fl mag0 0 _ (mag_addr_ok mag0 0 Hm ltac:(lia))).
  destruct (hdr_full_enc h Hok Hff) as [Hf Hc]. rewrite Hf. rewrite !N.eqb_refl, Z.eqb_refl. split; [reflexivity|].
  eexists. split; [reflexivity | exact Hc].
Qed.

Lemma map_cell0_par cells : Forall (fun c => c < 128) cells -> map cell0 (map par_enc cells) = cells.
Proof.
  intros H. induction H as [|c r Hc Hr IH]; [reflexivity|]. cbn [map]. rewrite IH. f_equal.
  rewrite <- cell_is_spec. apply cell_par_enc. exact Hc.
Qed.
(* an encoded row (40 seven-bit cells, odd parity, LSB first) of the selected magazine is "our row" *)
Theorem row_unit_is_ours : forall fl mag0 row cells extra, 1 <= mag0 <= 8 -> 1 <= row <= 25 ->
  length cells = 40%nat -> Forall (fun c => c < 128) cells ->
  is_our_row mag0 row cells (row_unit fl mag0 row cells extra) = true.
Proof.
  intros fl mag0 row cells extra Hm Hr Hl Hc. unfold is_our_row, row_unit.
  rewrite (unit_addr_enc fl mag0 row _ (mag_addr_ok mag0 row Hm ltac:(lia))).
  rewrite !N.eqb_refl. cbn [andb].
  destruct (N.leb_spec 1 row); [|lia]. destruct (N.leb_spec row 25); [|lia]. cbn [andb].
  unfold enc_row. assert (L40 : length (map par_enc cells) = 40%nat) by (rewrite map_length; exact Hl).
  assert (Hlen : Nat.ltb (length (map par_enc cells ++ extra)) 40 = false) by (apply Nat.ltb_ge; rewrite app_length; lia).
  rewrite Hlen. cbn [negb andb].
  replace (firstn 40 (map par_enc cells ++ extra)) with (map par_enc cells).
  - rewrite (map_cell0_par cells Hc). apply str_eqb_refl.
  - rewrite <- L40. rewrite firstn_app, Nat.sub_diag, firstn_all. cbn [firstn]. rewrite app_nil_r. reflexivity.
Qed.

(* ---- parity failures ---- *)
(* a character byte with one bit flipped in transmission fails the parity check: it is stored as 0 *)
Theorem flipped_bit_cell : forall ch k, ch < 128 -> k < 8 -> cell0 (N.lxor (par_enc ch) (2 ^ k)) = 0.
Proof.
  intros ch k Hc Hk.
  assert (S : forallb (fun ch => forallb (fun k => cell0 (N.lxor (par_enc ch) (2 ^ k)) =? 0) (below 8)) (below 128) = true) by (vm_compute; reflexivity).
  rewrite forallb_forall in S. specialize (S ch (below_in 128 ch Hc)). rewrite forallb_forall in S. specialize (S k (below_in 8 k Hk)).
  apply N.eqb_eq. exact S.
Qed.
(* a transmitted cell: the character and, if the byte is damaged on the way, the bit that flips *)
Definition sym_byte (x : N * option N) : N := match snd x with None => par_enc (fst x) | Some k => N.lxor (par_enc (fst x)) (2 ^ k) end.
Definition sym_cell (x : N * option N) : N := match snd x with None => fst x | Some _ => 0 end.
Definition sym_ok (x : N * option N) : bool := (fst x <? 128) && match snd x with None => true | Some k => k <? 8 end.
Lemma map_cell0_sym syms : forallb sym_ok syms = true -> map cell0 (map sym_byte syms) = map sym_cell syms.
Proof.
  induction syms as [|[ch o] r IH]; intros H; [reflexivity|]. cbn [forallb] in H. apply andb_true_iff in H. destruct H as [Hx Hr].
  cbn [map]. rewrite (IH Hr). f_equal. unfold sym_ok in Hx. cbn [fst snd] in Hx. apply andb_true_iff in Hx. destruct Hx as [Hc Hk]. apply N.ltb_lt in Hc.
  unfold sym_byte, sym_cell. cbn [fst snd]. destruct o as [k|].
  - apply N.ltb_lt in Hk. apply flipped_bit_cell; assumption.
  - rewrite <- cell_is_spec. apply cell_par_enc. exact Hc.
Qed.
(* a row of the selected magazine with damaged bytes is "our row" with 0 in the damaged cells *)
Theorem damaged_row_unit_is_ours : forall fl mag0 row syms extra, 1 <= mag0 <= 8 -> 1 <= row <= 25 ->
  length syms = 40%nat -> forallb sym_ok syms = true ->
  is_our_row mag0 row (map sym_cell syms) (3, enc_packet fl mag0 row (map sym_byte syms ++ extra)) = true.
Proof.
  intros fl mag0 row syms extra Hm Hr Hl Hs. unfold is_our_row.
  rewrite (unit_addr_enc fl mag0 row _ (mag_addr_ok mag0 row Hm ltac:(lia))).
  rewrite !N.eqb_refl. cbn [andb].
  destruct (N.leb_spec 1 row); [|lia]. destruct (N.leb_spec row 25); [|lia]. cbn [andb].
  assert (L40 : length (map sym_byte syms) = 40%nat) by (rewrite map_length; exact Hl).
  assert (Hlen : Nat.ltb (length (map sym_byte syms ++ extra)) 40 = false) by (apply Nat.ltb_ge; rewrite app_length; lia).
  rewrite Hlen. cbn [negb andb].
  replace (firstn 40 (map sym_byte syms ++ extra)) with (map sym_byte syms).
  - rewrite (map_cell0_sym syms Hs). apply str_eqb_refl.
  - rewrite <- L40. rewrite firstn_app, Nat.sub_diag, firstn_all. cbn [firstn]. rewrite app_nil_r. reflexivity.
Qed.

(* a character cell of a boxed group that fails parity: the row reads as the same row with the group cut in two at that
   cell and the attribute "black" in its place -- the cell's character appears in no run *)
Theorem parity_error_in_text : forall (c : list str) pre boxes a cs x1 v x2 b e, length c = 96%nat ->
  rowspec_ok (mkRowspec pre boxes (a ++ mkRseg cs (x1 ++ v :: x2) :: b) e) = true ->
  let r := mkRowspec pre boxes (a ++ mkRseg cs (x1 ++ v :: x2) :: b) e in
  let r' := mkRowspec pre boxes (a ++ mkRseg cs x1 :: mkRseg [0] x2 :: b) e in
  exists l1 l2, row_cells r = l1 ++ v :: l2 /\ row_cells r' = l1 ++ 0 :: l2
                /\ ttx_parse_row c (l1 ++ 0 :: l2) = Ok (row_runs c r').
Proof.
  intros c pre boxes a cs x1 v x2 b e Hc Hok r r'.
  exists (pre ++ 11 :: repeat 11 boxes ++ flat_map (fun s => sg_codes s ++ sg_cells s) a ++ cs ++ x1),
         (x2 ++ flat_map (fun s => sg_codes s ++ sg_cells s) b ++ match e with Some j => 10 :: j | None => [] end).
  assert (E1 : row_cells r = (pre ++ 11 :: repeat 11 boxes ++ flat_map (fun s => sg_codes s ++ sg_cells s) a ++ cs ++ x1) ++ v ::
                 (x2 ++ flat_map (fun s => sg_codes s ++ sg_cells s) b ++ match e with Some j => 10 :: j | None => [] end)).
  { unfold row_cells, r. cbn [rw_pre rw_boxes rw_segs rw_end]. rewrite flat_map_app. cbn [flat_map sg_codes sg_cells].
    repeat (rewrite <- app_assoc; cbn [app]). reflexivity. }
  assert (E2 : row_cells r' = (pre ++ 11 :: repeat 11 boxes ++ flat_map (fun s => sg_codes s ++ sg_cells s) a ++ cs ++ x1) ++ 0 ::
                 (x2 ++ flat_map (fun s => sg_codes s ++ sg_cells s) b ++ match e with Some j => 10 :: j | None => [] end)).
  { unfold row_cells, r'. cbn [rw_pre rw_boxes rw_segs rw_end]. rewrite flat_map_app. cbn [flat_map sg_codes sg_cells].
    repeat (rewrite <- app_assoc; cbn [app]). reflexivity. }
  split; [exact E1|]. split; [exact E2|]. rewrite <- E2. apply (parse_row_encoded c Hc).
  unfold r'. unfold rowspec_ok in *. cbn [rw_pre rw_segs rw_end] in *.
  apply andb_true_iff in Hok. destruct Hok as [Hok He]. apply andb_true_iff in Hok. destruct Hok as [Hp Hs].
  rewrite Hp, He. cbn [andb]. rewrite andb_true_r. unfold segs_ok in *. rewrite forallb_app in *. cbn [forallb sg_codes sg_cells] in *.
  apply andb_true_iff in Hs. destruct Hs as [Ha Hs]. apply andb_true_iff in Hs. destruct Hs as [Hg Hb].
  apply andb_true_iff in Hg. destruct Hg as [Hcs Hx]. rewrite forallb_app in Hx. cbn [forallb] in Hx.
  apply andb_true_iff in Hx. destruct Hx as [Hx1 Hx2]. apply andb_true_iff in Hx2. destruct Hx2 as [_ Hx2].
  rewrite Ha, Hcs, Hx1, Hx2, Hb. reflexivity.
Qed.

(* units that are not subtitle data units (stuffing 0xff, non-subtitle 0x02, ...) cannot matter *)
Theorem other_unit_benign : forall mag0 pn0 id data, id <> 3 -> benign mag0 pn0 (id, data) = true /\ dead_ok mag0 pn0 (id, data) = true /\ unselected_ok (id, data) = true.
Proof.
  intros mag0 pn0 id data H. unfold benign, dead_ok, unselected_ok, unit_addr. cbn [fst snd].
  destruct (N.eqb_spec id 3); [contradiction|]. cbn [negb]. repeat split.
Qed.
(* a wrong framing code *)
Theorem bad_framing_benign : forall mag0 pn0 data, nth 1 data 0 <> 228 -> benign mag0 pn0 (3, data) = true /\ dead_ok mag0 pn0 (3, data) = true /\ unselected_ok (3, data) = true.
Proof.
  intros mag0 pn0 data H. unfold benign, dead_ok, unselected_ok, unit_addr. cbn [fst snd N.eqb Pos.eqb negb].
  destruct (Nat.ltb (length data) 4); [repeat split|]. destruct (N.eqb_spec (nth 1 data 0) 228); [contradiction|]. cbn [negb]. repeat split.
Qed.
(* rows of other magazines *)
Theorem other_magazine_row_benign : forall fl mag0 pn0 mag pkt payload, 1 <= mag <= 8 -> mag <> mag0 -> 1 <= pkt <= 25 ->
  benign mag0 pn0 (3, enc_packet fl mag pkt payload) = true.
Proof.
  intros fl mag0 pn0 mag pkt payload Hm Hne Hp. unfold benign. rewrite (unit_addr_enc fl mag pkt _ (mag_addr_ok mag pkt Hm ltac:(lia))).
  destruct (N.eqb_spec pkt 0); [lia|]. destruct (N.leb_spec pkt 25); [|lia]. destruct (N.eqb_spec mag mag0); [contradiction | reflexivity].
Qed.
(* X/26, X/27, X/30, X/31 of any magazine *)
Theorem enhancement_benign : forall fl mag0 pn0 mag pkt payload, 1 <= mag <= 8 -> pkt = 26 \/ pkt = 27 \/ pkt = 30 \/ pkt = 31 ->
  benign mag0 pn0 (3, enc_packet fl mag pkt payload) = true /\ dead_ok mag0 pn0 (3, enc_packet fl mag pkt payload) = true
  /\ unselected_ok (3, enc_packet fl mag pkt payload) = true.
Proof.
  intros fl mag0 pn0 mag pkt payload Hm Hp. unfold benign, dead_ok, unselected_ok.
  rewrite (unit_addr_enc fl mag pkt _ (mag_addr_ok mag pkt Hm ltac:(lia))).
  destruct Hp as [-> | [-> | [-> | ->]]]; repeat split.
Qed.
(* a page of another magazine in parallel mode, whatever its number *)
Theorem parallel_header_benign : forall fl mag0 pn0 mag h, 1 <= mag <= 8 -> mag <> mag0 -> hdr_ok h = true ->
  negb ((h_tens h =? 15) && (h_units h =? 15)) = true -> h_serial h = false ->
  benign mag0 pn0 (hdr_unit fl mag h) = true.
Proof.
  intros fl mag0 pn0 mag h Hm Hne Hok Hff Hs. unfold benign, hdr_unit.
  rewrite (unit_addr_enc fl mag 0 _ (mag_addr_ok mag 0 Hm ltac:(lia))). cbn [N.eqb].
  destruct (hdr_full_enc h Hok Hff) as [Hf _]. rewrite Hf, Hs. destruct (N.eqb_spec mag mag0); [contradiction|]. cbn [negb andb]. apply orb_true_r.
Qed.
(* the header of another page of our magazine, or of any magazine in serial mode, ends the reception *)
Theorem other_page_header_terminates : forall fl mag0 pn0 mag h, 1 <= mag <= 8 -> hdr_ok h = true ->
  negb ((h_tens h =? 15) && (h_units h =? 15)) = true -> h_pn h <> pn0 -> (h_serial h = true \/ mag = mag0) ->
  is_terminator mag0 pn0 (hdr_unit fl mag h) = true.
Proof.
  intros fl mag0 pn0 mag h Hm Hok Hff Hpn Hs. unfold is_terminator, hdr_unit.
  rewrite (unit_addr_enc fl mag 0 _ (mag_addr_ok mag 0 Hm ltac:(lia))). cbn [N.eqb andb].
  destruct (hdr_full_enc h Hok Hff) as [Hf _]. rewrite Hf. destruct (Z.eqb_spec (h_pn h) pn0); [contradiction|]. cbn [negb andb].
  destruct Hs as [-> | ->]; [reflexivity | rewrite N.eqb_refl; apply orb_true_r].
Qed.

(* X/28 format 1 and M/29 packets of the selected magazine with designation code 0 or 4 and an all-zero first triplet
   (the default character set designation) only confirm the default *)
(* ---- designation packets as a standard-conformant encoder emits them ---- *)
(* the payload of an X/28 or M/29 packet: designation code (Hamming 8/4), then the 24-bit word of the first triplet as
   three bytes, each with its first transmitted bit in the most significant position (EN 300 472), then the rest *)
Definition desig_payload (dc w : N) (rest : str) : str :=
  ham84_enc dc :: brev8 (N.land w 255) :: brev8 (N.land (N.shiftr w 8) 255) :: brev8 (N.land (N.shiftr w 16) 255) :: rest.
Lemma brev8_involutive : forall x, x < 256 -> N.land (brev8 x) 255 = brev8 x /\ brev8 (brev8 x) = x.
Proof.
  intros x Hx. pose proof (sweep (fun x => (N.land (brev8 x) 255 =? brev8 x) && (brev8 (brev8 x) =? x)) 256 ltac:(vm_compute; reflexivity) x Hx) as S.
  cbv beta in S. apply andb_true_iff in S. destruct S as [S1 S2]. apply N.eqb_eq in S1. apply N.eqb_eq in S2. split; assumption.
Qed.
Lemma dec_mask_third a b c : ham2418_dec a b (N.land c 255) = ham2418_dec a b c.
Proof. unfold ham2418_dec. rewrite <- N.land_assoc. change (N.land 255 255) with 255. reflexivity. Qed.
Lemma triplet_of_payload dc w rest : triplet_of (tl (desig_payload dc w rest)) = ham2418_dec_word w.
Proof.
  unfold triplet_of, desig_payload, ham2418_dec_word. cbn [tl nth].
  destruct (brev8_involutive (N.land w 255) (land255_lt _)) as [A1 A2].
  destruct (brev8_involutive (N.land (N.shiftr w 8) 255) (land255_lt _)) as [B1 B2].
  destruct (brev8_involutive (N.land (N.shiftr w 16) 255) (land255_lt _)) as [C1 C2].
  rewrite A1, B1, C1, A2, B2, C2. apply dec_mask_third.
Qed.

(* a designation packet of the selected magazine (designation code 0 or 4; X/28: format 1, i.e. page function 0) whose first
   triplet carries the 18 data bits d, Hamming 24/18 protected, possibly with one of its 24 bits inverted on the way, is a
   designation packet for the reader, and the designation it records is d *)
Theorem designation_unit : forall fl mag0 pkt dc d rest (err : option nat), 1 <= mag0 <= 8 -> dc = 0 \/ dc = 4 -> d < 2 ^ 18 ->
  pkt = 29 \/ (pkt = 28 /\ N.land d 15 = 0) -> match err with Some p => (p < 24)%nat | None => True end ->
  let w := match err with Some p => N.lxor (ham2418_word d) (2 ^ N.of_nat p) | None => ham2418_word d end in
  desig_ok mag0 (3, enc_packet fl mag0 pkt (desig_payload dc w rest)) = true
  /\ desig_of (3, enc_packet fl mag0 pkt (desig_payload dc w rest)) = (pkt, d).
Proof.
  intros fl mag0 pkt dc d rest err Hm Hd Hdl Hp He w. unfold desig_ok, desig_of.
  assert (Hpk : pkt < 32) by (destruct Hp as [-> | [-> _]]; lia).
  rewrite (unit_addr_enc fl mag0 pkt _ (mag_addr_ok mag0 pkt Hm Hpk)). rewrite N.eqb_refl.
  rewrite triplet_of_payload.
  assert (Hw : ham2418_dec_word w = Some d).
  { subst w. destruct err as [p|]; [apply ham2418_word_single_error; assumption | apply ham2418_word_roundtrip; assumption]. }
  rewrite Hw. unfold desig_payload at 1 2 3. cbn [length nth tl Nat.ltb Nat.leb negb andb fst snd].
  assert (Hdec : ham84_dec (ham84_enc dc) = Some dc) by (apply ham84_dec_enc_spec; destruct Hd as [-> | ->]; lia). rewrite Hdec.
  split; [|reflexivity].
  assert (Hdc : (dc =? 0) || (dc =? 4) = true) by (destruct Hd as [-> | ->]; reflexivity). rewrite Hdc.
  destruct Hp as [-> | [-> Hn]]; cbn [N.eqb Pos.eqb orb andb negb]; [reflexivity|]. rewrite Hn. reflexivity.
Qed.
(* in particular one that confirms the default designation *)
Theorem default_designation_neutral : forall fl mag0 pkt dc d rest, 1 <= mag0 <= 8 -> dc = 0 \/ dc = 4 -> d < 2 ^ 18 ->
  pkt = 29 \/ (pkt = 28 /\ N.land d 15 = 0) -> triplet_key d = 0 ->
  neutral_unit mag0 (3, enc_packet fl mag0 pkt (desig_payload dc (ham2418_word d) rest)) = true.
Proof.
  intros fl mag0 pkt dc d rest Hm Hd Hdl Hp Hk. unfold neutral_unit.
  destruct (designation_unit fl mag0 pkt dc d rest None Hm Hd Hdl Hp I) as [H1 H2]. cbv zeta in H1, H2. rewrite H1, H2. cbn [snd andb].
  apply N.eqb_eq. exact Hk.
Qed.
(* a triplet with two bits inverted is rejected: the packet leaves the designation alone *)
Theorem damaged_designation_inert : forall pkt dc d rest p q, d < 2 ^ 18 -> (p < 24)%nat -> (q < 24)%nat -> p <> q ->
  triplet_inert pkt (desig_payload dc (N.lxor (N.lxor (ham2418_word d) (2 ^ N.of_nat p)) (2 ^ N.of_nat q)) rest) = true.
Proof.
  intros pkt dc d rest p q Hd Hp Hq Hpq. unfold triplet_inert. rewrite triplet_of_payload.
  rewrite (ham2418_word_double_error d p q Hd Hp Hq Hpq).
  destruct (Nat.ltb _ 1); [reflexivity|]. cbn [orb]. destruct (ham84_dec _); [|reflexivity]. rewrite !orb_true_r. reflexivity.
Qed.

(* a page number with a hexadecimal digit is never one of the decimal pages 0..99 a reader can select *)
Theorem hex_page_is_other : forall tens units pn0, tens < 16 -> units < 16 -> (9 < tens \/ 9 < units) ->
  (0 <= pn0 <= 99)%Z -> page_code tens units <> pn0.
Proof.
  intros tens units pn0 Ht Hu Hhex Hp.
  assert (S : forallb (fun t => forallb (fun u => negb ((9 <? t) || (9 <? u)) || (256 <=? page_code t u)%Z) (below 16)) (below 16) = true)
    by (vm_compute; reflexivity).
  rewrite forallb_forall in S. specialize (S tens (below_in 16 tens Ht)).
  rewrite forallb_forall in S. specialize (S units (below_in 16 units Hu)).
  assert (Hh : (9 <? tens) || (9 <? units) = true).
  { apply orb_true_iff. destruct Hhex as [H|H]; [left | right]; apply N.ltb_lt; exact H. }
  rewrite Hh in S. cbn [negb orb] in S. apply Z.leb_le in S. lia.
Qed.

(* ---- a worked example: page 888 (German option, then option-less code 7), two instances and an erase page, in a
   parallel-mode service with a page of magazine 1 interleaved, stuffing, X/26, a wrong-framing unit, a terminating
   page 889 followed by a row of magazine 8, packed three units per PES packet ---- *)
Definition ex_hdr (tens units cs : N) (serial : bool) : hdr :=
  mkHdr units tens 0 0 0 8 0 (cs * 2 + (if serial then 1 else 0)) (repeat (par_enc 32) 32).
Definition pad40 (r : rowspec) : rowspec :=
  match rw_end r with
  | Some j => mkRowspec (rw_pre r) (rw_boxes r) (rw_segs r) (Some (j ++ repeat 32 (40 - length (row_cells r))))
  | None => r
  end.
(* "  \x0b\x0bHi \x01[red]\x0a" and a row with a size code and national characters *)
Definition ex_row1 : rowspec := pad40 (mkRowspec [32; 32] 1 [mkRseg [] [72; 105; 32]; mkRseg [1] [91; 114; 101; 100; 93]] (Some [])).
Definition ex_row2 : rowspec := pad40 (mkRowspec [] 0 [mkRseg [13; 3] [35; 36; 64; 126]] (Some [122])).
(* ex_row1 received with the byte of its 'i' damaged: "H", black, " " *)
Definition ex_row1_damaged : rowspec :=
  pad40 (mkRowspec [32; 32] 1 [mkRseg [] [72]; mkRseg [0] [32]; mkRseg [1] [91; 114; 101; 100; 93]] (Some [])).
Definition ex_syms : list (N * option N) :=
  map (fun ch => (ch, None)) (firstn 5 (row_cells ex_row1)) ++ [(105, Some 3)] ++ map (fun ch => (ch, None)) (skipn 6 (row_cells ex_row1)).
Definition ex_sched : sched :=
  mkSched 8 88 [mkInst 1000 4 [(20, ex_row1); (3, ex_row2)]; mkInst 3000 7 []; mkInst 4500 7 [(22, ex_row1_damaged)]].
Definition ex_row_unit (row : N) (r : rowspec) : N * str := row_unit 231 8 row (row_cells r) [].
Definition ex_mux : mux :=
  mkMux [(900%Z, hdr_unit 231 1 (ex_hdr 0 0 0 false)); (900%Z, (255, repeat 255 44))]
        [ mkImux (hdr_unit 231 8 (ex_hdr 8 8 4 false))
                 [(1000%Z, (false, hdr_unit 231 1 (ex_hdr 1 2 0 false)));
                  (1000%Z, (true, ex_row_unit 20 ex_row1));
                  (1040%Z, (false, row_unit 231 1 20 (row_cells ex_row2) []));
                  (1040%Z, (false, (3, enc_packet 231 8 26 [ham84_enc 0; 1; 2; 3])));
                  (1040%Z, (false, (3, enc_packet 231 8 28 (desig_payload 0 (ham2418_word 0) [77]))));
                  (1040%Z, (false, (3, enc_packet 231 8 29 (desig_payload 4 (N.lxor (ham2418_word 131136) 4096) [5]))));
                  (1040%Z, (true, ex_row_unit 3 ex_row2))]
                 (Some ((1100%Z, hdr_unit 231 8 (ex_hdr 8 9 0 false)),
                        [(1100%Z, ex_row_unit 5 ex_row1); (1100%Z, (3, enc_packet 231 8 29 (desig_payload 0 (ham2418_word 6144) [])))]));
          mkImux (hdr_unit 231 8 (ex_hdr 8 8 7 false)) [] None;
          mkImux (hdr_unit 231 8 (ex_hdr 8 8 7 false))
                 [(4500%Z, (false, (3, 231 :: 39 :: skipn 2 (enc_packet 231 8 22 (enc_row (row_cells ex_row2))))));
                  (4600%Z, (true, (3, enc_packet 231 8 22 (map sym_byte ex_syms))));
                  (4600%Z, (false, (3, enc_packet 231 8 28 (desig_payload 4 (N.lxor (ham2418_word 6144) 2) []))))] None ].
Fixpoint chunk3 (evs : list tunit) (fuel : nat) : list pes :=
  match fuel, evs with
  | S f, (t, u) :: (t2, u2) :: (t3, u3) :: r => if ((t =? t2) && (t2 =? t3))%Z then PUnits t 16 [u; u2; u3] [] :: chunk3 r f else PUnits t 21 [u] [3; 44; 231] :: chunk3 ((t2, u2) :: (t3, u3) :: r) f
  | S f, (t, u) :: r => PUnits t 31 [u] [] :: chunk3 r f
  | _, _ => []
  end.
(* with a packet without time and a packet with a foreign data identifier carrying our header, an empty payload that sets the
   first presentation time, and a trailing packet that sets the last one *)
Definition ex_peses : list pes :=
  PInert 900 [] :: PNoTime (16 :: enc_unit (hdr_unit 231 8 (ex_hdr 8 8 4 false))) :: chunk3 (events ex_sched ex_mux) 100
  ++ [PInert 4700 (32 :: enc_unit (hdr_unit 231 8 (ex_hdr 8 8 4 false))); PUnits 5000 16 [] [3]].

Example ex_mux_ok : mux_ok ex_sched ex_mux = true. Proof. vm_compute. reflexivity. Qed.
Example ex_pes_ok : forallb pes_ok ex_peses = true /\ flat_map pes_units ex_peses = events ex_sched ex_mux.
Proof. split; vm_compute; reflexivity. Qed.
(* an M/29 packet behind the first terminating header and, in the last instance, an X/28 packet designate character set 6
   (first triplet data 0x1800, Hamming 24/18 protected, the X/28 one with a corrected bit error).  X/28 designations take precedence over M/29 ones; the last one applies to every page, the
   first one included *)
Example ex_desig : desig_final false 8 ex_mux = 6144. Proof. vm_compute. reflexivity. Qed.
Example ex_stream : ttx_feed 888 (map enc_pes ex_peses) = Ok (cues_of ex_sched 900 5000 6144).
Proof. rewrite <- ex_desig. exact (stream_given_page ex_sched ex_mux ex_peses ex_mux_ok (proj1 ex_pes_ok) (proj2 ex_pes_ok)). Qed.
(* the cues, computed.  Under designation 6 the (6, option 4) pair has no table entry: the Latin G0 set without national
   option ("#$@~" reads as pound, $, @, division sign; "[red]" as guillemets); (6, option 7) is the Greek G0 set *)
Example ex_cues_nonempty : length (cues_of ex_sched 900 5000 6144) = 2%nat /\
  map (fun c => (c_st c, c_en c, map (map (fun r => tr_text r)) (c_lines c))) (cues_of ex_sched 900 5000 6144)
  = [(100%Z, 2100%Z, [[[194;163;36;64;195;183]]; [[72;105]; [194;171;114;101;100;194;187]]]);
     (3600%Z, 4100%Z, [[[206;152]; [206;171;207;130;206;181;206;180;206;173]]])].
Proof. split; vm_compute; reflexivity. Qed.
Example ex_mux_auto_ok : mux_ok_auto ex_sched (mkMux [(900%Z, (255, repeat 255 44))] (mx_insts ex_mux)) = true.
Proof. vm_compute. reflexivity. Qed.
