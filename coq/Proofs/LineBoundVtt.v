(* The scanner's line limit composed with the WebVTT theorems (second audit, item N3; generic part: Proofs/LineBound.v).

   C02_write_read, C02_read_rendered, C02_write_read_via_rendering are stated on the unbounded line splitter; ReadFromWebVTT
   reads through bufio.Scanner with the default limit and refuses a line of 65536 bytes or more.  Here:
   [write_read_vtt_within]        C02_write_read through the limit-aware reader, every schedule, hypothesis on the bytes;
   [write_read_vtt_exact]         the writer's bytes (all lines end in LF) are read back iff no written line has [max] bytes or
                                  more; otherwise an error, for every schedule;
   [vtt_doc_within], [vtt_lines_within]   the bound on the written lines from a bound on the document: header lines (timestamp
                                  map, STYLE block, region definitions), and per cue its NOTE lines, its timing line (times and
                                  settings) and its text lines; the identifier line has at most 19 bytes;
   [write_read_vtt_doc_within]    the round trip under that document-level bound;
   [read_rendered_vtt_within], [read_rendered_vtt_okb_within]   every rendering, every line end, every schedule;
   [vtt_needs_line_bound]         small buffer, by computation: the bound is needed and sharp. *)
From Coq Require Import List ZArith NArith Bool Arith Lia.
From Astisub Require Import Kit.Base Kit.Str Kit.Scan Kit.ScanLim Model.Dur Model.Vtt.
From Astisub Require Import Model.Srt Proofs.ScanLimProofs Proofs.EolProofs Proofs.SrtProofs Proofs.LineBound Proofs.SrtReadProofs.
From Astisub Require Import Proofs.VttBase Proofs.VttLine Proofs.VttDoc Proofs.VttReadLine Proofs.VttReadDoc Proofs.VttReadDec Proofs.VttWriteRender.
Import ListNotations.

Lemma nobrkb_brkfree ls : forallb nobrk ls = true -> Forall brkfree ls.
Proof. intros H. apply Forall_forall. intros l Hl. rewrite forallb_forall in H. exact (H l Hl). Qed.

(* ---- the round trip, hypothesis on the written bytes ---- *)
Theorem write_read_vtt_within max d so ro : (0 < max)%nat -> repr_vdoc d so ro ->
  forall data, write_vtt d so ro = Ok data -> lines_within max (lines data) ->
  forall counts, read_vtt_lim max data counts = Ok (ndoc d so ro).
Proof.
  intros Hmax Hr data Hw HW counts. destruct (write_read_vtt d so ro Hr) as (data' & Hw' & Hrd).
  rewrite Hw in Hw'. inversion Hw'; subst data'.
  rewrite (proj1 (proj2 (read_lim_lines max data counts Hmax HW))). exact Hrd.
Qed.

(* ---- the lines of the canonical rendering are free of line breaks ---- *)
Lemma w_lines_brkfree d so ro : repr_vdoc d so ro ->
  Forall brkfree (render_vtt (w_hrend d so ro) (w_gdoc d so ro) (w_cues d) []).
Proof.
  intros Hr. destruct (write_rendering_ok d so ro Hr) as (H1 & H2 & H3 & H4 & H5).
  destruct (read_rendered_vtt _ _ _ _ H1 H2 H3 H4 H5) as [_ Hn]. apply nobrkb_brkfree. exact Hn.
Qed.

(* ---- THE EXACT STATEMENT FOR THE WRITER'S BYTES ---- *)
Theorem write_read_vtt_exact max d so ro : (0 < max)%nat -> repr_vdoc d so ro ->
  exists data, write_vtt d so ro = Ok data /\
    (lines_within_lf max (render_vtt (w_hrend d so ro) (w_gdoc d so ro) (w_cues d) []) ->
       forall counts, read_vtt_lim max data counts = Ok (ndoc d so ro)) /\
    (line_beyond_lf max (render_vtt (w_hrend d so ro) (w_gdoc d so ro) (w_cues d) []) ->
       forall counts, exists k, read_vtt_lim max data counts = Err k).
Proof.
  intros Hmax Hr. eexists. split; [apply write_is_rendering_repr; exact Hr|].
  pose proof (w_lines_brkfree d so ro Hr) as HB. split.
  - intros HW counts. change [10%N] with [LF]. rewrite (proj1 (proj2 (read_lim_render_lf max _ counts Hmax HB HW))).
    destruct (write_rendering_ok d so ro Hr) as (H1 & H2 & H3 & H4 & H5).
    rewrite (proj1 (read_rendered_vtt _ _ _ _ H1 H2 H3 H4 H5)). f_equal. apply write_denotes. exact Hr.
  - intros HE counts. change [10%N] with [LF]. exact (proj1 (proj2 (read_lim_render_lf_beyond max _ counts HB HE))).
Qed.

(* the refusal needs no representability: the writer's bytes are the canonical rendering under the structural conditions of
   C02_write_is_rendering alone *)
Theorem write_vtt_beyond max d so ro : vd_items d <> [] -> regions_keyed d ro -> times_nonneg d ->
  Forall brkfree (render_vtt (w_hrend d so ro) (w_gdoc d so ro) (w_cues d) []) ->
  line_beyond_lf max (render_vtt (w_hrend d so ro) (w_gdoc d so ro) (w_cues d) []) ->
  exists data, write_vtt d so ro = Ok data /\ forall counts, exists k, read_vtt_lim max data counts = Err k.
Proof.
  intros Hne Hk Ht HB HE. eexists. split; [apply write_is_rendering; assumption|]. intros counts.
  change [10%N] with [LF]. exact (proj1 (proj2 (read_lim_render_lf_beyond max _ counts HB HE))).
Qed.

(* ---- the bound, on the document ---- *)
Definition vtt_item_within (max : nat) (it : vitem) : Prop :=
  lines_within max (note_lines (vi_comments it)) /\ (length (timing_line it) + 2 <= max)%nat /\
  lines_within max (text_lines (vi_lines it)).
Definition vtt_doc_within (max : nat) (d : vdoc) (so ro : list str) : Prop :=
  lines_within max (hdr_lines d so ro) /\ Forall (vtt_item_within max) (vd_items d).

Lemma items_lines_within max : forall l k, (21 <= max)%nat -> (Z.of_nat (k + length l) <= max_int64)%Z ->
  Forall (vtt_item_within max) l -> lines_within max (items_lines k l).
Proof.
  induction l as [|it r IH]; intros k Hmax Hn HW; [constructor|]. cbn [length] in Hn.
  inversion HW as [|? ? (Wn & Wt & Wl) HW']; subst. cbn [items_lines]. unfold item_main_lines.
  apply lines_within_app. split.
  - apply lines_within_app. split; [exact Wn|]. cbn [app]. constructor.
    + pose proof (idx_length k ltac:(lia)) as L. unfold SrtProofs.idx_str in L. lia.
    + constructor; [exact Wt | exact Wl].
  - cbn [app]. constructor; [cbn [length]; lia|]. apply IH; [exact Hmax | rewrite <- Nat.add_succ_comm in Hn; exact Hn | exact HW'].
Qed.

Theorem vtt_lines_within max d so ro : (21 <= max)%nat -> repr_vdoc d so ro -> vtt_doc_within max d so ro ->
  lines_within max (render_vtt (w_hrend d so ro) (w_gdoc d so ro) (w_cues d) []).
Proof.
  intros Hmax Hr (Wh & Wi). rewrite <- hdr_cues_render. apply lines_within_app. split; [exact Wh|].
  pose proof (items_lines_cues (vd_items d) 0 (rd_items _ _ _ Hr) (repr_times_nonneg _ _ _ Hr)) as E. cbn [app] in E.
  fold (w_cues d) in E.
  assert (W : lines_within max (items_lines 0 (vd_items d))) by (apply items_lines_within; [exact Hmax | exact (rd_count _ _ _ Hr) | exact Wi]).
  rewrite E in W. apply lines_within_app in W. exact (proj1 W).
Qed.

Theorem write_read_vtt_doc_within max d so ro : (21 <= max)%nat -> repr_vdoc d so ro -> vtt_doc_within max d so ro ->
  exists data, write_vtt d so ro = Ok data /\ forall counts, read_vtt_lim max data counts = Ok (ndoc d so ro).
Proof.
  intros Hmax Hr HW. destruct (write_read_vtt_exact max d so ro ltac:(lia) Hr) as (data & Hw & Hin & _).
  exists data. split; [exact Hw|]. apply Hin. apply lines_within_weaken. apply vtt_lines_within; assumption.
Qed.

(* ---- every rendering, every line-end convention, every schedule ---- *)
Theorem read_rendered_vtt_within max e h g cues eof : (0 < max)%nat -> eol_ok e ->
  hrend_ok h g -> gdoc_ok g ->
  Forall (fun p => gcue_ok (denote_regions g) (snd p) /\ crend_ok (fst p) (snd p)) cues ->
  Forall (fun p => cr_before (fst p) <> []) (tl cues) -> Forall blank eof ->
  lines_within max (render_vtt h g cues eof) ->
  forall counts, read_vtt_lim max (render_eol e (render_vtt h g cues eof)) counts = Ok (denote_vtt g cues).
Proof.
  intros Hmax He H1 H2 H3 H4 H5 HW counts. destruct (read_rendered_vtt h g cues eof H1 H2 H3 H4 H5) as [Hrd Hn].
  rewrite (proj1 (proj2 (read_lim_render max e _ counts Hmax He (nobrkb_brkfree _ Hn) HW))). exact Hrd.
Qed.
(* the side conditions as the one decidable check of C02_read_rendered, the bound as a decidable check too *)
Theorem read_rendered_vtt_okb_within max e h g cues eof : (0 < max)%nat -> eol_ok e -> rendering_okb h g cues eof = true ->
  lines_withinb max (render_vtt h g cues eof) = true ->
  forall counts, read_vtt_lim max (render_eol e (render_vtt h g cues eof)) counts = Ok (denote_vtt g cues).
Proof.
  intros Hmax He H HW counts. apply lines_withinb_ok in HW.
  assert (HB : Forall brkfree (render_vtt h g cues eof)).
  { pose proof H as H'. unfold rendering_okb in H'. rewrite !andb_true_iff in H'. destruct H' as ((((H1 & H2) & H3) & H4) & H5).
    destruct (read_rendered_vtt h g cues eof) as [_ Hn];
      [apply hrend_okb_ok; exact H1 | apply gdoc_okb_ok; exact H2 | | | apply blanksb_ok; exact H5 | apply nobrkb_brkfree; exact Hn].
    - revert H3. apply SrtReadProofs.forallb_Forall. intros p Hp. apply andb_true_iff in Hp. destruct Hp as [A B].
      split; [apply gcue_okb_ok; exact A | apply crend_okb_ok; exact B].
    - revert H4. apply SrtReadProofs.forallb_Forall. intros p Hp. apply nonnilb_ok. exact Hp. }
  rewrite (proj1 (proj2 (read_lim_render max e _ counts Hmax He HB HW))). apply read_rendered_vtt_dec. exact H.
Qed.
Theorem read_vtt_lim_eol max e ls counts : (0 < max)%nat -> eol_ok e -> Forall brkfree ls -> lines_within max ls ->
  read_vtt_lim max (render_eol e ls) counts = read_vtt_lines ls false.
Proof. intros Hmax He HB HW. exact (proj1 (proj2 (read_lim_render max e ls counts Hmax He HB HW))). Qed.

(* ================= the bound is needed, and sharp ================= *)
(* one cue, one text line of n letters a *)
Definition a_vdoc (n : N) : vdoc :=
  mkVdoc [mkVitem 0 1000000000%Z 2000000000%Z [] None None None [mkVline [mkVrun (a_line n) None 0%Z None] []]] [] [] None.
Definition vtt_bytes (d : vdoc) : str := match write_vtt d [] [] with Ok x => x | _ => [] end.

Lemma a_vdoc_repr_small n : text_line_ok (mkVline [mkVrun (a_line n) None 0%Z None] []) = true -> repr_vdoc (a_vdoc n) [] [].
Proof.
  intros H. constructor.
  - discriminate.
  - unfold max_int64. cbn. lia.
  - constructor.
  - intros k [].
  - constructor; [|constructor]. unfold item_okd, max_int64. cbn [vi_st vi_en vi_comments vi_lines forallb].
    split; [lia|]. split; [lia|]. split; [vm_compute; reflexivity|]. split; [exact I|]. split; [reflexivity|].
    rewrite H. reflexivity.
  - split; reflexivity.
  - exact I.
Qed.
Lemma a_vdoc_repr_48 : repr_vdoc (a_vdoc 46) [] [] /\ repr_vdoc (a_vdoc 47) [] [] /\ repr_vdoc (a_vdoc 48) [] [].
Proof. split; [|split]; apply a_vdoc_repr_small; vm_compute; reflexivity. Qed.

(* a_vdoc n is representable for every n > 0 (the boolean check is quadratic in n by computation: proved instead) *)
Lemma a_vline_bytes n : removelast (vline_bytes (mkVline [mkVrun (a_line n) None 0%Z None] [])) = a_line n.
Proof.
  rewrite vline_bytes_removelast. unfold voice_part. cbn [vl_voice vl_runs vruns_bytes app].
  unfold vrun_bytes, run_tags. cbn [vr_color vr_tags vr_time vr_text skipn map concat rev app]. change (0 <? 0)%Z with false. cbv iota.
  cbn [app]. rewrite !app_nil_r. apply escape_repeat_a.
Qed.
Lemma a_line_forallb (f : N -> bool) n : f 97%N = true -> forallb f (a_line n) = true.
Proof. intros H. unfold a_line. induction (N.to_nat n) as [|k IH]; [reflexivity|]. cbn [repeat forallb]. rewrite H, IH. reflexivity. Qed.
Lemma a_line_existsb (f : N -> bool) n : f 97%N = false -> existsb f (a_line n) = false.
Proof. intros H. unfold a_line. induction (N.to_nat n) as [|k IH]; [reflexivity|]. cbn [repeat existsb]. rewrite H, IH. reflexivity. Qed.
Lemma a_line_head n : (0 < n)%N -> exists r, a_line n = 97%N :: r.
Proof. intros H. unfold a_line. destruct (N.to_nat n) as [|k] eqn:E; [lia|]. exists (repeat 97%N k). reflexivity. Qed.

Lemma a_vline_ok n : (0 < n)%N -> text_line_ok (mkVline [mkVrun (a_line n) None 0%Z None] []) = true.
Proof.
  intros Hn. assert (Ht : trim_space (a_line n) = a_line n) by (apply SrtProofs.trim_space_all_plain, a_line_plain).
  destruct (a_line_head n Hn) as (r & Er).
  unfold text_line_ok. rewrite a_vline_bytes. cbn [vl_runs]. rewrite !andb_true_iff. repeat split.
  - unfold repr_vline. cbn [vl_voice vl_runs chain_ok]. change (voice_ok []) with true. cbn [andb]. rewrite andb_true_r.
    unfold run_ok. cbn [vr_color vr_text vr_time]. unfold run_tags, timed, nonblank, is_blank, nonul. cbn [vr_tags vr_time vr_text forallb].
    unfold a_line at 2. rewrite escape_repeat_a. fold (a_line n). rewrite Ht, (a_line_existsb _ n eq_refl), Er. reflexivity.
  - unfold line_clean. rewrite Ht, str_eqb_refl, (SrtProofs.utf8_valid_ascii _ (SrtProofs.all_plain_ascii _ (a_line_plain n))). cbn [andb].
    exact (nobrk_repeat _).
  - unfold line_other. unfold arrow. rewrite (SrtProofs.contains_none 45%N [45; 62]%N (a_line n) (a_line_not_in 45%N n ltac:(discriminate))). rewrite Er. reflexivity.
Qed.
Lemma a_vdoc_repr n : (0 < n)%N -> repr_vdoc (a_vdoc n) [] [].
Proof. intros Hn. apply a_vdoc_repr_small. apply a_vline_ok. exact Hn. Qed.

(* the lines written for it: WEBVTT, an empty line, the identifier, the timing line (29 bytes), the text line *)
Definition vitem1 (l : vline) : vitem := mkVitem 0 1000000000%Z 2000000000%Z [] None None None [l].
Definition vdoc1 (l : vline) : vdoc := mkVdoc [vitem1 l] [] [] None.
Lemma vdoc1_lines l : exists pre, render_vtt (w_hrend (vdoc1 l) [] []) (w_gdoc (vdoc1 l) [] []) (w_cues (vdoc1 l)) [] =
  pre ++ [removelast (vline_bytes l)] /\ map (@length byte) pre = [6; 0; 1; 29]%nat.
Proof.
  exists (hdr_lines (vdoc1 l) [] [] ++ [itoa 1; timing_line (vitem1 l)]). split; [|vm_compute; reflexivity].
  rewrite <- hdr_cues_render. change (w_cues (vdoc1 l)) with [(w_crend 0 (vitem1 l), w_gcue 0 (vitem1 l))].
  unfold all_cue_lines. cbn [map concat fst snd].
  rewrite <- (item_main_cue 0 (vitem1 l)) by (cbn [vitem1 vi_st vi_en]; lia).
  unfold item_main_lines. cbn [w_crend cr_before vitem1 vi_comments vi_lines note_lines text_lines map app].
  rewrite <- app_assoc. reflexivity.
Qed.

(* FOR EVERY BUFFER SIZE above the timing line and every schedule: n letters are read back iff n + 1 <= max *)
Theorem vtt_line_bound_sharp max n : (30 <= max)%nat -> (0 < n)%N ->
  repr_vdoc (a_vdoc n) [] [] /\
  exists data, write_vtt (a_vdoc n) [] [] = Ok data /\ read_vtt data = Ok (ndoc (a_vdoc n) [] []) /\
    ((N.to_nat n + 1 <= max)%nat -> forall counts, read_vtt_lim max data counts = Ok (ndoc (a_vdoc n) [] [])) /\
    ((max < N.to_nat n + 1)%nat -> forall counts, exists k, read_vtt_lim max data counts = Err k).
Proof.
  intros Hmax Hn. pose proof (a_vdoc_repr n Hn) as Hr. split; [exact Hr|].
  destruct (write_read_vtt_exact max _ _ _ ltac:(lia) Hr) as (data & Hw & Hin & Hout).
  destruct (write_read_vtt _ _ _ Hr) as (data' & Hw' & Hrd). rewrite Hw in Hw'. inversion Hw'; subst data'.
  destruct (vdoc1_lines (mkVline [mkVrun (a_line n) None 0%Z None] [])) as (pre & E & Lp).
  change (vdoc1 (mkVline [mkVrun (a_line n) None 0%Z None] [])) with (a_vdoc n) in E. rewrite a_vline_bytes in E.
  rewrite E in Hin, Hout. exists data. split; [exact Hw|]. split; [exact Hrd|].
  destruct pre as [|p1 [|p2 [|p3 [|p4 [|p5 pre']]]]]; try discriminate Lp. cbn [map] in Lp. injection Lp as L1 L2 L3 L4. split.
  - intros Hle. apply Hin. cbn [app]. repeat constructor; rewrite ?L1, ?L2, ?L3, ?L4, ?a_line_length; lia.
  - intros Hgt. apply Hout. cbn [app]. do 4 right. left. rewrite a_line_length. exact Hgt.
Qed.

(* the real constant: 65535 letters are read back, 65536 are refused (both for every schedule); the document with 65536
   letters satisfies every hypothesis of C02_write_read *)
Theorem vtt_real_line_bound_full :
  repr_vdoc (a_vdoc 65536) [] [] /\
  (exists data, write_vtt (a_vdoc 65535) [] [] = Ok data /\
     forall counts, read_vtt_lim max_scan_token data counts = Ok (ndoc (a_vdoc 65535) [] [])) /\
  (exists data, write_vtt (a_vdoc 65536) [] [] = Ok data /\ read_vtt data = Ok (ndoc (a_vdoc 65536) [] []) /\
     forall counts, exists k, read_vtt_lim max_scan_token data counts = Err k).
Proof.
  split; [apply a_vdoc_repr; reflexivity|]. split.
  - destruct (vtt_line_bound_sharp max_scan_token 65535 ltac:(unfold max_scan_token; lia) eq_refl) as (_ & data & Hw & _ & Hin & _).
    exists data. split; [exact Hw|]. apply Hin. unfold max_scan_token. lia.
  - destruct (vtt_line_bound_sharp max_scan_token 65536 ltac:(unfold max_scan_token; lia) eq_refl) as (_ & data & Hw & Hrd & _ & Hout).
    exists data. split; [exact Hw|]. split; [exact Hrd|]. apply Hout. unfold max_scan_token. lia.
Qed.

(* FOR EVERY SCHEDULE (through the exact theorem), buffer of 48 bytes (timing line: 29): 47 letters are read back, 48 are
   refused, and the unbounded splitter of C02_write_read returns the cue *)
Theorem vtt_line_bound_sharp_48 :
  (exists data, write_vtt (a_vdoc 47) [] [] = Ok data /\ forall counts, read_vtt_lim 48 data counts = Ok (ndoc (a_vdoc 47) [] [])) /\
  (exists data, write_vtt (a_vdoc 48) [] [] = Ok data /\ read_vtt data = Ok (ndoc (a_vdoc 48) [] []) /\
     forall counts, exists k, read_vtt_lim 48 data counts = Err k).
Proof.
  destruct a_vdoc_repr_48 as (_ & R47 & R48). split.
  - destruct (write_read_vtt_exact 48 _ _ _ ltac:(lia) R47) as (data & Hw & Hin & _). exists data. split; [exact Hw|].
    apply Hin. apply lines_within_lfb_ok. vm_compute. reflexivity.
  - destruct (write_read_vtt_exact 48 _ _ _ ltac:(lia) R48) as (data & Hw & _ & Hout).
    destruct (write_read_vtt _ _ _ R48) as (data' & Hw' & Hrd). rewrite Hw in Hw'. inversion Hw'; subst data'.
    exists data. split; [exact Hw|]. split; [exact Hrd|]. apply Hout. apply lines_within_lfb_false. vm_compute. reflexivity.
Qed.

(* the same by computation, with the error returned; 47 letters pass with LF and fail with CR LF: the bound of C17 (two
   bytes) is the bound for all three line ends.  Then the real constant: the document with a line of 65536 letters is
   refused (two schedules: end-of-file with the last bytes; one Read of a full buffer then an empty one) *)
Example vtt_needs_line_bound :
  read_vtt (vtt_bytes (a_vdoc 48)) = Ok (ndoc (a_vdoc 48) [] []) /\
  read_vtt_lim 48 (vtt_bytes (a_vdoc 48)) [] = Err EIO /\
  read_vtt_lim 48 (vtt_bytes (a_vdoc 48)) [7%nat; 0%nat; 100%nat] = Err EIO /\
  lines_withinb 48 (lines (vtt_bytes (a_vdoc 46))) = true /\
  read_vtt_lim 48 (vtt_bytes (a_vdoc 46)) [7%nat; 0%nat; 100%nat] = Ok (ndoc (a_vdoc 46) [] []) /\
  lines_withinb 48 (lines (vtt_bytes (a_vdoc 47))) = false /\
  read_vtt_lim 48 (vtt_bytes (a_vdoc 47)) [7%nat; 0%nat; 100%nat] = Ok (ndoc (a_vdoc 47) [] []) /\
  read_vtt_lim 48 (render_eol [CR; LF] (lines (vtt_bytes (a_vdoc 47)))) [7%nat; 0%nat; 100%nat] = Err EIO /\
  read_vtt (render_eol [CR; LF] (lines (vtt_bytes (a_vdoc 47)))) = Ok (ndoc (a_vdoc 47) [] []).
Proof. vm_compute. repeat split; reflexivity. Qed.
Example vtt_real_line_bound_computed :
  read_vtt_lim max_scan_token (vtt_bytes (a_vdoc 65536)) [] = Err EIO /\
  read_vtt_lim max_scan_token (vtt_bytes (a_vdoc 65536)) [max_scan_token; 0%nat] = Err EIO.
Proof. vm_compute. split; reflexivity. Qed.
(* ... and under every schedule.  (That a_vdoc n is representable is checked by computation for the small sizes above
   only: the check is quadratic in the line length -- about 4 minutes for 65536 bytes -- though it does not depend on n
   otherwise.) *)
Theorem vtt_real_line_bound :
  exists data, write_vtt (a_vdoc 65536) [] [] = Ok data /\ forall counts, exists k, read_vtt_lim max_scan_token data counts = Err k.
Proof.
  apply write_vtt_beyond.
  - discriminate.
  - intros k [].
  - constructor; [cbn [vi_st vi_en]; lia | constructor].
  - apply nobrkb_brkfree. vm_compute. reflexivity.
  - apply lines_within_lfb_false. vm_compute. reflexivity.
Qed.
