(* Hamming 24/18 (Model/TtxHam.v): round trip on all 2^18 values, every single bit error corrected (exhaustive sweeps over
   all data words and positions), every double bit error rejected (for all data words: from the linearity of the tests). *)
From Coq Require Import List NArith Bool Arith Lia Btauto.
From Astisub Require Import Model.TtxHam.
Import ListNotations.
Open Scope N_scope.

Fixpoint all_bools (n : nat) : list (list bool) :=
  match n with O => [[]] | S k => flat_map (fun l => [false :: l; true :: l]) (all_bools k) end.
Fixpoint lb_eqb (a b : list bool) : bool :=
  match a, b with [], [] => true | x :: a', y :: b' => Bool.eqb x y && lb_eqb a' b' | _, _ => false end.
Lemma lb_eqb_eq a b : lb_eqb a b = true -> a = b.
Proof.
  revert b; induction a as [|x a IH]; intros [|y b] H; cbn in H; try discriminate; [reflexivity|].
  apply andb_true_iff in H. destruct H as [H1 H2]. apply Bool.eqb_prop in H1. rewrite H1, (IH b H2). reflexivity.
Qed.
Definition is_some_eq (o : option (list bool)) (d : list bool) : bool := match o with Some x => lb_eqb x d | None => false end.
Lemma all_bools_in n : forall l, length l = n -> In l (all_bools n).
Proof.
  induction n as [|n IH]; intros l H.
  - destruct l; [left; reflexivity | discriminate].
  - destruct l as [|b r]; [discriminate|]. cbn [all_bools]. apply in_flat_map. exists r. split; [apply IH; cbn in H; lia|].
    destruct b; [right; left; reflexivity | left; reflexivity].
Qed.

Lemma sweep_single : forallb (fun d => let w := ham2418_enc_bits d in
    is_some_eq (ham2418_dec_bits w) d && forallb (fun k => is_some_eq (ham2418_dec_bits (flip w k)) d) (seq 0 24)) (all_bools 18) = true.
Proof. vm_cast_no_check (eq_refl true). Qed.

(* decoding an encoded word gives the data back, also after any single bit error *)
Theorem ham2418_bits_roundtrip : forall d, length d = 18%nat -> ham2418_dec_bits (ham2418_enc_bits d) = Some d.
Proof.
  intros d H. pose proof sweep_single as S. rewrite forallb_forall in S. specialize (S d (all_bools_in 18 d H)). cbv zeta in S.
  apply andb_true_iff in S. destruct S as [S _]. unfold is_some_eq in S. destruct (ham2418_dec_bits (ham2418_enc_bits d)); [|discriminate].
  apply lb_eqb_eq in S. rewrite S. reflexivity.
Qed.
Theorem ham2418_bits_single_error : forall d k, length d = 18%nat -> (k < 24)%nat -> ham2418_dec_bits (flip (ham2418_enc_bits d) k) = Some d.
Proof.
  intros d k H Hk. pose proof sweep_single as S. rewrite forallb_forall in S. specialize (S d (all_bools_in 18 d H)). cbv zeta in S.
  apply andb_true_iff in S. destruct S as [_ S]. rewrite forallb_forall in S. specialize (S k ltac:(apply in_seq; lia)).
  unfold is_some_eq in S. destruct (ham2418_dec_bits (flip (ham2418_enc_bits d) k)); [|discriminate]. apply lb_eqb_eq in S. rewrite S. reflexivity.
Qed.

(* ---- double errors: the tests are linear ---- *)
(* which tests (and the overall parity) a flipped position k (0-based) changes *)
Definition signature (k : nat) : bool * bool * bool * bool * bool * bool :=
  let p := N.of_nat (k + 1) in
  if Nat.ltb k 23 then (N.testbit p 0, N.testbit p 1, N.testbit p 2, N.testbit p 3, N.testbit p 4, true)
  else (false, false, false, false, false, true).
Definition xor6 (a b : bool * bool * bool * bool * bool * bool) :=
  let '(a0, a1, a2, a3, a4, a5) := a in let '(b0, b1, b2, b3, b4, b5) := b in
  (xorb a0 b0, xorb a1 b1, xorb a2 b2, xorb a3 b3, xorb a4 b4, xorb a5 b5).

Lemma six_eq (a0 a1 a2 a3 a4 a5 c0 c1 c2 c3 c4 c5 : bool) :
  a0 = c0 -> a1 = c1 -> a2 = c2 -> a3 = c3 -> a4 = c4 -> a5 = c5 -> Some (a0, a1, a2, a3, a4, a5) = Some (c0, c1, c2, c3, c4, c5).
Proof. intros; subst; reflexivity. Qed.
Ltac six := apply six_eq; btauto.

Lemma tests_flip w k t : (k < 24)%nat -> ham2418_tests w = Some t -> ham2418_tests (flip w k) = Some (xor6 t (signature k)).
Proof.
  intros Hk H.
  do 24 (destruct w as [|? w]; [discriminate|]). destruct w; [|discriminate].
  cbn [ham2418_tests] in H. inversion H; subst; clear H.
  do 24 (destruct k as [|k]; [set (s := signature _); vm_compute in s; subst s; cbn; six|]). lia.
Qed.

Lemma enc_tests d : length d = 18%nat -> ham2418_tests (ham2418_enc_bits d) = Some (true, true, true, true, true, true).
Proof.
  intros H. do 18 (destruct d as [|? d]; [discriminate|]). destruct d; [|discriminate].
  cbn. six.
Qed.

Lemma double_signatures : forallb (fun j => forallb (fun k => Nat.eqb j k ||
    (let '(t0, t1, t2, t3, t4, tp) := xor6 (xor6 (true, true, true, true, true, true) (signature j)) (signature k) in
     tp && negb (t0 && t1 && t2 && t3 && t4))) (seq 0 24)) (seq 0 24) = true.
Proof. vm_compute. reflexivity. Qed.

Theorem ham2418_bits_double_error : forall d j k, length d = 18%nat -> (j < 24)%nat -> (k < 24)%nat -> j <> k ->
  ham2418_dec_bits (flip (flip (ham2418_enc_bits d) j) k) = None.
Proof.
  intros d j k H Hj Hk Hjk. unfold ham2418_dec_bits.
  rewrite (tests_flip _ k _ Hk (tests_flip _ j _ Hj (enc_tests d H))).
  pose proof double_signatures as S. rewrite forallb_forall in S. specialize (S j ltac:(apply in_seq; lia)).
  rewrite forallb_forall in S. specialize (S k ltac:(apply in_seq; lia)).
  destruct (Nat.eqb_spec j k); [contradiction|]. cbn [orb] in S.
  destruct (xor6 (xor6 (true, true, true, true, true, true) (signature j)) (signature k)) as [[[[[t0 t1] t2] t3] t4] tp].
  apply andb_true_iff in S. destruct S as [Sp St]. subst tp.
  destruct t0, t1, t2, t3, t4; cbn in St |- *; try discriminate; reflexivity.
Qed.

(* ---- at the level of the three bytes ---- *)
Lemma bits_num_sweep : forallb (fun d => lb_eqb (bits_of 18 (num_of d)) d) (all_bools 18) = true.
Proof. vm_cast_no_check (eq_refl true). Qed.
