(* Hamming 24/18 (Model/TtxHam.v): for all data words, round trip, every single bit error corrected, every double bit error
   rejected -- from the linearity of the parity tests (boolean identities closed by btauto) and finite checks over the 24
   positions; no exhaustive sweep over the 2^18 data words is needed. *)
From Coq Require Import List NArith Bool Arith Lia Btauto.
From Astisub Require Import Model.TtxHam.
Import ListNotations.
Open Scope N_scope.

Fixpoint all_bools (n : nat) : list (list bool) :=
  match n with O => [[]] | S k => flat_map (fun l => [false :: l; true :: l]) (all_bools k) end.
Fixpoint lb_eqb (a b : list bool) : bool :=
  match a, b with [], [] => true | x :: a', y :: b' => Bool.eqb x y && lb_eqb a' b' | _, _ => false end.
Lemma lb_eqb_eq a b : lb_eqb a b = true -> a = b.
Proof.
  revert b; induction a as [|x a IH]; intros [|y b] H; cbn in H; try discriminate; [reflexivity|].
  apply andb_true_iff in H. destruct H as [H1 H2]. apply Bool.eqb_prop in H1. rewrite H1, (IH b H2). reflexivity.
Qed.
Definition is_some_eq (o : option (list bool)) (d : list bool) : bool := match o with Some x => lb_eqb x d | None => false end.
Lemma all_bools_in n : forall l, length l = n -> In l (all_bools n).
Proof.
  induction n as [|n IH]; intros l H.
  - destruct l; [left; reflexivity | discriminate].
  - destruct l as [|b r]; [discriminate|]. cbn [all_bools]. apply in_flat_map. exists r. split; [apply IH; cbn in H; lia|].
    destruct b; [right; left; reflexivity | left; reflexivity].
Qed.

Lemma enc_bits_length_early d : length d = 18%nat -> length (ham2418_enc_bits d) = 24%nat.
Proof. intros H. do 18 (destruct d as [|? d]; [discriminate|]). destruct d; [|discriminate]. reflexivity. Qed.

(* ---- double errors: the tests are linear ---- *)
(* which tests (and the overall parity) a flipped position k (0-based) changes *)
Definition signature (k : nat) : bool * bool * bool * bool * bool * bool :=
  let p := N.of_nat (k + 1) in
  if Nat.ltb k 23 then (N.testbit p 0, N.testbit p 1, N.testbit p 2, N.testbit p 3, N.testbit p 4, true)
  else (false, false, false, false, false, true).
Definition xor6 (a b : bool * bool * bool * bool * bool * bool) :=
  let '(a0, a1, a2, a3, a4, a5) := a in let '(b0, b1, b2, b3, b4, b5) := b in
  (xorb a0 b0, xorb a1 b1, xorb a2 b2, xorb a3 b3, xorb a4 b4, xorb a5 b5).

Lemma six_eq (a0 a1 a2 a3 a4 a5 c0 c1 c2 c3 c4 c5 : bool) :
  a0 = c0 -> a1 = c1 -> a2 = c2 -> a3 = c3 -> a4 = c4 -> a5 = c5 -> Some (a0, a1, a2, a3, a4, a5) = Some (c0, c1, c2, c3, c4, c5).
Proof. intros; subst; reflexivity. Qed.
Ltac six := apply six_eq; btauto.

Lemma tests_flip w k t : (k < 24)%nat -> ham2418_tests w = Some t -> ham2418_tests (flip w k) = Some (xor6 t (signature k)).
Proof.
  intros Hk H.
  do 24 (destruct w as [|? w]; [discriminate|]). destruct w; [|discriminate].
  cbn [ham2418_tests] in H. inversion H; subst; clear H.
  do 24 (destruct k as [|k]; [set (s := signature _); vm_compute in s; subst s; cbn; six|]). lia.
Qed.

Lemma enc_tests d : length d = 18%nat -> ham2418_tests (ham2418_enc_bits d) = Some (true, true, true, true, true, true).
Proof.
  intros H. do 18 (destruct d as [|? d]; [discriminate|]). destruct d; [|discriminate].
  cbn. six.
Qed.

Lemma double_signatures : forallb (fun j => forallb (fun k => Nat.eqb j k ||
    (let '(t0, t1, t2, t3, t4, tp) := xor6 (xor6 (true, true, true, true, true, true) (signature j)) (signature k) in
     tp && negb (t0 && t1 && t2 && t3 && t4))) (seq 0 24)) (seq 0 24) = true.
Proof. vm_compute. reflexivity. Qed.

Theorem ham2418_bits_double_error : forall d j k, length d = 18%nat -> (j < 24)%nat -> (k < 24)%nat -> j <> k ->
  ham2418_dec_bits (flip (flip (ham2418_enc_bits d) j) k) = None.
Proof.
  intros d j k H Hj Hk Hjk. unfold ham2418_dec_bits.
  rewrite (tests_flip _ k _ Hk (tests_flip _ j _ Hj (enc_tests d H))).
  pose proof double_signatures as S. rewrite forallb_forall in S. specialize (S j ltac:(apply in_seq; lia)).
  rewrite forallb_forall in S. specialize (S k ltac:(apply in_seq; lia)).
  destruct (Nat.eqb_spec j k); [contradiction|]. cbn [orb] in S.
  destruct (xor6 (xor6 (true, true, true, true, true, true) (signature j)) (signature k)) as [[[[[t0 t1] t2] t3] t4] tp].
  apply andb_true_iff in S. destruct S as [Sp St]. subst tp.
  destruct t0, t1, t2, t3, t4; cbn in St |- *; try discriminate; reflexivity.
Qed.

(* ---- round trip and single errors, from the same linearity (no exhaustive sweep over the data words) ---- *)
Lemma data_of_enc d : length d = 18%nat -> data_of (ham2418_enc_bits d) = d.
Proof. intros H. do 18 (destruct d as [|? d]; [discriminate|]). destruct d; [|discriminate]. reflexivity. Qed.
Lemma flip_flip w : forall k, flip (flip w k) k = w.
Proof. induction w as [|b r IH]; intros k; [destruct k; reflexivity|]. destruct k; cbn [flip]; [rewrite negb_involutive; reflexivity | rewrite IH; reflexivity]. Qed.
Lemma data_of_flip_last w : length w = 24%nat -> data_of (flip w 23) = data_of w.
Proof. intros H. do 24 (destruct w as [|? w]; [discriminate|]). destruct w; [|discriminate]. reflexivity. Qed.

Theorem ham2418_bits_roundtrip : forall d, length d = 18%nat -> ham2418_dec_bits (ham2418_enc_bits d) = Some d.
Proof. intros d H. unfold ham2418_dec_bits. rewrite (enc_tests d H). cbn. rewrite (data_of_enc d H). reflexivity. Qed.

(* the decoder's decision after one inverted bit, position by position *)
Lemma single_signatures : forallb (fun k =>
    let '(t0, t1, t2, t3, t4, tp) := xor6 (true, true, true, true, true, true) (signature k) in
    negb tp && Nat.eqb ((if t0 then 0 else 1) + (if t1 then 0 else 2) + (if t2 then 0 else 4) + (if t3 then 0 else 8) + (if t4 then 0 else 16))
                       (if Nat.ltb k 23 then k + 1 else 0)) (seq 0 24) = true.
Proof. vm_compute. reflexivity. Qed.

Theorem ham2418_bits_single_error : forall d k, length d = 18%nat -> (k < 24)%nat -> ham2418_dec_bits (flip (ham2418_enc_bits d) k) = Some d.
Proof.
  intros d k H Hk. unfold ham2418_dec_bits. rewrite (tests_flip _ k _ Hk (enc_tests d H)).
  pose proof single_signatures as S. rewrite forallb_forall in S. specialize (S k ltac:(apply in_seq; lia)).
  destruct (xor6 (true, true, true, true, true, true) (signature k)) as [[[[[t0 t1] t2] t3] t4] tp].
  apply andb_true_iff in S. destruct S as [Sp Ss]. apply negb_true_iff in Sp. subst tp. apply Nat.eqb_eq in Ss. rewrite Ss.
  destruct (Nat.ltb_spec k 23) as [L|L].
  - replace (Nat.eqb (k + 1) 0) with false by (symmetry; apply Nat.eqb_neq; lia).
    replace (Nat.leb (k + 1) 23) with true by (symmetry; apply Nat.leb_le; lia).
    replace (k + 1 - 1)%nat with k by lia. rewrite flip_flip. rewrite (data_of_enc d H). reflexivity.
  - assert (k = 23%nat) by lia. subst k. cbn [Nat.eqb]. rewrite (data_of_flip_last _ (enc_bits_length_early d H)). rewrite (data_of_enc d H). reflexivity.
Qed.

Lemma b2n_if (b : bool) : (if b then 1 else 0) = N.b2n b. Proof. destruct b; reflexivity. Qed.
Lemma bits_of_S n x : bits_of (S n) x = N.testbit x 0 :: bits_of n (N.div2 x).
Proof.
  unfold bits_of. cbn [seq map]. f_equal. rewrite <- seq_shift, map_map. apply map_ext. intros i.
  rewrite Nat2N.inj_succ. rewrite N.testbit_succ_r_div2 by apply N.le_0_l. reflexivity.
Qed.
Lemma bits_of_num l : bits_of (length l) (num_of l) = l.
Proof.
  induction l as [|b r IH]; [reflexivity|]. cbn [length num_of]. rewrite bits_of_S, b2n_if. f_equal.
  - rewrite N.add_comm. apply N.testbit_0_r.
  - rewrite N.div2_div. rewrite N.add_b2n_double_div2. exact IH.
Qed.
Lemma num_of_bits n : forall x, x < 2 ^ N.of_nat n -> num_of (bits_of n x) = x.
Proof.
  induction n as [|n IH]; intros x H.
  - cbn in H. assert (x = 0) by lia. subst. reflexivity.
  - rewrite bits_of_S. cbn [num_of]. rewrite b2n_if, N.bit0_odd.
    assert (Hx : x = 2 * N.div2 x + N.b2n (N.odd x)) by apply N.div2_odd.
    rewrite IH.
    + lia.
    + rewrite Nat2N.inj_succ, N.pow_succ_r' in H. destruct (N.odd x); cbn [N.b2n] in Hx; lia.
Qed.
Lemma num_of_lt l : num_of l < 2 ^ N.of_nat (length l).
Proof.
  induction l as [|b r IH]; [cbn; lia|]. cbn [length num_of]. rewrite Nat2N.inj_succ, N.pow_succ_r'. destruct b; lia.
Qed.
Lemma bits_of_length n x : length (bits_of n x) = n.
Proof. unfold bits_of. rewrite map_length, seq_length. reflexivity. Qed.
Lemma enc_bits_length d : length d = 18%nat -> length (ham2418_enc_bits d) = 24%nat.
Proof. intros H. do 18 (destruct d as [|? d]; [discriminate|]). destruct d; [|discriminate]. reflexivity. Qed.

(* a 24-bit number is its three bytes *)
Lemma bytes_of_word w : w < 2 ^ 24 ->
  N.land (N.land w 255) 255 + 256 * N.land (N.land (N.shiftr w 8) 255) 255 + 65536 * N.land (N.shiftr w 16) 255 = w.
Proof.
  intros H. change 255 with (N.ones 8). rewrite !N.land_ones, !N.shiftr_div_pow2. change (2 ^ 8) with 256. change (2 ^ 16) with 65536.
  rewrite !N.mod_mod by discriminate.
  assert (Hc : w / 65536 < 256) by (apply N.div_lt_upper_bound; [discriminate | change (65536 * 256) with (2 ^ 24); exact H]).
  rewrite (N.mod_small (w / 65536)) by exact Hc.
  assert (E : w / 65536 = (w / 256) / 256) by (rewrite N.div_div by discriminate; reflexivity).
  pose proof (N.div_mod w 256 ltac:(discriminate)) as D1. pose proof (N.div_mod (w / 256) 256 ltac:(discriminate)) as D2.
  rewrite E. lia.
Qed.

(* ---- the three bytes ---- *)
Definition flip_byte (x : N) (k : N) : N := N.lxor x (2 ^ k).

Theorem ham2418_roundtrip : forall d, d < 2 ^ 18 ->
  let '(b0, b1, b2) := ham2418_enc d in ham2418_dec b0 b1 b2 = Some d.
Proof.
  intros d H. unfold ham2418_enc, ham2418_dec.
  set (w := num_of (ham2418_enc_bits (bits_of 18 d))).
  assert (L : length (ham2418_enc_bits (bits_of 18 d)) = 24%nat) by (apply enc_bits_length, bits_of_length).
  assert (Hw : w < 2 ^ 24) by (subst w; pose proof (num_of_lt (ham2418_enc_bits (bits_of 18 d))) as X; rewrite L in X; exact X).
  rewrite (bytes_of_word w Hw). subst w. rewrite <- L at 1. rewrite bits_of_num.
  rewrite (ham2418_bits_roundtrip _ (bits_of_length 18 d)). rewrite (num_of_bits 18 d H). reflexivity.
Qed.

(* single errors at the level of the 24-bit word / its three bytes *)

Lemma bytes_of_word_mod w :
  N.land (N.land w 255) 255 + 256 * N.land (N.land (N.shiftr w 8) 255) 255 + 65536 * N.land (N.shiftr w 16) 255 = w mod 2 ^ 24.
Proof.
  change 255 with (N.ones 8). rewrite !N.land_ones, !N.shiftr_div_pow2. change (2 ^ 8) with 256. change (2 ^ 16) with 65536. change (2 ^ 24) with 16777216.
  rewrite !N.mod_mod by discriminate.
  assert (E : w / 65536 = (w / 256) / 256) by (rewrite N.div_div by discriminate; reflexivity).
  pose proof (N.div_mod w 256 ltac:(discriminate)) as D1. pose proof (N.div_mod (w / 256) 256 ltac:(discriminate)) as D2.
  pose proof (N.div_mod (w / 256 / 256) 256 ltac:(discriminate)) as D3.
  pose proof (N.div_mod w 16777216 ltac:(discriminate)) as D4.
  pose proof (N.mod_lt w 256 ltac:(discriminate)). pose proof (N.mod_lt (w / 256) 256 ltac:(discriminate)).
  pose proof (N.mod_lt (w / 256 / 256) 256 ltac:(discriminate)). pose proof (N.mod_lt w 16777216 ltac:(discriminate)).
  rewrite E.
  assert (Hq : w / 16777216 = w / 256 / 256 / 256) by (rewrite !N.div_div by discriminate; reflexivity).
  rewrite Hq in D4. lia.
Qed.
Lemma bits_of_mod n x : bits_of n (x mod 2 ^ N.of_nat n) = bits_of n x.
Proof.
  unfold bits_of. apply map_ext_in. intros i Hi. apply in_seq in Hi. apply N.mod_pow2_bits_low. lia.
Qed.
Lemma bits_flip n : forall x p, (p < n)%nat -> bits_of n (N.lxor x (2 ^ N.of_nat p)) = flip (bits_of n x) p.
Proof.
  induction n as [|n IH]; intros x p Hp; [lia|]. rewrite !bits_of_S. destruct p as [|p].
  - cbn [flip N.of_nat]. change (2 ^ 0) with 1. f_equal.
    + rewrite N.lxor_spec. cbn. apply xorb_true_r.
    + rewrite !N.div2_spec. rewrite N.shiftr_lxor. change (N.shiftr 1 1) with 0. rewrite N.lxor_0_r. reflexivity.
  - cbn [flip]. f_equal.
    + rewrite N.lxor_spec. rewrite N.pow2_bits_false by (rewrite Nat2N.inj_succ; lia). apply xorb_false_r.
    + rewrite !N.div2_spec, N.shiftr_lxor. rewrite <- !N.div2_spec.
      replace (N.div2 (2 ^ N.of_nat (S p))) with (2 ^ N.of_nat p).
      * apply IH. lia.
      * rewrite Nat2N.inj_succ, N.pow_succ_r', N.div2_double. reflexivity.
Qed.

Theorem ham2418_word_roundtrip : forall d, d < 2 ^ 18 -> ham2418_dec_word (ham2418_word d) = Some d.
Proof.
  intros d H. unfold ham2418_dec_word, ham2418_dec, ham2418_word. rewrite bytes_of_word_mod.
  rewrite (bits_of_mod 24). 
  assert (L : length (ham2418_enc_bits (bits_of 18 d)) = 24%nat) by (apply enc_bits_length, bits_of_length).
  rewrite <- L at 1. rewrite bits_of_num. rewrite (ham2418_bits_roundtrip _ (bits_of_length 18 d)). rewrite (num_of_bits 18 d H). reflexivity.
Qed.
(* any one of the 24 bits inverted on the way: corrected *)
Theorem ham2418_word_single_error : forall d p, d < 2 ^ 18 -> (p < 24)%nat ->
  ham2418_dec_word (N.lxor (ham2418_word d) (2 ^ N.of_nat p)) = Some d.
Proof.
  intros d p H Hp. unfold ham2418_dec_word, ham2418_dec, ham2418_word. rewrite bytes_of_word_mod.
  rewrite (bits_of_mod 24). rewrite (bits_flip 24 _ p Hp).
  assert (L : length (ham2418_enc_bits (bits_of 18 d)) = 24%nat) by (apply enc_bits_length, bits_of_length).
  rewrite <- L at 1. rewrite bits_of_num. rewrite (ham2418_bits_single_error _ p (bits_of_length 18 d) Hp). rewrite (num_of_bits 18 d H). reflexivity.
Qed.
(* any two of them: rejected *)
Theorem ham2418_word_double_error : forall d p q, d < 2 ^ 18 -> (p < 24)%nat -> (q < 24)%nat -> p <> q ->
  ham2418_dec_word (N.lxor (N.lxor (ham2418_word d) (2 ^ N.of_nat p)) (2 ^ N.of_nat q)) = None.
Proof.
  intros d p q H Hp Hq Hpq. unfold ham2418_dec_word, ham2418_dec, ham2418_word. rewrite bytes_of_word_mod.
  rewrite (bits_of_mod 24). rewrite (bits_flip 24 _ q Hq), (bits_flip 24 _ p Hp).
  assert (L : length (ham2418_enc_bits (bits_of 18 d)) = 24%nat) by (apply enc_bits_length, bits_of_length).
  rewrite <- L at 1. rewrite bits_of_num. rewrite (ham2418_bits_double_error _ p q (bits_of_length 18 d) Hp Hq Hpq). reflexivity.
Qed.
Print Assumptions ham2418_word_double_error.
