(* C03: encoding/xml's EscapeText as it is ([esc_text_go]: U+FFFD for characters outside the XML Char production
   and for invalid UTF-8) coincides with the byte-wise [esc_text] on legal texts; every string of the tree the
   TTML writer builds from a representable, legal document value is legal; hence the round trip through the
   bytes Go really emits.  A NUL byte in a cue text shows that legality cannot be dropped. *)
From Coq Require Import List ZArith NArith Bool Lia ZifyBool ZifyN ZifyNat.
From Astisub Require Import Kit.Base Kit.Str Kit.Utf8 Kit.Xml Kit.XmlEsc Kit.XmlParse Kit.SortOrd Model.Dur Model.Ttml Model.TtmlGo
  Proofs.DurProofs Proofs.TtmlSpec Proofs.TtmlDocSpec Proofs.TtmlDocA Proofs.TtmlDocB Proofs.TtmlDoc Proofs.TtmlBytes.
Import ListNotations.
Open Scope N_scope.

(* ================= EscapeText on legal texts ================= *)
Lemma esc_byte_plain c : is_special c = false -> esc_byte c = [c].
Proof.
  unfold is_special, esc_byte. intros H.
  repeat match goal with
         | |- context [if c =? ?k then _ else _] =>
           let E := fresh "E" in destruct (c =? k) eqn:E; [exfalso; lia|]
         end.
  reflexivity.
Qed.

Lemma esc_byte_high c : 128 <= c -> esc_byte c = [c].
Proof. intros H. apply esc_byte_plain. unfold is_special. lia. Qed.

(* one decoded rune: what EscapeText appends is the byte-wise escape of the bytes consumed *)
Lemma decode_step s rn w : decode_rune s = Some (rn, w) ->
  (if is_special rn then esc_byte rn else firstn w s) = flat_map esc_byte (firstn w s).
Proof.
  destruct s as [|a r]; [discriminate|]. unfold decode_rune.
  destruct (a <? 128) eqn:E1.
  { intros H. inversion H; subst rn w. clear H. cbn [firstn flat_map]. rewrite app_nil_r.
    destruct (is_special a) eqn:Es; [reflexivity | symmetry; apply esc_byte_plain; exact Es]. }
  destruct ((194 <=? a) && (a <? 224)) eqn:E2.
  { destruct r as [|b r]; [discriminate|]. destruct (utf8_cont b) eqn:Cb; [|discriminate].
    intros H. inversion H; subst rn w. clear H. unfold utf8_cont in Cb.
    assert (Hs : is_special ((a - 192) * 64 + (b - 128)) = false) by (unfold is_special; lia).
    rewrite Hs. cbn [firstn flat_map]. rewrite (esc_byte_high a), (esc_byte_high b) by lia. reflexivity. }
  destruct ((224 <=? a) && (a <? 240)) eqn:E3.
  { destruct r as [|b [|c r]]; try discriminate.
    destruct (utf8_cont b && utf8_cont c && (negb (a =? 224) || (160 <=? b)) && (negb (a =? 237) || (b <? 160))) eqn:C; [|discriminate].
    intros H. inversion H; subst rn w. clear H. unfold utf8_cont in C.
    assert (Hs : is_special ((a - 224) * 4096 + (b - 128) * 64 + (c - 128)) = false) by (unfold is_special; lia).
    rewrite Hs. cbn [firstn flat_map]. rewrite (esc_byte_high a), (esc_byte_high b), (esc_byte_high c) by lia. reflexivity. }
  destruct ((240 <=? a) && (a <? 245)) eqn:E4; [|discriminate].
  destruct r as [|b [|c [|d r]]]; try discriminate.
  destruct (utf8_cont b && utf8_cont c && utf8_cont d && (negb (a =? 240) || (144 <=? b)) && (negb (a =? 244) || (b <? 144))) eqn:C; [|discriminate].
  intros H. inversion H; subst rn w. clear H. unfold utf8_cont in C.
  assert (Hs : is_special ((a - 240) * 262144 + (b - 128) * 4096 + (c - 128) * 64 + (d - 128)) = false) by (unfold is_special; lia).
  rewrite Hs. cbn [firstn flat_map].
  rewrite (esc_byte_high a), (esc_byte_high b), (esc_byte_high c), (esc_byte_high d) by lia. reflexivity.
Qed.

Lemma esc_go_fuel_legal : forall fuel s, legal_fuel fuel s = true -> esc_go_fuel fuel s = flat_map esc_byte s.
Proof.
  induction fuel as [|f IH]; intros s H.
  - destruct s as [|a r]; [reflexivity | discriminate].
  - destruct s as [|a r]; [reflexivity|].
    cbn [legal_fuel] in H. cbn [esc_go_fuel].
    destruct (decode_rune (a :: r)) as [[rn w]|] eqn:D; [|discriminate].
    apply andb_true_iff in H. destruct H as [Hc Hl].
    rewrite Hc, (IH _ Hl).
    transitivity (flat_map esc_byte (firstn w (a :: r)) ++ flat_map esc_byte (skipn w (a :: r))).
    + f_equal. rewrite <- (decode_step _ _ _ D). destruct (is_special rn); reflexivity.
    + rewrite <- flat_map_app, firstn_skipn. reflexivity.
Qed.

Theorem esc_text_go_legal : forall s, xml_legal s = true -> esc_text_go s = esc_text s.
Proof. intros s H. unfold esc_text_go, esc_text. apply esc_go_fuel_legal. exact H. Qed.

(* ================= the printer on legal trees ================= *)
Lemma flat_map_ext_in {A B} (f g : A -> list B) l : (forall x, In x l -> f x = g x) -> flat_map f l = flat_map g l.
Proof.
  induction l as [|a r IH]; intros H; [reflexivity|]. cbn [flat_map].
  rewrite (H a (or_introl eq_refl)), IH by (intros x Hx; apply H; right; exact Hx). reflexivity.
Qed.

Theorem print_node_go_legal : forall pn ind d t, legal_tree t = true -> print_node_go pn ind d t = print_node pn ind d t.
Proof.
  intros pn ind d t. revert d. induction t as [s|name al ks IH] using xnode_ind'; intros d H.
  - cbn [legal_tree] in H. cbn [print_node_go print_node]. apply esc_text_go_legal. exact H.
  - cbn [legal_tree] in H. apply andb_true_iff in H. destruct H as [Ha Hk].
    cbn [print_node_go print_node].
    assert (Eal : flat_map (print_attr_go pn) al = flat_map (print_attr pn) al).
    { apply flat_map_ext_in. intros x Hx. unfold print_attr_go, print_attr.
      rewrite (esc_text_go_legal (snd x)) by exact (forallb_In _ _ _ Ha Hx). reflexivity. }
    assert (Ek : forall d', forall k, In k ks -> print_node_go pn ind d' k = print_node pn ind d' k).
    { intros d' k Hin. rewrite Forall_forall in IH. apply (IH k Hin). exact (forallb_In _ _ _ Hk Hin). }
    rewrite Eal.
    rewrite (flat_map_ext_in (fun k => indent_str ind (S d) ++ print_node_go pn ind (S d) k)
                             (fun k => indent_str ind (S d) ++ print_node pn ind (S d) k) ks)
      by (intros k Hin; rewrite (Ek (S d) k Hin); reflexivity).
    rewrite (flat_map_ext_in (print_node_go pn ind (S d)) (print_node pn ind (S d)) ks) by (apply Ek).
    reflexivity.
Qed.

(* ================= ASCII strings are legal ================= *)
Definition ascii (c : N) : bool := (32 <=? c) && (c <? 127).

Lemma ascii_legal s : forallb (fun c => (32 <=? c) && (c <? 127)) s = true -> xml_legal s = true.
Proof.
  unfold xml_legal. induction s as [|a r IH]; intros H; [reflexivity|].
  cbn [forallb] in H. apply andb_true_iff in H. destruct H as [Ha Hr].
  cbn [length legal_fuel]. unfold decode_rune.
  assert (E : a <? 128 = true) by lia. rewrite E.
  assert (Ec : in_char_range a = true) by (unfold in_char_range; lia). rewrite Ec.
  cbn [skipn andb]. apply IH. exact Hr.
Qed.

Lemma forallb_impl {A} (P Q : A -> bool) l : (forall x, P x = true -> Q x = true) -> forallb P l = true -> forallb Q l = true.
Proof.
  intros HPQ. induction l as [|a r IH]; intros H; [reflexivity|].
  cbn [forallb] in *. apply andb_true_iff in H. destruct H as [H1 H2]. rewrite (HPQ a H1), (IH H2). reflexivity.
Qed.

Lemma digit_ascii c : is_digit c = true -> ascii c = true.
Proof. unfold is_digit, ascii. lia. Qed.
Lemma digits_ascii s : forallb is_digit s = true -> forallb ascii s = true.
Proof. apply forallb_impl. exact digit_ascii. Qed.

Lemma itoa_z_ascii z : forallb ascii (itoa_z z) = true.
Proof.
  destruct z as [|p|p].
  - unfold itoa_z. apply digits_ascii. apply itoa_digits.
  - unfold itoa_z. apply digits_ascii. apply itoa_digits.
  - unfold itoa_z. cbn [forallb]. rewrite (digits_ascii _ (itoa_digits (Npos p))). reflexivity.
Qed.

Lemma format_ttml_ascii t : (0 <= t)%Z -> forallb ascii (format_ttml t) = true.
Proof.
  intros Ht. unfold format_ttml.
  assert (Hk : (1 <= 3 <= 3)%nat) by lia.
  destruct (format_grammar dot 3 t Hk Ht) as (E & Dh & _ & Dm & _ & _ & Ds & _ & _ & Df & _).
  rewrite E. unfold digits in *. rewrite !forallb_app.
  rewrite (digits_ascii _ Dh), (digits_ascii _ Dm), (digits_ascii _ Ds), (digits_ascii _ Df). reflexivity.
Qed.

(* ================= the strings of the written tree ================= *)
Definition L (a : xattr) : bool := xml_legal (snd a).

Lemma forallb_app_true {A} (P : A -> bool) a b : forallb P a = true -> forallb P b = true -> forallb P (a ++ b) = true.
Proof. intros Ha Hb. rewrite forallb_app, Ha, Hb. reflexivity. Qed.

Lemma L_opt_attr sp l v : legal_ostr v = true -> forallb L (opt_attr sp l v) = true.
Proof.
  destruct v as [[|c r]|]; intros H; try reflexivity.
  cbn [opt_attr forallb]. unfold L. cbn [snd]. cbn [legal_ostr] in H. rewrite H. reflexivity.
Qed.

Lemma L_named (names : list str) : forall vals, forallb legal_ostr vals = true ->
  forallb L (flat_map (fun p : str * option str => match snd p with Some v => [(nm ns_tts (fst p), v)] | None => [] end)
                      (combine names vals)) = true.
Proof.
  induction names as [|n names IH]; intros vals H; [reflexivity|].
  destruct vals as [|v vals]; [reflexivity|].
  cbn [forallb] in H. apply andb_true_iff in H. destruct H as [H1 H2].
  cbn [combine flat_map]. rewrite forallb_app. apply andb_true_iff. split; [|exact (IH vals H2)]. cbn [snd fst].
  destruct v as [v|]; [|reflexivity]. cbn [forallb]. unfold L. cbn [snd]. cbn [legal_ostr] in H1. rewrite H1. reflexivity.
Qed.

Lemma L_out_attrs a : legal_attrs a = true -> forallb L (out_attrs a) = true.
Proof.
  unfold legal_attrs, out_attrs. intros H. apply forallb_app_true; [exact (L_named attr_names _ H)|].
  destruct (ta_z a) as [z|]; [|reflexivity]. cbn [forallb andb]. unfold L. cbn [snd].
  rewrite (ascii_legal _ (itoa_z_ascii z)). reflexivity.
Qed.

Lemma forallb_removelast {A} (P : A -> bool) l : forallb P l = true -> forallb P (removelast l) = true.
Proof.
  induction l as [|a r IH]; intros H; [reflexivity|].
  cbn [forallb] in H. apply andb_true_iff in H. destruct H as [H1 H2].
  destruct r as [|b r]; [reflexivity|].
  change (removelast (a :: b :: r)) with (a :: removelast (b :: r)). cbn [forallb]. rewrite H1. exact (IH H2).
Qed.

Lemma legal_out_header el s : legal_style s = true -> legal_tree (out_header el s) = true.
Proof.
  unfold legal_style. intros H. apply andb_true_iff in H. destruct H as [H H3]. apply andb_true_iff in H. destruct H as [H1 H2].
  unfold out_header. cbn [legal_tree forallb]. rewrite andb_true_r. fold L.
  apply forallb_app_true; [exact (L_opt_attr ns_xml s_id (Some (ts_id s)) H1)|].
  apply forallb_app_true; [exact (L_opt_attr [] s_style _ H2) | exact (L_out_attrs _ H3)].
Qed.

Lemma legal_out_run r : legal_run r = true -> legal_tree (out_run r) = true.
Proof.
  unfold legal_run. intros H. apply andb_true_iff in H. destruct H as [H H3]. apply andb_true_iff in H. destruct H as [H1 H2].
  unfold out_run. cbn [legal_tree]. fold L. apply andb_true_iff. split.
  { apply forallb_app_true; [exact (L_opt_attr [] s_style _ H2) | exact (L_out_attrs _ H3)]. }
  unfold text_kids. destruct (tr_txt r) as [|c t]; [reflexivity|]. cbn [forallb legal_tree]. rewrite H1. reflexivity.
Qed.

Lemma legal_out_lines ls : forallb (forallb legal_run) ls = true -> forallb legal_tree (out_lines ls) = true.
Proof.
  intros H. unfold out_lines. apply forallb_removelast.
  induction ls as [|l ls IH]; [reflexivity|].
  cbn [forallb] in H. apply andb_true_iff in H. destruct H as [H1 H2].
  cbn [flat_map]. rewrite !forallb_app, (IH H2), andb_true_r.
  assert (Hm : forallb legal_tree (map out_run l) = true).
  { clear - H1. induction l as [|r l IHl]; [reflexivity|].
    cbn [forallb] in H1. apply andb_true_iff in H1. destruct H1 as [Hr Hl].
    cbn [map forallb]. rewrite (legal_out_run r Hr), (IHl Hl). reflexivity. }
  rewrite Hm. reflexivity.
Qed.

Lemma legal_out_p it : (0 <= ti_st it)%Z -> (0 <= ti_en it)%Z -> legal_item it = true -> legal_tree (out_p it) = true.
Proof.
  intros Hs He H. unfold legal_item in H.
  apply andb_true_iff in H. destruct H as [H H4]. apply andb_true_iff in H. destruct H as [H H3].
  apply andb_true_iff in H. destruct H as [H1 H2].
  unfold out_p. cbn [legal_tree]. fold L. apply andb_true_iff. split; [|exact (legal_out_lines _ H4)].
  apply forallb_app_true.
  { cbn [forallb]. unfold L. cbn [snd].
    rewrite (ascii_legal _ (format_ttml_ascii _ Hs)), (ascii_legal _ (format_ttml_ascii _ He)). reflexivity. }
  apply forallb_app_true; [exact (L_opt_attr [] s_region _ H1)|].
  apply forallb_app_true; [exact (L_opt_attr [] s_style _ H2) | exact (L_out_attrs _ H3)].
Qed.

Lemma legal_headers el m : forallb (fun kv : str * tstyle => legal_style (snd kv)) m = true -> forallb legal_tree (headers el m) = true.
Proof.
  unfold headers. induction m as [|kv m IH]; intros H; [reflexivity|].
  cbn [forallb] in H. apply andb_true_iff in H. destruct H as [H1 H2].
  cbn [map forallb]. rewrite (legal_out_header el _ H1), (IH H2). reflexivity.
Qed.

Lemma legal_md_of m :
  match m with Some m => xml_legal (tm_title m) && xml_legal (tm_copyright m) | None => true end = true ->
  forallb legal_tree (md_of m) = true.
Proof.
  destruct m as [m|]; [|reflexivity]. intros H. apply andb_true_iff in H. destruct H as [Ht Hc].
  unfold md_of. destruct (negb (null (tm_copyright m) && null (tm_title m))); [|reflexivity].
  cbn [elem_if forallb legal_tree].
  destruct (negb (null (tm_copyright m))); destruct (negb (null (tm_title m)));
    cbn [elem_if app forallb legal_tree]; rewrite ?Ht, ?Hc; reflexivity.
Qed.

Lemma legal_lang l : legal_ostr (map_get_inv l lang_table) = true.
Proof.
  unfold lang_table. cbn [map_get_inv].
  repeat match goal with
         | |- context [str_eqb l ?s] => destruct (str_eqb l s); [vm_compute; reflexivity|]
         end.
  reflexivity.
Qed.

Lemma legal_root_attrs m : forallb L (root_attrs (lang_code m)) = true.
Proof.
  unfold root_attrs. rewrite !forallb_app.
  assert (Hl : legal_ostr (lang_code m) = true) by (destruct m as [m|]; [apply legal_lang | reflexivity]).
  rewrite (L_opt_attr ns_xml s_lang _ Hl). vm_compute. reflexivity.
Qed.

Lemma legal_written_tree d : repr_doc d = true -> legal_doc d = true -> legal_tree (written_tree d) = true.
Proof.
  intros Hr Hl. apply repr_doc_parts in Hr. destruct Hr as (Hne & Hms & Hmr & _ & _ & Hit).
  unfold legal_doc in Hl.
  apply andb_true_iff in Hl. destruct Hl as [Hl L4]. apply andb_true_iff in Hl. destruct Hl as [Hl L3].
  apply andb_true_iff in Hl. destruct Hl as [L1 L2].
  unfold written_tree. rewrite (sort_keys_map_ok _ Hms), (sort_keys_map_ok _ Hmr).
  cbn [legal_tree]. change (fun a : xname * list N => xml_legal (snd a)) with L.
  rewrite legal_root_attrs. unfold skel. cbn [forallb legal_tree andb].
  rewrite forallb_app, (legal_md_of _ L1). cbn [forallb legal_tree andb].
  rewrite (legal_headers s_style _ L2), (legal_headers s_region _ L3). cbn [andb].
  rewrite !andb_true_r.
  assert (Hp : forall its, forallb (item_ok (td_styles d) (td_regions d)) its = true -> forallb legal_item its = true ->
                           forallb legal_tree (map out_p its) = true).
  { induction its as [|it its IH]; intros Ho Hli; [reflexivity|].
    cbn [forallb] in Ho, Hli. apply andb_true_iff in Ho. destruct Ho as [Ho1 Ho2].
    apply andb_true_iff in Hli. destruct Hli as [Hl1 Hl2].
    cbn [map forallb]. rewrite (IH Ho2 Hl2), andb_true_r. unfold item_ok in Ho1.
    apply legal_out_p; [lia | lia | exact Hl1]. }
  apply Hp; assumption.
Qed.

Theorem written_tree_legal : forall d t, repr_doc d = true -> legal_doc d = true -> write_ttml d = Ok t -> legal_tree t = true.
Proof.
  intros d t Hr Hl Hw. pose proof (repr_doc_parts d Hr) as (Hne & _).
  rewrite (write_ttml_eq d Hne) in Hw. inversion Hw; subst t. apply legal_written_tree; assumption.
Qed.

Theorem write_ttml_bytes_go_legal : forall d ind, repr_doc d = true -> legal_doc d = true ->
  write_ttml_bytes_go ind d = write_ttml_bytes ind d.
Proof.
  intros d ind Hr Hl. unfold write_ttml_bytes_go, write_ttml_bytes.
  destruct (write_ttml d) as [t|k|p] eqn:E; try reflexivity.
  cbn [bind]. rewrite (print_node_go_legal _ _ _ _ (written_tree_legal d t Hr Hl E)). reflexivity.
Qed.

Theorem write_read_bytes_go : forall d ind, repr_doc d = true -> legal_doc d = true -> indent_ok ind = true ->
  exists b t, write_ttml_bytes_go ind d = Ok b /\ xml_parse b = Some t /\ read_ttml t = Ok (written_value d).
Proof.
  intros d ind Hr Hl Hi. rewrite (write_ttml_bytes_go_legal d ind Hr Hl). apply write_read_bytes; assumption.
Qed.

(* ================= legality cannot be dropped ================= *)
Definition illegal_doc : tdoc := mkDoc None [] [] [mkItem 1000000000 2000000000 None None no_attrs [[mkRun [0%N] None no_attrs]]].
Definition illegal_bytes : str := match write_ttml_bytes_go [] illegal_doc with Ok b => b | _ => [] end.
Definition illegal_tree : xnode := match xml_parse illegal_bytes with Some t => t | None => XText [] end.
Definition illegal_read : tdoc := match read_ttml illegal_tree with Ok d => d | _ => illegal_doc end.

Example illegal_text_not_round_trip :
  repr_doc illegal_doc = true /\ legal_doc illegal_doc = false /\
  exists b t d', write_ttml_bytes_go [] illegal_doc = Ok b /\ xml_parse b = Some t /\ read_ttml t = Ok d' /\
                 map ti_lines (td_items d') = [[[mkRun [239; 191; 189]%N None no_attrs]]].
Proof.
  split; [vm_compute; reflexivity|]. split; [vm_compute; reflexivity|].
  exists illegal_bytes, illegal_tree, illegal_read.
  split; [vm_compute; reflexivity|]. split; [vm_compute; reflexivity|]. split; vm_compute; reflexivity.
Qed.

Print Assumptions write_read_bytes_go.
Print Assumptions esc_text_go_legal.
