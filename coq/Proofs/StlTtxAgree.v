(* C05/C06: one row model for the teletext display standards.  The shared row parser of Model/TtxRow.v, instantiated with
   the STL styler (Model/TtxRowStl.v: stl_parse_row) and with the STL character handler as its decoder, computes exactly
   what Model/Stl.v's stl_ttx_row computes - for every row and every pending accent.  So the theorems about DSC 1/2
   rows stated on either model hold for the other (in particular stl_parse_row_encoded for the STL reader's rows). *)
From Coq Require Import List ZArith NArith Bool Lia.
From Astisub Require Import Kit.Base Kit.Str Model.Dur Model.Stl Model.TtxRow Model.TtxRowStl Gen.StlTables.
Import ListNotations.
Open Scope N_scope.

(* the STL character handler as the decoder parameter of the shared parser: state = the pending accent *)
Definition stl_handler (acc : option N) (v : N) : res (str * option N) := Ok (decode1 acc v).

(* Model/Stl.v's attributes and runs in the shared parser's types *)
Definition sty_of (a : sattr_stl) : tsty stlx :=
  mkTsty (a_col a) (a_dh a) (a_ds a) (a_dw a) (mkStlx (a_bx a) (a_it a) (a_un a)).
Definition onat (o : option N) : N := match o with Some n => n | None => 0 end.
Definition trun_of (x : erun) : trun stlx := mkTrun (ru_text x) (sty_of (ru_at x)) (onat (ru_sb x)) (onat (ru_sa x)).
Definition state_of (items : list erun) (text : str) (a : sattr_stl) (started : bool) (acc : option N) : rowst stlx (option N) :=
  mkRowst (map trun_of (rev items)) (mkTitem text (sty_of a)) started acc.

Notation step := (row_step stlx stlx (option N) stl_handler (Some stl_styler)).
Notation fold := (row_fold stlx stlx (option N) stl_handler (Some stl_styler)).
Notation app_item := (append_item stlx stlx (Some stl_styler)).

Lemma count_lead_spaces s : count_lead 32 s = lead_spaces s.
Proof. induction s as [|c r IH]; [reflexivity|]. cbn [count_lead lead_spaces]. rewrite IH. reflexivity. Qed.

Lemma append_agree items text a :
  app_item (map trun_of (rev items)) (mkTitem text (sty_of a)) = map trun_of (rev (stl_append_ttx items text a)).
Proof.
  unfold append_item, stl_append_ttx. cbn [ti_text ti_sty]. destruct (trim_space text) as [|c t]; [reflexivity|].
  cbn [rev]. rewrite map_app. cbn [map]. unfold trun_of at 3. cbn [ru_text ru_at ru_sb ru_sa onat].
  rewrite !count_lead_spaces. reflexivity.
Qed.

Lemma append_agree' items text it un bx col dh ds dw :
  app_item (map trun_of (rev items)) (mkTitem text (mkTsty col dh ds dw (mkStlx bx it un)))
  = map trun_of (rev (stl_append_ttx items text (mkSattrStl it un bx col dh ds dw))).
Proof. exact (append_agree items text (mkSattrStl it un bx col dh ds dw)). Qed.

(* one byte: Model/Stl.v's loop body as a function of the state *)
Definition my_step (v : N) (items : list erun) (text : str) (a : sattr_stl) (started : bool) (acc : option N)
  : list erun * str * sattr_stl * bool * option N :=
  let color := if v <=? 7 then Some v else None in
  let started' := if v =? 10 then false else if v =? 11 then true else started in
  let dh := if v =? 12 then Some false else if v =? 13 then Some true else None in
  let dw := if v =? 12 then Some false else if v =? 14 then Some true else None in
  let ds := if v =? 12 then Some false else if v =? 15 then Some true else None in
  let sc := if (v <=? 7) || ((10 <=? v) && (v <=? 15)) then None else sty_code v in
  if o_some color || o_some dh || o_some ds || o_some dw || o_some sc then
    let changed := negb (opt_eqb color (a_col a)) || o_some dh || o_some (a_dh a) || o_some ds || o_some (a_ds a)
                   || o_some dw || o_some (a_dw a) || o_some sc || o_some (a_it a) || o_some (a_un a) || o_some (a_bx a) in
    if changed then
      let items' := if started' then stl_append_ttx items text a else items in
      let text' := if started' then [] else text in
      let a1 := mkSattrStl (a_it a) (a_un a) (a_bx a)
                  (match color with Some c => Some c | None => a_col a end)
                  (match dh with Some b => Some b | None => a_dh a end)
                  (match ds with Some b => Some b | None => a_ds a end)
                  (match dw with Some b => Some b | None => a_dw a end) in
      let a2 := match sc with Some c => sty_update a1 c | None => a1 end in
      (items', text', a2, started', acc)
    else (items, text, a, started', acc)
  else if started' then let '(o, acc') := decode1 acc v in (items, text ++ o, a, started', acc')
  else (items, text, a, started', acc).

Lemma ttx_row_cons v r items text a started acc :
  stl_ttx_row (v :: r) items text a started acc =
  let '(i', t', a', s', c') := my_step v items text a started acc in stl_ttx_row r i' t' a' s' c'.
Proof.
  cbn [stl_ttx_row]. unfold my_step.
  destruct (o_some _ || o_some _ || o_some _ || o_some _ || o_some _).
  - destruct (negb _ || _ || _ || _ || _ || _ || _ || _ || _ || _ || _); reflexivity.
  - destruct (if v =? 10 then false else if v =? 11 then true else started); [|reflexivity]. destruct (decode1 acc v). reflexivity.
Qed.

(* the same byte through the shared parser *)
Definition special (v : N) : bool := (v <? 8) || ((10 <=? v) && (v <=? 15)) || ((128 <=? v) && (v <=? 133)).

Lemma step_plain v items text a started acc : special v = false ->
  step (state_of items text a started acc) v =
  Ok (let '(i', t', a', s', c') := my_step v items text a started acc in state_of i' t' a' s' c').
Proof.
  intros H. unfold special in H. apply orb_false_iff in H. destruct H as [H H3]. apply orb_false_iff in H. destruct H as [H1 H2].
  assert (E7 : (v <=? 7) = false) by (apply N.leb_gt; apply N.ltb_ge in H1; lia).
  assert (N10 : (v =? 10) = false) by (apply N.eqb_neq; intros ->; vm_compute in H2; discriminate H2).
  assert (N11 : (v =? 11) = false) by (apply N.eqb_neq; intros ->; vm_compute in H2; discriminate H2).
  assert (N12 : (v =? 12) = false) by (apply N.eqb_neq; intros ->; vm_compute in H2; discriminate H2).
  assert (N13 : (v =? 13) = false) by (apply N.eqb_neq; intros ->; vm_compute in H2; discriminate H2).
  assert (N14 : (v =? 14) = false) by (apply N.eqb_neq; intros ->; vm_compute in H2; discriminate H2).
  assert (N15 : (v =? 15) = false) by (apply N.eqb_neq; intros ->; vm_compute in H2; discriminate H2).
  assert (S128 : (v =? 128) = false) by (apply N.eqb_neq; intros ->; vm_compute in H3; discriminate H3).
  assert (S129 : (v =? 129) = false) by (apply N.eqb_neq; intros ->; vm_compute in H3; discriminate H3).
  assert (S130 : (v =? 130) = false) by (apply N.eqb_neq; intros ->; vm_compute in H3; discriminate H3).
  assert (S131 : (v =? 131) = false) by (apply N.eqb_neq; intros ->; vm_compute in H3; discriminate H3).
  assert (S132 : (v =? 132) = false) by (apply N.eqb_neq; intros ->; vm_compute in H3; discriminate H3).
  assert (S133 : (v =? 133) = false) by (apply N.eqb_neq; intros ->; vm_compute in H3; discriminate H3).
  unfold row_step, my_step, state_of. cbn [rs_li rs_started rs_l rs_d ti_sty ti_text sy_parse sy_new sy_set stl_styler].
  unfold sty_code, stl_parse. rewrite H1, H2, E7, N10, N11, N12, N13, N14, N15, S128, S129, S130, S131, S132, S133.
  cbn [negb andb orb t_is_some o_some stl_set stlx0 sx_italics sx_boxing sx_underline].
  destruct started; [|reflexivity]. unfold stl_handler. cbn [bind fst snd]. destruct (decode1 acc v) as [o acc']. reflexivity.
Qed.

Lemma special_cases v : special v = true ->
  In v [0;1;2;3;4;5;6;7;10;11;12;13;14;15;128;129;130;131;132;133].
Proof.
  unfold special. intros H. cbn [In].
  assert (C : v < 8 \/ (10 <= v /\ v <= 15) \/ (128 <= v /\ v <= 133)).
  { apply orb_true_iff in H. destruct H as [H|H]; [apply orb_true_iff in H; destruct H as [H|H]|].
    - left. apply N.ltb_lt. exact H.
    - right. left. apply andb_true_iff in H. destruct H as [A B]. apply N.leb_le in A. apply N.leb_le in B. lia.
    - right. right. apply andb_true_iff in H. destruct H as [A B]. apply N.leb_le in A. apply N.leb_le in B. lia. }
  lia.
Qed.

(* for the twenty control values both sides compute, whatever the state *)
Local Opaque trim_space decode1 opt_eqb append_item stl_append_ttx.
Ltac solve_value :=
  unfold row_step, my_step, state_of, sty_code, stl_handler, sty_update, sty_of;
  cbn [rs_li rs_started rs_l rs_d ti_sty ti_text sy_parse sy_new sy_set sy_changed sy_update stl_styler
       ts_color ts_dh ts_ds ts_dw ts_x a_it a_un a_bx a_col a_dh a_ds a_dw];
  unfold stl_parse, stl_update, stl_changed, stl_set, stlx0, t_opt_or, fresh_ne, t_is_some, o_some; cbn;
  repeat match goal with
         | |- context [opt_eqb ?x ?y] => destruct (opt_eqb x y)
         | |- context [match ?o with Some _ => _ | None => _ end] => is_var o; destruct o
         | |- context [if ?b then _ else _] => is_var b; destruct b
         end;
  cbn; rewrite ?append_agree'; reflexivity.

Lemma step_special v items text a started acc : special v = true ->
  step (state_of items text a started acc) v =
  Ok (let '(i', t', a', s', c') := my_step v items text a started acc in state_of i' t' a' s' c').
Proof.
  intros H. apply special_cases in H. destruct a as [it un bx col dh ds dw]. cbn [In] in H.
  repeat (destruct H as [<-|H]; [solve_value|]). contradiction.
Qed.
Local Transparent trim_space decode1 opt_eqb append_item stl_append_ttx.

Lemma step_agree v items text a started acc :
  step (state_of items text a started acc) v =
  Ok (let '(i', t', a', s', c') := my_step v items text a started acc in state_of i' t' a' s' c').
Proof. destruct (special v) eqn:E; [apply step_special | apply step_plain]; exact E. Qed.

Lemma fold_agree : forall row items text a started acc,
  exists st', fold (state_of items text a started acc) row = Ok st' /\
    (app_item (rs_l st') (rs_li st'), rs_d st') =
    (let '(l, acc') := stl_ttx_row row items text a started acc in (map trun_of l, acc')).
Proof.
  induction row as [|v r IH]; intros items text a started acc.
  - eexists. split; [reflexivity|]. cbn [stl_ttx_row state_of rs_l rs_li rs_d]. rewrite append_agree. reflexivity.
  - cbn [row_fold]. rewrite step_agree, ttx_row_cons. cbn [bind].
    destruct (my_step v items text a started acc) as [[[[i' t'] a'] s'] c']. apply IH.
Qed.

(* the two models of parseTeletextRow under the STL reader agree on every row and every pending accent *)
Theorem stl_ttx_row_is_parse_row row acc :
  stl_parse_row stl_handler acc row =
  Ok (let '(l, acc') := stl_ttx_row row [] [] sattr0_stl false acc in (map trun_of l, acc')).
Proof.
  unfold stl_parse_row, parse_row.
  destruct (fold_agree row [] [] sattr0_stl false acc) as (st' & F & E).
  change (rowst0 stlx (option N) stlx0 acc) with (state_of [] [] sattr0_stl false acc). rewrite F. cbn [bind]. rewrite E. reflexivity.
Qed.
(* the runs are in one-to-one correspondence: nothing is lost in the translation *)
Lemma trun_of_injective x y : ru_sb x <> None -> ru_sa x <> None -> ru_sb y <> None -> ru_sa y <> None -> trun_of x = trun_of y -> x = y.
Proof.
  destruct x as [t [it un bx col dh ds dw] [sb|] [sa|]], y as [t' [it' un' bx' col' dh' ds' dw'] [sb'|] [sa'|]]; try contradiction.
  intros _ _ _ _ H. unfold trun_of, sty_of in H. cbn in H. inversion H. reflexivity.
Qed.
