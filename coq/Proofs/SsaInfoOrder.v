(* SSA/ASS script info: the key lines may come in any order (and may be repeated); they set different fields. *)
From Coq Require Import List ZArith NArith Bool Lia.
From Astisub Require Import Kit.Base Kit.Str Kit.Scan Model.Dur Model.Ssa.
From Astisub Require Import Proofs.VttBase Proofs.EolProofs Proofs.SsaFields Proofs.SsaTrim Proofs.SsaRows Proofs.SsaLines Proofs.SsaInfo.
Import ListNotations.
Open Scope N_scope.

Inductive fkey := FK (k : ikey) | FN (k : nkey) | FT.
Inductive fval := FVs (s : str) | FVn (o : option Z).
Definition qget (f : fkey) (i : ainfo) : fval :=
  match f with FK k => FVs (kget k i) | FN k => FVn (nget k i) | FT => FVn (an_timer i) end.
Definition qset (f : fkey) (b i : ainfo) : ainfo :=
  match f with FK k => kset k (kget k b) i | FN k => nset k (nget k b) i | FT => set_timer (an_timer b) i end.
Definition fline (f : fkey) (b : ainfo) : list str :=
  match f with FK k => info_str_lines k b | FN k => info_num_lines k b | FT => info_timer_lines b end.
Lemma fkey_eq_dec (a b : fkey) : {a = b} + {a <> b}.
Proof. repeat decide equality. Qed.

Lemma ainfo_ext i j : an_comments i = an_comments j -> (forall f, qget f i = qget f j) -> i = j.
Proof.
  intros Hc H. destruct i, j. cbn in Hc.
  pose proof (H (FK KCollisions)) as H1; cbn in H1; injection H1 as H1.
  pose proof (H (FK KOriginalEditing)) as H2; cbn in H2; injection H2 as H2.
  pose proof (H (FK KOriginalScript)) as H3; cbn in H3; injection H3 as H3.
  pose proof (H (FK KOriginalTiming)) as H4; cbn in H4; injection H4 as H4.
  pose proof (H (FK KOriginalTranslation)) as H5; cbn in H5; injection H5 as H5.
  pose proof (H (FK KScriptType)) as H6; cbn in H6; injection H6 as H6.
  pose proof (H (FK KScriptUpdatedBy)) as H7; cbn in H7; injection H7 as H7.
  pose proof (H (FK KSynchPoint)) as H8; cbn in H8; injection H8 as H8.
  pose proof (H (FK KTitle)) as H9; cbn in H9; injection H9 as H9.
  pose proof (H (FK KUpdateDetails)) as H10; cbn in H10; injection H10 as H10.
  pose proof (H (FK KWrapStyle)) as H11; cbn in H11; injection H11 as H11.
  pose proof (H (FN KPlayDepth)) as H12; cbn in H12; injection H12 as H12.
  pose proof (H (FN KPlayResX)) as H13; cbn in H13; injection H13 as H13.
  pose proof (H (FN KPlayResY)) as H14; cbn in H14; injection H14 as H14.
  pose proof (H FT) as H15; cbn in H15; injection H15 as H15.
  subst. reflexivity.
Qed.
Lemma qget_qset_same f b i : qget f (qset f b i) = qget f b.
Proof. destruct i, f as [k|k|]; try destruct k; reflexivity. Qed.
Lemma qget_qset_other f g b i : g <> f -> qget g (qset f b i) = qget g i.
Proof.
  intros H. destruct i, f as [k|k|]; try destruct k; destruct g as [k'|k'|]; try destruct k'; try reflexivity; exfalso; apply H; reflexivity.
Qed.
Lemma comments_qset f b i : an_comments (qset f b i) = an_comments i.
Proof. destruct i, f as [k|k|]; try destruct k; reflexivity. Qed.

(* a key line of [b] sets its field to [b]'s value, whatever the field held before *)
Lemma key_line_step s f b l : info_ok b -> rs_sect s = SInfo -> In l (fline f b) ->
  ssa_step s false l = Ok (set_info (qset f b (rs_info s)) s).
Proof.
  intros (_ & Hk & Hn & Ht) Hs Hl. destruct f as [k|k|]; cbn [fline qset] in *.
  - unfold info_str_lines in Hl. destruct (kget k b) as [|c r] eqn:E; [destruct Hl|]. destruct Hl as [<-|[]].
    rewrite (kv_step s (ikey_name k) (c :: r) (ikey_hdr_ok k)); [|discriminate | rewrite <- E; apply Hk | rewrite Hs; discriminate].
    unfold kv_dispatch. destruct s as [sect fmt info sts evs]. cbn [rs_sect rs_info] in *. subst sect.
    unfold info_parse. rewrite find_ikey_name. reflexivity.
  - unfold info_num_lines in Hl. destruct (nget k b) as [v|] eqn:E; [|destruct Hl]. destruct Hl as [<-|[]].
    rewrite (kv_step s (nkey_name k) (itoa_z v) (nkey_hdr_ok k));
      [|apply itoa_z_nonnil | apply cell_clean_trim, itoa_z_clean | rewrite Hs; discriminate].
    unfold kv_dispatch. destruct s as [sect fmt info sts evs]. cbn [rs_sect rs_info] in *. subst sect.
    unfold info_parse. rewrite find_ikey_nkey, find_nkey_name, (atoi_itoa_z_all v (Hn k v E)). reflexivity.
  - unfold info_timer_lines in Hl. destruct (an_timer b) as [t|] eqn:E; [|destruct Hl]. destruct Hl as [<-|[]].
    destruct (timer_value_ok t) as (Hnn & Htt & _).
    rewrite (kv_step s n_timer _ timer_hdr_ok Hnn Htt) by (rewrite Hs; discriminate).
    unfold kv_dispatch. destruct s as [sect fmt info sts evs]. cbn [rs_sect rs_info] in *. subst sect.
    unfold info_parse.
    change (find_ikey ikeys_all n_timer) with (@None ikey). change (find_nkey nkeys_all n_timer) with (@None nkey).
    change (str_eqb n_timer n_timer) with true. cbv iota. rewrite (timer_roundtrip t (Ht t eq_refl)). reflexivity.
Qed.
(* a field whose line is absent has the default value in [b] *)
Lemma fline_nil_default f b : fline f b = [] -> qget f b = qget f ainfo0.
Proof.
  destruct f as [k|k|]; cbn [fline qget]; unfold info_str_lines, info_num_lines, info_timer_lines.
  - destruct (kget k b) eqn:E; [intros _; destruct k; reflexivity | discriminate].
  - destruct (nget k b) eqn:E; [discriminate | intros _; destruct k; reflexivity].
  - destruct (an_timer b) eqn:E; [discriminate | intros _; reflexivity].
Qed.

Lemma key_group_step s f b : info_ok b -> rs_sect s = SInfo ->
  (fline f b = [] /\ ssa_run s false (fline f b) = Ok s) \/
  ssa_run s false (fline f b) = Ok (set_info (qset f b (rs_info s)) s).
Proof.
  intros Hb Hs. destruct (fline f b) as [|l r] eqn:E; [left; split; reflexivity|]. right.
  assert (Hr : r = []).
  { destruct f as [k|k|]; cbn [fline] in E; unfold info_str_lines, info_num_lines, info_timer_lines in E;
      [destruct (kget k b) | destruct (nget k b) | destruct (an_timer b)]; inversion E; reflexivity. }
  subst r. cbn [ssa_run]. rewrite (key_line_step s f b l Hb Hs); [reflexivity|]. rewrite E. left. reflexivity.
Qed.

(* any sequence of keys (any order, repetitions, any subset) *)
Lemma key_lines_run b keys : info_ok b -> forall s, rs_sect s = SInfo ->
  exists r, ssa_run s false (flat_map (fun f => fline f b) keys) = Ok (set_info r s) /\
            an_comments r = an_comments (rs_info s) /\
            (forall f, In f keys -> qget f r = qget f b \/ (fline f b = [] /\ qget f r = qget f (rs_info s))) /\
            (forall f, qget f r = qget f b \/ qget f r = qget f (rs_info s)).
Proof.
  intros Hb. induction keys as [|f0 keys IH]; intros s Hs.
  - exists (rs_info s). cbn [flat_map ssa_run]. rewrite set_info_id. split; [reflexivity|]. split; [reflexivity|]. split.
    + intros f [].
    + intros f. right. reflexivity.
  - cbn [flat_map]. rewrite ssa_run_app. destruct (key_group_step s f0 b Hb Hs) as [[Enil Erun]|Erun]; rewrite Erun.
    + destruct (IH s Hs) as (r & Er & Hc & Hin & Hor). exists r. split; [exact Er|]. split; [exact Hc|]. split; [|exact Hor].
      intros f [<-|Hf]; [|apply Hin; exact Hf]. destruct (Hor f0) as [H1|H1]; [left; exact H1 | right; split; assumption].
    + destruct (IH (set_info (qset f0 b (rs_info s)) s)) as (r & Er & Hc & Hin & Hor); [destruct s; exact Hs|].
      cbn [set_info rs_info] in Hc, Hin, Hor.
      exists r. split; [rewrite Er; destruct s; reflexivity|]. split; [rewrite Hc; apply comments_qset|]. split.
      * intros f [<-|Hf].
        -- left. destruct (Hor f0) as [H1|H1]; [exact H1 | rewrite H1; apply qget_qset_same].
        -- destruct (Hin f Hf) as [H1|[Hn H1]]; [left; exact H1|].
           destruct (fkey_eq_dec f f0) as [->|Hne]; [left; rewrite H1; apply qget_qset_same|].
           right. split; [exact Hn|]. rewrite H1. apply qget_qset_other. exact Hne.
      * intros f. destruct (Hor f) as [H1|H1]; [left; exact H1|]. rewrite H1.
        destruct (fkey_eq_dec f f0) as [->|Hne]; [left; apply qget_qset_same | right; apply qget_qset_other; exact Hne].
Qed.

Definition comment_lines (b : ainfo) : list str := map (fun c => [59; 32] ++ c) (an_comments b).
Definition all_fkeys : list fkey :=
  [FK KCollisions; FK KOriginalEditing; FK KOriginalScript; FK KOriginalTiming; FK KOriginalTranslation;
   FN KPlayDepth; FN KPlayResX; FN KPlayResY; FK KScriptType; FK KScriptUpdatedBy; FK KSynchPoint; FT;
   FK KTitle; FK KUpdateDetails; FK KWrapStyle].
Lemma info_body_lines_keys b : info_body_lines b = comment_lines b ++ flat_map (fun f => fline f b) all_fkeys.
Proof. unfold info_body_lines, comment_lines, all_fkeys. cbn [flat_map fline]. rewrite app_nil_r. reflexivity. Qed.

(* SCRIPT INFO, ANY KEY ORDER: the comment lines followed by the key lines in any order (each key at least once)
   are read back as [b] *)
Theorem info_read_any_order b keys fmt sts evs : info_ok b -> (forall f, In f keys) ->
  ssa_run (mkRstate SInfo fmt ainfo0 sts evs) false (comment_lines b ++ flat_map (fun f => fline f b) keys) =
  Ok (mkRstate SInfo fmt b sts evs).
Proof.
  intros Hb Hall. pose proof Hb as (Hc & _). rewrite ssa_run_app. unfold comment_lines.
  rewrite (comments_run (an_comments b) (mkRstate SInfo fmt ainfo0 sts evs) Hc eq_refl), fold_add_comment.
  unfold set_info at 1.
  cbn [rs_info an_comments app set_info rs_sect rs_fmt rs_styles rs_events
       an_collisions an_oediting an_oscript an_otiming an_otranslation an_scripttype an_updatedby an_synchpoint an_title
       an_updatedetails an_wrapstyle an_playdepth an_playresx an_playresy an_timer ainfo0].
  set (s0 := mkRstate SInfo fmt (mkAinfo (an_comments b) [] [] [] [] [] [] [] [] [] [] [] None None None None) sts evs).
  destruct (key_lines_run b keys Hb s0 eq_refl) as (r & Er & Hcm & Hin & _). rewrite Er. unfold s0, set_info. cbn [rs_sect rs_fmt rs_styles rs_events].
  f_equal. f_equal. apply ainfo_ext; [exact Hcm|]. intros f. destruct (Hin f (Hall f)) as [H1|[Hn H1]]; [exact H1|].
  rewrite H1, (fline_nil_default f b Hn). destruct f as [k|k|]; try destruct k; reflexivity.
Qed.
