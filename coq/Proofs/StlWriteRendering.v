(* C05: the writer's bytes are a rendering (Proofs/StlRead.v).
   For every representable document the file WriteToSTL produces is [render_stl writer_forms g blocks] for the GSI value
   [g = new_gsi now md items] and the blocks [wrn_blocks open g items] built from the writer's input: one subtitle block
   per item, in order, numbered from 1, subtitle group 0, extension block number 255, cumulative status 0, comment flag 0,
   the in / out timecode bytes the writer computes, vertical position, justification code, and the text field as
   structured rows:
   - display standard 0: per line the elements of its runs (style codes around the encoded characters, runs joined by a
     blank), the padding 0x8F at the end of the last row;
   - any other display standard: per line a teletext row WITHOUT start box (the writer never writes one) whose cells are
     the same bytes, grouped into attribute codes / other cells.
   The rendering passes the decidable check [rendering_okb], so [read_rendered_stl] applies to the writer's own files,
   and its meaning [denote_stl] is what the write->read theorems of Proofs/StlWriteRead.v state ([read_back]). *)
From Coq Require Import List ZArith NArith Bool Lia ZifyBool ZifyN ZifyNat.
From Astisub Require Import Kit.Base Kit.Str Kit.Utf8 Kit.Scan Model.Dur Model.Stl Model.TtxRow Model.TtxRowStl Gen.StlTables
  Proofs.DurProofs Proofs.StlBlocks Proofs.StlCodec Proofs.StlTti Proofs.StlGsi Proofs.StlRows Proofs.StlRowsTtx Proofs.StlDoc
  Proofs.StlWriteRead Proofs.StlReadSpec Proofs.StlReadGsi Proofs.StlReadRows Proofs.StlReadTtx Proofs.StlReadDoc Proofs.StlRead
  Proofs.StlRewrite.
Import ListNotations.
Open Scope Z_scope.

(* ================= lists ================= *)
(* [join] for any element type *)
Fixpoint wrn_join {A} (sep : list A) (l : list (list A)) : list A :=
  match l with
  | [] => []
  | [x] => x
  | x :: r => x ++ sep ++ wrn_join sep r
  end.
(* [p] appended to the last list (alone when there is none) *)
Fixpoint wrn_app_last {A} (ls : list (list A)) (p : list A) : list (list A) :=
  match ls with
  | [] => [p]
  | l :: r => match r with [] => [l ++ p] | _ :: _ => l :: wrn_app_last r p end
  end.

Lemma wrn_join_cons2 {A} (sep x y : list A) l : wrn_join sep (x :: y :: l) = x ++ sep ++ wrn_join sep (y :: l).
Proof. reflexivity. Qed.
Lemma wrn_app_last_cons2 {A} (x y : list A) l p : wrn_app_last (x :: y :: l) p = x :: wrn_app_last (y :: l) p.
Proof. reflexivity. Qed.

Lemma wrn_flat_map_join {A} (f : A -> str) sep ls :
  flat_map f (wrn_join sep ls) = join (flat_map f sep) (map (flat_map f) ls).
Proof.
  induction ls as [|x ls IH]; [reflexivity|]. destruct ls as [|y ls]; [reflexivity|].
  rewrite wrn_join_cons2. cbn [map]. rewrite join_cons2, !flat_map_app'. rewrite IH. reflexivity.
Qed.
Lemma wrn_forallb_join {A} (P : A -> bool) sep ls : forallb P sep = true -> Forall (fun l => forallb P l = true) ls ->
  forallb P (wrn_join sep ls) = true.
Proof.
  intros Hs H. induction H as [|x ls Hx Hls IH]; [reflexivity|]. destruct ls as [|y ls]; [exact Hx|].
  rewrite wrn_join_cons2, !forallb_app, Hx, Hs, IH. reflexivity.
Qed.
Lemma wrn_map_app_last {A B} (f : list A -> list B) ls p : (forall a b, f (a ++ b) = f a ++ f b) ->
  map f (wrn_app_last ls p) = wrn_app_last (map f ls) (f p).
Proof.
  intros Hf. induction ls as [|x ls IH]; [reflexivity|]. destruct ls as [|y ls]; [cbn [wrn_app_last map]; rewrite Hf; reflexivity|].
  rewrite wrn_app_last_cons2. cbn [map] in *. rewrite wrn_app_last_cons2, IH. reflexivity.
Qed.
Lemma wrn_join_app_last sep ls p : ls <> [] -> join sep (wrn_app_last ls p) = join sep ls ++ p.
Proof.
  intros Hne. induction ls as [|x ls IH]; [contradiction|]. destruct ls as [|y ls]; [reflexivity|].
  rewrite wrn_app_last_cons2. specialize (IH ltac:(discriminate)).
  assert (E : wrn_app_last (y :: ls) p <> []) by (destruct ls; discriminate).
  destruct (wrn_app_last (y :: ls) p) as [|z zs] eqn:Ez; [contradiction|].
  rewrite (join_cons2 sep x z zs), IH, (join_cons2 sep x y ls), <- !app_assoc. reflexivity.
Qed.
Lemma wrn_app_last_nonnil {A} (ls : list (list A)) p : wrn_app_last ls p <> [].
Proof. destruct ls as [|x [|y ls]]; discriminate. Qed.
Lemma wrn_Forall_app_last {A} (Q : list A -> Prop) ls p : (forall a b, Q a -> Q b -> Q (a ++ b)) -> Q p ->
  Forall Q ls -> Forall Q (wrn_app_last ls p).
Proof.
  intros Hq Hp H. induction H as [|x ls Hx Hls IH]; [constructor; [exact Hp | constructor]|].
  destruct ls as [|y ls]; [constructor; [apply Hq; assumption | constructor]|].
  rewrite wrn_app_last_cons2. constructor; [exact Hx | exact IH].
Qed.
(* the rows: the last one is a given row followed by [p], the others are given rows *)
Lemma wrn_in_app_last {A} (ls : list (list A)) p x : ls <> [] -> In x (wrn_app_last ls p) -> exists l, In l ls /\ (x = l \/ x = l ++ p).
Proof.
  intros Hne. induction ls as [|y ls IH]; [contradiction|]. destruct ls as [|z ls].
  - cbn [wrn_app_last In]. intros [<-|[]]. exists y. split; [left; reflexivity | right; reflexivity].
  - rewrite wrn_app_last_cons2. intros [<-|H].
    + exists y. split; [left; reflexivity | left; reflexivity].
    + destruct (IH ltac:(discriminate) H) as (l & Hl & E). exists l. split; [right; exact Hl | exact E].
Qed.

(* ================= the characters of an encoded text ================= *)
(* a floating diacritic with the byte after it, any other byte alone *)
Fixpoint wrn_units (bs : str) : list cunit :=
  match bs with
  | [] => []
  | a :: r =>
    if is_accent_byte a then
      match r with
      | b :: r' => U2 a b :: wrn_units r'
      | [] => [U1 a]
      end
    else U1 a :: wrn_units r
  end.
Lemma wrn_units_cons a r :
  wrn_units (a :: r) = if is_accent_byte a then match r with b :: r' => U2 a b :: wrn_units r' | [] => [U1 a] end else U1 a :: wrn_units r.
Proof. reflexivity. Qed.

Lemma wrn_list_ind2 (P : str -> Prop) :
  P [] -> (forall a, P [a]) -> (forall a b r, P r -> P (b :: r) -> P (a :: b :: r)) -> forall l, P l.
Proof.
  intros H0 H1 H2. assert (H : forall l, P l /\ forall a, P (a :: l)).
  { induction l as [|b r [IH1 IH2]]; [split; [exact H0 | exact H1]|].
    split; [apply IH2|]. intros a. apply H2; [exact IH1 | apply IH2]. }
  intros l. exact (proj1 (H l)).
Qed.

Lemma wrn_units_bytes : forall bs, flat_map cunit_bytes (wrn_units bs) = bs.
Proof.
  apply wrn_list_ind2.
  - reflexivity.
  - intros a. rewrite wrn_units_cons. destruct (is_accent_byte a); reflexivity.
  - intros a b r IH1 IH2. rewrite wrn_units_cons. destruct (is_accent_byte a).
    + cbn [flat_map cunit_bytes app]. rewrite IH1. reflexivity.
    + cbn [flat_map cunit_bytes app]. rewrite IH2. reflexivity.
Qed.

Lemma wrn_units_app : forall a b, forallb cunit_ok (wrn_units a) = true -> wrn_units (a ++ b) = wrn_units a ++ wrn_units b.
Proof.
  intros a b. revert a. apply (wrn_list_ind2 (fun a => forallb cunit_ok (wrn_units a) = true -> wrn_units (a ++ b) = wrn_units a ++ wrn_units b)).
  - intros _. reflexivity.
  - intros x. cbn [app]. rewrite !wrn_units_cons. destruct (is_accent_byte x) eqn:Ex.
    + cbn [forallb cunit_ok]. rewrite Ex. cbn [negb]. rewrite andb_false_r. discriminate.
    + intros _. reflexivity.
  - intros x y r IH1 IH2. cbn [app]. rewrite (wrn_units_cons x (y :: r)), (wrn_units_cons x (y :: r ++ b)).
    destruct (is_accent_byte x).
    + cbn [forallb]. intros H. apply andb_true_iff in H. destruct H as [_ H]. rewrite (IH1 H). reflexivity.
    + cbn [forallb]. intros H. apply andb_true_iff in H. destruct H as [_ H].
      change (y :: r ++ b) with ((y :: r) ++ b). rewrite (IH2 H). reflexivity.
Qed.

(* every character of the repertoire is written as one spacing byte, or as a floating diacritic and a spacing byte *)
Lemma wrn_rep_units : forallb (fun c => forallb cunit_ok (wrn_units (encode_text_stl c))) stl_repertoire = true.
Proof. vm_compute. reflexivity. Qed.

Lemma wrn_units_concat cs : Forall (fun c => In c stl_repertoire) cs ->
  forallb cunit_ok (wrn_units (concat (map encode_text_stl cs))) = true.
Proof.
  intros H. induction H as [|c cs Hc _ IH]; [reflexivity|]. cbn [map concat].
  pose proof (proj1 (forallb_forall _ _) wrn_rep_units c Hc) as Hu. cbv beta in Hu.
  rewrite (wrn_units_app _ _ Hu), forallb_app, Hu, IH. reflexivity.
Qed.
Lemma wrn_text_units r : run_repr r -> forallb cunit_ok (wrn_units (encode_text_stl (wr_text r))) = true.
Proof. intros (_ & _ & cs & E & F). rewrite E, (encode_concat cs F). apply wrn_units_concat. exact F. Qed.

(* ================= the text field, display standard 0 ================= *)
Definition wrn_wrap (o c : N) (es : list relem) : list relem := [RCode o] ++ es ++ [RCode c].
(* a run: its characters, inside italics, inside underline, inside boxing codes *)
Definition wrn_run_elems (r : wrun) : list relem :=
  let e0 := map RChar (wrn_units (encode_text_stl (wr_text r))) in
  let e1 := if wr_it r then wrn_wrap 128 129 e0 else e0 in
  let e2 := if wr_un r then wrn_wrap 130 131 e1 else e1 in
  if wr_bx r then wrn_wrap 132 133 e2 else e2.
(* a line: its runs joined by a blank *)
Definition wrn_line_elems (l : list wrun) : list relem := wrn_join [RChar (U1 32)] (map wrn_run_elems l).
(* the padding of the 112-byte field *)
Definition wrn_pad (i : witem) : nat := (112 - length (encode_text_stl (stl_item_text i)))%nat.
Definition wrn_open_rows (i : witem) : list (list relem) :=
  wrn_app_last (map wrn_line_elems (wi_lines i)) (repeat (RSkip 143) (wrn_pad i)).

Lemma wrn_row_bytes_app a b : row_bytes (a ++ b) = row_bytes a ++ row_bytes b.
Proof. apply flat_map_app'. Qed.
Lemma wrn_row_bytes_chars us : row_bytes (map RChar us) = flat_map cunit_bytes us.
Proof. induction us as [|u us IH]; [reflexivity|]. cbn [map]. unfold row_bytes in *. cbn [flat_map relem_bytes]. rewrite IH. reflexivity. Qed.
Lemma wrn_row_bytes_wrap o c es : row_bytes (wrn_wrap o c es) = wrapb o c (row_bytes es).
Proof. unfold wrn_wrap, wrapb. rewrite !wrn_row_bytes_app. reflexivity. Qed.
Lemma wrn_run_bytes r : row_bytes (wrn_run_elems r) = run_bytes r.
Proof.
  unfold wrn_run_elems, run_bytes. destruct (wr_it r), (wr_un r), (wr_bx r);
    rewrite ?wrn_row_bytes_wrap, wrn_row_bytes_chars, wrn_units_bytes; reflexivity.
Qed.
Lemma wrn_line_bytes l : row_bytes (wrn_line_elems l) = line_bytes l.
Proof.
  unfold wrn_line_elems, line_bytes, row_bytes. rewrite wrn_flat_map_join, map_map. f_equal. apply map_ext. exact wrn_run_bytes.
Qed.
Lemma wrn_pad_bytes k : row_bytes (repeat (RSkip 143) k) = repeat 143%N k.
Proof. induction k as [|k IH]; [reflexivity|]. cbn [repeat]. unfold row_bytes in *. cbn [flat_map relem_bytes app]. rewrite IH. reflexivity. Qed.

(* the rows of the field as byte strings: the lines, the padding after the last *)
Definition wrn_byte_rows (i : witem) : list str := wrn_app_last (map line_bytes (wi_lines i)) (repeat 143%N (wrn_pad i)).
Lemma wrn_open_rows_bytes i : map row_bytes (wrn_open_rows i) = wrn_byte_rows i.
Proof.
  unfold wrn_open_rows, wrn_byte_rows. rewrite (wrn_map_app_last row_bytes _ _ wrn_row_bytes_app), map_map, wrn_pad_bytes.
  f_equal. apply map_ext. exact wrn_line_bytes.
Qed.
Lemma wrn_byte_rows_field i : rows_repr i -> join [138%N] (wrn_byte_rows i) = text_field i.
Proof.
  intros (Hne & HF & Hlen). unfold wrn_byte_rows, text_field, wrn_pad.
  rewrite wrn_join_app_last by (destruct (wi_lines i); [contradiction | discriminate]).
  rewrite (pad_right_cut_short _ _ _ Hlen), (item_enc i HF). reflexivity.
Qed.
Lemma wrn_open_field i : rows_repr i -> field_bytes (wrn_open_rows i) = text_field i.
Proof. intros H. unfold field_bytes. rewrite wrn_open_rows_bytes. exact (wrn_byte_rows_field i H). Qed.

Lemma wrn_code_ok : relem_ok (RCode 128) = true /\ relem_ok (RCode 129) = true /\ relem_ok (RCode 130) = true /\
  relem_ok (RCode 131) = true /\ relem_ok (RCode 132) = true /\ relem_ok (RCode 133) = true /\
  relem_ok (RChar (U1 32)) = true /\ relem_ok (RSkip 143) = true.
Proof. vm_compute. repeat split; reflexivity. Qed.
Lemma wrn_wrap_ok o c es : relem_ok (RCode o) = true -> relem_ok (RCode c) = true -> forallb relem_ok es = true ->
  forallb relem_ok (wrn_wrap o c es) = true.
Proof. intros Ho Hc He. unfold wrn_wrap. rewrite !forallb_app, He. cbn [forallb]. rewrite Ho, Hc. reflexivity. Qed.
Lemma wrn_chars_ok us : forallb cunit_ok us = true -> forallb relem_ok (map RChar us) = true.
Proof.
  induction us as [|u us IH]; [reflexivity|]. cbn [forallb map relem_ok]. intros H. apply andb_true_iff in H. destruct H as [Hu Hus].
  rewrite Hu, (IH Hus). reflexivity.
Qed.
Lemma wrn_run_ok r : run_repr r -> forallb relem_ok (wrn_run_elems r) = true.
Proof.
  intros H. pose proof (wrn_chars_ok _ (wrn_text_units r H)) as H0.
  destruct wrn_code_ok as (C0 & C1 & C2 & C3 & C4 & C5 & _).
  unfold wrn_run_elems. destruct (wr_it r), (wr_un r), (wr_bx r); repeat (apply wrn_wrap_ok; try assumption); exact H0.
Qed.
Lemma wrn_line_ok l : Forall run_repr l -> forallb relem_ok (wrn_line_elems l) = true.
Proof.
  intros H. unfold wrn_line_elems. apply wrn_forallb_join; [exact (proj1 (proj2 (proj2 (proj2 (proj2 (proj2 (proj2 wrn_code_ok)))))))|].
  apply Forall_map. eapply Forall_impl; [|exact H]. exact wrn_run_ok.
Qed.
Lemma wrn_pad_ok k : forallb relem_ok (repeat (RSkip 143) k) = true.
Proof.
  induction k as [|k IH]; [reflexivity|]. cbn [repeat forallb]. rewrite IH.
  rewrite (proj2 (proj2 (proj2 (proj2 (proj2 (proj2 (proj2 wrn_code_ok))))))). reflexivity.
Qed.
Lemma wrn_open_rows_all_ok i : Forall line_repr (wi_lines i) -> Forall (fun es => forallb relem_ok es = true) (wrn_open_rows i).
Proof.
  intros HF. unfold wrn_open_rows. apply wrn_Forall_app_last.
  - intros a b0 Ha Hb. rewrite forallb_app, Ha, Hb. reflexivity.
  - apply wrn_pad_ok.
  - apply Forall_map. eapply Forall_impl; [|exact HF]. intros l (_ & Hl & _). apply wrn_line_ok. exact Hl.
Qed.

Theorem wrn_open_rows_ok i : rows_repr i -> rows_ok (wrn_open_rows i) = true.
Proof.
  intros H. pose proof (wrn_open_field i H) as E. destruct H as (Hne & HF & Hlen). unfold rows_ok.
  assert (N : match wrn_open_rows i with [] => false | _ => true end = true).
  { pose proof (wrn_app_last_nonnil (map wrn_line_elems (wi_lines i)) (repeat (RSkip 143) (wrn_pad i))) as Hn. fold (wrn_open_rows i) in Hn.
    destruct (wrn_open_rows i); [contradiction | reflexivity]. }
  rewrite N, E. unfold text_field. rewrite pad_right_cut_length. cbn [Nat.eqb andb]. rewrite andb_true_r.
  apply forallb_forall. intros es Hes. exact (proj1 (Forall_forall _ _) (wrn_open_rows_all_ok i HF) es Hes).
Qed.

(* ================= the text field, teletext display standards ================= *)
(* any cells grouped into alternating attribute codes / other cells: an attribute joins the codes of the group that
   follows it, another cell joins the cells of a group without codes or starts a new group *)
Definition wrn_seg_cons (v : N) (gs : list sseg) : list sseg :=
  if is_sattr v then
    match gs with
    | g :: gs' => mkSseg (v :: ss_codes g) (ss_cells g) :: gs'
    | [] => [mkSseg [v] []]
    end
  else
    match gs with
    | g :: gs' => match ss_codes g with [] => mkSseg [] (v :: ss_cells g) :: gs' | _ :: _ => mkSseg [] [v] :: gs end
    | [] => [mkSseg [] [v]]
    end.
Definition wrn_segs (bs : list N) : list sseg := fold_right wrn_seg_cons [] bs.
Definition wrn_seg_flat (gs : list sseg) : list N := flat_map (fun g => ss_codes g ++ ss_cells g) gs.
Definition wrn_segs_okb (gs : list sseg) : bool :=
  forallb (fun g => forallb is_sattr (ss_codes g) && forallb is_stext (ss_cells g)) gs.

Lemma wrn_seg_cons_flat v gs : wrn_seg_flat (wrn_seg_cons v gs) = v :: wrn_seg_flat gs.
Proof.
  unfold wrn_seg_cons, wrn_seg_flat. destruct (is_sattr v).
  - destruct gs as [|g gs']; reflexivity.
  - destruct gs as [|g gs']; [reflexivity|]. destruct g as [[|c cs] cells]; reflexivity.
Qed.
Theorem wrn_segs_flat bs : wrn_seg_flat (wrn_segs bs) = bs.
Proof. induction bs as [|v bs IH]; [reflexivity|]. unfold wrn_segs in *. cbn [fold_right]. rewrite wrn_seg_cons_flat, IH. reflexivity. Qed.

Lemma wrn_seg_cons_ok v gs : (v =? 10)%N = false -> wrn_segs_okb gs = true -> wrn_segs_okb (wrn_seg_cons v gs) = true.
Proof.
  intros Hv H. unfold wrn_seg_cons, wrn_segs_okb in *. destruct (is_sattr v) eqn:Ea.
  - destruct gs as [|g gs']; cbn [forallb ss_codes ss_cells] in *; [rewrite Ea; reflexivity|].
    rewrite Ea. exact H.
  - assert (Et : is_stext v = true) by (unfold is_stext; rewrite Ea, Hv; reflexivity).
    destruct gs as [|g gs']; cbn [forallb ss_codes ss_cells] in *; [rewrite Et; reflexivity|].
    destruct g as [[|c cs] cells]; cbn [forallb ss_codes ss_cells] in *; rewrite Et; exact H.
Qed.
Theorem wrn_segs_ok bs : forallb (fun v => negb (v =? 10)%N) bs = true -> wrn_segs_okb (wrn_segs bs) = true.
Proof.
  induction bs as [|v bs IH]; [reflexivity|]. cbn [forallb]. intros H. apply andb_true_iff in H. destruct H as [Hv Hbs].
  apply negb_true_iff in Hv. unfold wrn_segs in *. cbn [fold_right]. apply wrn_seg_cons_ok; [exact Hv | exact (IH Hbs)].
Qed.

(* a row without start box *)
Definition wrn_brow (bs : str) : brow := mkBrow false (mkSrow [] (wrn_segs bs) None).
Lemma wrn_brow_cells bs : brow_cells (wrn_brow bs) = bs.
Proof.
  unfold brow_cells, wrn_brow, brow_inner. cbn [br_box br_row sr_segs sr_end]. rewrite app_nil_r. exact (wrn_segs_flat bs).
Qed.
Lemma wrn_brow_srow_cells bs : srow_cells (br_row (wrn_brow bs)) = (11 :: bs)%N.
Proof.
  rewrite srow_cells_inner. unfold wrn_brow, brow_inner. cbn [br_row sr_pre sr_segs sr_end app]. rewrite app_nil_r.
  f_equal. exact (wrn_segs_flat bs).
Qed.

Lemma wrn_okb_no10 bs : forallb okb bs = true -> forallb (fun v => negb (v =? 10)%N) bs = true.
Proof. apply forallb_impl. intros v Hv. unfold okb in Hv. lia. Qed.

Lemma wrn_brow_ok bs : forallb okb bs = true -> Forall (fun v => (v < 256)%N) bs ->
  snd (stl_ttx_row bs [] [] sattr0_stl true None) = None -> trow_okb (wrn_brow bs) = true.
Proof.
  intros Hok Hlt Hacc.
  assert (S : srow_ok (br_row (wrn_brow bs)) = true).
  { unfold srow_ok, wrn_brow. cbn [br_row sr_pre sr_segs sr_end forallb andb]. rewrite andb_true_r.
    exact (wrn_segs_ok bs (wrn_okb_no10 bs Hok)). }
  unfold trow_okb. rewrite S, wrn_brow_cells. cbn [andb].
  assert (B : forallb (fun c0 => negb (c0 =? 138)%N && (c0 <? 256)%N) bs = true).
  { apply forallb_forall. intros v Hv. pose proof (proj1 (forallb_forall _ _) Hok v Hv) as H1.
    pose proof (proj1 (Forall_forall _ _) Hlt v Hv) as H2. cbv beta in H2. unfold okb in H1. lia. }
  rewrite B. cbn [andb].
  assert (X : brow_box_okb (wrn_brow bs) = true).
  { unfold brow_box_okb. change (br_box (wrn_brow bs)) with false. change (sr_pre (br_row (wrn_brow bs))) with (@nil N). cbn [orb andb].
    pose proof (wrn_brow_cells bs) as E. unfold brow_cells in E. change (br_box (wrn_brow bs)) with false in E. cbv iota in E.
    rewrite E, (okb_no11 bs Hok). reflexivity. }
  rewrite X. cbn [andb].
  rewrite <- (ttx_row_rendered None _ S), wrn_brow_srow_cells, ttx_start, Hacc. reflexivity.
Qed.

Definition wrn_ttx_rows (i : witem) : list brow := map wrn_brow (wrn_byte_rows i).

Lemma wrn_ttx_field i : rows_repr i -> tfield_bytes (wrn_ttx_rows i) = text_field i.
Proof.
  intros H. unfold tfield_bytes, wrn_ttx_rows. rewrite map_map, (map_ext _ (fun x => x) wrn_brow_cells), map_id.
  exact (wrn_byte_rows_field i H).
Qed.

(* every row of the field: the bytes of a line, possibly followed by padding *)
Lemma wrn_byte_row_shape i x : wi_lines i <> [] -> In x (wrn_byte_rows i) ->
  exists l k, In l (wi_lines i) /\ x = line_bytes l ++ repeat 143%N k.
Proof.
  intros Hne Hx. unfold wrn_byte_rows in Hx.
  assert (Hm : map line_bytes (wi_lines i) <> []) by (destruct (wi_lines i); [contradiction | cbn [map]; discriminate]).
  destruct (wrn_in_app_last _ _ x Hm Hx) as (lb & Hlb & E).
  apply in_map_iff in Hlb. destruct Hlb as (l & <- & Hl). exists l. destruct E as [-> | ->].
  - exists O. split; [exact Hl | cbn [repeat]; rewrite app_nil_r; reflexivity].
  - exists (wrn_pad i). split; [exact Hl | reflexivity].
Qed.

Lemma wrn_line_row_ok l k : line_repr l -> trow_okb (wrn_brow (line_bytes l ++ repeat 143%N k)) = true.
Proof.
  intros Hl. pose proof Hl as (_ & HF & _). apply wrn_brow_ok.
  - rewrite forallb_app, (line_bytes_okb l HF), pad_okb. reflexivity.
  - rewrite <- wrn_line_bytes, <- wrn_pad_bytes, <- wrn_row_bytes_app. apply row_bytes_no_sep.
    rewrite forallb_app, (wrn_line_ok l HF), wrn_pad_ok. reflexivity.
  - rewrite (ttx_line_row k l Hl). reflexivity.
Qed.

Theorem wrn_ttx_rows_ok i : rows_repr i -> trows_ok (wrn_ttx_rows i) = true.
Proof.
  intros H. pose proof (wrn_ttx_field i H) as E. destruct H as (Hne & HF & Hlen). unfold trows_ok.
  assert (N : match wrn_ttx_rows i with [] => false | _ => true end = true).
  { unfold wrn_ttx_rows, wrn_byte_rows.
    pose proof (wrn_app_last_nonnil (map line_bytes (wi_lines i)) (repeat 143%N (wrn_pad i))) as Hn.
    destruct (wrn_app_last (map line_bytes (wi_lines i)) (repeat 143%N (wrn_pad i))); [contradiction | reflexivity]. }
  rewrite N, E. unfold text_field. rewrite pad_right_cut_length. cbn [Nat.eqb andb]. rewrite andb_true_r.
  apply forallb_forall. intros br Hbr. unfold wrn_ttx_rows in Hbr. apply in_map_iff in Hbr. destruct Hbr as (x & <- & Hx).
  destruct (wrn_byte_row_shape i x Hne Hx) as (l & k & Hl & ->).
  apply wrn_line_row_ok. exact (proj1 (Forall_forall _ _) HF l Hl).
Qed.

(* ================= the blocks ================= *)
(* the four bytes the writer computes for an instant *)
Definition wrn_tc (t fps : Z) : Z * Z * Z * Z :=
  let '(h, m, s, f) := stl_fields t fps in (h mod 256, m mod 256, s mod 256, f mod 256).
Definition wrn_text (open : bool) (i : witem) : rtext := if open then TOpen (wrn_open_rows i) else TTtx (wrn_ttx_rows i).
(* the subtitle block of item [i], numbered [idx] *)
Definition wrn_cue (open : bool) (g : gsi) (i : witem) (idx : Z) : rcue :=
  let '(ih, im, isec, ifr) := wrn_tc (wi_st i + g_tcp g) (g_fps g) in
  let '(oh, om, osec, ofr) := wrn_tc (wi_en i + g_tcp g) (g_fps g) in
  mkRcue 0 (zbyte idx) (zbyte (idx / 256)) 255 0 ih im isec ifr oh om osec ofr
         (validate_vp (match wi_vp i with Some v => v | None => 20 end) (g_dsc g)) (jc_of (wi_just i)) 0
         (wrn_text open i).
Fixpoint wrn_blocks_from (open : bool) (g : gsi) (items : list witem) (idx : Z) : list rblock :=
  match items with
  | [] => []
  | i :: r => BCue (wrn_cue open g i idx) :: wrn_blocks_from open g r (idx + 1)
  end.
(* the writer numbers the subtitles from 1 *)
Definition wrn_blocks (open : bool) (g : gsi) (items : list witem) : list rblock := wrn_blocks_from open g items 1.

Lemma wrn_text_bytes open i : rows_repr i -> StlReadDoc.text_bytes (wrn_text open i) = text_field i.
Proof. intros H. destruct open; cbn [wrn_text StlReadDoc.text_bytes]; [exact (wrn_open_field i H) | exact (wrn_ttx_field i H)]. Qed.
Lemma wrn_text_ok open i : rows_repr i -> StlReadDoc.text_okb open (wrn_text open i) = true.
Proof.
  intros H. destruct open; cbn [wrn_text StlReadDoc.text_okb negb andb]; [exact (wrn_open_rows_ok i H) | exact (wrn_ttx_rows_ok i H)].
Qed.

(* the block the writer emits for an item is the rendering of its cue *)
Lemma wrn_cue_bytes open g i idx : rows_repr i ->
  tti_bytes (g_fps g) (g_dsc g) (g_tcp g) (new_tti i idx) = render_cue (wrn_cue open g i idx).
Proof.
  intros H. unfold tti_bytes, render_cue, wrn_cue, wrn_tc, format_stl_bytes, tc_bytes.
  cbn [new_tti t_sgn t_sn t_ebn t_cs t_in t_out t_vp t_jc t_cf t_text].
  destruct (stl_fields (wi_st i + g_tcp g) (g_fps g)) as [[[h1 m1] s1] f1].
  destruct (stl_fields (wi_en i + g_tcp g) (g_fps g)) as [[[h2 m2] s2] f2].
  cbn [rc_sgn rc_snl rc_snh rc_ebn rc_cs rc_ih rc_im rc_is rc_if rc_oh rc_om rc_os rc_of rc_vp rc_jc rc_cf rc_text map].
  rewrite (wrn_text_bytes open i H). reflexivity.
Qed.
Lemma wrn_tc_ok h m s f : tc_okb (h mod 256) (m mod 256) (s mod 256) (f mod 256) = true.
Proof.
  pose proof (Z.mod_pos_bound h 256 ltac:(lia)) as Hh. pose proof (Z.mod_pos_bound m 256 ltac:(lia)) as Hm.
  pose proof (Z.mod_pos_bound s 256 ltac:(lia)) as Hs. pose proof (Z.mod_pos_bound f 256 ltac:(lia)) as Hf.
  unfold tc_okb. lia.
Qed.
Lemma wrn_cue_ok open g i idx : rows_repr i -> cue_okb open (g_fps g) (wrn_cue open g i idx) = true.
Proof.
  intros H. unfold cue_okb, wrn_cue, wrn_tc.
  destruct (stl_fields (wi_st i + g_tcp g) (g_fps g)) as [[[h1 m1] s1] f1].
  destruct (stl_fields (wi_en i + g_tcp g) (g_fps g)) as [[[h2 m2] s2] f2].
  cbn [rc_ebn rc_ih rc_im rc_is rc_if rc_oh rc_om rc_os rc_of rc_text].
  rewrite !wrn_tc_ok, (wrn_text_ok open i H). reflexivity.
Qed.

Lemma wrn_blocks_bytes open g : forall items idx, Forall rows_repr items ->
  tti_blocks (g_fps g) (g_dsc g) (g_tcp g) items idx = concat (map render_block (wrn_blocks_from open g items idx)).
Proof.
  induction items as [|i r IH]; intros idx H; [reflexivity|]. inversion H as [|? ? Hi Hr]; subst.
  cbn [tti_blocks wrn_blocks_from map concat render_block]. rewrite (wrn_cue_bytes open g i idx Hi), (IH (idx + 1) Hr). reflexivity.
Qed.
Lemma wrn_blocks_ok open g : forall items idx, Forall rows_repr items ->
  forallb (block_okb open (g_fps g)) (wrn_blocks_from open g items idx) = true.
Proof.
  induction items as [|i r IH]; intros idx H; [reflexivity|]. inversion H as [|? ? Hi Hr]; subst.
  cbn [wrn_blocks_from forallb block_okb]. rewrite (wrn_cue_ok open g i idx Hi), (IH (idx + 1) Hr). reflexivity.
Qed.
Lemma wrn_blocks_length open g : forall items idx, length (wrn_blocks_from open g items idx) = length items.
Proof. induction items as [|i r IH]; intros idx; [reflexivity|]. cbn [wrn_blocks_from length]. rewrite IH. reflexivity. Qed.

(* ================= the GSI block ================= *)
Lemma wrn_writer_forms_okb g : gsi_repr g -> gsi_forms_okb writer_forms g = true.
Proof.
  intros H. apply gsi_reprb_complete in H. unfold gsi_reprb in H.
  repeat match goal with H : _ && _ = true |- _ => apply andb_true_iff in H; destruct H end.
  unfold gsi_forms_okb, writer_forms.
  cbn [gf_rn gf_tnb gf_tns gf_tng gf_mnc gf_mnr gf_tnd_blank gf_dsn_blank gf_tcp_blank gf_tcf_blank gf_lead gf_spare].
  unfold StlReadGsi.text_okb, numform_okb, tcform_okb, oneform_okb. cbn [Nat.add].
  change (10 ^ Z.of_nat 2) with 100. change (10 ^ Z.of_nat 3) with 1000. change (10 ^ Z.of_nat 5) with 100000.
  unfold str_okb in *.
  repeat match goal with H : ?x = true |- _ => rewrite H; clear H end.
  destruct (g_uda g); [reflexivity | discriminate].
Qed.
Lemma wrn_new_gsi_cct now md items : g_cct (new_gsi now md items) = stl_c_cctLatin.
Proof. unfold new_gsi. destruct md; reflexivity. Qed.

(* ================= the file ================= *)
Lemma wrn_rendering open now md items : items <> [] -> gsi_repr (new_gsi now md items) -> is_open (new_gsi now md items) = open ->
  Forall rows_repr items ->
  write_stl now md items = Ok (render_stl writer_forms (new_gsi now md items) (wrn_blocks open (new_gsi now md items) items)) /\
  rendering_okb writer_forms (new_gsi now md items) (wrn_blocks open (new_gsi now md items) items) = true.
Proof.
  intros Hne Hg Hopen Hall. split.
  - rewrite (write_stl_eq now md items Hne). unfold written, render_stl, wrn_blocks.
    rewrite (render_gsi_writer _ Hg), (wrn_blocks_bytes open _ items 1 Hall). reflexivity.
  - unfold rendering_okb, wrn_blocks. rewrite (wrn_writer_forms_okb _ Hg), wrn_new_gsi_cct, N.eqb_refl, Hopen.
    rewrite (wrn_blocks_ok open _ items 1 Hall). reflexivity.
Qed.

Theorem write_is_rendering_open : forall now md items, doc_repr_open now md items ->
  let g := new_gsi now md items in
  write_stl now md items = Ok (render_stl writer_forms g (wrn_blocks true g items)) /\
  rendering_okb writer_forms g (wrn_blocks true g items) = true.
Proof.
  intros now md items (Hne & _ & Hg & Hdsc & Hall). cbv zeta. apply wrn_rendering; [exact Hne | exact Hg | |].
  - unfold is_open. rewrite Hdsc. apply str_eqb_refl.
  - eapply Forall_impl; [|exact Hall]. intros i (Hr & _). exact Hr.
Qed.
Theorem write_is_rendering_ttx : forall now md items, doc_repr_ttx now md items ->
  let g := new_gsi now md items in
  write_stl now md items = Ok (render_stl writer_forms g (wrn_blocks false g items)) /\
  rendering_okb writer_forms g (wrn_blocks false g items) = true.
Proof.
  intros now md items (Hne & _ & Hg & Hdsc & Hall). cbv zeta. apply wrn_rendering; [exact Hne | exact Hg | exact Hdsc |].
  eapply Forall_impl; [|exact Hall]. intros i (Hr & _). exact Hr.
Qed.

(* so the reading theorem for all renderings covers the writer's own files, for both values of the option *)
Corollary write_read_rendered_open : forall ign now md items, doc_repr_open now md items ->
  let g := new_gsi now md items in
  exists out, write_stl now md items = Ok out /\ read_stl ign out = Ok (denote_stl ign g (wrn_blocks true g items)).
Proof.
  intros ign now md items H. destruct (write_is_rendering_open now md items H) as [W K]. cbv zeta in *.
  eexists. split; [exact W | exact (read_rendered_stl ign _ _ _ K)].
Qed.
Corollary write_read_rendered_ttx : forall ign now md items, doc_repr_ttx now md items ->
  let g := new_gsi now md items in
  exists out, write_stl now md items = Ok out /\ read_stl ign out = Ok (denote_stl ign g (wrn_blocks false g items)).
Proof.
  intros ign now md items H. destruct (write_is_rendering_ttx now md items H) as [W K]. cbv zeta in *.
  eexists. split; [exact W | exact (read_rendered_stl ign _ _ _ K)].
Qed.

(* and the meaning of the rendering is what the write->read theorems state *)
Corollary write_denotes_open : forall now md items, doc_repr_open now md items ->
  let g := new_gsi now md items in
  denote_stl false g (wrn_blocks true g items) = read_back g expected_line items.
Proof.
  intros now md items H. cbv zeta. destruct (write_read_rendered_open false now md items H) as (out & W & R).
  destruct (write_read_open now md items H) as (out' & W' & R'). cbv zeta in *.
  assert (E : out' = out) by congruence. subst out'. congruence.
Qed.
Corollary write_denotes_ttx : forall now md items, doc_repr_ttx now md items ->
  let g := new_gsi now md items in
  denote_stl false g (wrn_blocks false g items) = read_back g expected_ttx_line items.
Proof.
  intros now md items H. cbv zeta. destruct (write_read_rendered_ttx false now md items H) as (out & W & R).
  destruct (write_read_ttx now md items H) as (out' & W' & R'). cbv zeta in *.
  assert (E : out' = out) by congruence. subst out'. congruence.
Qed.

(* ================= the example documents ================= *)
(* the item of Proofs/StlRows.v (line 1: "Caf\'e", "x y" in italics and underlined, "10 \164"; line 2: "Hi" boxed, "there" in
   italics): its rows under display standard 0 and under the teletext standards; 81 bytes of padding follow the last row *)
Example wrn_ex_item_open :
  let u k := RChar (U1 k) in
  wrn_open_rows ex_item =
  [ [u 67; u 97; u 102; RChar (U2 194 101); u 32; RCode 130; RCode 128; u 120; u 32; u 121; RCode 129; RCode 131; u 32; u 49; u 48; u 32; u 168];
    [RCode 132; u 72; u 105; RCode 133; u 32; RCode 128; u 116; u 104; u 101; u 114; u 101; RCode 129] ++ repeat (RSkip 143) 81 ]%N.
Proof. vm_compute. reflexivity. Qed.
Example wrn_ex_item_ttx :
  wrn_ttx_rows ex_item =
  [ mkBrow false (mkSrow [] [mkSseg [] [67; 97; 102; 194; 101; 32]; mkSseg [130; 128] [120; 32; 121]; mkSseg [129; 131] [32; 49; 48; 32; 168]] None);
    mkBrow false (mkSrow [] [mkSseg [132] [72; 105]; mkSseg [133] [32]; mkSseg [128] [116; 104; 101; 114; 101];
                              mkSseg [129] (repeat 143 81)] None) ]%N.
Proof. vm_compute. reflexivity. Qed.

(* the example document of Proofs/StlWriteRead.v (display standard 0, 30 frames per second, programme start 10:00:00:00):
   by computation, and through the theorem *)
Example wrn_ex_doc_open :
  let g := new_gsi ex_now (Some ex_md) ex_items in
  rendering_okb writer_forms g (wrn_blocks true g ex_items) = true /\
  write_stl ex_now (Some ex_md) ex_items = Ok (render_stl writer_forms g (wrn_blocks true g ex_items)).
Proof. vm_compute. split; reflexivity. Qed.
Example wrn_ex_doc_open_thm :
  let g := new_gsi ex_now (Some ex_md) ex_items in
  write_stl ex_now (Some ex_md) ex_items = Ok (render_stl writer_forms g (wrn_blocks true g ex_items)) /\
  rendering_okb writer_forms g (wrn_blocks true g ex_items) = true.
Proof. exact (write_is_rendering_open _ _ _ ex_doc_repr). Qed.
(* the teletext example document of Proofs/StlRewrite.v (display standards 1 and 2) *)
Example wrn_ex_doc_ttx : forall dsc, dsc = stl_s_dscLevel1 \/ dsc = stl_s_dscLevel2 ->
  let g := new_gsi ex_now (Some (ex_md_dsc dsc)) ex_items in
  rendering_okb writer_forms g (wrn_blocks false g ex_items) = true /\
  write_stl ex_now (Some (ex_md_dsc dsc)) ex_items = Ok (render_stl writer_forms g (wrn_blocks false g ex_items)).
Proof. intros dsc [-> | ->]; vm_compute; split; reflexivity. Qed.
Example wrn_ex_doc_ttx_thm : forall dsc, dsc = stl_s_dscLevel1 \/ dsc = stl_s_dscLevel2 ->
  let g := new_gsi ex_now (Some (ex_md_dsc dsc)) ex_items in
  write_stl ex_now (Some (ex_md_dsc dsc)) ex_items = Ok (render_stl writer_forms g (wrn_blocks false g ex_items)) /\
  rendering_okb writer_forms g (wrn_blocks false g ex_items) = true.
Proof. intros dsc Hd. exact (write_is_rendering_ttx _ _ _ (ex_doc_repr_ttx dsc Hd)). Qed.
(* no start box anywhere in the text fields the writer produces for it, and the subtitle numbers 1 and 2 *)
Example wrn_ex_doc_ttx_blocks :
  let g := new_gsi ex_now (Some (ex_md_dsc stl_s_dscLevel1)) ex_items in
  map (fun b0 => match b0 with BCue c0 => (rc_snl c0, rc_snh c0, rc_ebn c0, nmem 11 (StlReadDoc.text_bytes (rc_text c0))) | BUser _ => (0, 0, 0, true)%N end)
      (wrn_blocks false g ex_items) = [(1, 0, 255, false); (2, 0, 255, false)]%N.
Proof. vm_compute. reflexivity. Qed.

Print Assumptions write_is_rendering_open.
Print Assumptions write_is_rendering_ttx.
Print Assumptions write_read_rendered_open.
Print Assumptions write_read_rendered_ttx.
Print Assumptions write_denotes_open.
Print Assumptions write_denotes_ttx.
