(* C05: document level.  The reader applied to what the writer produced, assembled from the GSI block round trip,
   the TTI block round trip and a row-level round trip (taken as a section hypothesis here and instantiated with
   the theorem of Proofs/StlRows.v in Properties/C05.v). *)
From Coq Require Import List ZArith NArith Bool Lia ZifyBool ZifyN ZifyNat.
From Astisub Require Import Kit.Base Kit.Str Kit.Utf8 Kit.Scan Model.Dur Model.Stl Gen.StlTables
  Proofs.DurProofs Proofs.ScanProofs Proofs.StlBlocks Proofs.StlTti.
Import ListNotations.
Open Scope Z_scope.

Definition text_field (i : witem) : str := pad_right_cut 143 112 (encode_text_stl (stl_item_text i)).

(* what the reader returns for a written item *)
Definition expected_item (g : gsi) (lines : list (list erun)) (i : witem) : ritem :=
  let j := parse_jc (jc_of (wi_just i)) in
  let vp := match wi_vp i with Some v => v | None => 20 end in
  mkRitem (wi_st i) (wi_en i) j vp (g_mnr g) (N.of_nat (length (split_byte 138 (text_field i))))
          (vtt_align j) (vtt_line vp (g_mnr g)) lines.

(* Metadata as the reader fills it from a GSI block *)
Definition rdoc_of (g : gsi) (items : list ritem) : rdoc :=
  mkRdoc (g_fps g) (g_co g) (g_cd g) (g_dsc g) (g_ecd g) (g_en g) (g_mnc g) (g_mnr g) (g_oet g) (g_pub g)
         (g_rd g) (g_rn g) (g_slr g) (g_tet g) (g_tpt g) (g_tcd g) (g_tn g) (g_opt g) (g_tcp g)
         (match slookup (g_lc g) stl_language with Some l => l | None => [] end) items.

Lemma jc_of_byte j : (jc_of j < 256)%N.
Proof.
  unfold jc_of. destruct j as [v|]; [|reflexivity].
  destruct (v =? stl_c_justificationCentered)%N; [reflexivity|]. destruct (v =? stl_c_justificationLeft)%N; [reflexivity|].
  destruct (v =? stl_c_justificationRight)%N; [reflexivity|]. destruct (v =? stl_c_justificationUnchanged)%N; reflexivity.
Qed.

Section Doc.
  (* row-level round trip for the display standard at hand *)
  Variable rows_repr : witem -> Prop.
  Variable expected_lines : witem -> list (list erun).
  Hypothesis rows_roundtrip : forall i, rows_repr i ->
    rows_open (split_byte 138 (text_field i)) None [] = Ok (expected_lines i, None).

  (* a representable item: rows as above, in/out instants that are frame instants once the programme start is added,
     vertical position in a byte *)
  Definition item_repr (fps tcp : Z) (i : witem) : Prop :=
    rows_repr i /\ frame_instant fps (wi_st i + tcp) /\ frame_instant fps (wi_en i + tcp) /\
    match wi_vp i with Some v => 0 <= v < 256 | None => True end.

  Lemma new_tti_repr fps tcp i idx : item_repr fps tcp i -> 0 <= idx < 65536 -> tti_repr fps stl_s_dscOpen tcp (new_tti i idx).
  Proof.
    intros (_ & Hin & Hout & Hvp) Hidx. unfold new_tti. constructor; cbn [t_cf t_cs t_jc t_ebn t_sgn t_sn t_vp t_in t_out]; try lia; try assumption.
    - apply jc_of_byte.
    - destruct (wi_vp i); lia.
    - intros H. vm_compute in H. discriminate.
  Qed.

  Lemma tti_loop_written g tcp : (g_fps g = 25 \/ g_fps g = 30) -> g_dsc g = stl_s_dscOpen ->
    forall items idx fuel ritems,
    (length items < fuel)%nat -> 0 <= idx -> idx + Z.of_nat (length items) <= 65536 ->
    Forall (item_repr (g_fps g) tcp) items ->
    tti_loop fuel (tti_blocks (g_fps g) (g_dsc g) tcp items idx) g tcp None ritems
    = Ok (rev ritems ++ map (fun i => expected_item g (expected_lines i) i) items).
  Proof.
    intros Hfps Hdsc. rewrite Hdsc. induction items as [|i r IH]; intros idx fuel ritems Hfuel Hidx Hmax Hall.
    - destruct fuel; [cbn [length] in Hfuel; lia|]. cbn [tti_blocks map]. rewrite tti_loop_eof, app_nil_r. reflexivity.
    - destruct fuel as [|fuel]; [cbn [length] in Hfuel; lia|]. cbn [length] in Hfuel, Hmax.
      inversion Hall as [|? ? Hi Hr]; subst. cbn [tti_blocks tti_loop].
      destruct (read_n_block 128 (tti_bytes (g_fps g) stl_s_dscOpen tcp (new_tti i idx)) (tti_blocks (g_fps g) stl_s_dscOpen tcp r (idx + 1))
                  (tti_bytes_length _ _ _ _)) as (cs & R).
      assert (Hix : 0 <= idx < 65536) by lia.
      rewrite R. rewrite (tti_roundtrip (g_fps g) stl_s_dscOpen tcp (new_tti i idx) Hfps (new_tti_repr (g_fps g) tcp i idx Hi Hix)).
      cbn [t_ebn new_tti t_text]. change (255 =? 254) with false. cbv iota.
      rewrite Hdsc, str_eqb_refl. fold (text_field i). destruct Hi as (Hrows & _).
      rewrite (rows_roundtrip i Hrows). cbn [bind].
      rewrite (IH (idx + 1) fuel) by (try lia; assumption).
      cbn [rev map]. rewrite <- app_assoc. cbn [app]. f_equal. f_equal. f_equal.
      unfold item_of, expected_item. cbn [t_in t_out t_jc t_vp new_tti]. f_equal; lia.
  Qed.
End Doc.

(* the reader on a written file: the GSI block is parsed back, every TTI block gives its item *)
Theorem read_written_gen (rows_repr : witem -> Prop) (expected_lines : witem -> list (list erun))
  (rows_roundtrip : forall i, rows_repr i -> rows_open (split_byte 138 (text_field i)) None [] = Ok (expected_lines i, None))
  now md items :
  let g := new_gsi now md items in
  items <> [] -> Z.of_nat (length items) < 65536 ->
  parse_gsi (gsi_bytes g) = Ok g ->
  (g_fps g = 25 \/ g_fps g = 30) -> g_dsc g = stl_s_dscOpen ->
  Forall (item_repr rows_repr (g_fps g) (g_tcp g)) items ->
  read_stl false (written now md items) = Ok (rdoc_of g (map (fun i => expected_item g (expected_lines i) i) items)).
Proof.
  intros g Hne Hlen Hgsi Hfps Hdsc Hall. unfold read_stl, written. fold g.
  destruct (read_n_block 1024 (gsi_bytes g) (tti_blocks (g_fps g) (g_dsc g) (g_tcp g) items 1) (gsi_bytes_length g)) as (cs & R).
  rewrite R, Hgsi. cbn [bind].
  assert (Hcct : g_cct g = stl_c_cctLatin) by (unfold g, new_gsi; destruct md; reflexivity).
  rewrite Hcct. change (negb (nmem stl_c_cctLatin stl_tables_existing)) with false. cbv iota.
  rewrite (tti_loop_written rows_repr expected_lines rows_roundtrip g (g_tcp g) Hfps Hdsc items 1 _ []); try assumption; try lia.
  - cbn [bind rev app]. reflexivity.
  - rewrite tti_blocks_length. lia.
Qed.

(* ---- the same assembly for the teletext display standards (rows through rows_ttx) ---- *)
Section DocTtx.
  Variable rows_repr : witem -> Prop.
  Variable expected_lines : witem -> list (list erun).
  Hypothesis rows_roundtrip : forall i, rows_repr i ->
    rows_ttx (split_byte 138 (text_field i)) None [] = (expected_lines i, None).

  (* under the teletext standards the writer clamps the vertical position to 1..23 *)
  Definition item_repr_ttx (fps : Z) (dsc : str) (tcp : Z) (i : witem) : Prop :=
    rows_repr i /\ frame_instant fps (wi_st i + tcp) /\ frame_instant fps (wi_en i + tcp) /\
    match wi_vp i with Some v => 0 <= v < 256 /\ (closed_dsc dsc = true -> 1 <= v <= 23) | None => True end.

  Lemma new_tti_repr_ttx fps dsc tcp i idx : item_repr_ttx fps dsc tcp i -> 0 <= idx < 65536 -> tti_repr fps dsc tcp (new_tti i idx).
  Proof.
    intros (_ & Hin & Hout & Hvp) Hidx. unfold new_tti. constructor; cbn [t_cf t_cs t_jc t_ebn t_sgn t_sn t_vp t_in t_out]; try lia; try assumption.
    - apply jc_of_byte.
    - destruct (wi_vp i); lia.
    - intros H. destruct (wi_vp i); [apply Hvp; exact H | lia].
  Qed.

  Lemma tti_loop_written_ttx g tcp : (g_fps g = 25 \/ g_fps g = 30) -> str_eqb (g_dsc g) stl_s_dscOpen = false ->
    forall items idx fuel ritems,
    (length items < fuel)%nat -> 0 <= idx -> idx + Z.of_nat (length items) <= 65536 ->
    Forall (item_repr_ttx (g_fps g) (g_dsc g) tcp) items ->
    tti_loop fuel (tti_blocks (g_fps g) (g_dsc g) tcp items idx) g tcp None ritems
    = Ok (rev ritems ++ map (fun i => expected_item g (expected_lines i) i) items).
  Proof.
    intros Hfps Hdsc. induction items as [|i r IH]; intros idx fuel ritems Hfuel Hidx Hmax Hall.
    - destruct fuel; [cbn [length] in Hfuel; lia|]. cbn [tti_blocks map]. rewrite tti_loop_eof, app_nil_r. reflexivity.
    - destruct fuel as [|fuel]; [cbn [length] in Hfuel; lia|]. cbn [length] in Hfuel, Hmax.
      inversion Hall as [|? ? Hi Hr]; subst. cbn [tti_blocks tti_loop].
      destruct (read_n_block 128 (tti_bytes (g_fps g) (g_dsc g) tcp (new_tti i idx)) (tti_blocks (g_fps g) (g_dsc g) tcp r (idx + 1))
                  (tti_bytes_length _ _ _ _)) as (cs & R).
      assert (Hix : 0 <= idx < 65536) by lia.
      rewrite R. rewrite (tti_roundtrip (g_fps g) (g_dsc g) tcp (new_tti i idx) Hfps (new_tti_repr_ttx (g_fps g) (g_dsc g) tcp i idx Hi Hix)).
      cbn [t_ebn new_tti t_text]. change (255 =? 254) with false. cbv iota.
      rewrite Hdsc. fold (text_field i). destruct Hi as (Hrows & _).
      rewrite (rows_roundtrip i Hrows).
      rewrite (IH (idx + 1) fuel) by (try lia; assumption).
      cbn [rev map]. rewrite <- app_assoc. cbn [app]. f_equal. f_equal. f_equal.
      unfold item_of, expected_item. cbn [t_in t_out t_jc t_vp new_tti]. f_equal; lia.
  Qed.
End DocTtx.

Theorem read_written_ttx_gen (rows_repr : witem -> Prop) (expected_lines : witem -> list (list erun))
  (rows_roundtrip : forall i, rows_repr i -> rows_ttx (split_byte 138 (text_field i)) None [] = (expected_lines i, None))
  now md items :
  let g := new_gsi now md items in
  items <> [] -> Z.of_nat (length items) < 65536 ->
  parse_gsi (gsi_bytes g) = Ok g ->
  (g_fps g = 25 \/ g_fps g = 30) -> str_eqb (g_dsc g) stl_s_dscOpen = false ->
  Forall (item_repr_ttx rows_repr (g_fps g) (g_dsc g) (g_tcp g)) items ->
  read_stl false (written now md items) = Ok (rdoc_of g (map (fun i => expected_item g (expected_lines i) i) items)).
Proof.
  intros g Hne Hlen Hgsi Hfps Hdsc Hall. unfold read_stl, written. fold g.
  destruct (read_n_block 1024 (gsi_bytes g) (tti_blocks (g_fps g) (g_dsc g) (g_tcp g) items 1) (gsi_bytes_length g)) as (cs & R).
  rewrite R, Hgsi. cbn [bind].
  assert (Hcct : g_cct g = stl_c_cctLatin) by (unfold g, new_gsi; destruct md; reflexivity).
  rewrite Hcct. change (negb (nmem stl_c_cctLatin stl_tables_existing)) with false. cbv iota.
  rewrite (tti_loop_written_ttx rows_repr expected_lines rows_roundtrip g (g_tcp g) Hfps Hdsc items 1 _ []); try assumption; try lia.
  - cbn [bind rev app]. reflexivity.
  - rewrite tti_blocks_length. lia.
Qed.
