(* The int64 models (Model/Ops64.v) equal the unbounded models (Model/Ops.v) inside explicit ranges, so every theorem of
   C09-C12, C14 transfers to Go's wrapping arithmetic there; outside, computed witnesses show they differ. *)
From Coq Require Import List ZArith NArith Bool Lia Permutation Sorted.
From Astisub Require Import Kit.Base Kit.Int64 Model.Ops Model.Ops64 Proofs.OrderProofs Proofs.AddProofs Proofs.ForceProofs
  Proofs.FragmentProofs Proofs.UnfragProofs.
Import ListNotations.
Open Scope Z_scope.

Ltac Zify.zify_post_hook ::= Z.to_euclidean_division_equations.

Lemma wrap_id z : in_i64 z -> wrap_i64 z = z.
Proof. unfold in_i64, i64_min, i64_max, wrap_i64. intros H. lia. Qed.

Lemma wrap_in z : in_i64 (wrap_i64 z).
Proof. unfold in_i64, i64_min, i64_max, wrap_i64. lia. Qed.

(* when the mathematical result is outside int64, the wrapped value is a different number *)
Lemma wrap_out z : ~ in_i64 z -> wrap_i64 z <> z.
Proof. intros H E. apply H. rewrite <- E. apply wrap_in. Qed.

Definition times64 (x : item) : Prop := in_i64 (st x) /\ in_i64 (en x).

(* ---- C09 Add ---- *)
Definition add_range (d : Z) (x : item) : Prop := in_i64 (st x + d) /\ in_i64 (en x + d).

Lemma shift1_64_eq d x : add_range d x -> shift1_64 d x = shift1 d x.
Proof. intros [Hs He]. unfold shift1_64, shift1, add_i64. rewrite (wrap_id _ Hs), (wrap_id _ He). reflexivity. Qed.

Theorem add_dur64_eq d l : Forall (add_range d) l -> add_dur64 d l = add_dur d l.
Proof.
  induction l as [|x r IH]; intros H; [reflexivity|]. inversion H as [|? ? Hx Hr]; subst.
  cbn [add_dur64 add_dur]. rewrite (shift1_64_eq d x Hx), (IH Hr). reflexivity.
Qed.

(* a convenient sufficient range: every time and the shift in [-2^62, 2^62) *)
Definition small62 (z : Z) : Prop := - 4611686018427387904 <= z < 4611686018427387904.
Lemma add_range_small d x : small62 d -> small62 (st x) -> small62 (en x) -> add_range d x.
Proof. unfold small62, add_range, in_i64, i64_min, i64_max. lia. Qed.

(* whatever the range, the results of the int64 model are int64 values *)
Lemma shift1_64_in d x y : shift1_64 d x = Some y -> times64 y.
Proof.
  unfold shift1_64. destruct ((add_i64 (en x) d <=? 0) && (add_i64 (st x) d <=? 0)); [discriminate|].
  intros H. inversion H; subst. unfold times64. cbn [st en set_st set_en]. split; [|apply wrap_in].
  destruct (add_i64 (st x) d <=? 0); [unfold in_i64, i64_min, i64_max; lia | apply wrap_in].
Qed.

Theorem add_dur64_in d l : Forall times64 (add_dur64 d l).
Proof.
  induction l as [|x r IH]; [constructor|]. cbn [add_dur64]. destruct (shift1_64 d x) as [y|] eqn:E; [|exact IH].
  constructor; [exact (shift1_64_in d x y E) | exact IH].
Qed.

(* the hypothesis is needed: Add(10) on a cue ending at MaxInt64 - 5 *)
Definition ex_add_wrap : item := mkItem 1 (i64_max - 20) (i64_max - 5) [mkLine [mkRun [65%N] None false] []] None None false.
Example add64_wraps :
  map (fun x => (st x, en x)) (add_dur64 10 [ex_add_wrap]) = [(i64_max - 10, i64_min + 4)] /\
  map (fun x => (st x, en x)) (add_dur 10 [ex_add_wrap]) = [(i64_max - 10, i64_max + 5)] /\
  ~ add_range 10 ex_add_wrap.
Proof. split; [reflexivity | split; [reflexivity|]]. unfold add_range, in_i64, ex_add_wrap, i64_max, i64_min. cbn [st en]. lia. Qed.
(* ... and in the other direction a cue disappears: both ends wrap to non-positive values *)
Example add64_wraps_removed :
  add_dur64 30 [ex_add_wrap] = [] /\ map (fun x => (st x, en x)) (add_dur 30 [ex_add_wrap]) = [(i64_max + 10, i64_max + 25)].
Proof. split; reflexivity. Qed.

(* ---- C14 ForceDuration ---- *)
Theorem force_duration64_eq d dummy u l : in_i64 (d - 1000000) -> force_duration64 d dummy u l = force_duration d dummy u l.
Proof.
  intros H. unfold force_duration64, force_duration, dummy_item64, dummy_item, sub_i64. rewrite (wrap_id _ H). reflexivity.
Qed.

Lemma force_range_of_positive d : 0 <= d -> in_i64 d -> in_i64 (d - 1000000).
Proof. unfold in_i64, i64_min, i64_max. lia. Qed.

Example force64_wraps :
  let l := [mkItem 1 i64_min i64_min [] None None false] in
  map (fun x => (st x, en x)) (force_duration64 (i64_min + 5) true 9 l) = [(i64_min, i64_min); (i64_max - 999994, i64_min + 5)] /\
  map (fun x => (st x, en x)) (force_duration (i64_min + 5) true 9 l) = [(i64_min, i64_min); (i64_min - 999995, i64_min + 5)].
Proof. split; reflexivity. Qed.

(* ---- C10 Fragment ---- *)
(* the cue's times are int64 values and one more period after its start and after its end still is *)
Definition frag_range (f : Z) (x : item) : Prop :=
  in_i64 (st x) /\ in_i64 (en x) /\ st x + f <= i64_max /\ en x + f <= i64_max.

Lemma rem_no_overflow f s : 0 < f -> in_i64 s -> in_i64 (s - Z.rem s f) /\ s - Z.rem s f - f < s - Z.rem s f.
Proof.
  intros Hf Hs. split; [|lia]. unfold in_i64, i64_min, i64_max in *.
  destruct (Z_le_gt_dec 0 s) as [P|N].
  - pose proof (Z.rem_bound_pos s f P Hf). pose proof (Z.rem_le s f P Hf). lia.
  - pose proof (Z.rem_opp_l s f ltac:(lia)) as E.
    pose proof (Z.rem_bound_pos (- s) f ltac:(lia) Hf). pose proof (Z.rem_le (- s) f ltac:(lia) Hf). lia.
Qed.

Lemma next_mult64_eq f s : 0 < f -> in_i64 s -> s + f <= i64_max -> next_mult64 f s = next_mult f s /\ in_i64 (next_mult f s).
Proof.
  intros Hf Hs Hsf. unfold next_mult64, next_mult, sub_i64, rem_i64, add_i64.
  destruct (rem_no_overflow f s Hf Hs) as [Hb _]. rewrite (wrap_id _ Hb).
  destruct (s - Z.rem s f <=? s) eqn:C.
  - apply Z.leb_le in C.
    assert (Hbf : in_i64 (s - Z.rem s f + f)) by (unfold in_i64, i64_min, i64_max in *; lia).
    rewrite (wrap_id _ Hbf). split; [reflexivity | exact Hbf].
  - split; [reflexivity | exact Hb].
Qed.

(* inside the range the loop never wraps, and [fuel] tests suffice as soon as they suffice for the unbounded loop *)
Lemma pieces_loop64_eq f : 0 < f -> forall fuel x b,
  in_i64 b -> en x + f <= i64_max -> en x - b < Z.of_nat fuel * f ->
  pieces_loop64 (S fuel) f x b = Some (pieces_loop fuel f x b).
Proof.
  intros Hf. induction fuel as [|n IH]; intros x b Hb He Hfuel.
  - cbn [pieces_loop64 pieces_loop]. cbn in Hfuel.
    destruct (b <? en x) eqn:C; [apply Z.ltb_lt in C; lia | reflexivity].
  - change (pieces_loop64 (S (S n)) f x b) with
      (if b <? en x then match pieces_loop64 (S n) f (set_st x b) (add_i64 b f) with
                         | Some r => Some (set_uid (set_en x b) 0%N :: r) | None => None end
       else Some [x]).
    cbn [pieces_loop]. destruct (b <? en x) eqn:C; [|reflexivity]. apply Z.ltb_lt in C.
    assert (Hbf : in_i64 (b + f)) by (unfold in_i64, i64_min, i64_max in *; lia).
    unfold add_i64. rewrite (wrap_id _ Hbf).
    specialize (IH (set_st x b) (b + f) Hbf). cbn [en set_st] in IH.
    rewrite IH by lia. reflexivity.
Qed.

Definition pieces_fuel_of (f : Z) (x : item) : nat := Z.to_nat ((en x - st x) / f + 2).

Theorem pieces64_eq fuel f x : 0 < f -> frag_range f x -> (pieces_fuel_of f x < fuel)%nat ->
  pieces64 fuel f x = Some (pieces f x).
Proof.
  intros Hf (Hs & He & Hsf & Hef) Hfu. unfold pieces64, pieces.
  destruct (next_mult64_eq f (st x) Hf Hs Hsf) as [E Hb]. rewrite E.
  destruct (next_mult_spec f (st x) Hf) as (_ & Hlt & _).
  fold (pieces_fuel_of f x).
  (* more fuel than needed changes nothing: go through the exact amount *)
  assert (Hexact : pieces_loop64 (S (pieces_fuel_of f x)) f x (next_mult f (st x)) = Some (pieces_loop (pieces_fuel_of f x) f x (next_mult f (st x)))).
  { apply pieces_loop64_eq; try assumption. apply pieces_fuel. exact Hf. }
  assert (Hmono : forall n m y b r, pieces_loop64 n f y b = Some r -> (n <= m)%nat -> pieces_loop64 m f y b = Some r).
  { induction n as [|n IHn]; intros m y b r H Hle; [discriminate H|].
    destruct m as [|m]; [lia|]. cbn [pieces_loop64] in *. destruct (b <? en y); [|exact H].
    destruct (pieces_loop64 n f (set_st y b) (add_i64 b f)) as [q|] eqn:Eq; [|discriminate H].
    rewrite (IHn m _ _ q Eq ltac:(lia)). exact H. }
  exact (Hmono _ fuel _ _ _ Hexact ltac:(lia)).
Qed.

Theorem fragment64_eq fuel f l : 0 < f -> Forall (frag_range f) l ->
  Forall (fun x => (pieces_fuel_of f x < fuel)%nat) l -> fragment64 fuel f l = Some (fragment f l).
Proof.
  intros Hf HR HF. unfold fragment64, fragment. destruct (f <=? 0) eqn:C; [apply Z.leb_le in C; lia|].
  assert (E : flat_pieces64 fuel f l = Some (flat_map (pieces f) l)).
  { induction l as [|x r IH]; [reflexivity|]. inversion HR as [|? ? Hx Hr]; subst. inversion HF as [|? ? Fx Fr]; subst.
    cbn [flat_pieces64 flat_map]. rewrite (pieces64_eq fuel f x Hf Hx Fx), (IH Hr Fr). reflexivity. }
  rewrite E. reflexivity.
Qed.

Theorem fragment64_nonpos fuel f l : f <= 0 -> fragment64 fuel f l = Some l.
Proof. intros H. unfold fragment64. destruct (f <=? 0) eqn:C; [reflexivity | apply Z.leb_gt in C; lia]. Qed.

(* termination: the number of pieces of a cue is bounded by the fuel of the model, (e - s) / f + 2 *)
Lemma pieces_loop_length f : forall fuel x b, (length (pieces_loop fuel f x b) <= S fuel)%nat.
Proof.
  induction fuel as [|n IH]; intros x b; cbn [pieces_loop]; [cbn; lia|].
  destruct (b <? en x); [cbn [length]; specialize (IH (set_st x b) (b + f)); lia | cbn; lia].
Qed.

(* sharper: cuts are the multiples strictly inside, at most (e - s - 1) / f + 1 of them *)
Lemma pieces_loop_count f : 0 < f -> forall fuel x b, st x < b ->
  Z.of_nat (length (pieces_loop fuel f x b)) <= Z.max 0 ((en x - b + f - 1) / f) + 1.
Proof.
  intros Hf. induction fuel as [|n IH]; intros x b Hb; cbn [pieces_loop]; [cbn [length]; lia|].
  destruct (b <? en x) eqn:C; [|cbn [length]; lia]. apply Z.ltb_lt in C.
  cbn [length]. specialize (IH (set_st x b) (b + f)). cbn [st en set_st] in IH. specialize (IH ltac:(lia)).
  rewrite Nat2Z.inj_succ.
  assert (E : (en x - b + f - 1) / f = (en x - (b + f) + f - 1) / f + 1).
  { replace (en x - b + f - 1) with ((en x - (b + f) + f - 1) + 1 * f) by lia. apply Z.div_add. lia. }
  assert (0 <= (en x - b + f - 1) / f) by (apply Z.div_pos; lia).
  assert (-1 <= (en x - (b + f) + f - 1) / f) by lia.
  lia.
Qed.

Theorem pieces_count f x : 0 < f -> st x <= en x ->
  Z.of_nat (length (pieces f x)) <= (en x - st x) / f + 2 /\ (length (pieces f x) <= S (pieces_fuel_of f x))%nat.
Proof.
  intros Hf Hx. split; [|apply pieces_loop_length].
  unfold pieces. destruct (next_mult_spec f (st x) Hf) as (_ & Hlt & _).
  pose proof (pieces_loop_count f Hf (Z.to_nat ((en x - st x) / f + 2)) x (next_mult f (st x)) Hlt) as H.
  assert (0 <= (en x - st x) / f) by (apply Z.div_pos; lia).
  assert ((en x - next_mult f (st x) + f - 1) / f <= (en x - st x) / f + 1).
  { replace ((en x - st x) / f + 1) with ((en x - st x + 1 * f) / f) by (apply Z.div_add; lia).
    apply Z.div_le_mono; lia. }
  lia.
Qed.

(* "(e - s) / f + 1" is NOT a bound: [2, 4) cut with period 3 has two pieces and (4 - 2) / 3 + 1 = 1 *)
Example pieces_count_tight :
  length (pieces 3 (mkItem 1 2 4 [] None None false)) = 2%nat /\ (4 - 2) / 3 + 1 = 1 /\ (4 - 2) / 3 + 2 = 2.
Proof. repeat split; reflexivity. Qed.

(* outside the range.  Fragment(1<<62) on [0, MaxInt64): the boundary 2^62 + 2^62 wraps to MinInt64, which is before the
   end, and the loop goes on for ever (period 4 in the boundaries: MinInt64, -2^62, 0, 2^62): no result for any fuel *)
Definition ex_frag_wrap : item := mkItem 1 0 i64_max [mkLine [mkRun [65%N] None false] []] None None false.
Lemma ex_frag_cycle : forall k x, en x = i64_max ->
  pieces_loop64 k 4611686018427387904 x 4611686018427387904 = None /\
  pieces_loop64 k 4611686018427387904 x i64_min = None /\
  pieces_loop64 k 4611686018427387904 x (- 4611686018427387904) = None /\
  pieces_loop64 k 4611686018427387904 x 0 = None.
Proof.
  induction k as [|k IH]; intros x Hx; [repeat split; reflexivity|].
  cbn [pieces_loop64]. rewrite Hx.
  destruct (IH (set_st x 4611686018427387904) Hx) as (_ & B & _ & _).
  destruct (IH (set_st x i64_min) Hx) as (_ & _ & C & _).
  destruct (IH (set_st x (- 4611686018427387904)) Hx) as (_ & _ & _ & D).
  destruct (IH (set_st x 0) Hx) as (A & _ & _ & _).
  change (add_i64 4611686018427387904 4611686018427387904) with i64_min.
  change (add_i64 i64_min 4611686018427387904) with (- 4611686018427387904).
  change (add_i64 (- 4611686018427387904) 4611686018427387904) with 0.
  change (add_i64 0 4611686018427387904) with 4611686018427387904.
  change (4611686018427387904 <? i64_max) with true. change (i64_min <? i64_max) with true.
  change (- 4611686018427387904 <? i64_max) with true. change (0 <? i64_max) with true. cbv iota.
  rewrite A, B, C, D. repeat split; reflexivity.
Qed.
Theorem fragment64_diverges : forall fuel, fragment64 fuel 4611686018427387904 [ex_frag_wrap] = None.
Proof.
  intros fuel. unfold fragment64. change (4611686018427387904 <=? 0) with false. cbv iota.
  cbn [flat_pieces64]. unfold pieces64. change (next_mult64 4611686018427387904 (st ex_frag_wrap)) with 4611686018427387904.
  destruct (ex_frag_cycle fuel ex_frag_wrap eq_refl) as (A & _). rewrite A. reflexivity.
Qed.
Example fragment64_diverges_unbounded :
  map (fun x => (st x, en x)) (fragment 4611686018427387904 [ex_frag_wrap]) = [(0, 4611686018427387904); (4611686018427387904, i64_max)] /\
  ~ frag_range 4611686018427387904 ex_frag_wrap.
Proof. split; [reflexivity|]. unfold frag_range, in_i64, ex_frag_wrap, i64_max, i64_min. cbn [st en]. lia. Qed.
(* a wrap after which the loop does stop, with a different result: start near MaxInt64 (an ill-formed cue: end = 0) *)
Example fragment64_wraps :
  option_map (map (fun x => (st x, en x))) (fragment64 8 4611686018427387904 [mkItem 1 (i64_max - 1) 0 [] None None false]) =
    Some [(i64_min, - 4611686018427387904); (- 4611686018427387904, 0); (i64_max - 1, i64_min)] /\
  map (fun x => (st x, en x)) (fragment 4611686018427387904 [mkItem 1 (i64_max - 1) 0 [] None None false]) = [(i64_max - 1, 0)].
Proof. split; reflexivity. Qed.

(* ---- C11 / C12: Order, Merge, Unfragment do no arithmetic - int64 times in, the same int64 times out ---- *)
Section Closure.
Variable Q : Z -> Prop.
Let okc (x : item) : Prop := Q (st x) /\ Q (en x).

Lemma order_closed l : Forall okc l -> Forall okc (order l).
Proof. intros H. eapply Permutation_Forall; [apply order_perm | exact H]. Qed.

Lemma absorb_closed : forall rest x x' rest', absorb x rest = (x', rest') -> okc x -> Forall okc rest ->
  okc x' /\ Forall okc rest'.
Proof.
  induction rest as [|y ys IH]; intros x x' rest' H Hx Hr.
  - cbn in H. inversion H; subst. auto.
  - rewrite absorb_unfold in H. inversion Hr as [|? ? Hy Hys]; subst.
    destruct (str_eqb (tx x) (tx y) && (st y <=? en x)).
    + apply (IH (upd x y) x' rest' H); [|exact Hys].
      unfold okc, upd. destruct (en x <? en y); [cbn [st en set_en]; destruct Hx, Hy; split; assumption | exact Hx].
    + destruct (en x <? st y).
      * inversion H; subst. auto.
      * destruct (absorb x ys) as [x1 ys1] eqn:E. inversion H; subst.
        destruct (IH x x' ys1 E Hx Hys) as [A B]. split; [exact A | constructor; assumption].
Qed.

Lemma unfrag_closed : forall fuel l, Forall okc l -> Forall okc (unfrag fuel l).
Proof.
  induction fuel as [|k IH]; intros l H; [destruct l; exact H|].
  destruct l as [|x rest]; [exact H|]. cbn [unfrag]. destruct (absorb x rest) as [x' rest'] eqn:E.
  inversion H as [|? ? Hx Hr]; subst. destruct (absorb_closed rest x x' rest' E Hx Hr) as [A B].
  constructor; [exact A | exact (IH rest' B)].
Qed.

Theorem unfragment_closed l : Forall okc l -> Forall okc (unfragment l).
Proof. intros H. unfold unfragment. apply unfrag_closed, order_closed, H. Qed.

Theorem merge_closed a b pr ps : Forall okc (items a) -> Forall okc (items b) -> Forall okc (items (merge a b pr ps)).
Proof. intros Ha Hb. rewrite merge_items. apply order_closed. apply Forall_app. split; assumption. Qed.
End Closure.

(* Fragment inside its range and ForceDuration, Add always: int64 times out *)
Theorem force_duration64_in d dummy u l : in_i64 d -> Forall times64 l -> Forall times64 (force_duration64 d dummy u l).
Proof.
  intros Hd H. unfold force_duration64. destruct (duration l =? d); [exact H|].
  assert (Ht : Forall times64 (trim d l)).
  { clear - H Hd. induction l as [|x r IH]; [constructor|]. inversion H as [|? ? Hx Hr]; subst. cbn [trim].
    destruct (d <=? st x); [constructor|]. constructor; [|exact (IH Hr)].
    destruct (d <? en x); [|exact Hx]. destruct Hx as [A B]. split; [exact A | exact Hd]. }
  assert (Hl1 : Forall times64 (if d <? duration l then trim d l else l)) by (destruct (d <? duration l); assumption).
  destruct (dummy && _); [|exact Hl1]. apply Forall_app. split; [exact Hl1|].
  constructor; [|constructor]. unfold times64, dummy_item64. cbn [st en]. split; [apply wrap_in | exact Hd].
Qed.
