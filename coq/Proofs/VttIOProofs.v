(* WebVTT reader/writer: totality, delivery schedules, faults. *)
From Coq Require Import List ZArith NArith Bool Arith Lia.
From Astisub Require Import Kit.Base Kit.Str Kit.Scan Kit.Html Kit.IOW Model.Dur Model.Srt Model.Vtt Proofs.ScanProofs.
Import ListNotations.

Lemma region_parts_no_panic parts : forall id a p, region_parts parts id a <> Panic p.
Proof.
  induction parts as [|x r IH]; intros id a p; cbn [region_parts]; [discriminate|].
  destruct (Str.split [61%N] x) as [|k [|v rest]]; try discriminate.
  repeat match goal with |- context [if ?b then _ else _] => destruct b end; try apply IH; try discriminate.
  destruct (atoi v); [apply IH | discriminate].
Qed.

Lemma cue_settings_no_panic fs : forall regions s reg p, cue_settings fs regions s reg <> Panic p.
Proof.
  induction fs as [|x r IH]; intros regions s reg p; cbn [cue_settings]; [discriminate|].
  destruct (Str.split [58%N] x) as [|k [|v rest]]; try discriminate.
  repeat match goal with |- context [if ?b then _ else _] => destruct b end; try apply IH; try discriminate.
  destruct (aget v regions); [apply IH | discriminate].
Qed.

Lemma vtt_step_no_panic s raw p : vtt_step s raw <> Panic p.
Proof.
  unfold vtt_step. destruct (negb (utf8_valid (trim_space raw))); [discriminate|].
  destruct (has_prefix p_note _); [discriminate|].
  destruct (trim_space raw) as [|c t] eqn:E; [discriminate|].
  destruct (has_prefix p_region _).
  { destruct (region_parts _ _ _) as [[id a]|k|q] eqn:R; try discriminate. exfalso. exact (region_parts_no_panic _ _ _ _ R). }
  destruct (has_prefix p_style _). { destruct (v_styles s); discriminate. }
  destruct (contains arrow _).
  { destruct (Str.split arrow _) as [|l [|r rest]]; try discriminate.
    destruct (fields r) as [|e settings]; [discriminate|].
    destruct (parse_vtt l); [|discriminate]. destruct (parse_vtt e); [|discriminate].
    destruct (cue_settings _ _ _ _) as [[st reg]|k|q] eqn:C; try discriminate. exfalso. exact (cue_settings_no_panic _ _ _ _ _ C). }
  destruct (has_prefix p_tsmap _). { destruct (cur_has_lines s); [discriminate|]. destruct (parse_tsmap _); discriminate. }
  destruct (v_block s); try discriminate.
  destruct (parse_text_vtt _ _) as [ln tags']. destruct (vl_runs ln); [discriminate|]. destruct (v_cur s); discriminate.
Qed.

Lemma vtt_run_no_panic ls : forall s p, vtt_run s ls <> Panic p.
Proof.
  induction ls as [|l r IH]; intros s p; cbn [vtt_run]; [discriminate|].
  destruct (vtt_step s l) as [s'|k|q] eqn:E; [apply IH | discriminate | exfalso; exact (vtt_step_no_panic _ _ _ E)].
Qed.

Lemma vtt_header_no_panic ls p : vtt_header ls <> Panic p.
Proof.
  induction ls as [|l r IH]; cbn [vtt_header]; [discriminate|].
  destruct (negb _); [discriminate|]. destruct (fields _) as [|f rest]; [exact IH|]. destruct (str_eqb f p_webvtt); [discriminate | exact IH].
Qed.

Theorem read_vtt_lines_no_panic ls e p : read_vtt_lines ls e <> Panic p.
Proof.
  unfold read_vtt_lines. destruct (vtt_header ls) as [body|k|q] eqn:H; [|discriminate | exfalso; exact (vtt_header_no_panic _ _ H)].
  destruct (vtt_run vstate0 body) as [s|k|q] eqn:R; [destruct e; discriminate | discriminate | exfalso; exact (vtt_run_no_panic _ _ _ R)].
Qed.

Theorem read_vtt_fault ls : exists k, read_vtt_lines ls true = Err k.
Proof.
  unfold read_vtt_lines. destruct (vtt_header ls) as [body|k|q] eqn:H; [|eexists; reflexivity | exfalso; exact (vtt_header_no_panic _ _ H)].
  destruct (vtt_run vstate0 body) as [s|k|q] eqn:R; [eexists; reflexivity | eexists; reflexivity | exfalso; exact (vtt_run_no_panic _ _ _ R)].
Qed.

Theorem read_vtt_schedule data counts : read_vtt_lines (scan data counts) false = read_vtt data.
Proof. unfold read_vtt. rewrite scan_lines. reflexivity. Qed.

Theorem write_vtt_no_panic d so ro p : write_vtt d so ro <> Panic p.
Proof. unfold write_vtt. destruct (vd_items d); discriminate. Qed.

Theorem write_vtt_empty d so ro : vd_items d = [] -> write_vtt d so ro = Err ENothingToWrite.
Proof. intros H. unfold write_vtt. rewrite H. reflexivity. Qed.

(* ---- determinism: the output does not depend on the order in which the maps are ranged over ---- *)
From Coq Require Import Permutation.
From Astisub Require Import Kit.SortOrd.

Lemma str_leb_sleb a : forall b, str_leb a b = sleb a b.
Proof. induction a as [|x a IH]; intros [|y b]; cbn [str_leb sleb]; [reflexivity | reflexivity | reflexivity |]. destruct (N.ltb x y); [reflexivity|]. destruct (N.ltb y x); [reflexivity | apply IH]. Qed.
Lemma sinsert_ginsert x l : sinsert x l = ginsert sleb x l.
Proof. induction l as [|y r IH]; cbn [sinsert ginsert]; [reflexivity|]. rewrite str_leb_sleb, IH. reflexivity. Qed.
Lemma ssort_gsort l : ssort l = gsort sleb l.
Proof. induction l as [|x r IH]; cbn [ssort gsort fold_right]; [reflexivity|]. fold (ssort r). fold (gsort sleb r). rewrite IH. apply sinsert_ginsert. Qed.

Lemma ssort_order_independent l l' : Permutation l l' -> ssort l = ssort l'.
Proof.
  intros P. rewrite !ssort_gsort. apply (gsort_order_independent sleb sleb_total sleb_antisym sleb_trans). exact P.
Qed.

Theorem write_vtt_order_independent d so so' ro ro' :
  Permutation so so' -> Permutation ro ro' -> write_vtt d so ro = write_vtt d so' ro'.
Proof.
  intros Ps Pr. unfold write_vtt. destruct (vd_items d); [reflexivity|].
  rewrite (ssort_order_independent so so' Ps).
  rewrite (ssort_order_independent ro ro' Pr).
  assert (E : match ro with [] => @nil N | _ => [10%N] end = match ro' with [] => @nil N | _ => [10%N] end).
  { destruct ro as [|x r]; destruct ro' as [|x' r']; try reflexivity.
    - apply Permutation_nil in Pr. discriminate.
    - apply Permutation_sym, Permutation_nil in Pr. discriminate. }
  rewrite E. reflexivity.
Qed.

(* ---- the writer issues one Write with the whole document ---- *)
Definition vtt_writes (d : vdoc) (so ro : list str) : res (list str) :=
  match write_vtt d so ro with Ok b => Ok [b] | Err k => Err k | Panic p => Panic p end.
Definition write_vtt_to (d : vdoc) (so ro : list str) (dst : dest) : res nat :=
  match vtt_writes d so ro with Ok ws => run_writes ws dst 0 | Err k => Err k | Panic p => Panic p end.

Theorem write_vtt_fault d so ro doc k : write_vtt d so ro = Ok doc -> (k < length doc)%nat ->
  write_vtt_to d so ro (fail_at k) = Err EIO.
Proof.
  intros H Hk. unfold write_vtt_to, vtt_writes. rewrite H. apply writes_fault. unfold total. cbn [concat]. rewrite app_nil_r. exact Hk.
Qed.
Theorem write_vtt_complete d so ro doc : write_vtt d so ro = Ok doc -> write_vtt_to d so ro ok_dest = Ok (length doc).
Proof.
  intros H. unfold write_vtt_to, vtt_writes. rewrite H, writes_complete. unfold total. cbn [concat]. rewrite app_nil_r. reflexivity.
Qed.
