(* C03, reading of rendered documents, part A: the boolean checks of TtmlRender.v as propositions, character data
   woven between structural elements, navigation in the rendered tree, list helpers. *)
From Coq Require Import List ZArith NArith Bool Lia Permutation.
From Astisub Require Import Kit.Base Kit.Str Kit.Float64 Kit.Float64x Kit.Xml Model.Dur Model.Ttml
  Proofs.TtmlLines Proofs.TtmlDocSpec Proofs.TtmlDocA Proofs.TtmlDocB Proofs.TtmlSpec Proofs.TtmlTime Proofs.TtmlRefs
  Proofs.TtmlPara Proofs.TtmlRender.
Import ListNotations.
Open Scope Z_scope.

(* ================= boolean checks as propositions ================= *)
Lemma nodupb_NoDup l : rnodupb l = true -> NoDup l.
Proof.
  induction l as [|a r IH]; intros H; [constructor|].
  cbn [rnodupb] in H. apply andb_true_iff in H. destruct H as [H1 H2].
  constructor; [|apply IH; exact H2].
  intros Hin. apply negb_true_iff in H1.
  assert (E : existsb (str_eqb a) r = true).
  { apply existsb_exists. exists a. split; [exact Hin | apply str_eqb_refl]. }
  rewrite E in H1. discriminate.
Qed.

Lemma list_eqb_eq {A} (f : A -> A -> bool) : (forall x y, f x y = true -> x = y) ->
  forall a b, list_eqb f a b = true -> a = b.
Proof.
  intros Hf. induction a as [|x a IH]; intros [|y b] H; cbn [list_eqb] in H; try discriminate; [reflexivity|].
  apply andb_true_iff in H. destruct H as [H1 H2]. rewrite (Hf x y H1), (IH b H2). reflexivity.
Qed.

Lemma ostr_eqb_eq a b : ostr_eqb a b = true -> a = b.
Proof.
  destruct a as [x|], b as [y|]; cbn [ostr_eqb]; intros H; try discriminate; [|reflexivity].
  apply str_eqb_eq in H. subst y. reflexivity.
Qed.
Lemma oz_eqb_eq a b : oz_eqb a b = true -> a = b.
Proof.
  destruct a as [x|], b as [y|]; cbn [oz_eqb]; intros H; try discriminate; [|reflexivity].
  apply Z.eqb_eq in H. subst y. reflexivity.
Qed.
Lemma tattrs_eqb_eq a b : tattrs_eqb a b = true -> a = b.
Proof.
  destruct a as [sa za], b as [sb zb]. unfold tattrs_eqb. cbn [ta_s ta_z]. intros H.
  apply andb_true_iff in H. destruct H as [H1 H2].
  rewrite (list_eqb_eq ostr_eqb ostr_eqb_eq sa sb H1), (oz_eqb_eq za zb H2). reflexivity.
Qed.
Lemma trun_eqb_eq a b : trun_eqb a b = true -> a = b.
Proof.
  destruct a as [ta sa aa], b as [tb sb ab]. unfold trun_eqb. cbn [tr_txt tr_style tr_attrs]. intros H.
  apply andb_true_iff in H. destruct H as [H H3]. apply andb_true_iff in H. destruct H as [H1 H2].
  apply str_eqb_eq in H1. subst tb. rewrite (ostr_eqb_eq sa sb H2), (tattrs_eqb_eq aa ab H3). reflexivity.
Qed.
Lemma ttok_eqb_eq a b : ttok_eqb a b = true -> a = b.
Proof.
  destruct a as [|x], b as [|y]; cbn [ttok_eqb]; intros H; try discriminate; [reflexivity|].
  rewrite (trun_eqb_eq x y H). reflexivity.
Qed.

Lemma xattr_eqb_eq a b : xattr_eqb a b = true -> a = b.
Proof.
  destruct a as [[sa la] va], b as [[sb lb] vb]. unfold xattr_eqb, xname_eqb'. cbn [fst snd x_space x_local]. intros H.
  apply andb_true_iff in H. destruct H as [H H3]. apply andb_true_iff in H. destruct H as [H1 H2].
  apply str_eqb_eq in H1. apply str_eqb_eq in H2. apply str_eqb_eq in H3. subst. reflexivity.
Qed.

(* the written attribute list is the canonical one in another order *)
Lemma attrs_perm_sound canon actual : attrs_perm_ok canon actual = true ->
  Permutation canon actual /\ NoDup (map attr_local canon).
Proof.
  unfold attrs_perm_ok. intros H.
  apply andb_true_iff in H. destruct H as [H Hall]. apply andb_true_iff in H. destruct H as [H _].
  apply andb_true_iff in H. destruct H as [Hlen Hnd]. apply Nat.eqb_eq in Hlen. apply nodupb_NoDup in Hnd.
  split; [|exact Hnd].
  apply NoDup_Permutation_bis.
  - exact (NoDup_map_inv _ _ Hnd).
  - rewrite Hlen. apply le_n.
  - intros a Ha. rewrite forallb_forall in Hall. specialize (Hall a Ha).
    apply existsb_exists in Hall. destruct Hall as (x & Hx & E). apply xattr_eqb_eq in E. subst x. exact Hx.
Qed.

Lemma int64b_range z : int64b z = true -> - max_int64 - 1 <= z <= max_int64.
Proof. unfold int64b. intros H. apply andb_true_iff in H. destruct H as [H1 H2]. apply Z.leb_le in H1. apply Z.leb_le in H2. lia. Qed.

(* ================= list helpers ================= *)
Lemma combine_in_forallb {A B} (P : A * B -> bool) xs ys x y :
  forallb P (combine xs ys) = true -> In (x, y) (combine xs ys) -> P (x, y) = true.
Proof. intros H Hin. rewrite forallb_forall in H. exact (H (x, y) Hin). Qed.

Lemma map_res_zip {X Y Z} (f : Y -> res Z) (h : X * Y -> Z) : forall xs ys, length ys = length xs ->
  (forall x y, In (x, y) (combine xs ys) -> f y = Ok (h (x, y))) -> map_res f ys = Ok (map h (combine xs ys)).
Proof.
  induction xs as [|x xs IH]; intros [|y ys] Hl H; cbn [length] in Hl; try discriminate; [reflexivity|].
  cbn [combine map map_res]. rewrite (H x y (or_introl eq_refl)). cbn [bind].
  rewrite (IH ys); [reflexivity | lia | intros x' y' Hin; apply H; right; exact Hin].
Qed.

Lemma map_fst_combine {X Y} : forall (xs : list X) (ys : list Y), length ys = length xs -> map fst (combine xs ys) = xs.
Proof.
  induction xs as [|x xs IH]; intros [|y ys] Hl; cbn [length] in Hl; try discriminate; [reflexivity|].
  cbn [combine map fst]. rewrite IH by lia. reflexivity.
Qed.

Lemma map_res_map {A B C} (f : B -> res C) (g : A -> B) l : map_res f (map g l) = map_res (fun a => f (g a)) l.
Proof. induction l as [|a r IH]; [reflexivity|]. cbn [map map_res]. rewrite IH. reflexivity. Qed.

(* ================= character data between the children ================= *)
Lemma kids_named_app' l a b : kids_named l (a ++ b) = kids_named l a ++ kids_named l b.
Proof. unfold kids_named. apply filter_app. Qed.
Lemma kids_named_cons l k r : kids_named l (k :: r) = if is_elem_named l k then k :: kids_named l r else kids_named l r.
Proof. reflexivity. Qed.
Lemma kids_named_text l t : kids_named l (text_kids t) = [].
Proof. destruct t; reflexivity. Qed.

Lemma kids_named_weave l ks : forall ws, kids_named l (weave ws ks) = kids_named l ks.
Proof.
  induction ks as [|k r IH]; intros ws; cbn [weave].
  - apply kids_named_text.
  - rewrite kids_named_app', kids_named_text. cbn [app]. rewrite !kids_named_cons, IH. reflexivity.
Qed.

Lemma kids_named_all {A} l (f : A -> xnode) L : (forall a, is_elem_named l (f a) = true) -> kids_named l (map f L) = map f L.
Proof.
  intros H. induction L as [|a L IH]; [reflexivity|]. cbn [map]. rewrite kids_named_cons, H, IH. reflexivity.
Qed.

Lemma direct_text_kids t : direct_text (text_kids t) = t.
Proof. destruct t as [|c t]; [reflexivity|]. unfold text_kids, direct_text. cbn [flat_map]. apply app_nil_r. Qed.

Lemma path2 a b kids : path_elems [a; b] kids = flat_map (fun n => kids_named b (elem_kids n)) (kids_named a kids).
Proof. reflexivity. Qed.
Lemma path3 a b c kids :
  path_elems [a; b; c] kids =
  flat_map (fun n => flat_map (fun n' => kids_named c (elem_kids n')) (kids_named b (elem_kids n))) (kids_named a kids).
Proof. reflexivity. Qed.

(* ================= sections of the head ================= *)
Lemma nat_eqb_eq' x y : Nat.eqb x y = true -> x = y.
Proof. apply Nat.eqb_eq. Qed.

Lemma sections_cases l : sections_ok l = true ->
  l = [0;1;2]%nat \/ l = [0;2;1]%nat \/ l = [1;0;2]%nat \/ l = [1;2;0]%nat \/ l = [2;0;1]%nat \/ l = [2;1;0]%nat.
Proof.
  unfold sections_ok. intros H. apply existsb_exists in H. destruct H as (x & Hx & E).
  apply (list_eqb_eq Nat.eqb nat_eqb_eq') in E. subst x. cbn [In] in Hx. intuition auto.
Qed.

Section Tree.
  Variables (r : rendering) (m : gdoc).
  Hypothesis Hsec : sections_ok (r_sections r) = true.

  Definition styling_node : xnode := el s_styling [] (weave (r_ws_styling r) (map (fun al => el s_style al []) (r_style_attrs r))).
  Definition layout_node : xnode := el s_layout [] (weave (r_ws_layout r) (map (fun al => el s_region al []) (r_region_attrs r))).

  Lemma head_meta : kids_named s_metadata (map (render_section r m) (r_sections r)) = [render_meta r m].
  Proof. destruct (sections_cases _ Hsec) as [E|[E|[E|[E|[E|E]]]]]; rewrite E; reflexivity. Qed.
  Lemma head_styling : kids_named s_styling (map (render_section r m) (r_sections r)) = [styling_node].
  Proof. destruct (sections_cases _ Hsec) as [E|[E|[E|[E|[E|E]]]]]; rewrite E; reflexivity. Qed.
  Lemma head_layout : kids_named s_layout (map (render_section r m) (r_sections r)) = [layout_node].
  Proof. destruct (sections_cases _ Hsec) as [E|[E|[E|[E|[E|E]]]]]; rewrite E; reflexivity. Qed.

  Definition root_kids : list xnode :=
    weave (r_ws_root r)
          [el s_head [] (weave (r_ws_head r) (map (render_section r m) (r_sections r)));
           el s_body [] (weave (r_ws_body r) [el s_div [] (weave (r_ws_div r) (map render_para (r_paras r)))])].

  Lemma render_tree_eq : render_tree r m = XElem (mkName el_mark s_tt) (r_root_attrs r) root_kids.
  Proof. reflexivity. Qed.

  Lemma root_head : kids_named s_head root_kids = [el s_head [] (weave (r_ws_head r) (map (render_section r m) (r_sections r)))].
  Proof. unfold root_kids. rewrite kids_named_weave. reflexivity. Qed.
  Lemma root_body : kids_named s_body root_kids =
    [el s_body [] (weave (r_ws_body r) [el s_div [] (weave (r_ws_div r) (map render_para (r_paras r)))])].
  Proof. unfold root_kids. rewrite kids_named_weave. reflexivity. Qed.

  Lemma path_md : path_elems [s_head; s_metadata] root_kids = [render_meta r m].
  Proof.
    rewrite path2, root_head. cbn [flat_map el elem_kids]. rewrite app_nil_r, kids_named_weave. apply head_meta.
  Qed.
  Lemma path_styles : path_elems [s_head; s_styling; s_style] root_kids = map (fun al => el s_style al []) (r_style_attrs r).
  Proof.
    rewrite path3, root_head. cbn [flat_map el elem_kids]. rewrite app_nil_r, kids_named_weave, head_styling.
    unfold styling_node. cbn [flat_map el elem_kids]. rewrite app_nil_r, kids_named_weave.
    apply kids_named_all. intros a. reflexivity.
  Qed.
  Lemma path_regions : path_elems [s_head; s_layout; s_region] root_kids = map (fun al => el s_region al []) (r_region_attrs r).
  Proof.
    rewrite path3, root_head. cbn [flat_map el elem_kids]. rewrite app_nil_r, kids_named_weave, head_layout.
    unfold layout_node. cbn [flat_map el elem_kids]. rewrite app_nil_r, kids_named_weave.
    apply kids_named_all. intros a. reflexivity.
  Qed.
  Lemma path_paras : path_elems [s_body; s_div; s_p] root_kids = map render_para (r_paras r).
  Proof.
    rewrite path3, root_body. cbn [flat_map el elem_kids]. rewrite app_nil_r, kids_named_weave.
    assert (E : kids_named s_div [el s_div [] (weave (r_ws_div r) (map render_para (r_paras r)))]
                = [el s_div [] (weave (r_ws_div r) (map render_para (r_paras r)))]) by reflexivity.
    rewrite E. cbn [flat_map el elem_kids]. rewrite app_nil_r, kids_named_weave.
    apply kids_named_all. intros a. reflexivity.
  Qed.

  (* the texts of the metadata *)
  Lemma meta_kids : flat_map elem_kids [render_meta r m] =
    weave (r_ws_meta r) (if r_title_first r
                         then [el s_title [] (text_kids (gd_title m)); el s_copyright [] (text_kids (gd_copyright m))]
                         else [el s_copyright [] (text_kids (gd_copyright m)); el s_title [] (text_kids (gd_title m))]).
  Proof. cbn [flat_map render_meta el elem_kids]. apply app_nil_r. Qed.
  Lemma meta_title : last_text (path_elems [s_title] (flat_map elem_kids [render_meta r m])) = gd_title m.
  Proof.
    rewrite meta_kids. cbn [path_elems]. rewrite kids_named_weave.
    transitivity (last_text [el s_title [] (text_kids (gd_title m))]).
    - destruct (r_title_first r); reflexivity.
    - unfold last_text. cbn [rev app el elem_kids]. apply direct_text_kids.
  Qed.
  Lemma meta_copyright : last_text (path_elems [s_copyright] (flat_map elem_kids [render_meta r m])) = gd_copyright m.
  Proof.
    rewrite meta_kids. cbn [path_elems]. rewrite kids_named_weave.
    transitivity (last_text [el s_copyright [] (text_kids (gd_copyright m))]).
    - destruct (r_title_first r); reflexivity.
    - unfold last_text. cbn [rev app el elem_kids]. apply direct_text_kids.
  Qed.
End Tree.
