(* C06: the stream-level theorem.  For every ground-truth schedule and every multiplexing in the decidable class
   mux_ok (mux_ok_auto when the reader has to find the page), however the data units are packed into PES packets,
   the reader returns exactly the cues the schedule denotes. *)
From Coq Require Import List ZArith NArith Bool Lia Permutation.
From Astisub Require Import Kit.Base Kit.Str Kit.GoMap Gen.TtxTables Model.TtxRow Model.Ttx Model.TtxSpec Model.TtxStd.
From Astisub Require Import Proofs.TtxTables Proofs.TtxStdProofs Proofs.TtxTotal Proofs.TtxRowProofs Proofs.TtxCodec Proofs.TtxSteps.
Import ListNotations.
Open Scope N_scope.

(* ---- the buffer run over a flat list of timed units ---- *)
Definition run_unit (b : pbuf) (e : tunit) : res pbuf := parse_unit (snd (snd e)) (fst (snd e)) (fst e) b.
Fixpoint run (b : pbuf) (evs : list tunit) : res pbuf :=
  match evs with [] => Ok b | e :: r => do b' <- run_unit b e; run b' r end.

Lemma run_app a c b : run b (a ++ c) = (do b' <- run b a; run b' c).
Proof. revert b. induction a as [|e r IH]; intros b; cbn [app run bind]; [reflexivity|]. destruct (run_unit b e); cbn [bind]; [apply IH | reflexivity | reflexivity]. Qed.
Lemma run_add d evs : forall b, run (add_done d b) evs = res_map (add_done d) (run b evs).
Proof.
  induction evs as [|e r IH]; intros b; cbn [run]; [reflexivity|].
  unfold run_unit. rewrite parse_unit_add. destruct (parse_unit _ _ _ b) as [b1| |]; cbn [res_map bind]; [apply IH | reflexivity | reflexivity].
Qed.
Lemma fold_units_run us t : forall b, fold_units us t b = run b (map (fun u => (t, u)) us).
Proof. induction us as [|[id i] r IH]; intros b; cbn [fold_units map run]; [reflexivity|]. unfold run_unit. cbn [fst snd]. destruct (parse_unit i id t b); cbn [bind]; [apply IH | reflexivity | reflexivity]. Qed.

Definition reset_done (b : pbuf) : pbuf := mkPbuf (pb_cd b) (pb_cur b) [] (pb_mag b) (pb_page b) (pb_recv b).

Lemma process_enc t ident us g b : (16 <=? ident) && (ident <=? 31) = true -> trail_ok g = true ->
  ttx_process (ident :: concat (map enc_unit us) ++ g) t b =
  (do b' <- run b (map (fun u => (t, u)) us); Ok (reset_done b', pb_done b')).
Proof. intros H Hg. unfold ttx_process. rewrite H, (units_enc_trail us g Hg), fold_units_run. reflexivity. Qed.

Lemma process_inert payload t b :
  match payload with [] => true | ident :: _ => negb ((16 <=? ident) && (ident <=? 31)) end = true ->
  ttx_process payload t b = Ok (b, []).
Proof. intros H. unfold ttx_process. destruct payload as [|ident rest]; [reflexivity|]. apply negb_true_iff in H. rewrite H. reflexivity. Qed.

(* feeding PES packets = running their units in order on the buffer whose done list also holds the pages already handed back *)
Lemma feed_run : forall peses f vb', forallb pes_ok peses = true -> pb_done (f_buf f) = [] ->
  run (add_done (f_pages f) (f_buf f)) (flat_map pes_units peses) = Ok vb' ->
  exists f', feed_all f (map enc_pes peses) = Ok f' /\ add_done (f_pages f') (f_buf f') = vb' /\ pb_done (f_buf f') = []
             /\ f_first f' = tmin peses (f_first f) /\ f_last f' = tmax peses (f_last f).
Proof.
  induction peses as [|p r IH]; intros f vb' Hok Hd Hrun.
  - cbn in Hrun. inversion Hrun; subst. exists f. split; [reflexivity|]. split; [reflexivity|]. split; [exact Hd|]. split; reflexivity.
  - cbn [forallb] in Hok. apply andb_true_iff in Hok. destruct Hok as [Hi Hr].
    destruct p as [t ident us g | payload | t payload].
    + cbn [pes_ok] in Hi. apply andb_true_iff in Hi. destruct Hi as [Hi Hg].
      cbn [flat_map pes_units] in Hrun. rewrite run_app in Hrun. rewrite run_add in Hrun.
      destruct (run (f_buf f) (map (fun u => (t, u)) us)) as [b1| |] eqn:E1; cbn [res_map bind] in Hrun; try discriminate.
      cbn [map enc_pes feed_all]. unfold feed_step. cbn [fst snd]. rewrite (process_enc t ident us g (f_buf f) Hi Hg). rewrite E1. cbn [bind fst snd].
      match goal with |- context [feed_all ?f1 _] => set (f1' := f1) end.
      assert (Hvb : add_done (f_pages f1') (f_buf f1') = add_done (f_pages f) b1).
      { subst f1'. unfold add_done, reset_done. cbn [f_pages f_buf pb_cd pb_cur pb_done pb_mag pb_page pb_recv]. rewrite app_nil_r. reflexivity. }
      destruct (IH f1' vb' Hr eq_refl ltac:(rewrite Hvb; exact Hrun)) as (f' & E & H1 & H2 & H3 & H4).
      exists f'. split; [exact E|]. split; [exact H1|]. split; [exact H2|]. split; [rewrite H3 | rewrite H4]; reflexivity.
    + cbn [flat_map pes_units app] in Hrun. cbn [map enc_pes feed_all]. unfold feed_step. cbn [fst snd bind].
      destruct (IH f vb' Hr Hd Hrun) as (f' & E & H1 & H2 & H3 & H4).
      exists f'. split; [exact E|]. split; [exact H1|]. split; [exact H2|]. split; [rewrite H3 | rewrite H4]; reflexivity.
    + cbn [pes_ok] in Hi. cbn [flat_map pes_units app] in Hrun. cbn [map enc_pes feed_all]. unfold feed_step. cbn [fst snd].
      rewrite (process_inert payload t (f_buf f) Hi). cbn [bind fst snd].
      match goal with |- context [feed_all ?f1 _] => set (f1' := f1) end.
      assert (Hvb : add_done (f_pages f1') (f_buf f1') = add_done (f_pages f) (f_buf f)).
      { subst f1'. cbn [f_pages f_buf]. rewrite app_nil_r. reflexivity. }
      destruct (IH f1' vb' Hr Hd ltac:(rewrite Hvb; exact Hrun)) as (f' & E & H1 & H2 & H3 & H4).
      exists f'. split; [exact E|]. split; [exact H1|]. split; [exact H2|]. split; [rewrite H3 | rewrite H4]; reflexivity.
Qed.

(* ---- schedules ---- *)
Definition row_data (r : N * rowspec) : N * list N := (fst r, row_cells (snd r)).
Definition add_rows (q : tpage) (rows : list (N * rowspec)) : tpage :=
  mkTpage (pg_cs q) (rev (map row_data rows) ++ pg_data q) (pg_rows q ++ map fst rows) (pg_start q) (pg_end q).
Definition page_of (i : inst) : tpage := add_rows (new_page (i_cs i) (i_t i)) (i_rows i).
Definition close (cur : option tpage) (t : Z) : list tpage := match cur with Some q => [page_with_end q t] | None => [] end.

Section Sched.
  Variables (mag0 : N) (pn0 : Z).
  Hypothesis mag0_nz : mag0 <> 0.

  Lemma sel cd cur done recv : selected mag0 pn0 (mkPbuf cd cur done mag0 pn0 recv).
  Proof. repeat split. exact mag0_nz. Qed.

  Definition body_desig (st : dstate) (body : list (Z * (bool * (N * str)))) : dstate :=
    fold_left (fun a x => desig_recv mag0 a (snd (snd x))) body st.
  Definition dead_desig (st : dstate) (dead : list tunit) : dstate :=
    fold_left (fun a x => desig_idle mag0 a (snd x)) dead st.

  Lemma body_run : forall body rows cd q done st, cdst cd st -> body_ok mag0 pn0 rows body = true ->
    exists cd', cdst cd' (body_desig st body) /\
    run (mkPbuf cd (Some q) done mag0 pn0 true) (map (fun x => (fst x, snd (snd x))) body)
    = Ok (mkPbuf cd' (Some (add_rows q rows)) done mag0 pn0 true).
  Proof.
    induction body as [|[t [[|] u]] r IH]; intros rows cd q done st Hcd Hok; cbn [body_ok] in Hok.
    - destruct rows; [|discriminate]. exists cd. split; [exact Hcd|]. cbn [map run]. unfold add_rows. cbn [map rev app]. rewrite app_nil_r. destruct q; reflexivity.
    - destruct rows as [|[row sp] rs]; [discriminate|]. apply andb_true_iff in Hok. destruct Hok as [Hrow Hr].
      cbn [map run]. unfold run_unit. cbn [fst snd].
      rewrite (row_step_ours mag0 pn0 row (row_cells sp) u t _ q (sel _ _ _ _) eq_refl eq_refl Hrow). cbn [bind pb_cd pb_done pb_mag pb_page].
      unfold body_desig. cbn [fold_left snd]. unfold desig_recv at 2. rewrite (row_no_desig _ _ _ _ Hrow). fold (body_desig st r).
      destruct (IH rs cd (mkTpage (pg_cs q) ((row, row_cells sp) :: pg_data q) (pg_rows q ++ [row]) (pg_start q) (pg_end q)) done st Hcd Hr) as (cd' & Hcd' & E). exists cd'. split; [exact Hcd'|]. rewrite E.
      unfold add_rows. cbn [pg_cs pg_data pg_rows pg_start pg_end map rev row_data fst snd].
      rewrite <- !app_assoc. reflexivity.
    - apply andb_true_iff in Hok. destruct Hok as [Hb Hr]. cbn [map run]. unfold run_unit. cbn [fst snd].
      unfold body_desig. cbn [fold_left snd].
      destruct (desig_ok mag0 u) eqn:Ed.
      + destruct (desig_step mag0 pn0 u t cd (Some q) done true st mag0_nz Hcd Ed) as (cd1 & Hcd1 & E1). rewrite E1. cbn [bind].
        apply IH; assumption.
      + rewrite orb_false_r in Hb. rewrite (benign_step mag0 pn0 u t _ (sel _ _ _ _) Hb). cbn [bind].
        unfold desig_recv at 2. rewrite Ed. apply IH; assumption.
  Qed.

  Lemma dead_run : forall dead cd cur done st, cdst cd st ->
    forallb (fun x : tunit => dead_ok mag0 pn0 (snd x) || desig_ok mag0 (snd x)) dead = true ->
    exists cd', cdst cd' (dead_desig st dead) /\ run (mkPbuf cd cur done mag0 pn0 false) dead = Ok (mkPbuf cd' cur done mag0 pn0 false).
  Proof.
    induction dead as [|[t u] r IH]; intros cd cur done st Hcd H; cbn [run]; [exists cd; split; [exact Hcd | reflexivity]|].
    cbn [forallb snd] in H. apply andb_true_iff in H. destruct H as [Hu Hr]. unfold run_unit. cbn [fst snd].
    unfold dead_desig. cbn [fold_left snd].
    destruct (dead_ok mag0 pn0 u) eqn:Ek.
    - rewrite (dead_step mag0 pn0 u t _ (sel _ _ _ _) eq_refl Ek). cbn [bind]. rewrite (dead_desig_idle mag0 pn0 st u Ek). apply IH; assumption.
    - cbn [orb] in Hu. destruct (desig_step mag0 pn0 u t cd cur done false st mag0_nz Hcd Hu) as (cd1 & Hcd1 & E1). rewrite E1. cbn [bind]. apply IH; assumption.
  Qed.

  Definition tail_events (m : imux) : list tunit := match im_tail m with Some (tm, dead) => tm :: dead | None => [] end.

  (* what follows the header of an instance *)
  Lemma after_header_run i m cd done st : cdst cd st -> inst_mux_ok mag0 pn0 (i, m) = true ->
    exists recv' cd', cdst cd' (desig_inst mag0 st m) /\
                  run (mkPbuf cd (Some (new_page (i_cs i) (i_t i))) done mag0 pn0 true)
                      (map (fun x => (fst x, snd (snd x))) (im_body m) ++ tail_events m)
                  = Ok (mkPbuf cd' (Some (page_of i)) done mag0 pn0 recv').
  Proof.
    intros Hcd Hok. unfold inst_mux_ok in Hok. repeat (apply andb_true_iff in Hok; destruct Hok as [Hok ?]).
    match goal with H : body_ok _ _ _ _ = true |- _ => rename H into Hbody end.
    match goal with H : match im_tail m with _ => _ end = true |- _ => rename H into Htail end.
    rewrite run_app. destruct (body_run _ _ cd (new_page (i_cs i) (i_t i)) done st Hcd Hbody) as (cd1 & Hcd1 & E1).
    rewrite E1. cbn [bind]. fold (page_of i).
    unfold tail_events, desig_inst. fold (body_desig st (im_body m)). destruct (im_tail m) as [[[tt tu] dead]|].
    - apply andb_true_iff in Htail. destruct Htail as [Ht Hd]. cbn [snd] in Ht. cbn [run]. unfold run_unit. cbn [fst snd].
      rewrite (term_step mag0 pn0 tu tt _ (sel _ _ _ _) eq_refl Ht). cbn [bind pb_cd pb_cur pb_done pb_mag pb_page].
      destruct (dead_run dead cd1 (Some (page_of i)) done _ Hcd1 Hd) as (cd2 & Hcd2 & E2).
      exists false, cd2. split; [exact Hcd2 | exact E2].
    - exists true, cd1. split; [exact Hcd1 | reflexivity].
  Qed.

  Lemma inst_run i m cd cur done recv st : cdst cd st -> inst_mux_ok mag0 pn0 (i, m) = true ->
    exists recv' cd', cdst cd' (desig_inst mag0 st m) /\
                  run (mkPbuf cd cur done mag0 pn0 recv) (inst_events (i, m))
                  = Ok (mkPbuf cd' (Some (page_of i)) (done ++ close cur (i_t i)) mag0 pn0 recv').
  Proof.
    intros Hcd Hok. pose proof Hok as Hok'. unfold inst_mux_ok in Hok'. repeat (apply andb_true_iff in Hok'; destruct Hok' as [Hok' ?]).
    unfold inst_events. cbn [run]. unfold run_unit. cbn [fst snd].
    rewrite (header_step mag0 pn0 (i_cs i) (im_hdr m) (i_t i) _ (sel _ _ _ _) Hok'). cbn [bind pb_cd pb_cur pb_done pb_mag pb_page].
    destruct (after_header_run i m cd (done ++ close cur (i_t i)) st Hcd Hok) as (recv' & cd' & Hcd' & E).
    exists recv', cd'. split; [exact Hcd'|]. unfold tail_events in E. rewrite <- E. f_equal. f_equal. destruct cur; cbn [close]; [reflexivity | rewrite app_nil_r; reflexivity].
  Qed.

  Fixpoint closed (cur : option tpage) (l : list inst) : list tpage :=
    match l with [] => [] | i :: r => close cur (i_t i) ++ closed (Some (page_of i)) r end.
  Fixpoint final_cur (cur : option tpage) (l : list inst) : option tpage :=
    match l with [] => cur | i :: r => final_cur (Some (page_of i)) r end.

  Lemma insts_run : forall ims cd cur done recv st, cdst cd st -> forallb (inst_mux_ok mag0 pn0) ims = true ->
    exists recv' cd', cdst cd' (fold_left (desig_inst mag0) (map snd ims) st) /\
                  run (mkPbuf cd cur done mag0 pn0 recv) (flat_map inst_events ims)
                  = Ok (mkPbuf cd' (final_cur cur (map fst ims)) (done ++ closed cur (map fst ims)) mag0 pn0 recv').
  Proof.
    induction ims as [|[i m] r IH]; intros cd cur done recv st Hcd H.
    - exists recv, cd. split; [exact Hcd|]. cbn. rewrite app_nil_r. reflexivity.
    - cbn [forallb] in H. apply andb_true_iff in H. destruct H as [Hi Hr].
      cbn [flat_map]. rewrite run_app. destruct (inst_run i m cd cur done recv st Hcd Hi) as (r1 & cd1 & Hcd1 & E1). rewrite E1. cbn [bind].
      destruct (IH cd1 (Some (page_of i)) (done ++ close cur (i_t i)) r1 _ Hcd1 Hr) as (r2 & cd2 & Hcd2 & E2). exists r2, cd2. split; [exact Hcd2|]. rewrite E2.
      cbn [map fst final_cur closed]. rewrite <- app_assoc. reflexivity.
  Qed.
End Sched.

Definition nxt (l : list inst) (last : Z) : Z := match l with j :: _ => i_t j | [] => last end.
Fixpoint pages_from (l : list inst) (last : Z) : list tpage :=
  match l with [] => [] | i :: r => page_with_end (page_of i) (nxt r last) :: pages_from r last end.

Lemma pages_eq : forall l cur last, closed cur l ++ close (final_cur cur l) last = close cur (nxt l last) ++ pages_from l last.
Proof.
  induction l as [|i r IH]; intros cur last; cbn [closed final_cur pages_from nxt].
  - rewrite app_nil_r. reflexivity.
  - rewrite <- app_assoc. rewrite IH. reflexivity.
Qed.

(* ---- the pages of a schedule are parsed into its cues ---- *)
Definition cd_triplet (d : cdec) : N :=
  match cd_x28 d with Some t => t | None => match cd_m29 d with Some t => t | None => 0 end end.
Definition cdinv (tr : N) (d : cdec) : Prop :=
  cd_triplet d = tr /\ length (cd_c d) = 96%nat
  /\ match cd_last d with Some l => cd_c d = g_table tr l | None => True end.

Lemma g_table_ok tr cs : charset_for tr cs = Ok (g_table tr cs) /\ length (g_table tr cs) = 96%nat.
Proof.
  unfold g_table. destruct (charset_for_total tr cs) as (c & E & L).
  destruct (std_text_table (triplet_key tr) cs) as [t|] eqn:S.
  - rewrite (std_text_table_is_code tr cs t S) in E. inversion E; subst. split; [apply std_text_table_is_code; exact S | exact L].
  - rewrite E. split; [reflexivity | exact L].
Qed.

Lemma cdst_cdinv d st : cdst d st -> cdinv (dstate_triplet st) d.
Proof.
  intros (Hl & Hx & Hm & Hc). split; [unfold cd_triplet, dstate_triplet; rewrite Hx, Hm; reflexivity|].
  split; [rewrite Hc; reflexivity | rewrite Hl; exact I].
Qed.

Lemma update_charset_inv tr d cs : cdinv tr d ->
  exists d', update_charset d (Some cs) false = Ok d' /\ cdinv tr d' /\ cd_c d' = g_table tr cs.
Proof.
  intros (Ht & Hl & Hc). unfold update_charset. cbn [negb andb]. rewrite andb_true_r.
  assert (Hnew : exists d', (do c <- charset_for (match cd_x28 d with Some t => t | None => match cd_m29 d with Some t => t | None => 0 end end) cs;
                            Ok (mkCdec c (Some cs) (cd_m29 d) (cd_x28 d))) = Ok d' /\ cdinv tr d' /\ cd_c d' = g_table tr cs).
  { fold (cd_triplet d). rewrite Ht. destruct (g_table_ok tr cs) as [E Len]. rewrite E. cbn [bind]. eexists. split; [reflexivity|].
    split; [|reflexivity]. split; [exact Ht|]. split; [exact Len | reflexivity]. }
  destruct (cd_last d) as [l|] eqn:L.
  - destruct (N.eqb_spec cs l) as [->|Hne]; [|exact Hnew].
    exists d. split; [reflexivity|]. split; [|exact Hc]. split; [exact Ht|]. split; [exact Hl | rewrite L; exact Hc].
  - exact Hnew.
Qed.

Lemma alookup_app {V} k (a b : list (N * V)) :
  alookup k (a ++ b) = match alookup k a with Some v => Some v | None => alookup k b end.
Proof. induction a as [|[k' v] r IH]; cbn [app alookup]; [reflexivity|]. destruct (k =? k'); [reflexivity | exact IH]. Qed.
Lemma alookup_none {V} k (m : list (N * V)) : ~ In k (map fst m) -> alookup k m = None.
Proof.
  induction m as [|[k' v] r IH]; intros H; cbn [alookup]; [reflexivity|]. cbn [map fst In] in H.
  destruct (N.eqb_spec k k') as [->|Hne]; [exfalso; apply H; left; reflexivity|]. apply IH. intros Hin. apply H. right. exact Hin.
Qed.
Lemma nmem_in k l : nmem k l = true <-> In k l.
Proof.
  unfold nmem. rewrite existsb_exists. split.
  - intros (x & Hx & E). apply N.eqb_eq in E. subst. exact Hx.
  - intros H. exists k. split; [exact H | apply N.eqb_refl].
Qed.
Lemma alookup_rev_nodup {V} (l : list (N * V)) k : nodupN (map fst l) = true -> alookup k (rev l) = alookup k l.
Proof.
  induction l as [|[k' v] r IH]; intros H; [reflexivity|].
  cbn [map fst nodupN] in H. apply andb_true_iff in H. destruct H as [Hn Hr]. apply negb_true_iff in Hn.
  cbn [rev]. rewrite alookup_app. rewrite (IH Hr). cbn [alookup].
  destruct (N.eqb_spec k k') as [->|Hne].
  - rewrite alookup_none; [reflexivity|]. intros Hin. apply nmem_in in Hin. congruence.
  - destruct (alookup k r); reflexivity.
Qed.
Lemma alookup_row_data rows k : alookup k (map row_data rows) = option_map row_cells (alookup k rows).
Proof.
  induction rows as [|[k' sp] r IH]; [reflexivity|]. cbn [map row_data fst snd alookup]. destruct (k =? k'); [reflexivity | exact IH].
Qed.

Section Lines.
  Variable c : list str.
  Hypothesis c_len : length c = 96%nat.
  Variable rows : list (N * rowspec).
  Hypothesis rows_ok : forallb (fun r => rowspec_ok (snd r) && (fst r <? 256)) rows = true.
  Hypothesis rows_nodup : nodupN (map fst rows) = true.

  Lemma lookup_ok k sp : alookup k rows = Some sp -> rowspec_ok sp = true /\ k < 256.
  Proof.
    intros H. apply alookup_in in H. rewrite forallb_forall in rows_ok. specialize (rows_ok _ H). cbn [fst snd] in rows_ok.
    apply andb_true_iff in rows_ok. destruct rows_ok as [H1 H2]. apply N.ltb_lt in H2. split; assumption.
  Qed.
  Lemma land255 k : k < 256 -> N.land k 255 = k.
  Proof. intros H. change 255 with (N.ones 8). rewrite N.land_ones. apply N.mod_small. exact H. Qed.

  Lemma parse_rows_lines keys : (forall k, In k keys -> In k (map fst rows)) ->
    parse_rows c (rev (map row_data rows) ++ []) keys = Ok (lines_for c rows keys).
  Proof.
    induction keys as [|k r IH]; intros Hin; cbn [parse_rows lines_for]; [reflexivity|].
    assert (Hk : In k (map fst rows)) by (apply Hin; left; reflexivity).
    apply in_map_iff in Hk. destruct Hk as ([k' sp'] & Ek & Hk). cbn [fst] in Ek. subst k'.
    assert (Hlt : k < 256).
    { rewrite forallb_forall in rows_ok. specialize (rows_ok _ Hk). cbn [fst snd] in rows_ok. apply andb_true_iff in rows_ok.
      destruct rows_ok as [_ H2]. apply N.ltb_lt in H2. exact H2. }
    rewrite (land255 k Hlt). rewrite app_nil_r. rewrite alookup_rev_nodup by (rewrite map_map; cbn [row_data fst]; exact rows_nodup).
    rewrite alookup_row_data.
    rewrite app_nil_r in IH. rewrite (IH ltac:(intros k0 H0; apply Hin; right; exact H0)). 
    destruct (alookup k rows) as [sp|] eqn:A; cbn [option_map].
    - destruct (lookup_ok k sp A) as [Hsp _]. rewrite (parse_row_encoded c c_len sp Hsp). cbn [bind]. destruct (row_runs c sp); reflexivity.
    - unfold ttx_parse_row, parse_row. cbn. reflexivity.
  Qed.
End Lines.

Definition inst_ok (i : inst) : bool :=
  nodupN (map fst (i_rows i)) && forallb (fun r => rowspec_ok (snd r) && (fst r <? 256)) (i_rows i).

Lemma nsort_in k l : In k (nsort l) -> In k l.
Proof. intros H. eapply Permutation_in; [apply Permutation_sym, nsort_perm | exact H]. Qed.

Lemma page_parse_inst tr d first i en : cdinv tr d -> inst_ok i = true ->
  exists d', page_parse d first (page_with_end (page_of i) en) = Ok (d',
               match i_rows i with [] => None
               | _ => Some (mkTcue (i_t i - first) (en - first) (inst_lines (g_table tr (i_cs i)) (i_rows i))) end)
             /\ cdinv tr d'.
Proof.
  intros Hd Hok. unfold inst_ok in Hok. apply andb_true_iff in Hok. destruct Hok as [Hnd Hrows].
  unfold page_parse. cbn [page_with_end page_of add_rows new_page pg_cs pg_data pg_rows pg_start pg_end].
  destruct (update_charset_inv tr d (i_cs i) Hd) as (d' & E & Hd' & Hc). rewrite E. cbn [bind].
  destruct (i_rows i) as [|r0 rs] eqn:R.
  - cbn. exists d'. split; [reflexivity | exact Hd'].
  - rewrite <- R in *. 
    assert (Hne : rev (map row_data (i_rows i)) ++ [] <> []).
    { rewrite R. cbn [map rev]. intros H. apply app_eq_nil in H. destruct H as [H _]. apply app_eq_nil in H. destruct H as [_ H]. discriminate. }
    destruct (rev (map row_data (i_rows i)) ++ []) as [|x xs] eqn:D; [contradiction|]. rewrite <- D.
    rewrite Hc. cbn [app]. 
    destruct (g_table_ok tr (i_cs i)) as [_ Len].
    rewrite (parse_rows_lines (g_table tr (i_cs i)) Len (i_rows i) Hrows Hnd (nsort (map fst (i_rows i)))
               ltac:(intros k Hk; apply nsort_in in Hk; exact Hk)).
    cbn [bind app]. exists d'. split; [|exact Hd']. reflexivity.
Qed.

Lemma parse_pages_sched tr first last : forall l d, cdinv tr d -> forallb inst_ok l = true ->
  parse_pages d first (pages_from l last) = Ok (cues_from tr first last l).
Proof.
  induction l as [|i r IH]; intros d Hd Hok; [reflexivity|].
  cbn [forallb] in Hok. apply andb_true_iff in Hok. destruct Hok as [Hi Hr].
  cbn [pages_from parse_pages cues_from].
  destruct (page_parse_inst tr d first i (nxt r last) Hd Hi) as (d' & E & Hd'). rewrite E. cbn [bind fst snd].
  rewrite (IH d' Hd' Hr). cbn [bind]. unfold nxt. destruct (i_rows i); reflexivity.
Qed.

(* ---- assembling ---- *)
Lemma map_fst_combine {A B} (a : list A) : forall (b : list B), length a = length b -> map fst (combine a b) = a.
Proof. induction a as [|x r IH]; intros [|y s] H; cbn in *; try reflexivity; try discriminate. f_equal. apply IH. lia. Qed.

Lemma inst_mux_inst_ok mag0 pn0 ims : forallb (inst_mux_ok mag0 pn0) ims = true -> forallb inst_ok (map fst ims) = true.
Proof.
  induction ims as [|[i m] r IH]; intros H; [reflexivity|]. cbn [forallb map fst] in *. apply andb_true_iff in H. destruct H as [Hi Hr].
  rewrite (IH Hr), andb_true_r. unfold inst_mux_ok in Hi. repeat (apply andb_true_iff in Hi; destruct Hi as [Hi ?]).
  unfold inst_ok. apply andb_true_iff. split; assumption.
Qed.

Lemma new_pbuf_page mag0 pn0 : 1 <= mag0 <= 8 -> (0 <= pn0 <= 99)%Z ->
  new_pbuf (Z.of_N mag0 * 100 + pn0) = mkPbuf cdec0 None [] mag0 pn0 false.
Proof.
  intros Hm Hp. unfold new_pbuf.
  assert (Hq : Z.quot (Z.of_N mag0 * 100 + pn0) 100 = Z.of_N mag0 /\ Z.rem (Z.of_N mag0 * 100 + pn0) 100 = pn0).
  { rewrite Z.quot_div_nonneg by lia. rewrite Z.rem_mod_nonneg by lia.
    rewrite (Z.add_comm), Z.div_add by lia. rewrite Z.mod_add by lia. rewrite Z.div_small, Z.mod_small by lia. split; lia. }
  destruct Hq as [Hq Hr]. rewrite Hq, Hr. rewrite Z.mod_small by lia. rewrite N2Z.id. reflexivity.
Qed.

Lemma cdst0 : cdst cdec0 (None, None).
Proof. repeat split. Qed.

Lemma map_snd_combine {A B} (a : list A) : forall (b : list B), length a = length b -> map snd (combine a b) = b.
Proof. induction a as [|x r IH]; intros [|y s] H; cbn in *; try reflexivity; try discriminate. f_equal. apply IH. lia. Qed.

(* the end of ttx_feed, from the state of the run *)
Lemma finish cd mag0 pn0 recv f' cur done :
  add_done (f_pages f') (f_buf f') = mkPbuf cd cur done mag0 pn0 recv -> pb_done (f_buf f') = [] ->
  f_pages f' ++ close (pb_cur (f_buf f')) (zero_or (f_last f')) = done ++ close cur (zero_or (f_last f')) /\ pb_cd (f_buf f') = cd.
Proof.
  intros H Hd. unfold add_done in H. inversion H; subst. rewrite Hd, app_nil_r. split; reflexivity.
Qed.

Theorem stream_given_page : forall (s : sched) (m : mux) (peses : list pes),
  mux_ok s m = true -> forallb pes_ok peses = true -> flat_map pes_units peses = events s m ->
  ttx_feed (Z.of_N (s_mag s) * 100 + s_pn s) (map enc_pes peses)
  = Ok (cues_of s (zero_or (tmin peses None)) (zero_or (tmax peses None)) (desig_final false (s_mag s) m)).
Proof.
  intros s m peses Hok Hpes Hflat. unfold mux_ok in Hok. repeat (apply andb_true_iff in Hok; destruct Hok as [Hok ?]).
  match goal with H : forallb (inst_mux_ok _ _) _ = true |- _ => rename H into Hinsts end.
  match goal with H : forallb (fun x => dead_ok _ _ _ || _) _ = true |- _ => rename H into Hpre end.
  match goal with H : Nat.eqb _ _ = true |- _ => apply Nat.eqb_eq in H; rename H into Hlen end.
  repeat match goal with H : (_ <=? _) = true |- _ => apply N.leb_le in H end.
  repeat match goal with H : (_ <=? _)%Z = true |- _ => apply Z.leb_le in H end.
  assert (Hnz : s_mag s <> 0) by lia.
  unfold ttx_feed. rewrite new_pbuf_page by lia.
  (* the run over the events *)
  destruct (dead_run (s_mag s) (s_pn s) Hnz (mx_pre m) cdec0 None [] _ cdst0 Hpre) as (cd0 & Hcd0 & Epre).
  destruct (insts_run (s_mag s) (s_pn s) Hnz (combine (s_insts s) (mx_insts m)) cd0 None [] false _ Hcd0 Hinsts) as (recv' & cd1 & Hcd1 & Erun).
  rewrite (map_fst_combine _ _ Hlen) in Erun. rewrite (map_snd_combine _ _ Hlen) in Hcd1.
  assert (Hrun : run (add_done [] (mkPbuf cdec0 None [] (s_mag s) (s_pn s) false)) (flat_map pes_units peses)
                 = Ok (mkPbuf cd1 (final_cur None (s_insts s)) ([] ++ closed None (s_insts s)) (s_mag s) (s_pn s) recv')).
  { rewrite Hflat. unfold events. rewrite run_app. unfold add_done. cbn [pb_cd pb_cur pb_done pb_mag pb_page pb_recv app].
    rewrite Epre. cbn [bind]. exact Erun. }
  destruct (feed_run peses (mkFeed (mkPbuf cdec0 None [] (s_mag s) (s_pn s) false) None None []) _ Hpes eq_refl Hrun)
    as (f' & Efeed & Hvb & Hdone & Hfirst & Hlast).
  rewrite Efeed. cbn [bind].
  destruct (finish _ _ _ _ f' _ _ Hvb Hdone) as [Hpages Hcd].
  cbn [f_first f_last] in Hfirst, Hlast.
  replace (match pb_cur (f_buf f') with Some p => [page_with_end p (zero_or (f_last f'))] | None => [] end)
    with (close (pb_cur (f_buf f')) (zero_or (f_last f'))) by reflexivity.
  rewrite Hpages, Hcd. cbn [app]. rewrite pages_eq. cbn [close app]. rewrite Hfirst, Hlast.
  unfold cues_of. apply parse_pages_sched; [exact (cdst_cdinv _ _ Hcd1)|].
  rewrite <- (map_fst_combine (s_insts s) (mx_insts m) Hlen). apply (inst_mux_inst_ok _ _ _ Hinsts).
Qed.

(* ---- the reader has to find the page (option Page = 0) ---- *)
Lemma inst_events_eq i m : inst_events (i, m) = (i_t i, im_hdr m) :: (map (fun x => (fst x, snd (snd x))) (im_body m) ++ tail_events m).
Proof. reflexivity. Qed.

Lemma unselected_run : forall pre b, unselected b -> forallb (fun x : tunit => unselected_ok (snd x)) pre = true -> run b pre = Ok b.
Proof.
  induction pre as [|[t u] r IH]; intros b Hb H; cbn [run]; [reflexivity|].
  cbn [forallb snd] in H. apply andb_true_iff in H. destruct H as [Hu Hr]. unfold run_unit. cbn [fst snd].
  rewrite (unselected_step u t b Hb Hu). cbn [bind]. apply IH; assumption.
Qed.

Theorem stream_auto_page : forall (s : sched) (m : mux) (peses : list pes),
  mux_ok_auto s m = true -> forallb pes_ok peses = true -> flat_map pes_units peses = events s m ->
  ttx_feed 0 (map enc_pes peses)
  = Ok (cues_of s (zero_or (tmin peses None)) (zero_or (tmax peses None)) (desig_final true (s_mag s) m)).
Proof.
  intros s m peses Hok Hpes Hflat. unfold mux_ok_auto in Hok. repeat (apply andb_true_iff in Hok; destruct Hok as [Hok ?]).
  match goal with H : forallb (inst_mux_ok _ _) _ = true |- _ => rename H into Hinsts end.
  match goal with H : forallb (fun x => unselected_ok _) _ = true |- _ => rename H into Hpre end.
  match goal with H : Nat.eqb _ _ = true |- _ => apply Nat.eqb_eq in H; rename H into Hlen end.
  match goal with H : match mx_insts m with _ => _ end = true |- _ => rename H into Hfirst end.
  repeat match goal with H : (_ <=? _) = true |- _ => apply N.leb_le in H end.
  repeat match goal with H : (_ <=? _)%Z = true |- _ => apply Z.leb_le in H end.
  assert (Hnz : s_mag s <> 0) by lia.
  unfold ttx_feed. change (new_pbuf 0) with (mkPbuf cdec0 None [] 0 0%Z false).
  set (b0 := mkPbuf cdec0 None [] 0 0%Z false).
  assert (Hun : unselected b0) by (repeat split).
  assert (Hrun : exists recv' cd1, cdst cd1 (fold_left (desig_inst (s_mag s)) (mx_insts m) (None, None)) /\ run (add_done [] b0) (flat_map pes_units peses)
                 = Ok (mkPbuf cd1 (final_cur None (s_insts s)) ([] ++ closed None (s_insts s))
                              (match s_insts s with [] => 0 | _ => s_mag s end) (match s_insts s with [] => 0%Z | _ => s_pn s end) recv')).
  { rewrite Hflat. unfold events. rewrite run_app. change (add_done [] b0) with b0.
    rewrite (unselected_run _ b0 Hun Hpre). cbn [bind].
    destruct (s_insts s) as [|i r] eqn:Si; destruct (mx_insts m) as [|im ims] eqn:Mi; cbn [length] in Hlen; try discriminate.
    - exists false, cdec0. split; [exact cdst0 | reflexivity].
    - cbn [combine flat_map forallb] in *. apply andb_true_iff in Hinsts. destruct Hinsts as [Hi Hr].
      pose proof Hi as Hi'. unfold inst_mux_ok in Hi'. repeat (apply andb_true_iff in Hi'; destruct Hi' as [Hi' ?]).
      pose proof Hi' as Hh. unfold is_our_header in Hh.
      destruct (unit_addr (im_hdr im)) as [[[mg pk] p]|] eqn:A; [|discriminate].
      apply andb_true_iff in Hh. destruct Hh as [Hh _]. apply andb_true_iff in Hh. destruct Hh as [Emg Epk].
      apply N.eqb_eq in Emg. apply N.eqb_eq in Epk. subst mg pk.
      destruct (hdr_c6 p) as [[|]|] eqn:C6; try discriminate.
      rewrite run_app. rewrite inst_events_eq. cbn [run]. unfold run_unit. cbn [fst snd].
      rewrite (select_step (s_mag s) (s_pn s) (i_cs i) (im_hdr im) (i_t i) b0 p Hun eq_refl Hi' A C6). cbn [bind pb_cd pb_done].
      destruct (after_header_run (s_mag s) (s_pn s) Hnz i im cdec0 [] _ cdst0 Hi) as (r1 & c1 & Hc1 & E1).
      destruct (insts_run (s_mag s) (s_pn s) Hnz (combine r ims) c1 (Some (page_of i)) [] r1 _ Hc1 Hr) as (r2 & c2 & Hc2 & E2).
      rewrite (map_snd_combine r ims ltac:(lia)) in Hc2.
      subst b0. cbn [pb_cd pb_done]. exists r2, c2. split; [exact Hc2|]. rewrite E1. cbn [bind].
      rewrite E2. rewrite (map_fst_combine r ims ltac:(lia)). reflexivity. }
  destruct Hrun as (recv' & cd1 & Hcd1 & Hrun).
  destruct (feed_run peses (mkFeed b0 None None []) _ Hpes eq_refl Hrun) as (f' & Efeed & Hvb & Hdone & Hf & Hl).
  rewrite Efeed. cbn [bind].
  destruct (finish _ _ _ _ f' _ _ Hvb Hdone) as [Hpages Hcd].
  cbn [f_first f_last] in Hf, Hl.
  replace (match pb_cur (f_buf f') with Some p => [page_with_end p (zero_or (f_last f'))] | None => [] end)
    with (close (pb_cur (f_buf f')) (zero_or (f_last f'))) by reflexivity.
  rewrite Hpages, Hcd. cbn [app]. rewrite pages_eq. cbn [close app]. rewrite Hf, Hl.
  unfold cues_of. apply parse_pages_sched; [exact (cdst_cdinv _ _ Hcd1)|].
  rewrite <- (map_fst_combine (s_insts s) (mx_insts m) Hlen). apply (inst_mux_inst_ok _ _ _ Hinsts).
Qed.
