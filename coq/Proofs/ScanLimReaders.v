(* The line-based readers on top of the capacity-aware scanner: within the bound they are the one-shot readers for every
   schedule (C17 holds exactly); an over-long line makes every one of them return an error, never a shorter cue list
   (C18). *)
From Coq Require Import List NArith Bool Arith Lia.
From Astisub Require Import Kit.Base Kit.Scan Kit.ScanLim Proofs.ScanProofs Proofs.ScanLimProofs.
From Astisub Require Import Model.Srt Model.Vtt Model.Ssa Proofs.SrtIOProofs Proofs.VttIOProofs Proofs.SsaIOProofs.
Import ListNotations.

Section Readers.
Variable max : nat.
Variable data : str.
Variable counts : list nat.
Let toks := fst (scan_lim max data counts).
Let flag := snd (scan_lim max data counts).

(* every line at least two bytes shorter than the buffer: the readers do not see the capacity *)
Theorem read_lim_within : (0 < max)%nat -> Forall (fun l => (length l + 2 <= max)%nat) (lines data) ->
  read_srt_lines toks flag = read_srt data /\ read_vtt_lines toks flag = read_vtt data /\ read_ssa_lines toks flag = read_ssa data.
Proof.
  intros Hmax H. unfold toks, flag. rewrite (scan_lim_short_lines max data counts Hmax H). cbn [fst snd].
  unfold read_srt, read_vtt, read_ssa. repeat split.
Qed.

(* the exact condition ([lim_fits]: every line's look-ahead within the buffer, the last line strictly shorter) *)
Theorem read_lim_fits : (0 < max)%nat -> lim_fits max data ->
  read_srt_lines toks flag = read_srt data /\ read_vtt_lines toks flag = read_vtt data /\ read_ssa_lines toks flag = read_ssa data.
Proof.
  intros Hmax H. unfold toks, flag. rewrite (scan_lim_fits max data counts Hmax H). cbn [fst snd].
  unfold read_srt, read_vtt, read_ssa. repeat split.
Qed.

(* a line that cannot be buffered: every reader returns an error *)
Theorem read_lim_overlong j : lim_overlong max data j ->
  (exists e, read_srt_lines toks flag = Err e) /\ (exists e, read_vtt_lines toks flag = Err e) /\
  (exists e, read_ssa_lines toks flag = Err e).
Proof.
  intros H. unfold toks, flag. rewrite (scan_lim_overlong max data counts j H). cbn [fst snd].
  split; [apply read_srt_fault | split; [apply read_vtt_fault | apply read_ssa_fault]].
Qed.

Theorem read_lim_too_long : Exists (fun l => (max < length l)%nat) (lines data) ->
  (exists e, read_srt_lines toks flag = Err e) /\ (exists e, read_vtt_lines toks flag = Err e) /\
  (exists e, read_ssa_lines toks flag = Err e).
Proof.
  intros H. destruct (overlong_of_lengths max (S (length data)) data ltac:(lia) H) as (j & Hj).
  exact (read_lim_overlong j Hj).
Qed.

(* whatever the input and the schedule (the boundary lengths included): a reader that returns cues was given every line
   of the document, and what it returns is the one-shot result - success is never a truncation at the buffer limit *)
Theorem read_lim_success_complete :
  (forall l, read_srt_lines toks flag = Ok l -> flag = false /\ read_srt data = Ok l) /\
  (forall d, read_vtt_lines toks flag = Ok d -> flag = false /\ read_vtt data = Ok d) /\
  (forall d, read_ssa_lines toks flag = Ok d -> flag = false /\ read_ssa data = Ok d).
Proof.
  destruct (scan_lim_sound max data counts) as (A & _). fold toks flag in A.
  destruct flag eqn:E.
  - split; [|split]; intros x Hx; exfalso.
    + destruct (read_srt_fault toks) as (q & Eq); congruence.
    + destruct (read_vtt_fault toks) as (q & Eq); congruence.
    + destruct (read_ssa_fault toks) as (q & Eq); congruence.
  - specialize (A eq_refl). unfold read_srt, read_vtt, read_ssa. rewrite <- A.
    split; [|split]; intros x Hx; (split; [reflexivity | exact Hx]).
Qed.
End Readers.
