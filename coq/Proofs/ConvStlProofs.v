(* C07, styled conversions into EBU STL (Model/ConvStl.v): for the cue lists the SubRip, WebVTT, SSA/ASS and TTML readers
   produce, the conversion succeeds and the STL file reads back with the same cues in the same order, times truncated to
   the 40 ms frame, and per line the same text ONCE BLANKS ARE DISREGARDED: the STL writer joins the line items of a line
   with a blank, so a line of runs "Hello" "world" is written and read back as "Hello world" where the plain view of the
   source has "Helloworld" (the comparison C07 states: text with white space removed).
   Route: none of the source readers sets an STL attribute, so every run is unstyled, and the bytes written for a line
   of unstyled runs are the bytes written for ONE run holding the runs' texts joined by blanks (written_runs_joined);
   the plain instance of the STL codec (Proofs/PlainStlProofs.v), generalised to the metadata that travels
   (stl_plain_faithful_md), then gives the read-back. *)
From Coq Require Import List ZArith NArith Bool Lia ZifyBool ZifyN ZifyNat.
From Astisub Require Import Kit.Base Kit.Str Kit.Utf8 Kit.Scan Model.Dur Model.Plain Model.Srt Model.Vtt Model.Conv Model.Ssa Model.PlainSsa
  Model.Ttml Model.PlainTtml Model.Stl Model.PlainStl Model.ConvStl Gen.StlTables
  Proofs.DurProofs Proofs.PlainProofs Proofs.StlBlocks Proofs.StlCodec Proofs.StlTti Proofs.StlGsi Proofs.StlRows Proofs.StlRowsTtx
  Proofs.StlDoc Proofs.StlWriteRead Proofs.PlainStlProofs.
Import ListNotations.
Open Scope Z_scope.

(* ================= the metadata that travels ================= *)
(* no programme start, no display standard (the writer keeps "1"), a frame rate other than 30 (the file is then a 25 fps
   file, unit 40 ms; a frame rate of 30 gives a 30 fps file, covered by C05_write_read_teletext but not by this unit) *)
Definition md_plain (md : option wmeta) : Prop :=
  match md with None => True | Some m => wm_tcp m = 0 /\ wm_dsc m = [] /\ wm_fps m <> 30 end.

Lemma md_gsi_fields now md items : md_plain md ->
  g_fps (new_gsi now md items) = 25 /\ g_dsc (new_gsi now md items) = stl_s_dscLevel1 /\ g_tcp (new_gsi now md items) = 0.
Proof.
  destruct md as [m|]; [|intros _; repeat split]. intros (Ht & Hd & Hf). unfold new_gsi. cbn [g_fps g_dsc g_tcp]. rewrite Ht, Hd.
  split; [|split; reflexivity]. unfold stl_framerate_inv, zlookup, o_some.
  destruct (wm_fps m =? 25) eqn:E25; [apply Z.eqb_eq in E25; exact E25|]. destruct (wm_fps m =? 30) eqn:E30; [apply Z.eqb_eq in E30; contradiction | reflexivity].
Qed.

Lemma gsi_bytes_trunc_md md p : md_plain md -> Forall stl_cue_ok p ->
  gsi_bytes (new_gsi stl_plain_now md (stl_of_plain (ptrunc 40000000 p))) = gsi_bytes (new_gsi stl_plain_now md (stl_of_plain p)).
Proof.
  intros Hm H.
  assert (L : length (stl_of_plain (ptrunc 40000000 p)) = length (stl_of_plain p)) by (unfold stl_of_plain; rewrite !map_length; apply ptrunc_length).
  assert (T : match md with Some m => wm_tcp m | None => 0 end = 0) by (destruct md as [m|]; [exact (proj1 Hm) | reflexivity]).
  unfold new_gsi. rewrite L, T. destruct p as [|[[s e] ls] r]; [reflexivity|]. inversion H as [|? ? Hc Hr]; subst. destruct Hc as (Hs & _).
  cbn [ptrunc map stl_of_plain wi_st]. rewrite !Z.add_0_r.
  assert (F : forall g1 g2 : gsi, g_fps g1 = 25 -> g_fps g2 = 25 ->
            g_tcf g2 = trunc_to 40000000 (g_tcf g1) -> 0 <= g_tcf g1 ->
            (g_cct g1, g_cpn g1, g_co g1, g_cd g1, g_dsn g1, g_dsc g1, g_ecd g1, g_en g1, g_lc g1, g_mnc g1, g_mnr g1, g_oet g1, g_opt g1, g_pub g1, g_rd g1, g_rn g1, g_slr g1, g_tcp g1, g_tcs g1, g_tnd g1, g_tng g1, g_tns g1, g_tnb g1, g_tet g1, g_tpt g1, g_tcd g1, g_tn g1) =
            (g_cct g2, g_cpn g2, g_co g2, g_cd g2, g_dsn g2, g_dsc g2, g_ecd g2, g_en g2, g_lc g2, g_mnc g2, g_mnr g2, g_oet g2, g_opt g2, g_pub g2, g_rd g2, g_rn g2, g_slr g2, g_tcp g2, g_tcs g2, g_tnd g2, g_tng g2, g_tns g2, g_tnb g2, g_tet g2, g_tpt g2, g_tcd g2, g_tn g2) ->
            gsi_bytes g2 = gsi_bytes g1).
  { intros g1 g2 F1 F2 Htcf Hpos E. inversion E. unfold gsi_bytes. rewrite F1, F2, Htcf, (format_stl_trunc _ Hpos).
    repeat match goal with H : _ = _ |- _ => rewrite <- H; clear H end. reflexivity. }
  destruct md as [m|].
  - destruct Hm as (Ht & Hd & Hf).
    pose proof (md_gsi_fields stl_plain_now (Some m) [] (conj Ht (conj Hd Hf))) as (F25 & _ & _). unfold new_gsi in F25. cbn [g_fps] in F25.
    apply F; cbn [g_fps g_tcf]; try exact F25; try reflexivity; lia.
  - apply F; cbn [g_fps g_tcf]; try reflexivity; lia.
Qed.

Lemma written_trunc_md md p : md_plain md -> Forall stl_cue_ok p ->
  written stl_plain_now md (stl_of_plain (ptrunc 40000000 p)) = written stl_plain_now md (stl_of_plain p).
Proof.
  intros Hm H. unfold written. rewrite (gsi_bytes_trunc_md md p Hm H).
  destruct (md_gsi_fields stl_plain_now md (stl_of_plain p) Hm) as (F1 & D1 & T1).
  destruct (md_gsi_fields stl_plain_now md (stl_of_plain (ptrunc 40000000 p)) Hm) as (F2 & D2 & T2).
  rewrite F1, D1, T1, F2, D2, T2. rewrite (tti_blocks_trunc p 1 H). reflexivity.
Qed.

(* the plain instance of the STL codec for a cue list that carries such metadata: the metadata that travels must fit the
   GSI block (title within 32 characters without white space at its ends, ...): gsi_repr, decidable (gsi_reprb) *)
Definition stl_conv_ok (md : option wmeta) (p : plain) : Prop :=
  stl_plain_ok p /\ md_plain md /\ gsi_repr (new_gsi stl_plain_now md (stl_of_plain (ptrunc 40000000 p))).

Lemma plain_doc_repr_md md p : stl_conv_ok md p -> doc_repr_ttx stl_plain_now md (stl_of_plain (ptrunc 40000000 p)).
Proof.
  intros (Hok & Hm & Hg). destruct (plain_doc_repr p Hok) as (Hne & Hlen & _ & _ & Hall). unfold doc_repr_ttx. cbv zeta.
  destruct (md_gsi_fields stl_plain_now md (stl_of_plain (ptrunc 40000000 p)) Hm) as (F & D & T).
  split; [exact Hne|]. split; [exact Hlen|]. split; [exact Hg|]. split; [rewrite D; reflexivity|].
  rewrite F, D, T. destruct (plain_gsi_fields stl_plain_now (stl_of_plain (ptrunc 40000000 p))) as (F0 & D0 & T0).
  rewrite F0, D0, T0 in Hall. exact Hall.
Qed.

Theorem stl_plain_faithful_md md p : stl_conv_ok md p ->
  exists data, write_stl stl_plain_now md (stl_of_plain p) = Ok data /\ stl_dec data = Ok (ptrunc 40000000 p).
Proof.
  intros Hok. destruct (write_read_ttx _ _ _ (plain_doc_repr_md md p Hok)) as (out & W & R).
  destruct Hok as ((Hne & Hlen & Hall) & Hm & _).
  assert (Hne1 : stl_of_plain p <> []) by (destruct p as [|[[s e] ls] r]; [contradiction | discriminate]).
  assert (Hne2 : stl_of_plain (ptrunc 40000000 p) <> []) by (destruct p as [|[[s e] ls] r]; [contradiction | discriminate]).
  rewrite (write_stl_eq _ _ _ Hne2) in W. assert (Eout : out = written stl_plain_now md (stl_of_plain (ptrunc 40000000 p))) by congruence.
  exists out. split.
  - rewrite (write_stl_eq _ _ _ Hne1), Eout, (written_trunc_md md p Hm Hall). reflexivity.
  - unfold stl_dec, dec_with. rewrite R. f_equal. apply read_back_plain.
Qed.

(* ================= a line of unstyled runs is written as one run ================= *)
Lemma runs_item_text s e ls :
  stl_item_text (mkWitem s e None None (map (map (fun t => mkWrun t false false false)) ls)) = join [194; 138]%N (map (join [32%N]) ls).
Proof.
  unfold stl_item_text. cbn [wi_lines]. rewrite map_map. f_equal. apply map_ext. intros l. rewrite map_map. f_equal.
  rewrite <- (map_id l) at 2. apply map_ext. intros t. reflexivity.
Qed.
Lemma tti_blocks_runs fps dsc tcp : forall rv idx,
  tti_blocks fps dsc tcp (stl_of_runs rv) idx = tti_blocks fps dsc tcp (stl_of_plain (rv_joined rv)) idx.
Proof.
  induction rv as [|[[s e] ls] r IH]; intros idx; [reflexivity|]. cbn [stl_of_runs rv_joined stl_of_plain map tti_blocks].
  fold (stl_of_runs r). fold (rv_joined r). fold (stl_of_plain (rv_joined r)). rewrite IH. f_equal.
  unfold tti_bytes, new_tti. cbn [t_sgn t_sn t_ebn t_cs t_in t_out t_vp t_jc t_cf t_text wi_st wi_en wi_just wi_vp].
  rewrite runs_item_text, plain_item_text. reflexivity.
Qed.
Theorem written_runs_joined now md rv : written now md (stl_of_runs rv) = written now md (stl_of_plain (rv_joined rv)).
Proof.
  assert (G : new_gsi now md (stl_of_runs rv) = new_gsi now md (stl_of_plain (rv_joined rv))).
  { assert (L : length (stl_of_runs rv) = length (stl_of_plain (rv_joined rv))) by (unfold stl_of_runs, stl_of_plain, rv_joined; rewrite !map_length; reflexivity).
    unfold new_gsi. rewrite L. destruct rv as [|[[s e] ls] r]; [reflexivity|]. destruct md; reflexivity. }
  unfold written. rewrite G, tti_blocks_runs. reflexivity.
Qed.

(* blanks disregarded, joining with a blank is putting together *)
Lemma nows_app a c : stl_nows (a ++ c) = stl_nows a ++ stl_nows c.
Proof. unfold stl_nows. apply filter_app. Qed.
Lemma nows_join ts : stl_nows (join [32%N] ts) = stl_nows (concat ts).
Proof.
  induction ts as [|t r IH]; [reflexivity|]. destruct r as [|t2 r'].
  - cbn [join concat]. rewrite app_nil_r. reflexivity.
  - change (join [32%N] (t :: t2 :: r')) with (t ++ [32%N] ++ join [32%N] (t2 :: r')). cbn [concat].
    rewrite !nows_app, IH. cbn [concat]. rewrite nows_app. reflexivity.
Qed.
Lemma plain_nows_joined rv : plain_nows (rv_joined rv) = plain_nows (rv_concat rv).
Proof.
  unfold plain_nows, rv_joined, rv_concat. rewrite !map_map. apply map_ext. intros [[s e] ls]. f_equal.
  rewrite !map_map. apply map_ext. intros ts. apply nows_join.
Qed.
Lemma plain_nows_trunc u p : plain_nows (ptrunc u p) = ptrunc u (plain_nows p).
Proof. unfold plain_nows, ptrunc. rewrite !map_map. apply map_ext. intros [[s e] ls]. reflexivity. Qed.

(* ================= the generic statement ================= *)
(* what WriteToSTL sees: metadata md, cues in the runs view rv.  The file reads back as the cues with the runs of each
   line joined by a blank; blanks disregarded, these are the cues of the plain view *)
Theorem conversion_into_stl md rv : stl_conv_ok md (rv_joined rv) ->
  exists dst, write_conv_stl (md, stl_of_runs rv) = Ok dst /\
              stl_dec dst = Ok (ptrunc 40000000 (rv_joined rv)) /\
              plain_nows (ptrunc 40000000 (rv_joined rv)) = plain_nows (ptrunc 40000000 (rv_concat rv)).
Proof.
  intros Hok. destruct (stl_plain_faithful_md md (rv_joined rv) Hok) as (data & W & R).
  assert (Hne : stl_of_runs rv <> []).
  { destruct Hok as ((Hne & _) & _). destruct rv as [|c r]; [contradiction | destruct c as [[s e] ls]; discriminate]. }
  assert (Hne' : stl_of_plain (rv_joined rv) <> []).
  { destruct Hok as ((Hne' & _) & _). destruct (rv_joined rv) as [|[[s e] ls] r]; [contradiction | discriminate]. }
  exists data. split; [|split; [exact R|]].
  - unfold write_conv_stl. cbn [fst snd]. rewrite (write_stl_eq _ _ _ Hne), written_runs_joined, <- (write_stl_eq _ _ _ Hne'). exact W.
  - rewrite !plain_nows_trunc, plain_nows_joined. reflexivity.
Qed.

(* ================= the four sources ================= *)
Lemma srt_runs_plain l : rv_concat (srt_runs l) = srt_to_plain l.
Proof.
  unfold rv_concat, srt_runs, srt_to_plain. rewrite map_map. apply map_ext. intros it. unfold sview. f_equal.
  rewrite map_map. apply map_ext. intros ln. reflexivity.
Qed.
Lemma vtt_runs_plain d : rv_concat (vtt_runs d) = vtt_to_plain d.
Proof.
  unfold rv_concat, vtt_runs, vtt_to_plain. rewrite map_map. apply map_ext. intros it. unfold vview. f_equal.
  rewrite map_map. apply map_ext. intros ln. reflexivity.
Qed.
Lemma ssa_runs_plain d : rv_concat (ssa_runs d) = ssa_to_plain d.
Proof.
  unfold rv_concat, ssa_runs, ssa_to_plain. rewrite map_map. apply map_ext. intros it. f_equal.
  rewrite map_map. apply map_ext. intros ln. reflexivity.
Qed.
Lemma ttml_runs_plain d : rv_concat (ttml_runs d) = ttml_to_plain d.
Proof.
  unfold rv_concat, ttml_runs, ttml_to_plain. rewrite map_map. apply map_ext. intros it. f_equal.
  rewrite map_map. apply map_ext. intros ln. reflexivity.
Qed.

(* the conversion succeeds; the STL file read back has the source's cues, in order, times truncated to the frame,
   and per line the source's text once blanks are disregarded *)
Definition styled_into_stl (x : option wmeta * list witem) (src_plain : plain) : Prop :=
  exists dst back, write_conv_stl x = Ok dst /\ stl_dec dst = Ok back /\
                   plain_nows back = plain_nows (ptrunc 40000000 src_plain).

Theorem srt_to_stl_styled l : stl_conv_ok None (rv_joined (srt_runs l)) -> styled_into_stl (conv_srt_stl l) (srt_to_plain l).
Proof.
  intros H. destruct (conversion_into_stl None (srt_runs l) H) as (dst & W & R & E). exists dst, (ptrunc 40000000 (rv_joined (srt_runs l))).
  split; [exact W|]. split; [exact R|]. rewrite E, srt_runs_plain. reflexivity.
Qed.
Theorem vtt_to_stl_styled d : stl_conv_ok (fst (conv_vtt_stl d)) (rv_joined (vtt_runs d)) -> styled_into_stl (conv_vtt_stl d) (vtt_to_plain d).
Proof.
  intros H. destruct (conversion_into_stl _ (vtt_runs d) H) as (dst & W & R & E). exists dst, (ptrunc 40000000 (rv_joined (vtt_runs d))).
  split; [exact W|]. split; [exact R|]. rewrite E, vtt_runs_plain. reflexivity.
Qed.
Theorem ssa_to_stl_styled d : stl_conv_ok (fst (conv_ssa_stl d)) (rv_joined (ssa_runs d)) -> styled_into_stl (conv_ssa_stl d) (ssa_to_plain d).
Proof.
  intros H. destruct (conversion_into_stl _ (ssa_runs d) H) as (dst & W & R & E). exists dst, (ptrunc 40000000 (rv_joined (ssa_runs d))).
  split; [exact W|]. split; [exact R|]. rewrite E, ssa_runs_plain. reflexivity.
Qed.
Theorem ttml_to_stl_styled d : stl_conv_ok (fst (conv_ttml_stl d)) (rv_joined (ttml_runs d)) -> styled_into_stl (conv_ttml_stl d) (ttml_to_plain d).
Proof.
  intros H. destruct (conversion_into_stl _ (ttml_runs d) H) as (dst & W & R & E). exists dst, (ptrunc 40000000 (rv_joined (ttml_runs d))).
  split; [exact W|]. split; [exact R|]. rewrite E, ttml_runs_plain. reflexivity.
Qed.

(* ================= non-vacuity ================= *)
(* a TTML-like cue list with metadata (frame rate 25, title "Film", language english) whose first line has two runs
   "Hello" "world" (as <span>s) and whose second cue starts off the frame grid *)
Definition ex_tdoc : tdoc :=
  mkDoc (Some (mkMeta 25 [70;105;108;109]%N [] [101;110;103;108;105;115;104]%N)) [] []
    [mkItem 1000000000 2500000000 None None no_attrs [[mkRun [72;101;108;108;111]%N None no_attrs; mkRun [119;111;114;108;100]%N None no_attrs]; [mkRun [195;169]%N None no_attrs]];
     mkItem 3000000123 4000000000 None None no_attrs [[mkRun [89;111;33]%N None no_attrs]]].
Ltac conv_text_ok cs :=
  split; [discriminate | split; [vm_compute; reflexivity |
    exists cs; split; [reflexivity | repeat (apply Forall_cons; [apply in_rep_In; vm_compute; reflexivity|]); apply Forall_nil]]].
Example ex_tdoc_ok : stl_conv_ok (fst (conv_ttml_stl ex_tdoc)) (rv_joined (ttml_runs ex_tdoc)).
Proof.
  split; [|split; [cbn; repeat split; discriminate | apply gsi_reprb_sound; vm_compute; reflexivity]].
  assert (E : rv_joined (ttml_runs ex_tdoc) =
              [(1000000000, 2500000000, [[72;101;108;108;111;32;119;111;114;108;100]; [195;169]]%N); (3000000123, 4000000000, [[89;111;33]]%N)])
    by (vm_compute; reflexivity).
  rewrite E. split; [discriminate|]. split; [vm_compute; reflexivity|]. constructor; [|constructor; [|constructor]].
  - split; [unfold hour_ns; lia|]. split; [unfold hour_ns; lia|]. split; [discriminate|]. split; [|vm_compute; lia].
    constructor; [conv_text_ok [[72]; [101]; [108]; [108]; [111]; [32]; [119]; [111]; [114]; [108]; [100]]%N|]. constructor; [conv_text_ok [[195;169]]%N|]. constructor.
  - split; [unfold hour_ns; lia|]. split; [unfold hour_ns; lia|]. split; [discriminate|]. split; [|vm_compute; lia].
    constructor; [conv_text_ok [[89]; [111]; [33]]%N|]. constructor.
Qed.
Example ex_tdoc_converted :
  exists dst back, write_conv_stl (conv_ttml_stl ex_tdoc) = Ok dst /\ length dst = 1280%nat /\ stl_dec dst = Ok back /\
    back = [(1000000000, 2480000000, [[72;101;108;108;111;32;119;111;114;108;100]; [195;169]]%N); (3000000000, 4000000000, [[89;111;33]]%N)] /\
    plain_nows back = plain_nows (ptrunc 40000000 (ttml_to_plain ex_tdoc)) /\
    stl_sl 16 4 dst = [70;105;108;109]%N /\ stl_sl 14 2 dst = [48;57]%N.
Proof.
  destruct (conversion_into_stl _ (ttml_runs ex_tdoc) ex_tdoc_ok) as (dst & W & R & E).
  exists dst, (ptrunc 40000000 (rv_joined (ttml_runs ex_tdoc))). split; [exact W|]. split; [exact (write_layout _ _ _ _ W)|]. split; [exact R|].
  split; [vm_compute; reflexivity|]. split; [rewrite E, ttml_runs_plain; reflexivity|].
  unfold write_conv_stl in W. vm_compute in W. inversion W. vm_compute. split; reflexivity.
Qed.
