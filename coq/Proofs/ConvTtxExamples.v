(* C07, styled teletext sources: non-vacuity.  A page 888 stream with colour codes inside the box, double height in front of
   it, several runs per row, spaces before and after the texts; the conversion theorems of ConvTtxProofs(2).v instantiated on
   it, with the plain text that comes back written out. *)
From Coq Require Import List ZArith NArith Bool Lia.
From Astisub Require Import Kit.Base Kit.Str Model.Dur Model.TtxRow Model.Ttx Model.TtxSpec Model.Plain Model.PlainTtx Model.ConvTtx.
From Astisub Require Import Model.Srt Model.Vtt Model.Conv Model.Ssa Model.PlainSsa Model.Stl Model.PlainStl Model.Ttml Model.PlainTtml.
From Astisub Require Import Proofs.SrtProofs Proofs.VttBase Proofs.VttLine Proofs.VttDoc Proofs.PlainProofs Proofs.PlainStlProofs Proofs.SsaRepr Proofs.SsaDoc Proofs.PlainSsaProofs
  Proofs.TtmlDocSpec Proofs.ConvTtxProofs Proofs.ConvTtxProofs2.
Import ListNotations.
Open Scope N_scope.

Definition ex_styled_pes (t : Z) (rows : list (N * rowspec)) : pes :=
  PUnits t 16 (ttx_hdr_unit :: map (fun r => ttx_row_unit (fst r) (row_cells (snd r))) rows) [].
(* cue 1, row 1: "Hello" (no colour), red "red", white "white" with spaces around it; row 2: double height, green "green".
   cue 2: cyan, double size "BIG".  Then an erase page. *)
Definition ex_styled : ttx_doc := map enc_pes
  [ ex_styled_pes 0 [(1, mkRowspec [] 1 [mkRseg [] [72;101;108;108;111]; mkRseg [1] [114;101;100]; mkRseg [7] [32;119;104;105;116;101;32;32]] (Some (repeat 32 19)));
                     (2, mkRowspec [13] 1 [mkRseg [2] [103;114;101;101;110]] (Some (repeat 32 30)))];
    ex_styled_pes 2000000000 [(1, mkRowspec [] 0 [mkRseg [15; 6] [66;73;71]] (Some (repeat 32 33)))];
    ex_styled_pes 3500000000 [] ].
(* the same with colours WebVTT has no class for *)
Definition ex_classless : ttx_doc := map enc_pes
  [ ex_styled_pes 0 [(1, mkRowspec [] 1 [mkRseg [] [72;101;108;108;111]; mkRseg [4] [98;108;117;101]; mkRseg [7] [32;119;104;105;116;101;32;32]] (Some (repeat 32 19)));
                     (2, mkRowspec [13] 1 [mkRseg [2] [103;114;101;101;110]] (Some (repeat 32 30)))];
    ex_styled_pes 2000000000 [(1, mkRowspec [] 0 [mkRseg [15; 0] [66;73;71]] (Some (repeat 32 33)))];
    ex_styled_pes 3500000000 [] ].
Definition ex_styled_cs : list tcue := Eval vm_compute in match ttx_feed 0 ex_styled with Ok cs => cs | _ => [] end.
Definition ex_classless_cs : list tcue := Eval vm_compute in match ttx_feed 0 ex_classless with Ok cs => cs | _ => [] end.
Example ex_styled_feed : ttx_feed 0 ex_styled = Ok ex_styled_cs. Proof. vm_compute. reflexivity. Qed.
Example ex_classless_feed : ttx_feed 0 ex_classless = Ok ex_classless_cs. Proof. vm_compute. reflexivity. Qed.
(* three runs in the first line (none / red / white), one in the second (green, double height), one in the second cue *)
Example ex_styled_shape :
  map (fun c => (c_st c, c_en c, map (map (fun r : trunT => (tr_text r, ts_color (tr_sty r), ts_dh (tr_sty r)))) (c_lines c))) ex_styled_cs =
  [ (0%Z, 2000000000%Z, [ [([72;101;108;108;111], None, None); ([114;101;100], Some 1, None); ([119;104;105;116;101], Some 7, None)];
                         [([103;114;101;101;110], Some 2, Some true)] ]);
    (2000000000%Z, 3500000000%Z, [ [([66;73;71], Some 6, None)] ]) ].
Proof. vm_compute. reflexivity. Qed.
(* the texts: run texts put together (the reader trimmed the space in front of "white": the words are glued), and joined
   with one space *)
Example ex_styled_plain : ttx_to_plain ex_styled_cs =
  [ (0%Z, 2000000000%Z, [[72;101;108;108;111;114;101;100;119;104;105;116;101]; [103;114;101;101;110]]); (2000000000%Z, 3500000000%Z, [[66;73;71]]) ].
Proof. vm_compute. reflexivity. Qed.
Example ex_styled_spaced : ttx_to_plain_spaced ex_styled_cs =
  [ (0%Z, 2000000000%Z, [[72;101;108;108;111;32;114;101;100;32;119;104;105;116;101]; [103;114;101;101;110]]); (2000000000%Z, 3500000000%Z, [[66;73;71]]) ].
Proof. vm_compute. reflexivity. Qed.

Example ex_styled_to_srt : exists dst, convert_ttx_srt ex_styled = Ok dst /\
  srt_dec dst = Ok [ (0%Z, 2000000000%Z, [[72;101;108;108;111;114;101;100;119;104;105;116;101]; [103;114;101;101;110]]); (2000000000%Z, 3500000000%Z, [[66;73;71]]) ].
Proof.
  destruct (ttx_to_srt_styled ex_styled ex_styled_cs ex_styled_feed) as (dst & H1 & H2).
  - vm_compute. reflexivity.
  - rewrite ex_styled_plain. split; [apply repr_itemsb_ok; vm_compute; reflexivity | split; [discriminate | vm_compute; discriminate]].
  - exists dst. split; [exact H1|]. rewrite H2. vm_compute. reflexivity.
Qed.
Example ex_styled_to_ssa : exists dst, convert_ttx_ssa ex_styled = Ok dst /\
  ssa_dec dst = Ok [ (0%Z, 2000000000%Z, [[72;101;108;108;111;114;101;100;119;104;105;116;101]; [103;114;101;101;110]]); (2000000000%Z, 3500000000%Z, [[66;73;71]]) ].
Proof.
  destruct (ttx_to_ssa_styled ex_styled ex_styled_cs ex_styled_feed) as (dst & H1 & H2).
  - apply ssa_plain_okb_ok. vm_compute. reflexivity.
  - exists dst. split; [exact H1|]. rewrite H2. vm_compute. reflexivity.
Qed.
Example ex_styled_to_ttml : exists dst d', convert_ttx_ttml ex_styled = Ok dst /\ read_ttml_bytes dst = Ok d' /\
  ttml_to_plain d' = [ (0%Z, 2000000000%Z, [[72;101;108;108;111;114;101;100;119;104;105;116;101]; [103;114;101;101;110]]); (2000000000%Z, 3500000000%Z, [[66;73;71]]) ].
Proof.
  destruct (ttx_to_ttml_styled ex_styled ex_styled_cs ex_styled_feed) as (dst & d' & H1 & H2 & H3).
  - vm_compute. reflexivity.
  - exists dst, d'. split; [exact H1|]. split; [exact H2|]. rewrite H3. vm_compute. reflexivity.
Qed.
Example ex_styled_stl_ok : stl_plain_ok (ttx_to_plain_spaced ex_styled_cs).
Proof.
  rewrite ex_styled_spaced.
  split; [discriminate|]. split; [vm_compute; reflexivity|]. constructor; [|constructor; [|constructor]].
  - split; [unfold hour_ns; lia|]. split; [unfold hour_ns; lia|]. split; [discriminate|]. split; [|vm_compute; lia].
    constructor; [text_ok_by [[72];[101];[108];[108];[111];[32];[114];[101];[100];[32];[119];[104];[105];[116];[101]]%N|].
    constructor; [text_ok_by [[103];[114];[101];[101];[110]]%N|]. constructor.
  - split; [unfold hour_ns; lia|]. split; [unfold hour_ns; lia|]. split; [discriminate|]. split; [|vm_compute; lia].
    constructor; [text_ok_by [[66];[73];[71]]%N|]. constructor.
Qed.
Example ex_styled_to_stl : exists dst, convert_ttx_stl ex_styled = Ok dst /\
  stl_dec dst = Ok [ (0%Z, 2000000000%Z, [[72;101;108;108;111;32;114;101;100;32;119;104;105;116;101]; [103;114;101;101;110]]); (2000000000%Z, 3480000000%Z, [[66;73;71]]) ].
Proof.
  destruct (ttx_to_stl_styled ex_styled ex_styled_cs ex_styled_feed ex_styled_stl_ok) as (dst & H1 & H2).
  exists dst. split; [exact H1|]. rewrite H2. vm_compute. reflexivity.
Qed.
Example ex_classless_ok : cues_classless ex_classless_cs = true /\ length (concat (flat_map (fun c => c_lines c) ex_classless_cs)) = 5%nat /\
  map (fun r => ts_color (tr_sty r)) (concat (flat_map (fun c => c_lines c) ex_classless_cs)) = [None; Some 4; Some 7; Some 2; Some 0].
Proof. vm_compute. repeat split. Qed.
Example ex_classless_plain : ttx_to_plain ex_classless_cs =
  [ (0%Z, 2000000000%Z, [[72;101;108;108;111;98;108;117;101;119;104;105;116;101]; [103;114;101;101;110]]); (2000000000%Z, 3500000000%Z, [[66;73;71]]) ].
Proof. vm_compute. reflexivity. Qed.
Example ex_classless_vtt_ok : vtt_plain_ok (ttx_to_plain ex_classless_cs).
Proof.
  rewrite ex_classless_plain. unfold vtt_plain_ok. constructor.
  - discriminate.
  - vm_compute. discriminate.
  - constructor.
  - intros k [].
  - repeat constructor; try (vm_compute; reflexivity); try (vm_compute; discriminate); try exact I.
  - split; vm_compute; reflexivity.
  - exact I.
Qed.
Example ex_classless_to_vtt : exists dst, convert_ttx_vtt ex_classless = Ok dst /\
  vtt_dec dst = Ok [ (0%Z, 2000000000%Z, [[72;101;108;108;111;98;108;117;101;119;104;105;116;101]; [103;114;101;101;110]]); (2000000000%Z, 3500000000%Z, [[66;73;71]]) ].
Proof.
  destruct (ttx_to_vtt_styled_partial ex_classless ex_classless_cs ex_classless_feed (proj1 ex_classless_ok)) as (dst & H1 & H2).
  - vm_compute. reflexivity.
  - exact ex_classless_vtt_ok.
  - exists dst. split; [exact H1|]. rewrite H2. vm_compute. reflexivity.
Qed.
