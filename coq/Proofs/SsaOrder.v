(* SSA/ASS writer: the bytes do not depend on the order in which the runtime ranges over the styles map
   (the writer sorts the identifiers it collects). *)
From Coq Require Import List NArith Bool Lia Permutation Sorted.
From Astisub Require Import Kit.Base Kit.Str Model.Ssa.
Import ListNotations.
Open Scope N_scope.

Lemma str_leb_refl a : str_leb a a = true.
Proof. induction a as [|x a IH]; [reflexivity|]. cbn [str_leb]. rewrite N.ltb_irrefl. exact IH. Qed.
Lemma str_leb_total a : forall b, str_leb a b = true \/ str_leb b a = true.
Proof.
  induction a as [|x a IH]; intros b; [left; reflexivity|]. destruct b as [|y b]; [right; reflexivity|].
  cbn [str_leb]. destruct (N.ltb_spec x y) as [H|H]; [left; reflexivity|].
  destruct (N.ltb_spec y x) as [H'|H']; [right; reflexivity|]. apply IH.
Qed.
Lemma str_leb_antisym a : forall b, str_leb a b = true -> str_leb b a = true -> a = b.
Proof.
  induction a as [|x a IH]; intros b H1 H2; destruct b as [|y b]; try reflexivity; try discriminate.
  cbn [str_leb] in H1, H2. destruct (N.ltb_spec x y) as [H|H].
  - destruct (N.ltb_spec y x) as [H'|H']; [lia|]. discriminate.
  - destruct (N.ltb_spec y x) as [H'|H']; [discriminate|]. assert (x = y) by lia. subst. f_equal. apply IH; assumption.
Qed.
Lemma str_leb_trans a : forall b c, str_leb a b = true -> str_leb b c = true -> str_leb a c = true.
Proof.
  induction a as [|x a IH]; intros b c H1 H2; [reflexivity|]. destruct b as [|y b]; [discriminate|]. destruct c as [|z c]; [discriminate|].
  cbn [str_leb] in *. destruct (N.ltb_spec x y) as [Hxy|Hxy].
  - destruct (N.ltb_spec y z) as [Hyz|Hyz].
    + destruct (N.ltb_spec x z); [reflexivity | lia].
    + destruct (N.ltb_spec z y); [discriminate|]. assert (y = z) by lia. subst. destruct (N.ltb_spec x z); [reflexivity | lia].
  - destruct (N.ltb_spec y x) as [Hyx|Hyx]; [discriminate|]. assert (x = y) by lia. subst.
    destruct (N.ltb_spec y z) as [Hyz|Hyz]; [reflexivity|].
    destruct (N.ltb_spec z y); [discriminate|]. eapply IH; eassumption.
Qed.

Definition ssorted (l : list str) : Prop := StronglySorted (fun a b => str_leb a b = true) l.
Lemma sinsert_perm x l : Permutation (x :: l) (sinsert x l).
Proof.
  induction l as [|y r IH]; cbn [sinsert]; [reflexivity|]. destruct (str_leb x y); [reflexivity|].
  rewrite perm_swap. constructor. exact IH.
Qed.
Lemma ssort_perm l : Permutation l (ssort l).
Proof. induction l as [|x r IH]; cbn [ssort fold_right]; [constructor|]. etransitivity; [|apply sinsert_perm]. constructor. exact IH. Qed.
Lemma sinsert_sorted x l : ssorted l -> ssorted (sinsert x l).
Proof.
  induction l as [|y r IH]; intros Hs; cbn [sinsert]; [repeat constructor|].
  apply StronglySorted_inv in Hs as Hs'. destruct Hs' as [Hr Hy]. destruct (str_leb x y) eqn:C.
  - constructor; [exact Hs|]. constructor; [exact C|]. rewrite Forall_forall in *. intros z Hz. eapply str_leb_trans; [exact C | apply Hy; exact Hz].
  - assert (Hyx : str_leb y x = true) by (destruct (str_leb_total x y); congruence).
    constructor; [apply IH; exact Hr|]. rewrite Forall_forall in *. intros z Hz.
    apply (Permutation_in _ (Permutation_sym (sinsert_perm x r))) in Hz. destruct Hz as [<-|Hz]; [exact Hyx | apply Hy; exact Hz].
Qed.
Lemma ssort_ssorted l : ssorted (ssort l).
Proof. induction l as [|x r IH]; cbn [ssort fold_right]; [constructor|]. apply sinsert_sorted. exact IH. Qed.
Lemma ssorted_perm_eq l1 : forall l2, ssorted l1 -> ssorted l2 -> Permutation l1 l2 -> l1 = l2.
Proof.
  induction l1 as [|a r1 IH]; intros l2 S1 S2 P.
  - apply Permutation_nil in P. subst. reflexivity.
  - destruct l2 as [|b r2]; [apply Permutation_sym, Permutation_nil in P; discriminate|].
    apply StronglySorted_inv in S1 as S1'. destruct S1' as [Sr1 Ha]. apply StronglySorted_inv in S2 as S2'. destruct S2' as [Sr2 Hb].
    assert (Hab : a = b).
    { assert (Ia : In a (b :: r2)) by (eapply Permutation_in; [exact P | left; reflexivity]).
      assert (Ib : In b (a :: r1)) by (eapply Permutation_in; [apply Permutation_sym; exact P | left; reflexivity]).
      rewrite Forall_forall in Ha, Hb.
      destruct Ia as [E|Ia]; [symmetry; exact E|]. destruct Ib as [E|Ib]; [exact E|].
      apply str_leb_antisym; [apply Ha; exact Ib | apply Hb; exact Ia]. }
    subst b. f_equal. apply IH; [exact Sr1 | exact Sr2 | eapply Permutation_cons_inv; exact P].
Qed.
Theorem ssort_order_independent l l' : Permutation l l' -> ssort l = ssort l'.
Proof.
  intros P. apply ssorted_perm_eq; [apply ssort_ssorted | apply ssort_ssorted|].
  etransitivity; [apply Permutation_sym, ssort_perm|]. etransitivity; [exact P | apply ssort_perm].
Qed.
Lemma filter_perm {A} (f : A -> bool) l l' : Permutation l l' -> Permutation (filter f l) (filter f l').
Proof.
  induction 1 as [|x l l' P IH|x y l|l l' l'' P1 IH1 P2 IH2]; cbn [filter].
  - constructor.
  - destruct (f x); [constructor; exact IH | exact IH].
  - destruct (f x), (f y); try reflexivity. apply perm_swap.
  - etransitivity; eassumption.
Qed.

(* MAP ORDER INDEPENDENCE: whatever order the runtime ranges over s.Styles in, the same bytes are written *)
Theorem write_order_independent d order order' : Permutation order order' -> write_ssa d order = write_ssa d order'.
Proof.
  intros P. unfold write_ssa, write_ssa_chunks, styles_bytes.
  rewrite (ssort_order_independent _ _ (filter_perm _ _ _ P)). reflexivity.
Qed.
